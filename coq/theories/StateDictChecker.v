(* C16 - certified boolean checkers: decide on the implementation's concrete outputs whether the
   property holds there (independently of the model's flatten/unflatten/load), plus non-vacuity
   examples for the theorems of StateDictProofs / StateDictObjProofs. *)
From Coq Require Import List ZArith Bool String Arith Lia.
From Shampoo Require Import StateDict StateDictProofs StateDictObjProofs.
Import ListNotations.

(* ---- generic decidable helpers ---- *)

Section Dec.
  Context {A : Type} (eqb : A -> A -> bool).
  Hypothesis eqb_eq : forall a b, eqb a b = true <-> a = b.

  Lemma nodupb_sound_g l : nodupb eqb l = true -> NoDup l.
  Proof.
    induction l as [|a l IH]; cbn [nodupb]; intros H; [constructor|].
    apply andb_true_iff in H as [H1 H2]. constructor; [|apply IH; exact H2].
    intros Hin. apply negb_true_iff in H1.
    assert (existsb (eqb a) l = true) by (apply existsb_exists; exists a; split; [exact Hin|apply eqb_eq; reflexivity]).
    congruence.
  Qed.

  Definition memb (x : A) (l : list A) : bool := existsb (eqb x) l.

  Lemma memb_in x l : memb x l = true <-> In x l.
  Proof.
    unfold memb. rewrite existsb_exists. split.
    - intros (y & Hy & E). apply eqb_eq in E. subst. exact Hy.
    - intros H. exists x. split; [exact H|apply eqb_eq; reflexivity].
  Qed.

  (* same length and same elements *)
  Definition seteqb (l1 l2 : list A) : bool :=
    Nat.eqb (List.length l1) (List.length l2) && forallb (fun x => memb x l2) l1 && forallb (fun x => memb x l1) l2.

  Lemma seteqb_sound l1 l2 :
    seteqb l1 l2 = true -> List.length l1 = List.length l2 /\ forall x, In x l1 <-> In x l2.
  Proof.
    unfold seteqb. intros H. apply andb_true_iff in H as [H H3]. apply andb_true_iff in H as [H1 H2].
    apply Nat.eqb_eq in H1. rewrite forallb_forall in H2, H3. split; [exact H1|].
    intros x; split; intros Hx; apply memb_in; auto.
  Qed.
End Dec.

Definition pi_eqb (a b : list key * nat) : bool := path_eqb (fst a) (fst b) && Nat.eqb (snd a) (snd b).

Lemma pi_eqb_eq a b : pi_eqb a b = true <-> a = b.
Proof.
  destruct a as [p i], b as [q j]. unfold pi_eqb. cbn [fst snd]. rewrite andb_true_iff, path_eqb_eq, Nat.eqb_eq.
  split; [intros [-> ->]; reflexivity|intros E; injection E; auto].
Qed.

(* ---- dict equality up to key order (Python `==` on dicts), keeping key types ---- *)

Fixpoint tree_eqvb (a b : tree) {struct a} : bool :=
  match a, b with
  | Leaf x, Leaf y => lf_eqb x y
  | Node d1, Node d2 =>
      Nat.eqb (List.length d1) (List.length d2)
      && (fix all (d : dict) : bool :=
            match d with
            | [] => true
            | (k, v) :: r => match dget key_eqb k d2 with Some v' => tree_eqvb v v' | None => false end && all r
            end) d1
  | _, _ => false
  end.

Inductive tree_eqv : tree -> tree -> Prop :=
| eqv_leaf x : tree_eqv (Leaf x) (Leaf x)
| eqv_node d1 d2 :
    List.length d1 = List.length d2 ->
    Forall (fun kv => exists v', dget key_eqb (fst kv) d2 = Some v' /\ tree_eqv (snd kv) v') d1 ->
    tree_eqv (Node d1) (Node d2).

Lemma tree_eqvb_sound a : forall b, tree_eqvb a b = true -> tree_eqv a b.
Proof.
  induction a as [x|d1 IH] using tree_ind'; intros [y|d2] H; cbn [tree_eqvb] in H; try discriminate.
  - apply lf_eqb_eq in H. subst. constructor.
  - apply andb_true_iff in H as [H1 H2]. apply Nat.eqb_eq in H1. constructor; [exact H1|]. clear H1.
    induction d1 as [|[k v] d1 IHd]; [constructor|].
    inversion IH as [|? ? Hv Hr]; subst. apply andb_true_iff in H2 as [Ha Hb]. constructor; [|auto].
    cbn [fst snd] in *. destruct (dget key_eqb k d2) as [v'|]; [|discriminate]. exists v'. auto.
Qed.

(* ========================================================================================== *)
(* flatten / unflatten: the implementation flattened d into `raw` (its own flat key strings, with the
   leaf stored under each) and unflattened that into `unfl`                                       *)

Definition C16_checkb_flat (d : dict) (raw : list (string * lf)) (unfl : dict) : bool :=
  nodupb String.eqb (map fst raw)
  && seteqb lf_eqb (map snd raw) (map snd (dpaths d))
  && tree_eqvb (Node unfl) (Node (prune_dict d)).

Definition flat_spec (d : dict) (raw : list (string * lf)) (unfl : dict) : Prop :=
  NoDup (map fst raw)                                             (* no two key paths share a flat key ... *)
  /\ List.length raw = List.length (dpaths d)                     (* ... one flat key per leaf path *)
  /\ (forall x, In x (map snd raw) <-> In x (map snd (dpaths d))) (* holding the same leaf objects *)
  /\ tree_eqv (Node unfl) (Node (prune_dict d)).                  (* nesting, key types, leaves restored *)

Lemma C16_checkb_flat_sound d raw unfl : C16_checkb_flat d raw unfl = true -> flat_spec d raw unfl.
Proof.
  unfold C16_checkb_flat, flat_spec. intros H. apply andb_true_iff in H as [H H3]. apply andb_true_iff in H as [H1 H2].
  split; [apply (nodupb_sound_g String.eqb String.eqb_eq); exact H1|].
  apply (seteqb_sound lf_eqb lf_eqb_eq) in H2 as [L S]. rewrite !map_length in L.
  split; [exact L|]. split; [exact S|]. apply tree_eqvb_sound; exact H3.
Qed.

(* ========================================================================================== *)
(* state_dict: the implementation returned `obs` for module m                                     *)

Definition C16_checkb_sd (m : obj) (obs : tree) : bool := seteqb pi_eqb (tensor_paths obs) (tensors m).

Lemma C16_checkb_sd_sound m obs :
  C16_checkb_sd m obs = true ->
  List.length (tensor_paths obs) = List.length (tensors m)
  /\ forall p i, In (p, i) (tensor_paths obs) <-> Reach m p i.
Proof.
  intros H. apply (seteqb_sound pi_eqb pi_eqb_eq) in H as [L S]. split; [exact L|].
  intros p i. rewrite reach_iff. apply S.
Qed.

(* ========================================================================================== *)
(* load_state_dict / restore: state of m' loaded into m (heap before: h0); the implementation
   finished without exception (ok), afterwards m holds the tensors `obs_t` (path, identity) and
   the tensors' contents are `obs_h`                                                              *)

Definition C16_checkb_load (m m' : obj) (h0 : list (nat * list Z)) (ok : bool)
           (obs_t : list (list key * nat)) (obs_h : list (nat * list Z)) : bool :=
  ok
  && seteqb pi_eqb obs_t (tensors m)
  && forallb (fun pi => match dget path_eqb (fst pi) (tensors m') with
                        | Some j => list_eqb Z.eqb (heap_of obs_h (snd pi)) (heap_of h0 j)
                        | None => false
                        end) (tensors m).

Lemma list_eqb_Z l1 : forall l2, list_eqb Z.eqb l1 l2 = true -> l1 = l2.
Proof.
  induction l1 as [|a l1 IH]; intros [|b l2] H; cbn [list_eqb] in H; try discriminate; [reflexivity|].
  apply andb_true_iff in H as [H1 H2]. apply Z.eqb_eq in H1. f_equal; auto.
Qed.

Lemma C16_checkb_load_sound m m' h0 ok obs_t obs_h :
  C16_checkb_load m m' h0 ok obs_t obs_h = true ->
  ok = true
  /\ (forall p i, In (p, i) obs_t <-> Reach m p i)                 (* the same tensor objects, in place *)
  /\ forall p i, Reach m p i ->
       exists j, dget path_eqb p (tensors m') = Some j /\ heap_of obs_h i = heap_of h0 j.
Proof.
  unfold C16_checkb_load. intros H. apply andb_true_iff in H as [H H3]. apply andb_true_iff in H as [H1 H2].
  split; [exact H1|]. apply (seteqb_sound pi_eqb pi_eqb_eq) in H2 as [_ S].
  split; [intros p i; rewrite reach_iff; apply S|].
  intros p i Hr. apply reach_iff in Hr. rewrite forallb_forall in H3. specialize (H3 (p, i) Hr). cbn [fst snd] in H3.
  destruct (dget path_eqb p (tensors m')) as [j|]; [|discriminate]. exists j. split; [reflexivity|].
  apply list_eqb_Z; exact H3.
Qed.

(* one checker over the kinds of observation the harness makes *)
Inductive c16_obs :=
| ObsFlat (d : dict) (raw : list (string * lf)) (unfl : dict)
| ObsSd (m : obj) (obs : tree)
| ObsLoad (m m' : obj) (h0 : list (nat * list Z)) (ok : bool) (obs_t : list (list key * nat)) (obs_h : list (nat * list Z)).

Definition C16_checkb (o : c16_obs) : bool :=
  match o with
  | ObsFlat d raw unfl => C16_checkb_flat d raw unfl
  | ObsSd m obs => C16_checkb_sd m obs
  | ObsLoad m m' h0 ok obs_t obs_h => C16_checkb_load m m' h0 ok obs_t obs_h
  end.

Definition C16_spec (o : c16_obs) : Prop :=
  match o with
  | ObsFlat d raw unfl => flat_spec d raw unfl
  | ObsSd m obs =>
      List.length (tensor_paths obs) = List.length (tensors m) /\ forall p i, In (p, i) (tensor_paths obs) <-> Reach m p i
  | ObsLoad m m' h0 ok obs_t obs_h =>
      ok = true /\ (forall p i, In (p, i) obs_t <-> Reach m p i)
      /\ forall p i, Reach m p i -> exists j, dget path_eqb p (tensors m') = Some j /\ heap_of obs_h i = heap_of h0 j
  end.

Theorem C16_checkb_sound o : C16_checkb o = true -> C16_spec o.
Proof.
  destruct o; cbn [C16_checkb C16_spec].
  - apply C16_checkb_flat_sound.
  - apply C16_checkb_sd_sound.
  - apply C16_checkb_load_sound.
Qed.

(* ========================================================================================== *)
(* Non-vacuity: the JSON contract has models, the theorems' hypotheses are satisfiable on
   non-trivial instances, and the instances behave as the theorems say.                           *)

Open Scope string_scope.

(* two instances of the oracle contract *)
Example json_contract_instance_paths :
  (forall a b, xkey_eqb a b = true <-> a = b) /\ (forall p, x_loads (x_dumps p) = Some p).
Proof. split; [exact xkey_eqb_eq|exact x_loads_dumps]. Qed.

Example json_contract_instance_strings :
  (forall a b, String.eqb a b = true <-> a = b) /\ (forall p, s_loads (s_dumps p) = Some p).
Proof. split; [exact String.eqb_eq|exact s_loads_dumps]. Qed.

(* depth 4, adversarial keys: "1" next to 1, separators, quotes, brackets, empty key, negative and
   large ints, two leafless sub-dicts (one nested), the codec's own delimiters *)
Definition ex_dict : dict :=
  [ (KStr "1", Leaf (LT 0));
    (KInt 1, Node [ (KStr "a.b", Leaf (LT 1)); (KStr "a", Node [ (KStr "b", Leaf (LT 2)) ]);
                    (KStr "", Node [ (KInt (-7), Leaf (LT 3)); (KStr "[""x"", 1]", Leaf (LV 0 5)) ]) ]);
    (KStr "empty", Node [ (KStr "deeper", Node []) ]);
    (KInt 123456789012345678901234567890, Node [ (KStr "\|/", Node [ (KInt 0, Node [ (KStr ",", Leaf (LT 4)) ]) ]) ]);
    (KStr "z", Node []) ].

Example ex_dict_wf : wf (Node ex_dict).
Proof. apply wfb_sound. vm_compute. reflexivity. Qed.

Example ex_roundtrip_strings :
  unflatten string s_loads (flatten string String.eqb s_dumps ex_dict) = Ok (prune_dict ex_dict)
  /\ List.length (flatten string String.eqb s_dumps ex_dict) = 6%nat
  /\ dict_eqb (prune_dict ex_dict) ex_dict = false.
Proof. vm_compute. repeat split. Qed.

Example ex_roundtrip_by_theorem :
  unflatten string s_loads (flatten string String.eqb s_dumps ex_dict) = Ok (prune_dict ex_dict).
Proof. exact (unflatten_flatten string String.eqb s_dumps s_loads String.eqb_eq s_loads_dumps ex_dict ex_dict_wf). Qed.

Definition ex_full : dict :=
  [ (KInt 0, Node [ (KStr "0", Leaf (LT 0)); (KInt 0, Node [ (KInt (-1), Leaf (LT 1)) ]) ]); (KStr "s", Leaf (LT 2)) ].

Example ex_full_ok : wf (Node ex_full) /\ full (Node ex_full).
Proof. split; [apply wfb_sound|apply fullb_sound]; vm_compute; reflexivity. Qed.

Example ex_full_id : unflatten string s_loads (flatten string String.eqb s_dumps ex_full) = Ok ex_full.
Proof.
  exact (unflatten_flatten_id string String.eqb s_dumps s_loads String.eqb_eq s_loads_dumps ex_full
           (proj1 ex_full_ok) (proj2 ex_full_ok)).
Qed.

(* an optimizer module: tensors as attributes, in a tuple next to an empty list, in a dict with int and
   str keys, in a nested module without any tensor, and non-tensor attributes *)
Definition ex_mod (i0 : nat) (step : nat) : obj :=
  OModule [ ("w", OTensor i0);
            ("factors", OSeq STuple [ OTensor (i0 + 1); OSeq SList []; OTensor (i0 + 2) ]);
            ("by_key", ODict [ (KInt 3, OTensor (i0 + 3)); (KStr "3", OModule [ ("inner", OTensor (i0 + 4)); ("name", OOther 1 7) ]) ]);
            ("hollow", OModule [ ("cfg", OOther 0 step); ("none", ODict []) ]);
            ("step", OOther 0 step) ].

Definition ex_heap : list (nat * list Z) :=
  [ (0%nat, [1]); (1%nat, [2; 3]); (2%nat, [4]); (3%nat, [5; 6; 7]); (4%nat, [8]);
    (10%nat, [11]); (11%nat, [12; 13]); (12%nat, [14]); (13%nat, [15; 16; 17]); (14%nat, [18]) ]%Z.

Definition ex_sz (k : nat) : nat := List.length (heap_of ex_heap k).

Fixpoint sameb (sz : nat -> nat) (a b : obj) {struct a} : bool :=
  match a, b with
  | OTensor i, OTensor j => Nat.eqb (sz i) (sz j)
  | OOther _ _, OOther _ _ => true
  | OModule f1, OModule f2 =>
      (fix go (l1 l2 : list (string * obj)) {struct l1} : bool :=
         match l1, l2 with
         | [], [] => true
         | (k1, v1) :: r1, (k2, v2) :: r2 => String.eqb k1 k2 && sameb sz v1 v2 && go r1 r2
         | _, _ => false
         end) f1 f2
  | ODict f1, ODict f2 =>
      (fix go (l1 l2 : list (key * obj)) {struct l1} : bool :=
         match l1, l2 with
         | [], [] => true
         | (k1, v1) :: r1, (k2, v2) :: r2 => key_eqb k1 k2 && sameb sz v1 v2 && go r1 r2
         | _, _ => false
         end) f1 f2
  | OSeq k1 l1, OSeq k2 l2 =>
      Nat.eqb (tag a) (tag b)
      && (fix go (l1 l2 : list obj) {struct l1} : bool :=
            match l1, l2 with
            | [], [] => true
            | v1 :: r1, v2 :: r2 => sameb sz v1 v2 && go r1 r2
            | _, _ => false
            end) l1 l2
  | _, _ => false
  end.

Lemma Forall2_mapk_same {K} (kf : K -> key) sz (l1 l2 : list (K * obj)) :
  Forall2 (fun a a' => fst a = fst a' /\ same sz (snd a) (snd a')) l1 l2 ->
  Forall2 (fun a a' => fst a = fst a' /\ same sz (snd a) (snd a')) (mapk kf l1) (mapk kf l2).
Proof. induction 1 as [|? ? ? ? [E S]]; cbn [mapk map]; constructor; auto. cbn. split; congruence. Qed.

Lemma Forall2_enum_same sz (l1 l2 : list obj) : forall n,
  Forall2 (same sz) l1 l2 ->
  Forall2 (fun a a' => fst a = fst a' /\ same sz (snd a) (snd a')) (mapk KInt (enum l1 n)) (mapk KInt (enum l2 n)).
Proof.
  intros n H. revert n. induction H; intros n; cbn [enum mapk map]; constructor; [cbn; auto|].
  apply IHForall2.
Qed.

Lemma sameb_sound sz a : forall b, sameb sz a b = true -> same sz a b.
Proof.
  induction a as [i|ty v|fs IH|items IH|k l IH] using obj_ind'; intros [j|fs'|items'|k' l'|ty' v'] H; cbn [sameb] in H; try discriminate.
  - constructor. apply Nat.eqb_eq; exact H.
  - constructor.
  - eapply same_c; [reflexivity|reflexivity|reflexivity|]. apply Forall2_mapk_same.
    revert fs' H. induction fs as [|[k1 v1] fs IHf]; intros [|[k2 v2] fs'] H; try discriminate; [constructor|].
    inversion IH as [|? ? IHa IHr]; subst. apply andb_true_iff in H as [H H3]. apply andb_true_iff in H as [H1 H2].
    apply String.eqb_eq in H1. constructor; [cbn; auto|auto].
  - eapply same_c; [reflexivity|reflexivity|reflexivity|].
    revert items' H. induction items as [|[k1 v1] fs IHf]; intros [|[k2 v2] fs'] H; try discriminate; [constructor|].
    inversion IH as [|? ? IHa IHr]; subst. apply andb_true_iff in H as [H H3]. apply andb_true_iff in H as [H1 H2].
    apply key_eqb_eq in H1. constructor; [cbn; auto|auto].
  - apply andb_true_iff in H as [Ht H]. apply Nat.eqb_eq in Ht.
    eapply same_c; [exact Ht|reflexivity|reflexivity|]. apply Forall2_enum_same.
    clear Ht. revert l' H. induction l as [|v1 l IHl]; intros [|v2 l'] H; try discriminate; [constructor|].
    inversion IH as [|? ? IHa IHr]; subst. apply andb_true_iff in H as [H1 H2]. constructor; auto.
Qed.

Fixpoint wf_objb (o : obj) : bool :=
  match o with
  | OTensor _ | OOther _ _ => true
  | OModule fs => nodupb String.eqb (map fst fs) && forallb (fun x => wf_objb (snd x)) fs
  | ODict items => nodupb key_eqb (map fst items) && forallb (fun x => wf_objb (snd x)) items
  | OSeq _ l => forallb wf_objb l
  end.

Lemma enum_keys_in {A} (l : list A) : forall n z,
  In z (map fst (mapk KInt (enum l n))) -> exists j, z = KInt (n + Z.of_nat j).
Proof.
  induction l as [|a l IH]; intros n z H; [destruct H|]. cbn [enum mapk map fst In] in H. destruct H as [<-|H].
  - exists 0%nat. f_equal. lia.
  - apply IH in H as (j & ->). exists (S j). f_equal. lia.
Qed.

Lemma enum_keys_nodup {A} (l : list A) : forall n, NoDup (map fst (mapk KInt (enum l n))).
Proof.
  induction l as [|a l IH]; intros n; [constructor|]. cbn [enum mapk map fst]. constructor; [|apply IH].
  intros H. apply enum_keys_in in H as (j & E). injection E as E. lia.
Qed.

Lemma wf_objb_sound o : wf_objb o = true -> wf_obj o.
Proof.
  induction o as [i|ty v|fs IH|items IH|k l IH] using obj_ind'; intros H; cbn [wf_objb] in H; try constructor.
  - apply andb_true_iff in H as [H1 H2]. eapply wfo_c; [reflexivity| |].
    + unfold mapk. rewrite map_map. cbn [fst]. rewrite <- (map_map fst KStr).
      apply NoDup_map_inj; [intros x y _ _ E; congruence|]. apply (nodupb_sound_g String.eqb String.eqb_eq); exact H1.
    + apply Forall_mapk. rewrite forallb_forall in H2. rewrite Forall_forall in *. intros x Hx. apply IH; auto.
  - apply andb_true_iff in H as [H1 H2]. eapply wfo_c; [reflexivity| |].
    + apply nodupb_sound; exact H1.
    + rewrite forallb_forall in H2. rewrite Forall_forall in *. intros x Hx. apply IH; auto.
  - eapply wfo_c; [reflexivity|apply enum_keys_nodup|]. apply Forall_mapk, Forall_enum.
    rewrite forallb_forall in H. rewrite Forall_forall in *. intros x Hx. apply IH; auto.
Qed.

Lemma ex_sizes : sizes (heap_of ex_heap) ex_sz.
Proof. intros k. reflexivity. Qed.

(* the hypotheses of module_load_in_place hold for loading ex_mod 10 9 into ex_mod 0 1 ... *)
Example ex_load_hyps :
  same ex_sz (ex_mod 0 1) (ex_mod 10 9) /\ wf_obj (ex_mod 10 9)
  /\ NoDup (ids (ex_mod 0 1)) /\ disj (ids (ex_mod 0 1)) (ids (ex_mod 10 9)).
Proof.
  split; [apply sameb_sound; vm_compute; reflexivity|]. split; [apply wf_objb_sound; vm_compute; reflexivity|].
  split.
  - apply (nodupb_sound_g Nat.eqb Nat.eqb_eq). vm_compute. reflexivity.
  - intros x Hx Hy. vm_compute in Hx, Hy. intuition (subst; discriminate).
Qed.

(* ... and the model does what the theorem says, also after the state dict went through
   flatten/unflatten (which drops "factors"/1, "by_key"-free parts stay, "hollow" disappears) *)
Example ex_load_runs :
  let sdict := match state_dict false (ex_mod 10 9) with Node d => d | _ => [] end in
  exists h',
    match unflatten string s_loads (flatten string String.eqb s_dumps sdict) with
    | Ok d => load_state_dict false (ex_mod 0 1) (Node d) (heap_of ex_heap)
    | Raise e => Raise e
    end = Ok (ex_mod 0 1, h')
    /\ map h' [0; 1; 2; 3; 4]%nat = map (heap_of ex_heap) [10; 11; 12; 13; 14]%nat
    /\ dget key_eqb (KStr "hollow") (prune_dict sdict) = None.
Proof. cbv zeta. eexists. vm_compute. repeat split. Qed.

Example ex_checker_accepts_model :
  C16_checkb (ObsSd (ex_mod 0 1) (state_dict true (ex_mod 0 1))) = true
  /\ C16_checkb (ObsFlat ex_dict (flatten string String.eqb s_dumps ex_dict) (prune_dict ex_dict)) = true
  /\ C16_checkb (ObsLoad (ex_mod 0 1) (ex_mod 10 9) ex_heap true (tensors (ex_mod 0 1))
                         [ (0%nat, [11]); (1%nat, [12; 13]); (2%nat, [14]); (3%nat, [15; 16; 17]); (4%nat, [18]) ]%Z) = true.
Proof. vm_compute. repeat split. Qed.

(* the checker rejects: int key turned into str; two paths sharing a flat key; a tensor replaced *)
Example ex_checker_rejects :
  C16_checkb (ObsFlat [ (KInt 1, Leaf (LT 0)) ] [ ("[""1""]", LT 0) ] [ (KStr "1", Leaf (LT 0)) ]) = false
  /\ C16_checkb (ObsFlat [ (KStr "a.b", Leaf (LT 0)); (KStr "a", Node [ (KStr "b", Leaf (LT 1)) ]) ]
                         [ ("a.b", LT 1) ] [ (KStr "a", Node [ (KStr "b", Leaf (LT 1)) ]) ]) = false
  /\ C16_checkb (ObsLoad (ex_mod 0 1) (ex_mod 10 9) ex_heap true
                         (map (fun pi => (fst pi, if Nat.eqb (snd pi) 2 then 99 else snd pi)) (tensors (ex_mod 0 1)))
                         [ (0%nat, [11]); (1%nat, [12; 13]); (99%nat, [14]); (3%nat, [15; 16; 17]); (4%nat, [18]) ]%Z) = false.
Proof. vm_compute. repeat split. Qed.

(* parameter state with a block that has no Kronecker factors (finding F4): restoring its own
   flattened-and-unflattened content succeeds in the model of the repaired code *)
Definition ex_pstate (i0 : nat) : list (key * obj) :=
  [ (KStr "block_0", ODict [ (KStr "shampoo", OModule [ ("factor_matrices", OSeq STuple []); ("inv_factor_matrices", OSeq STuple []) ]);
                             (KStr "momentum", OTensor i0) ]);
    (KStr "step", OTensor (i0 + 1)) ].

Example ex_restore_leafless :
  exists h',
    match unflatten string s_loads (flatten string String.eqb s_dumps (extract (ex_pstate 10))) with
    | Ok d => restore true (ex_pstate 0) d (heap_of ex_heap)
    | Raise e => Raise e
    end = Ok (ex_pstate 0, h')
    /\ map h' [0; 1]%nat = map (heap_of ex_heap) [10; 11]%nat.
Proof. eexists. vm_compute. repeat split. Qed.
