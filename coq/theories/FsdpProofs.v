(* C07 - proofs about the FSDP / HSDP model Fsdp.v. *)
From Coq Require Import ZArith List Bool Arith Lia Permutation.
From Shampoo Require Import Show SplitRecovery SplitRecoveryProofs SplitChecker SplitMinimal Blocking BlockingProofs Dist DistProofs Fsdp.
Import ListNotations.
Open Scope Z_scope.

(* ==============================================================================================================
   A. lists *)
Lemma imap_length {A B} (f : nat -> A -> B) l : forall s, length (imap f s l) = length l.
Proof. induction l as [|x l IH]; intros s; cbn [imap length]; [reflexivity | rewrite IH; reflexivity]. Qed.

Lemma imap_ext {A B} (f g : nat -> A -> B) l : forall s,
  (forall k x, nth_error l k = Some x -> f (s + k)%nat x = g (s + k)%nat x) -> imap f s l = imap g s l.
Proof.
  induction l as [|x l IH]; intros s H; cbn [imap]; [reflexivity|]. f_equal.
  - specialize (H 0%nat x eq_refl). rewrite Nat.add_0_r in H. exact H.
  - apply IH. intros k y Hk. specialize (H (S k) y Hk). rewrite Nat.add_succ_r in H. exact H.
Qed.

Lemma imap_app {A B} (f : nat -> A -> B) l1 l2 : forall s,
  imap f s (l1 ++ l2) = imap f s l1 ++ imap f (s + length l1) l2.
Proof.
  induction l1 as [|x l1 IH]; intros s; cbn [imap app length].
  - rewrite Nat.add_0_r. reflexivity.
  - rewrite IH. rewrite Nat.add_succ_r. reflexivity.
Qed.

Lemma imap_map {A B C} (f : nat -> B -> C) (g : A -> B) l : forall s, imap f s (map g l) = imap (fun i x => f i (g x)) s l.
Proof. induction l as [|x l IH]; intros s; cbn [imap map]; [reflexivity | rewrite IH; reflexivity]. Qed.

Lemma nth_imap {A B} (f : nat -> A -> B) l dA dB : forall s k, (k < length l)%nat -> nth k (imap f s l) dB = f (s + k)%nat (nth k l dA).
Proof.
  induction l as [|x l IH]; intros s k Hk; cbn [length] in Hk; [lia|].
  destruct k as [|k]; cbn [imap nth].
  - rewrite Nat.add_0_r. reflexivity.
  - rewrite IH by lia. rewrite Nat.add_succ_r. reflexivity.
Qed.

Lemma sum_nat_app a b : sum_nat (a ++ b) = (sum_nat a + sum_nat b)%nat.
Proof. induction a as [|x a IH]; cbn [sum_nat fold_right app]; [reflexivity|]. fold (sum_nat (a ++ b)). fold (sum_nat a). lia. Qed.

Lemma length_concat {A} (ls : list (list A)) : length (concat ls) = sum_nat (map (@length A) ls).
Proof.
  induction ls as [|l ls IH]; cbn [concat map sum_nat fold_right]; [reflexivity|].
  rewrite app_length, IH. reflexivity.
Qed.

(* the i-th pair of generate_pairwise_indices *)
Lemma nth_pairwise counts : forall s i, (i < length counts)%nat ->
  nth i (pairwise s counts) (0, 0)%nat = ((s + sum_nat (firstn i counts))%nat, (s + sum_nat (firstn i counts) + nth i counts 0)%nat).
Proof.
  induction counts as [|c r IH]; intros s i Hi; cbn [length] in Hi; [lia|].
  destruct i as [|i]; cbn [pairwise nth firstn sum_nat fold_right].
  - f_equal; lia.
  - rewrite IH by lia. fold (sum_nat (firstn i r)). f_equal; lia.
Qed.

Lemma pairwise_length counts : forall s, length (pairwise s counts) = length counts.
Proof. induction counts as [|c r IH]; intros s; cbn [pairwise length]; [reflexivity | rewrite IH; reflexivity]. Qed.

(* slicing a concatenation at the cumulative lengths gives back the i-th list *)
Lemma slice_concat {A} (ls : list (list A)) : forall i, (i < length ls)%nat ->
  slice (concat ls) (sum_nat (firstn i (map (@length A) ls)))
        (sum_nat (firstn i (map (@length A) ls)) + length (nth i ls [])) = nth i ls [].
Proof.
  induction ls as [|l ls IH]; intros i Hi; cbn [length] in Hi; [lia|].
  destruct i as [|i]; cbn [map firstn sum_nat fold_right nth concat].
  - unfold slice. cbn [skipn]. replace (0 + length l - 0)%nat with (length l) by lia.
    rewrite firstn_app, Nat.sub_diag, firstn_all. cbn [firstn]. apply app_nil_r.
  - fold (sum_nat (firstn i (map (@length A) ls))). specialize (IH i ltac:(lia)).
    unfold slice in *. rewrite skipn_app.
    rewrite (skipn_all2 l) by lia. cbn [app].
    replace (length l + sum_nat (firstn i (map (@length A) ls)) - length l)%nat with (sum_nat (firstn i (map (@length A) ls))) by lia.
    replace (length l + sum_nat (firstn i (map (@length A) ls)) + length (nth i ls []) - (length l + sum_nat (firstn i (map (@length A) ls))))%nat
      with (sum_nat (firstn i (map (@length A) ls)) + length (nth i ls []) - sum_nat (firstn i (map (@length A) ls)))%nat by lia.
    exact IH.
Qed.

Lemma slice_map {A B} (f : A -> B) l a b : slice (map f l) a b = map f (slice l a b).
Proof. unfold slice. rewrite <- firstn_map, <- skipn_map. reflexivity. Qed.

Lemma firstn_repeat {A} (x : A) n k : firstn k (repeat x n) = repeat x (Nat.min k n).
Proof.
  revert k; induction n as [|n IH]; intros k; destruct k as [|k]; cbn [repeat firstn Nat.min]; try reflexivity.
  rewrite IH. reflexivity.
Qed.

Lemma skipn_repeat {A} (x : A) n k : skipn k (repeat x n) = repeat x (n - k).
Proof.
  revert k; induction n as [|n IH]; intros k; destruct k as [|k]; cbn [repeat skipn Nat.sub]; try reflexivity.
  apply IH.
Qed.

Lemma slice_repeat {A} (x : A) n a b : (b <= n)%nat -> slice (repeat x n) a b = repeat x (b - a).
Proof. intros H. unfold slice. rewrite skipn_repeat, firstn_repeat. f_equal. lia. Qed.

Lemma compress_all {A} (l : list A) : compress l (repeat true (length l)) = l.
Proof. induction l as [|x l IH]; cbn [compress repeat length]; [reflexivity | rewrite IH; reflexivity]. Qed.

Lemma nth_skipn' {A} (l : list A) d : forall n i, nth i (skipn n l) d = nth (n + i) l d.
Proof.
  induction l as [|x l IH]; intros n i.
  - rewrite skipn_nil. destruct i, n; reflexivity.
  - destruct n as [|n]; cbn [skipn plus nth]; [reflexivity | apply IH].
Qed.

Lemma nth_firstn' {A} (l : list A) d : forall n i, (i < n)%nat -> nth i (firstn n l) d = nth i l d.
Proof.
  induction l as [|x l IH]; intros n i Hi.
  - rewrite firstn_nil. reflexivity.
  - destruct n as [|n]; [lia|]. destruct i as [|i]; cbn [firstn nth]; [reflexivity | apply IH; lia].
Qed.

Lemma Forall2_nth {A B} (R : A -> B -> Prop) l1 l2 dA dB : Forall2 R l1 l2 ->
  forall i, (i < length l1)%nat -> R (nth i l1 dA) (nth i l2 dB).
Proof.
  induction 1 as [|x y l1 l2 Hxy _ IH]; intros i Hi; cbn [length] in Hi; [lia|].
  destruct i as [|i]; cbn [nth]; [exact Hxy | apply IH; lia].
Qed.

Lemma Forall2_length' {A B} (R : A -> B -> Prop) l1 l2 : Forall2 R l1 l2 -> length l1 = length l2.
Proof. induction 1; cbn [length]; congruence. Qed.

(* ==============================================================================================================
   B. metadata: the shard ranges extracted from FSDP's shard infos partition the parameter *)
Definition clip (ps n x : Z) : Z := Z.max 0 (Z.min n (x - ps)).

Lemma meta_of_interval shape n ps a b : 1 <= n -> a <= b ->
  let m := metadata_of_shard_info shape n (shard_info_of ps (ps + n - 1) a (b - 1)) in
  mshape m = shape /\ mnumel m = n /\ mstart m <= mend m
  /\ (mstart m < mend m -> mstart m = clip ps n a /\ mend m = clip ps n b)
  /\ (mstart m = mend m -> clip ps n a = clip ps n b)
  /\ 0 <= mstart m /\ mend m <= n.
Proof.
  intros Hn Hab. unfold metadata_of_shard_info, shard_info_of, clip.
  destruct ((a <=? ps + n - 1) && (ps <=? b - 1)) eqn:E; cbn [si_start si_end mshape mnumel mstart mend py_or0].
  - apply andb_true_iff in E as [E1 E2]. apply Z.leb_le in E1, E2.
    destruct (a <=? ps) eqn:E3; cbn [Z.eqb].
    + apply Z.leb_le in E3. repeat split; lia.
    + apply Z.leb_gt in E3. destruct (a - ps =? 0) eqn:E4; [lia|]. repeat split; lia.
  - apply andb_false_iff in E as [E|E]; apply Z.leb_gt in E; repeat split; lia.
Qed.

Lemma nonempty_pieces_cons se rs :
  nonempty_pieces (se :: rs) = (if fst se <? snd se then [mk (fst se) (snd se - fst se) []] else []) ++ nonempty_pieces rs.
Proof. unfold nonempty_pieces. cbn [filter]. destruct (fst se <? snd se); reflexivity. Qed.

Lemma last_cons_indep {A} (l : list A) : forall x d d', last (x :: l) d = last (x :: l) d'.
Proof. induction l as [|y l IH]; intros x d d'; [reflexivity|]. change (last (y :: l) d = last (y :: l) d'). apply IH. Qed.

Lemma last_cons_shift {A} (l : list A) x d : last (x :: l) d = last l x.
Proof. destruct l as [|y l]; [reflexivity|]. change (last (y :: l) d = last (y :: l) x). apply last_cons_indep. Qed.

Lemma intervals_chain shape n ps : 1 <= n -> forall cuts c0, Sorted.StronglySorted Z.le (c0 :: cuts) ->
  chain (nonempty_pieces (ranges_of (metas_of_cuts shape n ps (c0 :: cuts)))) (clip ps n c0) (clip ps n (last cuts c0))
  /\ Forall (fun se => 0 <= fst se /\ fst se <= snd se /\ snd se <= n) (ranges_of (metas_of_cuts shape n ps (c0 :: cuts))).
Proof.
  intros Hn. induction cuts as [|c1 cuts IH]; intros c0 Hs.
  - cbn. split; [reflexivity | constructor].
  - inversion Hs as [|? ? Hs' Hall]; subst. inversion Hall as [|? ? H01 _]; subst.
    specialize (IH c1 Hs'). destruct IH as [IH1 IH2].
    change (metas_of_cuts shape n ps (c0 :: c1 :: cuts))
      with (metadata_of_shard_info shape n (shard_info_of ps (ps + n - 1) c0 (c1 - 1)) :: metas_of_cuts shape n ps (c1 :: cuts)).
    cbn [ranges_of map]. fold (ranges_of (metas_of_cuts shape n ps (c1 :: cuts))).
    pose proof (meta_of_interval shape n ps c0 c1 Hn H01) as Hm. cbv zeta in Hm.
    set (m := metadata_of_shard_info shape n (shard_info_of ps (ps + n - 1) c0 (c1 - 1))) in *.
    destruct Hm as (_ & _ & Hle & Hne & Hem & H0 & Hn').
    rewrite last_cons_shift.
    split.
    + rewrite nonempty_pieces_cons. cbn [fst snd].
      destruct (mstart m <? mend m) eqn:E.
      * apply Z.ltb_lt in E. destruct (Hne E) as [Ha Hb].
        cbn [app chain mk poff plen]. repeat split; [lia | lia |].
        replace (clip ps n c0 + (mend m - mstart m)) with (clip ps n c1) by lia. exact IH1.
      * apply Z.ltb_ge in E. cbn [app]. rewrite (Hem ltac:(lia)). exact IH1.
    + constructor; [cbn [fst snd]; lia | exact IH2].
Qed.

(* The metadata of the shard ranks partitions the flat parameter: for a parameter of n >= 1 elements occupying
   [ps, ps+n) of the flat parameter and consecutive rank intervals (cut points weakly increasing, the first at or before
   the parameter, the last at or after its end - e.g. FSDP's equal chunks of the padded flat parameter), the non-empty
   (start_idx, end_idx) ranges follow each other from 0 to n without gap or overlap, in rank order. *)
Theorem metadata_partition shape n ps cuts c0 :
  1 <= n -> Sorted.StronglySorted Z.le (c0 :: cuts) -> c0 <= ps -> ps + n <= last cuts c0 ->
  shards_partition n (ranges_of (metas_of_cuts shape n ps (c0 :: cuts)))
  /\ Forall (fun m => mshape m = shape /\ mnumel m = n) (metas_of_cuts shape n ps (c0 :: cuts)).
Proof.
  intros Hn Hs H0 Hl. destruct (intervals_chain shape n ps Hn cuts c0 Hs) as [H1 H2].
  split; [split; [|exact H2]|].
  - replace (clip ps n c0) with 0 in H1 by (unfold clip; lia).
    replace (clip ps n (last cuts c0)) with n in H1 by (unfold clip; lia). exact H1.
  - unfold metas_of_cuts. apply Forall_map. apply Forall_forall. intros ab _. split; reflexivity.
Qed.

(* non-vacuity: a (3,4) parameter at offset 3 of a flat parameter cut at 0,5,5,9,20,25 - an empty rank in the middle, a
   mid-row cut, a rank behind the parameter *)
Example metadata_partition_example :
  ranges_of (metas_of_cuts [3; 4] 12 3 [0; 5; 5; 9; 20; 25]) = [(0, 2); (2, 2); (2, 6); (6, 12); (0, 0)]
  /\ shards_partition 12 (ranges_of (metas_of_cuts [3; 4] 12 3 [0; 5; 5; 9; 20; 25])).
Proof.
  split; [reflexivity|].
  apply (metadata_partition [3; 4] 12 3 [5; 5; 9; 20; 25] 0); cbn; try lia.
  repeat (constructor; [|repeat (constructor; try lia)]). constructor.
Qed.

(* ==============================================================================================================
   C. layout *)
Lemma offsets_from_shift sizes : forall strides off o,
  offsets_from (off + o) sizes strides = map (Z.add off) (offsets_from o sizes strides).
Proof.
  induction sizes as [|n ss IH]; intros strides off o; cbn [offsets_from]; [reflexivity|].
  destruct strides as [|st sts]; [reflexivity|].
  rewrite map_fm. apply fm_ext_in. intros i _. rewrite <- IH. f_equal. ring.
Qed.

Lemma view_offsets_shift off v : view_offsets (shiftv off v) = map (Z.add off) (view_offsets v).
Proof. unfold view_offsets, shiftv. cbn [voff vsizes vstrides]. apply offsets_from_shift. Qed.

Lemma mds_contig_shift off m thr :
  multi_dim_split (contig_view off m) thr = map (shiftv off) (multi_dim_split (contig_view 0 m) thr).
Proof.
  rewrite !mds_boxes by (cbn [contig_view vsizes vstrides]; rewrite cstrides_length; reflexivity).
  cbn [contig_view voff vsizes vstrides]. rewrite map_map. apply map_ext. intros box.
  unfold box_view, shiftv. cbn [voff vsizes vstrides]. f_equal; lia.
Qed.

(* the blocks of a recovered piece are the blocks the default distributor makes of a parameter of the piece's shape,
   moved to the piece's offset inside the shard *)
Lemma sp_blocks_shift thr merge p :
  sp_blocks (split_of_piece thr merge p) = map (shiftv (poff p)) (blocks (pshape p) thr merge).
Proof. unfold split_of_piece, blocks, distributor_init. cbn [sp_blocks param_blocks]. apply mds_contig_shift. Qed.

Lemma sp_merged_eq thr merge p : sp_merged (split_of_piece thr merge p) = merged_shape (pshape p) thr merge.
Proof. reflexivity. Qed.

(* ---- the recovered pieces ------------------------------------------------------------------------------------ *)
Definition piece_ok (len : Z) (p : piece) : Prop :=
  allpos (pshape p) /\ prodl (pshape p) = plen p /\ 0 <= poff p /\ 0 < plen p /\ poff p + plen p <= len.

Lemma slab_allpos sh a b shp : allpos sh -> slab sh a b shp -> allpos shp.
Proof.
  intros Hpos H. induction H as [a b Hab | d rest a b k Hk Hm Hb Hc | d rest a b shp H IH].
  - constructor; [lia | constructor].
  - inversion Hpos; subst. constructor; assumption.
  - apply IH. inversion Hpos; assumption.
Qed.

Lemma recovered_ok m : meta_ok m ->
  chain (recovered m) 0 (mend m - mstart m) /\ Forall (piece_ok (mend m - mstart m)) (recovered m).
Proof.
  intros (Hpos & Hnum & H0 & Hse & Hen). unfold recovered.
  pose proof (rec_chain (mshape m) Hpos 0 (mstart m) (mend m) Hse) as Hch. rewrite Z.add_0_l in Hch.
  split; [exact Hch|].
  pose proof (rec_strict_slabs (mshape m) Hpos 0 (mstart m) (mend m) Hse
                (top_in_cell (mshape m) (mstart m) (mend m) Hpos H0 ltac:(lia))) as Hsl.
  pose proof (chain_bounds _ _ _ Hch) as Hb.
  rewrite Forall_forall in *. intros p Hp. specialize (Hsl p Hp). specialize (Hb p Hp). cbv beta in Hsl.
  apply strict_slab_slab in Hsl. unfold piece_ok.
  split; [eapply slab_allpos; eassumption|].
  split; [rewrite (slab_numel _ _ _ _ Hpos Hsl); lia | lia].
Qed.

(* ---- every element of a rank's shard lies in exactly one block ---------------------------------------------------- *)
Lemma piece_offsets_perm thr merge len p : 1 <= thr -> piece_ok len p ->
  Permutation (flat_map view_offsets (sp_blocks (split_of_piece thr merge p))) (map (Z.add (poff p)) (Zrange (plen p))).
Proof.
  intros Hthr (Hpos & Hnum & _). rewrite sp_blocks_shift, fm_map.
  rewrite (fm_ext_in _ (fun v => map (Z.add (poff p)) (view_offsets v))) by (intros; apply view_offsets_shift).
  rewrite <- map_fm. apply Permutation_map. rewrite <- Hnum.
  rewrite flat_map_concat_map. apply blocks_tile; assumption.
Qed.

Lemma chain_offsets_perm (offs : piece -> list Z) l : forall o e, chain l o e ->
  (forall p, In p l -> Permutation (offs p) (map (Z.add (poff p)) (Zrange (plen p)))) ->
  Permutation (flat_map offs l) (map (Z.add o) (Zrange (e - o))).
Proof.
  induction l as [|p r IH]; intros o e Hch Hp; cbn [chain] in Hch.
  - subst. rewrite Z.sub_diag. apply Permutation_refl.
  - destruct Hch as (Ho & Hlen & Hch). pose proof (chain_le _ _ _ Hch) as Hle.
    cbn [flat_map]. replace (e - o) with (plen p + (e - (o + plen p))) by lia.
    rewrite Zrange_add by lia. rewrite map_app, map_map. apply Permutation_app.
    + rewrite <- Ho. apply Hp. left; reflexivity.
    + rewrite (map_ext _ (Z.add (o + plen p))) by (intros; lia).
      apply IH; [exact Hch | intros q Hq; apply Hp; right; exact Hq].
Qed.

Lemma param_offsets_unfold thr merge m :
  param_offsets thr merge m = flat_map (fun p => flat_map view_offsets (sp_blocks (split_of_piece thr merge p))) (recovered m).
Proof. unfold param_offsets, param_blocks_of, splits_of. rewrite fm_flat_map, fm_map. reflexivity. Qed.

Lemma param_offsets_perm thr merge m : 1 <= thr -> meta_ok m ->
  Permutation (param_offsets thr merge m) (Zrange (mend m - mstart m)).
Proof.
  intros Hthr Hok. destruct (recovered_ok m Hok) as [Hch Hall]. rewrite param_offsets_unfold.
  eapply perm_trans.
  - apply (chain_offsets_perm _ _ 0 (mend m - mstart m) Hch). intros p Hp.
    rewrite Forall_forall in Hall. eapply piece_offsets_perm; [exact Hthr | apply Hall; exact Hp].
  - rewrite Z.sub_0_r. rewrite (map_ext _ (fun x => x)) by (intros; lia). rewrite map_id. apply Permutation_refl.
Qed.

Lemma Zrange_NoDup n : NoDup (Zrange n).
Proof. unfold Zrange. apply FinFun.Injective_map_NoDup; [intros a b; lia | apply seq_NoDup]. Qed.

Lemma fm_filter_nil {A B} (f : A -> list B) (g : A -> bool) l :
  (forall x, In x l -> g x = false -> f x = []) -> flat_map f l = flat_map f (filter g l).
Proof.
  induction l as [|x l IH]; intros H; cbn [flat_map filter]; [reflexivity|].
  rewrite IH by (intros y Hy; apply H; right; exact Hy).
  destruct (g x) eqn:E; cbn [flat_map]; [reflexivity|]. rewrite (H x (or_introl eq_refl) E). reflexivity.
Qed.

(* Across the shard ranks: when the shard ranges partition [0, numel) every element of the original parameter lies in
   exactly one block of exactly one rank.  The list on the left enumerates, rank by rank and block by block, the
   ABSOLUTE flat index (shard start + offset in the shard) of every element of every block. *)
Theorem shards_update_each_element_once shape thr merge rs :
  allpos shape -> 1 <= thr -> shards_partition (prodl shape) rs ->
  Permutation (flat_map (fun se => map (Z.add (fst se)) (param_offsets thr merge (mkMeta shape (prodl shape) (fst se) (snd se)))) rs)
              (Zrange (prodl shape)).
Proof.
  intros Hpos Hthr [Hch Hall]. rewrite Forall_forall in Hall.
  assert (Hok : forall se, In se rs -> meta_ok (mkMeta shape (prodl shape) (fst se) (snd se))).
  { intros se Hse. destruct (Hall se Hse) as (H1 & H2 & H3). unfold meta_ok. cbn [mshape mnumel mstart mend]. repeat split; assumption || lia. }
  rewrite (fm_filter_nil _ (fun se => fst se <? snd se)).
  2:{ intros se Hse E. apply Z.ltb_ge in E. destruct (Hall se Hse) as (H1 & H2 & H3).
      pose proof (param_offsets_perm thr merge _ Hthr (Hok se Hse)) as HP. cbn [mstart mend] in HP.
      replace (snd se - fst se) with 0 in HP by lia. apply Permutation_sym, Permutation_nil in HP. rewrite HP. reflexivity. }
  set (offs := fun p : piece => map (Z.add (poff p)) (param_offsets thr merge (mkMeta shape (prodl shape) (poff p) (poff p + plen p)))).
  assert (E : flat_map (fun se => map (Z.add (fst se)) (param_offsets thr merge (mkMeta shape (prodl shape) (fst se) (snd se))))
                       (filter (fun se => fst se <? snd se) rs) = flat_map offs (nonempty_pieces rs)).
  { unfold nonempty_pieces. rewrite fm_map. apply fm_ext_in. intros se _. unfold offs, mk. cbn [poff plen].
    replace (fst se + (snd se - fst se)) with (snd se) by lia. reflexivity. }
  rewrite E. eapply perm_trans.
  - apply (chain_offsets_perm offs _ 0 (prodl shape) Hch). intros p Hp. unfold offs.
    apply Permutation_map. unfold nonempty_pieces in Hp. apply in_map_iff in Hp as (se & <- & Hse).
    apply filter_In in Hse as [Hse _]. unfold mk. cbn [poff plen].
    replace (fst se + (snd se - fst se)) with (snd se) by lia.
    pose proof (param_offsets_perm thr merge _ Hthr (Hok se Hse)) as HP. cbn [mstart mend] in HP. exact HP.
  - rewrite Z.sub_0_r. rewrite (map_ext _ (fun x => x)) by (intros; lia). rewrite map_id. apply Permutation_refl.
Qed.

Corollary shards_each_element_exactly_once shape thr merge rs x :
  allpos shape -> 1 <= thr -> shards_partition (prodl shape) rs -> 0 <= x < prodl shape ->
  count_occ Z.eq_dec
    (flat_map (fun se => map (Z.add (fst se)) (param_offsets thr merge (mkMeta shape (prodl shape) (fst se) (snd se)))) rs) x = 1%nat.
Proof.
  intros Hpos Hthr Hp Hx.
  pose proof (shards_update_each_element_once shape thr merge rs Hpos Hthr Hp) as HP.
  rewrite (proj1 (Permutation_count_occ Z.eq_dec _ _) HP x).
  apply NoDup_count_occ'; [apply Zrange_NoDup | apply In_Zrange; exact Hx].
Qed.

(* non-vacuity: a (3,4) parameter cut mid-row over three ranks, one of them empty, blocks of size 2 *)
Example shards_once_example :
  let rs := [(0, 5); (5, 5); (5, 12)] in
  shards_partition (prodl [3; 4]) rs
  /\ flat_map (fun se => map (Z.add (fst se)) (param_offsets 2 true (mkMeta [3; 4] 12 (fst se) (snd se)))) rs
     = [0; 1; 2; 3; 4; 5; 6; 7; 8; 9; 10; 11].
Proof.
  cbv zeta. split; [|reflexivity]. split.
  - cbn. repeat split; lia.
  - repeat (constructor; [cbn; lia|]). constructor.
Qed.

(* ==============================================================================================================
   D. the bookkeeping lists and the gradient path that re-uses them *)
Definition dmeta : meta := mkMeta [] 0 0 0.

Lemma nth_map' {A B} (f : A -> B) l dA dB i : (i < length l)%nat -> nth i (map f l) dB = f (nth i l dA).
Proof. intros H. rewrite (nth_indep _ dB (f dA)) by (rewrite map_length; exact H). apply map_nth. Qed.

Lemma nth_per thr merge ms i : nth i (map (splits_of thr merge) ms) [] = splits_of thr merge (nth i ms dmeta).
Proof. change (@nil split_info) with (splits_of thr merge dmeta). apply map_nth. Qed.

Lemma length_flat_map {A B} (f : A -> list B) l : length (flat_map f l) = sum_nat (map (fun x => length (f x)) l).
Proof.
  induction l as [|x l IH]; cbn [flat_map map sum_nat fold_right]; [reflexivity|].
  rewrite app_length, IH. reflexivity.
Qed.

(* slicing a per-piece list at the i-th pair of generate_pairwise_indices(num_splits_per_param) *)
Lemma slice_at_pair {A B} (g : A -> B) (per : list (list A)) i : (i < length per)%nat ->
  slice (map g (concat per)) (fst (nth i (pairwise 0 (map (@length A) per)) (0, 0)%nat))
        (snd (nth i (pairwise 0 (map (@length A) per)) (0, 0)%nat)) = map g (nth i per []).
Proof.
  intros Hi. rewrite nth_pairwise by (rewrite map_length; exact Hi). cbn [fst snd plus].
  rewrite slice_map. f_equal. rewrite (nth_map' (@length A) per [] 0%nat) by exact Hi.
  apply slice_concat. exact Hi.
Qed.

Lemma sums_by_concat {A} (g : A -> nat) (per : list (list A)) :
  map (fun ab => sum_nat (slice (map g (concat per)) (fst ab) (snd ab))) (pairwise 0 (map (@length A) per))
  = map (fun l => sum_nat (map g l)) per.
Proof.
  apply (nth_ext _ _ 0%nat 0%nat).
  - rewrite !map_length, pairwise_length, map_length. reflexivity.
  - intros i Hi. rewrite map_length, pairwise_length, map_length in Hi.
    rewrite (nth_map' _ _ (0, 0)%nat) by (rewrite pairwise_length, map_length; exact Hi).
    rewrite (nth_map' _ _ []) by exact Hi.
    rewrite slice_at_pair by exact Hi. reflexivity.
Qed.

Lemma f_num_blocks_param_eq thr merge ms :
  f_num_blocks_param (fsdp_init thr merge ms) = map (fun m => length (param_blocks_of thr merge m)) ms.
Proof.
  unfold fsdp_init. cbn [f_num_blocks_param]. rewrite sums_by_concat, map_map. apply map_ext. intros m.
  unfold param_blocks_of. rewrite length_flat_map. reflexivity.
Qed.

Lemma f_blocks_eq thr merge ms :
  f_blocks (fsdp_init thr merge ms) = concat (imap (fun i m => map (pair i) (param_blocks_of thr merge m)) 0%nat ms).
Proof. unfold fsdp_init. cbn [f_blocks]. rewrite imap_map. reflexivity. Qed.

Lemma map_length_imap {A B} (f : nat -> A -> list B) (g : A -> nat) l : forall s,
  (forall i x, length (f i x) = g x) -> map (@length B) (imap f s l) = map g l.
Proof. induction l as [|x l IH]; intros s H; cbn [imap map]; [reflexivity|]. rewrite H, IH by exact H. reflexivity. Qed.

Lemma f_blocks_length thr merge ms :
  length (f_blocks (fsdp_init thr merge ms)) = sum_nat (f_num_blocks_param (fsdp_init thr merge ms)).
Proof.
  rewrite f_blocks_eq, f_num_blocks_param_eq, length_concat. f_equal.
  apply map_length_imap. intros i m. apply map_length.
Qed.

Lemma sum_nat_cons x l : sum_nat (x :: l) = (x + sum_nat l)%nat.
Proof. reflexivity. Qed.

Lemma sum_firstn_le l : forall i, (sum_nat (firstn i l) <= sum_nat l)%nat.
Proof.
  induction l as [|x l IH]; intros i; destruct i as [|i]; rewrite ?firstn_nil, ?firstn_O, ?firstn_cons, ?sum_nat_cons;
    cbn [sum_nat fold_right]; try lia.
  specialize (IH i). fold (sum_nat (firstn i l)). fold (sum_nat l). lia.
Qed.

Lemma sum_firstn_S l : forall i, (i < length l)%nat -> sum_nat (firstn (S i) l) = (sum_nat (firstn i l) + nth i l 0)%nat.
Proof.
  induction l as [|x l IH]; intros i Hi; cbn [length] in Hi; [lia|].
  destruct i as [|i].
  - rewrite firstn_cons, !firstn_O. cbn [nth sum_nat fold_right]. lia.
  - rewrite (firstn_cons (S i)), (firstn_cons i), !sum_nat_cons. cbn [nth]. rewrite IH by lia. lia.
Qed.

(* the slice of _global_blocked_params belonging to flat parameter i *)
Lemma f_blocks_slice thr merge ms i : (i < length ms)%nat ->
  let st := fsdp_init thr merge ms in
  let ab := nth i (pairwise 0 (f_num_blocks_param st)) (0, 0)%nat in
  slice (f_blocks st) (fst ab) (snd ab) = map (pair i) (param_blocks_of thr merge (nth i ms dmeta))
  /\ (snd ab - fst ab)%nat = length (param_blocks_of thr merge (nth i ms dmeta))
  /\ (snd ab <= length (f_blocks st))%nat.
Proof.
  intros Hi st ab. subst st ab.
  set (F := fun (i : nat) (m : meta) => map (pair i) (param_blocks_of thr merge m)).
  assert (HL : map (@length bview) (imap F 0%nat ms) = f_num_blocks_param (fsdp_init thr merge ms)).
  { rewrite f_num_blocks_param_eq. apply map_length_imap. intros k m. apply map_length. }
  rewrite f_blocks_length. rewrite f_blocks_eq. fold F. rewrite <- HL.
  rewrite nth_pairwise by (rewrite map_length, imap_length; exact Hi). cbn [fst snd plus].
  rewrite (nth_map' (@length bview) _ [] 0%nat) by (rewrite imap_length; exact Hi).
  split; [|split].
  - rewrite slice_concat by (rewrite imap_length; exact Hi).
    rewrite (nth_imap F ms dmeta []) by exact Hi. reflexivity.
  - rewrite (nth_imap F ms dmeta []) by exact Hi. unfold F. rewrite map_length. lia.
  - rewrite <- (nth_map' (@length bview) _ [] 0%nat) by (rewrite imap_length; exact Hi).
    rewrite <- sum_firstn_S by (rewrite map_length, imap_length; exact Hi). apply sum_firstn_le.
Qed.

Lemma skipn_add {A} (l : list A) : forall a b, skipn (a + b) l = skipn b (skipn a l).
Proof.
  induction l as [|x l IH]; intros a b; [rewrite !skipn_nil; reflexivity|].
  destruct a as [|a]; cbn [plus skipn]; [reflexivity | apply IH].
Qed.

Lemma compress_nil_r {A} (l : list A) : compress l [] = [].
Proof. destruct l; reflexivity. Qed.

Lemma compress_app {A} (l1 l2 : list A) : forall sel,
  compress (l1 ++ l2) sel = compress l1 (firstn (length l1) sel) ++ compress l2 (skipn (length l1) sel).
Proof.
  induction l1 as [|x l1 IH]; intros sel; cbn [app length firstn skipn compress]; [reflexivity|].
  destruct sel as [|b sel]; cbn [firstn skipn compress]; [rewrite compress_nil_r; reflexivity|].
  rewrite IH. destruct b; reflexivity.
Qed.

(* what the zip of _merge_and_block_gradients produces for the pieces l, starting at block index s of the parameter *)
Fixpoint zres (thr : Z) (merge : bool) (psel : list bool) (s : nat) (l : list piece) : list (list view) :=
  match l with
  | [] => []
  | p :: r => let n := length (sp_blocks (split_of_piece thr merge p)) in
              compress (sp_blocks (split_of_piece thr merge p)) (slice psel s (s + n)) :: zres thr merge psel (s + n) r
  end.

Lemma zip3_grad thr merge psel l : forall s,
  zip3 (fun g md ab => compress (multi_dim_split (contig_view (poff g) md) thr) (slice psel (fst ab) (snd ab)))
       l (map sp_merged (map (split_of_piece thr merge) l))
       (pairwise s (map (fun sp => length (sp_blocks sp)) (map (split_of_piece thr merge) l)))
  = Some (zres thr merge psel s l).
Proof.
  induction l as [|p r IH]; intros s; cbn [map pairwise zip3 zres]; [reflexivity|].
  rewrite IH. reflexivity.
Qed.

Lemma concat_zres thr merge psel l : forall s,
  concat (zres thr merge psel s l) = compress (flat_map (fun p => sp_blocks (split_of_piece thr merge p)) l) (skipn s psel).
Proof.
  induction l as [|p r IH]; intros s; cbn [zres concat flat_map]; [reflexivity|].
  rewrite IH, compress_app. f_equal.
  - unfold slice. f_equal. f_equal. lia.
  - f_equal. apply skipn_add.
Qed.

(* The gradient of flat parameter i is cut with the metadata stored for the PARAMETER, viewed with the stored merged dims
   and compressed with the stored block counts: the result is exactly the parameter's own blocks (the same views: same
   offsets into the shard, same sizes, same strides - hence the same index sets in the same order) filtered by the
   distributor selector; and those views are the entries of _global_blocked_params at the parameter's block indices. *)
Theorem grad_bookkeeping_aligned thr merge ms sel i : (i < length ms)%nat ->
  let st := fsdp_init thr merge ms in
  let ab := nth i (pairwise 0 (f_num_blocks_param st)) (0, 0)%nat in
  grad_blocks_param thr st ms sel i = Some (compress (param_blocks_of thr merge (nth i ms dmeta)) (slice sel (fst ab) (snd ab)))
  /\ slice (f_blocks st) (fst ab) (snd ab) = map (pair i) (param_blocks_of thr merge (nth i ms dmeta))
  /\ (snd ab - fst ab)%nat = length (param_blocks_of thr merge (nth i ms dmeta))
  /\ nth i (f_num_blocks_param st) 0%nat = length (param_blocks_of thr merge (nth i ms dmeta)).
Proof.
  intros Hi st ab. destruct (f_blocks_slice thr merge ms i Hi) as (H1 & H2 & H3). fold st in H1, H2, H3. fold ab in H1, H2.
  split; [|split; [exact H1 | split; [exact H2|]]].
  - unfold grad_blocks_param. fold ab. change (mkMeta [] 0 0 0) with dmeta.
    set (per := map (splits_of thr merge) ms).
    assert (Hper : (i < length per)%nat) by (unfold per; rewrite map_length; exact Hi).
    assert (E1 : slice (f_merged st) (fst (nth i (pairwise 0 (f_num_splits st)) (0, 0)%nat)) (snd (nth i (pairwise 0 (f_num_splits st)) (0, 0)%nat))
                 = map sp_merged (splits_of thr merge (nth i ms dmeta))).
    { unfold st, fsdp_init. cbn [f_merged f_num_splits]. fold per. rewrite slice_at_pair by exact Hper.
      unfold per. rewrite nth_per. reflexivity. }
    assert (E2 : slice (f_num_blocks_split st) (fst (nth i (pairwise 0 (f_num_splits st)) (0, 0)%nat)) (snd (nth i (pairwise 0 (f_num_splits st)) (0, 0)%nat))
                 = map (fun sp => length (sp_blocks sp)) (splits_of thr merge (nth i ms dmeta))).
    { unfold st, fsdp_init. cbn [f_num_blocks_split f_num_splits]. fold per. rewrite slice_at_pair by exact Hper.
      unfold per. rewrite nth_per. reflexivity. }
    rewrite E1, E2. unfold splits_of, recovered. rewrite zip3_grad, concat_zres. cbn [skipn].
    unfold param_blocks_of, splits_of, recovered. rewrite fm_map. reflexivity.
  - unfold st. rewrite f_num_blocks_param_eq. rewrite (nth_map' _ _ dmeta) by exact Hi. reflexivity.
Qed.

(* with every block selected (FSDP) the gradient blocks ARE the parameter's blocks *)
Corollary grad_blocks_all thr merge ms i : (i < length ms)%nat ->
  grad_blocks_param thr (fsdp_init thr merge ms) ms (repeat true (length (f_blocks (fsdp_init thr merge ms)))) i
  = Some (param_blocks_of thr merge (nth i ms dmeta)).
Proof.
  intros Hi. destruct (grad_bookkeeping_aligned thr merge ms (repeat true (length (f_blocks (fsdp_init thr merge ms)))) i Hi) as (H1 & _ & H3 & _).
  cbv zeta in H1, H3. rewrite H1. f_equal.
  destruct (f_blocks_slice thr merge ms i Hi) as (_ & _ & Hle). cbv zeta in Hle.
  rewrite slice_repeat by exact Hle. rewrite H3. apply compress_all.
Qed.

Example grad_bookkeeping_example :
  let ms := [mkMeta [3; 4] 12 2 10; mkMeta [5] 5 0 0; mkMeta [2; 3] 6 0 6] in
  let st := fsdp_init 2 false ms in
  f_num_splits st = [3; 0; 1]%nat /\ f_num_blocks_split st = [1; 2; 1; 2]%nat /\ f_num_blocks_param st = [4; 0; 2]%nat
  /\ f_merged st = [[2]; [1; 4]; [2]; [2; 3]]
  /\ grad_blocks_param 2 st ms (repeat true 6) 0 = Some (map snd (slice (f_blocks st) 0 4))
  /\ grad_blocks_param 2 st ms (repeat true 6) 1 = Some []
  /\ grad_blocks_param 2 st ms [true; false; true; false; false; true] 2 = Some (map snd (slice (f_blocks st) 5 6)).
Proof. cbv zeta. repeat split; reflexivity. Qed.
