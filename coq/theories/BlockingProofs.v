(* C05 - theorems about the merging/blocking model (Blocking.v). *)
From Coq Require Import ZArith List Bool Lia Permutation Sorted.
From Shampoo Require Import Show SplitRecovery SplitRecoveryProofs Blocking.
Import ListNotations.
Open Scope Z_scope.
Ltac Zify.zify_post_hook ::= Z.div_mod_to_equations.

(* ============================================================================================
   0. products *)
Lemma prodl_nil : prodl [] = 1.
Proof. reflexivity. Qed.

Lemma prodl_cons d l : prodl (d :: l) = d * prodl l.
Proof. reflexivity. Qed.

Lemma prodl_app a b : prodl (a ++ b) = prodl a * prodl b.
Proof.
  induction a as [|x a IH]; [rewrite app_nil_l, prodl_nil; lia|].
  rewrite <- app_comm_cons, !prodl_cons, IH. ring.
Qed.

Lemma prodl_concat gs : prodl (map prodl gs) = prodl (concat gs).
Proof.
  induction gs as [|g gs IH]; [reflexivity|].
  cbn [map concat]. rewrite prodl_cons, prodl_app, IH. reflexivity.
Qed.

Lemma allpos_app a b : allpos (a ++ b) <-> allpos a /\ allpos b.
Proof. unfold allpos. apply Forall_app. Qed.

(* ============================================================================================
   1. merge_small_dims *)
Lemma prodl_squeeze l : prodl (squeeze l) = prodl l.
Proof.
  induction l as [|x l IH]; [reflexivity|].
  unfold squeeze; cbn [filter]; fold (squeeze l).
  destruct (x =? 1) eqn:E; cbn [negb]; rewrite ?prodl_cons, IH; [|reflexivity].
  apply Z.eqb_eq in E; subst; lia.
Qed.

Lemma prodl_squeezed_or_one l : prodl (squeezed_or_one l) = prodl l.
Proof.
  unfold squeezed_or_one. pose proof (prodl_squeeze l) as H.
  destruct (squeeze l); [rewrite <- H; reflexivity|exact H].
Qed.

Lemma squeeze_ge2 l : allpos l -> Forall (fun d => 2 <= d) (squeeze l).
Proof.
  induction 1 as [|x l Hx _ IH]; [constructor|].
  unfold squeeze; cbn [filter]; fold (squeeze l).
  destruct (x =? 1) eqn:E; cbn [negb]; [exact IH|].
  constructor; [lia|exact IH].
Qed.

Lemma squeezed_or_one_pos l : allpos l -> allpos (squeezed_or_one l).
Proof.
  intros H. unfold squeezed_or_one. pose proof (squeeze_ge2 l H) as H2.
  destruct (squeeze l); [repeat constructor|].
  eapply Forall_impl; [|exact H2]. cbv beta; intros; lia.
Qed.

Lemma squeezed_or_one_nonempty l : squeezed_or_one l <> [].
Proof. unfold squeezed_or_one. destruct (squeeze l); discriminate. Qed.

(* a group of >= 2 fused dimensions stays within the threshold *)
Definition small_group (thr : Z) (g : list Z) : Prop := (2 <= length g)%nat -> prodl g <= thr.

(* `out` is obtained from `sq` by cutting it into consecutive non-empty groups and multiplying each *)
Definition is_merge_of (thr : Z) (sq out : list Z) (groups : list (list Z)) : Prop :=
  concat groups = sq /\ Forall (fun g => g <> []) groups /\ map prodl groups = out
  /\ Forall (small_group thr) groups.

(* what the greedy rule guarantees: a group was closed only because fusing the NEXT ORIGINAL dimension
   (the head of the following group) would have exceeded the threshold *)
Fixpoint greedy_adjacent (thr : Z) (groups : list (list Z)) : Prop :=
  match groups with
  | [] => True
  | g :: tl => match tl with (n :: _) :: _ => thr < prodl g * n | _ => True end /\ greedy_adjacent thr tl
  end.

(* consequence on the outputs alone (positive dims): no two adjacent outputs could be fused *)
Fixpoint adjacent_unfusable (thr : Z) (out : list Z) : Prop :=
  match out with
  | [] => True
  | a :: tl => match tl with b :: _ => thr < a * b | [] => True end /\ adjacent_unfusable thr tl
  end.

Lemma merge_loop_groups thr : forall rest p, p <> [] -> small_group thr p ->
  exists g0 tl, is_merge_of thr (p ++ rest) (merge_loop thr (prodl p) rest) (g0 :: tl)
                /\ greedy_adjacent thr (g0 :: tl) /\ exists x, g0 = p ++ x.
Proof.
  induction rest as [|n rest IH]; intros p Hp Hs.
  - exists p, []. cbn [merge_loop]. split; [|split].
    + repeat split; try reflexivity; repeat constructor; assumption.
    + cbn [greedy_adjacent]; auto.
    + exists []. rewrite app_nil_r; reflexivity.
  - cbn [merge_loop]. destruct (prodl p * n <=? thr) eqn:E.
    + assert (Hpn : prodl (p ++ [n]) = prodl p * n) by (rewrite prodl_app, prodl_cons, prodl_nil; ring).
      destruct (IH (p ++ [n])) as (g0 & tl & Hm & Hg & x & Hx).
      * destruct p; discriminate.
      * intros _. rewrite Hpn. lia.
      * exists g0, tl. rewrite Hpn, <- app_assoc in Hm. cbn [app] in Hm.
        split; [exact Hm|]. split; [exact Hg|].
        exists (n :: x). rewrite Hx, <- app_assoc. reflexivity.
    + destruct (IH [n]) as (g0 & tl & Hm & Hg & x & Hx).
      * discriminate.
      * intros Hl; cbn [length] in Hl; lia.
      * change (prodl [n]) with (n * 1) in Hm. rewrite Z.mul_1_r in Hm.
        destruct Hm as (Hc & Hne & Hmap & Hsm).
        exists p, (g0 :: tl). split; [|split].
        -- repeat split.
           ++ cbn [concat] in *. rewrite Hc. reflexivity.
           ++ constructor; assumption.
           ++ cbn [map] in *. rewrite Hmap. reflexivity.
           ++ constructor; assumption.
        -- cbn [greedy_adjacent]. split; [|exact Hg].
           rewrite Hx. cbn [app]. lia.
        -- exists []. rewrite app_nil_r; reflexivity.
Qed.

Lemma prodl_ge2 g : g <> [] -> Forall (fun d => 2 <= d) g -> 2 <= prodl g.
Proof.
  intros Hne H. induction H as [|d r Hd Hr IH]; [congruence|].
  rewrite prodl_cons. destruct r as [|d' r'].
  - rewrite prodl_nil; lia.
  - assert (2 <= prodl (d' :: r')) by (apply IH; discriminate). nia.
Qed.

Lemma greedy_outputs thr groups :
  allpos (concat groups) -> Forall (fun g => g <> []) groups ->
  greedy_adjacent thr groups -> adjacent_unfusable thr (map prodl groups).
Proof.
  induction groups as [|g tl IH]; intros Hpos Hne Hg; [exact I|].
  cbn [concat] in Hpos. apply allpos_app in Hpos as [Hpg Hptl].
  inversion Hne as [|? ? _ Hne']; subst.
  cbn [greedy_adjacent] in Hg. destruct Hg as [H1 H2].
  cbn [map adjacent_unfusable]. split; [|apply IH; assumption].
  destruct tl as [|g' tl']; [exact I|]. cbn [map].
  destruct g' as [|n r]; [inversion Hne'; congruence|].
  cbn [concat] in Hptl. apply allpos_app in Hptl as [Hpg' _].
  inversion Hpg' as [|? ? Hn Hr]; subst.
  pose proof (prodl_pos _ Hpg). pose proof (prodl_pos _ Hr).
  rewrite prodl_cons. nia.
Qed.

Lemma Forall_concat_inv {A} (P : A -> Prop) gs : Forall P (concat gs) -> Forall (Forall P) gs.
Proof.
  induction gs as [|g gs IH]; cbn [concat]; intros H; [constructor|].
  apply Forall_app in H as [H1 H2]. constructor; auto.
Qed.

(* merge_small_dims, every shape of positive dims of any order (also order 0), every threshold *)
Theorem merge_small_dims_spec shape thr : allpos shape ->
  let out := merge_small_dims shape thr in
  prodl out = prodl shape
  /\ (exists groups, is_merge_of thr (squeezed_or_one shape) out groups /\ greedy_adjacent thr groups)
  /\ adjacent_unfusable thr out
  /\ (Forall (fun d => 2 <= d) out \/ (out = [1] /\ squeeze shape = []))
  /\ allpos out.
Proof.
  intros Hpos out. subst out. unfold merge_small_dims.
  pose proof (squeezed_or_one_pos shape Hpos) as Hsqpos.
  pose proof (prodl_squeezed_or_one shape) as Hsqprod.
  pose proof (squeezed_or_one_nonempty shape) as Hsqne.
  assert (Hsq2 : squeeze shape = [] /\ squeezed_or_one shape = [1]
                 \/ Forall (fun d => 2 <= d) (squeezed_or_one shape)).
  { unfold squeezed_or_one. pose proof (squeeze_ge2 shape Hpos) as H2.
    destruct (squeeze shape); [left; split; reflexivity|right; exact H2]. }
  destruct (squeezed_or_one shape) as [|d rest] eqn:E; [congruence|].
  destruct (merge_loop_groups thr rest [d]) as (g0 & tl & Hm & Hg & _).
  { discriminate. }
  { intros Hl; cbn [length] in Hl; lia. }
  change (prodl [d]) with (d * 1) in Hm. rewrite Z.mul_1_r in Hm. cbn [app] in Hm.
  set (out := merge_loop thr d rest) in *.
  destruct Hm as (Hc & Hne & Hmap & Hsm).
  assert (Hposg : Forall allpos (g0 :: tl)).
  { apply Forall_concat_inv. rewrite Hc. exact Hsqpos. }
  assert (Hout : allpos out).
  { rewrite <- Hmap. clear - Hposg. induction Hposg as [|g gs Hg _ IH]; cbn [map]; constructor; [apply prodl_pos; exact Hg|exact IH]. }
  split; [|split; [|split; [|split]]].
  - rewrite <- Hmap, prodl_concat, Hc. exact Hsqprod.
  - exists (g0 :: tl). split; [repeat split; assumption|exact Hg].
  - rewrite <- Hmap. apply greedy_outputs; [rewrite Hc; exact Hsqpos|exact Hne|exact Hg].
  - destruct Hsq2 as [[Hs H1]|H2].
    + right. split; [|exact Hs]. inversion H1; subst. reflexivity.
    + left. rewrite <- Hmap.
      assert (Hg2 : Forall (Forall (fun d => 2 <= d)) (g0 :: tl)) by (apply Forall_concat_inv; rewrite Hc; exact H2).
      clear - Hg2 Hne. induction Hg2 as [|g gs Hg _ IH]; cbn [map]; [constructor|].
      inversion Hne; subst. constructor; [apply prodl_ge2; assumption|apply IH; assumption].
  - exact Hout.
Qed.

Lemma merge_numel shape thr : prodl (merge_small_dims shape thr) = prodl shape.
Proof.
  (* holds for every list of integers, not only positive ones *)
  assert (H : forall rest cur, prodl (merge_loop thr cur rest) = cur * prodl rest).
  { induction rest as [|n rest IH]; intros cur; cbn [merge_loop].
    - rewrite prodl_cons, !prodl_nil; reflexivity.
    - destruct (cur * n <=? thr); rewrite ?prodl_cons, IH, ?prodl_cons; ring. }
  unfold merge_small_dims. pose proof (prodl_squeezed_or_one shape) as Hs.
  destruct (squeezed_or_one shape) as [|d rest].
  - exact Hs.
  - rewrite H, <- Hs. reflexivity.
Qed.

(* ============================================================================================
   2. ranges and flat_map *)
Lemma Zrange_nonpos n : n <= 0 -> Zrange n = [].
Proof. intros H. unfold Zrange. replace (Z.to_nat n) with O by lia. reflexivity. Qed.

Lemma Zrange_succ n : 0 <= n -> Zrange (n + 1) = Zrange n ++ [n].
Proof.
  intros H. unfold Zrange. rewrite Z2Nat.inj_add by lia. change (Z.to_nat 1) with 1%nat.
  rewrite Nat.add_1_r, seq_S, map_app. cbn [map plus]. rewrite Z2Nat.id by lia. reflexivity.
Qed.

Lemma map_seq_shift len : forall s, map Z.of_nat (seq s len) = map (Z.add (Z.of_nat s)) (map Z.of_nat (seq 0 len)).
Proof.
  induction len as [|len IH]; intros s; [reflexivity|].
  cbn [seq map]. f_equal; [lia|].
  rewrite (IH (S s)), (IH 1%nat), !map_map. apply map_ext. intros a. lia.
Qed.

Lemma Zrange_add a c : 0 <= a -> 0 <= c -> Zrange (a + c) = Zrange a ++ map (Z.add a) (Zrange c).
Proof.
  intros Ha Hc. unfold Zrange. rewrite Z2Nat.inj_add by lia. rewrite seq_app, map_app. f_equal.
  cbn [plus]. rewrite map_seq_shift, Z2Nat.id by lia. reflexivity.
Qed.

Lemma In_Zrange i n : In i (Zrange n) <-> 0 <= i < n.
Proof.
  unfold Zrange. rewrite in_map_iff. split.
  - intros (x & Hx & Hin). apply in_seq in Hin. lia.
  - intros H. exists (Z.to_nat i). split; [lia|]. apply in_seq. lia.
Qed.

Lemma Zrange_length n : length (Zrange n) = Z.to_nat n.
Proof. unfold Zrange. rewrite map_length, seq_length. reflexivity. Qed.

Lemma fm_map {A B C} (f : B -> list C) (g : A -> B) l : flat_map f (map g l) = flat_map (fun x => f (g x)) l.
Proof. induction l as [|a l IH]; cbn [map flat_map]; [reflexivity|rewrite IH; reflexivity]. Qed.

Lemma fm_flat_map {A B C} (f : B -> list C) (g : A -> list B) l :
  flat_map f (flat_map g l) = flat_map (fun x => flat_map f (g x)) l.
Proof. induction l as [|a l IH]; cbn [flat_map]; [reflexivity|rewrite flat_map_app, IH; reflexivity]. Qed.

Lemma map_fm {A B C} (f : B -> C) (g : A -> list B) l : map f (flat_map g l) = flat_map (fun x => map f (g x)) l.
Proof. induction l as [|a l IH]; cbn [flat_map map]; [reflexivity|rewrite map_app, IH; reflexivity]. Qed.

Lemma fm_ext_in {A B} (f g : A -> list B) l : (forall a, In a l -> f a = g a) -> flat_map f l = flat_map g l.
Proof.
  induction l as [|a l IH]; intros H; cbn [flat_map]; [reflexivity|].
  rewrite (H a (or_introl eq_refl)), IH; [reflexivity|]. intros; apply H; right; assumption.
Qed.

Lemma fm_length_const {A B} (f : A -> list B) l k : (forall a, In a l -> length (f a) = k) ->
  length (flat_map f l) = (length l * k)%nat.
Proof.
  induction l as [|a l IH]; intros H; cbn [flat_map length]; [reflexivity|].
  rewrite app_length, (H a (or_introl eq_refl)), IH; [lia|]. intros; apply H; right; assumption.
Qed.

Lemma perm_fm_pointwise {A B} (f g : A -> list B) l :
  (forall a, In a l -> Permutation (f a) (g a)) -> Permutation (flat_map f l) (flat_map g l).
Proof.
  induction l as [|a l IH]; intros H; cbn [flat_map]; [constructor|].
  apply Permutation_app; [apply H; left; reflexivity|apply IH; intros; apply H; right; assumption].
Qed.

Lemma perm_fm_app {A B} (g h : A -> list B) l :
  Permutation (flat_map (fun a => g a ++ h a) l) (flat_map g l ++ flat_map h l).
Proof.
  induction l as [|a l IH]; cbn [flat_map]; [constructor|].
  rewrite <- !app_assoc. apply Permutation_app_head.
  eapply perm_trans; [apply Permutation_app_head; exact IH|].
  rewrite !app_assoc. apply Permutation_app_tail. apply Permutation_app_comm.
Qed.

Lemma perm_fm_swap {A B C} (f : A -> B -> list C) la lb :
  Permutation (flat_map (fun a => flat_map (f a) lb) la) (flat_map (fun b => flat_map (fun a => f a b) la) lb).
Proof.
  induction la as [|a la IH]; cbn [flat_map].
  - induction lb as [|b lb IHb]; cbn [flat_map]; [constructor|exact IHb].
  - eapply perm_trans; [apply Permutation_app_head; exact IH|].
    apply Permutation_sym. apply (perm_fm_app (f a) (fun b => flat_map (fun a0 => f a0 b) la) lb).
Qed.

(* m consecutive windows of width b are the range m*b *)
Lemma Zrange_blocks b : 0 <= b -> forall m : nat,
  flat_map (fun i => map (Z.add (i * b)) (Zrange b)) (Zrange (Z.of_nat m)) = Zrange (Z.of_nat m * b).
Proof.
  intros Hb. induction m as [|m IH]; [reflexivity|].
  rewrite Nat2Z.inj_succ. unfold Z.succ. rewrite Zrange_succ by lia.
  rewrite flat_map_app, IH. cbn [flat_map]. rewrite app_nil_r.
  replace ((Z.of_nat m + 1) * b) with (Z.of_nat m * b + b) by ring.
  rewrite Zrange_add by nia. reflexivity.
Qed.

(* ============================================================================================
   3. torch.split chunk arithmetic *)
Lemma split_chunks_count n b : 1 <= n -> 1 <= b ->
  Z.of_nat (length (split_chunks n b)) = (n + b - 1) / b.
Proof.
  intros Hn Hb. unfold split_chunks. rewrite map_length, Zrange_length. lia.
Qed.

Lemma split_chunks_in n b c : 1 <= n -> 1 <= b -> In c (split_chunks n b) ->
  0 <= fst c /\ 1 <= snd c <= b /\ fst c + snd c <= n.
Proof.
  intros Hn Hb. unfold split_chunks. set (k := Z.max ((n + b - 1) / b) 1).
  assert (Hk : k = (n + b - 1) / b) by (subst k; lia).
  assert (Hk1 : b * k <= n + b - 1 < b * k + b) by (rewrite Hk; lia).
  intros Hin. apply in_map_iff in Hin as (i & Hc & Hi). apply In_Zrange in Hi. subst c. cbn [fst snd].
  destruct (i <? k - 1) eqn:E.
  - assert (i * b + b <= (k - 1) * b) by nia. nia.
  - assert (i = k - 1) by lia. subst i. nia.
Qed.

(* the chunks of a dimension tile its index range, in order *)
Lemma split_chunks_tile n b : 1 <= n -> 1 <= b ->
  flat_map (fun c => map (Z.add (fst c)) (Zrange (snd c))) (split_chunks n b) = Zrange n.
Proof.
  intros Hn Hb. unfold split_chunks. set (k := Z.max ((n + b - 1) / b) 1).
  assert (Hk : k = (n + b - 1) / b) by (subst k; lia).
  assert (Hk1 : b * k <= n + b - 1 < b * k + b) by (rewrite Hk; lia).
  assert (Hk2 : 1 <= k) by (subst k; lia).
  rewrite fm_map. cbn [fst snd].
  assert (HZ : Zrange k = Zrange (k - 1) ++ [k - 1]).
  { rewrite <- Zrange_succ by lia. f_equal. ring. }
  rewrite HZ, flat_map_app. cbn [flat_map]. rewrite app_nil_r, Z.ltb_irrefl.
  rewrite (fm_ext_in _ (fun i => map (Z.add (i * b)) (Zrange b))).
  2:{ intros i Hi. apply In_Zrange in Hi. replace (i <? k - 1) with true by lia. reflexivity. }
  replace (k - 1) with (Z.of_nat (Z.to_nat (k - 1))) at 1 by lia.
  rewrite Zrange_blocks by lia. rewrite Z2Nat.id by lia.
  rewrite <- Zrange_add by nia. f_equal. ring.
Qed.

(* ============================================================================================
   4. multi_dim_split = the lexicographic list of boxes *)
Definition mds_step (b : Z) (blocks : list view) (d : nat) : list view := flat_map (split_dim b d) blocks.

Lemma fold_step_app b ds : forall l1 l2,
  fold_left (mds_step b) ds (l1 ++ l2) = fold_left (mds_step b) ds l1 ++ fold_left (mds_step b) ds l2.
Proof.
  induction ds as [|d ds IH]; intros l1 l2; cbn [fold_left]; [reflexivity|].
  replace (mds_step b (l1 ++ l2) d) with (mds_step b l1 d ++ mds_step b l2 d)
    by (unfold mds_step; rewrite flat_map_app; reflexivity).
  apply IH.
Qed.

Lemma fold_step_nil b ds : fold_left (mds_step b) ds [] = [].
Proof. induction ds as [|d ds IH]; cbn [fold_left]; [reflexivity|exact IH]. Qed.

(* splitting every current block along the remaining dims = doing it block by block *)
Lemma fold_step_flat b ds l :
  fold_left (mds_step b) ds l = flat_map (fun v => fold_left (mds_step b) ds [v]) l.
Proof.
  induction l as [|v l IH]; cbn [flat_map]; [apply fold_step_nil|].
  change (v :: l) with ([v] ++ l). rewrite fold_step_app, IH. reflexivity.
Qed.

Lemma mds_step_single b v d : mds_step b [v] d = split_dim b d v.
Proof. unfold mds_step. cbn [flat_map]. apply app_nil_r. Qed.

Lemma set_nth_middle pre x n ss : set_nth (length pre) x (pre ++ n :: ss) = pre ++ x :: ss.
Proof. induction pre as [|y pre IH]; cbn [length app set_nth]; [reflexivity|rewrite IH; reflexivity]. Qed.

Lemma skipn_nth_cons (l : list Z) k : (k < length l)%nat -> skipn k l = nth k l 0 :: skipn (S k) l.
Proof.
  revert k; induction l as [|y l IH]; intros k Hk; cbn [length] in Hk; [lia|].
  destruct k as [|k]; [reflexivity|]. cbn [skipn nth]. apply IH. lia.
Qed.

Lemma mds_from_boxes b : forall post pre off strides,
  length strides = (length pre + length post)%nat ->
  fold_left (mds_step b) (seq (length pre) (length post)) [ {| voff := off; vsizes := pre ++ post; vstrides := strides |} ]
  = map (fun box => {| voff := off + dot (map fst box) (skipn (length pre) strides);
                       vsizes := pre ++ map snd box; vstrides := strides |}) (boxes post b).
Proof.
  induction post as [|n ss IH]; intros pre off strides Hlen.
  - cbn [length seq fold_left boxes map dot]. rewrite Z.add_0_r. reflexivity.
  - cbn [length seq fold_left boxes]. rewrite mds_step_single, fold_step_flat. unfold split_dim. cbn [vsizes]. rewrite nth_middle, fm_map, map_fm.
    apply fm_ext_in. intros c _. unfold narrow. cbn [voff vsizes vstrides fst snd].
    rewrite set_nth_middle.
    replace (pre ++ snd c :: ss) with ((pre ++ [snd c]) ++ ss) by (rewrite <- app_assoc; reflexivity).
    replace (S (length pre)) with (length (pre ++ [snd c])) by (rewrite app_length; cbn [length]; lia).
    rewrite IH by (rewrite app_length; cbn [length] in *; lia).
    rewrite map_map. apply map_ext. intros box. cbn [map fst snd].
    rewrite app_length. cbn [length]. rewrite Nat.add_1_r.
    rewrite (skipn_nth_cons strides (length pre)) by (cbn [length] in Hlen; lia).
    cbn [dot]. rewrite <- app_assoc. cbn [app]. f_equal. ring.
Qed.

Theorem mds_boxes v b : length (vsizes v) = length (vstrides v) ->
  multi_dim_split v b = map (box_view (voff v) (vstrides v)) (boxes (vsizes v) b).
Proof.
  intros Hlen. destruct v as [off sizes strides]. cbn [voff vsizes vstrides] in *.
  unfold multi_dim_split. cbn [vsizes].
  change (fun blocks d => flat_map (split_dim b d) blocks) with (mds_step b).
  pose proof (mds_from_boxes b sizes [] off strides) as H. cbn [length app plus skipn] in H.
  rewrite H by lia. reflexivity.
Qed.

Lemma cstrides_length l : length (cstrides l) = length l.
Proof. induction l as [|x l IH]; cbn [cstrides length]; [reflexivity|rewrite IH; reflexivity]. Qed.

(* ============================================================================================
   5. exact tiling *)
(* the boxes of a view address exactly the storage offsets of the view, each once - any strides *)
Lemma boxes_tile b : 1 <= b -> forall sizes strides off, allpos sizes -> length sizes = length strides ->
  Permutation (flat_map (fun box => view_offsets (box_view off strides box)) (boxes sizes b))
              (offsets_from off sizes strides).
Proof.
  intros Hb. induction sizes as [|n ss IH]; intros strides off Hpos Hlen.
  - cbn [boxes flat_map]. unfold view_offsets, box_view. cbn [voff vsizes vstrides map dot offsets_from app].
    rewrite Z.add_0_r. apply Permutation_refl.
  - destruct strides as [|st sts]; [discriminate|].
    inversion Hpos as [|? ? Hn Hss]; subst. cbn [length] in Hlen.
    cbn [boxes offsets_from]. rewrite fm_flat_map.
    rewrite <- (split_chunks_tile n b) by lia. rewrite fm_flat_map.
    apply perm_fm_pointwise. intros c Hc. rewrite !fm_map.
    (* one chunk c of dimension 0: exchange "for box, for i" with "for i, for box" *)
    eapply perm_trans.
    { apply (perm_fm_pointwise _ (fun box => flat_map (fun i => view_offsets (box_view (off + (fst c + i) * st) sts box)) (Zrange (snd c)))).
      intros box _. unfold view_offsets, box_view. cbn [voff vsizes vstrides map dot offsets_from fst snd].
      erewrite fm_ext_in; [apply Permutation_refl|]. intros i _. cbn beta. f_equal. ring. }
    eapply perm_trans; [apply perm_fm_swap|].
    apply perm_fm_pointwise. intros i _. apply IH; [exact Hss|lia].
Qed.

(* a contiguous view addresses off, off+1, ..., off+numel-1 in this order *)
Lemma offsets_contig : forall sizes off, allpos sizes ->
  offsets_from off sizes (cstrides sizes) = map (Z.add off) (Zrange (prodl sizes)).
Proof.
  induction sizes as [|n ss IH]; intros off Hpos.
  - cbn [offsets_from cstrides]. rewrite prodl_nil. change (Zrange 1) with [0]. cbn [map]. rewrite Z.add_0_r. reflexivity.
  - inversion Hpos as [|? ? Hn Hss]; subst. cbn [cstrides offsets_from].
    pose proof (prodl_pos _ Hss) as HR.
    rewrite (fm_ext_in _ (fun i => map (Z.add (off + i * prodl ss)) (Zrange (prodl ss)))) by (intros; apply IH; exact Hss).
    rewrite prodl_cons. replace n with (Z.of_nat (Z.to_nat n)) by lia.
    rewrite <- Zrange_blocks by lia. rewrite map_fm. apply fm_ext_in. intros i _.
    rewrite map_map. apply map_ext. intros a. ring.
Qed.

(* ============================================================================================
   6. every block is a box of the merged shape; sizes; count; element order *)
Definition valid_box (box : list (Z * Z)) (sizes : list Z) : Prop :=
  Forall2 (fun c n => 0 <= fst c /\ 1 <= snd c /\ fst c + snd c <= n) box sizes.

(* v is the contiguous view of shape M narrowed, in every dimension d, to [start_d, start_d + len_d):
   the strides of M, offset = sum start_d * stride_d, sizes = the lengths *)
Definition narrow_of (M : list Z) (v : view) : Prop :=
  exists box, valid_box box M /\ v = box_view 0 (cstrides M) box.

Lemma boxes_valid b sizes : 1 <= b -> allpos sizes ->
  Forall (fun box => valid_box box sizes /\ Forall (fun c => 1 <= snd c <= b) box) (boxes sizes b).
Proof.
  intros Hb. induction sizes as [|n ss IH]; intros Hpos.
  - cbn [boxes]. repeat constructor.
  - inversion Hpos as [|? ? Hn Hss]; subst. specialize (IH Hss). rewrite Forall_forall in IH.
    apply Forall_forall. intros box Hin. cbn [boxes] in Hin.
    apply in_flat_map in Hin as (c & Hc & Hin). apply in_map_iff in Hin as (box' & Hbox & Hin'). subst box.
    destruct (IH _ Hin') as [Hv Hd].
    pose proof (split_chunks_in n b c ltac:(lia) Hb Hc) as (H1 & H2 & H3).
    split; constructor; try assumption. repeat split; lia.
Qed.

Lemma boxes_length b sizes : 1 <= b -> allpos sizes ->
  Z.of_nat (length (boxes sizes b)) = prodl (map (fun n => (n + b - 1) / b) sizes).
Proof.
  intros Hb. induction sizes as [|n ss IH]; intros Hpos; [reflexivity|].
  inversion Hpos as [|? ? Hn Hss]; subst. cbn [boxes map]. rewrite prodl_cons, <- IH by exact Hss.
  rewrite (fm_length_const _ _ (length (boxes ss b))) by (intros; apply map_length).
  rewrite Nat2Z.inj_mul, split_chunks_count by lia. reflexivity.
Qed.

Lemma sorted_app l1 : forall l2 T, StronglySorted Z.lt l1 -> StronglySorted Z.lt l2 ->
  Forall (fun x => x < T) l1 -> Forall (fun y => T <= y) l2 -> StronglySorted Z.lt (l1 ++ l2).
Proof.
  induction l1 as [|a l1 IH]; intros l2 T H1 H2 HF1 HF2; cbn [app]; [exact H2|].
  inversion H1 as [|? ? Hs Ha]; subst. inversion HF1 as [|? ? HaT HF1']; subst.
  constructor; [eapply IH; eassumption|].
  apply Forall_app; split; [exact Ha|]. eapply Forall_impl; [|exact HF2]. cbv beta; intros; lia.
Qed.

Lemma windows_sorted (f : Z -> list Z) B R : 0 <= R ->
  (forall i, 0 <= i -> StronglySorted Z.lt (f i) /\ Forall (fun x => B + i * R <= x < B + (i + 1) * R) (f i)) ->
  forall m : nat, StronglySorted Z.lt (flat_map f (Zrange (Z.of_nat m)))
                  /\ Forall (fun x => B <= x < B + Z.of_nat m * R) (flat_map f (Zrange (Z.of_nat m))).
Proof.
  intros HR Hf. induction m as [|m [IH1 IH2]]; [split; constructor|].
  rewrite Nat2Z.inj_succ. unfold Z.succ. rewrite Zrange_succ by lia.
  rewrite flat_map_app. cbn [flat_map]. rewrite app_nil_r.
  destruct (Hf (Z.of_nat m) ltac:(lia)) as [Hs Hw].
  split.
  - apply sorted_app with (T := B + Z.of_nat m * R); try assumption.
    + eapply Forall_impl; [|exact IH2]. cbv beta; intros; lia.
    + eapply Forall_impl; [|exact Hw]. cbv beta; intros; lia.
  - apply Forall_app; split.
    + eapply Forall_impl; [|exact IH2]. cbv beta; intros; nia.
    + eapply Forall_impl; [|exact Hw]. cbv beta; intros; nia.
Qed.

(* a box of a contiguous tensor enumerates its storage offsets in increasing order, i.e. the block's own
   row-major order is the row-major (= storage) order of the whole tensor restricted to the block *)
Lemma box_sorted : forall sizes box base, allpos sizes -> valid_box box sizes ->
  StronglySorted Z.lt (view_offsets (box_view base (cstrides sizes) box))
  /\ Forall (fun x => base <= x < base + prodl sizes) (view_offsets (box_view base (cstrides sizes) box)).
Proof.
  induction sizes as [|n ss IH]; intros box base Hpos Hv; inversion Hv as [|c n' box' ss' Hc Hv']; subst.
  - unfold view_offsets, box_view. cbn [voff vsizes vstrides map dot offsets_from cstrides].
    rewrite prodl_nil. split; repeat constructor; lia.
  - inversion Hpos as [|? ? Hn Hss]; subst. pose proof (prodl_pos _ Hss) as HR.
    set (R := prodl ss) in *.
    assert (E : view_offsets (box_view base (cstrides (n :: ss)) (c :: box'))
                = flat_map (fun i => view_offsets (box_view ((base + fst c * R) + i * R) (cstrides ss) box')) (Zrange (snd c))).
    { unfold view_offsets, box_view. cbn [voff vsizes vstrides map dot offsets_from cstrides]. fold R.
      apply fm_ext_in. intros i _. f_equal. ring. }
    rewrite E.
    destruct (windows_sorted (fun i => view_offsets (box_view ((base + fst c * R) + i * R) (cstrides ss) box'))
                             (base + fst c * R) R ltac:(lia)) with (m := Z.to_nat (snd c)) as [H1 H2].
    { intros i Hi. destruct (IH box' ((base + fst c * R) + i * R) Hss Hv') as [Ha Hb].
      split; [exact Ha|]. eapply Forall_impl; [|exact Hb]. cbv beta. fold R. intros; lia. }
    rewrite Z2Nat.id in H1, H2 by lia. split; [exact H1|].
    eapply Forall_impl; [|exact H2]. cbv beta. rewrite prodl_cons. fold R. intros a Ha.
    destruct Hc as (Hc1 & Hc2 & Hc3).
    assert (0 <= fst c * R) by nia. assert ((fst c + snd c) * R <= n * R) by nia. lia.
Qed.

Lemma merged_shape_pos shape thr merge : allpos shape -> allpos (merged_shape shape thr merge).
Proof.
  intros H. unfold merged_shape. destruct merge; [|exact H].
  apply (merge_small_dims_spec shape thr H).
Qed.

Lemma merged_shape_numel shape thr merge : prodl (merged_shape shape thr merge) = prodl shape.
Proof. unfold merged_shape. destruct merge; [apply merge_numel|reflexivity]. Qed.

Lemma blocks_as_boxes shape thr merge :
  blocks shape thr merge
  = map (box_view 0 (cstrides (merged_shape shape thr merge))) (boxes (merged_shape shape thr merge) thr).
Proof.
  unfold blocks, distributor_init. cbn [param_blocks].
  rewrite mds_boxes by (cbn [contig_view vsizes vstrides]; rewrite cstrides_length; reflexivity).
  reflexivity.
Qed.

(* every storage offset 0 .. numel-1 of the parameter is addressed by exactly one element of exactly one block *)
Theorem blocks_tile shape thr merge : allpos shape -> 1 <= thr ->
  Permutation (concat (map view_offsets (blocks shape thr merge))) (Zrange (prodl shape)).
Proof.
  intros Hpos Hthr. rewrite <- flat_map_concat_map, blocks_as_boxes, fm_map.
  pose proof (merged_shape_pos shape thr merge Hpos) as HM.
  eapply perm_trans; [apply (boxes_tile thr Hthr); [exact HM|rewrite cstrides_length; reflexivity]|].
  rewrite offsets_contig by exact HM. rewrite merged_shape_numel.
  rewrite (map_ext _ (fun x => x)) by (intros; lia). rewrite map_id. apply Permutation_refl.
Qed.

Corollary blocks_offsets_nodup shape thr merge : allpos shape -> 1 <= thr ->
  NoDup (concat (map view_offsets (blocks shape thr merge)))
  /\ forall x, In x (concat (map view_offsets (blocks shape thr merge))) <-> 0 <= x < prodl shape.
Proof.
  intros Hpos Hthr. pose proof (blocks_tile shape thr merge Hpos Hthr) as HP. split.
  - eapply Permutation_NoDup; [apply Permutation_sym; exact HP|].
    unfold Zrange. apply FinFun.Injective_map_NoDup; [intros a b; lia|apply seq_NoDup].
  - intros x. rewrite <- In_Zrange. split; intros H.
    + eapply Permutation_in; [exact HP|exact H].
    + eapply Permutation_in; [apply Permutation_sym; exact HP|exact H].
Qed.

(* no block dimension exceeds max_preconditioner_dim (and none is empty) *)
Theorem block_dims_le shape thr merge : allpos shape -> 1 <= thr ->
  Forall (fun v => Forall (fun d => 1 <= d <= thr) (vsizes v)) (blocks shape thr merge).
Proof.
  intros Hpos Hthr. rewrite blocks_as_boxes. apply Forall_map.
  pose proof (boxes_valid thr _ Hthr (merged_shape_pos shape thr merge Hpos)) as H.
  eapply Forall_impl; [|exact H]. cbv beta. intros box [_ Hd]. cbn [box_view vsizes].
  apply Forall_map. exact Hd.
Qed.

(* every block is the merged contiguous view narrowed in each dimension (the strides of the merged
   parameter, offset = sum start_d * stride_d); its own row-major enumeration visits the parameter's
   storage in increasing order, inside the parameter *)
Theorem blocks_row_major shape thr merge : allpos shape -> 1 <= thr ->
  Forall (fun v => narrow_of (merged_shape shape thr merge) v
                   /\ StronglySorted Z.lt (view_offsets v)
                   /\ Forall (fun x => 0 <= x < prodl shape) (view_offsets v))
         (blocks shape thr merge).
Proof.
  intros Hpos Hthr. rewrite blocks_as_boxes. apply Forall_map.
  pose proof (merged_shape_pos shape thr merge Hpos) as HM.
  pose proof (boxes_valid thr _ Hthr HM) as H.
  eapply Forall_impl; [|exact H]. cbv beta. intros box [Hv _].
  split; [exists box; split; [exact Hv|reflexivity]|].
  destruct (box_sorted _ box 0 HM Hv) as [H1 H2]. split; [exact H1|].
  rewrite merged_shape_numel in H2. eapply Forall_impl; [|exact H2]. cbv beta; intros; lia.
Qed.

Theorem num_blocks_formula shape thr merge : allpos shape -> 1 <= thr ->
  Z.of_nat (length (blocks shape thr merge))
  = prodl (map (fun n => (n + thr - 1) / thr) (merged_shape shape thr merge)).
Proof.
  intros Hpos Hthr. rewrite blocks_as_boxes, map_length.
  apply boxes_length; [exact Hthr|apply merged_shape_pos; exact Hpos].
Qed.

(* the gradient is viewed with the stored merged dims and split with the same block size: it yields the
   same views (relative to the gradient's storage), hence block i of the gradient covers the same index
   set, in the same order, as block i of the parameter *)
Theorem grad_blocks_same_index_sets shape thr merge :
  let st := distributor_init shape thr merge in
  block_gradients st thr = param_blocks st
  /\ length (block_gradients st thr) = num_blocks st
  /\ map view_offsets (block_gradients st thr) = map view_offsets (param_blocks st).
Proof. cbn. repeat split; reflexivity. Qed.

(* ============================================================================================
   7. the specification of merge_small_dims determines it: any grouping of the squeezed shape that obeys
      the threshold on fused groups and is greedy-maximal has exactly the model's products *)
Lemma merge_loop_unique thr : forall rest p g0 tl,
  p <> [] -> allpos (p ++ rest) -> concat (g0 :: tl) = p ++ rest -> (exists x, g0 = p ++ x) ->
  Forall (fun g => g <> []) (g0 :: tl) -> Forall (small_group thr) (g0 :: tl) -> greedy_adjacent thr (g0 :: tl) ->
  map prodl (g0 :: tl) = merge_loop thr (prodl p) rest.
Proof.
  induction rest as [|n rest IH]; intros p g0 tl Hp Hpos Hc (x & Hx) Hne Hsm Hg.
  - subst g0. cbn [concat] in Hc. rewrite <- app_assoc, app_nil_r in Hc.
    assert (Hx0 : x ++ concat tl = []) by (apply (app_inv_head p); rewrite Hc, app_nil_r; reflexivity).
    apply app_eq_nil in Hx0 as [Hx0 Htl]. subst x.
    destruct tl as [|g1 tl'].
    + cbn [map merge_loop]. rewrite app_nil_r. reflexivity.
    + exfalso. cbn [concat] in Htl. apply app_eq_nil in Htl as [Hg1 _].
      inversion Hne as [|? ? _ Hne']; subst. inversion Hne'; subst. congruence.
  - subst g0. cbn [concat] in Hc. rewrite <- app_assoc in Hc. apply app_inv_head in Hc.
    apply allpos_app in Hpos as [Hpp Hpr]. inversion Hpr as [|? ? Hn Hpr']; subst.
    pose proof (prodl_pos _ Hpp) as Hpp0.
    cbn [merge_loop]. destruct x as [|y x'].
    + (* the first group is exactly p: the next group starts with n, greedy says it could not be fused *)
      rewrite app_nil_r in *. cbn [app] in Hc.
      destruct tl as [|g1 tl']; [discriminate|].
      inversion Hne as [|? ? _ Hne']; subst. inversion Hne' as [|? ? Hg1 _]; subst.
      destruct g1 as [|y g1']; [congruence|]. cbn [concat app] in Hc. injection Hc as Hy Hc. subst y.
      cbn [greedy_adjacent] in Hg. destruct Hg as [Hg1' Hg2].
      replace (prodl p * n <=? thr) with false by lia.
      cbn [map]. f_equal.
      pose proof (Forall_inv_tail Hsm) as Hsm'.
      replace n with (prodl [n]) at 2 by (rewrite prodl_cons, prodl_nil; ring).
      apply (IH [n] (n :: g1') tl').
      * discriminate.
      * cbn [app]. constructor; assumption.
      * cbn [concat app]. rewrite Hc. reflexivity.
      * exists g1'. reflexivity.
      * exact Hne'.
      * exact Hsm'.
      * exact Hg2.
    + (* the first group continues with y = n: it has >= 2 dims, so its product is within thr *)
      cbn [app] in Hc. injection Hc as Hy Hc. subst y.
      pose proof (Forall_inv Hsm) as Hs0. cbv beta in Hs0.
      assert (Hle : prodl (p ++ n :: x') <= thr).
      { apply Hs0. rewrite app_length. cbn [length]. destruct p; [congruence|cbn [length]; lia]. }
      assert (Hx'pos : allpos x').
      { assert (Hall : allpos (x' ++ concat tl)) by (rewrite Hc; exact Hpr').
        apply allpos_app in Hall. apply Hall. }
      pose proof (prodl_pos _ Hx'pos) as Hx0.
      rewrite prodl_app, prodl_cons in Hle.
      replace (prodl p * n <=? thr) with true by nia.
      replace (prodl p * n) with (prodl (p ++ [n])) by (rewrite prodl_app, prodl_cons, prodl_nil; ring).
      apply (IH (p ++ [n]) (p ++ n :: x') tl).
      * destruct p; discriminate.
      * rewrite <- app_assoc. cbn [app]. apply allpos_app. split; [exact Hpp|constructor; assumption].
      * cbn [concat]. rewrite <- !app_assoc. cbn [app]. rewrite Hc. reflexivity.
      * exists x'. rewrite <- app_assoc. reflexivity.
      * exact Hne.
      * exact Hsm.
      * exact Hg.
Qed.

Theorem merge_small_dims_unique shape thr out groups : allpos shape ->
  is_merge_of thr (squeezed_or_one shape) out groups -> greedy_adjacent thr groups ->
  out = merge_small_dims shape thr.
Proof.
  intros Hpos (Hc & Hne & Hmap & Hsm) Hg. unfold merge_small_dims.
  pose proof (squeezed_or_one_pos shape Hpos) as Hsqpos.
  destruct (squeezed_or_one shape) as [|d rest] eqn:E; [exfalso; eapply squeezed_or_one_nonempty; exact E|].
  destruct groups as [|g0 tl]; [discriminate|].
  inversion Hne as [|? ? Hg0 _]; subst.
  destruct g0 as [|d' x]; [congruence|].
  assert (d' = d) by (cbn [concat app] in Hc; congruence). subst d'.
  replace d with (prodl [d]) at 2 by (rewrite prodl_cons, prodl_nil; ring).
  apply (merge_loop_unique thr rest [d] (d :: x) tl); try assumption.
  - discriminate.
  - exists x. reflexivity.
Qed.

(* ============================================================================================
   8. the property predicate on a list of observed blocks, and the model satisfies it *)
Definition C05_spec (shape : list Z) (thr : Z) (merge : bool) (obs : list view) : Prop :=
  exists M, allpos M /\ prodl M = prodl shape
    /\ (if merge then exists groups, is_merge_of thr (squeezed_or_one shape) M groups else M = shape)
    /\ Forall (narrow_of M) obs
    /\ Forall (fun v => StronglySorted Z.lt (view_offsets v)) obs
    /\ Forall (fun v => Forall (fun d => 1 <= d <= thr) (vsizes v)) obs
    /\ Permutation (concat (map view_offsets obs)) (Zrange (prodl shape)).

Theorem model_satisfies_spec shape thr merge : allpos shape -> 1 <= thr ->
  C05_spec shape thr merge (blocks shape thr merge).
Proof.
  intros Hpos Hthr. exists (merged_shape shape thr merge).
  split; [apply merged_shape_pos; exact Hpos|]. split; [apply merged_shape_numel|].
  split; [|split; [|split; [|split]]].
  - unfold merged_shape. destruct merge; [|reflexivity].
    destruct (merge_small_dims_spec shape thr Hpos) as (_ & (groups & Hm & _) & _). exists groups; exact Hm.
  - eapply Forall_impl; [|apply (blocks_row_major shape thr merge Hpos Hthr)]. cbv beta; intros v H; apply H.
  - eapply Forall_impl; [|apply (blocks_row_major shape thr merge Hpos Hthr)]. cbv beta; intros v H; apply H.
  - apply block_dims_le; assumption.
  - apply blocks_tile; assumption.
Qed.

(* ============================================================================================
   9. non-vacuity: the hypotheses are satisfiable and the conclusions say something on real instances *)
Example merge_example :
  allpos [1; 2; 4; 1; 2; 5] /\ merge_small_dims [1; 2; 4; 1; 2; 5] 8 = [8; 2; 5]
  /\ is_merge_of 8 (squeezed_or_one [1; 2; 4; 1; 2; 5]) [8; 2; 5] [[2; 4]; [2]; [5]]
  /\ greedy_adjacent 8 [[2; 4]; [2]; [5]].
Proof.
  split; [repeat constructor|]. split; [reflexivity|]. split.
  - repeat split; try reflexivity.
    + repeat constructor; discriminate.
    + repeat constructor; unfold small_group; cbn; lia.
  - cbn. lia.
Qed.

Example merge_example_order0 : merge_small_dims [] 5 = [1] /\ merge_small_dims [1; 1; 1] 1 = [1].
Proof. split; reflexivity. Qed.

(* a fused group may not exceed thr, a single original dimension may: [7] stays although 7 > 4 *)
Example merge_example_large_dim : merge_small_dims [2; 2; 7; 3] 4 = [4; 7; 3].
Proof. reflexivity. Qed.

Example blocks_example :
  allpos [5; 3] /\ 1 <= 2
  /\ blocks [5; 3] 2 false
     = [ mkv 0 [2; 2] [3; 1]; mkv 2 [2; 1] [3; 1]; mkv 6 [2; 2] [3; 1]; mkv 8 [2; 1] [3; 1];
         mkv 12 [1; 2] [3; 1]; mkv 14 [1; 1] [3; 1] ]
  /\ concat (map view_offsets (blocks [5; 3] 2 false)) = [0; 1; 3; 4; 2; 5; 6; 7; 9; 10; 8; 11; 12; 13; 14]
  /\ Zrange (prodl [5; 3]) = [0; 1; 2; 3; 4; 5; 6; 7; 8; 9; 10; 11; 12; 13; 14].
Proof. split; [repeat constructor|]. split; [lia|]. repeat split; reflexivity. Qed.

Example blocks_example_merged :
  merged_shape [2; 1; 3; 4] 6 true = [6; 4]
  /\ blocks [2; 1; 3; 4] 6 true = [ mkv 0 [6; 4] [4; 1] ]
  /\ blocks [2; 1; 3; 4] 3 true = [ mkv 0 [2; 3; 3] [12; 4; 1]; mkv 3 [2; 3; 1] [12; 4; 1] ].
Proof. repeat split; reflexivity. Qed.

(* ============================================================================================
   10. parameters with a non-default memory layout: when does a strided view of the merged shape exist *)
Lemma loc_zero sizes : forall strides, loc sizes strides 0 = 0.
Proof.
  induction sizes as [|n ss IH]; intros [|st sts]; cbn [loc]; try reflexivity.
  rewrite Zdiv_0_l, Zmod_0_l, IH. reflexivity.
Qed.

Lemma viewable_sound shape pstr M : viewable shape pstr M = true ->
  forall i, 0 <= i < prodl shape -> loc shape pstr i = loc M (unit_strides shape pstr M) i.
Proof.
  unfold viewable. intros H i Hi. rewrite forallb_forall in H.
  apply Z.eqb_eq. apply H. apply In_Zrange. exact Hi.
Qed.

(* loc only looks at the strides of dimensions of size >= 2 *)
Lemma loc_ext M : allpos M -> forall s s', length s = length M -> length s' = length M ->
  (forall d, (d < length M)%nat -> nth d M 0 = 1 \/ nth d s 0 = nth d s' 0) ->
  forall i, 0 <= i < prodl M -> loc M s i = loc M s' i.
Proof.
  induction 1 as [|n ss Hn Hss IH]; intros s s' Hl Hl' Hd i Hi; [reflexivity|].
  destruct s as [|st sts]; [discriminate|]. destruct s' as [|st' sts']; [discriminate|].
  cbn [length] in Hl, Hl'. rewrite prodl_cons in Hi. pose proof (prodl_pos _ Hss) as HR.
  cbn [loc]. f_equal.
  - destruct (Hd 0%nat ltac:(cbn [length]; lia)) as [H1|H1]; cbn [nth] in H1.
    + subst n. replace (i / prodl ss) with 0 by (symmetry; apply Z.div_small; lia). reflexivity.
    + rewrite H1. reflexivity.
  - apply IH; try lia.
    intros d Hdl. apply (Hd (S d)). cbn [length]. lia.
Qed.

Lemma cstride_bound ss : allpos ss -> forall d, (d < length ss)%nat ->
  0 < nth d (cstrides ss) 0 /\ nth d (cstrides ss) 0 * nth d ss 0 <= prodl ss.
Proof.
  induction 1 as [|n r Hn Hr IH]; intros d Hd; cbn [length] in Hd; [lia|].
  pose proof (prodl_pos _ Hr) as HR. rewrite prodl_cons.
  destruct d as [|d]; cbn [cstrides nth].
  - split; lia.
  - destruct (IH d ltac:(lia)) as [H1 H2]. split; [exact H1|]. nia.
Qed.

(* the flat index "one step in dimension d" is located at stride_d *)
Lemma loc_unit M : allpos M -> forall s d, length s = length M -> (d < length M)%nat -> 2 <= nth d M 0 ->
  loc M s (nth d (cstrides M) 0) = nth d s 0.
Proof.
  induction 1 as [|n ss Hn Hss IH]; intros s d Hl Hd H2; cbn [length] in Hd; [lia|].
  destruct s as [|st sts]; [discriminate|]. cbn [length] in Hl.
  pose proof (prodl_pos _ Hss) as HR.
  destruct d as [|d]; cbn [cstrides nth loc] in *.
  - rewrite Z.div_same, Z.mod_same, loc_zero by lia. lia.
  - destruct (cstride_bound ss Hss d ltac:(lia)) as [Hc1 Hc2].
    assert (Hlt : nth d (cstrides ss) 0 < prodl ss) by nia.
    rewrite Z.div_small, Z.mod_small by lia. rewrite IH by (try assumption; lia). lia.
Qed.

Lemma nth_map_lt {A} (f : A -> Z) l d a0 : (d < length l)%nat -> nth d (map f l) 0 = f (nth d l a0).
Proof. intros H. rewrite (nth_indep _ 0 (f a0)) by (rewrite map_length; exact H). apply map_nth. Qed.

(* completeness of the predicate: if ANY stride vector makes M a view of the layout, `viewable` says so;
   hence a refusal is accepted by the check only where no strided view of the merged shape exists *)
Theorem viewable_complete shape pstr M s : allpos M -> prodl M = prodl shape -> length s = length M ->
  (forall i, 0 <= i < prodl M -> loc shape pstr i = loc M s i) -> viewable shape pstr M = true.
Proof.
  intros HM Hnum Hl Hs. unfold viewable. apply forallb_forall. intros i Hi. apply In_Zrange in Hi.
  apply Z.eqb_eq. rewrite Hs by lia. apply loc_ext; try assumption.
  - unfold unit_strides. rewrite map_length, cstrides_length. reflexivity.
  - intros d Hd. destruct (Z.eq_dec (nth d M 0) 1) as [H1|H1]; [left; exact H1|right].
    assert (Hpos : 0 < nth d M 0).
    { unfold allpos in HM. rewrite Forall_forall in HM. apply HM. apply nth_In. exact Hd. }
    unfold unit_strides. rewrite (nth_map_lt _ _ _ 0) by (rewrite cstrides_length; exact Hd).
    destruct (cstride_bound M HM d Hd) as [Hc1 Hc2].
    rewrite Hs by nia. symmetry. apply loc_unit; try assumption. lia.
  - lia.
Qed.

Example viewable_examples :
  (* channels_last (4,3,2,2): strides (12,1,6,3); fusing O with I is impossible, fusing H with W is a view *)
  viewable [4; 3; 2; 2] [12; 1; 6; 3] [12; 4] = false
  /\ viewable [4; 3; 2; 2] [12; 1; 6; 3] [4; 3; 4] = true
  (* transposed (4,6): strides (1,4) cannot be flattened; merging off is always a view *)
  /\ viewable [4; 6] [1; 4] [24] = false /\ viewable [4; 6] [1; 4] [4; 6] = true.
Proof. repeat split; vm_compute; reflexivity. Qed.

(* ============================================================================================
   11. multi-call model: shifting a view shifts the offsets it addresses *)
Lemma offsets_from_shift k sizes : forall strides off,
  offsets_from (k + off) sizes strides = map (Z.add k) (offsets_from off sizes strides).
Proof.
  induction sizes as [|n ss IH]; intros [|st sts] off; cbn [offsets_from map]; try reflexivity.
  rewrite map_fm. apply fm_ext_in. intros i _. rewrite <- IH. f_equal. ring.
Qed.

Lemma view_offsets_shift k v : view_offsets (shift_view k v) = map (Z.add k) (view_offsets v).
Proof. unfold view_offsets, shift_view, mkv. cbn [voff vsizes vstrides]. apply offsets_from_shift. Qed.
