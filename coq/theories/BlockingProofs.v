(* C05 - theorems about the merging/blocking model (Blocking.v). *)
From Coq Require Import ZArith List Bool Lia Permutation Sorted.
From Shampoo Require Import Show SplitRecovery SplitRecoveryProofs Blocking.
Import ListNotations.
Open Scope Z_scope.
Ltac Zify.zify_post_hook ::= Z.div_mod_to_equations.

(* ============================================================================================
   0. products *)
Lemma prodl_nil : prodl [] = 1.
Proof. reflexivity. Qed.

Lemma prodl_cons d l : prodl (d :: l) = d * prodl l.
Proof. reflexivity. Qed.

Lemma prodl_app a b : prodl (a ++ b) = prodl a * prodl b.
Proof.
  induction a as [|x a IH]; [rewrite app_nil_l, prodl_nil; lia|].
  rewrite <- app_comm_cons, !prodl_cons, IH. ring.
Qed.

Lemma prodl_concat gs : prodl (map prodl gs) = prodl (concat gs).
Proof.
  induction gs as [|g gs IH]; [reflexivity|].
  cbn [map concat]. rewrite prodl_cons, prodl_app, IH. reflexivity.
Qed.

Lemma allpos_app a b : allpos (a ++ b) <-> allpos a /\ allpos b.
Proof. unfold allpos. apply Forall_app. Qed.

(* ============================================================================================
   1. merge_small_dims *)
Lemma prodl_squeeze l : prodl (squeeze l) = prodl l.
Proof.
  induction l as [|x l IH]; [reflexivity|].
  unfold squeeze; cbn [filter]; fold (squeeze l).
  destruct (x =? 1) eqn:E; cbn [negb]; rewrite ?prodl_cons, IH; [|reflexivity].
  apply Z.eqb_eq in E; subst; lia.
Qed.

Lemma prodl_squeezed_or_one l : prodl (squeezed_or_one l) = prodl l.
Proof.
  unfold squeezed_or_one. pose proof (prodl_squeeze l) as H.
  destruct (squeeze l); [rewrite <- H; reflexivity|exact H].
Qed.

Lemma squeeze_ge2 l : allpos l -> Forall (fun d => 2 <= d) (squeeze l).
Proof.
  induction 1 as [|x l Hx _ IH]; [constructor|].
  unfold squeeze; cbn [filter]; fold (squeeze l).
  destruct (x =? 1) eqn:E; cbn [negb]; [exact IH|].
  constructor; [lia|exact IH].
Qed.

Lemma squeezed_or_one_pos l : allpos l -> allpos (squeezed_or_one l).
Proof.
  intros H. unfold squeezed_or_one. pose proof (squeeze_ge2 l H) as H2.
  destruct (squeeze l); [repeat constructor|].
  eapply Forall_impl; [|exact H2]. cbv beta; intros; lia.
Qed.

Lemma squeezed_or_one_nonempty l : squeezed_or_one l <> [].
Proof. unfold squeezed_or_one. destruct (squeeze l); discriminate. Qed.

(* a group of >= 2 fused dimensions stays within the threshold *)
Definition small_group (thr : Z) (g : list Z) : Prop := (2 <= length g)%nat -> prodl g <= thr.

(* `out` is obtained from `sq` by cutting it into consecutive non-empty groups and multiplying each *)
Definition is_merge_of (thr : Z) (sq out : list Z) (groups : list (list Z)) : Prop :=
  concat groups = sq /\ Forall (fun g => g <> []) groups /\ map prodl groups = out
  /\ Forall (small_group thr) groups.

(* what the greedy rule guarantees: a group was closed only because fusing the NEXT ORIGINAL dimension
   (the head of the following group) would have exceeded the threshold *)
Fixpoint greedy_adjacent (thr : Z) (groups : list (list Z)) : Prop :=
  match groups with
  | [] => True
  | g :: tl => match tl with (n :: _) :: _ => thr < prodl g * n | _ => True end /\ greedy_adjacent thr tl
  end.

(* consequence on the outputs alone (positive dims): no two adjacent outputs could be fused *)
Fixpoint adjacent_unfusable (thr : Z) (out : list Z) : Prop :=
  match out with
  | [] => True
  | a :: tl => match tl with b :: _ => thr < a * b | [] => True end /\ adjacent_unfusable thr tl
  end.

Lemma merge_loop_groups thr : forall rest p, p <> [] -> small_group thr p ->
  exists g0 tl, is_merge_of thr (p ++ rest) (merge_loop thr (prodl p) rest) (g0 :: tl)
                /\ greedy_adjacent thr (g0 :: tl) /\ exists x, g0 = p ++ x.
Proof.
  induction rest as [|n rest IH]; intros p Hp Hs.
  - exists p, []. cbn [merge_loop]. split; [|split].
    + repeat split; try reflexivity; repeat constructor; assumption.
    + cbn [greedy_adjacent]; auto.
    + exists []. rewrite app_nil_r; reflexivity.
  - cbn [merge_loop]. destruct (prodl p * n <=? thr) eqn:E.
    + assert (Hpn : prodl (p ++ [n]) = prodl p * n) by (rewrite prodl_app, prodl_cons, prodl_nil; ring).
      destruct (IH (p ++ [n])) as (g0 & tl & Hm & Hg & x & Hx).
      * destruct p; discriminate.
      * intros _. rewrite Hpn. lia.
      * exists g0, tl. rewrite Hpn, <- app_assoc in Hm. cbn [app] in Hm.
        split; [exact Hm|]. split; [exact Hg|].
        exists (n :: x). rewrite Hx, <- app_assoc. reflexivity.
    + destruct (IH [n]) as (g0 & tl & Hm & Hg & x & Hx).
      * discriminate.
      * intros Hl; cbn [length] in Hl; lia.
      * change (prodl [n]) with (n * 1) in Hm. rewrite Z.mul_1_r in Hm.
        destruct Hm as (Hc & Hne & Hmap & Hsm).
        exists p, (g0 :: tl). split; [|split].
        -- repeat split.
           ++ cbn [concat] in *. rewrite Hc. reflexivity.
           ++ constructor; assumption.
           ++ cbn [map] in *. rewrite Hmap. reflexivity.
           ++ constructor; assumption.
        -- cbn [greedy_adjacent]. split; [|exact Hg].
           rewrite Hx. cbn [app]. lia.
        -- exists []. rewrite app_nil_r; reflexivity.
Qed.

Lemma prodl_ge2 g : g <> [] -> Forall (fun d => 2 <= d) g -> 2 <= prodl g.
Proof.
  intros Hne H. induction H as [|d r Hd Hr IH]; [congruence|].
  rewrite prodl_cons. destruct r as [|d' r'].
  - rewrite prodl_nil; lia.
  - assert (2 <= prodl (d' :: r')) by (apply IH; discriminate). nia.
Qed.

Lemma greedy_outputs thr groups :
  allpos (concat groups) -> Forall (fun g => g <> []) groups ->
  greedy_adjacent thr groups -> adjacent_unfusable thr (map prodl groups).
Proof.
  induction groups as [|g tl IH]; intros Hpos Hne Hg; [exact I|].
  cbn [concat] in Hpos. apply allpos_app in Hpos as [Hpg Hptl].
  inversion Hne as [|? ? _ Hne']; subst.
  cbn [greedy_adjacent] in Hg. destruct Hg as [H1 H2].
  cbn [map adjacent_unfusable]. split; [|apply IH; assumption].
  destruct tl as [|g' tl']; [exact I|]. cbn [map].
  destruct g' as [|n r]; [inversion Hne'; congruence|].
  cbn [concat] in Hptl. apply allpos_app in Hptl as [Hpg' _].
  inversion Hpg' as [|? ? Hn Hr]; subst.
  pose proof (prodl_pos _ Hpg). pose proof (prodl_pos _ Hr).
  rewrite prodl_cons. nia.
Qed.

Lemma Forall_concat_inv {A} (P : A -> Prop) gs : Forall P (concat gs) -> Forall (Forall P) gs.
Proof.
  induction gs as [|g gs IH]; cbn [concat]; intros H; [constructor|].
  apply Forall_app in H as [H1 H2]. constructor; auto.
Qed.

(* merge_small_dims, every shape of positive dims of any order (also order 0), every threshold *)
Theorem merge_small_dims_spec shape thr : allpos shape ->
  let out := merge_small_dims shape thr in
  prodl out = prodl shape
  /\ (exists groups, is_merge_of thr (squeezed_or_one shape) out groups /\ greedy_adjacent thr groups)
  /\ adjacent_unfusable thr out
  /\ (Forall (fun d => 2 <= d) out \/ (out = [1] /\ squeeze shape = []))
  /\ allpos out.
Proof.
  intros Hpos out. subst out. unfold merge_small_dims.
  pose proof (squeezed_or_one_pos shape Hpos) as Hsqpos.
  pose proof (prodl_squeezed_or_one shape) as Hsqprod.
  pose proof (squeezed_or_one_nonempty shape) as Hsqne.
  assert (Hsq2 : squeeze shape = [] /\ squeezed_or_one shape = [1]
                 \/ Forall (fun d => 2 <= d) (squeezed_or_one shape)).
  { unfold squeezed_or_one. pose proof (squeeze_ge2 shape Hpos) as H2.
    destruct (squeeze shape); [left; split; reflexivity|right; exact H2]. }
  destruct (squeezed_or_one shape) as [|d rest] eqn:E; [congruence|].
  destruct (merge_loop_groups thr rest [d]) as (g0 & tl & Hm & Hg & _).
  { discriminate. }
  { intros Hl; cbn [length] in Hl; lia. }
  change (prodl [d]) with (d * 1) in Hm. rewrite Z.mul_1_r in Hm. cbn [app] in Hm.
  set (out := merge_loop thr d rest) in *.
  destruct Hm as (Hc & Hne & Hmap & Hsm).
  assert (Hposg : Forall allpos (g0 :: tl)).
  { apply Forall_concat_inv. rewrite Hc. exact Hsqpos. }
  assert (Hout : allpos out).
  { rewrite <- Hmap. clear - Hposg. induction Hposg as [|g gs Hg _ IH]; cbn [map]; constructor; [apply prodl_pos; exact Hg|exact IH]. }
  split; [|split; [|split; [|split]]].
  - rewrite <- Hmap, prodl_concat, Hc. exact Hsqprod.
  - exists (g0 :: tl). split; [repeat split; assumption|exact Hg].
  - rewrite <- Hmap. apply greedy_outputs; [rewrite Hc; exact Hsqpos|exact Hne|exact Hg].
  - destruct Hsq2 as [[Hs H1]|H2].
    + right. split; [|exact Hs]. inversion H1; subst. reflexivity.
    + left. rewrite <- Hmap.
      assert (Hg2 : Forall (Forall (fun d => 2 <= d)) (g0 :: tl)) by (apply Forall_concat_inv; rewrite Hc; exact H2).
      clear - Hg2 Hne. induction Hg2 as [|g gs Hg _ IH]; cbn [map]; [constructor|].
      inversion Hne; subst. constructor; [apply prodl_ge2; assumption|apply IH; assumption].
  - exact Hout.
Qed.

Lemma merge_numel shape thr : prodl (merge_small_dims shape thr) = prodl shape.
Proof.
  (* holds for every list of integers, not only positive ones *)
  assert (H : forall rest cur, prodl (merge_loop thr cur rest) = cur * prodl rest).
  { induction rest as [|n rest IH]; intros cur; cbn [merge_loop].
    - rewrite prodl_cons, !prodl_nil; reflexivity.
    - destruct (cur * n <=? thr); rewrite ?prodl_cons, IH, ?prodl_cons; ring. }
  unfold merge_small_dims. pose proof (prodl_squeezed_or_one shape) as Hs.
  destruct (squeezed_or_one shape) as [|d rest].
  - exact Hs.
  - rewrite H, <- Hs. reflexivity.
Qed.

(* ============================================================================================
   2. ranges and flat_map *)
Lemma Zrange_nonpos n : n <= 0 -> Zrange n = [].
Proof. intros H. unfold Zrange. replace (Z.to_nat n) with O by lia. reflexivity. Qed.

Lemma Zrange_succ n : 0 <= n -> Zrange (n + 1) = Zrange n ++ [n].
Proof.
  intros H. unfold Zrange. rewrite Z2Nat.inj_add by lia. change (Z.to_nat 1) with 1%nat.
  rewrite Nat.add_1_r, seq_S, map_app. cbn [map plus]. rewrite Z2Nat.id by lia. reflexivity.
Qed.

Lemma map_seq_shift len : forall s, map Z.of_nat (seq s len) = map (Z.add (Z.of_nat s)) (map Z.of_nat (seq 0 len)).
Proof.
  induction len as [|len IH]; intros s; [reflexivity|].
  cbn [seq map]. f_equal; [lia|].
  rewrite (IH (S s)), (IH 1%nat), !map_map. apply map_ext. intros a. lia.
Qed.

Lemma Zrange_add a c : 0 <= a -> 0 <= c -> Zrange (a + c) = Zrange a ++ map (Z.add a) (Zrange c).
Proof.
  intros Ha Hc. unfold Zrange. rewrite Z2Nat.inj_add by lia. rewrite seq_app, map_app. f_equal.
  cbn [plus]. rewrite map_seq_shift, Z2Nat.id by lia. reflexivity.
Qed.

Lemma In_Zrange i n : In i (Zrange n) <-> 0 <= i < n.
Proof.
  unfold Zrange. rewrite in_map_iff. split.
  - intros (x & Hx & Hin). apply in_seq in Hin. lia.
  - intros H. exists (Z.to_nat i). split; [lia|]. apply in_seq. lia.
Qed.

Lemma Zrange_length n : length (Zrange n) = Z.to_nat n.
Proof. unfold Zrange. rewrite map_length, seq_length. reflexivity. Qed.

Lemma fm_map {A B C} (f : B -> list C) (g : A -> B) l : flat_map f (map g l) = flat_map (fun x => f (g x)) l.
Proof. induction l as [|a l IH]; cbn [map flat_map]; [reflexivity|rewrite IH; reflexivity]. Qed.

Lemma fm_flat_map {A B C} (f : B -> list C) (g : A -> list B) l :
  flat_map f (flat_map g l) = flat_map (fun x => flat_map f (g x)) l.
Proof. induction l as [|a l IH]; cbn [flat_map]; [reflexivity|rewrite flat_map_app, IH; reflexivity]. Qed.

Lemma map_fm {A B C} (f : B -> C) (g : A -> list B) l : map f (flat_map g l) = flat_map (fun x => map f (g x)) l.
Proof. induction l as [|a l IH]; cbn [flat_map map]; [reflexivity|rewrite map_app, IH; reflexivity]. Qed.

Lemma fm_ext_in {A B} (f g : A -> list B) l : (forall a, In a l -> f a = g a) -> flat_map f l = flat_map g l.
Proof.
  induction l as [|a l IH]; intros H; cbn [flat_map]; [reflexivity|].
  rewrite (H a (or_introl eq_refl)), IH; [reflexivity|]. intros; apply H; right; assumption.
Qed.

Lemma fm_length_const {A B} (f : A -> list B) l k : (forall a, In a l -> length (f a) = k) ->
  length (flat_map f l) = (length l * k)%nat.
Proof.
  induction l as [|a l IH]; intros H; cbn [flat_map length]; [reflexivity|].
  rewrite app_length, (H a (or_introl eq_refl)), IH; [lia|]. intros; apply H; right; assumption.
Qed.

Lemma perm_fm_pointwise {A B} (f g : A -> list B) l :
  (forall a, In a l -> Permutation (f a) (g a)) -> Permutation (flat_map f l) (flat_map g l).
Proof.
  induction l as [|a l IH]; intros H; cbn [flat_map]; [constructor|].
  apply Permutation_app; [apply H; left; reflexivity|apply IH; intros; apply H; right; assumption].
Qed.

Lemma perm_fm_app {A B} (g h : A -> list B) l :
  Permutation (flat_map (fun a => g a ++ h a) l) (flat_map g l ++ flat_map h l).
Proof.
  induction l as [|a l IH]; cbn [flat_map]; [constructor|].
  rewrite <- !app_assoc. apply Permutation_app_head.
  eapply perm_trans; [apply Permutation_app_head; exact IH|].
  rewrite !app_assoc. apply Permutation_app_tail. apply Permutation_app_comm.
Qed.

Lemma perm_fm_swap {A B C} (f : A -> B -> list C) la lb :
  Permutation (flat_map (fun a => flat_map (f a) lb) la) (flat_map (fun b => flat_map (fun a => f a b) la) lb).
Proof.
  induction la as [|a la IH]; cbn [flat_map].
  - induction lb as [|b lb IHb]; cbn [flat_map]; [constructor|exact IHb].
  - eapply perm_trans; [apply Permutation_app_head; exact IH|].
    apply Permutation_sym. apply (perm_fm_app (f a) (fun b => flat_map (fun a0 => f a0 b) la) lb).
Qed.

(* m consecutive windows of width b are the range m*b *)
Lemma Zrange_blocks b : 0 <= b -> forall m : nat,
  flat_map (fun i => map (Z.add (i * b)) (Zrange b)) (Zrange (Z.of_nat m)) = Zrange (Z.of_nat m * b).
Proof.
  intros Hb. induction m as [|m IH]; [reflexivity|].
  rewrite Nat2Z.inj_succ. unfold Z.succ. rewrite Zrange_succ by lia.
  rewrite flat_map_app, IH. cbn [flat_map]. rewrite app_nil_r.
  replace ((Z.of_nat m + 1) * b) with (Z.of_nat m * b + b) by ring.
  rewrite Zrange_add by nia. reflexivity.
Qed.

(* ============================================================================================
   3. torch.split chunk arithmetic *)
Lemma split_chunks_count n b : 1 <= n -> 1 <= b ->
  Z.of_nat (length (split_chunks n b)) = (n + b - 1) / b.
Proof.
  intros Hn Hb. unfold split_chunks. rewrite map_length, Zrange_length. lia.
Qed.

Lemma split_chunks_in n b c : 1 <= n -> 1 <= b -> In c (split_chunks n b) ->
  0 <= fst c /\ 1 <= snd c <= b /\ fst c + snd c <= n.
Proof.
  intros Hn Hb. unfold split_chunks. set (k := Z.max ((n + b - 1) / b) 1).
  assert (Hk : k = (n + b - 1) / b) by (subst k; lia).
  assert (Hk1 : b * k <= n + b - 1 < b * k + b) by (rewrite Hk; lia).
  intros Hin. apply in_map_iff in Hin as (i & Hc & Hi). apply In_Zrange in Hi. subst c. cbn [fst snd].
  destruct (i <? k - 1) eqn:E.
  - assert (i * b + b <= (k - 1) * b) by nia. nia.
  - assert (i = k - 1) by lia. subst i. nia.
Qed.

(* the chunks of a dimension tile its index range, in order *)
Lemma split_chunks_tile n b : 1 <= n -> 1 <= b ->
  flat_map (fun c => map (Z.add (fst c)) (Zrange (snd c))) (split_chunks n b) = Zrange n.
Proof.
  intros Hn Hb. unfold split_chunks. set (k := Z.max ((n + b - 1) / b) 1).
  assert (Hk : k = (n + b - 1) / b) by (subst k; lia).
  assert (Hk1 : b * k <= n + b - 1 < b * k + b) by (rewrite Hk; lia).
  assert (Hk2 : 1 <= k) by (subst k; lia).
  rewrite fm_map. cbn [fst snd].
  assert (HZ : Zrange k = Zrange (k - 1) ++ [k - 1]).
  { rewrite <- Zrange_succ by lia. f_equal. ring. }
  rewrite HZ, flat_map_app. cbn [flat_map]. rewrite app_nil_r, Z.ltb_irrefl.
  rewrite (fm_ext_in _ (fun i => map (Z.add (i * b)) (Zrange b))).
  2:{ intros i Hi. apply In_Zrange in Hi. replace (i <? k - 1) with true by lia. reflexivity. }
  replace (k - 1) with (Z.of_nat (Z.to_nat (k - 1))) at 1 by lia.
  rewrite Zrange_blocks by lia. rewrite Z2Nat.id by lia.
  rewrite <- Zrange_add by nia. f_equal. ring.
Qed.
