(* C06 - concrete instances of the cluster model: non-vacuity examples for the theorems, and the two clauses of the
   property that the code as it is (global_skip = false, eager_meshes = false) does NOT satisfy, refuted by
   computed witnesses (defects F6 and F7 of DESIGN section 6). *)
From Coq Require Import List ZArith Bool Arith Lia.
From Shampoo Require Import Dist DistProofs DistSchedProofs.
Import ListNotations.

(* a toy per-block computation over integers: state counts the updates of the block, the update is gradient + step *)
Definition toy_upd (b : nat) (k : Z) (st v g : Z) : Z * Z := ((st + 1)%Z, (g + k)%Z).

Definition toy (world gs nb : nat) (owners : list nat) (cast : Z -> Z) (global_skip eager : bool) : params Z Z Z :=
  mkParams 0%Z 0%Z toy_upd Z.add cast world gs nb (fun b => nth b owners 0) 64 global_skip eager.

Lemma wf_toy world gs nb owners cast s e :
  (0 <? gs) && (world =? world / gs * gs) && forallb (fun b => nth b owners 0 <? gs) (seq 0 nb) = true ->
  wf_config (toy world gs nb owners cast s e).
Proof.
  intros H. apply andb_true_iff in H as [H H3]. apply andb_true_iff in H as [H1 H2].
  apply Nat.ltb_lt in H1. apply Nat.eqb_eq in H2. rewrite forallb_seq_true in H3.
  split; [exact H1|]. split; [exact H2|]. intros b Hb. apply Nat.ltb_lt. apply H3. exact Hb.
Qed.

(* ---- non-vacuity: 4 ranks in groups of 2, 5 blocks, gradients come and go, nobody starves ------------------- *)
Definition P_ok : params Z Z Z := toy 4 2 5 [0; 1; 1; 0; 1] (fun v => v) false false.
Definition h_ok : history Z :=
  [ [Some 3; Some 1; Some 4; Some 1; Some 5]%Z;
    [Some 9; None; Some 2; None; None]%Z;          (* rank 0 of each group keeps block 0, rank 1 block 2 *)
    [None; None; None; None; None];                 (* nobody has a gradient: every rank skips *)
    [None; Some 6; None; Some 5; Some 3]%Z ].
Definition v_ok : list Z := [10; 20; 30; 40; 50]%Z.

Example ddp_eq_serial_hypotheses_satisfiable :
  wf_config P_ok /\ sync_hyp P_ok h_ok /\ (forall v, p_cast P_ok v = v).
Proof. split; [apply wf_toy; reflexivity|]. split; [right; reflexivity | reflexivity]. Qed.

Example ddp_eq_serial_instance :
  exists c, ddp_run P_ok h_ok (init_cluster P_ok v_ok [0;0;0;0;0]%Z [0;0;0;0;0]%Z) = Some c /\
    map (fun r => vals (cget c r)) [0; 1; 2; 3] = repeat [25; 31; 39; 50; 62]%Z 4 /\
    svals (serial_run P_ok (fun v => v) h_ok (mkS v_ok [0;0;0;0;0]%Z 0%Z)) = [25; 31; 39; 50; 62]%Z.
Proof. eexists. split; [vm_compute; reflexivity|]. split; reflexivity. Qed.

(* a rounding cast (to multiples of 4): replicas agree and equal the rounded-serial run, not the exact one *)
Definition P_round : params Z Z Z := toy 4 2 5 [0; 1; 1; 0; 1] (fun v => (v / 4 * 4)%Z) false false.
Example ddp_lowprec_instance :
  exists c, ddp_run P_round h_ok (init_cluster P_round v_ok [0;0;0;0;0]%Z [0;0;0;0;0]%Z) = Some c /\
    map (fun r => vals (cget c r)) [0; 1; 2; 3] = repeat (svals (serial_run P_round (p_cast P_round) h_ok (mkS v_ok [0;0;0;0;0]%Z 0%Z))) 4 /\
    svals (serial_run P_round (p_cast P_round) h_ok (mkS v_ok [0;0;0;0;0]%Z 0%Z))
      <> svals (serial_run P_round (fun v => v) h_ok (mkS v_ok [0;0;0;0;0]%Z 0%Z)).
Proof. eexists. split; [vm_compute; reflexivity|]. split; [reflexivity | vm_compute; discriminate]. Qed.

(* the scheduler run on the same instance: a maximal schedule, finished, equal to the lock-step state *)
Example interleaving_instance :
  let c0 := init_cluster P_ok v_ok [0;0;0;0;0]%Z [0;0;0;0;0]%Z in
  let c := sched P_ok 100 (init_config P_ok h_ok c0) in
  finishedb P_ok c = true /\ Some (map pst c) = ddp_run P_ok h_ok c0.
Proof. split; vm_compute; reflexivity. Qed.

(* ---- F6: rank starvation ----------------------------------------------------------------------------------------
   2 ranks, 3 blocks owned by group ranks 0,1,0; at the second step only blocks 0 and 2 have a gradient, so rank 1's
   local masked gradient list is empty: it skips the step (no counter increment, NO all_gather) while rank 0 does not. *)
Definition P_f6 : params Z Z Z := toy 2 2 3 [0; 1; 0] (fun v => v) false false.
Definition h_f6 : history Z :=
  [ [Some 1; Some 1; Some 1]%Z; [Some 2; None; Some 2]%Z; [Some 3; Some 3; Some 3]%Z ].
Definition c0_f6 := init_cluster P_f6 [0; 0; 0]%Z [0; 0; 0]%Z [0; 0; 0]%Z.

Theorem starvation_desync_refuted :
  exists (P : params Z Z Z) (h : history Z) (c0 : cluster Z Z),
    wf_config P /\ p_global_skip P = false /\ (forall r, r < p_world P -> owns_any P r = true) /\
    no_starv_entry P (nth 1 h []) = false /\
    (* in lock step the collective of that step cannot fire: a peer is left waiting *)
    ddp_run P h c0 = None /\
    (* with collectives matched in issue order there is a maximal schedule that ends deadlocked, the ranks of one
       group having issued different sequences of collectives and holding different parameters and step counters *)
    exists c, sstar P (init_config P h c0) c /\ deadlocked P c /\
      exists r r', r < p_world P /\ r' < p_world P /\ grp P r = grp P r' /\
        gathers (log (pst (pget c r))) <> gathers (log (pst (pget c r'))) /\
        vals (pst (pget c r)) <> vals (pst (pget c r')) /\
        stepc (pst (pget c r)) <> stepc (pst (pget c r')).
Proof.
  assert (WF : wf_config P_f6) by (apply wf_toy; reflexivity).
  exists P_f6, h_f6, c0_f6. split; [exact WF|]. split; [reflexivity|].
  split; [intros r Hr; destruct r as [|[|r]]; [reflexivity | reflexivity | cbn in Hr; lia]|].
  split; [reflexivity|]. split; [vm_compute; reflexivity|].
  exists (sched P_f6 100 (init_config P_f6 h_f6 c0_f6)).
  split; [apply sched_sound|]. split.
  - split; [apply sched_terminal; [exact WF | vm_compute; lia] | vm_compute; reflexivity].
  - exists 0, 1. split; [cbn; lia|]. split; [cbn; lia|]. split; [reflexivity|].
    split; [|split]; vm_compute; discriminate.
Qed.

(* under the repaired skip rule the same history is harmless (and the theorems need no hypothesis on the history) *)
Example starvation_harmless_with_global_skip :
  let P := toy 2 2 3 [0; 1; 0] (fun v => v) true false in
  sync_hyp P h_f6 /\
  exists c, ddp_run P h_f6 (init_cluster P [0;0;0]%Z [0;0;0]%Z [0;0;0]%Z) = Some c /\
    vals (cget c 0) = vals (cget c 1) /\ vals (cget c 0) = svals (serial_run P (fun v => v) h_f6 (mkS [0;0;0]%Z [0;0;0]%Z 0%Z)).
Proof. split; [left; reflexivity|]. eexists. split; [vm_compute; reflexivity|]. split; reflexivity. Qed.

(* ---- F7: state meshes created lazily by the owner only ------------------------------------------------------------
   4 ranks in groups of 2: rank 0 creates new_group [0;2] where rank 1 creates new_group [1;3] - different groups at
   the same position of the creation sequence, and neither creates the other's. *)
Definition P_f7 : params Z Z Z := toy 4 2 4 [0; 1; 0; 1] (fun v => v) false false.

Theorem mesh_creation_logs_differ_refuted :
  exists P : params Z Z Z,
    wf_config P /\ p_eager_meshes P = false /\ (forall r, r < p_world P -> owns_any P r = true) /\
    exists r r', r < p_world P /\ r' < p_world P /\
      creations (ctor_log P r) <> creations (ctor_log P r') /\
      ctor_log P r = [EvNewSubgroups 2; EvMesh [0; 2]; EvNewGroup [0; 2]] /\
      ctor_log P r' = [EvNewSubgroups 2; EvMesh [1; 3]; EvNewGroup [1; 3]].
Proof.
  exists P_f7. split; [apply wf_toy; reflexivity|]. split; [reflexivity|].
  split; [intros r Hr; destruct r as [|[|[|[|r]]]]; try reflexivity; cbn in Hr; lia|].
  exists 0, 1. split; [cbn; lia|]. split; [cbn; lia|]. split; [vm_compute; discriminate|]. split; reflexivity.
Qed.

(* with a single group (the default num_trainers_per_group = -1) the sequences differ as well: each rank creates a
   one-rank group that no other rank knows about *)
Example mesh_creation_logs_differ_single_group :
  let P := toy 2 2 2 [0; 1] (fun v => v) false false in
  ctor_log P 0 = [EvMesh [0]; EvNewGroup [0]] /\ ctor_log P 1 = [EvMesh [1]; EvNewGroup [1]].
Proof. split; reflexivity. Qed.

(* with eager creation every rank issues the same sequence *)
Example mesh_creation_eager_instance :
  let P := toy 4 2 4 [0; 1; 0; 1] (fun v => v) false true in
  forall r, ctor_log P r = [EvNewSubgroups 2; EvMesh [0; 2]; EvNewGroup [0; 2]; EvMesh [1; 3]; EvNewGroup [1; 3]].
Proof. intros r. reflexivity. Qed.
