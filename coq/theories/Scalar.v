(* Scalar.v - the scalar interface shared by every numeric model.

   Every numeric model of /repo's tensor code is written ONCE, polymorphic in a scalar type [F] with an
   [ops F] record.  Two instances:
     - [R_ops rnd]  : Coq's real numbers; theorems are stated and proved for this instance
                      ([rnd] is the binary32 rounding the code applies to the learning rate: a parameter);
     - [float_ops]  : IEEE binary64 ([PrimFloat]); used only to EXECUTE the models (vm_compute) for the
                      correspondence check against the implementation.  No theorem mentions it.
   Nothing is claimed about the rounding error of the float instance. *)
From Coq Require Import ZArith Reals Bool List.
From Coq Require PrimFloat Uint63.
Import ListNotations.

Record ops (F : Type) : Type := mkOps {
  f0 : F; f1 : F;
  fadd : F -> F -> F; fsub : F -> F -> F; fmul : F -> F -> F; fdiv : F -> F -> F;
  fneg : F -> F; fsqrt : F -> F; fabs : F -> F;
  fpow : F -> F -> F;            (* x ^ y for x > 0 (torch.pow / libm pow) *)
  fleb : F -> F -> bool; fltb : F -> F -> bool; feqb : F -> F -> bool;
  ffinite : F -> bool;           (* not NaN and not +-inf *)
  rnd32 : F -> F;                (* rounding to binary32 (torch.tensor(x, dtype=torch.float)) *)
  of_Z : Z -> F }.

Arguments f0 {F} _. Arguments f1 {F} _. Arguments fadd {F} _. Arguments fsub {F} _.
Arguments fmul {F} _. Arguments fdiv {F} _. Arguments fneg {F} _. Arguments fsqrt {F} _.
Arguments fabs {F} _. Arguments fpow {F} _. Arguments fleb {F} _. Arguments fltb {F} _.
Arguments feqb {F} _. Arguments ffinite {F} _. Arguments rnd32 {F} _. Arguments of_Z {F} _.

(* ---------------------------------------------------------------- derived operations *)
Section Derived.
  Context {F : Type} (Op : ops F).

  (* x ^ n for a natural exponent, by repeated multiplication (Python float ** int for small ints is
     compared with a tolerance; over R this is [pow]). *)
  Fixpoint fpown (x : F) (n : nat) : F :=
    match n with O => f1 Op | S k => fmul Op x (fpown x k) end.

  Definition fsum (l : list F) : F := fold_left (fadd Op) l (f0 Op).
  Definition fmax (x y : F) : F := if fleb Op x y then y else x.
  Definition fmin (x y : F) : F := if fleb Op x y then x else y.
  Definition fsq (x : F) : F := fmul Op x x.
  (* torch.lerp(a, b, w) = a + w * (b - a) *)
  Definition flerp (a b w : F) : F := fadd Op a (fmul Op w (fsub Op b a)).
End Derived.

(* ---------------------------------------------------------------- the real-number instance *)
Section RInstance.
  Variable rnd : R -> R.
  Definition Rleb (x y : R) : bool := if Rle_dec x y then true else false.
  Definition Rltb (x y : R) : bool := if Rlt_dec x y then true else false.
  Definition Reqb (x y : R) : bool := if Req_EM_T x y then true else false.

  Definition R_ops : ops R :=
    {| f0 := 0%R; f1 := 1%R; fadd := Rplus; fsub := Rminus; fmul := Rmult; fdiv := Rdiv;
       fneg := Ropp; fsqrt := sqrt; fabs := Rabs; fpow := Rpower;
       fleb := Rleb; fltb := Rltb; feqb := Reqb; ffinite := fun _ => true; rnd32 := rnd; of_Z := IZR |}.
End RInstance.

Lemma Rleb_true x y : Rleb x y = true <-> (x <= y)%R.
Proof. unfold Rleb; destruct (Rle_dec x y); split; intros; auto; discriminate. Qed.
Lemma Rltb_true x y : Rltb x y = true <-> (x < y)%R.
Proof. unfold Rltb; destruct (Rlt_dec x y); split; intros; auto; discriminate. Qed.
Lemma Reqb_true x y : Reqb x y = true <-> x = y.
Proof. unfold Reqb; destruct (Req_EM_T x y); split; intros; auto; discriminate. Qed.
Lemma Reqb_false x y : Reqb x y = false <-> x <> y.
Proof. unfold Reqb; destruct (Req_EM_T x y); split; intros; auto; try discriminate; contradiction. Qed.

(* ---------------------------------------------------------------- the binary64 instance *)
Module FloatInst.
  Import PrimFloat.
  Local Open Scope float_scope.

  Definition is_fin (x : float) : bool := negb (is_nan x) && negb (is_infinity x).

  (* float -> Z for integer-valued floats of small magnitude (|x| < 2^52) *)
  Definition to_Z_small (x : float) : Z :=
    let ax := abs x in
    if ax <? 0.5 then 0%Z else
    let (m, e) := frshiftexp ax in                       (* ax = m * 2^(e - shift), m in [0.5,1) *)
    let mant := Uint63.to_Z (normfr_mantissa m) in       (* m * 2^53 *)
    let ex := (Uint63.to_Z e - 2101)%Z in
    let v := Z.shiftr mant (53 - ex) in
    if x <? 0 then Z.opp v else v.

  Definition round_int (x : float) : float :=            (* nearest integer, |x| < 2^51 *)
    let c := 0x1.8p52 in (x + c) - c.

  Definition ldexpZ (x : float) (k : Z) : float :=
    ldshiftexp x (Uint63.of_Z (k + 2101)).

  Definition ln2_hi : float := 0x1.62e42fee00000p-1.
  Definition ln2_lo : float := 0x1.a39ef35793c76p-33.
  Definition ln2 : float := 0x1.62e42fefa39efp-1.

  (* exp by range reduction + Taylor (|r| <= ln2/2, degree 17: remainder < 1e-20) *)
  Definition exp_taylor (r : float) : float :=
    let fix go (n : nat) (k : float) (acc : float) : float :=
      (* Horner from the top: acc_k = 1 + r/k * acc_{k+1} *)
      match n with
      | O => acc
      | S n' => go n' (k - 1) (1 + r / k * acc)
      end in
    go 18%nat 18 1.

  Definition fexp (y : float) : float :=
    if is_nan y then nan else
    if 0x1.62d999999999ap+9 <? y then infinity else
    if y <? (-0x1.749999999999ap+9) then 0 else
    let kf := round_int (y / ln2) in
    let r := (y - kf * ln2_hi) - kf * ln2_lo in
    ldexpZ (exp_taylor r) (to_Z_small kf).

  (* ln by frexp + atanh series: ln m = 2 (t + t^3/3 + ...), t = (m-1)/(m+1), m in [sqrt(.5), sqrt 2) *)
  Definition fln (x : float) : float :=
    if is_nan x then nan else
    if x <? 0 then nan else
    if x =? 0 then neg_infinity else
    if is_infinity x then infinity else
    let (m0, e0) := frshiftexp x in
    let ex0 := (Uint63.to_Z e0 - 2101)%Z in
    let '(m, ex) := if m0 <? 0x1.6a09e667f3bcdp-1 then (m0 * 2, (ex0 - 1)%Z) else (m0, ex0) in
    let t := (m - 1) / (m + 1) in
    let t2 := t * t in
    let fix go (n : nat) (k : float) (acc : float) : float :=
      match n with
      | O => acc
      | S n' => go n' (k - 2) (1 / k + t2 * acc)
      end in
    let s := go 13%nat 25 (1 / 27) in                   (* 1 + t2/3 + ... + t2^13/27 *)
    let exf := of_uint63 (Uint63.of_Z (Z.abs ex)) in
    let exf := if (ex <? 0)%Z then - exf else exf in
    exf * ln2_hi + (2 * t * s + exf * ln2_lo).

  Definition fpowf (x y : float) : float :=
    if y =? 0 then 1 else
    if x =? 0 then (if 0 <? y then 0 else infinity) else
    if x =? 1 then 1 else
    fexp (y * fln x).

  (* rounding to binary32 for values in the normal binary32 range (Veltkamp splitting, 53-24 = 29 bits) *)
  Definition round32 (x : float) : float :=
    if negb (is_fin x) then x else
    let c := 0x1.0000002p29 * x in
    c - (c - x).

  Definition ofZ (z : Z) : float :=
    match z with
    | Z0 => 0
    | Zpos _ => of_uint63 (Uint63.of_Z z)
    | Zneg _ => - of_uint63 (Uint63.of_Z (Z.opp z))
    end.
End FloatInst.

Definition float_ops : ops PrimFloat.float :=
  {| f0 := PrimFloat.zero; f1 := PrimFloat.one;
     fadd := PrimFloat.add; fsub := PrimFloat.sub; fmul := PrimFloat.mul; fdiv := PrimFloat.div;
     fneg := PrimFloat.opp; fsqrt := PrimFloat.sqrt; fabs := PrimFloat.abs; fpow := FloatInst.fpowf;
     fleb := PrimFloat.leb; fltb := PrimFloat.ltb; feqb := PrimFloat.eqb; ffinite := FloatInst.is_fin;
     rnd32 := FloatInst.round32; of_Z := FloatInst.ofZ |}.

(* ---------------------------------------------------------------- comparing executed floats *)
Module FloatCmp.
  Import PrimFloat.
  Local Open Scope float_scope.
  (* |a-b| <= tol * max(1,|a|,|b|); two NaNs agree, equal infinities agree *)
  Definition close (tol a b : float) : bool :=
    if is_nan a then is_nan b else
    if is_nan b then false else
    if is_infinity a || is_infinity b then a =? b else
    let m := let x := abs a in let y := abs b in
             let z := if x <? y then y else x in if z <? 1 then 1 else z in
    abs (a - b) <=? tol * m.
  Fixpoint close_list (tol : float) (l1 l2 : list float) : bool :=
    match l1, l2 with
    | [], [] => true
    | a :: r1, b :: r2 => close tol a b && close_list tol r1 r2
    | _, _ => false
    end.
  (* largest relative deviation, for diagnostics *)
  Fixpoint max_dev (l1 l2 : list float) (acc : float) : float :=
    match l1, l2 with
    | a :: r1, b :: r2 =>
        let m := let x := abs a in let y := abs b in
                 let z := if x <? y then y else x in if z <? 1 then 1 else z in
        let d := abs (a - b) / m in
        max_dev r1 r2 (if acc <? d then d else acc)
    | _, _ => acc
    end.
End FloatCmp.
