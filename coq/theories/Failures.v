(* C13 - discrete model of the failure-tolerance protocol of the amortized computation
   (distributed_shampoo/utils/shampoo_preconditioner_list.py, distributed_shampoo/distributed_shampoo.py).

   What is modelled (one parameter group, the default Distributor: local blocks = all blocks):

   * DistributedShampoo.step():  merge_and_block_gradients gives the block-presence selector;
     _mask_state_lists re-creates the masked lists iff the selector differs from the previous one
     (the first one is None); an empty masked gradient list skips the group (`continue`, the step counter
     does not advance); otherwise  step += 1  and
         perform_amortized_computation = step % freq == 0 and step > start  or  step == start.
   * _per_group_step_impl: the preconditioner update (phase 1, which contains _amortized_computation)
     comes before everything that writes a parameter (phase 2).  An exception in phase 1 skips phase 2.
   * _amortized_computation (ShampooPreconditionerList: inverse roots; EigenvalueCorrectedShampoo-
     PreconditionerList: eigenvectors): for the blocks of the masked list, in order; for the factors of a
     block, in order:
        1. _check_factor_matrix_for_diagonality_nan_and_inf on the (Shampoo: bias-corrected) factor matrix
           -> PreconditionerValueError;                      [before the matrix routine is called]
        2. try: candidate = routine(...)    except: candidate = the stored matrix (success_tracker False);
        3. NaN/Inf in the candidate, *as it will be stored* (the Shampoo list casts the routine's result to the dtype of
           the stored matrix inside the try, before this check) -> PreconditionerValueError;       [before copy_]
        4. stored.copy_(candidate);
     after the factors of the block: _raise_exception_if_failure_tolerance_exceeded:
        all(success_tracker) -> counter[local index] = 0, else counter += 1 and raise ValueError iff counter > N.
     The counters live in _local_failed_amortized_computation_counter_list; the masked list
     _masked_failed_amortized_computation_counter_index_list holds local indices (compress of range(n)).
   * The two list classes follow the same protocol; they differ in the matrix that step 1 inspects
     (Shampoo: factor_matrix / bias_correction2, SOAP: factor_matrix) and in the routine called; at this
     level of abstraction both are the single model below (the harness observes the right matrix per class).
     One real difference: the SOAP list has no cast in front of its NaN/Inf check (copy_ narrows afterwards).  A real
     eigenvector matrix has entries of magnitude <= 1 and cannot overflow any float dtype, so the difference is only
     reachable when the routine breaks its own contract (injected fault `SuccessOverflowsStorage`); the model states the
     protocol the property demands (check what will be stored) and the harness reports the SOAP deviation as a finding
     with signature C13:soap-eigvec-storage-overflow.

   Abstractions: a stored matrix is a token (0 = the initial all-zero matrix, otherwise the 1-based index
   of the optimizer step at which the last successful computation was copied in) plus a finiteness flag; a
   parameter block is a token too.  The matrix routine and the finiteness of the factor matrix are inputs. *)
From Coq Require Import String.
From Coq Require Import List Bool Arith PeanoNat ZArith.
From Shampoo Require Import Show.
Close Scope string_scope.
Import ListNotations.

(* ---------------------------------------------------------------------------------------------- *)
(* inputs *)

Inductive routine_outcome :=
  | Success                    (* returns a matrix that is finite, also after the cast to the storage dtype *)
  | SuccessNonFinite           (* returns a matrix containing NaN/Inf *)
  | SuccessOverflowsStorage    (* returns a matrix that is finite in the dtype of the factor matrices
                                  (preconditioner_dtype) but not after narrowing to the dtype the block stores it in
                                  (the parameter dtype, e.g. an entry 1e6 with float16 parameters) *)
  | Fail.                      (* raises *)

Record factor_input := { fm_finite : bool;          (* the matrix inspected by step 1 is finite *)
                         rout : routine_outcome }.   (* what the matrix routine does if it is called *)
Record block_input := { present : bool;             (* the block has a gradient at this step *)
                        fin : nat -> factor_input }. (* per factor index *)
Definition step_input := nat -> block_input.        (* per local block index *)

Inductive outcome := Ok | RaiseTol (b : nat) | RaisePVE (b k : nat).
(* RaiseTol b   : ValueError "number of failed ... computations for factors <block b> exceeded the allowed tolerance"
   RaisePVE b k : PreconditionerValueError about factor k of block b *)

Record cfg := { tol : nat;         (* num_tolerated_failed_amortized_computations *)
                freq : nat;        (* precondition_frequency *)
                start : nat;       (* start_preconditioning_step *)
                nfs : list nat }.  (* number of Kronecker factors of every local block *)

(* ---------------------------------------------------------------------------------------------- *)
(* state *)

Record factor_state := { tok : nat; finite : bool }.
Record block_state := { cnt : nat;                    (* _local_failed_amortized_computation_counter_list[b] *)
                        facts : list factor_state;    (* inv_factor_matrices / factor_matrices_eigenvectors *)
                        ptok : nat }.                 (* the parameter block *)
Record state := { blocks : list block_state;
                  masked : list nat;                  (* _masked_failed_amortized_computation_counter_index_list *)
                  prev_sel : option (list bool);      (* state_lists[PREVIOUS_GRAD_SELECTOR] *)
                  gstep : nat;                        (* state_lists[STEP] *)
                  tick : nat;                         (* number of optimizer.step() calls so far (ghost) *)
                  ncalls : nat }.                     (* number of matrix-routine calls so far (ghost) *)

Definition init_block (nf : nat) : block_state :=
  {| cnt := 0; facts := repeat {| tok := 0; finite := true |} nf; ptok := 0 |}.

Definition init (c : cfg) : state :=
  {| blocks := map init_block (nfs c);
     masked := seq 0 (length (nfs c));                (* _initialize_state_lists: tuple(range(n)) *)
     prev_sel := None; gstep := 0; tick := 0; ncalls := 0 |}.

(* ---------------------------------------------------------------------------------------------- *)
(* the factors of one block *)

Definition is_ok (r : routine_outcome) : bool := match r with Fail => false | _ => true end.
Definition is_fail (r : routine_outcome) : bool := negb (is_ok r).

Record fres := { f_new : list factor_state;   (* stored matrices afterwards *)
                 f_allok : bool;              (* all(success_tracker) - meaningful when f_pve = None *)
                 f_pve : option nat;          (* PreconditionerValueError raised at this factor *)
                 f_calls : nat }.             (* matrix-routine calls made *)

Definition candidate (tk : nat) (f : factor_state) (r : routine_outcome) : factor_state :=
  match r with
  | Success => {| tok := tk; finite := true |}
  | SuccessNonFinite => {| tok := tk; finite := false |}
  | SuccessOverflowsStorage => {| tok := tk; finite := false |}   (* the candidate is cast to the storage dtype
                                                                     (`.to(dtype=inv_factor_matrix.dtype)`) BEFORE the NaN/Inf check *)
  | Fail => f                                   (* computed_... = the stored matrix *)
  end.

Fixpoint run_factors (tk k : nat) (fs : list factor_state) (fi : nat -> factor_input) : fres :=
  match fs with
  | [] => {| f_new := []; f_allok := true; f_pve := None; f_calls := 0 |}
  | f :: fs' =>
      let i := fi k in
      if negb (fm_finite i) then {| f_new := f :: fs'; f_allok := true; f_pve := Some k; f_calls := 0 |}
      else
        let cand := candidate tk f (rout i) in
        if negb (finite cand) then {| f_new := f :: fs'; f_allok := true; f_pve := Some k; f_calls := 1 |}
        else
          let r := run_factors tk (S k) fs' fi in
          {| f_new := cand :: f_new r; f_allok := is_ok (rout i) && f_allok r; f_pve := f_pve r; f_calls := S (f_calls r) |}
  end.

(* one block: factors, then _raise_exception_if_failure_tolerance_exceeded *)
Record blres := { bl_state : block_state; bl_exc : option outcome; bl_calls : nat }.

Definition run_block (N tk b : nat) (sb : block_state) (bi : block_input) : blres :=
  let r := run_factors tk 0 (facts sb) (fin bi) in
  match f_pve r with
  | Some k => {| bl_state := {| cnt := cnt sb; facts := f_new r; ptok := ptok sb |};
                 bl_exc := Some (RaisePVE b k); bl_calls := f_calls r |}
  | None =>
      if f_allok r
      then {| bl_state := {| cnt := 0; facts := f_new r; ptok := ptok sb |}; bl_exc := None; bl_calls := f_calls r |}
      else {| bl_state := {| cnt := S (cnt sb); facts := f_new r; ptok := ptok sb |};
              bl_exc := if N <? S (cnt sb) then Some (RaiseTol b) else None; bl_calls := f_calls r |}
  end.

(* ---------------------------------------------------------------------------------------------- *)
(* _amortized_computation over the masked index list (as the code does it) *)

Fixpoint upd {A} (l : list A) (n : nat) (x : A) : list A :=
  match l, n with
  | [], _ => []
  | _ :: t, O => x :: t
  | h :: t, S n' => h :: upd t n' x
  end.

Record bres := { b_blocks : list block_state; b_out : outcome; b_calls : nat }.

Fixpoint run_masked (N tk : nat) (ms : list nat) (bs : list block_state) (inp : step_input) : bres :=
  match ms with
  | [] => {| b_blocks := bs; b_out := Ok; b_calls := 0 |}
  | b :: ms' =>
      match nth_error bs b with
      | None => run_masked N tk ms' bs inp           (* index out of range: cannot happen (masked_in_range) *)
      | Some sb =>
          let r := run_block N tk b sb (inp b) in
          let bs1 := upd bs b (bl_state r) in
          match bl_exc r with
          | Some e => {| b_blocks := bs1; b_out := e; b_calls := bl_calls r |}
          | None => let r' := run_masked N tk ms' bs1 inp in
                    {| b_blocks := b_blocks r'; b_out := b_out r'; b_calls := bl_calls r + b_calls r' |}
          end
      end
  end.

(* the same loop written structurally over the block list (proved equal in FailuresProofs) *)
Fixpoint run_blocks (N tk b : nat) (bs : list block_state) (inp : step_input) : bres :=
  match bs with
  | [] => {| b_blocks := []; b_out := Ok; b_calls := 0 |}
  | sb :: bs' =>
      if present (inp b) then
        let r := run_block N tk b sb (inp b) in
        match bl_exc r with
        | Some e => {| b_blocks := bl_state r :: bs'; b_out := e; b_calls := bl_calls r |}
        | None => let r' := run_blocks N tk (S b) bs' inp in
                  {| b_blocks := bl_state r :: b_blocks r'; b_out := b_out r'; b_calls := bl_calls r + b_calls r' |}
        end
      else
        let r' := run_blocks N tk (S b) bs' inp in
        {| b_blocks := sb :: b_blocks r'; b_out := b_out r'; b_calls := b_calls r' |}
  end.

(* ---------------------------------------------------------------------------------------------- *)
(* one optimizer step *)

(* compress_list(range(n), selector), offset o *)
Fixpoint compress_idx (o : nat) (sel : list bool) : list nat :=
  match sel with
  | [] => []
  | true :: r => o :: compress_idx (S o) r
  | false :: r => compress_idx (S o) r
  end.

Definition selector (n : nat) (inp : step_input) : list bool := map (fun b => present (inp b)) (seq 0 n).
Definition any_present (n : nat) (inp : step_input) : bool := existsb (fun b => present (inp b)) (seq 0 n).

Definition sel_eqb (a b : list bool) : bool := list_eqb Bool.eqb a b.

(* DistributedShampoo._mask_state_lists + compress_preconditioner_list *)
Definition mask_state (st : state) (sel : list bool) : state :=
  let same := match prev_sel st with Some s => sel_eqb s sel | None => false end in
  if same then st
  else {| blocks := blocks st; masked := compress_idx 0 sel; prev_sel := Some sel;
          gstep := gstep st; tick := tick st; ncalls := ncalls st |}.

Definition is_refresh (c : cfg) (g : nat) : bool :=
  ((g mod freq c =? 0) && (start c <? g)) || (g =? start c).

(* phase 1 = the preconditioner update of _per_group_step_impl (only its amortized part is modelled) *)
Definition phase1 (c : cfg) (refresh : bool) (tk : nat) (ms : list nat) (bs : list block_state) (inp : step_input) : bres :=
  if refresh then run_masked (tol c) tk ms bs inp
  else {| b_blocks := bs; b_out := Ok; b_calls := 0 |}.

(* phase 2 = everything after it; writes the masked parameter blocks *)
Definition set_ptok (tk : nat) (sb : block_state) : block_state :=
  {| cnt := cnt sb; facts := facts sb; ptok := tk |}.
Fixpoint phase2 (tk : nat) (ms : list nat) (bs : list block_state) : list block_state :=
  match ms with
  | [] => bs
  | b :: ms' => match nth_error bs b with
                | Some sb => phase2 tk ms' (upd bs b (set_ptok tk sb))
                | None => phase2 tk ms' bs
                end
  end.

Definition step (c : cfg) (st : state) (inp : step_input) : state * outcome :=
  let n := length (blocks st) in
  let st1 := mask_state st (selector n inp) in
  let tk := S (tick st) in
  if negb (any_present n inp)
  then ({| blocks := blocks st1; masked := masked st1; prev_sel := prev_sel st1;
           gstep := gstep st1; tick := tk; ncalls := ncalls st1 |}, Ok)            (* `continue` *)
  else
    let g := S (gstep st1) in
    let r := phase1 c (is_refresh c g) tk (masked st1) (blocks st1) inp in
    let bs2 := match b_out r with
               | Ok => phase2 tk (masked st1) (b_blocks r)
               | _ => b_blocks r                                  (* the exception leaves step() *)
               end in
    ({| blocks := bs2; masked := masked st1; prev_sel := prev_sel st1;
        gstep := g; tick := tk; ncalls := ncalls st1 + b_calls r |}, b_out r).

(* histories are lists of step inputs; `run` executes them oldest first *)
Fixpoint run_from (c : cfg) (st : state) (h : list step_input) : state * list outcome :=
  match h with
  | [] => (st, [])
  | i :: h' => let so := step c st i in
               let r := run_from c (fst so) h' in
               (fst r, snd so :: snd r)
  end.
Definition run (c : cfg) (h : list step_input) := run_from c (init c) h.

(* ---------------------------------------------------------------------------------------------- *)
(* literals for generated case files *)

Definition absent_block : block_input :=
  {| present := false; fin := fun _ => {| fm_finite := true; rout := Success |} |}.
Definition fi (fmf : bool) (r : routine_outcome) : factor_input := {| fm_finite := fmf; rout := r |}.
Definition bi (p : bool) (l : list factor_input) : block_input :=
  {| present := p; fin := fun k => nth k l (fi true Success) |}.
Definition si (l : list block_input) : step_input := fun b => nth b l absent_block.

(* what the harness observes after every optimizer.step() *)
Record obs := { o_out : option outcome;          (* None: an exception that is neither of the two *)
                o_cnts : list nat;               (* _local_failed_amortized_computation_counter_list *)
                o_toks : list (list Z);          (* per block, per factor: token of the stored matrix, -1 unknown *)
                o_fins : list (list bool);       (* per block, per factor: stored matrix is finite *)
                o_pchg : list bool;              (* per block: parameter block differs bitwise from before the step *)
                o_calls : nat;                   (* matrix-routine calls made during this step *)
                o_warn : nat }.                  (* "Matrix computation failed ... Using previous ..." warnings logged *)

Definition outcome_eqb (a b : outcome) : bool :=
  match a, b with
  | Ok, Ok => true
  | RaiseTol x, RaiseTol y => x =? y
  | RaisePVE x k, RaisePVE y l => (x =? y) && (k =? l)
  | _, _ => false
  end.

Definition opt_outcome_eqb (a : outcome) (b : option outcome) : bool :=
  match b with Some b' => outcome_eqb a b' | None => false end.

(* observed change of a parameter block must be allowed by the model (an Ok step may leave a present
   block bitwise unchanged, e.g. a zero search direction); a change the model forbids is a mismatch *)
Fixpoint pchg_ok (before after : list block_state) (o : list bool) : bool :=
  match before, after, o with
  | [], [], [] => true
  | b :: r1, a :: r2, x :: r3 => (implb x (negb (ptok b =? ptok a))) && pchg_ok r1 r2 r3
  | _, _, _ => false
  end.

(* one warning is logged per failed computation: per Fail among the factors the loop got to *)
Definition reachedb (b : nat) (o : outcome) : bool :=
  match o with Ok => true | RaiseTol b' => b <=? b' | RaisePVE b' _ => b <=? b' end.
Definition warn_limit (b nf : nat) (o : outcome) : nat :=
  match o with RaisePVE b' k => if b =? b' then k else nf | _ => nf end.
Definition count_fails (fi : nat -> factor_input) (n : nat) : nat :=
  length (filter (fun k => is_fail (rout (fi k))) (seq 0 n)).
Fixpoint warnings_from (b : nat) (bs : list block_state) (inp : step_input) (o : outcome) : nat :=
  match bs with
  | [] => 0
  | sb :: bs' =>
      (if present (inp b) && reachedb b o then count_fails (fin (inp b)) (warn_limit b (length (facts sb)) o) else 0)
      + warnings_from (S b) bs' inp o
  end.
Definition expected_warnings (c : cfg) (st st' : state) (inp : step_input) (o : outcome) : nat :=
  if negb (gstep st' =? gstep st) && is_refresh c (gstep st') then warnings_from 0 (blocks st) inp o else 0.

Definition agree_step (c : cfg) (st st' : state) (inp : step_input) (out : outcome) (o : obs) : bool :=
  opt_outcome_eqb out (o_out o)
  && list_eqb Nat.eqb (map cnt (blocks st')) (o_cnts o)
  && list_eqb (list_eqb Z.eqb) (map (fun sb => map (fun f => Z.of_nat (tok f)) (facts sb)) (blocks st')) (o_toks o)
  && list_eqb (list_eqb Bool.eqb) (map (fun sb => map finite (facts sb)) (blocks st')) (o_fins o)
  && pchg_ok (blocks st) (blocks st') (o_pchg o)
  && (ncalls st' - ncalls st =? o_calls o)
  && (expected_warnings c st st' inp out =? o_warn o).

Fixpoint agree_from (c : cfg) (st : state) (h : list step_input) (os : list obs) : bool :=
  match h, os with
  | [], [] => true
  | i :: h', o :: os' => let so := step c st i in
                         agree_step c st (fst so) i (snd so) o && agree_from c (fst so) h' os'
  | _, _ => false
  end.

(* the correspondence predicate evaluated by coqc on every generated case *)
Definition agree (c : cfg) (h : list step_input) (os : list obs) : bool := agree_from c (init c) h os.

(* model output as text (written into replay files for disagreeing cases) *)
Open Scope string_scope.
Definition show_nat (n : nat) : string := show_Z (Z.of_nat n).
Definition show_outcome (o : outcome) : string :=
  match o with
  | Ok => "ok"
  | RaiseTol b => "tol(" ++ show_nat b ++ ")"
  | RaisePVE b k => "pve(" ++ show_nat b ++ "." ++ show_nat k ++ ")"
  end.
Fixpoint show_run (c : cfg) (st : state) (h : list step_input) : string :=
  match h with
  | [] => ""
  | i :: h' => let so := step c st i in
               show_outcome (snd so) ++ ":" ++ "[" ++ show_list show_nat (map cnt (blocks (fst so))) ++ "]"
               ++ ":" ++ show_list (fun sb => "[" ++ show_list (fun f => show_nat (tok f)) (facts sb) ++ "]") (blocks (fst so))
               ++ " " ++ show_run c (fst so) h'
  end.
Definition show_model (c : cfg) (h : list step_input) : string := show_run c (init c) h.
