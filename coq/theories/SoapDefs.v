(* SoapDefs.v - definitions used by the theorems about the SOAP (eigenvalue-corrected Shampoo) branch of
   Optimizer.v (property C03).  Definitions only; the lemmas are in SoapProofs.v.

   1. Index-level description of the tensor operations of Optimizer.v ([tdot0], [rotl]) and the reference
      semantics [mode_products]: the product of the mode-k products (mode k contracted with the rows of M_k,
      i.e. multiplied by M_k^T, in place; an ignored mode - [None] - is not touched at all).
   2. Predicates on list matrices: orthonormal rows / columns, "Q diagonalises A".
   3. The oracle view of a basis refresh (one matrix_eigenvectors call per Kronecker factor).
   4. A dtype-tag model of the refresh (DESIGN 3.4): which dtypes meet in the QR path, evaluated by coqc
      against the implementation for every pairing parameter dtype x preconditioner_dtype. *)
From Coq Require Import ZArith List Bool Arith.
From Shampoo Require Import Scalar Matrix Eigenvectors Optimizer.
Import ListNotations.

Section Defs.
  Context {F : Type} (Op : ops F).
  Local Notation zero := (f0 Op).
  Local Notation lmat := (list (list F)).

  (* entry access with default 0 *)
  Definition vnth (x : list F) (i : nat) : F := nth i x zero.
  Definition mnth (M : lmat) (i j : nat) : F := nth j (nth i M []) zero.
  Definition tab {A} (n : nat) (f : nat -> A) : list A := map f (seq 0 n).

  (* ---------------------------------------------------------------- 1. tensor operations, by index *)
  (* tensordot(t, M, ([0],[0])) on the data of a tensor with leading mode d and R remaining entries:
     out[q*m + j] = sum_i x[i*R + q] * M[i][j] *)
  Definition tdot_ix (d R m : nat) (M : lmat) (x : list F) : list F :=
    tab (R * m) (fun p => sumn Op d (fun i => fmul Op (vnth x (i * R + p / m)) (mnth M i (p mod m)))).
  (* permute(1..n-1, 0): out[q*d + i] = x[i*R + q] *)
  Definition rot_ix (d R : nat) (x : list F) : list F :=
    tab (R * d) (fun p => vnth x ((p mod d) * R + p / d)).
  (* mode-0 product in place: out[j*P + r] = sum_i y[i*P + r] * M[i][j] *)
  Definition mode0 (d P : nat) (M : lmat) (y : list F) : list F :=
    tab (d * P) (fun p => sumn Op d (fun i => fmul Op (vnth y (i * P + p mod P)) (mnth M i (p / P)))).

  (* the cyclic loop on data; [bt] = number of entries of the modes already moved to the back *)
  Fixpoint chain_ix (ds : list nat) (Ms : list (option lmat)) (bt : nat) (x : list F) : list F :=
    match ds, Ms with
    | d :: ds', Some M :: Ms' => chain_ix ds' Ms' (bt * d) (tdot_ix d (numel ds' * bt) d M x)
    | d :: ds', None :: Ms' => chain_ix ds' Ms' (bt * d) (rot_ix d (numel ds' * bt) x)
    | _, _ => x
    end.

  (* REFERENCE SEMANTICS: product of the mode-k products.  Mode 0 is multiplied by M_0^T in place (or left
     alone when ignored), then every slice along mode 0 is treated in the same way with the remaining modes. *)
  Fixpoint mode_products (ds : list nat) (Ms : list (option lmat)) (x : list F) : list F :=
    match ds, Ms with
    | d :: ds', oM :: Ms' =>
        let P := numel ds' in
        concat (map (mode_products ds' Ms')
                    (chunks P d (match oM with Some M => mode0 d P M x | None => x end)))
    | _, _ => x
    end.

  (* the matrices the loop meets: one per preconditioned mode, none for an ignored mode *)
  Fixpoint sel_mats (transposed : bool) (sel : list bool) (mats : list lmat) : list (option lmat) :=
    match sel with
    | [] => []
    | true :: s => match mats with
                   | M :: ms => Some (if transposed then mtrans Op (length M) M else M) :: sel_mats transposed s ms
                   | [] => []
                   end
    | false :: s => None :: sel_mats transposed s mats
    end.

  (* one d_k x d_k matrix (d_k rows) for every selected mode k, in order *)
  Fixpoint mats_fit (sel : list bool) (dims : list nat) (mats : list lmat) : Prop :=
    match sel, dims with
    | [], [] => mats = []
    | true :: s, d :: ds => match mats with M :: ms => length M = d /\ mats_fit s ds ms | [] => False end
    | false :: s, d :: ds => mats_fit s ds mats
    | _, _ => False
    end.

  Definition idmat (n : nat) : lmat := tab n (fun i => tab n (fun j => if Nat.eqb i j then f1 Op else zero)).

  (* does the block have a basis yet?  (factor_eigenvectors and factor_eigenvectors[0].any()) *)
  Definition soap_basis_exists (Qs : list lmat) : bool :=
    match Qs with Q0 :: _ => any_nonzero Op Q0 | [] => false end.

  (* ---------------------------------------------------------------- 2. predicates on d x d list matrices *)
  Definition delta (i j : nat) : F := if Nat.eqb i j then f1 Op else zero.
  (* Q Q^T = I *)
  Definition rows_orthonormal (d : nat) (Q : lmat) : Prop :=
    forall i j, i < d -> j < d -> sumn Op d (fun k => fmul Op (mnth Q i k) (mnth Q j k)) = delta i j.
  (* Q^T Q = I *)
  Definition cols_orthonormal (d : nat) (Q : lmat) : Prop :=
    forall i j, i < d -> j < d -> sumn Op d (fun k => fmul Op (mnth Q k i) (mnth Q k j)) = delta i j.
  Definition orthonormal (d : nat) (Q : lmat) : Prop :=
    length Q = d /\ rows_orthonormal d Q /\ cols_orthonormal d Q.
  (* Q^T A Q is diagonal: every off-diagonal entry sum_k sum_l Q[k][i] A[k][l] Q[l][j] vanishes *)
  Definition diagonalises (d : nat) (A Q : lmat) : Prop :=
    forall i j, i < d -> j < d -> i <> j ->
    sumn Op d (fun k => sumn Op d (fun l => fmul Op (fmul Op (mnth Q k i) (mnth A k l)) (mnth Q l j))) = zero.
  (* M M' = I on the d x d entries *)
  Definition inverse_pair (d : nat) (M M' : lmat) : Prop :=
    forall k j, k < d -> j < d -> sumn Op d (fun i => fmul Op (mnth M k i) (mnth M' i j)) = delta k j.

  (* mode by mode: the second list of matrices undoes the first (ignored modes are ignored in both) *)
  Fixpoint back_pair (ds : list nat) (Ms Ms' : list (option lmat)) : Prop :=
    match ds, Ms, Ms' with
    | [], [], [] => True
    | d :: ds', Some M :: r, Some M' :: r' => inverse_pair d M M' /\ back_pair ds' r r'
    | d :: ds', None :: r, None :: r' => back_pair ds' r r'
    | _, _, _ => False
    end.

  (* every matrix of the list (one per selected mode) has orthonormal rows / columns of the mode's size *)
  Fixpoint all_fit (P : nat -> lmat -> Prop) (sel : list bool) (dims : list nat) (mats : list lmat) : Prop :=
    match sel, dims with
    | true :: s, d :: ds => match mats with M :: ms => P d M /\ all_fit P s ds ms | [] => True end
    | false :: s, d :: ds => all_fit P s ds mats
    | _, _ => True
    end.

  (* Adam / RMSprop / Adagrad in the coordinates given by the bases Qs: rotate (only if a basis exists; ignored modes
     are not touched), divide by (V / bias_correction2 + epsilon)^(1/root), rotate back *)
  Definition rot_into_basis (c : cfg (F:=F)) (dims : list nat) (Qs : list lmat) (x : list F) : list F :=
    if soap_basis_exists Qs then mode_products dims (sel_mats false (dims_selector c (length dims)) Qs) x else x.
  Definition rot_back_from_basis (c : cfg (F:=F)) (dims : list nat) (Qs : list lmat) (x : list F) : list F :=
    if soap_basis_exists Qs then mode_products dims (sel_mats true (dims_selector c (length dims)) Qs) x else x.
  Definition adam_direction_in_basis (c : cfg (F:=F)) (dims : list nat) (bc2 : F) (Qs : list lmat) (V ghat : list F) : list F :=
    let e := fdiv Op (f1 Op) (of_Z Op (root_of c (length dims))) in
    rot_back_from_basis c dims Qs
      (map2 (fun xi vi => fdiv Op xi (fpow Op (fadd Op (fdiv Op vi bc2) (c_eps c)) e)) (rot_into_basis c dims Qs ghat) V).

  (* well-formed SOAP state of a block of shape [dims]: one d_k x d_k factor and basis per preconditioned mode, and either no
     basis yet (nothing is rotated) or every basis has orthonormal rows *)
  Definition soap_inv (c : cfg (F:=F)) (dims : list nat) (st : bstate (F:=F)) : Prop :=
    let sel := dims_selector c (length dims) in
    mats_fit sel dims (s_factors st) /\ mats_fit sel dims (s_inv st)
    /\ length (s_isdiag st) = length (s_factors st) /\ length (s_coreig st) = numel dims
    /\ (soap_basis_exists (s_inv st) = false \/ all_fit rows_orthonormal sel dims (s_inv st)).

  (* ---------------------------------------------------------------- 3. oracle view of a refresh *)
  (* the answers a function [eigvecs A estimate is_diagonal] gives to the queries of one SOAP refresh *)
  Fixpoint oracle_answers (eigvecs : lmat -> lmat -> bool -> lmat) (fs invs : list lmat) (dg : list bool) : list lmat :=
    match fs, invs, dg with
    | Fk :: fs', Ik :: invs', d :: dg' => eigvecs Fk Ik (d && check_diagonal Op Fk) :: oracle_answers eigvecs fs' invs' dg'
    | _, _, _ => []
    end.
  Fixpoint soap_queries (fs invs : list lmat) (dg : list bool) : list (query (F:=F)) :=
    match fs, invs, dg with
    | Fk :: fs', Ik :: invs', d :: dg' => mkQ Fk zero zero (d && check_diagonal Op Fk) Ik :: soap_queries fs' invs' dg'
    | _, _, _ => []
    end.

  (* the state of a block after one step whose refresh (if any) is answered by the oracle function [eigvecs] *)
  Definition soap_state_step (eigvecs : lmat -> lmat -> bool -> lmat) (c : cfg (F:=F)) (dims : list nat)
             (st : bstate (F:=F)) (i : Z * hints (F:=F) * list F * list F) : bstate (F:=F) :=
    let '(t, h, w, g0) := i in
    let fs := update_factors Op c dims (l2_grad Op c w g0) (s_factors st) in
    snd (fst (block_step Op c t h dims (oracle_answers eigvecs fs (s_inv st) (s_isdiag st)) w st g0)).
End Defs.

(* ---------------------------------------------------------------- 4. dtype tags of a basis refresh *)
(* Tags only (values are not rounded): what meets what in EigenvalueCorrectedShampooPreconditionerList.
   _amortized_computation -> matrix_eigenvectors -> _compute_orthogonal_iterations.
     factor matrix A               : preconditioner_dtype                      [fdt]
     stored basis = estimate       : dtype of the parameter block              [pdt]
     eigh path                     : eigh(A); a failing eigh is retried on A.double() (retry_double_precision)
     QR path, estimate all zero    : matrix_eigenvalue_decomposition(A) (same as the eigh path)
     QR path, estimate non-zero    : Q = estimate.to(A.dtype) [the repair of F2; before it: Q = estimate];
                                     A @ Q needs equal dtypes (else RuntimeError); qr(A @ Q) needs a LAPACK kernel
     result                        : factor_matrix_eigenvectors.copy_(computed)  -> stored dtype stays [pdt]
   A raised exception is caught by _amortized_computation: the old basis is kept and a failure is counted. *)
Inductive emethod : Type := MEigh | MQR.
Inductive refresh_tag : Type :=
| RComputed (computed : dtype)      (* the routine returned a tensor of this dtype; it is copied into the stored basis *)
| RDtypeMismatch                    (* A @ Q with different dtypes: RuntimeError *)
| RNoKernel.                        (* no LAPACK kernel for the dtype: RuntimeError "not implemented for" *)

Definition refresh_tag_eqb (a b : refresh_tag) : bool :=
  match a, b with
  | RComputed x, RComputed y => dtype_eqb x y
  | RDtypeMismatch, RDtypeMismatch | RNoKernel, RNoKernel => true
  | _, _ => false
  end.

Section DtypeTags.
  (* platform facts (measured by the harness on torch directly, see harness/c03.py): is there a kernel? *)
  Variable eigh_kernel_supported : dtype -> bool.
  Variable qr_kernel_supported : dtype -> bool.

  Definition eigh_tags (fdt : dtype) : refresh_tag :=
    if eigh_kernel_supported fdt then RComputed fdt
    else if negb (dtype_eqb fdt F64) && eigh_kernel_supported F64 then RComputed F64 else RNoKernel.

  (* [cast_estimate] = true: the current code; false: the code before commit 0ab4e53 *)
  Definition refresh_tags (cast_estimate : bool) (m : emethod) (pdt fdt : dtype) (estimate_nonzero : bool) : refresh_tag :=
    match m with
    | MEigh => eigh_tags fdt
    | MQR =>
        if estimate_nonzero then
          let qdt := if cast_estimate then fdt else pdt in
          if dtype_eqb fdt qdt then (if qr_kernel_supported fdt then RComputed fdt else RNoKernel) else RDtypeMismatch
        else eigh_tags fdt
    end.

  Definition refresh_succeeds (r : refresh_tag) : bool := match r with RComputed _ => true | _ => false end.
  (* dtype of the stored basis after the refresh: copy_ keeps the destination's dtype; a failure keeps the tensor *)
  Definition stored_basis_tag (pdt : dtype) (r : refresh_tag) : dtype := pdt.
End DtypeTags.

(* the platform as measured (torch 2.5.1 CPU): LAPACK kernels exist for float32/float64 only *)
Definition lapack_kernel (dt : dtype) : bool := match dt with BF16 | F16 => false | F32 | F64 => true end.

(* one observed refresh call, as recorded by the harness *)
Record obs_call : Type := mkObsCall {
  oc_A_dtype : dtype; oc_est_dtype : dtype; oc_est_nonzero : bool;
  oc_result : refresh_tag }.

(* [true;true;true] iff the observed call has A in the preconditioner dtype, the estimate in the parameter
   dtype, and the outcome the tag model predicts *)
Definition dtype_call_ok (eigh_k qr_k : dtype -> bool) (m : emethod) (pdt fdt : dtype) (o : obs_call) : list bool :=
  [ dtype_eqb (oc_A_dtype o) fdt;
    dtype_eqb (oc_est_dtype o) pdt;
    refresh_tag_eqb (oc_result o) (refresh_tags eigh_k qr_k true m pdt fdt (oc_est_nonzero o)) ].

(* stored state tags after a step: eigenvectors and corrected eigenvalues in the parameter dtype, factors in the
   preconditioner dtype *)
Definition dtype_state_ok (pdt fdt : dtype) (eig_tags fac_tags : list dtype) (coreig_tag : dtype) : list bool :=
  [ forallb (dtype_eqb pdt) eig_tags; forallb (dtype_eqb fdt) fac_tags; dtype_eqb coreig_tag pdt ].

(* ---------------------------------------------------------------- schedule checker on the implementation *)
(* [changed]: did some stored eigenvector tensor of the block change (bit-wise) during the step that led to step
   count t?  Bases may change only at a scheduled refresh of a block that has a gradient. *)
Definition C03_sched_checkb (freq start t : Z) (has_grad changed : bool) : bool :=
  negb changed || (has_grad && (((t mod freq =? 0)%Z && (start <? t)%Z) || (t =? start)%Z)).
