(* Proofs about Compiled.v (C18). *)
From Coq Require Import ZArith List Bool Lia.
From Shampoo Require Import Scalar Optimizer Compiled.
Import ListNotations.

(* ------------------------------------------------------------------ (1) the kernel *)
Section KernelFacts.
  Context {F : Type} (Op : ops F).

  Lemma block_step_is_kernel : forall (c : cfg (F:=F)) t h dims answers w st g,
    block_step Op c t h dims answers w st g
    = block_kernel Op c (perform_amortized c t) (use_grafting_method c t) t h dims answers w st g.
  Proof. reflexivity. Qed.

  Lemma group_step_is_kernel : forall (c : cfg (F:=F)) h t bs ins,
    group_step Op c h t bs ins = group_step_via (group_kernel Op) c h t bs ins.
  Proof. reflexivity. Qed.

  (* the flags are the ONLY way the schedule enters: two step counts with the same flags and the same bias-correction
     data give the same block step *)
  Lemma kernel_has_no_schedule : forall (c c' : cfg (F:=F)) pa ug t h dims answers w st g,
    with_lr c (f0 Op) = with_lr c' (f0 Op) -> c_lr c = c_lr c' ->
    block_kernel Op c pa ug t h dims answers w st g = block_kernel Op c' pa ug t h dims answers w st g.
  Proof.
    intros c c' pa ug t h dims answers w st g Hc Hlr.
    destruct c, c'; cbn in Hlr; unfold with_lr in Hc; cbn in Hc. injection Hc as ?; subst. reflexivity.
  Qed.
End KernelFacts.

(* ------------------------------------------------------------------ (2) the cache *)
Section CacheFacts.
  Variables X K R : Type.
  Variable f : X -> R.
  Variable key : X -> K.
  Variable keqb : K -> K -> bool.
  Variable trace : X -> X -> R.
  Hypothesis keqb_eq : forall a b, keqb a b = true -> a = b.                 (* a guard that passes pins the key *)
  Hypothesis trace_sound : forall x0 x, key x = key x0 -> trace x0 x = f x.  (* the graph reads the rest from its input *)

  Lemma lookup_sound : forall k cch g,
    cache_wf key trace cch -> lookup keqb k cch = Some g -> exists x0, key x0 = k /\ g = trace x0.
  Proof.
    intros k cch; induction cch as [|[k0 g0] rest IH]; intros g Hwf Hl; cbn in Hl; [discriminate|].
    inversion Hwf as [|e l He Hrest]; subst.
    destruct (keqb k0 k) eqn:Hk.
    - injection Hl as <-. destruct He as [x0 [Hx0 Hg]]. cbn in *. exists x0. split; [|exact Hg].
      rewrite Hx0. apply keqb_eq; exact Hk.
    - apply IH; assumption.
  Qed.

  Lemma call_correct : forall cch x,
    cache_wf key trace cch ->
    fst (call key keqb trace cch x) = f x /\ cache_wf key trace (snd (call key keqb trace cch x)).
  Proof.
    intros cch x Hwf. unfold call. destruct (lookup keqb (key x) cch) as [g|] eqn:Hl; cbn.
    - destruct (lookup_sound _ _ _ Hwf Hl) as [x0 [Hk ->]]. split; [|exact Hwf].
      apply trace_sound. symmetry; exact Hk.
    - split; [apply trace_sound; reflexivity|].
      unfold cache_wf. apply Forall_app. split; [exact Hwf|].
      constructor; [|constructor]. exists x. split; reflexivity.
  Qed.

  Variable S : Type.
  Variable next_input : S -> X.
  Variable absorb : S -> R -> S.

  Theorem cached_client_eq_eager : forall n cch s,
    cache_wf key trace cch ->
    fst (run_compiled key keqb trace S next_input absorb n cch s) = run_eager f S next_input absorb n s
    /\ cache_wf key trace (snd (run_compiled key keqb trace S next_input absorb n cch s)).
  Proof.
    induction n as [|n IH]; intros cch s Hwf; cbn; [split; [reflexivity|exact Hwf]|].
    destruct (call_correct cch (next_input s) Hwf) as [Hr Hwf'].
    destruct (call key keqb trace cch (next_input s)) as [r cch'] eqn:Hc. cbn in Hr, Hwf'. subst r.
    apply IH; exact Hwf'.
  Qed.

  (* every result handed back is the eager one, whatever happened before (hit on an old entry, hit on another
     caller's entry, or recompilation) *)
  Corollary every_call_eq_eager : forall cch x,
    cache_wf key trace cch -> fst (call key keqb trace cch x) = f x.
  Proof. intros cch x Hwf. exact (proj1 (call_correct cch x Hwf)). Qed.

  Lemma empty_cache_wf : cache_wf key trace [].
  Proof. constructor. Qed.
End CacheFacts.

(* ------------------------------------------------------------------ (3) the optimizer instance *)
Section InstanceFacts.
  Context {F : Type} (Op : ops F).

  Lemma with_lr_restore : forall (c c0 : cfg (F:=F)) z,
    with_lr c z = with_lr c0 z -> with_lr (with_lr c0 z) (c_lr c) = c.
  Proof. intros c c0 z H. destruct c, c0; unfold with_lr in *; cbn in *. injection H as ?; subst. reflexivity. Qed.

  (* soundness of the specialised graph is a THEOREM for this key *)
  Lemma ci_trace_sound : forall x0 x : cinput (F:=F), ci_key Op x = ci_key Op x0 -> ci_trace Op x0 x = ci_eager Op x.
  Proof.
    intros x0 x Hk. unfold ci_trace, ci_eager.
    assert (Hc : ck_cfg (ci_key Op x) = ck_cfg (ci_key Op x0)) by (rewrite Hk; reflexivity).
    assert (Hpa : ck_pa (ci_key Op x) = ck_pa (ci_key Op x0)) by (rewrite Hk; reflexivity).
    assert (Hug : ck_ug (ci_key Op x) = ck_ug (ci_key Op x0)) by (rewrite Hk; reflexivity).
    rewrite <- Hpa, <- Hug. cbn [ci_key ck_cfg ck_pa ck_ug] in *.
    rewrite (with_lr_restore _ _ _ Hc). reflexivity.
  Qed.

  (* the key does not see lr, the step count, the hints, the parameters' values, the state or the gradients' values *)
  Lemma ci_key_ignores_data : forall (x : cinput (F:=F)) lr' h' t' ws' sts' gs',
    length ws' = length (ci_bs x) -> length sts' = length (ci_bs x) -> length gs' = length (ci_ins x) ->
    ci_key Op (mkCI (with_lr (ci_cfg x) lr') (ci_pa x) (ci_ug x) h' t'
                    (map (fun bws => mkB (b_dims (fst (fst bws))) (snd (fst bws)) (snd bws)) (combine (combine (ci_bs x) ws') sts'))
                    (map (fun ig => mkI (match i_grad (fst ig) with Some _ => Some (snd ig) | None => None end) (i_answers (fst ig)))
                         (combine (ci_ins x) gs')))
    = ci_key Op x.
  Proof.
    intros x lr' h' t' ws' sts' gs' Hw Hs Hg. unfold ci_key; cbn. f_equal.
    - rewrite map_map. revert gs' Hg. induction (ci_ins x) as [|i ins IH]; intros [|g gs'] Hg; cbn in *; try discriminate; [reflexivity|].
      f_equal; [unfold present; cbn; destruct (i_grad i); reflexivity|]. apply IH. lia.
    - rewrite map_map. revert ws' sts' Hw Hs. induction (ci_bs x) as [|b bs IH]; intros [|w ws'] [|s sts'] Hw Hs; cbn in *; try discriminate; [reflexivity|].
      f_equal. apply IH; lia.
  Qed.

  Variable keqb : ckey (F:=F) -> ckey (F:=F) -> bool.
  Hypothesis keqb_eq : forall a b, keqb a b = true -> a = b.

  Variable S : Type.
  Variable next_input : S -> cinput (F:=F).
  Variable absorb : S -> list (block (F:=F)) * list (list (query (F:=F))) -> S.

  (* any client (any number of groups, any order of calls, inputs depending on earlier results), any history length,
     any well-formed starting cache *)
  Theorem compiled_groups_eq_eager : forall n cch s,
    cache_wf (ci_key Op) (ci_trace Op) cch ->
    fst (run_compiled (ci_key Op) keqb (ci_trace Op) S next_input absorb n cch s)
    = run_eager (ci_eager Op) S next_input absorb n s.
  Proof.
    intros n cch s Hwf.
    exact (proj1 (cached_client_eq_eager _ _ _ (ci_eager Op) (ci_key Op) keqb (ci_trace Op) keqb_eq (ci_trace_sound) S next_input absorb n cch s Hwf)).
  Qed.

  (* one optimizer step of one group through the cache = Optimizer.group_step *)
  Theorem compiled_group_step_eq_group_step : forall cch (c : cfg (F:=F)) h t bs ins,
    cache_wf (ci_key Op) (ci_trace Op) cch ->
    group_step_via (fun c pa ug h t' bs ins => fst (call (ci_key Op) keqb (ci_trace Op) cch (mkCI c pa ug h t' bs ins))) c h t bs ins
    = group_step Op c h t bs ins.
  Proof.
    intros cch c h t bs ins Hwf. rewrite group_step_is_kernel. unfold group_step_via.
    destruct (existsb present ins); [|reflexivity].
    rewrite (every_call_eq_eager _ _ _ (ci_eager Op) (ci_key Op) keqb (ci_trace Op) keqb_eq ci_trace_sound cch _ Hwf).
    reflexivity.
  Qed.
End InstanceFacts.

(* ------------------------------------------------------------------ what must NOT be baked into a graph *)
(* A trace that captures the parameter blocks of the call it was traced at (what `assume_constant_result` on the
   masked parameter list does, seed C18C) is unsound for the same key: a second group / another presence pattern with
   equal metadata hits the entry and the first caller's blocks are updated. Witness over the integers. *)
Definition Zops : ops Z :=
  mkOps Z 0%Z 1%Z Z.add Z.sub Z.mul Z.div Z.opp Z.sqrt Z.abs (fun x _ => x) Z.leb Z.ltb Z.eqb (fun _ => true) (fun x => x) (fun z => z).

Definition baked_trace (x0 x : cinput (F:=Z)) : list block * list (list query) :=
  group_kernel Zops (with_lr (ck_cfg (ci_key Zops x0)) (c_lr (ci_cfg x))) (ck_pa (ci_key Zops x0)) (ck_ug (ci_key Zops x0))
               (ci_h x) (ci_t x) (ci_bs x0) (ci_ins x).

Definition wit_cfg : cfg (F:=Z) :=
  mkCfg 0%Z 0%Z 1%Z 0%Z 1%Z 0%Z 0%Z 0%Z 1%Z 5%Z false false false GNone KShampoo [] (OvInt 0) 1%Z.
Definition wit_st : bstate (F:=Z) := mkS [] [] [] [] [] [] [].
Definition wit_call (w : Z) : cinput (F:=Z) :=
  mkCI wit_cfg false false (mkH 1%Z 1%Z 1%Z) 1%Z [mkB [] [w] wit_st] [mkI (Some [0%Z]) []].

Lemma baked_parameters_refuted :
  exists x0 x, ci_key Zops x = ci_key Zops x0 /\ baked_trace x0 x <> ci_eager Zops x.
Proof. exists (wit_call 5%Z), (wit_call 7%Z). split; [reflexivity|]. vm_compute. discriminate. Qed.

(* non-vacuity: on the same witness the sound trace agrees, through a cache that was filled by the OTHER caller *)
Example twin_group_hit_is_sound :
  let cch := snd (call (ci_key Zops) (fun _ _ => true) (ci_trace Zops) [] (wit_call 5%Z)) in
  fst (call (ci_key Zops) (fun _ _ => true) (ci_trace Zops) cch (wit_call 7%Z)) = ci_eager Zops (wit_call 7%Z)
  /\ length cch = 1%nat.
Proof. vm_compute. split; reflexivity. Qed.
