(* C16 - theorems about the state-dict model (StateDict.v). *)
From Coq Require Import List ZArith Bool String Ascii Arith Lia.
From Shampoo Require Import StateDict.
Import ListNotations.

(* ========================================================================================== *)
(* 0. small facts                                                                               *)

Lemma key_eqb_eq a b : key_eqb a b = true <-> a = b.
Proof.
  destruct a, b; cbn [key_eqb]; split; intros H; try discriminate; try congruence.
  - apply String.eqb_eq in H. congruence.
  - injection H as ->. apply String.eqb_refl.
  - apply Z.eqb_eq in H. congruence.
  - injection H as ->. apply Z.eqb_refl.
Qed.

Lemma key_eqb_refl a : key_eqb a a = true.
Proof. apply key_eqb_eq; reflexivity. Qed.

Lemma key_eqb_neq a b : a <> b -> key_eqb a b = false.
Proof. intros H. destruct (key_eqb a b) eqn:E; [apply key_eqb_eq in E; contradiction|reflexivity]. Qed.

Lemma lf_eqb_eq a b : lf_eqb a b = true <-> a = b.
Proof.
  destruct a, b; cbn [lf_eqb]; split; intros H; try discriminate; try congruence.
  - apply Nat.eqb_eq in H. congruence.
  - injection H as ->. apply Nat.eqb_refl.
  - apply andb_true_iff in H as [H1 H2]. apply Nat.eqb_eq in H1, H2. congruence.
  - injection H as -> ->. rewrite !Nat.eqb_refl. reflexivity.
Qed.

Lemma NoDup_app_intro {A} (l1 l2 : list A) :
  NoDup l1 -> NoDup l2 -> (forall x, In x l1 -> ~ In x l2) -> NoDup (l1 ++ l2).
Proof.
  induction l1 as [|a l1 IH]; cbn [app]; intros H1 H2 H; [exact H2|].
  inversion H1; subst. constructor.
  - rewrite in_app_iff. intros [Hin|Hin]; [contradiction|]. apply (H a); [left; reflexivity|exact Hin].
  - apply IH; try assumption. intros x Hx. apply H. right; exact Hx.
Qed.

Lemma NoDup_app_l {A} (l1 l2 : list A) : NoDup (l1 ++ l2) -> NoDup l1.
Proof.
  induction l1 as [|a l1 IH]; cbn [app]; intros H; [constructor|].
  inversion H; subst. constructor; [|apply IH; assumption].
  intros Hin. apply H2. apply in_app_iff. left; exact Hin.
Qed.

Lemma NoDup_app_r {A} (l1 l2 : list A) : NoDup (l1 ++ l2) -> NoDup l2.
Proof.
  induction l1 as [|a l1 IH]; cbn [app]; intros H; [exact H|]. inversion H; subst. apply IH; assumption.
Qed.

Lemma NoDup_app_disj {A} (l1 l2 : list A) : NoDup (l1 ++ l2) -> forall x, In x l1 -> ~ In x l2.
Proof.
  induction l1 as [|a l1 IH]; cbn [app]; intros H x Hx; [destruct Hx|].
  inversion H; subst. destruct Hx as [->|Hx].
  - intros Hin. apply H2. apply in_app_iff. right; exact Hin.
  - apply IH; assumption.
Qed.

Lemma NoDup_map_inj {A B} (f : A -> B) (l : list A) :
  (forall x y, In x l -> In y l -> f x = f y -> x = y) -> NoDup l -> NoDup (map f l).
Proof.
  induction l as [|a l IH]; cbn [map]; intros Hinj H; [constructor|].
  inversion H; subst. constructor.
  - intros Hin. apply in_map_iff in Hin as (y & Hy & Hin).
    assert (y = a) by (apply Hinj; [right; exact Hin|left; reflexivity|exact Hy]). subst. contradiction.
  - apply IH; [|assumption]. intros x y Hx Hy. apply Hinj; right; assumption.
Qed.

(* ========================================================================================== *)
(* 1. Python dict operations                                                                    *)

Section PyDictFacts.
  Context {K V : Type} (eqb : K -> K -> bool).
  Hypothesis eqb_eq : forall a b, eqb a b = true <-> a = b.

  Lemma eqb_refl' a : eqb a a = true.
  Proof. apply eqb_eq; reflexivity. Qed.

  Lemma eqb_neq' a b : a <> b -> eqb a b = false.
  Proof. intros H. destruct (eqb a b) eqn:E; [apply eqb_eq in E; contradiction|reflexivity]. Qed.

  Lemma dset_fresh k (v : V) d : ~ In k (map fst d) -> dset eqb k v d = d ++ [(k, v)].
  Proof.
    induction d as [|[k' v'] d IH]; cbn [dset map fst app In]; intros H; [reflexivity|].
    rewrite eqb_neq' by (intros ->; apply H; left; reflexivity).
    rewrite IH; [reflexivity|]. intros Hin; apply H; right; exact Hin.
  Qed.

  Lemma dset_at k (v v0 : V) a r : ~ In k (map fst a) -> dset eqb k v (a ++ (k, v0) :: r) = a ++ (k, v) :: r.
  Proof.
    induction a as [|[k' v'] a IH]; cbn [dset map fst app In]; intros H.
    - rewrite eqb_refl'. reflexivity.
    - rewrite eqb_neq' by (intros ->; apply H; left; reflexivity).
      rewrite IH; [reflexivity|]. intros Hin; apply H; right; exact Hin.
  Qed.

  Lemma dget_at k (v0 : V) a r : ~ In k (map fst a) -> dget eqb k (a ++ (k, v0) :: r) = Some v0.
  Proof.
    induction a as [|[k' v'] a IH]; cbn [dget map fst app In]; intros H.
    - rewrite eqb_refl'. reflexivity.
    - rewrite eqb_neq' by (intros ->; apply H; left; reflexivity).
      apply IH. intros Hin; apply H; right; exact Hin.
  Qed.

  Lemma dget_none k (d : list (K * V)) : ~ In k (map fst d) -> dget eqb k d = None.
  Proof.
    induction d as [|[k' v'] d IH]; cbn [dget map fst In]; intros H; [reflexivity|].
    rewrite eqb_neq' by (intros ->; apply H; left; reflexivity).
    apply IH. intros Hin; apply H; right; exact Hin.
  Qed.

  Lemma dget_some_in k (v : V) d : dget eqb k d = Some v -> In (k, v) d.
  Proof.
    induction d as [|[k' v'] d IH]; cbn [dget In]; intros H; [discriminate|].
    destruct (eqb k k') eqn:E.
    - apply eqb_eq in E. injection H as ->. subst. left; reflexivity.
    - right. apply IH; exact H.
  Qed.

  Lemma dget_in k (v : V) d : NoDup (map fst d) -> In (k, v) d -> dget eqb k d = Some v.
  Proof.
    induction d as [|[k' v'] d IH]; cbn [dget map fst In]; intros Hnd Hin; [destruct Hin|].
    inversion Hnd; subst. destruct Hin as [Heq|Hin].
    - injection Heq as -> ->. rewrite eqb_refl'. reflexivity.
    - rewrite eqb_neq'; [apply IH; assumption|].
      intros ->. apply H1. apply in_map_iff. exists (k', v). split; [reflexivity|exact Hin].
  Qed.

  Lemma dor_fresh (a b : list (K * V)) :
    NoDup (map fst b) -> (forall k, In k (map fst b) -> ~ In k (map fst a)) -> dor eqb a b = a ++ b.
  Proof.
    unfold dor. revert a. induction b as [|[k v] b IH]; cbn [fold_left map fst snd]; intros a Hnd Hfr.
    - rewrite app_nil_r. reflexivity.
    - inversion Hnd; subst. rewrite dset_fresh by (apply Hfr; left; reflexivity).
      rewrite IH; [rewrite <- app_assoc; reflexivity|assumption|].
      intros k' Hk'. rewrite map_app, in_app_iff. cbn [map fst In]. intros [Hin|[->|[]]].
      + apply (Hfr k'); [right; exact Hk'|exact Hin].
      + contradiction.
  Qed.

  Lemma dor_nil_r (a : list (K * V)) : dor eqb a [] = a.
  Proof. reflexivity. Qed.

  Lemma dset_not_nil k (v : V) d : dset eqb k v d <> [].
  Proof. destruct d as [|[k' v'] d]; cbn [dset]; [discriminate|]. destruct (eqb k k'); discriminate. Qed.

  Lemma dor_not_nil (a b : list (K * V)) : b <> [] -> dor eqb a b <> [].
  Proof.
    unfold dor. revert a. induction b as [|[k v] b IH]; intros a H; [contradiction|].
    cbn [fold_left fst snd]. destruct b as [|kv b]; [cbn [fold_left]; apply dset_not_nil|].
    apply IH. discriminate.
  Qed.

  Lemma dor_nil_l_not_nil (a b : list (K * V)) : a <> [] -> dor eqb a b <> [].
  Proof.
    unfold dor. revert a. induction b as [|[k v] b IH]; intros a H; cbn [fold_left fst snd]; [exact H|].
    apply IH. apply dset_not_nil.
  Qed.
End PyDictFacts.

(* ========================================================================================== *)
(* 2. induction on trees (the type nests through list)                                          *)

Section TreeInd.
  Variable P : tree -> Prop.
  Hypothesis HL : forall x, P (Leaf x).
  Hypothesis HN : forall d, Forall (fun kv => P (snd kv)) d -> P (Node d).

  Fixpoint tree_ind' (t : tree) : P t :=
    match t with
    | Leaf x => HL x
    | Node d =>
        HN d ((fix go (d : dict) : Forall (fun kv => P (snd kv)) d :=
                 match d with
                 | [] => Forall_nil _
                 | (k, v) :: r => Forall_cons (k, v) (tree_ind' v) (go r)
                 end) d)
    end.
End TreeInd.

(* ---- unfolding lemmas for the nested fixpoints ---- *)

Lemma dpaths_nil : dpaths [] = [].
Proof. reflexivity. Qed.

Lemma dpaths_cons k v d : dpaths ((k, v) :: d) = map (pre k) (paths v) ++ dpaths d.
Proof. reflexivity. Qed.

Lemma paths_node d : paths (Node d) = dpaths d.
Proof. reflexivity. Qed.

Lemma dpaths_app d1 d2 : dpaths (d1 ++ d2) = dpaths d1 ++ dpaths d2.
Proof.
  induction d1 as [|[k v] d1 IH]; [reflexivity|].
  cbn [app]. rewrite !dpaths_cons, IH, app_assoc. reflexivity.
Qed.

Definition dhas_leaf (d : dict) : bool := has_leaf (Node d).

Lemma dhas_leaf_cons k v d : dhas_leaf ((k, v) :: d) = has_leaf v || dhas_leaf d.
Proof. reflexivity. Qed.

Lemma prune_dict_nil : prune_dict [] = [].
Proof. reflexivity. Qed.

Lemma prune_dict_cons k v d :
  prune_dict ((k, v) :: d) = if has_leaf v then (k, prune v) :: prune_dict d else prune_dict d.
Proof. unfold prune_dict. cbn [prune]. destruct (has_leaf v); reflexivity. Qed.

Lemma prune_node d : prune (Node d) = Node (prune_dict d).
Proof. reflexivity. Qed.

(* a tree holds a leaf iff it has a leaf path *)
Lemma has_leaf_paths t : has_leaf t = false <-> paths t = [].
Proof.
  induction t as [x|d IH] using tree_ind'.
  - cbn. split; discriminate.
  - change (dhas_leaf d = false <-> dpaths d = []).
    induction d as [|[k v] d IHd]; [split; reflexivity|].
    inversion IH as [|? ? Hv Hd]; subst. cbn [snd] in Hv. specialize (IHd Hd).
    rewrite dhas_leaf_cons, dpaths_cons, orb_false_iff. split.
    + intros [H1 H2]. apply Hv in H1. apply IHd in H2. rewrite H1, H2. reflexivity.
    + intros H. apply app_eq_nil in H as [H1 H2]. apply map_eq_nil in H1. split; [apply Hv|apply IHd]; assumption.
Qed.

(* ========================================================================================== *)
(* 3. well-formed trees (unique keys in every dict)                                             *)

Inductive wf : tree -> Prop :=
| wf_leaf x : wf (Leaf x)
| wf_node d : NoDup (map fst d) -> Forall (fun kv => wf (snd kv)) d -> wf (Node d).

(* every sub-dict strictly below the root holds a leaf *)
Inductive full : tree -> Prop :=
| full_leaf x : full (Leaf x)
| full_node d : Forall (fun kv => has_leaf (snd kv) = true /\ full (snd kv)) d -> full (Node d).

Lemma nodupb_sound l : nodupb key_eqb l = true -> NoDup l.
Proof.
  induction l as [|a l IH]; cbn [nodupb]; intros H; [constructor|].
  apply andb_true_iff in H as [H1 H2]. constructor; [|apply IH; exact H2].
  intros Hin. apply negb_true_iff in H1.
  assert (existsb (key_eqb a) l = true) by (apply existsb_exists; exists a; split; [exact Hin|apply key_eqb_refl]).
  congruence.
Qed.

Lemma wfb_sound t : wfb t = true -> wf t.
Proof.
  induction t as [x|d IH] using tree_ind'; intros H; [constructor|].
  cbn [wfb] in H. apply andb_true_iff in H as [H1 H2]. constructor; [apply nodupb_sound; exact H1|].
  clear H1. induction d as [|[k v] d IHd]; [constructor|].
  inversion IH; subst. apply andb_true_iff in H2 as [Hv Hd]. constructor; [cbn [snd]; auto|auto].
Qed.

Lemma fullb_sound t : fullb t = true -> full t.
Proof.
  induction t as [x|d IH] using tree_ind'; intros H; [constructor|].
  constructor. cbn [fullb] in H.
  induction d as [|[k v] d IHd]; [constructor|].
  inversion IH; subst. apply andb_true_iff in H as [H Hd]. apply andb_true_iff in H as [Hl Hf].
  constructor; [cbn [snd]; auto|auto].
Qed.

Lemma full_prune t : full t -> prune t = t.
Proof.
  induction t as [x|d IH] using tree_ind'; intros H; [reflexivity|].
  rewrite prune_node. f_equal. inversion H as [|? Hd]; subst. clear H.
  induction d as [|[k v] d IHd]; [reflexivity|].
  inversion IH; subst. inversion Hd as [|? ? [Hl Hf] Hd']; subst. cbn [snd] in *.
  rewrite prune_dict_cons, Hl. f_equal; [f_equal; auto|auto].
Qed.

(* ========================================================================================== *)
(* 4. flatten                                                                                   *)

Section FlattenFacts.
  Variable fkey : Type.
  Variable fkey_eqb : fkey -> fkey -> bool.
  Variable dumps : list key -> fkey.
  Variable loads : fkey -> option (list key).

  Notation flat := (list (fkey * lf)).
  Notation parse_kv := (parse_kv fkey fkey_eqb dumps).
  Notation flatten_with := (flatten_with fkey fkey_eqb dumps).
  Notation flatten := (flatten fkey fkey_eqb dumps).
  Notation unflatten := (unflatten fkey loads).

  Lemma parse_kv_node ps k d : parse_kv ps k (Node d) = flatten_with (ps ++ [k]) d.
  Proof.
    unfold StateDict.flatten_with. cbn [StateDict.parse_kv]. generalize (@nil (fkey * lf)).
    induction d as [|[ck cv] d IH]; intros acc; [reflexivity|]. cbn [fold_left fst snd]. apply IH.
  Qed.

  Lemma flatten_with_cons ps k v d acc :
    fold_left (fun acc kv => dor fkey_eqb acc (parse_kv ps (fst kv) (snd kv))) ((k, v) :: d) acc
    = fold_left (fun acc kv => dor fkey_eqb acc (parse_kv ps (fst kv) (snd kv))) d (dor fkey_eqb acc (parse_kv ps k v)).
  Proof. reflexivity. Qed.

  (* ---- facts that need nothing about the JSON library ---- *)

  (* a value without a leaf contributes nothing *)
  Lemma parse_kv_leafless v : has_leaf v = false -> forall ps k, parse_kv ps k v = [].
  Proof.
    induction v as [x|d IH] using tree_ind'; intros H ps k; [discriminate|].
    rewrite parse_kv_node. unfold StateDict.flatten_with.
    change (dhas_leaf d = false) in H.
    induction d as [|[ck cv] d IHd]; [reflexivity|].
    inversion IH as [|? ? IHv IHr]; subst. rewrite dhas_leaf_cons in H. apply orb_false_iff in H as [H1 H2].
    cbn [fold_left fst snd] in *. rewrite (IHv H1). rewrite dor_nil_r. auto.
  Qed.

  Lemma fold_dor_not_nil ps d acc :
    acc <> [] -> fold_left (fun acc kv => dor fkey_eqb acc (parse_kv ps (fst kv) (snd kv))) d acc <> [].
  Proof.
    revert acc. induction d as [|[k v] d IH]; intros acc H; [exact H|].
    cbn [fold_left]. apply IH. apply dor_nil_l_not_nil. exact H.
  Qed.

  Lemma parse_kv_leafy v : has_leaf v = true -> forall ps k, parse_kv ps k v <> [].
  Proof.
    induction v as [x|d IH] using tree_ind'; intros H ps k; [cbn; discriminate|].
    rewrite parse_kv_node. unfold StateDict.flatten_with.
    change (dhas_leaf d = true) in H.
    induction d as [|[ck cv] d IHd]; [discriminate|].
    inversion IH as [|? ? IHv IHr]; subst. rewrite dhas_leaf_cons in H. cbn [fold_left fst snd] in *.
    destruct (has_leaf cv) eqn:E.
    - apply fold_dor_not_nil. apply dor_not_nil. apply IHv. reflexivity.
    - rewrite (parse_kv_leafless cv E), dor_nil_r. apply IHd; assumption.
  Qed.

  (* `not flatten(d)` in Python is `has_leaf (Node d) = false`, whatever json.dumps returns *)
  Lemma flatten_nil_iff d : flatten d = [] <-> has_leaf (Node d) = false.
  Proof.
    pose proof (parse_kv_node [] (KInt 0) d) as E.
    split; intros H.
    - destruct (has_leaf (Node d)) eqn:E1; [|reflexivity].
      exfalso. apply (parse_kv_leafy (Node d) E1 [] (KInt 0)). rewrite parse_kv_node.
      (* flatten_with ignores the parents as far as emptiness goes: redo with the same structure *)
      clear E. unfold StateDict.flatten, StateDict.flatten_with in *.
      revert H. generalize (@nil key) at 1. generalize ([] ++ [KInt 0]).
      change (dhas_leaf d = true) in E1.
      induction d as [|[k v] d IHd]; intros ps ps' H; [discriminate|].
      cbn [fold_left fst snd] in *. rewrite dhas_leaf_cons in E1.
      destruct (has_leaf v) eqn:Ev.
      + exfalso. revert H. apply fold_dor_not_nil. apply dor_not_nil. apply parse_kv_leafy; exact Ev.
      + rewrite (parse_kv_leafless v Ev), dor_nil_r in *. eapply IHd; eauto.
    - pose proof (parse_kv_leafless (Node d) H [] (KInt 0)) as E2. rewrite parse_kv_node in E2.
      clear E. unfold StateDict.flatten, StateDict.flatten_with in *.
      change (dhas_leaf d = false) in H.
      clear E2. generalize (@nil key).
      induction d as [|[k v] d IHd]; intros ps; [reflexivity|].
      rewrite dhas_leaf_cons in H. apply orb_false_iff in H as [H1 H2].
      cbn [fold_left fst snd]. rewrite (parse_kv_leafless v H1), dor_nil_r. auto.
  Qed.

  (* leafless_dropped, on flatten: removing a leafless entry does not change the flat dict *)
  Lemma flatten_drop_leafless d1 k v d2 :
    has_leaf v = false -> flatten (d1 ++ (k, v) :: d2) = flatten (d1 ++ d2).
  Proof.
    intros H. unfold StateDict.flatten, StateDict.flatten_with. rewrite !fold_left_app.
    cbn [fold_left fst snd]. rewrite (parse_kv_leafless v H), dor_nil_r. reflexivity.
  Qed.

  (* ---- the JSON contract ---- *)
  Hypothesis fkey_eqb_eq : forall a b, fkey_eqb a b = true <-> a = b.
  Hypothesis loads_dumps : forall p, loads (dumps p) = Some p.

  Lemma dumps_inj p q : dumps p = dumps q -> p = q.
  Proof. intros H. apply (f_equal loads) in H. rewrite !loads_dumps in H. congruence. Qed.

  Definition enc (ps : list key) (px : list key * lf) : fkey * lf := (dumps (ps ++ fst px), snd px).

  Lemma enc_pre ps k px : enc (ps ++ [k]) px = enc ps (pre k px).
  Proof. unfold enc, pre. cbn [fst snd]. rewrite <- app_assoc. reflexivity. Qed.

  (* leaf paths of a well-formed tree are pairwise distinct *)
  Lemma paths_nodup t : wf t -> NoDup (map fst (paths t)).
  Proof.
    induction t as [x|d IH] using tree_ind'; intros Hwf; [cbn; constructor; [intros []|constructor]|].
    inversion Hwf as [|? Hnd Hall]; subst. rewrite paths_node.
    induction d as [|[k v] d IHd]; [constructor|].
    inversion IH; subst. inversion Hall; subst. cbn [map fst] in Hnd. inversion Hnd; subst. cbn [snd] in *.
    rewrite dpaths_cons, map_app. apply NoDup_app_intro.
    - rewrite map_map. cbn [pre fst]. rewrite <- (map_map fst (cons k)).
      apply NoDup_map_inj; [intros x y _ _ E; congruence|auto].
    - apply IHd; try assumption. constructor; assumption.
    - intros p Hp Hq. rewrite map_map in Hp. apply in_map_iff in Hp as (px & <- & _). cbn [pre fst] in Hq.
      (* a path of d starts with a key of d *)
      assert (Hhead : forall d' q, In q (map fst (dpaths d')) -> exists k' q', q = k' :: q' /\ In k' (map fst d')).
      { clear. induction d' as [|[k' v'] d' IHd']; intros q Hq; [destruct Hq|].
        rewrite dpaths_cons, map_app, in_app_iff in Hq. destruct Hq as [Hq|Hq].
        - rewrite map_map in Hq. apply in_map_iff in Hq as (px & <- & _). exists k', (fst px). split; [reflexivity|left; reflexivity].
        - destruct (IHd' q Hq) as (k2 & q' & -> & Hin). exists k2, q'. split; [reflexivity|right; exact Hin]. }
      destruct (Hhead d _ Hq) as (k' & q' & E & Hin). injection E as <- _. contradiction.
  Qed.

  (* flatten = one flat key per leaf path, in depth-first order *)
  Lemma parse_kv_spec v : wf v -> forall ps k, parse_kv ps k v = map (enc (ps ++ [k])) (paths v).
  Proof.
    induction v as [x|d IH] using tree_ind'; intros Hwf ps k.
    - cbn. unfold enc. cbn [fst snd]. rewrite app_nil_r. reflexivity.
    - rewrite parse_kv_node, paths_node. unfold StateDict.flatten_with.
      set (ps' := ps ++ [k]). clearbody ps'.
      inversion Hwf as [|? Hnd Hall]; subst.
      (* generalise: accumulator = image of the part already processed *)
      change (@nil (fkey * lf)) with (map (enc ps') (dpaths [])).
      assert (G : forall d2 d1, d = d1 ++ d2 ->
                fold_left (fun acc kv => dor fkey_eqb acc (parse_kv ps' (fst kv) (snd kv))) d2 (map (enc ps') (dpaths d1))
                = map (enc ps') (dpaths (d1 ++ d2))).
      { induction d2 as [|[ck cv] d2 IHd2]; intros d1 E; [rewrite app_nil_r; reflexivity|].
        cbn [fold_left fst snd].
        assert (Hin : In (ck, cv) d) by (rewrite E; apply in_elt).
        rewrite Forall_forall in IH, Hall. specialize (IH _ Hin). specialize (Hall _ Hin). cbn [snd] in IH, Hall.
        rewrite (IH Hall).
        rewrite dor_fresh; [| exact fkey_eqb_eq | |].
        - replace (map (enc (ps' ++ [ck])) (paths cv)) with (map (enc ps') (map (pre ck) (paths cv)))
            by (rewrite map_map; apply map_ext; intros; symmetry; apply enc_pre).
          rewrite <- map_app. replace (dpaths d1 ++ map (pre ck) (paths cv)) with (dpaths (d1 ++ [(ck, cv)]))
            by (rewrite dpaths_app, dpaths_cons, dpaths_nil, app_nil_r; reflexivity).
          rewrite (IHd2 (d1 ++ [(ck, cv)])); [rewrite <- app_assoc; reflexivity|].
          rewrite E, <- app_assoc. reflexivity.
        - rewrite map_map. cbn [enc fst]. rewrite <- (map_map fst (fun p => dumps ((ps' ++ [ck]) ++ p))).
          apply NoDup_map_inj; [|apply paths_nodup; exact Hall].
          intros x y _ _ Exy. apply dumps_inj in Exy. apply app_inv_head in Exy. exact Exy.
        - intros fk Hfk Hfk'. rewrite map_map in Hfk, Hfk'. cbn [enc fst] in Hfk, Hfk'.
          apply in_map_iff in Hfk as (px & <- & _). apply in_map_iff in Hfk' as (qx & Eq & Hq).
          apply dumps_inj in Eq. rewrite <- app_assoc in Eq. apply app_inv_head in Eq. cbn [app] in Eq.
          (* qx is a path of d1, so it starts with a key of d1, which differs from ck *)
          assert (Hk : In ck (map fst d1)).
          { clear - Hq Eq. induction d1 as [|[k' v'] d1 IHd1]; [destruct Hq|].
            rewrite dpaths_cons, in_app_iff in Hq. destruct Hq as [Hq|Hq].
            - apply in_map_iff in Hq as (rx & <- & _). cbn [pre fst] in Eq. injection Eq as -> _. left; reflexivity.
            - right. apply IHd1; exact Hq. }
          rewrite E, map_app in Hnd. cbn [map fst] in Hnd.
          apply (NoDup_app_disj _ _ Hnd ck Hk). left; reflexivity. }
      apply (G d []). reflexivity.
  Qed.

  Lemma flatten_spec d : wf (Node d) -> flatten d = map (enc []) (dpaths d).
  Proof.
    intros Hwf. inversion Hwf as [|? Hnd Hall]; subst. unfold StateDict.flatten.
    unfold StateDict.flatten_with.
    change (@nil (fkey * lf)) with (map (enc []) (dpaths [])).
    assert (G : forall d2 d1, d = d1 ++ d2 ->
              fold_left (fun acc kv => dor fkey_eqb acc (parse_kv [] (fst kv) (snd kv))) d2 (map (enc []) (dpaths d1))
              = map (enc []) (dpaths (d1 ++ d2))).
    { induction d2 as [|[ck cv] d2 IHd2]; intros d1 E; [rewrite app_nil_r; reflexivity|].
      cbn [fold_left fst snd].
      assert (Hin : In (ck, cv) d) by (rewrite E; apply in_elt).
      rewrite Forall_forall in Hall. specialize (Hall _ Hin). cbn [snd] in Hall.
      rewrite (parse_kv_spec cv Hall).
      rewrite dor_fresh; [| exact fkey_eqb_eq | |].
      - replace (map (enc ([] ++ [ck])) (paths cv)) with (map (enc []) (map (pre ck) (paths cv)))
          by (rewrite map_map; apply map_ext; intros; symmetry; apply enc_pre).
        rewrite <- map_app. replace (dpaths d1 ++ map (pre ck) (paths cv)) with (dpaths (d1 ++ [(ck, cv)]))
          by (rewrite dpaths_app, dpaths_cons, dpaths_nil, app_nil_r; reflexivity).
        rewrite (IHd2 (d1 ++ [(ck, cv)])); [rewrite <- app_assoc; reflexivity|].
        rewrite E, <- app_assoc. reflexivity.
      - rewrite map_map. cbn [enc fst]. rewrite <- (map_map fst (fun p => dumps (([] ++ [ck]) ++ p))).
        apply NoDup_map_inj; [|apply paths_nodup; exact Hall].
        intros x y _ _ Exy. apply dumps_inj in Exy. apply app_inv_head in Exy. exact Exy.
      - intros fk Hfk Hfk'. rewrite map_map in Hfk, Hfk'. cbn [enc fst] in Hfk, Hfk'.
        apply in_map_iff in Hfk as (px & <- & _). apply in_map_iff in Hfk' as (qx & Eq & Hq).
        apply dumps_inj in Eq. cbn [app] in Eq.
        assert (Hk : In ck (map fst d1)).
        { clear - Hq Eq. induction d1 as [|[k' v'] d1 IHd1]; [destruct Hq|].
          rewrite dpaths_cons, in_app_iff in Hq. destruct Hq as [Hq|Hq].
          - apply in_map_iff in Hq as (rx & <- & _). cbn [pre fst] in Eq. injection Eq as -> _. left; reflexivity.
          - right. apply IHd1; exact Hq. }
        rewrite E, map_app in Hnd. cbn [map fst] in Hnd.
        apply (NoDup_app_disj _ _ Hnd ck Hk). left; reflexivity. }
    apply (G d []). reflexivity.
  Qed.

  (* flatten_injective: distinct key paths get distinct flat keys (whatever the keys contain);
     consequently the flat dict has exactly one entry per leaf path and no two entries collide *)
  Theorem flatten_injective d :
    wf (Node d) ->
    (forall p q, p <> q -> dumps p <> dumps q)
    /\ flatten d = map (fun px => (dumps (fst px), snd px)) (dpaths d)
    /\ NoDup (map fst (dpaths d))
    /\ NoDup (map fst (flatten d)).
  Proof.
    intros Hwf. split; [intros p q Hpq E; apply Hpq, dumps_inj, E|].
    pose proof (paths_nodup (Node d) Hwf) as Hnd. rewrite paths_node in Hnd.
    split; [apply flatten_spec; exact Hwf|]. split; [exact Hnd|].
    rewrite (flatten_spec d Hwf), map_map. cbn [enc fst app].
    rewrite <- (map_map fst dumps). apply NoDup_map_inj; [|exact Hnd].
    intros x y _ _ E. apply dumps_inj; exact E.
  Qed.

  (* ======================================================================================== *)
  (* 5. unflatten                                                                             *)

  Fixpoint build (ps : list (list key * lf)) (d : dict) : result dict :=
    match ps with
    | [] => Ok d
    | px :: r => match insert (fst px) (snd px) d with
                 | Ok d' => build r d'
                 | Raise e => Raise e
                 end
    end.

  Lemma unflatten_fold_raise l e : fold_left (unflatten_step fkey loads) l (Raise e) = Raise e.
  Proof. induction l as [|kx l IH]; [reflexivity|exact IH]. Qed.

  Lemma unflatten_build ps d :
    fold_left (unflatten_step fkey loads) (map (enc []) ps) (Ok d) = build ps d.
  Proof.
    revert d. induction ps as [|[p x] ps IH]; intros d; [reflexivity|].
    cbn [map fold_left build fst snd]. unfold unflatten_step at 2. cbn [enc fst snd app].
    rewrite loads_dumps. destruct (insert p x d) as [d'|e]; [apply IH|apply unflatten_fold_raise].
  Qed.

  Lemma build_app ps1 ps2 d :
    build (ps1 ++ ps2) d = match build ps1 d with Ok d' => build ps2 d' | Raise e => Raise e end.
  Proof.
    revert d. induction ps1 as [|px ps1 IH]; intros d; [reflexivity|].
    cbn [app build]. destruct (insert (fst px) (snd px) d); [apply IH|reflexivity].
  Qed.

  (* inserting paths that all go through key k, whose sub-dict already exists at the end of a *)
  Lemma build_lift_existing ps : forall s a k,
    ~ In k (map fst a) -> (forall px, In px ps -> fst px <> []) ->
    build (map (pre k) ps) (a ++ [(k, Node s)])
    = match build ps s with Ok s' => Ok (a ++ [(k, Node s')]) | Raise e => Raise e end.
  Proof.
    induction ps as [|[p x] ps IH]; intros s a k Hk Hne; [reflexivity|].
    cbn [map build pre fst snd].
    assert (Hp : p <> []) by (apply (Hne (p, x)); left; reflexivity).
    destruct p as [|k2 rest]; [contradiction|].
    cbn [insert]. rewrite (dget_at key_eqb key_eqb_eq) by exact Hk.
    change (match rest with [] => Ok (dset key_eqb k2 (Leaf x) s) | _ :: _ => _ end) with (insert (k2 :: rest) x s) at 1.
    fold (insert (k2 :: rest) x s).
    destruct (insert (k2 :: rest) x s) as [s'|e] eqn:E.
    - cbn [insert] in E. rewrite E. rewrite (dset_at key_eqb key_eqb_eq) by exact Hk.
      apply IH; [exact Hk|]. intros px Hpx. apply Hne. right; exact Hpx.
    - cbn [insert] in E. rewrite E. reflexivity.
  Qed.

  Lemma build_lift_new ps : forall a k,
    ps <> [] -> ~ In k (map fst a) -> (forall px, In px ps -> fst px <> []) ->
    build (map (pre k) ps) a
    = match build ps [] with Ok s' => Ok (a ++ [(k, Node s')]) | Raise e => Raise e end.
  Proof.
    destruct ps as [|[p x] ps]; intros a k Hne0 Hk Hne; [contradiction|].
    cbn [map build pre fst snd].
    assert (Hp : p <> []) by (apply (Hne (p, x)); left; reflexivity).
    destruct p as [|k2 rest]; [contradiction|].
    cbn [insert]. rewrite (dget_none key_eqb key_eqb_eq) by exact Hk.
    fold (insert (k2 :: rest) x []).
    destruct (insert (k2 :: rest) x []) as [s'|e] eqn:E.
    - cbn [insert] in E. rewrite E. rewrite (dset_fresh key_eqb key_eqb_eq) by exact Hk.
      apply build_lift_existing; [exact Hk|]. intros px Hpx. apply Hne. right; exact Hpx.
    - cbn [insert] in E. rewrite E. reflexivity.
  Qed.

  Lemma dpaths_nonempty d px : In px (dpaths d) -> fst px <> [].
  Proof.
    induction d as [|[k v] d IH]; intros H; [destruct H|].
    rewrite dpaths_cons, in_app_iff in H. destruct H as [H|H]; [|apply IH; exact H].
    apply in_map_iff in H as (qx & <- & _). cbn. discriminate.
  Qed.

  Lemma prune_dict_keys d k : In k (map fst (prune_dict d)) -> In k (map fst d).
  Proof.
    induction d as [|[k' v] d IH]; [intros []|].
    rewrite prune_dict_cons. destruct (has_leaf v); cbn [map fst In]; intros H.
    - destruct H as [->|H]; [left; reflexivity|right; apply IH; exact H].
    - right; apply IH; exact H.
  Qed.

  (* inserting the leaf paths of d, in depth-first order, into a dict with other keys appends prune d *)
  Lemma build_dpaths t : forall d, t = Node d -> wf t ->
    forall a, (forall k, In k (map fst d) -> ~ In k (map fst a)) -> build (dpaths d) a = Ok (a ++ prune_dict d).
  Proof.
    induction t as [x|d0 IH] using tree_ind'; intros d E Hwf; [discriminate|].
    injection E as ->. inversion Hwf as [|? Hnd Hall]; subst. clear Hwf.
    induction d as [|[k v] d IHd]; intros a Hfr; [cbn; rewrite app_nil_r; reflexivity|].
    inversion IH as [|? ? IHv IHrest]; subst. inversion Hall as [|? ? Hwv Hwrest]; subst.
    cbn [map fst] in Hnd. inversion Hnd as [|? ? Hk Hnd']; subst. cbn [snd] in *.
    specialize (IHd IHrest Hnd' Hwrest).
    assert (Hka : ~ In k (map fst a)) by (apply Hfr; left; reflexivity).
    rewrite dpaths_cons, build_app, prune_dict_cons.
    assert (Hnext : forall v', build (dpaths d) (a ++ [(k, v')]) = Ok (a ++ (k, v') :: prune_dict d)).
    { intros v'. rewrite IHd; [rewrite <- app_assoc; reflexivity|].
      intros k' Hk'. rewrite map_app, in_app_iff. cbn [map fst In]. intros [Hin|[->|[]]].
      - apply (Hfr k'); [right; exact Hk'|exact Hin].
      - contradiction. }
    destruct v as [x|s].
    - cbn [paths map pre fst snd build insert has_leaf prune].
      rewrite (dset_fresh key_eqb key_eqb_eq) by exact Hka. apply Hnext.
    - destruct (has_leaf (Node s)) eqn:Hl.
      + rewrite build_lift_new; [| |exact Hka|].
        * rewrite paths_node. rewrite (IHv s eq_refl Hwv []) by (intros ? _ []).
          cbn [app]. rewrite prune_node. apply Hnext.
        * intros Hnil. apply has_leaf_paths in Hnil. congruence.
        * rewrite paths_node. intros px. apply dpaths_nonempty.
      + apply has_leaf_paths in Hl. rewrite Hl. cbn [map build]. apply IHd.
        intros k' Hk'. apply Hfr. right; exact Hk'.
  Qed.

  (* unflatten (flatten d) = prune d, as ordered dicts with the original key constructors *)
  Theorem unflatten_flatten d : wf (Node d) -> unflatten (flatten d) = Ok (prune_dict d).
  Proof.
    intros Hwf. rewrite (flatten_spec d Hwf). unfold StateDict.unflatten. rewrite unflatten_build.
    rewrite (build_dpaths (Node d) d eq_refl Hwf []) by (intros ? _ []). reflexivity.
  Qed.

  Theorem unflatten_flatten_id d : wf (Node d) -> full (Node d) -> unflatten (flatten d) = Ok d.
  Proof.
    intros Hwf Hfull. rewrite (unflatten_flatten d Hwf).
    pose proof (full_prune (Node d) Hfull) as E. rewrite prune_node in E. congruence.
  Qed.

  (* leafless_dropped: a sub-dict without a leaf is absent from the flat dict and from the round trip *)
  Theorem leafless_dropped d1 k s d2 :
    has_leaf (Node s) = false ->
    flatten (d1 ++ (k, Node s) :: d2) = flatten (d1 ++ d2)
    /\ (wf (Node (d1 ++ (k, Node s) :: d2)) ->
        exists d', unflatten (flatten (d1 ++ (k, Node s) :: d2)) = Ok d' /\ dget key_eqb k d' = None).
  Proof.
    intros Hl. split; [apply flatten_drop_leafless; exact Hl|].
    intros Hwf. eexists. split; [apply unflatten_flatten; exact Hwf|].
    apply (dget_none key_eqb key_eqb_eq). intros Hin.
    inversion Hwf as [|? Hnd _]; subst. rewrite map_app in Hnd. cbn [map fst] in Hnd.
    assert (Hp : forall a b, prune_dict (a ++ b) = prune_dict a ++ prune_dict b).
    { induction a as [|[k' v'] a IHa]; intros b; [reflexivity|]. cbn [app]. rewrite !prune_dict_cons, IHa.
      destruct (has_leaf v'); reflexivity. }
    rewrite Hp, prune_dict_cons, Hl, map_app, in_app_iff in Hin.
    destruct Hin as [Hin|Hin]; apply prune_dict_keys in Hin.
    - apply (NoDup_app_disj _ _ Hnd k Hin). left; reflexivity.
    - apply NoDup_app_r in Hnd. inversion Hnd; subst. contradiction.
  Qed.
End FlattenFacts.

(* ========================================================================================== *)
(* 6. the string codec satisfies the JSON contract (non-vacuity of the Section hypotheses)      *)

Lemma rd_str_esc s rest : rd_str (esc s ++ String bar rest) = Some (s, rest).
Proof.
  induction s as [|c s IH]; [cbn; reflexivity|].
  cbn [esc]. destruct (Ascii.eqb c bar || Ascii.eqb c bsl)%bool eqn:E.
  - cbn [append rd_str]. change (Ascii.eqb bsl bar) with false. change (Ascii.eqb bsl bsl) with true.
    cbn iota. rewrite IH. reflexivity.
  - apply orb_false_iff in E as [E1 E2]. cbn [append rd_str]. rewrite E1, E2, IH. reflexivity.
Qed.

Lemma rd_bits_bits p rest : rd_bits (bits p ++ String bar rest) = Some (p, rest).
Proof.
  induction p as [p IH|p IH|]; cbn [bits append rd_bits].
  - change (Ascii.eqb "1" bar) with false. change (Ascii.eqb "1" "0") with false. change (Ascii.eqb "1" "1") with true.
    cbn iota. rewrite IH. reflexivity.
  - change (Ascii.eqb "0" bar) with false. change (Ascii.eqb "0" "0") with true. cbn iota. rewrite IH. reflexivity.
  - rewrite Ascii.eqb_refl. reflexivity.
Qed.

Lemma append_assoc' a b c : ((a ++ b) ++ c)%string = (a ++ (b ++ c))%string.
Proof. induction a as [|x a IH]; [reflexivity|]. cbn [append]. rewrite IH. reflexivity. Qed.

Lemma rd_key_enc k rest : rd_key (enc_key k ++ rest) = Some (k, rest).
Proof.
  destruct k as [s|[|p|p]]; cbn [enc_key append rd_key].
  - change (Ascii.eqb "s" "s") with true. cbn iota. rewrite append_assoc'. cbn [append]. rewrite rd_str_esc. reflexivity.
  - change (Ascii.eqb "z" "s") with false. change (Ascii.eqb "z" "z") with true. cbn iota.
    rewrite Ascii.eqb_refl. reflexivity.
  - change (Ascii.eqb "p" "s") with false. change (Ascii.eqb "p" "z") with false. change (Ascii.eqb "p" "p") with true.
    cbn iota. rewrite append_assoc'. cbn [append]. rewrite rd_bits_bits. reflexivity.
  - change (Ascii.eqb "n" "s") with false. change (Ascii.eqb "n" "z") with false. change (Ascii.eqb "n" "p") with false.
    change (Ascii.eqb "n" "n") with true. cbn iota. rewrite append_assoc'. cbn [append]. rewrite rd_bits_bits. reflexivity.
Qed.

Lemma enc_key_cons k : exists c r, enc_key k = String c r.
Proof. destruct k as [s|[|p|p]]; cbn [enc_key]; eauto. Qed.

Lemma rd_keys_dumps p : forall fuel, (List.length p <= fuel)%nat -> rd_keys fuel (s_dumps p) = Some p.
Proof.
  induction p as [|k p IH]; intros fuel H; [destruct fuel; reflexivity|].
  cbn [s_dumps]. destruct (enc_key_cons k) as (c & r & E).
  destruct fuel as [|f]; [cbn in H; lia|].
  assert (Hs : rd_keys (S f) (enc_key k ++ s_dumps p)
               = match rd_key (enc_key k ++ s_dumps p) with
                 | Some (k', rest) => match rd_keys f rest with Some l => Some (k' :: l) | None => None end
                 | None => None end).
  { rewrite E. reflexivity. }
  rewrite Hs, rd_key_enc, IH by (cbn in H; lia). reflexivity.
Qed.

Lemma length_append' a b : String.length (a ++ b) = (String.length a + String.length b)%nat.
Proof. induction a as [|x a IH]; [reflexivity|]. cbn [append String.length]. rewrite IH. reflexivity. Qed.

Lemma s_dumps_length p : (List.length p <= String.length (s_dumps p))%nat.
Proof.
  induction p as [|k p IH]; [cbn; lia|].
  cbn [s_dumps List.length]. rewrite length_append'. destruct (enc_key_cons k) as (c & r & ->). cbn [String.length]. lia.
Qed.

Theorem s_loads_dumps p : s_loads (s_dumps p) = Some p.
Proof. apply rd_keys_dumps, s_dumps_length. Qed.

Lemma string_eqb_eq' (a b : string) : String.eqb a b = true <-> a = b.
Proof. apply String.eqb_eq. Qed.

Lemma path_eqb_eq p q : path_eqb p q = true <-> p = q.
Proof.
  unfold path_eqb. revert q. induction p as [|a p IH]; destruct q as [|b q]; cbn [list_eqb]; split; intros H; try discriminate; try reflexivity.
  - apply andb_true_iff in H as [H1 H2]. apply key_eqb_eq in H1. apply IH in H2. congruence.
  - injection H as -> ->. rewrite key_eqb_refl. apply IH. reflexivity.
Qed.

Lemma xkey_eqb_eq a b : xkey_eqb a b = true <-> a = b.
Proof.
  destruct a as [p|], b as [q|]; cbn [xkey_eqb]; split; intros H; try discriminate; try reflexivity.
  - apply path_eqb_eq in H. congruence.
  - injection H as ->. apply path_eqb_eq. reflexivity.
Qed.

Lemma x_loads_dumps p : x_loads (x_dumps p) = Some p.
Proof. reflexivity. Qed.
