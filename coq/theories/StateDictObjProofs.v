(* C16 - theorems about the OptimizerModule part of the model: state_dict, load_state_dict,
   update_param_state_dict_object (restore). *)
From Coq Require Import List ZArith Bool String Arith Lia.
From Shampoo Require Import StateDict StateDictProofs.
Import ListNotations.

(* ========================================================================================== *)
(* 1. a uniform view of the three container kinds                                               *)

Fixpoint enum {A} (l : list A) (n : Z) : list (Z * A) :=
  match l with
  | [] => []
  | a :: r => (n, a) :: enum r (n + 1)
  end.

Definition mapk {K A} (kf : K -> key) (l : list (K * A)) : list (key * A) :=
  map (fun x => (kf (fst x), snd x)) l.

(* (key, value) pairs of a container in iteration order; attribute names are str keys, list/tuple
   positions are int keys *)
Definition children (o : obj) : option (list (key * obj)) :=
  match o with
  | OModule fs => Some (mapk KStr fs)
  | ODict items => Some items
  | OSeq _ l => Some (mapk KInt (enum l 0))
  | OTensor _ | OOther _ _ => None
  end.

Definition tag (o : obj) : nat :=
  match o with
  | OTensor _ => 0 | OModule _ => 1 | ODict _ => 2 | OSeq SList _ => 3 | OSeq STuple _ => 4 | OOther _ _ => 5
  end.

Section ObjInd.
  Variable P : obj -> Prop.
  Hypothesis HT : forall i, P (OTensor i).
  Hypothesis HO : forall ty v, P (OOther ty v).
  Hypothesis HM : forall fs, Forall (fun x => P (snd x)) fs -> P (OModule fs).
  Hypothesis HD : forall items, Forall (fun x => P (snd x)) items -> P (ODict items).
  Hypothesis HS : forall k l, Forall P l -> P (OSeq k l).

  Fixpoint obj_ind' (o : obj) : P o :=
    match o with
    | OTensor i => HT i
    | OOther ty v => HO ty v
    | OModule fs =>
        HM fs ((fix go (l : list (string * obj)) : Forall (fun x => P (snd x)) l :=
                  match l with [] => Forall_nil _ | (k, v) :: r => Forall_cons (k, v) (obj_ind' v) (go r) end) fs)
    | ODict items =>
        HD items ((fix go (l : list (key * obj)) : Forall (fun x => P (snd x)) l :=
                     match l with [] => Forall_nil _ | (k, v) :: r => Forall_cons (k, v) (obj_ind' v) (go r) end) items)
    | OSeq k l =>
        HS k l ((fix go (l : list obj) : Forall P l :=
                   match l with [] => Forall_nil _ | v :: r => Forall_cons v (obj_ind' v) (go r) end) l)
    end.
End ObjInd.

Lemma Forall_mapk {K} (kf : K -> key) (P : obj -> Prop) (l : list (K * obj)) :
  Forall (fun x => P (snd x)) l -> Forall (fun x => P (snd x)) (mapk kf l).
Proof. induction 1; cbn; constructor; auto. Qed.

Lemma Forall_enum (P : obj -> Prop) l : forall n, Forall P l -> Forall (fun x => P (snd x)) (enum l n).
Proof. induction l; intros n H; cbn; inversion H; subst; constructor; auto. Qed.

(* induction with one container case *)
Lemma obj_ind_c (P : obj -> Prop) :
  (forall i, P (OTensor i)) -> (forall ty v, P (OOther ty v)) ->
  (forall o cs, children o = Some cs -> Forall (fun x => P (snd x)) cs -> P o) ->
  forall o, P o.
Proof.
  intros HT HO HC. induction o using obj_ind'; auto.
  - eapply HC; [reflexivity|]. apply Forall_mapk; assumption.
  - eapply HC; [reflexivity|]. assumption.
  - eapply HC; [reflexivity|]. apply Forall_mapk, Forall_enum; assumption.
Qed.

(* ---- the model's functions through the view ---- *)

Lemma save_items_mapk {K} (kf : K -> key) (f : obj -> option tree) (l : list (K * obj)) :
  save_items kf f l = save_items (fun k => k) f (mapk kf l).
Proof.
  induction l as [|[k a] l IH]; [reflexivity|]. cbn [save_items mapk map fst snd].
  destruct (f a); rewrite IH; reflexivity.
Qed.

Lemma save_seq_enum (f : obj -> option tree) l : forall n,
  save_seq f l n = save_items (fun k => k) f (mapk KInt (enum l n)).
Proof.
  induction l as [|a l IH]; intros n; [reflexivity|]. cbn [save_seq enum mapk map save_items fst snd].
  destruct (f a); rewrite IH; reflexivity.
Qed.

Lemma sd_children b o cs : children o = Some cs -> sd b o = Some (Node (save_items (fun k => k) (sd b) cs)).
Proof.
  destruct o; cbn [children sd]; intros E; try discriminate; injection E as <-.
  - rewrite save_items_mapk. reflexivity.
  - reflexivity.
  - rewrite save_seq_enum. reflexivity.
Qed.

Lemma sd_none b o : sd b o = None -> b = false /\ exists ty v, o = OOther ty v.
Proof. destruct o; cbn [sd]; try discriminate. destruct b; [discriminate|]. eauto. Qed.

Definition tens_l (cs : list (key * obj)) : list (list key * nat) :=
  flat_map (fun x => map (prek (fst x)) (tensors (snd x))) cs.

Lemma flat_map_mapk {K B} (kf : K -> key) (g : key * obj -> list B) (l : list (K * obj)) :
  flat_map g (mapk kf l) = flat_map (fun x => g (kf (fst x), snd x)) l.
Proof. induction l as [|x l IH]; [reflexivity|]. cbn [mapk map flat_map]. fold (mapk kf l). rewrite IH. reflexivity. Qed.

Lemma tensors_children o cs : children o = Some cs -> tensors o = tens_l cs.
Proof.
  destruct o; cbn [children]; intros E; try discriminate; injection E as <-; unfold tens_l.
  - rewrite flat_map_mapk. reflexivity.
  - reflexivity.
  - cbn [tensors]. generalize 0%Z. induction elems as [|a l IH]; intros n; [reflexivity|].
    cbn [seq_tensors enum mapk map flat_map fst snd]. fold (mapk KInt (enum l (n + 1))). rewrite IH. reflexivity.
Qed.

Definition ids_l (cs : list (key * obj)) : list nat := flat_map (fun x => ids (snd x)) cs.

Lemma ids_tens_l cs : map snd (tens_l cs) = ids_l cs.
Proof.
  unfold tens_l, ids_l. induction cs as [|[k a] cs IH]; [reflexivity|].
  cbn [flat_map fst snd]. rewrite map_app, IH. f_equal. unfold ids. rewrite map_map. reflexivity.
Qed.

Lemma ids_children o cs : children o = Some cs -> ids o = ids_l cs.
Proof. intros E. unfold ids. rewrite (tensors_children o cs E). apply ids_tens_l. Qed.

(* ========================================================================================== *)
(* 2. reachability and completeness of state_dict                                               *)

Inductive Reach : obj -> list key -> nat -> Prop :=
| reach_here i : Reach (OTensor i) [] i
| reach_attr fs n o p i : In (n, o) fs -> Reach o p i -> Reach (OModule fs) (KStr n :: p) i
| reach_item items k o p i : In (k, o) items -> Reach o p i -> Reach (ODict items) (k :: p) i
| reach_elem kd l n o p i : nth_error l n = Some o -> Reach o p i -> Reach (OSeq kd l) (KInt (Z.of_nat n) :: p) i.

Lemma in_enum {A} (l : list A) : forall n z a, In (z, a) (enum l n) <-> exists j, z = (n + Z.of_nat j)%Z /\ nth_error l j = Some a.
Proof.
  induction l as [|x l IH]; intros n z a; cbn [enum In].
  - split; [intros []|intros (j & _ & H); destruct j; discriminate].
  - split.
    + intros [E|H]; [injection E as <- <-; exists 0%nat; split; [lia|reflexivity]|].
      apply IH in H as (j & -> & Hj). exists (S j). split; [lia|exact Hj].
    + intros ([|j] & -> & Hj); [left; cbn in Hj; injection Hj as ->; f_equal; lia|].
      right. apply IH. exists j. split; [lia|exact Hj].
Qed.

Lemma in_tens_l p i cs : In (p, i) (tens_l cs) <-> exists k a q, In (k, a) cs /\ p = k :: q /\ In (q, i) (tensors a).
Proof.
  unfold tens_l. rewrite in_flat_map. split.
  - intros ([k a] & Hin & H). apply in_map_iff in H as ([q j] & E & Hq). cbn [prek fst snd] in E. injection E as <- <-.
    exists k, a, q. auto.
  - intros (k & a & q & Hin & -> & Hq). exists (k, a). split; [exact Hin|]. apply in_map_iff. exists (q, i). auto.
Qed.

Lemma reach_child o cs k a q i : children o = Some cs -> In (k, a) cs -> Reach a q i -> Reach o (k :: q) i.
Proof.
  destruct o; cbn [children]; intros E Hin Hr; try discriminate; injection E as <-.
  - apply in_map_iff in Hin as ([n o] & E & Hin). cbn [fst snd] in E. injection E as <- <-. econstructor; eassumption.
  - econstructor; eassumption.
  - apply in_map_iff in Hin as ([z o] & E & Hin). cbn [fst snd] in E. injection E as <- <-.
    apply in_enum in Hin as (j & -> & Hj). cbn [Z.add]. econstructor; eassumption.
Qed.

Theorem reach_iff o p i : Reach o p i <-> In (p, i) (tensors o).
Proof.
  split.
  - induction 1.
    + left; reflexivity.
    + rewrite (tensors_children (OModule fs) _ eq_refl). apply in_tens_l. exists (KStr n), o, p. split; [|auto].
      apply in_map_iff. exists (n, o). auto.
    + rewrite (tensors_children (ODict items) _ eq_refl). apply in_tens_l. exists k, o, p. auto.
    + rewrite (tensors_children (OSeq kd l) _ eq_refl). apply in_tens_l. exists (KInt (Z.of_nat n)), o, p. split; [|auto].
      apply in_map_iff. exists (Z.of_nat n, o). split; [reflexivity|]. apply in_enum. exists n. auto.
  - revert p. induction o as [j|ty v|o cs Hc IH] using obj_ind_c; intros p H.
    + destruct H as [E|[]]. injection E as <- <-. constructor.
    + destruct H.
    + rewrite (tensors_children o cs Hc) in H. apply in_tens_l in H as (k & a & q & Hin & -> & Hq).
      rewrite Forall_forall in IH. eapply reach_child; eauto. apply (IH (k, a) Hin). exact Hq.
Qed.

Lemma tensor_paths_node d :
  tensor_paths (Node d) = flat_map (fun kv => map (prek (fst kv)) (tensor_paths (snd kv))) d.
Proof.
  unfold tensor_paths. rewrite paths_node.
  induction d as [|[k v] d IH]; [reflexivity|].
  rewrite dpaths_cons, flat_map_app. cbn [flat_map fst snd]. fold (dpaths d). rewrite IH. f_equal.
  induction (paths v) as [|[p x] l IHl]; [reflexivity|].
  cbn [map flat_map pre fst snd]. rewrite map_app, IHl. destruct x; reflexivity.
Qed.

(* the tensor leaves of the saved form are exactly the reachable tensors, with their paths, in order *)
Lemma tensor_paths_sd b o : forall t, sd b o = Some t -> tensor_paths t = tensors o.
Proof.
  induction o as [j|ty v|o cs Hc IH] using obj_ind_c; intros t H.
  - injection H as <-. reflexivity.
  - cbn [sd] in H. destruct b; [injection H as <-; reflexivity|discriminate].
  - rewrite (sd_children b o cs Hc) in H. injection H as <-.
    rewrite (tensors_children o cs Hc), tensor_paths_node. unfold tens_l. clear Hc.
    induction cs as [|[k a] cs IHc]; [reflexivity|].
    inversion IH as [|? ? Ha Hr]; subst. cbn [snd] in Ha.
    cbn [save_items flat_map fst snd]. destruct (sd b a) as [t|] eqn:E.
    + cbn [flat_map fst snd]. rewrite (Ha t eq_refl), (IHc Hr). reflexivity.
    + apply sd_none in E as (_ & ty & v & ->). cbn [tensors map app]. apply IHc; exact Hr.
Qed.

Theorem module_state_dict_complete b m cs :
  children m = Some cs ->
  tensor_paths (state_dict b m) = tensors m
  /\ forall p i, In (p, LT i) (paths (state_dict b m)) <-> Reach m p i.
Proof.
  intros Hc. unfold state_dict. rewrite (sd_children b m cs Hc).
  pose proof (tensor_paths_sd b m _ (sd_children b m cs Hc)) as E. split; [exact E|].
  intros p i. rewrite reach_iff, <- E. unfold tensor_paths. rewrite in_flat_map. split.
  - intros H. exists (p, LT i). split; [exact H|left; reflexivity].
  - intros ([q x] & Hin & H). destruct x; cbn [fst snd] in H; [|destruct H].
    destruct H as [H|[]]. injection H as -> ->. exact Hin.
Qed.

(* with store_non_tensors = False every leaf of the saved form is a tensor *)
Lemma paths_sd_false o : forall t, sd false o = Some t -> paths t = map (fun pi => (fst pi, LT (snd pi))) (tensors o).
Proof.
  induction o as [j|ty v|o cs Hc IH] using obj_ind_c; intros t H.
  - injection H as <-. reflexivity.
  - discriminate.
  - rewrite (sd_children false o cs Hc) in H. injection H as <-.
    rewrite (tensors_children o cs Hc), paths_node. unfold tens_l. clear Hc.
    induction cs as [|[k a] cs IHc]; [reflexivity|].
    inversion IH as [|? ? Ha Hr]; subst. cbn [snd] in Ha.
    cbn [save_items flat_map fst snd]. destruct (sd false a) as [t|] eqn:E.
    + rewrite dpaths_cons, (Ha t eq_refl), (IHc Hr), map_app, !map_map. reflexivity.
    + apply sd_none in E as (_ & ty & v & ->). cbn [tensors map app]. apply IHc; exact Hr.
Qed.

Lemma has_leaf_sd_false o t : sd false o = Some t -> (has_leaf t = false <-> ids o = []).
Proof.
  intros H. rewrite has_leaf_paths, (paths_sd_false o t H). unfold ids.
  destruct (tensors o); cbn; split; congruence.
Qed.

Lemma leafless_no_ids b o t : sd b o = Some t -> has_leaf t = false -> ids o = [].
Proof.
  intros H Hl. unfold ids. rewrite <- (tensor_paths_sd b o t H).
  apply has_leaf_paths in Hl. unfold tensor_paths. rewrite Hl. reflexivity.
Qed.

(* ========================================================================================== *)
(* 3. structural equality, well-formedness, thinning                                            *)

(* same container kinds, same keys in the same order, tensors of equal size (sz), any non-tensor values *)
Inductive same (sz : nat -> nat) : obj -> obj -> Prop :=
| same_t i j : sz i = sz j -> same sz (OTensor i) (OTensor j)
| same_o ty v ty' v' : same sz (OOther ty v) (OOther ty' v')
| same_c o o' cs cs' :
    tag o = tag o' -> children o = Some cs -> children o' = Some cs' ->
    Forall2 (fun a a' => fst a = fst a' /\ same sz (snd a) (snd a')) cs cs' ->
    same sz o o'.

Inductive wf_obj : obj -> Prop :=
| wfo_t i : wf_obj (OTensor i)
| wfo_o ty v : wf_obj (OOther ty v)
| wfo_c o cs : children o = Some cs -> NoDup (map fst cs) -> Forall (fun x => wf_obj (snd x)) cs -> wf_obj o.

(* d is d0 with some leafless entries removed, recursively *)
Inductive sub_dict (R : tree -> tree -> Prop) : dict -> dict -> Prop :=
| sdn : sub_dict R [] []
| sdk k t t0 d d0 : R t t0 -> sub_dict R d d0 -> sub_dict R ((k, t) :: d) ((k, t0) :: d0)
| sdd k t0 d d0 : has_leaf t0 = false -> sub_dict R d d0 -> sub_dict R d ((k, t0) :: d0).

Inductive thin : tree -> tree -> Prop :=
| thin_leaf x : thin (Leaf x) (Leaf x)
| thin_node d d0 : sub_dict thin d d0 -> thin (Node d) (Node d0).

Lemma thin_refl t : thin t t.
Proof.
  induction t as [x|d IH] using tree_ind'; constructor.
  induction d as [|[k v] d IHd]; [constructor|]. inversion IH; subst. constructor; auto.
Qed.

Lemma thin_prune t : thin (prune t) t.
Proof.
  induction t as [x|d IH] using tree_ind'; [constructor|]. rewrite prune_node. constructor.
  induction d as [|[k v] d IHd]; [constructor|]. inversion IH; subst. rewrite prune_dict_cons.
  destruct (has_leaf v) eqn:E; [apply sdk|apply sdd]; auto.
Qed.

Lemma sub_dict_keys R d d0 : sub_dict R d d0 -> forall k, In k (map fst d) -> In k (map fst d0).
Proof. induction 1; cbn [map fst In]; intros k' H'; auto. destruct H' as [->|H']; auto. Qed.

Lemma sub_dict_lookup R d d0 :
  sub_dict R d d0 -> NoDup (map fst d0) -> forall k t0, In (k, t0) d0 ->
  (exists t, dget key_eqb k d = Some t /\ R t t0) \/ (dget key_eqb k d = None /\ has_leaf t0 = false).
Proof.
  induction 1 as [|k1 t t1 d d0 HR Hs IH|k1 t1 d d0 Hl Hs IH]; intros Hnd k t0 Hin; [destruct Hin| |];
    cbn [map fst] in Hnd; inversion Hnd as [|? ? Hk1 Hnd']; subst.
  - destruct Hin as [E|Hin].
    + injection E as <- <-. left. exists t. cbn [dget]. rewrite key_eqb_refl. auto.
    + cbn [dget]. rewrite key_eqb_neq; [apply IH; assumption|].
      intros ->. apply Hk1. apply in_map_iff. exists (k1, t0). auto.
  - destruct Hin as [E|Hin]; [|apply IH; assumption].
    injection E as <- <-. right. split; [|exact Hl].
    apply (dget_none key_eqb key_eqb_eq). intros Hin. apply Hk1. eapply sub_dict_keys; eassumption.
Qed.

(* ---- keys of a saved dict ---- *)

Lemma save_items_in f (cs : list (key * obj)) k t :
  In (k, t) (save_items (fun k => k) f cs) <-> exists a, In (k, a) cs /\ f a = Some t.
Proof.
  induction cs as [|[k' a'] cs IH]; cbn [save_items In]; [split; [intros []|intros (? & [] & _)]|].
  destruct (f a') as [t'|] eqn:E; cbn [In]; rewrite IH; split.
  - intros [H|(a & Hin & Ha)]; [injection H as <- <-; exists a'; auto|exists a; auto].
  - intros (a & [H|Hin] & Ha); [injection H as <- <-; left; congruence|right; exists a; auto].
  - intros (a & Hin & Ha). exists a; auto.
  - intros (a & [H|Hin] & Ha); [injection H as <- <-; congruence|exists a; auto].
Qed.

Lemma save_items_nodup f (cs : list (key * obj)) :
  NoDup (map fst cs) -> NoDup (map fst (save_items (fun k => k) f cs)).
Proof.
  induction cs as [|[k a] cs IH]; cbn [save_items map fst]; intros H; [constructor|].
  inversion H; subst. destruct (f a); [|auto]. cbn [map fst]. constructor; [|auto].
  intros Hin. apply in_map_iff in Hin as ([k' t'] & E & Hin). cbn [fst] in E. subst k'.
  apply save_items_in in Hin as (a2 & Hin & _). apply H2. apply in_map_iff. exists (k, a2). auto.
Qed.

Lemma nodup_fst_inj {A B} (l : list (A * B)) k a a' : NoDup (map fst l) -> In (k, a) l -> In (k, a') l -> a = a'.
Proof.
  induction l as [|[k0 a0] l IH]; cbn [map fst In]; intros Hnd H1 H2; [destruct H1|].
  inversion Hnd; subst.
  assert (Hno : forall b, ~ In (k0, b) l) by (intros b Hb; apply H3; apply in_map_iff; exists (k0, b); auto).
  destruct H1 as [E1|H1], H2 as [E2|H2]; try congruence.
  - injection E1 as -> ->. exfalso; eapply Hno; eassumption.
  - injection E2 as -> ->. exfalso; eapply Hno; eassumption.
  - auto.
Qed.

(* what a lookup in a thinned saved dict returns for a child of the saved object *)
Lemma lookup_facts (f : obj -> option tree) (cs' : list (key * obj)) d :
  NoDup (map fst cs') -> sub_dict thin d (save_items (fun k => k) f cs') ->
  forall k a', In (k, a') cs' ->
    (f a' = None -> dget key_eqb k d = None)
    /\ (forall t0, f a' = Some t0 ->
          (exists t, dget key_eqb k d = Some t /\ thin t t0) \/ (dget key_eqb k d = None /\ has_leaf t0 = false)).
Proof.
  intros Hnd Hs k a' Hin. split.
  - intros Hn. apply (dget_none key_eqb key_eqb_eq). intros Hk.
    apply (sub_dict_keys _ _ _ Hs) in Hk. apply in_map_iff in Hk as ([k' t'] & E & Hk). cbn [fst] in E. subst k'.
    apply save_items_in in Hk as (a2 & Hin2 & Ha2). rewrite (nodup_fst_inj _ _ _ _ Hnd Hin Hin2) in Hn. congruence.
  - intros t0 Ht0. eapply sub_dict_lookup; [exact Hs|apply save_items_nodup; exact Hnd|].
    apply save_items_in. exists a'. auto.
Qed.

Lemma same_ids_len sz o : forall o', same sz o o' -> List.length (ids o) = List.length (ids o').
Proof.
  induction o as [j|ty v|o cs Hc IH] using obj_ind_c; intros o' H; inversion H; subst; try reflexivity; try discriminate.
  rewrite Hc in H1. injection H1 as <-.
  rewrite (ids_children o cs Hc), (ids_children o' cs' H2). unfold ids_l.
  clear - IH H3. induction H3 as [|[k a] [k' a'] cs cs' [_ Ha] _ IHf]; [reflexivity|].
  inversion IH; subst. cbn [flat_map snd] in *. rewrite !app_length. f_equal; auto.
Qed.

Lemma same_ids_nil sz o o' : same sz o o' -> ids o' = [] -> ids o = [].
Proof. intros H E. apply same_ids_len in H. rewrite E in H. destruct (ids o); [reflexivity|discriminate]. Qed.

Lemma same_ids_nil' sz o o' : same sz o o' -> ids o = [] -> ids o' = [].
Proof. intros H E. apply same_ids_len in H. rewrite E in H. destruct (ids o'); [reflexivity|discriminate]. Qed.

(* ========================================================================================== *)
(* 4. load through the view                                                                     *)

Section LoadG.
  Variable ld : obj -> tree -> heap -> result (obj * heap).
  Variable need : obj -> bool.
  Variable nd : dict.
  Fixpoint load_g (l : list (key * obj)) (h : heap) : result (list (key * obj) * heap) :=
    match l with
    | [] => Ok ([], h)
    | (k, a) :: r =>
        match (if need a then dget key_eqb k nd else None) with
        | Some t =>
            match ld a t h with
            | Ok (a', h1) =>
                match load_g r h1 with
                | Ok (r', h2) => Ok ((k, a') :: r', h2)
                | Raise e => Raise e
                end
            | Raise e => Raise e
            end
        | None =>
            match load_g r h with
            | Ok (r', h2) => Ok ((k, a) :: r', h2)
            | Raise e => Raise e
            end
        end
    end.
End LoadG.

Lemma load_items_g {K} (kf : K -> key) ld nd (l : list (K * obj)) : forall h,
  load_g ld (fun _ => true) nd (mapk kf l) h
  = match load_items kf ld nd l h with Ok (r, h') => Ok (mapk kf r, h') | Raise e => Raise e end.
Proof.
  induction l as [|[k a] l IH]; intros h; [reflexivity|].
  cbn [mapk map load_g load_items fst snd]. fold (mapk kf l).
  destruct (dget key_eqb (kf k) nd) as [t|].
  - destruct (ld a t h) as [[a' h1]|e]; [|reflexivity]. rewrite IH.
    destruct (load_items kf ld nd l h1) as [[r' h2]|e]; reflexivity.
  - rewrite IH. destruct (load_items kf ld nd l h) as [[r' h2]|e]; reflexivity.
Qed.

Lemma load_seq_g ld b nd l : forall n h,
  load_g ld (fun a => b || needs_load a)%bool nd (mapk KInt (enum l n)) h
  = match load_seq ld b (Node nd) l n h with Ok (r, h') => Ok (mapk KInt (enum r n), h') | Raise e => Raise e end.
Proof.
  induction l as [|a l IH]; intros n h; [reflexivity|].
  cbn [enum mapk map load_g load_seq fst snd seq_lookup]. fold (mapk KInt (enum l (n + 1))).
  destruct (b || needs_load a)%bool.
  - destruct (dget key_eqb (KInt n) nd) as [t|].
    + destruct (ld a t h) as [[a' h1]|e]; [|reflexivity]. rewrite IH.
      destruct (load_seq ld b (Node nd) l (n + 1) h1) as [[r' h2]|e]; reflexivity.
    + rewrite IH. destruct (load_seq ld b (Node nd) l (n + 1) h) as [[r' h2]|e]; reflexivity.
  - rewrite IH. destruct (load_seq ld b (Node nd) l (n + 1) h) as [[r' h2]|e]; reflexivity.
Qed.

Definition need_of (b : bool) (o : obj) : obj -> bool :=
  match o with OSeq _ _ => fun a => (b || needs_load a)%bool | _ => fun _ => true end.

Definition key_str (k : key) : string := match k with KStr s => s | KInt _ => EmptyString end.

Definition rebuild (o : obj) (cs : list (key * obj)) : obj :=
  match o with
  | OModule _ => OModule (map (fun x => (key_str (fst x), snd x)) cs)
  | ODict _ => ODict cs
  | OSeq k _ => OSeq k (map snd cs)
  | _ => o
  end.

Lemma mapk_str_back (fs : list (string * obj)) : map (fun x => (key_str (fst x), snd x)) (mapk KStr fs) = fs.
Proof. induction fs as [|[n a] fs IH]; [reflexivity|]. cbn [mapk map fst snd key_str]. fold (mapk KStr fs). rewrite IH. reflexivity. Qed.

Lemma enum_snd_back (l : list obj) n : map snd (mapk KInt (enum l n)) = l.
Proof. revert n. induction l as [|a l IH]; intros n; [reflexivity|]. cbn [enum mapk map snd]. fold (mapk KInt (enum l (n + 1))). rewrite IH. reflexivity. Qed.

Lemma load_children b o cs : children o = Some cs -> forall nd h,
  load b o (Node nd) h
  = match load_g (load b) (need_of b o) nd cs h with Ok (cs', h') => Ok (rebuild o cs', h') | Raise e => Raise e end.
Proof.
  destruct o; cbn [children]; intros E nd h; try discriminate; injection E as <-; cbn [load need_of].
  - rewrite load_items_g. destruct (load_items KStr (load b) nd fields h) as [[r h']|e]; [|reflexivity].
    cbn [rebuild]. rewrite mapk_str_back. reflexivity.
  - replace items with (mapk (fun k : key => k) items) at 2
      by (unfold mapk; rewrite <- (map_id items) at 2; apply map_ext; intros [? ?]; reflexivity).
    rewrite load_items_g. destruct (load_items (fun k => k) (load b) nd items h) as [[r h']|e]; [|reflexivity].
    cbn [rebuild]. f_equal. f_equal. f_equal. unfold mapk. rewrite <- (map_id r) at 1. apply map_ext. intros [? ?]; reflexivity.
  - rewrite load_seq_g. destruct (load_seq (load b) b (Node nd) elems 0 h) as [[r h']|e]; [|reflexivity].
    cbn [rebuild]. rewrite enum_snd_back. reflexivity.
Qed.

Lemma rebuild_id o cs : children o = Some cs -> rebuild o cs = o.
Proof.
  destruct o; cbn [children]; intros E; try discriminate; injection E as <-; cbn [rebuild].
  - rewrite mapk_str_back. reflexivity.
  - reflexivity.
  - rewrite enum_snd_back. reflexivity.
Qed.

Lemma mapk_str_fix (cs' : list (key * obj)) : forall fs : list (string * obj),
  map fst cs' = map fst (mapk KStr fs) -> mapk KStr (map (fun x => (key_str (fst x), snd x)) cs') = cs'.
Proof.
  induction cs' as [|[k a] cs' IH]; intros fs E; [reflexivity|].
  destruct fs as [|[n a0] fs]; [discriminate|]. cbn [mapk map fst snd] in E. injection E as -> E.
  cbn [map mapk fst snd key_str]. fold (mapk KStr (map (fun x => (key_str (fst x), snd x)) cs')).
  rewrite (IH fs); [reflexivity|exact E].
Qed.

Lemma enum_fix (cs' : list (key * obj)) : forall (l : list obj) n,
  map fst cs' = map fst (mapk KInt (enum l n)) -> mapk KInt (enum (map snd cs') n) = cs'.
Proof.
  induction cs' as [|[k a] cs' IH]; intros l n E; [reflexivity|].
  destruct l as [|a0 l]; [discriminate|]. cbn [enum mapk map fst snd] in E. injection E as -> E.
  cbn [map enum mapk fst snd]. fold (mapk KInt (enum (map snd cs') (n + 1))).
  rewrite (IH l (n + 1)%Z); [reflexivity|exact E].
Qed.

Lemma children_rebuild o cs cs' :
  children o = Some cs -> map fst cs' = map fst cs -> children (rebuild o cs') = Some cs' /\ tag (rebuild o cs') = tag o.
Proof.
  destruct o; cbn [children]; intros E Hk; try discriminate; injection E as <-; cbn [rebuild children tag].
  - rewrite (mapk_str_fix cs' fields Hk). auto.
  - auto.
  - rewrite (enum_fix cs' elems 0 Hk). auto.
Qed.

(* ========================================================================================== *)
(* 5. loading the saved form of a structurally equal object: in place                           *)

Definition sizes (h : heap) (sz : nat -> nat) : Prop := forall k, List.length (h k) = sz k.
Definition disj (l1 l2 : list nat) : Prop := forall x, In x l1 -> ~ In x l2.

(* what a successful load of m' into m establishes *)
Definition post (b : bool) (sz : nat -> nat) (m m' r : obj) (h h' : heap) : Prop :=
  tensors r = tensors m                                   (* the same tensor objects at the same places *)
  /\ same sz m r                                          (* ... in the same structure *)
  /\ (b = false -> r = m)                                 (* nothing else changes unless non-tensors are loaded *)
  /\ map h' (ids m) = map h (ids m')                      (* every tensor of m now holds the value of its counterpart *)
  /\ (forall k, ~ In k (ids m) -> h' k = h k)             (* no other tensor is written *)
  /\ sizes h' sz.

Definition Q (ld : obj -> tree -> heap -> result (obj * heap)) (sv : obj -> option tree) (b : bool) (sz : nat -> nat) (m : obj) : Prop :=
  forall m' t0 t h,
    sv m' = Some t0 -> thin t t0 -> same sz m m' -> wf_obj m' -> sizes h sz ->
    NoDup (ids m) -> disj (ids m) (ids m') ->
    exists r h', ld m t h = Ok (r, h') /\ post b sz m m' r h h'.

Lemma copy_val_same old new : List.length old = List.length new -> copy_val old new = Ok new.
Proof. intros H. unfold copy_val. rewrite H, Nat.eqb_refl. reflexivity. Qed.

Lemma same_refl_sz sz o : same sz o o.
Proof.
  induction o as [j|ty v|o cs Hc IH] using obj_ind_c; [constructor; reflexivity|constructor|].
  eapply same_c; try eassumption; [reflexivity|]. clear Hc.
  induction cs as [|[k a] cs IHc]; [constructor|]. inversion IH; subst. constructor; auto.
Qed.

Lemma map_ext_in' {A B} (f g : A -> B) l : (forall x, In x l -> f x = g x) -> map f l = map g l.
Proof. apply map_ext_in. Qed.

Lemma disj_app_l l1 l2 l : disj (l1 ++ l2) l -> disj l1 l /\ disj l2 l.
Proof. intros H; split; intros x Hx; apply H; apply in_app_iff; auto. Qed.

Lemma disj_app_r l l1 l2 : disj l (l1 ++ l2) -> disj l l1 /\ disj l l2.
Proof. intros H; split; intros x Hx Hy; apply (H x Hx); apply in_app_iff; auto. Qed.

Section Loop.
  Variable ld : obj -> tree -> heap -> result (obj * heap).
  Variable sv : obj -> option tree.
  Variable b : bool.
  Variable sz : nat -> nat.
  Variable need : obj -> bool.
  Variable nd : dict.

  (* what the loop needs to know about the saving function *)
  Hypothesis sv_none : forall a a', same sz a a' -> sv a' = None -> ids a = [] /\ ids a' = [].
  Hypothesis sv_leafless : forall a' t0, sv a' = Some t0 -> has_leaf t0 = false -> ids a' = [].
  Hypothesis need_false : forall a a', same sz a a' -> need a = false -> sv a' = None.

  Lemma load_g_ok : forall cs cs',
    Forall2 (fun a a' => fst a = fst a' /\ same sz (snd a) (snd a')) cs cs' ->
    Forall (fun x => Q ld sv b sz (snd x)) cs ->
    Forall (fun x => wf_obj (snd x)) cs' ->
    (forall k a', In (k, a') cs' ->
        (sv a' = None -> dget key_eqb k nd = None)
        /\ (forall t0, sv a' = Some t0 ->
              (exists t, dget key_eqb k nd = Some t /\ thin t t0) \/ (dget key_eqb k nd = None /\ has_leaf t0 = false))) ->
    forall h, sizes h sz -> NoDup (ids_l cs) -> disj (ids_l cs) (ids_l cs') ->
    exists r h',
      load_g ld need nd cs h = Ok (r, h')
      /\ map fst r = map fst cs
      /\ tens_l r = tens_l cs
      /\ Forall2 (fun a a' => fst a = fst a' /\ same sz (snd a) (snd a')) cs r
      /\ (b = false -> r = cs)
      /\ map h' (ids_l cs) = map h (ids_l cs')
      /\ (forall k, ~ In k (ids_l cs) -> h' k = h k)
      /\ sizes h' sz.
  Proof.
    induction 1 as [|[k a] [k' a'] cs cs' [Hk Hsame] HF2 IH]; intros HQ Hwf Hlook h Hsz Hnd Hdj.
    - exists [], h. cbn. repeat split; auto.
    - cbn [fst snd] in Hk, Hsame. subst k'.
      inversion HQ as [|? ? HQa HQr]; subst. inversion Hwf as [|? ? Hwa Hwr]; subst. cbn [snd] in HQa, Hwa.
      cbn [ids_l flat_map snd] in Hnd, Hdj. fold (ids_l cs) in Hnd, Hdj. fold (ids_l cs') in Hdj.
      pose proof (NoDup_app_l _ _ Hnd) as Hnda. pose proof (NoDup_app_r _ _ Hnd) as Hndr.
      pose proof (NoDup_app_disj _ _ Hnd) as Hdar.
      destruct (disj_app_l _ _ _ Hdj) as [Hdja Hdjr].
      destruct (disj_app_r _ _ _ Hdja) as [Hdaa Hdar'].
      destruct (disj_app_r _ _ _ Hdjr) as [Hdra Hdrr].
      (* the head element *)
      assert (Hhead : exists a1 h1,
                 load_g ld need nd ((k, a) :: cs) h
                 = match load_g ld need nd cs h1 with Ok (r', h2) => Ok ((k, a1) :: r', h2) | Raise e => Raise e end
                 /\ tensors a1 = tensors a /\ same sz a a1 /\ (b = false -> a1 = a)
                 /\ map h1 (ids a) = map h (ids a')
                 /\ (forall x, ~ In x (ids a) -> h1 x = h x) /\ sizes h1 sz).
      { destruct (Hlook k a' (or_introl eq_refl)) as [Hnone Hsome].
        assert (Hskip : ids a = [] -> ids a' = [] ->
                        (if need a then dget key_eqb k nd else None) = None ->
                        exists a1 h1,
                          load_g ld need nd ((k, a) :: cs) h
                          = match load_g ld need nd cs h1 with Ok (r', h2) => Ok ((k, a1) :: r', h2) | Raise e => Raise e end
                          /\ tensors a1 = tensors a /\ same sz a a1 /\ (b = false -> a1 = a)
                          /\ map h1 (ids a) = map h (ids a')
                          /\ (forall x, ~ In x (ids a) -> h1 x = h x) /\ sizes h1 sz).
        { intros E1 E2 E3. exists a, h. cbn [load_g]. rewrite E3, E1, E2. repeat split; auto. apply same_refl_sz. }
        destruct (sv a') as [t0|] eqn:Esv.
        - destruct (need a) eqn:En; [|rewrite (need_false a a' Hsame En) in Esv; discriminate].
          destruct (Hsome t0 eq_refl) as [(t & Hget & Hthin)|[Hget Hl]].
          + destruct (HQa a' t0 t h Esv Hthin Hsame Hwa Hsz Hnda Hdaa) as (a1 & h1 & Hld & P1 & P2 & P3 & P4 & P5 & P6).
            exists a1, h1. cbn [load_g]. rewrite En, Hget, Hld. repeat split; auto.
          + pose proof (sv_leafless a' t0 Esv Hl) as E2. apply Hskip; [eapply same_ids_nil; eassumption|exact E2|].
            exact Hget.
        - destruct (sv_none a a' Hsame Esv) as [E1 E2]. apply Hskip; auto.
          destruct (need a); [apply Hnone; reflexivity|reflexivity]. }
      destruct Hhead as (a1 & h1 & Hstep & T1 & S1 & B1 & V1 & F1 & Z1).
      destruct (IH HQr Hwr (fun k0 a0 Hin => Hlook k0 a0 (or_intror Hin)) h1 Z1 Hndr Hdrr)
        as (r & h2 & Hld & K2 & T2 & S2 & B2 & V2 & F2 & Z2).
      exists ((k, a1) :: r), h2. rewrite Hstep, Hld.
      split; [reflexivity|]. split; [cbn [map fst]; congruence|].
      split; [unfold tens_l in *; cbn [flat_map fst snd]; congruence|].
      split; [constructor; auto|].
      split; [intros Hb; rewrite (B1 Hb), (B2 Hb); reflexivity|].
      split; [|split; [|exact Z2]].
      + cbn [ids_l flat_map snd]. fold (ids_l cs) (ids_l cs'). rewrite !map_app. f_equal.
        * rewrite <- V1. apply map_ext_in'. intros x Hx. apply F2. apply Hdar. exact Hx.
        * rewrite V2. apply map_ext_in'. intros x Hx. apply F1. intros Hx'. apply (Hdar' x Hx' Hx).
      + intros x Hx. cbn [ids_l flat_map snd] in Hx. fold (ids_l cs) in Hx. rewrite in_app_iff in Hx.
        rewrite F2 by tauto. apply F1. tauto.
  Qed.
End Loop.

Lemma Forall2_same_keys sz (cs cs' : list (key * obj)) :
  Forall2 (fun a a' => fst a = fst a' /\ same sz (snd a) (snd a')) cs cs' -> map fst cs = map fst cs'.
Proof. induction 1 as [|? ? ? ? [E _]]; cbn [map]; congruence. Qed.

(* the main induction: load of (any thinning of) the saved form of m' into m *)
Lemma load_Q b sz m : Q (load b) (sd b) b sz m.
Proof.
  induction m as [i|ty v|m cs Hc IH] using obj_ind_c; intros m' t0 t h Hsd Hthin Hsame Hwf Hsz Hnd Hdj.
  - inversion Hsame as [? j Hij| |? ? ? ? ? Hc' ]; subst; [|discriminate].
    cbn [sd] in Hsd. injection Hsd as <-. inversion Hthin; subst.
    cbn [load]. rewrite copy_val_same by (rewrite !Hsz; exact Hij).
    exists (OTensor i), (hset h i (h j)). split; [reflexivity|].
    unfold post, ids. cbn [tensors map snd]. repeat split; auto.
    + apply same_refl_sz.
    + unfold hset. rewrite Nat.eqb_refl. reflexivity.
    + intros k Hk. unfold hset. destruct (Nat.eqb k i) eqn:E; [apply Nat.eqb_eq in E; subst; exfalso; apply Hk; left; reflexivity|reflexivity].
    + intros k. unfold hset. destruct (Nat.eqb k i) eqn:E; [apply Nat.eqb_eq in E; subst; rewrite Hsz; auto|apply Hsz].
  - inversion Hsame as [|? ? ty' v'|? ? ? ? ? Hc']; subst; [|discriminate].
    cbn [sd] in Hsd. destruct b; [|discriminate]. injection Hsd as <-. inversion Hthin; subst.
    cbn [load]. destruct (Nat.eqb ty ty').
    + exists (OOther ty v'), h. split; [reflexivity|]. unfold post, ids. cbn. repeat split; auto; try discriminate. constructor.
    + exists (OOther ty v), h. split; [reflexivity|]. unfold post, ids. cbn. repeat split; auto. constructor.
  - inversion Hsame as [| |? ? cs0 cs' Htag Hc0 Hc' HF2]; subst; [discriminate|discriminate|].
    rewrite Hc in Hc0. injection Hc0 as <-.
    rewrite (sd_children b m' cs' Hc') in Hsd. injection Hsd as <-.
    inversion Hthin as [|d ? Hsub]; subst.
    inversion Hwf as [| |? cs1 Hc1 Hndk Hwfc]; subst; [discriminate|discriminate|].
    rewrite Hc' in Hc1. injection Hc1 as <-.
    rewrite (load_children b m cs Hc).
    rewrite (ids_children m cs Hc) in Hnd, Hdj. rewrite (ids_children m' cs' Hc') in Hdj.
    destruct (load_g_ok (load b) (sd b) b sz (need_of b m) d) with (cs := cs) (cs' := cs') (h := h)
      as (r & h' & Hld & K & T & S & B & V & F & Z); auto.
    + intros a a' Hs E. apply sd_none in E as (_ & ty & v & ->). cbn. split; [|reflexivity].
      inversion Hs; subst; [reflexivity|discriminate].
    + intros a' t0 E Hl. eapply leafless_no_ids; eassumption.
    + intros a a' Hs En. destruct m; cbn [need_of] in En; try discriminate.
      apply orb_false_iff in En as [-> En]. destruct a; try discriminate.
      inversion Hs; subst; [reflexivity|discriminate].
    + apply lookup_facts; assumption.
    + rewrite Hld. exists (rebuild m r), h'. split; [reflexivity|].
      destruct (children_rebuild m cs r Hc K) as [Hcr Htr].
      unfold post. rewrite (tensors_children _ _ Hcr), (tensors_children _ _ Hc), (ids_children _ _ Hc), (ids_children _ _ Hc').
      repeat split; auto.
      * eapply same_c; [symmetry; exact Htr|exact Hc|exact Hcr|exact S].
      * intros Hb. rewrite (B Hb). apply rebuild_id; exact Hc.
Qed.

(* module_load_in_place (general form): loading the saved form of m' - or that form with any of its
   leafless sub-dicts removed, e.g. after flatten/unflatten - into a structurally equal m succeeds,
   keeps every tensor object of m, and leaves in each of them the value of its counterpart in m' *)
Theorem module_load_in_place_gen b sz m m' t0 t h :
  sd b m' = Some t0 -> thin t t0 -> same sz m m' -> wf_obj m' -> sizes h sz ->
  NoDup (ids m) -> disj (ids m) (ids m') ->
  exists r h', load_state_dict b m t h = Ok (r, h') /\ post b sz m m' r h h'.
Proof. apply load_Q. Qed.

(* positional reading of `map h' (ids m) = map h (ids m')` *)
Lemma same_paths sz m : forall m', same sz m m' -> map fst (tensors m) = map fst (tensors m').
Proof.
  induction m as [i|ty v|m cs Hc IH] using obj_ind_c; intros m' H; inversion H; subst; try reflexivity; try discriminate.
  rewrite Hc in H1. injection H1 as <-.
  rewrite (tensors_children m cs Hc), (tensors_children m' cs' H2). unfold tens_l.
  clear - IH H3. induction H3 as [|[k a] [k' a'] cs cs' [Hk Ha] _ IHf]; [reflexivity|].
  inversion IH; subst. cbn [fst snd] in *. subst k'. cbn [flat_map fst snd]. rewrite !map_app. f_equal; [|auto].
  rewrite !map_map. cbn [prek fst]. rewrite <- !(map_map fst (cons k)). f_equal. auto.
Qed.

Lemma tensors_paths_nodup o : wf_obj o -> NoDup (map fst (tensors o)).
Proof.
  induction o as [i|ty v|o cs Hc IH] using obj_ind_c; intros H.
  - cbn. constructor; [intros []|constructor].
  - constructor.
  - inversion H as [| |? cs1 Hc1 Hnd Hwf]; subst; try discriminate. rewrite Hc in Hc1. injection Hc1 as <-.
    rewrite (tensors_children o cs Hc). unfold tens_l. clear Hc H.
    induction cs as [|[k a] cs IHc]; [constructor|].
    inversion IH; subst. inversion Hwf; subst. cbn [map fst] in Hnd. inversion Hnd; subst. cbn [snd] in *.
    cbn [flat_map fst snd]. rewrite map_app. apply NoDup_app_intro.
    + rewrite map_map. cbn [prek fst]. rewrite <- (map_map fst (cons k)).
      apply NoDup_map_inj; [intros x y _ _ E; congruence|auto].
    + apply IHc; assumption.
    + intros p Hp Hq. rewrite map_map in Hp. apply in_map_iff in Hp as (px & <- & _). cbn [prek fst] in Hq.
      apply in_map_iff in Hq as ([q j] & E & Hq). cbn [fst] in E. subst q.
      apply in_tens_l in Hq as (k2 & a2 & q2 & Hin & E & _). injection E as <- _.
      apply H5. apply in_map_iff. exists (k, a2). auto.
Qed.

Lemma zip_lookup {A B} (l1 l2 : list (A * nat)) (f g : nat -> B) :
  map fst l1 = map fst l2 -> NoDup (map fst l1) -> map f (map snd l1) = map g (map snd l2) ->
  forall p i j, In (p, i) l1 -> In (p, j) l2 -> f i = g j.
Proof.
  revert l2. induction l1 as [|[p1 i1] l1 IH]; intros [|[p2 j2] l2] Hk Hnd Hv p i j H1 H2; try discriminate; [destruct H1|].
  cbn [map fst snd] in *. injection Hk as -> Hk. injection Hv as Hv0 Hv. inversion Hnd; subst.
  destruct H1 as [E1|H1], H2 as [E2|H2].
  - congruence.
  - injection E1 as <- <-. exfalso. apply H3. rewrite Hk. apply in_map_iff. exists (p2, j). auto.
  - injection E2 as <- <-. exfalso. apply H3. apply in_map_iff. exists (p2, i). auto.
  - eapply IH; eauto.
Qed.

(* module_load_in_place, stated with access paths *)
Theorem module_load_in_place b sz m m' t0 t h :
  sd b m' = Some t0 -> thin t t0 -> same sz m m' -> wf_obj m' -> sizes h sz ->
  NoDup (ids m) -> disj (ids m) (ids m') ->
  exists r h',
    load_state_dict b m t h = Ok (r, h')
    /\ (forall p i, Reach r p i <-> Reach m p i)
    /\ same sz m r
    /\ (b = false -> r = m)
    /\ (forall p i j, Reach m p i -> Reach m' p j -> h' i = h j)
    /\ (forall k, (forall p, ~ Reach m p k) -> h' k = h k).
Proof.
  intros Hsd Hthin Hsame Hwf Hsz Hnd Hdj.
  destruct (module_load_in_place_gen b sz m m' t0 t h Hsd Hthin Hsame Hwf Hsz Hnd Hdj) as (r & h' & Hld & T & S & B & V & F & Z).
  exists r, h'. split; [exact Hld|]. split; [intros p i; rewrite !reach_iff, T; reflexivity|].
  split; [exact S|]. split; [exact B|]. split.
  - intros p i j Hi Hj. apply reach_iff in Hi, Hj.
    eapply (zip_lookup (tensors m) (tensors m') h' h); try eassumption.
    + eapply same_paths; eassumption.
    + rewrite (same_paths sz m m' Hsame). apply tensors_paths_nodup; exact Hwf.
  - intros k Hk. apply F. intros Hin. unfold ids in Hin. apply in_map_iff in Hin as ([p i] & E & Hin). cbn [snd] in E. subst i.
    apply (Hk p). apply reach_iff. exact Hin.
Qed.

(* ========================================================================================== *)
(* 6. well-formedness of saved forms; the whole round trip through flatten/unflatten            *)

Lemma wf_sd b o : wf_obj o -> forall t, sd b o = Some t -> wf t.
Proof.
  induction o as [i|ty v|o cs Hc IH] using obj_ind_c; intros Hwf t H.
  - injection H as <-. constructor.
  - cbn [sd] in H. destruct b; [injection H as <-; constructor|discriminate].
  - rewrite (sd_children b o cs Hc) in H. injection H as <-.
    inversion Hwf as [| |? cs1 Hc1 Hnd Hall]; subst; try discriminate. rewrite Hc in Hc1. injection Hc1 as <-.
    constructor; [apply save_items_nodup; exact Hnd|].
    clear Hc Hwf Hnd. induction cs as [|[k a] cs IHc]; [constructor|].
    inversion IH; subst. inversion Hall; subst. cbn [snd save_items] in *.
    destruct (sd b a) eqn:E; [constructor; cbn [snd]; auto|auto].
Qed.

Section RoundTrip.
  Variable fkey : Type.
  Variable fkey_eqb : fkey -> fkey -> bool.
  Variable dumps : list key -> fkey.
  Variable loads : fkey -> option (list key).
  Hypothesis fkey_eqb_eq : forall a b, fkey_eqb a b = true <-> a = b.
  Hypothesis loads_dumps : forall p, loads (dumps p) = Some p.

  (* save m', flatten, unflatten, load into m: succeeds in place, whether or not m' has leafless parts *)
  Theorem module_roundtrip b sz m m' cs' h :
    children m' = Some cs' -> same sz m m' -> wf_obj m' -> sizes h sz ->
    NoDup (ids m) -> disj (ids m) (ids m') ->
    exists d0 d r h',
      state_dict b m' = Node d0
      /\ unflatten fkey loads (flatten fkey fkey_eqb dumps d0) = Ok d
      /\ load_state_dict b m (Node d) h = Ok (r, h')
      /\ post b sz m m' r h h'.
  Proof.
    intros Hc Hsame Hwf Hsz Hnd Hdj.
    pose proof (sd_children b m' cs' Hc) as Hsd.
    pose proof (wf_sd b m' Hwf _ Hsd) as Hwft.
    eexists. exists (prune_dict (save_items (fun k => k) (sd b) cs')).
    destruct (module_load_in_place_gen b sz m m' _ (prune (Node (save_items (fun k => k) (sd b) cs'))) h Hsd (thin_prune _) Hsame Hwf Hsz Hnd Hdj)
      as (r & h' & Hld & Hpost).
    exists r, h'. split; [unfold state_dict; rewrite Hsd; reflexivity|].
    split; [apply (unflatten_flatten fkey fkey_eqb dumps loads fkey_eqb_eq loads_dumps); exact Hwft|].
    split; [exact Hld|exact Hpost].
  Qed.
End RoundTrip.

(* ========================================================================================== *)
(* 7. update_param_state_dict_object (restore)                                                  *)

(* parameter states as the optimizer builds them: nested dicts whose terminal values are tensors or
   optimizer modules (modules are arbitrary object graphs) *)
Inductive pstate_ok : obj -> Prop :=
| po_t i : pstate_ok (OTensor i)
| po_m fs : pstate_ok (OModule fs)
| po_d items : Forall (fun x => pstate_ok (snd x)) items -> pstate_ok (ODict items).

Lemma extract_eq_sd v : pstate_ok v -> extract_val v = sd false v.
Proof.
  induction v as [i|ty x|o cs Hc IH] using obj_ind_c; intros H; inversion H; subst; try reflexivity.
  cbn [children] in Hc. injection Hc as <-. cbn [extract_val sd]. f_equal. f_equal.
  clear H. induction items as [|[k a] items IHi]; [reflexivity|].
  inversion IH; subst. inversion H0; subst. cbn [save_items snd] in *. rewrite (H2 H4), (IHi H3 H5). reflexivity.
Qed.

Lemma sd_false_pstate v : pstate_ok v -> exists t, sd false v = Some t.
Proof. intros H; inversion H; subst; cbn [sd]; eauto. Qed.

Lemma restore_items_eq chk sz d : forall items items',
  Forall2 (fun a a' => fst a = fst a' /\ same sz (snd a) (snd a')) items items' ->
  Forall (fun x => pstate_ok (snd x)) items -> Forall (fun x => pstate_ok (snd x)) items' ->
  Forall (fun x => wf_obj (snd x)) items' ->
  Forall (fun x => pstate_ok (snd x) -> forall v' t0 t h, pstate_ok v' -> sd false v' = Some t0 -> thin t t0 ->
                   same sz (snd x) v' -> wf_obj v' -> restore_val chk (snd x) t h = load false (snd x) t h) items ->
  (forall k a', In (k, a') items' ->
      forall t0, sd false a' = Some t0 ->
        (exists t, dget key_eqb k d = Some t /\ thin t t0) \/ (dget key_eqb k d = None /\ has_leaf t0 = false)) ->
  forall h,
    restore_items (fun k => k) (restore_val chk) d leafless_val chk items h
    = load_items (fun k => k) (load false) d items h.
Proof.
  induction 1 as [|[k a] [k' a'] items items' [Hk Hs] _ IH]; intros Hp Hp' Hwf HR Hlook h; [reflexivity|].
  cbn [fst snd] in Hk, Hs. subst k'.
  inversion Hp as [|? ? Hpa Hpr]; subst. inversion Hp' as [|? ? Hpa' Hpr']; subst.
  inversion Hwf as [|? ? Hwa Hwr]; subst. inversion HR as [|? ? HRa HRr]; subst. cbn [snd] in *.
  specialize (IH Hpr Hpr' Hwr HRr (fun k0 a0 Hin => Hlook k0 a0 (or_intror Hin))).
  cbn [restore_items load_items].
  destruct (sd_false_pstate a' Hpa') as (t0 & Ht0).
  destruct (Hlook k a' (or_introl eq_refl) t0 Ht0) as [(t & Hget & Hthin)|[Hget Hl]]; rewrite Hget.
  - rewrite (HRa Hpa a' t0 t h Hpa' Ht0 Hthin Hs Hwa).
    destruct (load false a t h) as [[a1 h1]|e]; [|reflexivity]. rewrite IH. reflexivity.
  - assert (El : leafless_val a = true).
    { unfold leafless_val. rewrite (extract_eq_sd a Hpa). destruct (sd_false_pstate a Hpa) as (ta & Hta). rewrite Hta.
      apply negb_true_iff. apply (has_leaf_sd_false a ta Hta).
      eapply same_ids_nil; [exact Hs|]. apply (has_leaf_sd_false a' t0 Ht0). exact Hl. }
    rewrite El. cbn [orb]. rewrite IH. reflexivity.
Qed.

(* on parameter states, restoring (a thinning of) the extracted content of a structurally equal state
   behaves exactly like OptimizerModule loading with store_non_tensors = False: no KeyError *)
Lemma restore_eq_load chk sz v :
  pstate_ok v -> forall v' t0 t h, pstate_ok v' -> sd false v' = Some t0 -> thin t t0 -> same sz v v' -> wf_obj v' ->
  restore_val chk v t h = load false v t h.
Proof.
  induction v as [i|ty x|o cs Hc IH] using obj_ind_c; intros Hp v' t0 t h Hp' Hsd Hthin Hsame Hwf.
  - inversion Hsame; subst; [|discriminate]. cbn [sd] in Hsd. injection Hsd as <-. inversion Hthin; subst. reflexivity.
  - inversion Hp.
  - inversion Hp as [j|fs|items Hall]; subst; [discriminate|reflexivity|].
    cbn [children] in Hc. injection Hc as <-.
    inversion Hsame as [| |? ? cs0 cs' Htag Hc0 Hc' HF2]; subst. cbn [children] in Hc0. injection Hc0 as <-.
    destruct v' as [|fs'|items'|kd l'|]; cbn [tag] in Htag; try discriminate; [|destruct kd; discriminate].
    cbn [children] in Hc'. injection Hc' as <-.
    cbn [sd] in Hsd. injection Hsd as <-. inversion Hthin as [|d ? Hsub]; subst.
    inversion Hp' as [| |? Hall']; subst.
    inversion Hwf as [| |? cs1 Hc1 Hnd Hwfc]; subst. cbn [children] in Hc1. injection Hc1 as <-.
    destruct items as [|x items]; [inversion HF2; subst; reflexivity|].
    cbn [restore_val load].
    rewrite (restore_items_eq chk sz d (x :: items) items' HF2 Hall Hall' Hwfc IH); [reflexivity|].
    intros k a' Hin t0 Ht0. eapply (lookup_facts (sd false) items' d Hnd Hsub k a' Hin). exact Ht0.
Qed.

(* restoring never depends on leafless entries: for every structurally equal pair of parameter states -
   with or without sub-dicts / modules that hold no tensor - restoring the flattened-and-unflattened
   content of cur' into cur succeeds, in place *)
Theorem restore_in_place chk sz cur cur' t h :
  pstate_ok (ODict cur) -> pstate_ok (ODict cur') -> thin t (Node (extract cur')) ->
  same sz (ODict cur) (ODict cur') -> wf_obj (ODict cur') -> sizes h sz ->
  NoDup (ids (ODict cur)) -> disj (ids (ODict cur)) (ids (ODict cur')) ->
  exists d, t = Node d /\
  exists h', restore chk cur d h = Ok (cur, h') /\ post false sz (ODict cur) (ODict cur') (ODict cur) h h'.
Proof.
  intros Hp Hp' Hthin Hsame Hwf Hsz Hnd Hdj.
  assert (Hsd : sd false (ODict cur') = Some (Node (extract cur'))).
  { rewrite <- (extract_eq_sd _ Hp'). reflexivity. }
  inversion Hthin as [|d ? Hsub]; subst. exists d. split; [reflexivity|].
  destruct (module_load_in_place_gen false sz _ _ _ _ h Hsd Hthin Hsame Hwf Hsz Hnd Hdj) as (r & h' & Hld & Hpost).
  pose proof Hpost as (_ & _ & Hr & _). specialize (Hr eq_refl). subst r.
  exists h'. split; [|exact Hpost].
  unfold restore. rewrite (restore_eq_load chk sz _ Hp _ _ _ h Hp' Hsd Hthin Hsame Hwf).
  unfold load_state_dict in Hld. rewrite Hld. reflexivity.
Qed.

Section RestoreRoundTrip.
  Variable fkey : Type.
  Variable fkey_eqb : fkey -> fkey -> bool.
  Variable dumps : list key -> fkey.
  Variable loads : fkey -> option (list key).
  Hypothesis fkey_eqb_eq : forall a b, fkey_eqb a b = true <-> a = b.
  Hypothesis loads_dumps : forall p, loads (dumps p) = Some p.

  Theorem restore_roundtrip chk sz cur cur' h :
    pstate_ok (ODict cur) -> pstate_ok (ODict cur') ->
    same sz (ODict cur) (ODict cur') -> wf_obj (ODict cur') -> sizes h sz ->
    NoDup (ids (ODict cur)) -> disj (ids (ODict cur)) (ids (ODict cur')) ->
    exists d h',
      unflatten fkey loads (flatten fkey fkey_eqb dumps (extract cur')) = Ok d
      /\ restore chk cur d h = Ok (cur, h')
      /\ post false sz (ODict cur) (ODict cur') (ODict cur) h h'.
  Proof.
    intros Hp Hp' Hsame Hwf Hsz Hnd Hdj.
    assert (Hsd : sd false (ODict cur') = Some (Node (extract cur'))).
    { rewrite <- (extract_eq_sd _ Hp'). reflexivity. }
    pose proof (wf_sd false _ Hwf _ Hsd) as Hwft.
    destruct (restore_in_place chk sz cur cur' (prune (Node (extract cur'))) h Hp Hp' (thin_prune _) Hsame Hwf Hsz Hnd Hdj)
      as (d & Ed & h' & Hr & Hpost).
    rewrite prune_node in Ed. injection Ed as <-.
    exists (prune_dict (extract cur')), h'. split; [|split; assumption].
    apply (unflatten_flatten fkey fkey_eqb dumps loads fkey_eqb_eq loads_dumps). exact Hwft.
  Qed.
End RestoreRoundTrip.
