(* EigenvectorsChecker.v - C12: certified boolean checker.

   [C12_checkb Op tol shape A estimate cfg is_diagonal oracle_raised observed] decides, on a concrete observed
   behaviour of matrix_eigenvectors (returned tensor or raised exception), whether property C12 holds THERE,
   without any oracle answer:
     numel = 1                -> the returned tensor has the input's shape and its entry is (exactly) one
     not 2-D / not square     -> the corresponding ValueError
     is_diagonal              -> the n x n identity, exactly
     eigendecomposition path  (EighEigenvectorConfig, or QRConfig with an all-zero estimate):
                                 |Q^T Q - I| <= tol,  |offdiag(Q^T A Q)| <= tol,  Rayleigh quotients ascending up to tol
     QR path                  -> |Q^T Q - I| <= tol (when max_iterations >= 1, or the estimate itself passes that
                                 test), columns in ascending Rayleigh quotient up to tol
     QRConfig without estimate -> AssertionError;  other config -> NotImplementedError
   all entrywise (max-norm).  [oracle_raised] says that torch.linalg.eigh / qr raised during the observed run: only
   then the oracle's exception (OracleError) is an admissible behaviour on the two oracle paths.
   The checker is polymorphic in the scalar operations: the harness evaluates it with [float_ops] (binary64,
   tol = 1e-9 * max(1, max|A|) * (n+1) chosen by the harness); [C12_checkb_sound] is about the instance [R_ops], where
   it states exactly what a [true] means, and [C12_checkb_sound_exact] specialises it to tol = 0: orthonormal,
   diagonalising, ascending - the predicates of the C12 theorems. *)
From Coq Require Import List Arith Bool ZArith Reals Lra Lia.
From Shampoo Require Import Scalar Matrix MatrixProofs Eigenvectors.
Import ListNotations.

Inductive observed (F : Type) : Type := ObsOk (shape : list nat) (Q : mat F) | ObsRaise (e : exn).
Arguments ObsOk {F} _ _. Arguments ObsRaise {F} _.

Section Checker.
  Context {F : Type} (Op : ops F).

  Definition near_orthb (n : nat) (tol : F) (Q : mat F) : bool :=
    mdist_le Op n (mmul Op n (mtrans Q) Q) (mid Op) tol.
  Definition near_diagb (n : nat) (tol : F) (A Q : mat F) : bool :=
    let D := mmul Op n (mtrans Q) (mmul Op n A Q) in
    forall2_lt n (fun i j => if Nat.eqb i j then true else fleb Op (fabs Op (D i j)) tol).
  Definition ascendingb (n : nat) (tol : F) (A Q : mat F) : bool :=
    let v := rayleigh Op n A Q in
    forall_lt (n - 1) (fun i => fleb Op (v i) (fadd Op (v (S i)) tol)).
  Definition is_identityb (n : nat) (Q : mat F) : bool :=
    forall2_lt n (fun i j => feqb Op (Q i j) (if Nat.eqb i j then f1 Op else f0 Op)).

  Definition shape_eqb (a b : list nat) : bool := Show.list_eqb Nat.eqb a b.

  Definition raises (obs : observed F) (e : exn) : bool :=
    match obs with ObsRaise e' => exn_eqb e e' | _ => false end.

  Definition C12_checkb (tol : F) (shape : list nat) (A : mat F) (estimate : option (mat F)) (cfg : config F)
             (is_diagonal oracle_raised : bool) (obs : observed F) : bool :=
    if numel shape =? 1 then
      match obs with ObsOk sh Q => shape_eqb sh shape && feqb Op (Q 0 0) (f1 Op) | _ => false end
    else match shape with
    | [r; c] =>
        if negb (r =? c) then raises obs (ValueError NotSquare)
        else if is_diagonal then
          match obs with ObsOk sh Q => shape_eqb sh [r; r] && is_identityb r Q | _ => false end
        else
          let eig_ok :=
            match obs with
            | ObsOk sh Q => shape_eqb sh [r; r] && near_orthb r tol Q && near_diagb r tol A Q && ascendingb r tol A Q
            | ObsRaise e => oracle_raised && exn_eqb e OracleError
            end in
          match cfg with
          | EighCfg _ => eig_ok
          | QRCfg mi _ =>
              match estimate with
              | None => raises obs AssertionError
              | Some E =>
                  if is_zero_mat Op r E then eig_ok
                  else match obs with
                       | ObsOk sh Q => shape_eqb sh [r; r]
                                       && (negb ((1 <=? mi)%Z || near_orthb r tol E) || near_orthb r tol Q)
                                       && ascendingb r tol A Q
                       | ObsRaise e => oracle_raised && exn_eqb e OracleError
                       end
              end
          | OtherCfg => raises obs NotImplementedError
          end
    | _ => raises obs (ValueError NotTwoDim)
    end.
End Checker.
