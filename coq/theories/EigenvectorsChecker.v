(* EigenvectorsChecker.v - C12: certified boolean checker.

   [C12_checkb Op tol shape A estimate cfg is_diagonal oracle_raised observed] decides, on a concrete observed
   behaviour of matrix_eigenvectors (returned tensor or raised exception), whether property C12 holds THERE,
   without any oracle answer:
     numel = 1                -> the returned tensor has the input's shape and its entry is (exactly) one
     not 2-D / not square     -> the corresponding ValueError
     is_diagonal              -> the n x n identity, exactly
     eigendecomposition path  (EighEigenvectorConfig, or QRConfig with an all-zero estimate):
                                 |Q^T Q - I| <= tol,  |offdiag(Q^T A Q)| <= tol,  Rayleigh quotients ascending up to tol
     QR path                  -> |Q^T Q - I| <= tol (when max_iterations >= 1, or the estimate itself passes that
                                 test), columns in ascending Rayleigh quotient up to tol
     QRConfig without estimate -> AssertionError;  other config -> NotImplementedError
   all entrywise (max-norm).  [oracle_raised] says that torch.linalg.eigh / qr raised during the observed run: only
   then the oracle's exception (OracleError) is an admissible behaviour on the two oracle paths.
   The checker is polymorphic in the scalar operations: the harness evaluates it with [float_ops] (binary64,
   tol = 1e-9 * max(1, max|A|) * (n+1) chosen by the harness); [C12_checkb_sound] is about the instance [R_ops], where
   it states exactly what a [true] means, and [C12_checkb_sound_exact] specialises it to tol = 0: orthonormal,
   diagonalising, ascending - the predicates of the C12 theorems. *)
From Coq Require Import List Arith Bool ZArith Reals Lra Lia.
From Shampoo Require Import Scalar Matrix MatrixProofs Eigenvectors.
Import ListNotations.

Inductive observed (F : Type) : Type := ObsOk (shape : list nat) (Q : mat F) | ObsRaise (e : exn).
Arguments ObsOk {F} _ _. Arguments ObsRaise {F} _.

Section Checker.
  Context {F : Type} (Op : ops F).

  Definition near_orthb (n : nat) (tol : F) (Q : mat F) : bool :=
    mdist_le Op n (mmul Op n (mtrans Q) Q) (mid Op) tol.
  Definition near_diagb (n : nat) (tol : F) (A Q : mat F) : bool :=
    let D := mmul Op n (mtrans Q) (mmul Op n A Q) in
    forall2_lt n (fun i j => if Nat.eqb i j then true else fleb Op (fabs Op (D i j)) tol).
  Definition ascendingb (n : nat) (tol : F) (A Q : mat F) : bool :=
    let v := rayleigh Op n A Q in
    forall_lt (n - 1) (fun i => fleb Op (v i) (fadd Op (v (S i)) tol)).
  Definition is_identityb (n : nat) (Q : mat F) : bool :=
    forall2_lt n (fun i j => feqb Op (Q i j) (if Nat.eqb i j then f1 Op else f0 Op)).

  Definition shape_eqb (a b : list nat) : bool := Show.list_eqb Nat.eqb a b.

  Definition raises (obs : observed F) (e : exn) : bool :=
    match obs with ObsRaise e' => exn_eqb e e' | _ => false end.

  Definition C12_checkb (tol : F) (shape : list nat) (A : mat F) (estimate : option (mat F)) (cfg : config F)
             (is_diagonal oracle_raised : bool) (obs : observed F) : bool :=
    if numel shape =? 1 then
      match obs with ObsOk sh Q => shape_eqb sh shape && feqb Op (Q 0 0) (f1 Op) | _ => false end
    else match shape with
    | [r; c] =>
        if negb (r =? c) then raises obs (ValueError NotSquare)
        else if is_diagonal then
          match obs with ObsOk sh Q => shape_eqb sh [r; r] && is_identityb r Q | _ => false end
        else
          let eig_ok :=
            match obs with
            | ObsOk sh Q => shape_eqb sh [r; r] && near_orthb r tol Q && near_diagb r tol A Q && ascendingb r tol A Q
            | ObsRaise e => oracle_raised && exn_eqb e OracleError
            end in
          match cfg with
          | EighCfg _ => eig_ok
          | QRCfg mi _ =>
              match estimate with
              | None => raises obs AssertionError
              | Some E =>
                  if is_zero_mat Op r E then eig_ok
                  else match obs with
                       | ObsOk sh Q => shape_eqb sh [r; r]
                                       && (negb ((1 <=? mi)%Z || near_orthb r tol E) || near_orthb r tol Q)
                                       && ascendingb r tol A Q
                       | ObsRaise e => oracle_raised && exn_eqb e OracleError
                       end
              end
          | OtherCfg => raises obs NotImplementedError
          end
    | _ => raises obs (ValueError NotTwoDim)
    end.
End Checker.

(* ====================================================================== soundness (real-number instance) *)
From Shampoo Require Import EigenvectorsProofs.
Local Open Scope R_scope.

Section Sound.
  Variable rnd : R -> R.
  Notation Op := (R_ops rnd).

  Definition near_orth (n : nat) (tol : R) (Q : mat R) : Prop :=
    forall i j, (i < n)%nat -> (j < n)%nat -> Rabs (mmul Op n (mtrans Q) Q i j - mid Op i j) <= tol.
  Definition near_diag (n : nat) (tol : R) (A Q : mat R) : Prop :=
    forall i j, (i < n)%nat -> (j < n)%nat -> i <> j -> Rabs (mmul Op n (mtrans Q) (mmul Op n A Q) i j) <= tol.
  Definition near_ascending (n : nat) (tol : R) (A Q : mat R) : Prop :=
    forall i, (S i < n)%nat -> rq rnd n A Q i <= rq rnd n A Q (S i) + tol.

  Definition eig_path_ok (n : nat) (tol : R) (A : mat R) (raised : bool) (obs : observed R) : Prop :=
    match obs with
    | ObsOk sh Q => sh = [n; n] /\ near_orth n tol Q /\ near_diag n tol A Q /\ near_ascending n tol A Q
    | ObsRaise e => raised = true /\ e = OracleError
    end.

  (* the property predicate, on one observed behaviour: branch structure by the (exact) tests of the dispatch,
     content as propositions over the reals *)
  Definition C12_holds_at (tol : R) (shape : list nat) (A : mat R) (estimate : option (mat R)) (cfg : config R)
             (is_diagonal raised : bool) (obs : observed R) : Prop :=
    if (numel shape =? 1)%nat then
      match obs with ObsOk sh Q => sh = shape /\ Q 0%nat 0%nat = 1 | _ => False end
    else match shape with
    | [r; c] =>
        if negb (r =? c)%nat then obs = ObsRaise (ValueError NotSquare)
        else if is_diagonal then
          match obs with ObsOk sh Q => sh = [r; r] /\ meq r Q (mid Op) | _ => False end
        else match cfg with
        | EighCfg _ => eig_path_ok r tol A raised obs
        | QRCfg mi _ =>
            match estimate with
            | None => obs = ObsRaise AssertionError
            | Some E =>
                if is_zero_mat Op r E then eig_path_ok r tol A raised obs
                else match obs with
                     | ObsOk sh Q => sh = [r; r] /\ (((1 <= mi)%Z \/ near_orth r tol E) -> near_orth r tol Q)
                                     /\ near_ascending r tol A Q
                     | ObsRaise e => raised = true /\ e = OracleError
                     end
            end
        | OtherCfg => obs = ObsRaise NotImplementedError
        end
    | _ => obs = ObsRaise (ValueError NotTwoDim)
    end.

  Lemma exn_eqb_eq a b : exn_eqb a b = true -> a = b.
  Proof. destruct a as [[|]| | | |], b as [[|]| | | |]; cbn; intros H; try discriminate; reflexivity. Qed.
  Lemma shape_eqb_eq a b : shape_eqb a b = true -> a = b.
  Proof.
    unfold shape_eqb. revert b; induction a as [|x a IH]; destruct b as [|y b]; cbn [Show.list_eqb]; intros H; try discriminate; [reflexivity|].
    apply andb_true_iff in H. destruct H as [H1 H2]. apply Nat.eqb_eq in H1. f_equal; auto.
  Qed.
  Lemma raises_eq (obs : observed R) e : raises obs e = true -> obs = ObsRaise e.
  Proof. destruct obs as [sh Q|e']; cbn [raises]; [discriminate|]. intros H. apply exn_eqb_eq in H. subst. reflexivity. Qed.

  Lemma near_orthb_sound n tol Q : near_orthb Op n tol Q = true -> near_orth n tol Q.
  Proof.
    unfold near_orthb, mdist_le. rewrite forall2_lt_true. intros H i j Hi Hj. specialize (H i j Hi Hj).
    cbn [fleb fabs fsub R_ops] in H. apply Rleb_true in H. exact H.
  Qed.
  Lemma near_diagb_sound n tol A Q : near_diagb Op n tol A Q = true -> near_diag n tol A Q.
  Proof.
    unfold near_diagb. rewrite forall2_lt_true. intros H i j Hi Hj Hne. specialize (H i j Hi Hj).
    apply Nat.eqb_neq in Hne. rewrite Hne in H. cbn [fleb fabs R_ops] in H. apply Rleb_true in H. exact H.
  Qed.
  Lemma ascendingb_sound n tol A Q : ascendingb Op n tol A Q = true -> near_ascending n tol A Q.
  Proof.
    unfold ascendingb. rewrite forall_lt_true. intros H i Hi. specialize (H i ltac:(lia)).
    cbn [fleb fadd R_ops] in H. apply Rleb_true in H.
    rewrite !(rayleigh_get rnd) in H by lia. exact H.
  Qed.
  Lemma is_identityb_sound n Q : is_identityb Op n Q = true -> meq n Q (mid Op).
  Proof.
    unfold is_identityb. rewrite forall2_lt_true. intros H i j Hi Hj. specialize (H i j Hi Hj).
    cbn [feqb R_ops] in H. apply Reqb_true in H. exact H.
  Qed.

  Lemma eig_path_sound n tol A raised obs :
    match obs with
    | ObsOk sh Q => shape_eqb sh [n; n] && near_orthb Op n tol Q && near_diagb Op n tol A Q && ascendingb Op n tol A Q
    | ObsRaise e => raised && exn_eqb e OracleError
    end = true -> eig_path_ok n tol A raised obs.
  Proof.
    destruct obs as [sh Q|e]; cbn [eig_path_ok]; intros H.
    - repeat (apply andb_true_iff in H; destruct H as [H ?]).
      split; [apply shape_eqb_eq; exact H|]. split; [apply near_orthb_sound; assumption|].
      split; [apply near_diagb_sound; assumption|apply ascendingb_sound; assumption].
    - apply andb_true_iff in H. destruct H as [H1 H2]. split; [exact H1|apply exn_eqb_eq; exact H2].
  Qed.

  (* SOUNDNESS: a [true] of the checker (real-number instance) means the property predicate holds at the observation *)
  Theorem C12_checkb_sound tol shape A estimate cfg is_diagonal raised obs :
    C12_checkb Op tol shape A estimate cfg is_diagonal raised obs = true ->
    C12_holds_at tol shape A estimate cfg is_diagonal raised obs.
  Proof.
    unfold C12_checkb, C12_holds_at. destruct (numel shape =? 1)%nat.
    - destruct obs as [sh Q|e]; [|discriminate]. intros H. apply andb_true_iff in H. destruct H as [H1 H2].
      split; [apply shape_eqb_eq; exact H1|]. cbn [feqb f1 R_ops] in H2. apply Reqb_true in H2. exact H2.
    - destruct shape as [|r [|c [|x sh]]]; try apply raises_eq.
      destruct (negb (r =? c)%nat); [apply raises_eq|]. destruct is_diagonal.
      + destruct obs as [sh Q|e]; [|discriminate]. intros H. apply andb_true_iff in H. destruct H as [H1 H2].
        split; [apply shape_eqb_eq; exact H1|apply is_identityb_sound; exact H2].
      + destruct cfg as [retry|mi tl|]; [apply eig_path_sound| |apply raises_eq].
        destruct estimate as [E|]; [|apply raises_eq].
        destruct (is_zero_mat Op r E); [apply eig_path_sound|].
        destruct obs as [sh Q|e]; intros H.
        * repeat (apply andb_true_iff in H; destruct H as [H ?]).
          split; [apply shape_eqb_eq; exact H|]. split; [|apply ascendingb_sound; assumption].
          intros Hpre. apply orb_true_iff in H1. destruct H1 as [H1|H1]; [|apply near_orthb_sound; exact H1].
          apply negb_true_iff in H1. apply orb_false_iff in H1. destruct H1 as [Ha Hb].
          destruct Hpre as [Hpre|Hpre]; [apply Z.leb_le in Hpre; congruence|].
          exfalso. (* the estimate passes the test over the reals *)
          assert (near_orthb Op r tol E = true) as Hc.
          { unfold near_orthb, mdist_le. apply forall2_lt_true. intros i j Hi Hj. cbn [fleb fabs fsub R_ops].
            apply Rleb_true. apply Hpre; assumption. }
          congruence.
        * apply andb_true_iff in H. destruct H as [H1 H2]. split; [exact H1|apply exn_eqb_eq; exact H2].
  Qed.

  (* with tolerance 0 the three tests are the exact predicates of the C12 theorems *)
  Lemma near_orth_0 n Q : near_orth n 0 Q -> morth_cols Op n Q.
  Proof.
    intros H i j Hi Hj. specialize (H i j Hi Hj).
    assert (Rabs (mmul Op n (mtrans Q) Q i j - mid Op i j) = 0) as Hz by (pose proof (Rabs_pos (mmul Op n (mtrans Q) Q i j - mid Op i j)); lra).
    destruct (Req_dec (mmul Op n (mtrans Q) Q i j - mid Op i j) 0) as [E|E]; [lra|]. apply Rabs_no_R0 in E. contradiction.
  Qed.
  Lemma near_diag_0 n A Q : near_diag n 0 A Q -> mis_diag Op n (mmul Op n (mtrans Q) (mmul Op n A Q)).
  Proof.
    intros H i j Hi Hj Hne. specialize (H i j Hi Hj Hne). cbn [f0 R_ops].
    set (x := mmul Op n (mtrans Q) (mmul Op n A Q) i j) in *.
    destruct (Req_dec x 0) as [E|E]; [exact E|]. apply Rabs_no_R0 in E. pose proof (Rabs_pos x). lra.
  Qed.
  Lemma near_ascending_0 n A Q : near_ascending n 0 A Q -> forall i j, (i < j)%nat -> (j < n)%nat -> rq rnd n A Q i <= rq rnd n A Q j.
  Proof.
    intros H i j Hij Hj. induction j as [|j IH]; [lia|].
    destruct (Nat.eq_dec i j) as [->|Hne].
    - specialize (H j Hj). lra.
    - specialize (H j Hj). specialize (IH ltac:(lia) ltac:(lia)). lra.
  Qed.

  Theorem C12_checkb_sound_exact n A cfg_retry Q :
    n <> 1%nat ->
    C12_checkb Op 0 [n; n] A None (EighCfg cfg_retry) false false (ObsOk [n; n] Q) = true ->
    morth_cols Op n Q /\ mis_diag Op n (mmul Op n (mtrans Q) (mmul Op n A Q))
    /\ (forall i j, (i < j)%nat -> (j < n)%nat -> rq rnd n A Q i <= rq rnd n A Q j).
  Proof.
    intros Hn H. apply C12_checkb_sound in H. unfold C12_holds_at in H.
    rewrite (numel_square_1 n) in H. apply Nat.eqb_neq in Hn. rewrite Hn, Nat.eqb_refl in H. cbn [negb eig_path_ok] in H.
    destruct H as (_ & H1 & H2 & H3). split; [apply near_orth_0; exact H1|]. split; [apply near_diag_0; exact H2|apply near_ascending_0; exact H3].
  Qed.
End Sound.
