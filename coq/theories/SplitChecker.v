(* C15 - certified boolean checker: decides on a concrete output (e.g. the implementation's)
   whether it is an ordered partition into slabs of the model's (proved minimal) length. *)
From Coq Require Import ZArith List Bool Lia.
From Shampoo Require Import Show SplitRecovery SplitRecoveryProofs.
Import ListNotations.
Open Scope Z_scope.

Fixpoint chainb (l : list piece) (o e : Z) : bool :=
  match l with
  | [] => o =? e
  | p :: r => (poff p =? o) && (0 <? plen p) && chainb r (o + plen p) e
  end.

Fixpoint slabb (sh : list Z) (a b : Z) (shp : list Z) : bool :=
  match sh with
  | [] => (a <? b) && list_eqb Z.eqb shp [b - a]
  | d :: rest =>
      let R := prodl rest in
      match shp with
      | k :: rest' => (0 <? k) && list_eqb Z.eqb rest' rest && (a mod R =? 0) && (b =? a + k * R)
                      && (a / (d * R) =? (b - 1) / (d * R))
      | [] => false
      end || slabb rest a b shp
  end.

Definition C15_checkb (shape : list Z) (s e : Z) (impl : list piece) : bool :=
  chainb impl 0 (e - s)
  && forallb (fun p => slabb shape (s + poff p) (s + poff p + plen p) (pshape p)) impl
  && Nat.eqb (length impl) (length (rec shape 0 s e)).

Lemma list_eqb_Z_eq l1 l2 : list_eqb Z.eqb l1 l2 = true -> l1 = l2.
Proof.
  revert l2; induction l1 as [|x l1 IH]; destruct l2 as [|y l2]; cbn [list_eqb]; intros H; try discriminate; [reflexivity|].
  apply andb_true_iff in H as [H1 H2]. apply Z.eqb_eq in H1. f_equal; auto.
Qed.

Lemma chainb_sound l o e : chainb l o e = true -> chain l o e.
Proof.
  revert o; induction l as [|p l IH]; cbn [chainb chain]; intros o H.
  - apply Z.eqb_eq; exact H.
  - apply andb_true_iff in H as [H H3]. apply andb_true_iff in H as [H1 H2].
    apply Z.eqb_eq in H1. apply Z.ltb_lt in H2. auto.
Qed.

Lemma slabb_sound sh a b shp : slabb sh a b shp = true -> slab sh a b shp.
Proof.
  induction sh as [|d rest IH]; cbn [slabb]; intros H.
  - apply andb_true_iff in H as [H1 H2]. apply Z.ltb_lt in H1. apply list_eqb_Z_eq in H2. subst. constructor; exact H1.
  - apply orb_true_iff in H as [H|H]; [|apply slab_deeper; auto].
    destruct shp as [|k rest']; [discriminate|].
    repeat (apply andb_true_iff in H as [H ?]).
    apply Z.ltb_lt in H. apply list_eqb_Z_eq in H3. subst rest'.
    apply Z.eqb_eq in H2, H1, H0. apply slab_here; assumption.
Qed.

Lemma C15_checkb_sound shape s e impl :
  C15_checkb shape s e impl = true ->
  chain impl 0 (e - s)
  /\ Forall (fun p => slab shape (s + poff p) (s + poff p + plen p) (pshape p)) impl
  /\ length impl = length (rec shape 0 s e).
Proof.
  unfold C15_checkb; intros H.
  apply andb_true_iff in H as [H H3]. apply andb_true_iff in H as [H1 H2].
  split; [apply chainb_sound; exact H1|]. split; [|apply Nat.eqb_eq; exact H3].
  apply Forall_forall. intros p Hp. apply slabb_sound.
  rewrite forallb_forall in H2. apply H2; exact Hp.
Qed.
