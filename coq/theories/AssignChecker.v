(* C14 - certified boolean checker: decides, on a concrete output of _distribute_buffer_sizes (obs) and concrete buffer
   views (vs), whether it is an LPT run with the lexicographic tie rule, balanced, and laid out in disjoint aligned
   slots inside the owners' segments. *)
From Coq Require Import ZArith List Bool Arith Lia Permutation Sorted.
From Shampoo Require Import Assign AssignProofs.
Import ListNotations.
Open Scope Z_scope.

Fixpoint lpt_runb (gs : nat) (l : list (Z * nat)) : bool :=
  match l with
  | [] => true
  | x :: rest =>
      lpt_runb gs rest && (snd x <? gs)%nat && (0 <=? fst x)
      && forallb (fun y => fst x <=? fst y) rest
      && forallb (fun r' => lex_leb (rload rest (snd x), snd x) (rload rest r', r')) (seq 0 gs)
  end.

Lemma lpt_runb_iff gs l : lpt_runb gs l = true <-> lpt_run gs l.
Proof.
  induction l as [|x rest IH]; cbn [lpt_runb lpt_run]; [tauto|].
  rewrite !andb_true_iff, IH, Nat.ltb_lt, Z.leb_le, !forallb_forall. split.
  - intros ((((H1 & H2) & H3) & H4) & H5). repeat split; try assumption.
    + intros y Hy. apply Z.leb_le. apply H4. assumption.
    + intros r' Hr'. apply lex_leb_le. apply H5. apply in_seq. lia.
  - intros (H1 & H2 & H3 & H4 & H5). repeat split; try assumption.
    + intros y Hy. apply Z.leb_le. apply H4. assumption.
    + intros r' Hr'. apply lex_leb_le. apply H5. apply in_seq in Hr'. lia.
Qed.

(* the run read off the observed output: blocks in the processing order, each with the rank the output gives it *)
Definition obs_run (sizes : list Z) (obs : list (Z * nat)) : list entry :=
  rev (map (fun iq => (iq, snd (nth (fst iq) obs (0, 0%nat)))) (sort_desc (indexed sizes))).

Fixpoint zlist_eqb (l1 l2 : list Z) : bool :=
  match l1, l2 with
  | [], [] => true
  | a :: r1, b :: r2 => (a =? b) && zlist_eqb r1 r2
  | _, _ => false
  end.

Lemma zlist_eqb_iff l1 l2 : zlist_eqb l1 l2 = true <-> l1 = l2.
Proof.
  revert l2; induction l1 as [|a l1 IH]; destruct l2 as [|b l2]; cbn [zlist_eqb]; try (split; [discriminate|congruence]).
  - tauto.
  - rewrite andb_true_iff, Z.eqb_eq, IH. split; [intros [-> ->]; reflexivity|intros H; injection H; auto].
Qed.

Definition shapeb (sizes : list Z) (gs : nat) (obs : list (Z * nat)) : bool :=
  zlist_eqb (map fst obs) (map align64 sizes) && lpt_runb gs (map strip (obs_run sizes obs)).

Definition balanceb (gs : nat) (obs : list (Z * nat)) : bool :=
  forallb (fun r => forallb (fun r' => rload obs r - rload obs r' <=? max_size obs) (seq 0 gs)) (seq 0 gs).

Definition viewsb (sizes : list Z) (gs : nat) (obs : list (Z * nat)) (vs : list (Z * Z)) : bool :=
  let M := max_load gs obs in
  (length vs =? length sizes)%nat
  && forallb (fun i =>
       let off := fst (nth i vs (0, 0)) in
       let len := snd (nth i vs (0, 0)) in
       let q := fst (nth i obs (0, 0%nat)) in
       let r := snd (nth i obs (0, 0%nat)) in
       (off mod 64 =? 0) && (len =? nth i sizes 0) && (len <=? q)
       && (Z.of_nat r * M <=? off) && (off + q <=? (Z.of_nat r + 1) * M)
       && forallb (fun j => (j =? i)%nat || (off + q <=? fst (nth j vs (0, 0)))
                            || (fst (nth j vs (0, 0)) + fst (nth j obs (0, 0%nat)) <=? off))
                  (seq 0 (length sizes)))
     (seq 0 (length sizes)).

Definition C14_checkb (sizes : list Z) (gs : nat) (obs : list (Z * nat)) (vs : list (Z * Z)) : bool :=
  shapeb sizes gs obs && balanceb gs obs && viewsb sizes gs obs vs.

(* assignment part alone (used when only _distribute_buffer_sizes was observed) *)
Definition C14_assign_checkb (sizes : list Z) (gs : nat) (obs : list (Z * nat)) : bool :=
  shapeb sizes gs obs && balanceb gs obs.

(* ---- soundness ---- *)
Lemma obs_run_fst sizes obs : map fst (obs_run sizes obs) = rev (sort_desc (indexed sizes)).
Proof. unfold obs_run. rewrite map_rev, map_map. cbn [fst]. rewrite map_id. reflexivity. Qed.

Lemma obs_run_perm sizes obs : Permutation (map fst (obs_run sizes obs)) (indexed sizes).
Proof. rewrite obs_run_fst. eapply perm_trans; [apply Permutation_sym, Permutation_rev|apply sort_desc_perm]. Qed.

Lemma obs_run_entry sizes obs t :
  In t (obs_run sizes obs) -> e_rank t = snd (nth (e_index t) obs (0, 0%nat)).
Proof.
  unfold obs_run. rewrite <- in_rev, in_map_iff. intros (iq & <- & _). reflexivity.
Qed.

Lemma shapeb_sound sizes gs obs : shapeb sizes gs obs = true -> lpt_spec sizes gs obs.
Proof.
  unfold shapeb. rewrite andb_true_iff, zlist_eqb_iff, lpt_runb_iff. intros [Hfst Hrun].
  assert (length obs = length sizes) as Hlen.
  { apply (f_equal (@length Z)) in Hfst. rewrite !map_length in Hfst. assumption. }
  exists (obs_run sizes obs). split; [apply obs_run_perm|]. split; [|split; [assumption|]].
  - rewrite obs_run_fst, rev_involutive. apply sort_desc_sorted, indexed_sorted.
  - rewrite <- (map_nth_seq obs (0, 0%nat)) at 1. rewrite Hlen. apply map_ext_in. intros i Hi. apply in_seq in Hi.
    assert (In i (map e_index (obs_run sizes obs))) as Hin.
    { eapply Permutation_in; [apply Permutation_sym, (run_index_perm sizes), obs_run_perm|]. apply in_seq. lia. }
    apply lookup_in in Hin as (t & Ht & Hidx & ->).
    destruct (run_entry sizes _ (obs_run_perm sizes obs) t Ht) as [_ Hs].
    pose proof (obs_run_entry sizes obs t Ht) as Hr. rewrite Hidx in Hs, Hr.
    unfold strip. rewrite Hs, Hr.
    rewrite (surjective_pairing (nth i obs (0, 0%nat))) at 1. f_equal.
    change 0 with (fst (0, 0%nat)) at 1. rewrite <- map_nth, Hfst.
    change (fst (0, 0%nat)) with 0. rewrite (nth_indep _ 0 (align64 0)) by (rewrite map_length; lia). apply map_nth.
Qed.

Lemma balanceb_iff gs obs :
  balanceb gs obs = true <->
  (forall r r', (r < gs)%nat -> (r' < gs)%nat -> rload obs r - rload obs r' <= max_size obs).
Proof.
  unfold balanceb. rewrite forallb_forall. split.
  - intros H r r' Hr Hr'. specialize (H r ltac:(apply in_seq; lia)). rewrite forallb_forall in H.
    apply Z.leb_le. apply H. apply in_seq. lia.
  - intros H r Hr. apply forallb_forall. intros r' Hr'. apply in_seq in Hr, Hr'. apply Z.leb_le. apply H; lia.
Qed.

Lemma viewsb_iff sizes gs obs vs : viewsb sizes gs obs vs = true <-> views_ok sizes gs obs vs.
Proof.
  unfold viewsb, views_ok. cbv zeta. rewrite andb_true_iff, Nat.eqb_eq, forallb_forall.
  split; intros [Hlen H]; (split; [assumption|]).
  - intros i Hi. specialize (H i ltac:(apply in_seq; lia)).
    rewrite !andb_true_iff, forallb_forall in H. destruct H as (((((H1 & H2) & H3) & H4) & H5) & H6).
    apply Z.eqb_eq in H1, H2. apply Z.leb_le in H3, H4, H5. repeat split; try assumption.
    intros j Hj Hne. specialize (H6 j ltac:(apply in_seq; lia)).
    rewrite !orb_true_iff, Nat.eqb_eq, !Z.leb_le in H6. tauto.
  - intros i Hi. apply in_seq in Hi. destruct (H i ltac:(lia)) as (H1 & H2 & H3 & H4 & H5 & H6).
    rewrite !andb_true_iff, forallb_forall. repeat split; try (apply Z.eqb_eq; assumption); try (apply Z.leb_le; assumption).
    intros j Hj. apply in_seq in Hj. rewrite !orb_true_iff, Nat.eqb_eq, !Z.leb_le.
    destruct (Nat.eq_dec j i) as [->|Hne]; [tauto|]. specialize (H6 j ltac:(lia) Hne). tauto.
Qed.

(* what a passing output satisfies *)
Definition C14_assign_spec (sizes : list Z) (gs : nat) (obs : list (Z * nat)) : Prop :=
  lpt_spec sizes gs obs
  /\ (length obs = length sizes /\ map fst obs = map align64 sizes /\ Forall (fun x => (snd x < gs)%nat) obs)
  /\ (forall r r', (r < gs)%nat -> (r' < gs)%nat -> rload obs r - rload obs r' <= max_size obs)
  /\ (forall b, valid_assignment (length sizes) gs b ->
        3 * max_load gs obs <= 4 * max_load gs (assignment_of b sizes))
  /\ (Forall (fun s => 0 <= s) sizes -> obs = assign sizes gs).

Definition C14_spec (sizes : list Z) (gs : nat) (obs : list (Z * nat)) (vs : list (Z * Z)) : Prop :=
  C14_assign_spec sizes gs obs /\ views_ok sizes gs obs vs.

Lemma C14_assign_checkb_sound sizes gs obs :
  (1 <= gs)%nat -> C14_assign_checkb sizes gs obs = true -> C14_assign_spec sizes gs obs.
Proof.
  intros Hgs. unfold C14_assign_checkb. rewrite andb_true_iff, balanceb_iff. intros [Hs Hb].
  apply shapeb_sound in Hs. split; [assumption|]. split; [apply (spec_total _ _ _ Hs)|]. split; [assumption|]. split.
  - intros b Hv. apply (graham_weaken (Z.of_nat gs)); [lia|apply max_load_nonneg|]. apply spec_graham; assumption.
  - intros Hnn. apply (lpt_spec_unique sizes gs); [assumption|apply assign_is_lpt; assumption].
Qed.

Lemma C14_checkb_sound sizes gs obs vs :
  (1 <= gs)%nat -> C14_checkb sizes gs obs vs = true -> C14_spec sizes gs obs vs.
Proof.
  intros Hgs. unfold C14_checkb. rewrite andb_true_iff, viewsb_iff. intros [H Hv]. split; [|assumption].
  apply C14_assign_checkb_sound; assumption.
Qed.

(* ---- the model passes its own checker ---- *)
Lemma lookup_member run t : NoDup (map e_index run) -> In t run -> lookup run (e_index t) = strip t.
Proof.
  induction run as [|u run IH]; intros ND []; inversion ND as [|? ? Hnin ND']; subst.
  - apply lookup_head.
  - rewrite lookup_tail; [apply IH; assumption|]. intros E. apply Hnin. rewrite E. apply in_map. assumption.
Qed.

Lemma obs_run_of_run sizes run :
  Permutation (map fst run) (indexed sizes) -> map fst run = rev (sort_desc (indexed sizes)) ->
  obs_run sizes (map (lookup run) (seq 0 (length sizes))) = run.
Proof.
  intros P E. unfold obs_run. rewrite <- (rev_involutive (sort_desc (indexed sizes))), <- E.
  rewrite <- map_rev, rev_involutive, map_map. rewrite <- (map_id run) at 2. apply map_ext_in. intros t Ht.
  cbn [fst]. destruct (run_entry sizes run P t Ht) as [Hi _]. change (fst (fst t)) with (e_index t).
  rewrite nth_map_seq by assumption. rewrite (lookup_member run t (run_index_nodup sizes run P) Ht).
  destruct t as [iq r]. reflexivity.
Qed.

Lemma model_passes_shapeb sizes gs :
  (1 <= gs)%nat -> Forall (fun s => 0 <= s) sizes -> shapeb sizes gs (assign sizes gs) = true.
Proof.
  intros Hgs Hnn. unfold shapeb. rewrite andb_true_iff, zlist_eqb_iff, lpt_runb_iff.
  destruct (assign_total_deterministic sizes gs Hgs Hnn) as [(_ & Hf & _) _]. split; [assumption|].
  destruct (run_of_spec sizes gs Hgs Hnn) as [R1 R2]. unfold assign. rewrite obs_run_of_run; try assumption.
  rewrite R2. eapply perm_trans; [apply Permutation_sym, Permutation_rev|apply sort_desc_perm].
Qed.

Theorem model_passes_checker numels dsize gs :
  (1 <= gs)%nat -> 0 <= dsize -> Forall (fun n => 0 <= n) numels ->
  C14_checkb (block_bytes numels dsize) gs (assign (block_bytes numels dsize) gs) (views numels dsize gs) = true.
Proof.
  intros Hgs Hd Hn. assert (Forall (fun s => 0 <= s) (block_bytes numels dsize)) as Hnn.
  { unfold block_bytes. apply Forall_forall. intros s Hs. apply in_map_iff in Hs as [n [<- Hn']].
    rewrite Forall_forall in Hn. apply Z.mul_nonneg_nonneg; auto. }
  unfold C14_checkb. rewrite !andb_true_iff. split; [split|].
  - apply model_passes_shapeb; assumption.
  - apply balanceb_iff. apply (spec_gap (block_bytes numels dsize)). apply assign_is_lpt; assumption.
  - apply viewsb_iff. apply model_views_ok; assumption.
Qed.

(* ---- non-vacuity: the checker accepts the documented example and rejects broken outputs ---- *)
Example checker_accepts_docstring :
  C14_checkb [128; 64; 500; 256] 2 [(128, 1%nat); (64, 1%nat); (512, 0%nat); (256, 1%nat)]
             [(512, 128); (640, 64); (0, 500); (704, 256)] = true.
Proof. vm_compute. reflexivity. Qed.

(* tie on the load broken towards the higher rank *)
Example checker_rejects_reversed_tie : C14_assign_checkb [64; 64] 2 [(64, 1%nat); (64, 0%nat)] = false.
Proof. vm_compute. reflexivity. Qed.

(* smallest-first instead of largest-first: [64,64,128] on 2 ranks gives loads 192/64 instead of 128/128 *)
Example checker_rejects_ascending : C14_assign_checkb [64; 64; 128] 2 [(64, 0%nat); (64, 1%nat); (128, 0%nat)] = false.
Proof. vm_compute. reflexivity. Qed.

(* unstable order among equal sizes: block 1 processed before block 0 *)
Example checker_rejects_unstable : C14_assign_checkb [64; 64; 64] 2 [(64, 1%nat); (64, 0%nat); (64, 0%nat)] = false.
Proof. vm_compute. reflexivity. Qed.

(* sizes not rounded up to the alignment *)
Example checker_rejects_unaligned : C14_assign_checkb [100; 30] 2 [(100, 0%nat); (30, 1%nat)] = false.
Proof. vm_compute. reflexivity. Qed.

(* second view computed from the unaligned size of the first: overlaps the first slot and is not 64-aligned *)
Example checker_rejects_overlap :
  C14_checkb [100; 100] 1 [(128, 0%nat); (128, 0%nat)] [(0, 100); (100, 100)] = false.
Proof. vm_compute. reflexivity. Qed.

(* a view placed in another rank's segment *)
Example checker_rejects_foreign_segment :
  C14_checkb [64; 64] 2 [(64, 0%nat); (64, 1%nat)] [(64, 64); (0, 64)] = false.
Proof. vm_compute. reflexivity. Qed.

(* ---- wrappers for generated case files (all observed integers are Z literals) ---- *)
Definition natpair (p : Z * Z) : Z * nat := (fst p, Z.to_nat (snd p)).
Definition ranks_nonnegb (obs : list (Z * Z)) : bool := forallb (fun p => 0 <=? snd p) obs.

Definition C14_assign_checkbZ (sizes : list Z) (gs : Z) (obs : list (Z * Z)) : bool :=
  (1 <=? gs) && ranks_nonnegb obs && C14_assign_checkb sizes (Z.to_nat gs) (map natpair obs).

Definition C14_checkbZ (sizes : list Z) (gs : Z) (obs : list (Z * Z)) (vs : list (Z * Z)) : bool :=
  (1 <=? gs) && ranks_nonnegb obs && C14_checkb sizes (Z.to_nat gs) (map natpair obs) vs.

Lemma C14_checkbZ_sound sizes gs obs vs :
  C14_checkbZ sizes gs obs vs = true ->
  C14_spec sizes (Z.to_nat gs) (map natpair obs) vs /\ map zpair (map natpair obs) = obs.
Proof.
  unfold C14_checkbZ. rewrite !andb_true_iff, Z.leb_le. intros [[Hgs Hnn] H]. split.
  - apply C14_checkb_sound; [lia|assumption].
  - rewrite map_map. rewrite <- (map_id obs) at 2. apply map_ext_in. intros [a r] Hin.
    unfold ranks_nonnegb in Hnn. rewrite forallb_forall in Hnn. specialize (Hnn _ Hin). cbn [snd] in Hnn.
    apply Z.leb_le in Hnn. unfold zpair, natpair. cbn [fst snd]. rewrite Z2Nat.id by assumption. reflexivity.
Qed.

(* selectors of the gs ranks of one group (as observed, rank by rank): every block selected exactly once *)
Definition partitionb (n : nat) (sels : list (list bool)) : bool :=
  forallb (fun s => (length s =? n)%nat) sels
  && forallb (fun i => sumz (map (fun s : list bool => if nth i s false then 1 else 0) sels) =? 1) (seq 0 n).

Lemma partitionb_sound n sels :
  partitionb n sels = true ->
  Forall (fun s => length s = n) sels
  /\ forall i, (i < n)%nat -> sumz (map (fun s : list bool => if nth i s false then 1 else 0) sels) = 1.
Proof.
  unfold partitionb. rewrite andb_true_iff, !forallb_forall. intros [H1 H2]. split.
  - apply Forall_forall. intros s Hs. apply Nat.eqb_eq. apply H1. assumption.
  - intros i Hi. apply Z.eqb_eq. apply H2. apply in_seq. lia.
Qed.

(* positions of a state mesh for a block owned by group rank src: one position per group, the one with group rank src *)
Definition mesh_okb (src gs R : Z) (pos : list Z) : bool :=
  (1 <=? gs) && (0 <=? src) && (src <? gs) && (R mod gs =? 0)
  && (Z.of_nat (length pos) =? R / gs)
  && forallb (fun k => nth k pos (-1) =? Z.of_nat k * gs + src) (seq 0 (length pos)).

Lemma mesh_okb_sound src gs R pos :
  mesh_okb src gs R pos = true ->
  forall k, (k < length pos)%nat -> nth k pos (-1) = Z.of_nat k * gs + src /\ nth k pos (-1) mod gs = src.
Proof.
  unfold mesh_okb. rewrite !andb_true_iff, forallb_forall, !Z.leb_le, Z.ltb_lt.
  intros [[[[[H1 H2] H3] H4] H5] H6] k Hk. specialize (H6 k ltac:(apply in_seq; lia)). apply Z.eqb_eq in H6.
  split; [assumption|]. rewrite H6, Z.add_comm, Z_mod_plus_full. apply Z.mod_small. lia.
Qed.
