(* C07 - non-vacuity: the hypotheses of the theorems hold on non-trivial instances (computed), and the rank-starvation
   clause of HSDP is refuted on the faithful model by a computed witness (defect F6 through the HSDP copy). *)
From Coq Require Import ZArith List Bool Arith Lia.
From Shampoo Require Import Show SplitRecovery SplitRecoveryProofs Blocking Dist DistProofs Fsdp FsdpProofs FsdpDynProofs.
Import ListNotations.
Open Scope Z_scope.

(* a toy per-block computation on integer elements: the state counts the block's steps, the update is -k*g *)
Definition ex_upd (b : nat) (k : Z) (st : Z) (v g : list Z) : Z * list Z := (st + 1, map (fun x => - (k * x)) g).
Fixpoint ex_add (v q : list Z) : list Z := match v, q with x :: v', y :: q' => x + y :: ex_add v' q' | _, _ => [] end.

(* a rank holding elements [2,10) of a (3,4) parameter (three recovered pieces: 2 + 4 + 2 elements), nothing of a (5,)
   parameter, and the whole of a (2,3) parameter; blocks of at most 2 per dimension *)
Definition ex_ms : list meta := [mkMeta [3; 4] 12 2 10; mkMeta [5] 5 0 0; mkMeta [2; 3] 6 0 6].
Definition ex_T : list (list Z) := [[10; 20; 30; 40; 50; 60; 70; 80]; []; [1; 2; 3; 4; 5; 6]].
Definition ex_h : list (pentry Z) :=
  [ [Some [1; 1; 1; 1; 2; 2; 2; 2]; None; Some [3; 3; 3; 3; 3; 3]];
    [None; Some []; None];                              (* only the parameter with the empty shard has a gradient *)
    [Some [1; 0; 0; 0; 0; 0; 0; 1]; Some []; None] ].

Example ex_hypotheses :
  Forall meta_ok ex_ms /\ tensors_ok ex_ms ex_T /\ Forall (pentry_ok ex_ms) ex_h.
Proof.
  split; [|split].
  - repeat constructor; cbn; lia.
  - repeat constructor.
  - repeat constructor.
Qed.

Example ex_pieces :
  rank_pieces ex_ms = [(0%nat, mk 0 2 [2]); (0%nat, mk 2 4 [1; 4]); (0%nat, mk 6 2 [2]); (2%nat, mk 0 6 [2; 3])]
  /\ length (f_blocks (fsdp_init 2 true ex_ms)) = 6%nat.
Proof. split; reflexivity. Qed.

(* the run: step 2 is skipped (step counter 2 after three inputs), the shards are updated through the block views *)
Example ex_fsdp_run :
  sstepc (fsdp_run 0 0 ex_upd ex_add (fun v => v) 2 true ex_ms ex_T ex_h) = 2
  /\ fsdp_shards 0 0 ex_upd ex_add (fun v => v) 2 true ex_ms ex_T ex_h
     = [[7; 19; 29; 39; 48; 58; 68; 76]; []; [-2; -1; 0; 1; 2; 3]]
  /\ ser_tensors 0 0 ex_upd ex_add (fun v => v) 2 true (piece_shapes ex_ms) (piece_tensors ex_ms ex_T) (map (piece_entry ex_ms) ex_h)
     = [[7; 19]; [29; 39; 48; 58]; [68; 76]; [-2; -1; 0; 1; 2; 3]].
Proof. repeat split; vm_compute; reflexivity. Qed.

(* HSDP column: two replicas, one communication group of two ranks; blocks dealt out alternately: nobody starves *)
Definition ex_owner (b : nat) : nat := (b mod 2)%nat.
Definition ex_hP := hsdp_P 0 ex_upd ex_add (fun v => v) 2 2 ex_owner 2 true ex_ms.
Definition ex_h2 : list (pentry Z) :=
  [ [Some [1; 1; 1; 1; 2; 2; 2; 2]; None; Some [3; 3; 3; 3; 3; 3]];
    [None; Some []; None];
    [Some [1; 0; 0; 0; 0; 0; 0; 1]; Some []; None] ].

Example ex_hsdp_hypotheses :
  wf_config ex_hP /\ sync_hyp ex_hP (map (fsdp_entry 0 2 (fsdp_init 2 true ex_ms) ex_ms) ex_h2).
Proof.
  split.
  - split; [cbn; lia|]. split; [reflexivity|]. intros b _. unfold ex_hP, hsdp_P, blockP. cbn [p_owner p_gs]. unfold ex_owner.
    apply Nat.mod_upper_bound. lia.
  - right. vm_compute. reflexivity.
Qed.

Example ex_hsdp_run :
  exists c, hsdp_col_run 0 0 ex_upd ex_add (fun v => v) 2 2 ex_owner 2 true ex_ms ex_T ex_h2 = Some c
    /\ hsdp_shards 0 2 true ex_ms ex_T c 0 = [[7; 19; 29; 39; 48; 58; 68; 76]; []; [-2; -1; 0; 1; 2; 3]]
    /\ hsdp_shards 0 2 true ex_ms ex_T c 1 = [[7; 19; 29; 39; 48; 58; 68; 76]; []; [-2; -1; 0; 1; 2; 3]].
Proof. eexists. split; [vm_compute; reflexivity|]. split; vm_compute; reflexivity. Qed.

(* Defect F6 through HSDPDistributor (repaired in /repo): rank 0 of the replicate group owns the four blocks of the first
   parameter, rank 1 the two blocks of the third.  A step in which only the third parameter has a gradient leaves rank 0
   with owned blocks but none with a gradient.  With the skip rule as repaired the run exists and the replicas agree; in
   the pre-repair variant (p_global_skip = false) rank 0 skips the step and the all-gather and its peer waits. *)
Definition ex_owner_bad (b : nat) : nat := if (b <? 4)%nat then 0%nat else 1%nat.
Definition ex_hP_bad := hsdp_P 0 ex_upd ex_add (fun v => v) 2 2 ex_owner_bad 2 true ex_ms.
Definition ex_h_bad : list (pentry Z) :=
  [ [Some [1; 1; 1; 1; 2; 2; 2; 2]; None; Some [3; 3; 3; 3; 3; 3]]; [None; None; Some [1; 1; 1; 1; 1; 1]] ].

Theorem hsdp_starvation_harmless :
  wf_config ex_hP_bad /\ (forall r, (r < 2)%nat -> owns_any ex_hP_bad r = true)
  /\ no_starv_entry ex_hP_bad (nth 1 (map (fsdp_entry 0 2 (fsdp_init 2 true ex_ms) ex_ms) ex_h_bad) []) = false
  /\ (exists c, hsdp_col_run 0 0 ex_upd ex_add (fun v => v) 2 2 ex_owner_bad 2 true ex_ms ex_T ex_h_bad = Some c
         /\ vals (cget c 0) = vals (cget c 1) /\ stepc (cget c 0) = 2%Z /\ stepc (cget c 1) = 2%Z)
  /\ ddp_run (set_global_skip ex_hP_bad false) (map (fsdp_entry 0 2 (fsdp_init 2 true ex_ms) ex_ms) ex_h_bad)
             (hsdp_col_init 0 0 ex_upd ex_add (fun v => v) 2 2 ex_owner_bad 2 true ex_ms ex_T) = None.
Proof.
  split; [|split; [|split; [|split]]].
  - split; [cbn; lia|]. split; [reflexivity|]. intros b _. unfold ex_hP_bad, hsdp_P, blockP. cbn [p_owner p_gs]. unfold ex_owner_bad.
    destruct (b <? 4)%nat; lia.
  - intros r Hr. destruct r as [|[|r]]; [reflexivity | reflexivity | lia].
  - vm_compute. reflexivity.
  - eexists. split; [vm_compute; reflexivity|]. repeat split; vm_compute; reflexivity.
  - vm_compute. reflexivity.
Qed.
