(* C06 - the instance of the cluster model that the correspondence check executes (vm_compute inside coqc).

   Block values are lists of binary32 BIT PATTERNS (integers 0 <= b < 2^32), so every comparison with the
   implementation is exact.  The arithmetic the distributor itself performs on them - float32 addition and the
   rounding to the communication dtype (bfloat16 / float16, round to nearest even) - is computed here on the bit
   patterns with integer arithmetic.  The optimizer mathematics (what `upd` returns) is NOT recomputed: the search
   directions -lr*P each owner handed to DDPDistributor.update_params are recorded from the implementation run and
   replayed by a lookup table keyed by (block, step counter) (oracle-in-the-loop, DESIGN 3.3). *)
From Coq Require Import List ZArith Bool Arith Lia.
From Shampoo Require Import Show Dist DistChecker.
Import ListNotations.
Open Scope Z_scope.

(* ---- binary32 on bit patterns (finite values; NaN/inf give -1, which never equals an observed pattern) ---------- *)
Definition f32_dec (bits : Z) : option (bool * Z * Z) :=       (* sign, M, E : value = (-1)^sign * M * 2^E *)
  let e := (bits / 2 ^ 23) mod 256 in
  let m := bits mod 2 ^ 23 in
  if (bits <? 0) || (2 ^ 32 <=? bits) || (e =? 255) then None
  else Some (bits / 2 ^ 31 =? 1, (if e =? 0 then m else m + 2 ^ 23), Z.max e 1 - 150).

(* round M*2^E to nearest-even in the format with p significand bits and least exponent qmin: result k*2^q *)
Definition rne (p qmin M E : Z) : Z * Z :=
  if M =? 0 then (0, qmin) else
  let q := Z.max (E + (Z.log2 M + 1) - p) qmin in
  if q <=? E then (M * 2 ^ (E - q), q)
  else
    let sh := q - E in
    let k0 := M / 2 ^ sh in
    let rem := M mod 2 ^ sh in
    let half := 2 ^ (sh - 1) in
    ((if (half <? rem) || ((rem =? half) && Z.odd k0) then k0 + 1 else k0), q).

Definition f32_inf (s : bool) : Z := (if s then 2 ^ 31 else 0) + 255 * 2 ^ 23.

Definition f32_enc (s : bool) (k q : Z) : Z :=
  let '(k', q') := rne 24 (-149) k q in
  let mag := (q' + 149) * 2 ^ 23 + k' in
  if 255 * 2 ^ 23 <=? mag then f32_inf s else (if s then 2 ^ 31 else 0) + mag.

(* +-infinity (a result that overflowed the storage / communication dtype); NaN stays outside the model *)
Definition f32_is_inf (bits : Z) : bool := (bits =? f32_inf false) || (bits =? f32_inf true).

Definition f32_add (x y : Z) : Z :=
  match f32_dec x, f32_dec y with
  | Some (sx, Mx, Ex), Some (sy, My, Ey) =>
      let E0 := Z.min Ex Ey in
      let S := (if sx then - Mx else Mx) * 2 ^ (Ex - E0) + (if sy then - My else My) * 2 ^ (Ey - E0) in
      if S =? 0 then (if sx && sy then 2 ^ 31 else 0) else f32_enc (S <? 0) (Z.abs S) E0
  | _, _ =>
      if f32_is_inf x then (if f32_is_inf y then (if x =? y then x else -1) else match f32_dec y with Some _ => x | None => -1 end)
      else if f32_is_inf y then (match f32_dec x with Some _ => y | None => -1 end)
      else -1
  end.

(* x -> float32(narrow(x)) for the narrow format (p, qmin, overflow at 2^ovf) *)
Definition f32_cast (p qmin ovf : Z) (bits : Z) : Z :=
  match f32_dec bits with
  | None => if f32_is_inf bits then bits else -1
  | Some (s, M, E) =>
      let '(k, q) := rne p qmin M E in
      if 2 ^ (ovf - qmin) <=? k * 2 ^ (q - qmin) then f32_inf s else f32_enc s k q
  end.

Definition bf16_round : Z -> Z := f32_cast 8 (-133) 128.
Definition fp16_round : Z -> Z := f32_cast 11 (-24) 16.

(* 0 = FP32/DEFAULT, 1 = BF16, 2 = FP16 *)
Definition fmt_cast (fmt : Z) : Z -> Z :=
  if fmt =? 1 then bf16_round else if fmt =? 2 then fp16_round else (fun b => b).

(* 1.0 + 2^-24 rounds to even (1.0); 1.0 + 3*2^-25... a few fixed points of the arithmetic *)
Example f32_add_one_one : f32_add 1065353216 1065353216 = 1073741824. Proof. reflexivity. Qed.           (* 1+1 = 2 *)
Example f32_add_cancel : f32_add 1065353216 3212836864 = 0. Proof. reflexivity. Qed.                      (* 1 + -1 = +0 *)
Example f32_add_tie_even : f32_add 1065353216 864026624 = 1065353216. Proof. reflexivity. Qed.            (* 1 + 2^-24 = 1 *)
Example bf16_round_tie : bf16_round 1065385984 = 1065353216 /\ bf16_round 1065451520 = 1065484288.
Proof. split; reflexivity. Qed.    (* 1+2^-8 -> 1 (even), 1+3*2^-8 -> 1+2^-6 *)
Example fp16_round_overflow : fp16_round 1199566848 = f32_inf false. Proof. reflexivity. Qed.             (* 65520 -> inf *)
Example f32_inf_arith :
  f32_add (f32_inf false) 1065353216 = f32_inf false /\ f32_add 3212836864 (f32_inf true) = f32_inf true
  /\ f32_add (f32_inf false) (f32_inf true) = -1 /\ fp16_round (f32_inf true) = f32_inf true
  /\ f32_add 2139095039 2139095039 = f32_inf false.      (* max + max overflows *)
Proof. repeat split; reflexivity. Qed.
Example fp16_round_subnormal : fp16_round 855638016 = 0 /\ fp16_round 864026624 = 864026624.
Proof. split; reflexivity. Qed.    (* 2^-25 -> 0 (tie to even), 2^-24 stays *)

(* ---- the instance ---------------------------------------------------------------------------------------------- *)
Fixpoint map2 {A B C} (f : A -> B -> C) (l1 : list A) (l2 : list B) : list C :=
  match l1, l2 with
  | a :: r1, b :: r2 => f a b :: map2 f r1 r2
  | _, _ => []
  end.

Definition vadd : list Z -> list Z -> list Z := map2 f32_add.

Definition table := list (nat * Z * list Z).      (* (block, step counter) -> recorded search direction bits *)
Fixpoint lookup (t : table) (b : nat) (k : Z) : list Z :=
  match t with
  | [] => []
  | (b', k', u) :: r => if (b' =? b)%nat && (k' =? k) then u else lookup r b k
  end.

Definition exec_params (world gs nb : nat) (owners : list nat) (nbytes : nat) (cp : bool) (fmt : Z) (t : table)
           (global_skip eager : bool) : params unit (list Z) unit :=
  mkParams [] tt
    (fun b k _ v _ => (tt, let u := lookup t b k in if cp then vadd v u else u))
    (fun v q => if cp then q else vadd v q)
    (map (fmt_cast fmt))
    world gs nb (fun b => nth b owners 0%nat) nbytes global_skip eager.

Definition entry_of (presence : list bool) : entry unit := map (fun b : bool => if b then Some tt else None) presence.

(* the scheduler of Dist.v, recording for every rank the block values after each of ITS steps *)
Section Trace.
  Variable P : params unit (list Z) unit.

  Definition completed (before after : proc unit (list Z) unit) : bool :=
    negb (waitingb after) && (waitingb before || (length (prem after) <? length (prem before))%nat).

  Fixpoint sched_trace (fuel : nat) (c : config unit (list Z) unit) (tr : list (list snapshot))
    : config unit (list Z) unit * list (list snapshot) :=
    match fuel with
    | O => (c, tr)
    | S f =>
        match stepb P c with
        | None => (c, tr)
        | Some c' =>
            sched_trace f c'
              (tab (p_world P) (fun r => let t := nth r tr [] in
                                         if completed (pget c r) (pget c' r) then t ++ [vals (pst (pget c' r))] else t))
        end
    end.

  Definition model_obs (h : history unit) (v0 b0 : snapshot) (fuel : nat) : observed :=
    let c0 := init_cluster P v0 (repeat tt (p_nb P)) b0 in
    let '(c, tr) := sched_trace fuel (init_config P h c0) (repeat [] (p_world P)) in
    mkObs tr (map (fun p => log (pst p)) c) (map waitingb c).

  Definition synced (h : history unit) : bool := p_global_skip P || forallb (no_starv_entry P) h.

  (* the lock-step definition against the same observation: it runs iff nobody starves, and then ends where the
     implementation ended *)
  Definition lockstep_agree (h : history unit) (v0 b0 : snapshot) (final : list snapshot) : bool :=
    match ddp_run P h (init_cluster P v0 (repeat tt (p_nb P)) b0) with
    | Some cf => synced h && list_eqb snapshot_eqb (map vals cf) final
    | None => negb (synced h)
    end.
End Trace.

Definition obs_eqb (a b : observed) : bool :=
  list_eqb snaps_eqb (o_snaps a) (o_snaps b) && list_eqb log_eqb (o_logs a) (o_logs b) && list_eqb Bool.eqb (o_hung a) (o_hung b).

Definition last_or {A} (l : list A) (d : A) : A := last l d.

(* one scenario: the model run (any schedule: `sched`) against everything observed on the simulated cluster;
   `py_starves` is the harness's own evaluation of the rank-starvation signature, cross-checked here *)
Definition C06_agree (P : params unit (list Z) unit) (presence : list (list bool)) (v0 b0 : snapshot)
           (py_starves : bool) (o : observed) : bool :=
  let h := map entry_of presence in
  let fuel := (4 * (length h + 1) * (p_world P + 1))%nat in
  obs_eqb (model_obs P h v0 b0 fuel) o
  && Bool.eqb py_starves (negb (forallb (no_starv_entry P) h))
  && (if forallb negb (o_hung o)
      then lockstep_agree P h v0 b0 (map (fun s => last_or s v0) (o_snaps o))
      else negb (synced P h)).

(* the same, for scenarios whose VALUES are outside the executable arithmetic (parameters that are not float32): only
   the per-rank logs and the set of hung ranks are compared with the model (they do not depend on values) *)
Definition C06_agree_logs (P : params unit (list Z) unit) (presence : list (list bool)) (py_starves : bool) (o : observed) : bool :=
  let h := map entry_of presence in
  let fuel := (4 * (length h + 1) * (p_world P + 1))%nat in
  let m := model_obs P h [] [] fuel in
  list_eqb log_eqb (o_logs m) (o_logs o) && list_eqb Bool.eqb (o_hung m) (o_hung o)
  && Bool.eqb py_starves (negb (forallb (no_starv_entry P) h)).
