(* C13 - lemmas and theorems about the model in Failures.v *)
From Coq Require Import List Bool Arith PeanoNat Lia.
From Shampoo Require Import Show Failures.
Import ListNotations.

(* ============================================================================================== *)
(* A. lists *)

Lemma upd_length {A} (l : list A) n x : length (upd l n x) = length l.
Proof. revert n; induction l as [|a l IH]; intros [|n]; cbn; auto. Qed.

Lemma upd_app {A} (pre : list A) a suf x : upd (pre ++ a :: suf) (length pre) x = pre ++ x :: suf.
Proof. induction pre as [|p pre IH]; cbn; [reflexivity|]. now rewrite IH. Qed.

Lemma nth_error_app_mid {A} (pre : list A) a suf : nth_error (pre ++ a :: suf) (length pre) = Some a.
Proof. induction pre; cbn; auto. Qed.

Lemma map_upd {A B} (f : A -> B) l n x : map f (upd l n x) = upd (map f l) n (f x).
Proof. revert n; induction l as [|a l IH]; intros [|n]; cbn; auto. now rewrite IH. Qed.

Lemma upd_same {A} (l : list A) n x : nth_error l n = Some x -> upd l n x = l.
Proof.
  revert n; induction l as [|a l IH]; intros [|n]; cbn; intros H; try discriminate; auto.
  - now inversion H.
  - now rewrite IH.
Qed.

Lemma map_upd_same {A B} (f : A -> B) l n x y : nth_error l n = Some y -> f x = f y -> map f (upd l n x) = map f l.
Proof.
  intros H E. rewrite map_upd, E. apply upd_same. now apply map_nth_error.
Qed.

Lemma nth_error_map' {A B} (f : A -> B) l n : nth_error (map f l) n = option_map f (nth_error l n).
Proof. revert n; induction l as [|a l IH]; intros [|n]; cbn; auto. Qed.

Lemma nth_error_upd_eq {A} (l : list A) n x : n < length l -> nth_error (upd l n x) n = Some x.
Proof. revert n; induction l as [|a l IH]; intros [|n]; cbn; intros H; try lia; auto. apply IH; lia. Qed.

Lemma nth_error_upd_neq {A} (l : list A) n m x : n <> m -> nth_error (upd l n x) m = nth_error l m.
Proof.
  revert n m; induction l as [|a l IH]; intros [|n] [|m]; cbn; intros H; auto; try congruence.
Qed.

Lemma list_eqb_bool_eq (a b : list bool) : sel_eqb a b = true -> a = b.
Proof.
  unfold sel_eqb. revert b; induction a as [|x a IH]; destruct b as [|y b]; cbn [list_eqb]; intros H; try discriminate; auto.
  apply andb_true_iff in H as [H1 H2]. apply Bool.eqb_prop in H1. f_equal; auto.
Qed.

(* ============================================================================================== *)
(* B. the factors of one block *)

Definition fin_ok (f : factor_state) : Prop := finite f = true.
Definition facts_ok (fs : list factor_state) : Prop := Forall fin_ok fs.

(* inputs that make _amortized_computation raise PreconditionerValueError at a factor *)
Definition is_nonfinite (r : routine_outcome) : bool :=
  match r with SuccessNonFinite | SuccessOverflowsStorage => true | _ => false end.
Definition bad_at (fi : nat -> factor_input) (k : nat) : bool := negb (fm_finite (fi k)) || is_nonfinite (rout (fi k)).
Definition first_bad (fi : nat -> factor_input) (k n : nat) : option nat := find (bad_at fi) (seq k n).
(* the refresh of a block "contains a failure" *)
Definition failedb (n : nat) (fi : nat -> factor_input) : bool := existsb (fun k => is_fail (rout (fi k))) (seq 0 n).
Definition failed_from (k n : nat) (fi : nat -> factor_input) : bool := existsb (fun k => is_fail (rout (fi k))) (seq k n).

Lemma run_factors_length tk fi : forall fs k, length (f_new (run_factors tk k fs fi)) = length fs.
Proof.
  induction fs as [|f fs IH]; intros k; cbn [run_factors]; [reflexivity|].
  destruct (negb (fm_finite (fi k))); [reflexivity|].
  destruct (negb (finite (candidate tk f (rout (fi k))))); [reflexivity|].
  cbn. now rewrite IH.
Qed.

Lemma run_factors_pve tk fi : forall fs k, facts_ok fs ->
  f_pve (run_factors tk k fs fi) = first_bad fi k (length fs).
Proof.
  induction fs as [|f fs IH]; intros k Hok; cbn [run_factors]; [reflexivity|].
  inversion Hok as [|? ? Hf Hfs]; subst.
  unfold first_bad. cbn [length seq find]. unfold bad_at at 1.
  destruct (fm_finite (fi k)); cbn [negb orb]; [|reflexivity].
  destruct (rout (fi k)) eqn:Er; cbn [candidate finite negb is_nonfinite]; try reflexivity.
  - cbn. apply IH; assumption.
  - unfold fin_ok in Hf. rewrite Hf. cbn. apply IH; assumption.
Qed.

Lemma run_factors_allok tk fi : forall fs k, f_pve (run_factors tk k fs fi) = None ->
  f_allok (run_factors tk k fs fi) = negb (failed_from k (length fs) fi).
Proof.
  induction fs as [|f fs IH]; intros k; cbn [run_factors]; [reflexivity|].
  destruct (negb (fm_finite (fi k))); [discriminate|].
  destruct (negb (finite (candidate tk f (rout (fi k))))); [discriminate|].
  cbn [f_pve f_allok]. intros H. rewrite (IH _ H).
  unfold failed_from. cbn [length seq existsb]. unfold is_fail at 2.
  destruct (is_ok (rout (fi k))); cbn; reflexivity.
Qed.

(* every stored matrix afterwards: the old one, or a fresh finite one made by a successful call *)
Lemma run_factors_nth tk fi : forall fs k j f, nth_error fs j = Some f ->
  exists f', nth_error (f_new (run_factors tk k fs fi)) j = Some f' /\
    (f' = f \/ (rout (fi (k + j)) = Success /\ fm_finite (fi (k + j)) = true /\ f' = {| tok := tk; finite := true |})).
Proof.
  induction fs as [|f0 fs IH]; intros k j f H; [destruct j; discriminate|].
  cbn [run_factors].
  destruct (fm_finite (fi k)) eqn:Efm; cbn [negb]; [|exists f; split; [exact H|now left]].
  destruct (finite (candidate tk f0 (rout (fi k)))) eqn:Ec; cbn [negb]; [|exists f; split; [exact H|now left]].
  cbn [f_new]. destruct j as [|j].
  - cbn in H. inversion H; subst f0. cbn. rewrite Nat.add_0_r.
    eexists; split; [reflexivity|].
    destruct (rout (fi k)) eqn:Er; cbn [candidate] in *.
    + right; auto.
    + discriminate.
    + discriminate.
    + now left.
  - cbn in H. cbn [nth_error]. destruct (IH (S k) j f H) as [f' [H1 H2]].
    exists f'; split; [exact H1|]. now rewrite Nat.add_succ_r.
Qed.

Lemma run_factors_ok tk fi : forall fs k, facts_ok fs -> facts_ok (f_new (run_factors tk k fs fi)).
Proof.
  induction fs as [|f fs IH]; intros k Hok; cbn [run_factors]; [constructor|].
  inversion Hok as [|? ? Hf Hfs]; subst.
  destruct (negb (fm_finite (fi k))); [exact Hok|].
  destruct (finite (candidate tk f (rout (fi k)))) eqn:Ec; cbn [negb]; [|exact Hok].
  cbn [f_new]. constructor; [exact Ec|apply IH; assumption].
Qed.

(* a successful computation on a finite factor matrix is stored, for every factor in front of the one (if any)
   at which the PreconditionerValueError is raised - whatever the other factors of the block did *)
Lemma run_factors_success_stored tk fi : forall fs k j f, nth_error fs j = Some f -> facts_ok fs ->
  rout (fi (k + j)) = Success -> fm_finite (fi (k + j)) = true ->
  match first_bad fi k (length fs) with Some k' => k + j < k' | None => True end ->
  nth_error (f_new (run_factors tk k fs fi)) j = Some {| tok := tk; finite := true |}.
Proof.
  induction fs as [|f0 fs IH]; intros k j f H Hok Hs Hfm Hb; [destruct j; discriminate|].
  inversion Hok as [|? ? Hf0 Hfs]; subst.
  cbn [run_factors]. unfold first_bad in Hb. cbn [length seq find] in Hb. destruct j as [|j].
  - rewrite Nat.add_0_r in *. rewrite Hfm, Hs. cbn. reflexivity.
  - destruct (bad_at fi k) eqn:Eb; [lia|].
    unfold bad_at in Eb. apply orb_false_iff in Eb as [E1 E2]. apply negb_false_iff in E1. rewrite E1. cbn [negb].
    assert (Hc : finite (candidate tk f0 (rout (fi k))) = true).
    { destruct (rout (fi k)); cbn in *; try discriminate; auto. }
    rewrite Hc. cbn [negb f_new nth_error]. cbn in H.
    rewrite Nat.add_succ_r in Hs, Hfm, Hb.
    apply (IH (S k) j f H Hfs); [exact Hs|exact Hfm|exact Hb].
Qed.

(* a failing computation leaves the stored matrix as it was *)
Lemma run_factors_fail_keeps tk fi : forall fs k j f, nth_error fs j = Some f ->
  rout (fi (k + j)) = Fail -> nth_error (f_new (run_factors tk k fs fi)) j = Some f.
Proof.
  intros fs k j f H Hf. destruct (run_factors_nth tk fi fs k j f H) as [f' [H1 [H2|[H2 _]]]]; [now subst|congruence].
Qed.

(* ============================================================================================== *)
(* C. one block *)

Definition block_ok (sb : block_state) : Prop := facts_ok (facts sb).

Lemma run_block_exc N tk b sb bi : block_ok sb ->
  bl_exc (run_block N tk b sb bi) =
    match first_bad (fin bi) 0 (length (facts sb)) with
    | Some k => Some (RaisePVE b k)
    | None => if failedb (length (facts sb)) (fin bi) && (N <? S (cnt sb)) then Some (RaiseTol b) else None
    end.
Proof.
  intros Hok. unfold run_block.
  pose proof (run_factors_pve tk (fin bi) (facts sb) 0 Hok) as Hp.
  pose proof (run_factors_allok tk (fin bi) (facts sb) 0) as Ha.
  destruct (f_pve (run_factors tk 0 (facts sb) (fin bi))) as [k|]; rewrite <- Hp; [reflexivity|].
  rewrite (Ha eq_refl). unfold failedb, failed_from.
  destruct (existsb _ _); cbn; [|reflexivity]. destruct (N <? S (cnt sb)); reflexivity.
Qed.

Lemma run_block_cnt N tk b sb bi : block_ok sb ->
  cnt (bl_state (run_block N tk b sb bi)) =
    match first_bad (fin bi) 0 (length (facts sb)) with
    | Some _ => cnt sb
    | None => if failedb (length (facts sb)) (fin bi) then S (cnt sb) else 0
    end.
Proof.
  intros Hok. unfold run_block.
  pose proof (run_factors_pve tk (fin bi) (facts sb) 0 Hok) as Hp.
  pose proof (run_factors_allok tk (fin bi) (facts sb) 0) as Ha.
  destruct (f_pve (run_factors tk 0 (facts sb) (fin bi))) as [k|]; rewrite <- Hp; [reflexivity|].
  rewrite (Ha eq_refl). unfold failedb, failed_from.
  destruct (existsb _ _); reflexivity.
Qed.

Lemma run_block_facts N tk b sb bi : facts (bl_state (run_block N tk b sb bi)) = f_new (run_factors tk 0 (facts sb) (fin bi)).
Proof.
  unfold run_block. destruct (f_pve _); [reflexivity|]. destruct (f_allok _); reflexivity.
Qed.

Lemma run_block_ptok N tk b sb bi : ptok (bl_state (run_block N tk b sb bi)) = ptok sb.
Proof.
  unfold run_block. destruct (f_pve _); [reflexivity|]. destruct (f_allok _); reflexivity.
Qed.

Lemma run_block_ok N tk b sb bi : block_ok sb -> block_ok (bl_state (run_block N tk b sb bi)).
Proof. unfold block_ok. rewrite run_block_facts. apply run_factors_ok. Qed.

Lemma run_block_nfacts N tk b sb bi : length (facts (bl_state (run_block N tk b sb bi))) = length (facts sb).
Proof. rewrite run_block_facts. apply run_factors_length. Qed.

Definition exc_block (o : outcome) : option nat :=
  match o with Ok => None | RaiseTol b => Some b | RaisePVE b _ => Some b end.

Lemma run_block_exc_block N tk b sb bi e : bl_exc (run_block N tk b sb bi) = Some e -> exc_block e = Some b.
Proof.
  unfold run_block. destruct (f_pve _); cbn [bl_exc]; [intros H; inversion H; reflexivity|].
  destruct (f_allok _); cbn [bl_exc]; [discriminate|]. destruct (N <? S (cnt sb)); intros H; inversion H; reflexivity.
Qed.

(* ============================================================================================== *)
(* D. the loop over the blocks (structural form) *)

(* block b was reached by the loop / completed its factor computations and its counter update *)
Definition reached (b : nat) (o : outcome) : bool :=
  match exc_block o with None => true | Some b' => b <=? b' end.
Definition completed (b : nat) (o : outcome) : bool :=
  match o with Ok => true | RaiseTol b' => b <=? b' | RaisePVE b' _ => b <? b' end.

Lemma completed_reached b o : completed b o = true -> reached b o = true.
Proof.
  destruct o; cbn; auto. intros H. apply Nat.ltb_lt in H. apply Nat.leb_le. lia.
Qed.

Section Loop.
  Variables (N tk : nat) (inp : step_input).

  Lemma run_blocks_length : forall bs b0, length (b_blocks (run_blocks N tk b0 bs inp)) = length bs.
  Proof.
    induction bs as [|sb bs IH]; intros b0; cbn [run_blocks]; [reflexivity|].
    destruct (present (inp b0)).
    - destruct (bl_exc _); cbn; [reflexivity|now rewrite IH].
    - cbn. now rewrite IH.
  Qed.

  Lemma run_blocks_out_range : forall bs b0 b', exc_block (b_out (run_blocks N tk b0 bs inp)) = Some b' ->
    b0 <= b' < b0 + length bs.
  Proof.
    induction bs as [|sb bs IH]; intros b0 b'; cbn [run_blocks]; [discriminate|].
    destruct (present (inp b0)).
    - destruct (bl_exc _) as [e|] eqn:E; cbn [b_out].
      + intros H. apply run_block_exc_block in E. rewrite E in H. inversion H; subst. cbn; lia.
      + intros H. apply IH in H. cbn; lia.
    - cbn [b_out]. intros H. apply IH in H. cbn; lia.
  Qed.

  (* the state of block b0+j afterwards *)
  Lemma run_blocks_nth : forall bs b0 j sb, nth_error bs j = Some sb ->
    nth_error (b_blocks (run_blocks N tk b0 bs inp)) j =
      Some (if present (inp (b0 + j)) && reached (b0 + j) (b_out (run_blocks N tk b0 bs inp))
            then bl_state (run_block N tk (b0 + j) sb (inp (b0 + j))) else sb).
  Proof.
    induction bs as [|a bs IH]; intros b0 j sb H; [destruct j; discriminate|].
    cbn [run_blocks]. destruct j as [|j].
    - cbn in H. inversion H; subst a. rewrite Nat.add_0_r.
      destruct (present (inp b0)) eqn:Ep; cbn [andb].
      + destruct (bl_exc _) as [e|] eqn:E; cbn [b_out b_blocks nth_error].
        * apply run_block_exc_block in E. unfold reached. rewrite E, Nat.leb_refl. reflexivity.
        * unfold reached. destruct (exc_block _) as [b'|] eqn:Eb; [|reflexivity].
          apply run_blocks_out_range in Eb. replace (b0 <=? b') with true; [reflexivity|].
          symmetry; apply Nat.leb_le; lia.
      + reflexivity.
    - cbn in H. rewrite Nat.add_succ_r. change (S (b0 + j)) with (S b0 + j).
      destruct (present (inp b0)) eqn:Ep.
      + destruct (bl_exc _) as [e|] eqn:E; cbn [b_out b_blocks nth_error].
        * apply run_block_exc_block in E. unfold reached. rewrite E.
          replace (S b0 + j <=? b0) with false; [now rewrite andb_false_r|].
          symmetry; apply Nat.leb_gt; lia.
        * apply IH; exact H.
      + cbn [b_out b_blocks nth_error]. apply IH; exact H.
  Qed.

  (* an exception is the exception of some present block *)
  Lemma run_blocks_out_some : forall bs b0, b_out (run_blocks N tk b0 bs inp) <> Ok ->
    exists j sb, nth_error bs j = Some sb /\ present (inp (b0 + j)) = true /\
                 bl_exc (run_block N tk (b0 + j) sb (inp (b0 + j))) = Some (b_out (run_blocks N tk b0 bs inp)).
  Proof.
    induction bs as [|a bs IH]; intros b0; cbn [run_blocks]; [cbn; congruence|].
    destruct (present (inp b0)) eqn:Ep.
    - destruct (bl_exc _) as [e|] eqn:E; cbn [b_out].
      + intros _. exists 0, a. rewrite Nat.add_0_r. auto.
      + intros H. destruct (IH (S b0) H) as [j [sb [H1 [H2 H3]]]].
        exists (S j), sb. rewrite Nat.add_succ_r. auto.
    - cbn [b_out]. intros H. destruct (IH (S b0) H) as [j [sb [H1 [H2 H3]]]].
      exists (S j), sb. rewrite Nat.add_succ_r. auto.
  Qed.

  (* ... namely of the first present block that has one: a reached block's exception is the outcome *)
  Lemma run_blocks_out_first : forall bs b0 j sb e, nth_error bs j = Some sb -> present (inp (b0 + j)) = true ->
    reached (b0 + j) (b_out (run_blocks N tk b0 bs inp)) = true ->
    bl_exc (run_block N tk (b0 + j) sb (inp (b0 + j))) = Some e ->
    b_out (run_blocks N tk b0 bs inp) = e.
  Proof.
    induction bs as [|a bs IH]; intros b0 j sb e H; [destruct j; discriminate|].
    cbn [run_blocks]. destruct j as [|j].
    - cbn in H. inversion H; subst a. rewrite Nat.add_0_r. intros Hp _ He. rewrite Hp, He. reflexivity.
    - cbn in H. rewrite Nat.add_succ_r. change (S (b0 + j)) with (S b0 + j). intros Hp.
      destruct (present (inp b0)) eqn:Ep.
      + destruct (bl_exc (run_block N tk b0 a (inp b0))) as [e0|] eqn:E; cbn [b_out].
        * apply run_block_exc_block in E. unfold reached. rewrite E. intros Hr. apply Nat.leb_le in Hr. lia.
        * apply IH; assumption.
      + cbn [b_out]. apply IH; assumption.
  Qed.

  Lemma run_blocks_ok : forall bs b0, Forall block_ok bs -> Forall block_ok (b_blocks (run_blocks N tk b0 bs inp)).
  Proof.
    induction bs as [|a bs IH]; intros b0 H; cbn [run_blocks]; [constructor|].
    inversion H as [|? ? Ha Hbs]; subst.
    destruct (present (inp b0)).
    - destruct (bl_exc _); cbn [b_blocks]; constructor; auto using run_block_ok.
    - cbn [b_blocks]. constructor; auto.
  Qed.

  (* the loop over the masked index list, as the code runs it, is the structural loop *)
  Lemma run_masked_blocks : forall suf pre,
    run_masked N tk (compress_idx (length pre) (map (fun b => present (inp b)) (seq (length pre) (length suf)))) (pre ++ suf) inp
    = let r := run_blocks N tk (length pre) suf inp in
      {| b_blocks := pre ++ b_blocks r; b_out := b_out r; b_calls := b_calls r |}.
  Proof.
    induction suf as [|a suf IH]; intros pre.
    - cbn. now rewrite app_nil_r.
    - cbn [length seq map compress_idx run_blocks].
      assert (Hl : length (pre ++ [a]) = S (length pre)) by (rewrite app_length; cbn; lia).
      destruct (present (inp (length pre))) eqn:Ep.
      + cbn [run_masked]. rewrite nth_error_app_mid, upd_app.
        destruct (bl_exc (run_block N tk (length pre) a (inp (length pre)))) as [e|] eqn:E; [reflexivity|].
        set (x := bl_state (run_block N tk (length pre) a (inp (length pre)))).
        assert (Hx : length (pre ++ [x]) = S (length pre)) by (rewrite app_length; cbn; lia).
        replace (pre ++ x :: suf) with ((pre ++ [x]) ++ suf) by (rewrite <- app_assoc; reflexivity).
        rewrite <- Hx. rewrite IH. cbn. rewrite <- app_assoc. reflexivity.
      + replace (pre ++ a :: suf) with ((pre ++ [a]) ++ suf) by (rewrite <- app_assoc; reflexivity).
        rewrite <- Hl. rewrite IH. cbn. rewrite <- app_assoc. reflexivity.
  Qed.
End Loop.

(* ============================================================================================== *)
(* E. one optimizer step *)

Section LoopMore.
  Variables (N tk : nat) (inp : step_input).

  Lemma run_blocks_completed : forall bs b0 j sb, nth_error bs j = Some sb -> block_ok sb ->
    present (inp (b0 + j)) = true ->
    completed (b0 + j) (b_out (run_blocks N tk b0 bs inp)) =
      reached (b0 + j) (b_out (run_blocks N tk b0 bs inp))
      && match first_bad (fin (inp (b0 + j))) 0 (length (facts sb)) with None => true | Some _ => false end.
  Proof.
    intros bs b0 j sb H Hok Hp.
    pose proof (run_block_exc N tk (b0 + j) sb (inp (b0 + j)) Hok) as Hexc.
    destruct (reached (b0 + j) (b_out (run_blocks N tk b0 bs inp))) eqn:Er; cbn [andb].
    - destruct (first_bad _ _ _) as [k|] eqn:Ef.
      + rewrite (run_blocks_out_first N tk inp bs b0 j sb _ H Hp Er Hexc). cbn. apply Nat.ltb_irrefl.
      + destruct (b_out (run_blocks N tk b0 bs inp)) as [|b'|b' k] eqn:Eo; cbn; [reflexivity|exact Er|].
        unfold reached in Er; cbn in Er. apply Nat.leb_le in Er. apply Nat.ltb_lt.
        destruct (Nat.eq_dec (b0 + j) b') as [Heq|Hne]; [|lia]. exfalso.
        assert (Hn : b_out (run_blocks N tk b0 bs inp) <> Ok) by (rewrite Eo; discriminate).
        destruct (run_blocks_out_some N tk inp bs b0 Hn) as [j' [sb' [H1 [H2 H3]]]].
        rewrite Eo in H3. pose proof (run_block_exc_block _ _ _ _ _ _ H3) as H4. cbn in H4.
        assert (j' = j) by (inversion H4; lia). subst j'. rewrite H in H1; inversion H1; subst sb'.
        rewrite Hexc in H3. destruct (failedb _ _ && _); discriminate.
    - destruct (completed _ _) eqn:Ec; [|reflexivity]. apply completed_reached in Ec. congruence.
  Qed.

  Lemma run_blocks_nfacts : forall bs b0,
    map (fun sb => length (facts sb)) (b_blocks (run_blocks N tk b0 bs inp)) = map (fun sb => length (facts sb)) bs.
  Proof.
    induction bs as [|a bs IH]; intros b0; cbn [run_blocks]; [reflexivity|].
    destruct (present (inp b0)).
    - destruct (bl_exc _); cbn [b_blocks map]; rewrite run_block_nfacts; [reflexivity|now rewrite IH].
    - cbn [b_blocks map]. now rewrite IH.
  Qed.

  Lemma run_blocks_ptok : forall bs b0, map ptok (b_blocks (run_blocks N tk b0 bs inp)) = map ptok bs.
  Proof.
    induction bs as [|a bs IH]; intros b0; cbn [run_blocks]; [reflexivity|].
    destruct (present (inp b0)).
    - destruct (bl_exc _); cbn [b_blocks map]; rewrite run_block_ptok; [reflexivity|now rewrite IH].
    - cbn [b_blocks map]. now rewrite IH.
  Qed.
End LoopMore.

Definition mask_inv (st : state) : Prop := forall s, prev_sel st = Some s -> masked st = compress_idx 0 s.

Lemma mask_state_masked st sel : mask_inv st -> masked (mask_state st sel) = compress_idx 0 sel.
Proof.
  intros H. unfold mask_state. destruct (prev_sel st) as [s|] eqn:E; [|reflexivity].
  destruct (sel_eqb s sel) eqn:Es; [|reflexivity].
  apply list_eqb_bool_eq in Es. subst. now apply H.
Qed.

Lemma mask_state_inv st sel : mask_inv st -> mask_inv (mask_state st sel).
Proof.
  intros H. unfold mask_state. destruct (prev_sel st) as [s|] eqn:E.
  - destruct (sel_eqb s sel); [exact H|]. intros s' Hs. cbn in *. now inversion Hs.
  - intros s' Hs. cbn in *. now inversion Hs.
Qed.

Lemma mask_state_blocks st sel : blocks (mask_state st sel) = blocks st.
Proof. unfold mask_state. destruct (match prev_sel st with Some s => sel_eqb s sel | None => false end); reflexivity. Qed.
Lemma mask_state_gstep st sel : gstep (mask_state st sel) = gstep st.
Proof. unfold mask_state. destruct (match prev_sel st with Some s => sel_eqb s sel | None => false end); reflexivity. Qed.
Lemma mask_state_tick st sel : tick (mask_state st sel) = tick st.
Proof. unfold mask_state. destruct (match prev_sel st with Some s => sel_eqb s sel | None => false end); reflexivity. Qed.

(* phase 2 touches parameter tokens only *)
Lemma phase2_proj {B} (f : block_state -> B) tk : (forall sb, f (set_ptok tk sb) = f sb) ->
  forall ms bs, map f (phase2 tk ms bs) = map f bs.
Proof.
  intros Hf. induction ms as [|b ms IH]; intros bs; cbn [phase2]; [reflexivity|].
  destruct (nth_error bs b) as [sb|] eqn:E; [|apply IH].
  rewrite IH. apply (map_upd_same f bs b _ sb E). apply Hf.
Qed.

(* is this step a refresh: some block present and the advanced group step counter is on schedule *)
Definition refresh_of (c : cfg) (st : state) (inp : step_input) : bool :=
  any_present (length (blocks st)) inp && is_refresh c (S (gstep st)).

(* phase 1 in structural form *)
Definition ph1 (c : cfg) (st : state) (inp : step_input) : bres :=
  if refresh_of c st inp then run_blocks (tol c) (S (tick st)) 0 (blocks st) inp
  else {| b_blocks := blocks st; b_out := Ok; b_calls := 0 |}.

Lemma step_out c st inp : mask_inv st -> snd (step c st inp) = b_out (ph1 c st inp).
Proof.
  intros Hm. unfold step, ph1, refresh_of.
  destruct (any_present (length (blocks st)) inp) eqn:Ea; cbn [negb andb snd]; [|reflexivity].
  rewrite mask_state_gstep, mask_state_blocks, (mask_state_masked _ _ Hm). unfold phase1.
  destruct (is_refresh c (S (gstep st))); [|reflexivity].
  unfold selector. pose proof (run_masked_blocks (tol c) (S (tick st)) inp (blocks st) []) as Hrm.
    cbn [length app] in Hrm. rewrite Hrm. reflexivity.
Qed.

Lemma step_blocks c st inp : mask_inv st ->
  blocks (fst (step c st inp)) =
    match b_out (ph1 c st inp) with
    | Ok => if any_present (length (blocks st)) inp
            then phase2 (S (tick st)) (compress_idx 0 (selector (length (blocks st)) inp)) (b_blocks (ph1 c st inp))
            else blocks st
    | _ => b_blocks (ph1 c st inp)
    end.
Proof.
  intros Hm. unfold step, ph1, refresh_of.
  destruct (any_present (length (blocks st)) inp) eqn:Ea; cbn [negb andb fst blocks].
  - rewrite mask_state_gstep, mask_state_blocks, (mask_state_masked _ _ Hm). unfold phase1.
    destruct (is_refresh c (S (gstep st))); [|reflexivity].
    unfold selector. pose proof (run_masked_blocks (tol c) (S (tick st)) inp (blocks st) []) as Hrm.
    cbn [length app] in Hrm. rewrite Hrm. reflexivity.
  - cbn. apply mask_state_blocks.
Qed.

Lemma step_proj {B} (f : block_state -> B) c st inp : mask_inv st -> (forall tk sb, f (set_ptok tk sb) = f sb) ->
  map f (blocks (fst (step c st inp))) = map f (b_blocks (ph1 c st inp)).
Proof.
  intros Hm Hf. rewrite (step_blocks c st inp Hm).
  destruct (b_out (ph1 c st inp)) eqn:Eo; try reflexivity.
  destruct (any_present _ _) eqn:Ea; [apply phase2_proj, Hf|].
  unfold ph1, refresh_of. rewrite Ea. reflexivity.
Qed.

Lemma step_gstep c st inp : gstep (fst (step c st inp)) = if any_present (length (blocks st)) inp then S (gstep st) else gstep st.
Proof.
  unfold step. destruct (any_present _ _); cbn [negb fst gstep]; now rewrite mask_state_gstep.
Qed.

Lemma step_tick c st inp : tick (fst (step c st inp)) = S (tick st).
Proof. unfold step. destruct (any_present _ _); reflexivity. Qed.

Lemma ph1_length c st inp : length (b_blocks (ph1 c st inp)) = length (blocks st).
Proof. unfold ph1. destruct (refresh_of c st inp); [apply run_blocks_length|reflexivity]. Qed.

Lemma step_length c st inp : mask_inv st -> length (blocks (fst (step c st inp))) = length (blocks st).
Proof.
  intros Hm. rewrite <- (map_length cnt), (step_proj cnt c st inp Hm), map_length; [apply ph1_length|reflexivity].
Qed.

(* invariant of reachable states *)
Record inv (c : cfg) (st : state) : Prop := {
  inv_mask : mask_inv st;
  inv_ok : Forall block_ok (blocks st);
  inv_nf : map (fun sb => length (facts sb)) (blocks st) = nfs c }.

Lemma inv_init c : inv c (init c).
Proof.
  split.
  - intros s H; discriminate.
  - cbn. apply Forall_forall. intros sb Hin. apply in_map_iff in Hin as [nf [<- _]].
    unfold block_ok, facts_ok; cbn. apply Forall_forall. intros f Hf. apply repeat_spec in Hf. now subst.
  - cbn. rewrite map_map. cbn. rewrite <- (map_id (nfs c)) at 2. apply map_ext. intros. apply repeat_length.
Qed.

Lemma ph1_ok c st inp : Forall block_ok (blocks st) -> Forall block_ok (b_blocks (ph1 c st inp)).
Proof. intros H. unfold ph1. destruct (refresh_of c st inp); [apply run_blocks_ok; exact H|exact H]. Qed.

Lemma ph1_nfacts c st inp :
  map (fun sb => length (facts sb)) (b_blocks (ph1 c st inp)) = map (fun sb => length (facts sb)) (blocks st).
Proof. unfold ph1. destruct (refresh_of c st inp); [apply run_blocks_nfacts|reflexivity]. Qed.

Lemma ph1_ptok c st inp : map ptok (b_blocks (ph1 c st inp)) = map ptok (blocks st).
Proof. unfold ph1. destruct (refresh_of c st inp); [apply run_blocks_ptok|reflexivity]. Qed.

Lemma inv_step c st inp : inv c st -> inv c (fst (step c st inp)).
Proof.
  intros [Hm Hok Hnf]. split.
  - unfold step. destruct (any_present _ _); cbn [negb fst]; intros s Hs; cbn in *; now apply (mask_state_inv st _ Hm).
  - pose proof (step_proj facts c st inp Hm (fun _ _ => eq_refl)) as Hf.
    pose proof (ph1_ok c st inp Hok) as H1.
    unfold block_ok in *. rewrite <- Forall_map in *. now rewrite Hf.
  - rewrite (step_proj (fun sb => length (facts sb)) c st inp Hm (fun _ _ => eq_refl)), ph1_nfacts. exact Hnf.
Qed.

(* the block b after phase 1 *)
Lemma ph1_nth c st inp b sb : nth_error (blocks st) b = Some sb ->
  nth_error (b_blocks (ph1 c st inp)) b =
    Some (if refresh_of c st inp && present (inp b) && reached b (b_out (ph1 c st inp))
          then bl_state (run_block (tol c) (S (tick st)) b sb (inp b)) else sb).
Proof.
  intros H. unfold ph1. destruct (refresh_of c st inp); cbn [andb]; [|exact H].
  apply (run_blocks_nth (tol c) (S (tick st)) inp (blocks st) 0 b sb H).
Qed.

Definition cnt_of (st : state) (b : nat) : nat := nth b (map cnt (blocks st)) 0.
Definition facts_of (st : state) (b : nat) : list factor_state := nth b (map facts (blocks st)) [].
Definition ptoks (st : state) : list nat := map ptok (blocks st).

Lemma proj_of_nth {B} (f : block_state -> B) (d : B) bs b sb : nth_error bs b = Some sb -> nth b (map f bs) d = f sb.
Proof. intros H. apply nth_error_nth. now apply map_nth_error. Qed.

Lemma nfacts_of c st b : inv c st -> length (facts_of st b) = nth b (nfs c) 0.
Proof.
  intros [_ _ Hnf]. rewrite <- Hnf. unfold facts_of.
  rewrite <- (map_nth (@length factor_state) (map facts (blocks st)) [] b). rewrite map_map. reflexivity.
Qed.

Section Step.
  Variables (c : cfg) (st : state) (inp : step_input).
  Hypothesis Hinv : inv c st.
  Let st' := fst (step c st inp).
  Let out := snd (step c st inp).

  Lemma blocks_lookup b : b < length (blocks st) -> exists sb, nth_error (blocks st) b = Some sb /\ block_ok sb.
  Proof.
    intros Hb. destruct (nth_error (blocks st) b) as [sb|] eqn:E.
    - exists sb; split; [reflexivity|]. destruct Hinv as [_ Hok _]. rewrite Forall_forall in Hok. apply Hok. eapply nth_error_In; eauto.
    - apply nth_error_None in E. lia.
  Qed.

  Lemma step_completed b sb : nth_error (blocks st) b = Some sb -> block_ok sb ->
    refresh_of c st inp = true -> present (inp b) = true ->
    completed b out = reached b out
      && match first_bad (fin (inp b)) 0 (length (facts sb)) with None => true | Some _ => false end.
  Proof.
    intros H Hok Hr Hp. unfold out. rewrite (step_out c st inp (inv_mask _ _ Hinv)). unfold ph1. rewrite Hr.
    apply (run_blocks_completed (tol c) (S (tick st)) inp (blocks st) 0 b sb H Hok Hp).
  Qed.

  Lemma step_not_refresh : refresh_of c st inp = false -> out = Ok.
  Proof. intros Hr. unfold out. rewrite (step_out c st inp (inv_mask _ _ Hinv)). unfold ph1. now rewrite Hr. Qed.

  (* the failure counter of block b after the step *)
  Lemma step_cnt b : b < length (blocks st) ->
    cnt_of st' b =
      if refresh_of c st inp && present (inp b) && completed b out
      then (if failedb (length (facts_of st b)) (fin (inp b)) then S (cnt_of st b) else 0)
      else cnt_of st b.
  Proof.
    intros Hb. destruct (blocks_lookup b Hb) as [sb [H Hok]].
    pose proof (inv_mask _ _ Hinv) as Hm.
    unfold cnt_of at 1. unfold st'. rewrite (step_proj cnt c st inp Hm (fun _ _ => eq_refl)).
    rewrite (proj_of_nth cnt 0 _ b _ (ph1_nth c st inp b sb H)).
    unfold cnt_of, facts_of. rewrite (proj_of_nth cnt 0 _ b _ H), (proj_of_nth facts [] _ b _ H).
    fold out. rewrite <- (step_out c st inp Hm). fold out.
    destruct (refresh_of c st inp) eqn:Er; cbn [andb]; [|reflexivity].
    destruct (present (inp b)) eqn:Ep; cbn [andb]; [|reflexivity].
    rewrite (step_completed b sb H Hok Er Ep).
    destruct (reached b out) eqn:Ere; cbn [andb]; [|reflexivity].
    rewrite (run_block_cnt _ _ _ _ _ Hok). destruct (first_bad _ _ _); reflexivity.
  Qed.

  (* the stored matrices of block b after the step *)
  Lemma step_facts b sb : nth_error (blocks st) b = Some sb ->
    facts_of st' b =
      if refresh_of c st inp && present (inp b) && reached b out
      then f_new (run_factors (S (tick st)) 0 (facts sb) (fin (inp b))) else facts sb.
  Proof.
    intros H. pose proof (inv_mask _ _ Hinv) as Hm.
    unfold facts_of, st'. rewrite (step_proj facts c st inp Hm (fun _ _ => eq_refl)).
    rewrite (proj_of_nth facts [] _ b _ (ph1_nth c st inp b sb H)).
    rewrite <- (step_out c st inp Hm). fold out.
    destruct (_ && _ && _); [apply run_block_facts|reflexivity].
  Qed.

  (* the tolerance error for block b *)
  Lemma step_tol_iff b : b < length (blocks st) ->
    out = RaiseTol b <->
    refresh_of c st inp = true /\ present (inp b) = true /\ completed b out = true /\
    failedb (length (facts_of st b)) (fin (inp b)) = true /\ tol c < S (cnt_of st b).
  Proof.
    intros Hb. destruct (blocks_lookup b Hb) as [sb [H Hok]].
    pose proof (inv_mask _ _ Hinv) as Hm.
    unfold cnt_of, facts_of. rewrite (proj_of_nth cnt 0 _ b _ H), (proj_of_nth facts [] _ b _ H).
    pose proof (run_block_exc (tol c) (S (tick st)) b sb (inp b) Hok) as Hexc.
    split.
    - intros Ho. destruct (refresh_of c st inp) eqn:Er; [|rewrite (step_not_refresh Er) in Ho; discriminate].
      assert (Hn : b_out (run_blocks (tol c) (S (tick st)) 0 (blocks st) inp) <> Ok).
      { unfold out in Ho. rewrite (step_out c st inp Hm) in Ho. unfold ph1 in Ho. rewrite Er in Ho. rewrite Ho. discriminate. }
      destruct (run_blocks_out_some _ _ _ _ _ Hn) as [j [sb' [H1 [H2 H3]]]].
      assert (Ho' : b_out (run_blocks (tol c) (S (tick st)) 0 (blocks st) inp) = RaiseTol b).
      { unfold out in Ho. rewrite (step_out c st inp Hm) in Ho. unfold ph1 in Ho. now rewrite Er in Ho. }
      rewrite Ho' in H3. pose proof (run_block_exc_block _ _ _ _ _ _ H3) as H4. cbn in H4.
      assert (j = b) by (inversion H4; reflexivity). subst j. change (0 + b) with b in *. rewrite H in H1. inversion H1; subst sb'.
      cbn in H2. split; [reflexivity|]. split; [exact H2|]. split; [rewrite Ho; cbn; apply Nat.leb_refl|].
      rewrite Hexc in H3. destruct (first_bad _ _ _); [discriminate|].
      destruct (failedb _ _); cbn [andb] in H3; [|discriminate]. split; [reflexivity|].
      destruct (tol c <? S (cnt sb)) eqn:El; [|discriminate]. now apply Nat.ltb_lt.
    - intros [Er [Ep [Hc [Hf Hl]]]].
      pose proof (step_completed b sb H Hok Er Ep) as Hcomp. rewrite Hc in Hcomp.
      symmetry in Hcomp. apply andb_true_iff in Hcomp as [Hre Hfb].
      destruct (first_bad _ _ _); [discriminate|].
      rewrite Hf in Hexc. apply Nat.ltb_lt in Hl. rewrite Hl in Hexc. cbn in Hexc.
      unfold out in *. rewrite (step_out c st inp Hm) in *. unfold ph1 in *. rewrite Er in *.
      apply (run_blocks_out_first (tol c) (S (tick st)) inp (blocks st) 0 b sb _ H Ep Hre Hexc).
  Qed.

  (* the PreconditionerValueError *)
  Lemma step_pve_iff b k : b < length (blocks st) ->
    out = RaisePVE b k <->
    refresh_of c st inp = true /\ present (inp b) = true /\ reached b out = true /\
    first_bad (fin (inp b)) 0 (length (facts_of st b)) = Some k.
  Proof.
    intros Hb. destruct (blocks_lookup b Hb) as [sb [H Hok]].
    pose proof (inv_mask _ _ Hinv) as Hm.
    unfold facts_of. rewrite (proj_of_nth facts [] _ b _ H).
    pose proof (run_block_exc (tol c) (S (tick st)) b sb (inp b) Hok) as Hexc.
    split.
    - intros Ho. destruct (refresh_of c st inp) eqn:Er; [|rewrite (step_not_refresh Er) in Ho; discriminate].
      assert (Ho' : b_out (run_blocks (tol c) (S (tick st)) 0 (blocks st) inp) = RaisePVE b k).
      { unfold out in Ho. rewrite (step_out c st inp Hm) in Ho. unfold ph1 in Ho. now rewrite Er in Ho. }
      assert (Hn : b_out (run_blocks (tol c) (S (tick st)) 0 (blocks st) inp) <> Ok) by (rewrite Ho'; discriminate).
      destruct (run_blocks_out_some _ _ _ _ _ Hn) as [j [sb' [H1 [H2 H3]]]].
      rewrite Ho' in H3. pose proof (run_block_exc_block _ _ _ _ _ _ H3) as H4. cbn in H4.
      assert (j = b) by (inversion H4; reflexivity). subst j. change (0 + b) with b in *. rewrite H in H1. inversion H1; subst sb'.
      cbn in H2. split; [reflexivity|]. split; [exact H2|]. split; [rewrite Ho; unfold reached; cbn; apply Nat.leb_refl|].
      rewrite Hexc in H3. destruct (first_bad _ _ _); [now inversion H3|].
      destruct (_ && _); discriminate.
    - intros [Er [Ep [Hre Hfb]]]. rewrite Hfb in Hexc.
      unfold out in *. rewrite (step_out c st inp Hm) in *. unfold ph1 in *. rewrite Er in *.
      apply (run_blocks_out_first (tol c) (S (tick st)) inp (blocks st) 0 b sb _ H Ep Hre Hexc).
  Qed.

  (* a raising step does not write any parameter block *)
  Lemma step_raise_params : out <> Ok -> ptoks st' = ptoks st.
  Proof.
    intros Ho. pose proof (inv_mask _ _ Hinv) as Hm. unfold ptoks, st'.
    rewrite (step_blocks c st inp Hm). unfold out in Ho. rewrite (step_out c st inp Hm) in Ho.
    destruct (b_out (ph1 c st inp)); [congruence| |]; apply ph1_ptok.
  Qed.
End Step.

(* ============================================================================================== *)
(* F. histories.  A history is written with the most recent step first (`rh`); `run_rev` below ties it
      to `Failures.run`, which executes a history given oldest first. *)

Fixpoint state_r (c : cfg) (rh : list step_input) : state :=
  match rh with
  | [] => init c
  | i :: r => fst (step c (state_r c r) i)
  end.
Definition out_r (c : cfg) (r : list step_input) (i : step_input) : outcome := snd (step c (state_r c r) i).
Fixpoint outs_r (c : cfg) (rh : list step_input) : list outcome :=
  match rh with
  | [] => []
  | i :: r => out_r c r i :: outs_r c r
  end.

Lemma run_from_snoc c : forall h st i,
  run_from c st (h ++ [i]) =
    (fst (step c (fst (run_from c st h)) i), snd (run_from c st h) ++ [snd (step c (fst (run_from c st h)) i)]).
Proof.
  induction h as [|x h IH]; intros st i; cbn [app run_from fst snd]; [reflexivity|].
  rewrite IH. reflexivity.
Qed.

Lemma run_rev c h : run c h = (state_r c (rev h), rev (outs_r c (rev h))).
Proof.
  unfold run. induction h as [|i h IH] using rev_ind; [reflexivity|].
  rewrite run_from_snoc, IH, rev_unit. cbn [fst snd state_r outs_r rev]. reflexivity.
Qed.

(* -------- specification side: functions of the history (and of the exceptions seen), not of the state ---- *)

Definition nb (c : cfg) : nat := length (nfs c).            (* number of local blocks *)
Definition nf (c : cfg) (b : nat) : nat := nth b (nfs c) 0.  (* number of factors of block b *)

(* group step counter: number of steps so far in which some block had a gradient *)
Fixpoint gcount (n : nat) (rh : list step_input) : nat :=
  match rh with
  | [] => 0
  | i :: r => if any_present n i then S (gcount n r) else gcount n r
  end.

(* step `i` after history `r` is a refresh step *)
Definition refresh_step (c : cfg) (r : list step_input) (i : step_input) : bool :=
  any_present (nb c) i && is_refresh c (S (gcount (nb c) r)).

(* block b took part in the refresh of step i (outcome o): it was present and the loop finished the block
   (all factor computations and the counter update) - i.e. the step did not abort before or inside b *)
Definition took_part (c : cfg) (b : nat) (r : list step_input) (i : step_input) (o : outcome) : bool :=
  refresh_step c r i && present (i b) && completed b o.

(* the refresh of block b at step i contained a failed computation *)
Definition failed (c : cfg) (b : nat) (i : step_input) : bool := failedb (nf c b) (fin (i b)).

(* number of consecutive refreshes in which b took part and that contained a failure, ending with the
   most recent one in which b took part; `ro` are the outcomes (exceptions) of the steps of `rh` *)
Fixpoint consec (c : cfg) (b : nat) (rh : list step_input) (ro : list outcome) : nat :=
  match rh, ro with
  | i :: r, o :: ro' =>
      if took_part c b r i o then (if failed c b i then S (consec c b r ro') else 0)
      else consec c b r ro'
  | _, _ => 0
  end.

(* the same for a run that has not raised so far: a function of the inputs alone *)
Fixpoint consec_pure (c : cfg) (b : nat) (rh : list step_input) : nat :=
  match rh with
  | i :: r =>
      if refresh_step c r i && present (i b) then (if failed c b i then S (consec_pure c b r) else 0)
      else consec_pure c b r
  | [] => 0
  end.

(* -------- reachable states ---- *)

Lemma inv_state_r c rh : inv c (state_r c rh).
Proof. induction rh as [|i r IH]; cbn [state_r]; [apply inv_init|apply inv_step; exact IH]. Qed.

Lemma length_state_r c rh : length (blocks (state_r c rh)) = nb c.
Proof.
  induction rh as [|i r IH]; cbn [state_r].
  - cbn. apply map_length.
  - rewrite step_length; [exact IH|apply inv_state_r].
Qed.

Lemma gstep_state_r c rh : gstep (state_r c rh) = gcount (nb c) rh.
Proof.
  induction rh as [|i r IH]; cbn [state_r gcount]; [reflexivity|].
  rewrite step_gstep, length_state_r, IH. reflexivity.
Qed.

Lemma tick_state_r c rh : tick (state_r c rh) = length rh.
Proof. induction rh as [|i r IH]; cbn [state_r length]; [reflexivity|]. now rewrite step_tick, IH. Qed.

Lemma refresh_of_state_r c r i : refresh_of c (state_r c r) i = refresh_step c r i.
Proof. unfold refresh_of, refresh_step. now rewrite length_state_r, gstep_state_r. Qed.

Lemma nfacts_state_r c r b : length (facts_of (state_r c r) b) = nf c b.
Proof. apply nfacts_of, inv_state_r. Qed.

(* -------- the theorems ---- *)

(* the failure counter of the code is the specification's count (refinement) *)
Theorem counter_refines c b : b < nb c -> forall rh,
  cnt_of (state_r c rh) b = consec c b rh (outs_r c rh).
Proof.
  intros Hb. induction rh as [|i r IH].
  - cbn [state_r consec]. unfold cnt_of, init; cbn [blocks]. rewrite map_map. cbn [cnt init_block].
    destruct (nth_in_or_default b (map (fun _ : nat => 0) (nfs c)) 0) as [Hin | ->]; [|reflexivity].
    apply in_map_iff in Hin as [x [Hx _]]. now rewrite <- Hx.
  - cbn [state_r outs_r consec]. unfold took_part, failed, out_r.
    rewrite (step_cnt c (state_r c r) i (inv_state_r c r) b) by (now rewrite length_state_r).
    rewrite refresh_of_state_r, nfacts_state_r, IH. reflexivity.
Qed.

(* MAIN: the step raises the tolerance error for block b iff b took part in this refresh, the refresh
   contained a failure, and the number of consecutive such refreshes of b, ending with this one, exceeds N *)
Theorem raises_iff_consecutive_failures_exceed c b : b < nb c -> forall rh i,
  out_r c rh i = RaiseTol b <->
  took_part c b rh i (out_r c rh i) = true /\ failed c b i = true /\
  tol c < consec c b (i :: rh) (out_r c rh i :: outs_r c rh).
Proof.
  intros Hb rh i. unfold out_r.
  rewrite (step_tol_iff c (state_r c rh) i (inv_state_r c rh) b) by (now rewrite length_state_r).
  rewrite refresh_of_state_r, nfacts_state_r, (counter_refines c b Hb rh).
  cbn [consec]. unfold took_part, failed, out_r. split.
  - intros [H1 [H2 [H3 [H4 H5]]]]. rewrite H1, H2, H3, H4. cbn [andb]. auto.
  - intros [H1 [H2 H3]]. apply andb_true_iff in H1 as [H1 H1c]. apply andb_true_iff in H1 as [H1a H1b].
    rewrite H1a, H1b, H1c, H2 in H3. cbn [andb] in H3. auto.
Qed.

(* a refresh of b without any failure resets the count *)
Theorem success_resets c b : b < nb c -> forall rh i,
  took_part c b rh i (out_r c rh i) = true -> failed c b i = false ->
  cnt_of (state_r c (i :: rh)) b = 0 /\ consec c b (i :: rh) (outs_r c (i :: rh)) = 0.
Proof.
  intros Hb rh i Ht Hf. rewrite (counter_refines c b Hb (i :: rh)).
  cbn [outs_r consec]. rewrite Ht, Hf. auto.
Qed.

(* a step in which b does not take part in a refresh leaves its count alone (mask changes included) *)
Theorem absent_keeps_count c b : b < nb c -> forall rh i,
  took_part c b rh i (out_r c rh i) = false ->
  cnt_of (state_r c (i :: rh)) b = cnt_of (state_r c rh) b.
Proof.
  intros Hb rh i Ht. rewrite !(counter_refines c b Hb). cbn [outs_r consec]. now rewrite Ht.
Qed.

(* every stored matrix after a step is the one stored before, or - at a refresh, for a present block, after
   a successful call on a finite factor matrix - a fresh finite one *)
Theorem stored_matrix_change c rh i b k f : nth_error (facts_of (state_r c rh) b) k = Some f ->
  exists f', nth_error (facts_of (state_r c (i :: rh)) b) k = Some f' /\
    (f' = f \/ (refresh_step c rh i = true /\ present (i b) = true /\ rout (fin (i b) k) = Success /\
                fm_finite (fin (i b) k) = true /\ f' = {| tok := S (length rh); finite := true |})).
Proof.
  intros H. cbn [state_r].
  destruct (nth_error (blocks (state_r c rh)) b) as [sb|] eqn:E.
  - rewrite (step_facts c (state_r c rh) i (inv_state_r c rh) b sb E).
    unfold facts_of in H. rewrite (proj_of_nth facts [] _ b _ E) in H.
    rewrite refresh_of_state_r, tick_state_r.
    destruct (refresh_step c rh i) eqn:Er; cbn [andb]; [|exists f; auto].
    destruct (present (i b)) eqn:Ep; cbn [andb]; [|exists f; auto].
    destruct (reached b _); [|exists f; auto].
    destruct (run_factors_nth (S (length rh)) (fin (i b)) (facts sb) 0 k f H) as [f' [H1 H2]].
    exists f'. split; [exact H1|]. cbn [Nat.add] in H2. destruct H2 as [H2|[H2 [H3 H4]]]; [now left|right; auto].
  - exfalso. unfold facts_of in H. apply nth_error_None in E.
    rewrite nth_overflow in H by (now rewrite map_length). destruct k; discriminate.
Qed.

(* a failed computation keeps the matrix that was stored *)
Theorem failure_keeps_previous_matrix c rh i b k :
  rout (fin (i b) k) = Fail ->
  nth_error (facts_of (state_r c (i :: rh)) b) k = nth_error (facts_of (state_r c rh) b) k.
Proof.
  intros Hf. destruct (nth_error (facts_of (state_r c rh) b) k) as [f|] eqn:E.
  - destruct (stored_matrix_change c rh i b k f E) as [f' [H1 [H2|[_ [_ [H2 _]]]]]]; [now subst|congruence].
  - apply nth_error_None in E. apply nth_error_None.
    destruct (Nat.lt_ge_cases b (nb c)) as [Hb|Hb].
    + rewrite nfacts_state_r in *. exact E.
    + unfold facts_of. rewrite nth_overflow; [cbn; lia|]. now rewrite map_length, length_state_r.
Qed.

(* stored inverse roots / eigenvector matrices are finite in every reachable state *)
Theorem stored_roots_finite c rh b k f :
  nth_error (facts_of (state_r c rh) b) k = Some f -> finite f = true.
Proof.
  intros H. destruct (inv_state_r c rh) as [_ Hok _].
  destruct (nth_error (blocks (state_r c rh)) b) as [sb|] eqn:E.
  - unfold facts_of in H. rewrite (proj_of_nth facts [] _ b _ E) in H.
    rewrite Forall_forall in Hok. specialize (Hok sb (nth_error_In _ _ E)).
    unfold block_ok, facts_ok in Hok. rewrite Forall_forall in Hok. apply Hok. eapply nth_error_In; eauto.
  - apply nth_error_None in E. unfold facts_of in H.
    rewrite nth_overflow in H by (now rewrite map_length). destruct k; discriminate.
Qed.

(* a raising step (either exception) is raised by the preconditioner-update phase; no parameter block is written *)
Theorem nan_raises_before_param_update c rh i :
  out_r c rh i <> Ok -> ptoks (state_r c (i :: rh)) = ptoks (state_r c rh).
Proof. intros H. cbn [state_r]. apply (step_raise_params c (state_r c rh) i (inv_state_r c rh)). exact H. Qed.

(* the PreconditionerValueError names the first factor of the first reached block whose factor matrix, or
   computed root / eigenbasis, is not finite *)
Theorem pve_iff c b k : b < nb c -> forall rh i,
  out_r c rh i = RaisePVE b k <->
  refresh_step c rh i = true /\ present (i b) = true /\ reached b (out_r c rh i) = true /\
  first_bad (fin (i b)) 0 (nf c b) = Some k.
Proof.
  intros Hb rh i. unfold out_r.
  rewrite (step_pve_iff c (state_r c rh) i (inv_state_r c rh) b k) by (now rewrite length_state_r).
  now rewrite refresh_of_state_r, nfacts_state_r.
Qed.

(* conversely every successful computation the loop got to is stored: the factor's matrix afterwards is the fresh
   one, independently of what the other factors of the block did in the same refresh.  `warn_limit` is the number of
   factors of the block the loop handled before a PreconditionerValueError (all of them if there was none) *)
Theorem success_is_stored c b k : b < nb c -> k < nf c b -> forall rh i,
  refresh_step c rh i = true -> present (i b) = true -> reached b (out_r c rh i) = true ->
  k < warn_limit b (nf c b) (out_r c rh i) ->
  rout (fin (i b) k) = Success -> fm_finite (fin (i b) k) = true ->
  nth_error (facts_of (state_r c (i :: rh)) b) k = Some {| tok := S (length rh); finite := true |}.
Proof.
  intros Hb Hk rh i Hr Hp Hre Hl Hs Hfm.
  pose proof (inv_state_r c rh) as Hinv.
  assert (Hlen : b < length (blocks (state_r c rh))) by (now rewrite length_state_r).
  destruct (blocks_lookup c (state_r c rh) Hinv b Hlen) as [sb [E Hok]].
  cbn [state_r]. rewrite (step_facts c (state_r c rh) i Hinv b sb E).
  rewrite refresh_of_state_r, tick_state_r, Hr, Hp. fold (out_r c rh i). rewrite Hre. cbn [andb].
  assert (Hn : length (facts sb) = nf c b).
  { rewrite <- (nfacts_state_r c rh b). unfold facts_of. now rewrite (proj_of_nth facts [] _ b _ E). }
  destruct (nth_error (facts sb) k) as [f|] eqn:Ef; [|apply nth_error_None in Ef; lia].
  apply (run_factors_success_stored (S (length rh)) (fin (i b)) (facts sb) 0 k f Ef Hok); auto.
  rewrite Hn. destruct (first_bad (fin (i b)) 0 (nf c b)) as [k'|] eqn:Efb; [|exact I].
  assert (Ho : out_r c rh i = RaisePVE b k') by (apply (pve_iff c b k' Hb rh i); auto).
  rewrite Ho in Hl. cbn in Hl. rewrite Nat.eqb_refl in Hl. exact Hl.
Qed.

Lemma first_bad_some fi n k : k < n -> bad_at fi k = true -> first_bad fi 0 n <> None.
Proof.
  intros Hk Hb Hn. unfold first_bad in Hn.
  pose proof (find_none _ _ Hn k) as H. rewrite H in Hb; [discriminate|]. apply in_seq. lia.
Qed.

(* NaN/Inf in a factor matrix, or in a computed matrix, of a present block at a refresh makes the step raise *)
Theorem nonfinite_raises c b k : b < nb c -> forall rh i,
  refresh_step c rh i = true -> present (i b) = true -> k < nf c b -> bad_at (fin (i b)) k = true ->
  out_r c rh i <> Ok.
Proof.
  intros Hb rh i Hr Hp Hk Hbad Ho.
  destruct (first_bad (fin (i b)) 0 (nf c b)) as [k'|] eqn:E; [|exact (first_bad_some _ _ _ Hk Hbad E)].
  assert (H : out_r c rh i = RaisePVE b k').
  { apply (pve_iff c b k' Hb rh i). rewrite Ho. repeat split; auto. }
  congruence.
Qed.

(* in particular a result that is finite in the factor dtype but overflows the dtype it is stored in *)
Corollary storage_overflow_raises c b k : b < nb c -> forall rh i,
  refresh_step c rh i = true -> present (i b) = true -> k < nf c b ->
  rout (fin (i b) k) = SuccessOverflowsStorage -> out_r c rh i <> Ok.
Proof.
  intros Hb rh i Hr Hp Hk Ho. apply (nonfinite_raises c b k Hb rh i Hr Hp Hk).
  unfold bad_at. rewrite Ho. apply orb_true_r.
Qed.

(* -------- runs that have not raised before: the count is a function of the inputs alone ---- *)

Lemma consec_pure_eq c b : forall rh ro, length ro = length rh -> Forall (fun o => o = Ok) ro ->
  consec c b rh ro = consec_pure c b rh.
Proof.
  induction rh as [|i r IH]; intros [|o ro] Hl Ha; cbn [consec consec_pure]; try reflexivity; try discriminate.
  inversion Ha as [|? ? Ho Hro]; subst. unfold took_part. cbn [completed]. rewrite andb_true_r.
  rewrite IH; auto.
Qed.

Lemma outs_r_length c rh : length (outs_r c rh) = length rh.
Proof. induction rh; cbn; auto. Qed.

Theorem first_raise_pure c b : b < nb c -> forall rh i,
  Forall (fun o => o = Ok) (outs_r c rh) ->
  (out_r c rh i = RaiseTol b ->
     refresh_step c rh i = true /\ present (i b) = true /\ failed c b i = true /\ tol c < consec_pure c b (i :: rh))
  /\ (refresh_step c rh i = true -> present (i b) = true -> failed c b i = true -> tol c < consec_pure c b (i :: rh) ->
      out_r c rh i <> Ok).
Proof.
  intros Hb rh i Hok.
  pose proof (consec_pure_eq c b rh (outs_r c rh) (outs_r_length c rh) Hok) as Hpure.
  split.
  - intros Ho. apply (raises_iff_consecutive_failures_exceed c b Hb) in Ho as [H1 [H2 H3]].
    unfold took_part in H1. apply andb_true_iff in H1 as [H1 H1c]. apply andb_true_iff in H1 as [H1a H1b].
    repeat split; auto. cbn [consec consec_pure] in *. unfold took_part in H3.
    rewrite H1a, H1b, H1c, H2 in *. cbn [andb] in *. now rewrite <- Hpure.
  - intros Hr Hp Hf Hl Ho.
    assert (H : out_r c rh i = RaiseTol b); [|congruence].
    apply (raises_iff_consecutive_failures_exceed c b Hb). unfold took_part. rewrite Ho, Hr, Hp. cbn [completed andb].
    repeat split; auto. cbn [consec]. unfold took_part. rewrite Hr, Hp, Hf. cbn [completed andb].
    cbn [consec_pure] in Hl. rewrite Hr, Hp, Hf in Hl. cbn [andb] in Hl. now rewrite Hpure.
Qed.

(* ============================================================================================== *)
(* G. non-vacuity: the hypotheses of the theorems are satisfiable on non-trivial instances *)

Module Examples.
  Definition c1 : cfg := {| tol := 1; freq := 1; start := 1; nfs := [2; 2] |}.
  Definition okf := fi true Success.
  Definition failf := fi true Fail.
  (* both blocks present, block 1 has a failing factor *)
  Definition s_a : step_input := si [bi true [okf; okf]; bi true [okf; failf]].
  (* only block 0 has a gradient: the selector changes, block 1 leaves the masked lists *)
  Definition s_b : step_input := si [bi true [okf; okf]; bi false []].
  (* block 1 is back and fails again *)
  Definition s_c : step_input := si [bi true [okf; okf]; bi true [failf; okf]].
  (* block 1 is back and succeeds *)
  Definition s_d : step_input := si [bi true [okf; okf]; bi true [okf; okf]].
  (* block 0: factor 0 fine, factor 1's routine returns NaN *)
  Definition s_nan : step_input := si [bi true [okf; fi true SuccessNonFinite]; bi true [okf; okf]].
  (* block 1's second factor matrix contains Inf (a gradient was Inf) *)
  Definition s_inf : step_input := si [bi true [okf; failf]; bi true [okf; fi false Success]].

  (* the mask changes between the two failures of block 1, and the count survives it *)
  Example mask_changes : selector 2 s_a <> selector 2 s_b /\ selector 2 s_b <> selector 2 s_c.
  Proof. split; discriminate. Qed.
  Example raises_after_mask_change : out_r c1 [s_b; s_a] s_c = RaiseTol 1 /\ outs_r c1 [s_b; s_a] = [Ok; Ok].
  Proof. split; reflexivity. Qed.
  Example raises_iff_rhs_satisfiable :
    took_part c1 1 [s_b; s_a] s_c (out_r c1 [s_b; s_a] s_c) = true /\ failed c1 1 s_c = true /\
    consec c1 1 (s_c :: [s_b; s_a]) (out_r c1 [s_b; s_a] s_c :: outs_r c1 [s_b; s_a]) = 2 /\ tol c1 = 1.
  Proof. repeat split; reflexivity. Qed.
  Example counter_values : map (cnt_of (state_r c1 [s_c; s_b; s_a])) [0; 1] = [0; 2]
                           /\ map (cnt_of (state_r c1 [s_b; s_a])) [0; 1] = [0; 1].
  Proof. split; reflexivity. Qed.
  Example absent_keeps_hyp : took_part c1 1 [s_a] s_b (out_r c1 [s_a] s_b) = false /\ cnt_of (state_r c1 [s_a]) 1 = 1.
  Proof. split; reflexivity. Qed.
  Example success_resets_hyp :
    took_part c1 1 [s_b; s_a] s_d (out_r c1 [s_b; s_a] s_d) = true /\ failed c1 1 s_d = false
    /\ cnt_of (state_r c1 [s_b; s_a]) 1 = 1 /\ cnt_of (state_r c1 [s_d; s_b; s_a]) 1 = 0.
  Proof. repeat split; reflexivity. Qed.
  Example first_raise_pure_hyp : Forall (fun o => o = Ok) (outs_r c1 [s_b; s_a]) /\ consec_pure c1 1 (s_c :: [s_b; s_a]) = 2.
  Proof. split; [repeat constructor|reflexivity]. Qed.

  (* stored matrices: fresh token after a success, old token kept after a failure *)
  Example stored_after_success_and_failure :
    facts_of (state_r c1 [s_a]) 1 = [ {| tok := 1; finite := true |}; {| tok := 0; finite := true |} ]
    /\ facts_of (state_r c1 [s_c; s_b; s_a]) 1 = [ {| tok := 1; finite := true |}; {| tok := 3; finite := true |} ].
  Proof. split; reflexivity. Qed.

  (* NaN result: PreconditionerValueError for (block 0, factor 1); factor 0 of block 0 was already copied
     (partial effect), block 1 was not reached, no counter moved, no parameter written *)
  Example nan_result_raises :
    out_r c1 [s_a] s_nan = RaisePVE 0 1
    /\ facts_of (state_r c1 [s_nan; s_a]) 0 = [ {| tok := 2; finite := true |}; {| tok := 1; finite := true |} ]
    /\ facts_of (state_r c1 [s_nan; s_a]) 1 = facts_of (state_r c1 [s_a]) 1
    /\ map (cnt_of (state_r c1 [s_nan; s_a])) [0; 1] = [0; 1]
    /\ ptoks (state_r c1 [s_nan; s_a]) = ptoks (state_r c1 [s_a]) /\ ptoks (state_r c1 [s_a]) = [1; 1].
  Proof. repeat split; reflexivity. Qed.
  (* a root of 1e6 computed in float32 for a float16 block: raised, nothing stored, no parameter written *)
  Definition s_ovf : step_input := si [bi true [fi true SuccessOverflowsStorage; okf]; bi true [okf; okf]].
  Example storage_overflow_raises_ex :
    out_r c1 [s_a] s_ovf = RaisePVE 0 0
    /\ facts_of (state_r c1 [s_ovf; s_a]) 0 = facts_of (state_r c1 [s_a]) 0
    /\ ptoks (state_r c1 [s_ovf; s_a]) = ptoks (state_r c1 [s_a]).
  Proof. repeat split; reflexivity. Qed.
  (* Inf factor matrix in block 1: block 0 (reached first) has already counted its failure *)
  Example inf_factor_raises :
    out_r c1 [s_a] s_inf = RaisePVE 1 1 /\ map (cnt_of (state_r c1 [s_inf; s_a])) [0; 1] = [1; 1]
    /\ bad_at (fin (s_inf 1)) 1 = true /\ refresh_step c1 [s_a] s_inf = true.
  Proof. repeat split; reflexivity. Qed.

  (* the refresh schedule: frequency 2, start 4; and the group counter only advances on non-empty steps *)
  Definition c2 : cfg := {| tol := 0; freq := 2; start := 5; nfs := [1] |}.
  Example schedule : map (is_refresh c2) [1; 2; 3; 4; 5; 6; 7; 8] = [false; false; false; false; true; true; false; true].
  Proof. reflexivity. Qed.
  Definition s_none : step_input := si [bi false []].
  Definition s_f : step_input := si [bi true [failf]].
  Example empty_steps_do_not_count :
    rev (outs_r c2 [s_f; s_f; s_none; s_f; s_f; s_none; s_f; s_f]) = [Ok; Ok; Ok; Ok; Ok; Ok; RaiseTol 0; RaiseTol 0].
  Proof. reflexivity. Qed.
End Examples.

(* ============================================================================================== *)
(* H. the code before commit d1ed9e7 (defect F3): the masked counter list was a *copy* re-created from the
      never-updated local list at every selector change (the first step included).  Seen from outside this is
      "every selector change zeroes all counts".  The main theorem is false for that model: *)

Definition reset_cnts (st : state) : state :=
  {| blocks := map (fun sb => {| cnt := 0; facts := facts sb; ptok := ptok sb |}) (blocks st);
     masked := masked st; prev_sel := prev_sel st; gstep := gstep st; tick := tick st; ncalls := ncalls st |}.

Definition step_prefix (c : cfg) (st : state) (inp : step_input) : state * outcome :=
  let sel := selector (length (blocks st)) inp in
  let changed := match prev_sel st with Some s => negb (sel_eqb s sel) | None => true end in
  step c (if changed then reset_cnts st else st) inp.

Fixpoint state_prefix (c : cfg) (rh : list step_input) : state :=
  match rh with [] => init c | i :: r => fst (step_prefix c (state_prefix c r) i) end.
Fixpoint outs_prefix (c : cfg) (rh : list step_input) : list outcome :=
  match rh with [] => [] | i :: r => snd (step_prefix c (state_prefix c r) i) :: outs_prefix c r end.

Module F3.
  Import Examples.
  Definition c3 : cfg := {| tol := 3; freq := 1; start := 1; nfs := [2; 2] |}.
  Definition odd : step_input := si [bi true [failf; failf]; bi false []].
  Definition even : step_input := si [bi true [failf; failf]; bi true [failf; failf]].
  Definition h12 := [even; odd; even; odd; even; odd; even; odd; even; odd; even; odd].   (* most recent first *)
  (* pre-fix model: twelve failing refreshes of block 0, tolerance 3, no error ... *)
  Example prefix_model_never_raises : outs_prefix c3 h12 = repeat Ok 12.
  Proof. reflexivity. Qed.
  (* ... although already the fourth one exceeds the tolerance *)
  Example spec_count_exceeds : consec_pure c3 0 [even; odd; even; odd] = 4 /\ tol c3 = 3.
  Proof. split; reflexivity. Qed.
  (* the model of the current code raises there *)
  Example current_model_raises : rev (outs_r c3 [even; odd; even; odd]) = [Ok; Ok; Ok; RaiseTol 0].
  Proof. reflexivity. Qed.
End F3.
