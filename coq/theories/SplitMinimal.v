(* C15 - minimality of the split-recovery decomposition.

   `SplitRecoveryProofs.slab sh a b shp` has a constructor `slab_scalar` (needed for order-0 shapes)
   that `slab_deeper` can reach from every shape: with it ANY range a < b is a "slab" of shape [b - a],
   also one that runs over several rows of the last dimension.  Minimality against that notion is
   false (`slab_not_minimal` below: shape [3;4], range [2,6): the model returns 2 pieces, the single
   piece [2,6) of shape [4] satisfies `slab`).  The notion the property text means - "a contiguous slab
   k x shape[d+1:] lying inside a single index of the leading dimensions", for some level d that
   exists - is `pslab` (= `slab` without `slab_scalar`); `strict_slab` is `pslab` for order >= 1 and
   `slab []` for order 0 (where the range is [0,1) at most and the code returns one piece of shape [1]).

   Proved here, for every shape of positive dims of any order and every 0 <= s <= e <= numel:
     rec_strict_slabs   the model's pieces are strict slabs            (so the minimum is attained)
     split_minimal      every ordered partition of [s,e) into strict slabs has at least as many pieces
   plus `strict_slab -> slab`, so everything known about `slab` (numel, ...) transfers. *)
From Coq Require Import ZArith List Bool Lia ZifyBool.
From Shampoo Require Import SplitRecovery SplitRecoveryProofs SplitChecker.
Import ListNotations.
Open Scope Z_scope.
Ltac Zify.zify_post_hook ::= Z.div_mod_to_equations.

(* ---- the slab notion ------------------------------------------------------------------- *)
Inductive pslab : list Z -> Z -> Z -> list Z -> Prop :=
| pslab_here d rest a b k :
    0 < k -> a mod (prodl rest) = 0 -> b = a + k * prodl rest ->
    a / (d * prodl rest) = (b - 1) / (d * prodl rest) ->
    pslab (d :: rest) a b (k :: rest)
| pslab_deeper d rest a b shp : pslab rest a b shp -> pslab (d :: rest) a b shp.

Definition strict_slab (sh : list Z) (a b : Z) (shp : list Z) : Prop :=
  match sh with
  | [] => slab [] a b shp
  | _ :: _ => pslab sh a b shp
  end.

Lemma pslab_slab sh a b shp : pslab sh a b shp -> slab sh a b shp.
Proof.
  intros H; induction H as [d rest a b k Hk Hm Hb Hc | d rest a b shp H IH].
  - apply slab_here; assumption.
  - apply slab_deeper; exact IH.
Qed.

Lemma strict_slab_slab sh a b shp : strict_slab sh a b shp -> slab sh a b shp.
Proof. destruct sh as [|d rest]; cbn [strict_slab]; [trivial | apply pslab_slab]. Qed.

Lemma pslab_inv d rest a b shp :
  pslab (d :: rest) a b shp ->
  (exists k, 0 < k /\ a mod (prodl rest) = 0 /\ b = a + k * prodl rest
             /\ a / (d * prodl rest) = (b - 1) / (d * prodl rest) /\ shp = k :: rest)
  \/ pslab rest a b shp.
Proof.
  intros H; inversion H as [d0 rest0 a0 b0 k Hk Hm Hb Hc | d0 rest0 a0 b0 shp0 Hd]; subst.
  - left. exists k. repeat split; assumption.
  - right. exact Hd.
Qed.

Lemma prodl_cons d rest : prodl (d :: rest) = d * prodl rest.
Proof. reflexivity. Qed.

(* a slab of the suffix sh lies inside one cell of size prod sh *)
Lemma pslab_range sh a b shp : allpos sh -> pslab sh a b shp -> a < b /\ a / prodl sh = (b - 1) / prodl sh.
Proof.
  intros Hpos H; induction H as [d rest a b k Hk Hm Hb Hc | d rest a b shp H IH].
  - inversion Hpos as [|d0 l0 Hd Hrest]. pose proof (prodl_pos _ Hrest) as HR.
    rewrite prodl_cons. split; [nia | exact Hc].
  - inversion Hpos as [|d0 l0 Hd Hrest]. pose proof (prodl_pos _ Hrest) as HR.
    destruct (IH Hrest) as [Hab Hq]. split; [exact Hab|].
    rewrite prodl_cons, (Z.mul_comm d), <- !Z.div_div by lia. rewrite Hq. reflexivity.
Qed.

(* ---- arithmetic of aligned cut points -------------------------------------------------- *)
Lemma ceil_least R s m : 0 < R -> m mod R = 0 -> s <= m -> (s + R - 1) / R * R <= m.
Proof.
  intros HR Hm Hs. apply Z.div_exact in Hm; [|lia].
  assert (Hq : (s + R - 1) / R < m / R + 1) by (apply Z.div_lt_upper_bound; nia).
  nia.
Qed.

Lemma floor_greatest R e m : 0 < R -> m mod R = 0 -> m <= e -> m <= e / R * R.
Proof.
  intros HR Hm He. apply Z.div_exact in Hm; [|lia].
  assert (Hq : m / R <= e / R) by (apply Z.div_le_mono; lia).
  nia.
Qed.

Lemma no_mult_inside R a b c : 0 < R -> a / R = (b - 1) / R -> c mod R = 0 -> ~ (a < c < b).
Proof.
  intros HR Hab Hc [H1 H2]. apply Z.div_exact in Hc; [|lia].
  assert (Hq1 : c / R <= (b - 1) / R) by (apply Z.div_le_mono; lia).
  assert (Hq2 : a / R < c / R) by (apply Z.div_lt_upper_bound; lia).
  lia.
Qed.

Lemma one_cell R a b : 0 < R -> a < b -> (forall m, m mod R = 0 -> ~ (a < m < b)) -> a / R = (b - 1) / R.
Proof.
  intros HR Hab Hno.
  destruct (Z.eq_dec (a / R) ((b - 1) / R)) as [|Hne]; [assumption|exfalso].
  apply (Hno (((b - 1) / R) * R)); [apply Z.mod_mul; lia|].
  assert (Hle : a / R <= (b - 1) / R) by (apply Z.div_le_mono; lia).
  assert (Hlt : a / R < (b - 1) / R) by lia.
  split; [nia | lia].
Qed.

(* ---- chains ---------------------------------------------------------------------------- *)
Lemma chain_bounds l : forall o e, chain l o e ->
  Forall (fun p => o <= poff p /\ poff p + plen p <= e /\ 0 < plen p) l.
Proof.
  induction l as [|p r IH]; cbn [chain]; intros o e H; constructor.
  - destruct H as (Ho & Hp & H). pose proof (chain_le _ _ _ H). lia.
  - destruct H as (Ho & Hp & H). eapply Forall_impl; [|apply (IH _ _ H)].
    cbv beta. intros q Hq. lia.
Qed.

Lemma chain_nonempty l o e : chain l o e -> o < e -> (1 <= length l)%nat.
Proof. destruct l as [|p r]; cbn [chain length]; intros H Hlt; lia. Qed.

(* a partition can be cut at any point that no piece straddles *)
Lemma chain_split_at l : forall o e c, chain l o e -> o <= c <= e ->
  (forall p, In p l -> ~ (poff p < c < poff p + plen p)) ->
  exists l1 l2, l = l1 ++ l2 /\ chain l1 o c /\ chain l2 c e.
Proof.
  induction l as [|p r IH]; intros o e c H Hc Hno.
  - cbn [chain] in H. exists [], []. cbn [app chain]. repeat split; lia.
  - cbn [chain] in H. destruct H as (Ho & Hp & H).
    destruct (Z.eq_dec c o) as [Heq|Hne].
    + subst c. exists [], (p :: r). cbn [app chain]. repeat split; assumption.
    + assert (Hle : o + plen p <= c).
      { pose proof (Hno p (or_introl eq_refl)) as Hn. lia. }
      pose proof (chain_le _ _ _ H) as Hle2.
      destruct (IH (o + plen p) e c H) as (r1 & r2 & Hr & H1 & H2).
      * lia.
      * intros q Hq. apply Hno. right. exact Hq.
      * exists (p :: r1), r2. subst r. cbn [app chain]. repeat split; assumption.
Qed.

(* ---- the model, one unfolding step for order >= 2 ------------------------------------- *)
Lemma rec_cons2 d d' rest' off s e :
  rec (d :: d' :: rest') off s e =
  if e =? s then [] else
  let R  := prodl (d' :: rest') in
  let cs := ((s + R - 1) / R) * R in
  let ce := (e / R) * R in
  if cs <? ce then
    rec (d' :: rest') off s cs
      ++ [ {| poff := off + (cs - s); plen := ce - cs; pshape := (ce - cs) / R :: d' :: rest' |} ]
      ++ rec (d' :: rest') (off + (ce - s)) ce e
  else if ce <? cs then rec (d' :: rest') off s e
  else rec (d' :: rest') off s cs ++ rec (d' :: rest') (off + (ce - s)) ce e.
Proof. reflexivity. Qed.

(* ---- minimality, pieces given by absolute start --------------------------------------- *)
Definition abs_pslab (sh : list Z) (p : piece) : Prop :=
  pslab sh (poff p) (poff p + plen p) (pshape p).

Lemma min_abs sh : allpos sh -> forall off s e l, s <= e -> in_cell sh s e ->
  chain l s e -> Forall (abs_pslab sh) l -> (length (rec sh off s e) <= length l)%nat.
Proof.
  induction sh as [|d rest IH]; intros Hpos off s e l Hse Hcell Hch Hsl.
  - cbn [rec]. destruct (e =? s) eqn:E; [apply Nat.le_0_l|].
    cbn [length]. apply (chain_nonempty _ _ _ Hch). lia.
  - inversion Hpos as [|d0 l0 Hd Hrest]. clear d0 l0 H H0.
    destruct rest as [|d' rest'].
    + cbn [rec]. destruct (e =? s) eqn:E; [apply Nat.le_0_l|].
      cbn [length]. apply (chain_nonempty _ _ _ Hch). lia.
    + rewrite rec_cons2. destruct (e =? s) eqn:E; [apply Nat.le_0_l|]. cbv zeta.
      pose proof (prodl_pos _ Hrest) as HR.
      set (R := prodl (d' :: rest')) in *.
      set (cs := (s + R - 1) / R * R). set (ce := e / R * R).
      assert (Hcs : s <= cs < s + R) by (subst cs; lia).
      assert (Hce : e - R < ce <= e) by (subst ce; lia).
      assert (Hcsm : cs mod R = 0) by (subst cs; apply Z.mod_mul; lia).
      assert (Hcem : ce mod R = 0) by (subst ce; apply Z.mod_mul; lia).
      assert (Hleast : forall m, m mod R = 0 -> s <= m -> cs <= m)
        by (intros m Hm Hsm; apply ceil_least; assumption).
      assert (Hgreatest : forall m, m mod R = 0 -> m <= e -> m <= ce)
        by (intros m Hm Hme; apply floor_greatest; assumption).
      pose proof (chain_bounds _ _ _ Hch) as Hbnd.
      (* a piece of this level starts and ends on multiples of R, hence lies inside [cs,ce);
         every other piece is a slab of the suffix *)
      assert (Hdeep : forall p, In p l ->
                (cs <= poff p /\ poff p + plen p <= ce) \/ abs_pslab (d' :: rest') p).
      { intros p Hp. rewrite Forall_forall in Hsl, Hbnd.
        pose proof (Hsl p Hp) as Hs. pose proof (Hbnd p Hp) as Hb. cbv beta in Hb.
        unfold abs_pslab in Hs. apply pslab_inv in Hs.
        destruct Hs as [(k & Hk & Hm & Hbk & Hc & Hshp) | Hdp]; [left | right; exact Hdp].
        fold R in Hm, Hbk.
        assert (Hm2 : (poff p + plen p) mod R = 0).
        { rewrite Hbk. rewrite Z.mod_add by lia. exact Hm. }
        split; [apply Hleast; [exact Hm | lia] | apply Hgreatest; [exact Hm2 | lia]]. }
      (* no piece straddles an aligned point left of cs or right of ce *)
      assert (Hnocross : forall c, c mod R = 0 -> c <= cs \/ ce <= c ->
                forall p, In p l -> ~ (poff p < c < poff p + plen p)).
      { intros c Hcm Hc p Hp Hx. destruct (Hdeep p Hp) as [[H1 H2]|Hdp]; [lia|].
        apply (pslab_range _ _ _ _ Hrest) in Hdp. destruct Hdp as [_ Hq]. fold R in Hq.
        exact (no_mult_inside R _ _ c HR Hq Hcm Hx). }
      (* a sub-partition that avoids [cs,ce) consists of deeper slabs inside one R-cell *)
      assert (Hrestrict : forall s' e' l', s <= s' -> s' <= e' -> e' <= e ->
                (e' <= cs \/ ce <= s' \/ ce < cs) -> chain l' s' e' ->
                (forall p, In p l' -> In p l) ->
                forall off', (length (rec (d' :: rest') off' s' e') <= length l')%nat).
      { intros s' e' l' H1 H2 H3 H4 Hch' Hin off'.
        apply (IH Hrest); [exact H2 | | exact Hch' | ].
        - cbn [in_cell]. intros Hlt. change (s' / R = (e' - 1) / R).
          apply one_cell; [exact HR | exact Hlt |]. intros m Hm [Hm1 Hm2].
          pose proof (Hleast m Hm). pose proof (Hgreatest m Hm). lia.
        - apply Forall_forall. intros p Hp.
          pose proof (chain_bounds _ _ _ Hch') as Hb'. rewrite Forall_forall in Hb'.
          pose proof (Hb' p Hp) as Hb. cbv beta in Hb.
          destruct (Hdeep p (Hin p Hp)) as [[Ha Hb2]|Hdp]; [exfalso; lia | exact Hdp]. }
      destruct (cs <? ce) eqn:E1.
      * destruct (chain_split_at l s e cs Hch ltac:(lia) (Hnocross cs Hcsm (or_introl (Z.le_refl _))))
          as (l1 & l23 & Hl & Hc1 & Hc23).
        assert (Hno2 : forall p, In p l23 -> ~ (poff p < ce < poff p + plen p)).
        { intros p Hp. apply (Hnocross ce Hcem (or_intror (Z.le_refl _))).
          rewrite Hl. apply in_or_app. right. exact Hp. }
        destruct (chain_split_at l23 cs e ce Hc23 ltac:(lia) Hno2) as (l2 & l3 & Hl' & Hc2 & Hc3).
        assert (Hin1 : forall p, In p l1 -> In p l)
          by (intros p Hp; rewrite Hl; apply in_or_app; left; exact Hp).
        assert (Hin3 : forall p, In p l3 -> In p l)
          by (intros p Hp; rewrite Hl, Hl'; apply in_or_app; right; apply in_or_app; right; exact Hp).
        pose proof (Hrestrict s cs l1 ltac:(lia) ltac:(lia) ltac:(lia) ltac:(lia) Hc1 Hin1 off) as L1.
        pose proof (Hrestrict ce e l3 ltac:(lia) ltac:(lia) ltac:(lia) ltac:(lia) Hc3 Hin3 (off + (ce - s))) as L3.
        pose proof (chain_nonempty _ _ _ Hc2 ltac:(lia)) as L2.
        rewrite Hl, Hl'. rewrite !app_length. cbn [length]. lia.
      * destruct (ce <? cs) eqn:E2.
        -- apply Hrestrict; try lia; [exact Hch | trivial].
        -- assert (Heq : cs = ce) by lia.
           destruct (chain_split_at l s e cs Hch ltac:(lia) (Hnocross cs Hcsm (or_introl (Z.le_refl _))))
             as (l1 & l3 & Hl & Hc1 & Hc3).
           rewrite Heq in Hc3.
           assert (Hin1 : forall p, In p l1 -> In p l)
             by (intros p Hp; rewrite Hl; apply in_or_app; left; exact Hp).
           assert (Hin3 : forall p, In p l3 -> In p l)
             by (intros p Hp; rewrite Hl; apply in_or_app; right; exact Hp).
           pose proof (Hrestrict s cs l1 ltac:(lia) ltac:(lia) ltac:(lia) ltac:(lia) Hc1 Hin1 off) as L1.
           pose proof (Hrestrict ce e l3 ltac:(lia) ltac:(lia) ltac:(lia) ltac:(lia) Hc3 Hin3 (off + (ce - s))) as L3.
           rewrite Hl. rewrite !app_length. lia.
Qed.

(* ---- the theorem, in the coordinates of C15_checker_sound (offsets relative to s) ------ *)
Definition shift (s : Z) (p : piece) : piece :=
  {| poff := s + poff p; plen := plen p; pshape := pshape p |}.

Lemma poff_shift s p : poff (shift s p) = s + poff p.
Proof. reflexivity. Qed.

Lemma plen_shift s p : plen (shift s p) = plen p.
Proof. reflexivity. Qed.

Lemma chain_shift s l : forall o e, chain l o e -> chain (map (shift s) l) (s + o) (s + e).
Proof.
  induction l as [|p r IH]; cbn [chain map]; intros o e H; [lia|].
  destruct H as (H1 & H2 & H3). rewrite !poff_shift, !plen_shift.
  repeat split; try lia.
  replace (s + o + plen p) with (s + (o + plen p)) by lia. apply IH. exact H3.
Qed.

Lemma top_in_cell sh s e : allpos sh -> 0 <= s -> e <= prodl sh -> in_cell sh s e.
Proof.
  intros Hpos H0 He. destruct sh as [|d rest]; cbn [in_cell]; [trivial|].
  intros Hlt. rewrite prodl_cons in He. rewrite !Z.div_small by lia. reflexivity.
Qed.

Theorem split_minimal :
  forall sh, allpos sh -> forall s e, 0 <= s -> s <= e -> e <= prodl sh ->
  forall l : list piece,
    chain l 0 (e - s) ->
    Forall (fun p => strict_slab sh (s + poff p) (s + poff p + plen p) (pshape p)) l ->
    (length (rec sh 0 s e) <= length l)%nat.
Proof.
  intros sh Hpos s e H0 Hse He l Hch Hsl.
  destruct sh as [|d rest].
  - cbn [rec]. destruct (e =? s) eqn:E; [apply Nat.le_0_l|].
    cbn [length]. apply (chain_nonempty _ _ _ Hch). lia.
  - rewrite <- (map_length (shift s) l).
    apply (min_abs (d :: rest) Hpos 0 s e); [exact Hse | apply top_in_cell; assumption | | ].
    + pose proof (chain_shift s l 0 (e - s) Hch) as H.
      replace (s + 0) with s in H by lia. replace (s + (e - s)) with e in H by lia. exact H.
    + apply Forall_forall. intros q Hq. apply in_map_iff in Hq. destruct Hq as (p & Hpq & Hp).
      subst q. rewrite Forall_forall in Hsl. pose proof (Hsl p Hp) as Hs.
      cbn [strict_slab] in Hs. unfold abs_pslab, shift; cbn [poff plen pshape]. exact Hs.
Qed.

(* ---- the minimum is attained: the model's own pieces are strict slabs ------------------ *)
Lemma rec_pslabs sh : allpos sh -> sh <> [] -> forall off s e, s <= e -> in_cell sh s e ->
  Forall (fun p => pslab sh (abs_start off s p) (abs_start off s p + plen p) (pshape p)) (rec sh off s e).
Proof.
  induction sh as [|d rest IH]; intros Hpos Hne off s e Hse Hcell; [congruence|].
  inversion Hpos as [|d0 l0 Hd Hrest]. clear d0 l0 H H0.
  destruct rest as [|d' rest'].
  - cbn [rec]. destruct (e =? s) eqn:E; [constructor|].
    constructor; [|constructor]. unfold abs_start; cbn [poff plen pshape].
    cbn [in_cell prodl fold_right] in Hcell.
    apply pslab_here; cbn [prodl fold_right]; try lia.
    replace (s + (off - off) + (e - s) - 1) with (e - 1) by lia.
    replace (s + (off - off)) with s by lia. apply Hcell; lia.
  - rewrite rec_cons2. destruct (e =? s) eqn:E; [constructor|]. cbv zeta.
    pose proof (prodl_pos _ Hrest) as HR.
    cbn [in_cell] in Hcell.
    set (R := prodl (d' :: rest')) in *.
    set (cs := (s + R - 1) / R * R). set (ce := e / R * R).
    assert (Hcs : s <= cs < s + R) by (subst cs; lia).
    assert (Hce : e - R < ce <= e) by (subst ce; lia).
    assert (Hcsm : cs mod R = 0) by (subst cs; apply Z.mod_mul; lia).
    assert (Hcem : ce mod R = 0) by (subst ce; apply Z.mod_mul; lia).
    assert (Hsub : forall a b, a <= b -> (forall m, m mod R = 0 -> ~ (a < m < b)) -> in_cell (d' :: rest') a b).
    { intros a b Hab Hno. cbn [in_cell]. intros Hlt. change (a / R = (b - 1) / R).
      apply one_cell; assumption. }
    assert (Hlift : forall off' s' e', s <= s' -> e' <= e -> s' <= e' ->
               in_cell (d' :: rest') s' e' ->
               off' - s' = off - s ->
               Forall (fun p => pslab (d :: d' :: rest') (abs_start off s p) (abs_start off s p + plen p) (pshape p))
                      (rec (d' :: rest') off' s' e')).
    { intros off' s' e' H1 H2 H3 H4 H5.
      pose proof (IH Hrest ltac:(discriminate) off' s' e' H3 H4) as HF.
      eapply Forall_impl; [|exact HF]. intros p Hp. cbv beta in Hp.
      replace (abs_start off s p) with (abs_start off' s' p) by (unfold abs_start; lia).
      apply pslab_deeper; exact Hp. }
    destruct (cs <? ce) eqn:E1.
    + apply Forall_app_intro; [|apply Forall_app_intro].
      * apply Hlift; try lia. apply Hsub; [lia|]. intros m Hm [Hm1 Hm2].
        pose proof (multiple_gap R m cs HR Hcsm Hm). lia.
      * constructor; [|constructor]. unfold abs_start; cbn [poff plen pshape].
        replace (s + (off + (cs - s) - off)) with cs by lia.
        assert (Hdiff : ce - cs = (e / R - (s + R - 1) / R) * R) by (subst cs ce; ring).
        assert (Hk : 0 < e / R - (s + R - 1) / R).
        { assert (Hlt : cs < ce) by lia. unfold cs, ce in Hlt.
          apply Z.mul_lt_mono_pos_r in Hlt; lia. }
        apply pslab_here; fold R; rewrite ?Hdiff, ?Z.div_mul by lia.
        -- exact Hk.
        -- exact Hcsm.
        -- reflexivity.
        -- rewrite <- Hdiff. replace (cs + (ce - cs) - 1) with (ce - 1) by lia.
           assert (Hc := Hcell ltac:(lia)).
           assert (0 < d * R) by (apply Z.mul_pos_pos; lia).
           assert (s / (d * R) <= cs / (d * R)) by (apply Z.div_le_mono; lia).
           assert (cs / (d * R) <= (ce - 1) / (d * R)) by (apply Z.div_le_mono; lia).
           assert ((ce - 1) / (d * R) <= (e - 1) / (d * R)) by (apply Z.div_le_mono; lia).
           lia.
      * apply Hlift; try lia. apply Hsub; [lia|]. intros m Hm [Hm1 Hm2].
        pose proof (multiple_gap R ce m HR Hm Hcem). lia.
    + destruct (ce <? cs) eqn:E2.
      * apply Hlift; try lia. apply Hsub; [lia|]. intros m Hm [Hm1 Hm2].
        pose proof (multiple_gap R m cs HR Hcsm Hm). pose proof (multiple_gap R ce m HR Hm Hcem). lia.
      * assert (cs = ce) by lia.
        apply Forall_app_intro.
        -- apply Hlift; try lia. apply Hsub; [lia|]. intros m Hm [Hm1 Hm2].
           pose proof (multiple_gap R m cs HR Hcsm Hm). lia.
        -- apply Hlift; try lia. apply Hsub; [lia|]. intros m Hm [Hm1 Hm2].
           pose proof (multiple_gap R ce m HR Hm Hcem). lia.
Qed.

Lemma rec_strict_slabs sh : allpos sh -> forall off s e, s <= e -> in_cell sh s e ->
  Forall (fun p => strict_slab sh (abs_start off s p) (abs_start off s p + plen p) (pshape p)) (rec sh off s e).
Proof.
  intros Hpos off s e Hse Hcell. destruct sh as [|d rest].
  - cbn [strict_slab]. apply rec_slabs; assumption.
  - cbn [strict_slab]. apply rec_pslabs; [assumption | discriminate | assumption | assumption].
Qed.

(* the model's output is itself one of the decompositions split_minimal quantifies over *)
Lemma split_minimum_attained :
  forall sh, allpos sh -> forall s e, 0 <= s -> s <= e -> e <= prodl sh ->
    chain (rec sh 0 s e) 0 (e - s)
    /\ Forall (fun p => strict_slab sh (s + poff p) (s + poff p + plen p) (pshape p)) (rec sh 0 s e).
Proof.
  intros sh Hpos s e H0 Hse He. split.
  - apply (rec_chain sh Hpos 0 s e Hse).
  - pose proof (rec_strict_slabs sh Hpos 0 s e Hse (top_in_cell sh s e Hpos H0 He)) as HF.
    eapply Forall_impl; [|exact HF]. intros p Hp. cbv beta in Hp. unfold abs_start in Hp.
    replace (s + (poff p - 0)) with (s + poff p) in Hp by lia. exact Hp.
Qed.

(* an output accepted by the certified checker has the minimal number of pieces *)
Corollary checked_output_minimal :
  forall sh s e impl, allpos sh -> 0 <= s -> s <= e -> e <= prodl sh ->
    C15_checkb sh s e impl = true ->
    forall l, chain l 0 (e - s) ->
      Forall (fun p => strict_slab sh (s + poff p) (s + poff p + plen p) (pshape p)) l ->
      (length impl <= length l)%nat.
Proof.
  intros sh s e impl Hpos H0 Hse He Hck l Hch Hsl.
  apply C15_checkb_sound in Hck. destruct Hck as (_ & _ & Hlen). rewrite Hlen.
  apply split_minimal; assumption.
Qed.

(* ---- examples -------------------------------------------------------------------------- *)
Ltac pslab_tac :=
  first [ apply pslab_here; [lia | vm_compute; reflexivity | vm_compute; reflexivity | vm_compute; reflexivity]
        | apply pslab_deeper; pslab_tac ].

(* non-vacuity: shape [3;4;5], range [7,50).  The model returns 4 pieces
   [7,10):[3]  [10,20):[2;5]  [20,40):[1;4;5]  [40,50):[2;5];
   the 6-piece list below is another ordered partition into strict slabs. *)
Example split_minimal_nonvacuous :
  let sh := [3; 4; 5] in
  let l := [mk 0 3 [3]; mk 3 5 [1; 5]; mk 8 5 [1; 5]; mk 13 20 [1; 4; 5]; mk 33 5 [1; 5]; mk 38 5 [5]] in
  allpos sh /\ 0 <= 7 <= 50 /\ 50 <= prodl sh
  /\ chain l 0 (50 - 7)
  /\ Forall (fun p => strict_slab sh (7 + poff p) (7 + poff p + plen p) (pshape p)) l
  /\ rec sh 0 7 50 = [mk 0 3 [3]; mk 3 10 [2; 5]; mk 13 20 [1; 4; 5]; mk 33 10 [2; 5]]
  /\ length l = 6%nat.
Proof.
  cbv zeta. split; [repeat constructor|]. split; [lia|]. split; [vm_compute; discriminate|].
  split; [cbn [chain mk poff plen]; lia|].
  split; [|split; reflexivity].
  cbn [strict_slab]. repeat (constructor; [unfold mk; cbn [poff plen pshape]; pslab_tac|]). constructor.
Qed.

(* the weaker predicate `slab` is NOT enough for minimality: through slab_scalar any range is a
   `slab` of shape [b-a].  Shape [3;4], range [2,6): the model needs 2 pieces ([2,4) and [4,6), one
   per row); the single piece [2,6) with shape [4] straddles two rows and still satisfies `slab`. *)
Example slab_not_minimal :
  let l := [mk 0 4 [4]] in
  chain l 0 (6 - 2)
  /\ Forall (fun p => slab [3; 4] (2 + poff p) (2 + poff p + plen p) (pshape p)) l
  /\ Nat.lt (length l) (length (rec [3; 4] 0 2 6)).
Proof.
  cbv zeta. split; [cbn [chain mk poff plen]; lia|]. split.
  - constructor; [|constructor]. unfold mk; cbn [poff plen pshape].
    apply slab_deeper, slab_deeper. exact (slab_scalar 2 6 eq_refl).
  - vm_compute. lia.
Qed.

(* ... and that piece is not a strict slab *)
Example straddling_piece_not_strict : ~ strict_slab [3; 4] 2 6 [4].
Proof.
  cbn [strict_slab]. intros H.
  apply pslab_inv in H. destruct H as [(k & _ & _ & _ & _ & Hshp) | H]; [discriminate|].
  apply pslab_inv in H. destruct H as [(k & _ & _ & _ & Hc & _) | H]; [vm_compute in Hc; discriminate|].
  inversion H.
Qed.
