(* C06 - the theorems for the skip rule as repaired in /repo (defect F6): a rank skips the group step only when NO block
   of its group has a gradient (p_global_skip = true).  No hypothesis on the history is left: every pattern of absent
   gradients, including steps where every block owned by some rank lacks a gradient. *)
From Coq Require Import List ZArith Bool Arith Lia.
From Shampoo Require Import Dist DistProofs DistSchedProofs.
Import ListNotations.

Section Repaired.
  Context {bstate value grad : Type}.
  Implicit Types P : params bstate value grad.

  Theorem ddp_lowprec_eq_rounded_serial_every_history P h v0 st0 b0 :
    wf_config P -> p_global_skip P = true ->
    exists c, ddp_run P h (init_cluster P v0 st0 b0) = Some c /\
      forall r, r < p_world P ->
        vals (cget c r) = svals (serial_run P (p_cast P) h (mkS v0 st0 0%Z)) /\
        stepc (cget c r) = sstepc (serial_run P (p_cast P) h (mkS v0 st0 0%Z)) /\
        forall b, b < p_nb P -> owns P r b = true ->
          nth b (sts (cget c r)) (p_ds P) = nth b (ssts (serial_run P (p_cast P) h (mkS v0 st0 0%Z))) (p_ds P).
  Proof. intros WF H. apply ddp_lowprec_eq_rounded_serial; [exact WF | left; exact H]. Qed.

  Theorem ddp_eq_serial_every_history P h v0 st0 b0 :
    wf_config P -> p_global_skip P = true -> (forall v, p_cast P v = v) ->
    exists c, ddp_run P h (init_cluster P v0 st0 b0) = Some c /\
      forall r, r < p_world P -> vals (cget c r) = svals (serial_run P (fun v => v) h (mkS v0 st0 0%Z)).
  Proof. intros WF H Hc. apply ddp_eq_serial; [exact WF | left; exact H | exact Hc]. Qed.

  Theorem ddp_replicas_agree_every_history P h v0 st0 b0 c :
    wf_config P -> p_global_skip P = true -> ddp_run P h (init_cluster P v0 st0 b0) = Some c ->
    forall r r', r < p_world P -> r' < p_world P ->
      vals (cget c r) = vals (cget c r') /\ stepc (cget c r) = stepc (cget c r').
  Proof. intros WF H. apply ddp_replicas_agree; [exact WF | left; exact H]. Qed.

  Theorem collective_logs_equal_every_history P h v0 st0 b0 c :
    wf_config P -> p_global_skip P = true -> ddp_run P h (init_cluster P v0 st0 b0) = Some c ->
    forall r r', r < p_world P -> r' < p_world P -> grp P r = grp P r' ->
      gathers (log (cget c r)) = gathers (log (cget c r')).
  Proof. intros WF H. apply collective_logs_equal; [exact WF | left; exact H]. Qed.

  Theorem interleaving_irrelevant_every_history P h c0 :
    wf_config P -> p_global_skip P = true ->
    exists cf, ddp_run P h c0 = Some cf /\
      forall c, sstar P (init_config P h c0) c -> terminal P c ->
        finished P c /\ (forall r, r < p_world P -> pst (pget c r) = cget cf r) /\ ~ deadlocked P c.
  Proof. intros WF H. apply interleaving_irrelevant; [exact WF | left; exact H]. Qed.
End Repaired.
