(* C15 - theorems about the split-recovery model. *)
From Coq Require Import ZArith List Bool Lia ZifyBool.
From Shampoo Require Import SplitRecovery.
Import ListNotations.
Open Scope Z_scope.
Ltac Zify.zify_post_hook ::= Z.div_mod_to_equations.

Definition allpos (l : list Z) : Prop := Forall (fun d => 0 < d) l.

Lemma prodl_pos l : allpos l -> 0 < prodl l.
Proof.
  induction 1 as [|d l Hd _ IH]; cbn [prodl fold_right]; [lia|].
  apply Z.mul_pos_pos; assumption.
Qed.

(* pieces follow each other without gap or overlap, from offset o to offset e, none empty *)
Fixpoint chain (l : list piece) (o e : Z) : Prop :=
  match l with
  | [] => o = e
  | p :: r => poff p = o /\ 0 < plen p /\ chain r (o + plen p) e
  end.

Lemma chain_app l1 l2 o m e : chain l1 o m -> chain l2 m e -> chain (l1 ++ l2) o e.
Proof.
  revert o; induction l1 as [|p l1 IH]; cbn [chain app]; intros o H1 H2.
  - subst; exact H2.
  - destruct H1 as (Ho & Hp & H1). repeat split; try assumption. apply IH; assumption.
Qed.

Lemma chain_le l o e : chain l o e -> o <= e.
Proof.
  revert o; induction l as [|p l IH]; cbn [chain]; intros o H; [lia|].
  destruct H as (_ & Hp & H). apply IH in H. lia.
Qed.

Lemma rec_empty sh off s : rec sh off s s = [].
Proof. destruct sh; cbn [rec]; rewrite Z.eqb_refl; reflexivity. Qed.

(* ---- 1. the pieces partition [s,e) in order -------------------------------------------- *)
Lemma rec_chain sh : allpos sh -> forall off s e, s <= e -> chain (rec sh off s e) off (off + (e - s)).
Proof.
  induction sh as [|d rest IH]; intros Hpos off s e Hse.
  - cbn [rec]. destruct (e =? s) eqn:E; cbn [chain poff plen]; lia.
  - cbn [rec]. destruct (e =? s) eqn:E; [cbn [chain]; lia|].
    destruct rest as [|d' rest'].
    + cbn [chain poff plen]; lia.
    + inversion Hpos as [|? ? Hd Hrest]; subst.
      pose proof (prodl_pos _ Hrest) as HR.
      set (R := prodl (d' :: rest')) in *.
      set (cs := (s + R - 1) / R * R). set (ce := e / R * R).
      assert (Hcs : s <= cs < s + R) by (subst cs; lia).
      assert (Hce : e - R < ce <= e) by (subst ce; lia).
      destruct (cs <? ce) eqn:E1.
      * apply chain_app with (m := off + (cs - s)); [apply (IH Hrest); lia|].
        cbn [app chain poff plen]. repeat split; try lia.
        replace (off + (cs - s) + (ce - cs)) with (off + (ce - s)) by lia.
        replace (off + (e - s)) with (off + (ce - s) + (e - ce)) by lia.
        apply (IH Hrest); lia.
      * destruct (ce <? cs) eqn:E2; [apply (IH Hrest); lia|].
        assert (cs = ce) by lia.
        apply chain_app with (m := off + (cs - s)); [apply (IH Hrest); lia|].
        replace (off + (cs - s)) with (off + (ce - s)) by lia.
        replace (off + (e - s)) with (off + (ce - s) + (e - ce)) by lia.
        apply (IH Hrest); lia.
Qed.

Lemma multiple_gap R x m : 0 < R -> m mod R = 0 -> x mod R = 0 -> x < m -> x + R <= m.
Proof.
  intros HR Hm Hx Hlt.
  apply Z.div_exact in Hm; [|lia]. apply Z.div_exact in Hx; [|lia].
  assert (x / R < m / R) by nia. nia.
Qed.

(* ---- 2. every piece is a slab ---------------------------------------------------------- *)
(* slab sh a b shp : the absolute flat range [a,b) of the original tensor is, for some level of the
   suffix sh, `k x rest` with its start a multiple of R = prod rest, inside one cell of size d*R
   (= one index of the leading dimensions).  shp is the shape of the piece. *)
Inductive slab : list Z -> Z -> Z -> list Z -> Prop :=
| slab_scalar a b : a < b -> slab [] a b [b - a]
| slab_here d rest a b k :
    0 < k -> a mod (prodl rest) = 0 -> b = a + k * prodl rest ->
    a / (d * prodl rest) = (b - 1) / (d * prodl rest) ->
    slab (d :: rest) a b (k :: rest)
| slab_deeper d rest a b shp : slab rest a b shp -> slab (d :: rest) a b shp.

Definition in_cell (sh : list Z) (s e : Z) : Prop :=
  match sh with
  | [] => True
  | d :: rest => s < e -> s / (d * prodl rest) = (e - 1) / (d * prodl rest)
  end.

Definition abs_start (off s : Z) (p : piece) : Z := s + (poff p - off).

Lemma Forall_app_intro {A} (P : A -> Prop) l1 l2 : Forall P l1 -> Forall P l2 -> Forall P (l1 ++ l2).
Proof. intros; apply Forall_app; split; assumption. Qed.

Lemma in_cell_sub d' rest' s e a b :
  0 < d' -> 0 < prodl rest' ->
  a < b -> a / (d' * prodl rest') = (b - 1) / (d' * prodl rest') -> s <= a -> b <= e -> s <= e ->
  True.
Proof. trivial. Qed.

Lemma rec_slabs sh : allpos sh -> forall off s e, s <= e -> in_cell sh s e ->
  Forall (fun p => slab sh (abs_start off s p) (abs_start off s p + plen p) (pshape p)) (rec sh off s e).
Proof.
  induction sh as [|d rest IH]; intros Hpos off s e Hse Hcell.
  - cbn [rec]. destruct (e =? s) eqn:E; [constructor|].
    constructor; [|constructor]. unfold abs_start; cbn [poff plen pshape].
    replace (s + (off - off) + (e - s) ) with e by lia.
    replace (e - s) with (e - (s + (off - off))) by lia. constructor. lia.
  - cbn [rec]. destruct (e =? s) eqn:E; [constructor|].
    inversion Hpos as [|? ? Hd Hrest]; subst.
    destruct rest as [|d' rest'].
    + constructor; [|constructor]. unfold abs_start; cbn [poff plen pshape].
      cbn [in_cell prodl fold_right] in Hcell.
      apply slab_here; cbn [prodl fold_right]; try lia.
      replace (s + (off - off) + (e - s) - 1) with (e - 1) by lia.
      replace (s + (off - off)) with s by lia. apply Hcell; lia.
    + pose proof (prodl_pos _ Hrest) as HR.
      cbn [in_cell] in Hcell.
      set (R := prodl (d' :: rest')) in *.
      set (cs := (s + R - 1) / R * R). set (ce := e / R * R).
      assert (Hcs : s <= cs < s + R) by (subst cs; lia).
      assert (Hce : e - R < ce <= e) by (subst ce; lia).
      assert (Hcsm : cs mod R = 0) by (subst cs; apply Z.mod_mul; lia).
      assert (Hcem : ce mod R = 0) by (subst ce; apply Z.mod_mul; lia).
      inversion Hrest as [|? ? Hd' Hrest']; subst.
      pose proof (prodl_pos _ Hrest') as HR'.
      assert (HRe : R = d' * prodl rest') by reflexivity.
      (* a sub-range that does not contain a multiple of R strictly inside lies in one cell of R *)
      assert (Hsub : forall a b, a <= b -> (forall m, m mod R = 0 -> ~ (a < m < b)) -> in_cell (d' :: rest') a b).
      { intros a b Hab Hno. cbn [in_cell]. fold R. rewrite <- HRe. intros Hlt.
        destruct (Z.eq_dec (a / R) ((b - 1) / R)) as [|Hne]; [assumption|exfalso].
        apply (Hno (((b - 1) / R) * R)); [apply Z.mod_mul; lia|].
        assert (a / R < (b - 1) / R) by (assert (a / R <= (b - 1) / R) by (apply Z.div_le_mono; lia); lia).
        split; [|lia]. nia. }
      assert (Hlift : forall off' s' e', s <= s' -> e' <= e -> s' <= e' ->
                 in_cell (d' :: rest') s' e' ->
                 off' - s' = off - s ->
                 Forall (fun p => slab (d :: d' :: rest') (abs_start off s p) (abs_start off s p + plen p) (pshape p))
                        (rec (d' :: rest') off' s' e')).
      { intros off' s' e' H1 H2 H3 H4 H5.
        pose proof (IH Hrest off' s' e' H3 H4) as HF.
        eapply Forall_impl; [|exact HF]. intros p Hp. cbv beta in Hp.
        replace (abs_start off s p) with (abs_start off' s' p) by (unfold abs_start; lia).
        apply slab_deeper; exact Hp. }
      destruct (cs <? ce) eqn:E1.
      * apply Forall_app_intro; [|apply Forall_app_intro].
        -- apply Hlift; try lia. apply Hsub; [lia|]. intros m Hm [Hm1 Hm2]. pose proof (multiple_gap R m cs HR Hcsm Hm). lia.
        -- constructor; [|constructor]. unfold abs_start; cbn [poff plen pshape].
           replace (s + (off + (cs - s) - off)) with cs by lia.
           assert (Hdiff : ce - cs = (e / R - (s + R - 1) / R) * R) by (subst cs ce; ring).
           assert (Hk : 0 < e / R - (s + R - 1) / R).
           { assert (Hlt : cs < ce) by lia. unfold cs, ce in Hlt.
             apply Z.mul_lt_mono_pos_r in Hlt; lia. }
           apply slab_here; fold R; rewrite ?Hdiff, ?Z.div_mul by lia.
           ++ exact Hk.
           ++ exact Hcsm.
           ++ reflexivity.
           ++ rewrite <- Hdiff. replace (cs + (ce - cs) - 1) with (ce - 1) by lia.
              assert (Hc := Hcell ltac:(lia)).
              assert (0 < d * R) by (apply Z.mul_pos_pos; lia).
              assert (s / (d * R) <= cs / (d * R)) by (apply Z.div_le_mono; lia).
              assert (cs / (d * R) <= (ce - 1) / (d * R)) by (apply Z.div_le_mono; lia).
              assert ((ce - 1) / (d * R) <= (e - 1) / (d * R)) by (apply Z.div_le_mono; lia).
              lia.
        -- apply Hlift; try lia. apply Hsub; [lia|]. intros m Hm [Hm1 Hm2]. pose proof (multiple_gap R ce m HR Hm Hcem). lia.
      * destruct (ce <? cs) eqn:E2.
        -- apply Hlift; try lia. apply Hsub; [lia|]. intros m Hm [Hm1 Hm2]. pose proof (multiple_gap R m cs HR Hcsm Hm). pose proof (multiple_gap R ce m HR Hm Hcem). lia.
        -- assert (cs = ce) by lia.
           apply Forall_app_intro.
           ++ apply Hlift; try lia. apply Hsub; [lia|]. intros m Hm [Hm1 Hm2]. pose proof (multiple_gap R m cs HR Hcsm Hm). lia.
           ++ apply Hlift; try lia. apply Hsub; [lia|]. intros m Hm [Hm1 Hm2]. pose proof (multiple_gap R ce m HR Hm Hcem). lia.
Qed.

(* the shape of every piece has as many elements as the piece is long *)
Lemma slab_numel sh a b shp : allpos sh -> slab sh a b shp -> prodl shp = b - a.
Proof.
  intros Hpos H; induction H as [a b Hab | d rest a b k Hk Hm Hb Hc | d rest a b shp H IH].
  - cbn [prodl fold_right]; lia.
  - cbn [prodl fold_right]. fold (prodl rest). lia.
  - apply IH. inversion Hpos; assumption.
Qed.

(* ---- 3. corner cases ------------------------------------------------------------------- *)
Lemma split_empty_range shape s : split_tensor_block_recovery 1 shape s s = Pieces [].
Proof. unfold split_tensor_block_recovery; cbn. rewrite rec_empty; reflexivity. Qed.

Lemma split_rejects_nonflat_shard k shape s e : k <> 1 -> split_tensor_block_recovery k shape s e = RaiseValueError.
Proof. intros H; unfold split_tensor_block_recovery. destruct (k =? 1) eqn:E; [lia|reflexivity]. Qed.
