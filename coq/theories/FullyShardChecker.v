(* C08 - certified boolean checkers on what was OBSERVED, deciding whether the property fails on that run.

   C08_checkb          one FullyShard rank: the local shard of every parameter after every step (float32 bit patterns,
                       compared exactly) against the single-process run on the non-empty local tensors as ordinary
                       parameters; the rows of the other ranks; block infos and optimizer state of empty shards.
   C08_hybrid_checkb   a HybridShard mesh, column by column (C06's checker): every replica equals the FullyShard-only
                       reference of its shard coordinate after every step, equal all-gather sequences inside every comms
                       group, identical process-group creation sequences on ALL ranks of the mesh, nobody left waiting. *)
From Coq Require Import List ZArith Bool Arith Lia.
From Shampoo Require Import Show SplitRecovery Masks Dist DistChecker FullyShard.
Import ListNotations.
Close Scope Z_scope.
Open Scope nat_scope.

Definition bits := list Z.
Definition bits_eqb : bits -> bits -> bool := list_eqb Z.eqb.
Definition bitss_eqb : list bits -> list bits -> bool := list_eqb bits_eqb.

Record fs_obs := mkFsObs {
  fo_local : list (list bits);       (* step -> parameter of PARAMS -> p.to_local() after the step *)
  fo_ref : list (list bits);         (* step -> ordinary parameter of the serial reference (k-th non-empty local tensor) *)
  fo_outside0 : list bits;           (* parameter -> rows of the simulated global tensor outside this rank's shard, initially *)
  fo_outside : list (list bits);     (* step -> the same after the step *)
  fo_binfo : list binfo;             (* local_block_info_list: position of .param in PARAMS, composable_block_ids *)
  fo_nstate : list nat }.            (* parameter -> number of block entries in optimizer.state[p] *)

Definition flags (ls : list (list Z)) : list bool := map nonempty ls.

(* local shards of the non-empty parameters = the reference's parameters, after every step *)
Definition C08_values_ok (ls : list (list Z)) (o : fs_obs) : bool :=
  list_eqb bitss_eqb (map (fun l => compress l (flags ls)) (fo_local o)) (fo_ref o)
  && forallb (fun l => length l =? length ls) (fo_local o).
(* nothing outside the local shard is written *)
Definition C08_outside_ok (o : fs_obs) : bool := forallb (fun x => bitss_eqb x (fo_outside0 o)) (fo_outside o).
(* empty shards are skipped: no block info names them, no state is created for them, (their local tensor has no element) *)
Definition C08_skipped_ok (ls : list (list Z)) (o : fs_obs) : bool :=
  forallb (fun bi => nth (bi_param bi) (flags ls) false) (fo_binfo o)
  && (length (fo_nstate o) =? length ls)
  && forallb (fun x : bool * nat => fst x || (snd x =? 0)) (combine (flags ls) (fo_nstate o))
  && forallb (fun l => forallb (fun x : bool * bits => fst x || (length (snd x) =? 0)) (combine (flags ls) l)) (fo_local o).

Definition C08_checkb_local (ls : list (list Z)) (o : fs_obs) : bool :=
  C08_values_ok ls o && C08_outside_ok o && C08_skipped_ok ls o.

(* the input of a FullyShard rank: global shapes, number of shard ranks, rank *)
Definition C08_checkb (gshapes : list (list Z)) (n r : nat) (o : fs_obs) : bool :=
  C08_checkb_local (map (local_shape n r) gshapes) o.

Definition C08_spec_local (ls : list (list Z)) (o : fs_obs) : Prop :=
  length (fo_local o) = length (fo_ref o)
  /\ (forall t, t < length (fo_local o) ->
        length (nth t (fo_local o) []) = length ls
        /\ compress (nth t (fo_local o) []) (map nonempty ls) = nth t (fo_ref o) [])
  /\ (forall t, t < length (fo_outside o) -> nth t (fo_outside o) [] = fo_outside0 o)
  /\ (forall bi, In bi (fo_binfo o) -> bi_param bi < length ls /\ nonempty (nth (bi_param bi) ls []) = true)
  /\ (forall j, j < length ls -> nonempty (nth j ls []) = false ->
        nth j (fo_nstate o) 0 = 0 /\ forall t, t < length (fo_local o) -> nth j (nth t (fo_local o) []) [] = []).

Definition C08_spec (gshapes : list (list Z)) (n r : nat) (o : fs_obs) : Prop :=
  C08_spec_local (map (local_shape n r) gshapes) o.

Lemma bits_eqb_eq a b : bits_eqb a b = true -> a = b.
Proof. apply list_eqb_eq. intros x y. apply Z.eqb_eq. Qed.
Lemma bitss_eqb_eq a b : bitss_eqb a b = true -> a = b.
Proof. apply list_eqb_eq. exact bits_eqb_eq. Qed.

Lemma forallb_combine_nth {B} (f : bool * B -> bool) (d : B) : forall (fl : list bool) (l : list B) j,
  forallb f (combine fl l) = true -> j < length fl -> j < length l -> f (nth j fl false, nth j l d) = true.
Proof.
  induction fl as [|b fl IH]; intros l j H Hj Hl; [cbn in Hj; lia|]. destruct l as [|x l]; [cbn in Hl; lia|].
  cbn [combine forallb] in H. apply andb_true_iff in H as [H1 H2]. destruct j as [|j]; [exact H1|].
  cbn [nth]. apply IH; cbn [length] in *; [exact H2|lia|lia].
Qed.

Theorem C08_checkb_local_sound ls o : C08_checkb_local ls o = true -> C08_spec_local ls o.
Proof.
  unfold C08_checkb_local. intros H. apply andb_true_iff in H as [H H3]. apply andb_true_iff in H as [H1 H2].
  unfold C08_values_ok in H1. apply andb_true_iff in H1 as [H1 H1'].
  apply (list_eqb_eq bitss_eqb bitss_eqb_eq) in H1. rewrite forallb_forall in H1'.
  unfold C08_skipped_ok in H3. apply andb_true_iff in H3 as [H3 H3d]. apply andb_true_iff in H3 as [H3 H3c].
  apply andb_true_iff in H3 as [H3a H3b]. apply Nat.eqb_eq in H3b.
  rewrite forallb_forall in H3a, H3d.
  assert (FL : forall j, nth j (flags ls) false = true -> j < length ls /\ nonempty (nth j ls []) = true).
  { intros j Hj. unfold flags in Hj. destruct (Nat.lt_ge_cases j (length ls)) as [L|L].
    - split; [exact L|]. rewrite (nth_indep _ false (nonempty [])) in Hj by (rewrite map_length; exact L).
      rewrite map_nth in Hj. exact Hj.
    - rewrite nth_overflow in Hj by (rewrite map_length; exact L). discriminate. }
  assert (FLlen : length (flags ls) = length ls) by (unfold flags; apply map_length).
  split; [|split; [|split; [|split]]].
  - rewrite <- H1. rewrite map_length. reflexivity.
  - intros t Ht. split.
    + apply Nat.eqb_eq. apply H1'. apply nth_In. exact Ht.
    + rewrite <- H1. rewrite (nth_indep (map (fun l => compress l (flags ls)) (fo_local o)) [] (compress [] (flags ls))) by (rewrite map_length; exact Ht).
      rewrite (map_nth (fun l => compress l (flags ls))). reflexivity.
  - intros t Ht. unfold C08_outside_ok in H2. rewrite forallb_forall in H2. apply bitss_eqb_eq. apply H2. apply nth_In. exact Ht.
  - intros bi Hin. apply FL. apply H3a. exact Hin.
  - intros j Hj E.
    assert (Fj : nth j (flags ls) false = false).
    { unfold flags. rewrite (nth_indep _ false (nonempty [])) by (rewrite map_length; exact Hj). rewrite map_nth. exact E. }
    split.
    + pose proof (forallb_combine_nth (fun x : bool * nat => fst x || (snd x =? 0)) 0 (flags ls) (fo_nstate o) j H3c) as A.
      specialize (A ltac:(rewrite FLlen; exact Hj) ltac:(lia)). cbn [fst snd] in A. rewrite Fj in A.
      cbn [orb] in A. apply Nat.eqb_eq. exact A.
    + intros t Ht. specialize (H3d _ (nth_In _ [] Ht)). specialize (H1' _ (nth_In _ [] Ht)). apply Nat.eqb_eq in H1'.
      pose proof (forallb_combine_nth (fun x : bool * bits => fst x || (length (snd x) =? 0)) [] (flags ls) (nth t (fo_local o) []) j H3d) as A.
      specialize (A ltac:(rewrite FLlen; exact Hj) ltac:(lia)). cbn [fst snd] in A. rewrite Fj in A.
      cbn [orb] in A. apply Nat.eqb_eq in A. destruct (nth j (nth t (fo_local o) []) []); [reflexivity|discriminate].
Qed.

Theorem C08_checkb_sound gshapes n r o : C08_checkb gshapes n r o = true -> C08_spec gshapes n r o.
Proof. apply C08_checkb_local_sound. Qed.

(* not vacuous: accepts an agreeing observation (2 parameters of shapes (1,2) and (3) on rank 1 of 2: the first has no
   row there), rejects a value differing from the reference, a written foreign row, a block info / state on the
   empty shard *)
Example C08_checkb_accepts :
  C08_checkb [[1; 2]; [3]]%Z 2 1
    (mkFsObs [[[]; [5]]; [[]; [6]]]%Z [[[5]]; [[6]]]%Z [[1; 2]; [7; 8]]%Z [[[1; 2]; [7; 8]]; [[1; 2]; [7; 8]]]%Z [mkBI 1 0 0] [0; 1]) = true.
Proof. reflexivity. Qed.
Example C08_checkb_rejects_value :
  C08_checkb [[1; 2]; [3]]%Z 2 1
    (mkFsObs [[[]; [5]]; [[]; [9]]]%Z [[[5]]; [[6]]]%Z [[1; 2]; [7; 8]]%Z [[[1; 2]; [7; 8]]; [[1; 2]; [7; 8]]]%Z [mkBI 1 0 0] [0; 1]) = false.
Proof. reflexivity. Qed.
Example C08_checkb_rejects_foreign_row :
  C08_checkb [[1; 2]; [3]]%Z 2 1
    (mkFsObs [[[]; [5]]; [[]; [6]]]%Z [[[5]]; [[6]]]%Z [[1; 2]; [7; 8]]%Z [[[1; 2]; [7; 8]]; [[1; 3]; [7; 8]]]%Z [mkBI 1 0 0] [0; 1]) = false.
Proof. reflexivity. Qed.
Example C08_checkb_rejects_touched_empty :
  C08_checkb [[1; 2]; [3]]%Z 2 1
    (mkFsObs [[[]; [5]]]%Z [[[5]]]%Z [[1; 2]; [7; 8]]%Z [[[1; 2]; [7; 8]]]%Z [mkBI 0 0 0; mkBI 1 1 0] [1; 1]) = false.
Proof. reflexivity. Qed.

(* ---- HybridShard ---------------------------------------------------------------------------------------------- *)
(* per shard coordinate s: the FullyShard-only reference snapshots (block values after every step) and what was observed
   on the R ranks of column s (snapshots, logs with global rank numbers, hung flags) *)
Definition C08_creations_same (cols : list observed) : bool :=
  forallb (fun o => log_eqb (creations (nth 0 (o_logs o) [])) (creations (nth 0 (o_logs (nth 0 cols (mkObs [] [] []))) []))) cols.

Definition C08_hybrid_checkb (gs : nat) (refs : list (list snapshot)) (cols : list observed) : bool :=
  (length refs =? length cols)
  && forallb (fun x : list snapshot * observed => C06_checkb gs (fst x) (snd x)) (combine refs cols)
  && C08_creations_same cols.

Definition C08_hybrid_spec (gs : nat) (refs : list (list snapshot)) (cols : list observed) : Prop :=
  length refs = length cols
  /\ (forall s, s < length cols -> C06_spec gs (nth s refs []) (nth s cols (mkObs [] [] [])))
  /\ (forall s s' i i', s < length cols -> s' < length cols ->
        i < length (o_logs (nth s cols (mkObs [] [] []))) -> i' < length (o_logs (nth s' cols (mkObs [] [] []))) ->
        creations (nth i (o_logs (nth s cols (mkObs [] [] []))) []) = creations (nth i' (o_logs (nth s' cols (mkObs [] [] []))) [])).

Theorem C08_hybrid_checkb_sound gs refs cols : C08_hybrid_checkb gs refs cols = true -> C08_hybrid_spec gs refs cols.
Proof.
  unfold C08_hybrid_checkb, C08_hybrid_spec. intros H. apply andb_true_iff in H as [H H3]. apply andb_true_iff in H as [H1 H2].
  apply Nat.eqb_eq in H1. rewrite forallb_forall in H2.
  set (d := mkObs [] [] []) in *.
  assert (A : forall s, s < length cols -> C06_spec gs (nth s refs []) (nth s cols d)).
  { intros s Hs. apply C06_checkb_sound.
    apply (H2 (nth s refs [], nth s cols d)). rewrite <- combine_nth by exact H1. apply nth_In. rewrite combine_length. lia. }
  split; [exact H1|]. split; [exact A|].
  intros s s' i i' Hs Hs' Hi Hi'.
  unfold C08_creations_same in H3. rewrite forallb_forall in H3. fold d in H3.
  assert (B : forall s i, s < length cols -> i < length (o_logs (nth s cols d)) ->
                creations (nth i (o_logs (nth s cols d)) []) = creations (nth 0 (o_logs (nth 0 cols d)) [])).
  { intros s0 i0 Hs0 Hi0. destruct (A s0 Hs0) as (_ & _ & C & _).
    rewrite (C i0 0 Hi0 ltac:(lia)). apply log_eqb_eq. apply H3. apply nth_In. exact Hs0. }
  rewrite (B s i Hs Hi), (B s' i' Hs' Hi'). reflexivity.
Qed.

Example C08_hybrid_checkb_accepts :
  C08_hybrid_checkb 2 [[[[1; 2]]]; [[[3]]]]%Z
    [mkObs [[[[1; 2]]]; [[[1; 2]]]]%Z [[EvMesh [0; 2]; EvAllGather [0; 2] 64]; [EvMesh [0; 2]; EvAllGather [0; 2] 64]] [false; false];
     mkObs [[[[3]]]; [[[3]]]]%Z [[EvMesh [0; 2]; EvAllGather [1; 3] 64]; [EvMesh [0; 2]; EvAllGather [1; 3] 64]] [false; false]] = true.
Proof. reflexivity. Qed.
Example C08_hybrid_checkb_rejects_replica :
  C08_hybrid_checkb 2 [[[[1; 2]]]; [[[3]]]]%Z
    [mkObs [[[[1; 2]]]; [[[1; 2]]]]%Z [[EvAllGather [0; 2] 64]; [EvAllGather [0; 2] 64]] [false; false];
     mkObs [[[[3]]]; [[[4]]]]%Z [[EvAllGather [1; 3] 64]; [EvAllGather [1; 3] 64]] [false; false]] = false.
Proof. reflexivity. Qed.
Example C08_hybrid_checkb_rejects_hang :
  C08_hybrid_checkb 2 [[[[1; 2]]]]%Z
    [mkObs [[[[1; 2]]]; [[[1; 2]]]]%Z [[EvAllGather [0; 1] 64]; [EvAllGather [0; 1] 64]] [false; true]] = false.
Proof. reflexivity. Qed.
