(* ComposeFullyShard.v - the FullyShard rank model of C08 instantiated with the optimizer model of C01: the rank's run
   on its local shards, over any history, is the iteration of Optimizer.group_step over the blocks of its non-empty local
   tensors (fully_shard_eq_serial_on_local + ComposeMasks.spec_run_is_group_step_iteration). *)
From Coq Require Import ZArith List Bool Lia.
From Shampoo Require Import Scalar Optimizer Masks MasksProofs OptimizerMasks FullyShard FullyShardProofs ComposeMasks.
Import ListNotations.

Section ComposeFullyShard.
  Context {F : Type} (Op : ops F) (c : cfg (F:=F)).

  Theorem fully_shard_rank_is_group_step_iteration :
    forall (nblk : list Z -> nat) (nextra : nat) (gshapes : list (list Z)) (n r : nat)
           (vals : list (ovalue (F:=F))) (sts : list (ostate (F:=F))) (hs : list (hints (F:=F) * pgrads (ograd (F:=F)))),
      let ls := map (local_shape n r) gshapes in
      let locals := locals_of ls in
      let lay := all_local_layout nextra (map nblk locals) in
      length vals = lsum (map nblk locals) -> length sts = lsum (map nblk locals) ->
      Forall (fs_wf_input nblk ls) (map snd hs) ->
      Forall (fun p => uniform_l (fst p) (local_grads lay (restrict ls (snd p)))) hs ->
      exists s,
        fs_run nblk (opt_bstep Op c) nextra ls (init_state (fs_layout nblk nextra ls) vals sts) (map snd hs) = Ok s
        /\ (let '(t', vals', sts') := observable s in (t', mk_blocks vals' sts'))
           = model_run_l Op c (map (fun p => (fst p, local_grads lay (restrict ls (snd p)))) hs) 0%Z (mk_blocks vals sts).
  Proof.
    intros nblk nextra gshapes n r vals sts hs ls locals lay Hv Hs Hwf Hu.
    destruct (fully_shard_eq_serial_on_local nblk (opt_bstep Op c) nextra gshapes n r vals sts (map snd hs) Hv Hs Hwf)
      as [s [Hrun [_ Hobs]]].
    exists s. split; [exact Hrun|]. fold ls locals lay in Hobs. rewrite Hobs. symmetry.
    pose (hs' := map (fun p : hints (F:=F) * pgrads (ograd (F:=F)) => (fst p, restrict ls (snd p))) hs).
    assert (E1 : map (restrict ls) (map snd hs) = map snd hs') by (unfold hs'; rewrite !map_map; reflexivity).
    assert (E2 : map (fun p => (fst p, local_grads lay (restrict ls (snd p)))) hs
                 = map (fun p => (fst p, local_grads lay (snd p))) hs') by (unfold hs'; rewrite map_map; reflexivity).
    rewrite E1, E2.
    apply (spec_run_is_group_step_iteration Op c lay hs' 0%Z vals sts (lsum (map nblk locals)) Hv Hs).
    (* lengths of the local gradient lists: from the well-formedness of the inputs *)
    assert (El : fs_layout nblk nextra ls = lay)
      by (unfold lay, locals, fs_layout, fs_nbs; rewrite fs_params_filter; reflexivity).
    pose proof (fs_wf_history nblk nextra ls (map snd hs) Hwf) as Hw. rewrite El in Hw.
    unfold wf_history in Hw. rewrite Forall_forall in *.
    intros p' Hp'. unfold hs' in Hp'. apply in_map_iff in Hp'. destruct Hp' as [p [<- Hp]]. cbn [fst snd]. split.
    - rewrite <- (all_local_n_local nextra (map nblk locals)). apply local_grads_length; [apply all_local_wf|].
      rewrite <- (fs_grads_restrict ls (snd p)). apply Hw. apply in_map. apply in_map. exact Hp.
    - apply Hu. exact Hp.
  Qed.
End ComposeFullyShard.
