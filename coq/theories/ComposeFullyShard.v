(* ComposeFullyShard.v - the FullyShard rank model of C08 instantiated with the optimizer model of C01: the rank's run
   on its local shards, over any history, is the iteration of Optimizer.group_step over the blocks of its non-empty local
   tensors (fully_shard_eq_serial_on_local + ComposeMasks.spec_run_is_group_step_iteration). *)
From Coq Require Import ZArith List Bool Lia.
From Shampoo Require Import Scalar Optimizer Dist DistProofs Masks MasksProofs OptimizerMasks FullyShard FullyShardProofs ComposeMasks.
Import ListNotations.

Section ComposeFullyShard.
  Context {F : Type} (Op : ops F) (c : cfg (F:=F)).

  Theorem fully_shard_rank_is_group_step_iteration :
    forall (nblk : list Z -> nat) (nextra : nat) (gshapes : list (list Z)) (n r : nat)
           (vals : list (ovalue (F:=F))) (sts : list (ostate (F:=F))) (hs : list (hints (F:=F) * pgrads (ograd (F:=F)))),
      let ls := map (local_shape n r) gshapes in
      let locals := locals_of ls in
      let lay := all_local_layout nextra (map nblk locals) in
      length vals = lsum (map nblk locals) -> length sts = lsum (map nblk locals) ->
      Forall (fs_wf_input nblk ls) (map snd hs) ->
      Forall (fun p => uniform_l (fst p) (local_grads lay (restrict ls (snd p)))) hs ->
      exists s,
        fs_run nblk (opt_bstep Op c) nextra ls (init_state (fs_layout nblk nextra ls) vals sts) (map snd hs) = Ok s
        /\ (let '(t', vals', sts') := observable s in (t', mk_blocks vals' sts'))
           = model_run_l Op c (map (fun p => (fst p, local_grads lay (restrict ls (snd p)))) hs) 0%Z (mk_blocks vals sts).
  Proof.
    intros nblk nextra gshapes n r vals sts hs ls locals lay Hv Hs Hwf Hu.
    destruct (fully_shard_eq_serial_on_local nblk (opt_bstep Op c) nextra gshapes n r vals sts (map snd hs) Hv Hs Hwf)
      as [s [Hrun [_ Hobs]]].
    exists s. split; [exact Hrun|]. fold ls locals lay in Hobs. rewrite Hobs. symmetry.
    pose (hs' := map (fun p : hints (F:=F) * pgrads (ograd (F:=F)) => (fst p, restrict ls (snd p))) hs).
    assert (E1 : map (restrict ls) (map snd hs) = map snd hs') by (unfold hs'; rewrite !map_map; reflexivity).
    assert (E2 : map (fun p => (fst p, local_grads lay (restrict ls (snd p)))) hs
                 = map (fun p => (fst p, local_grads lay (snd p))) hs') by (unfold hs'; rewrite map_map; reflexivity).
    rewrite E1, E2.
    apply (spec_run_is_group_step_iteration Op c lay hs' 0%Z vals sts (lsum (map nblk locals)) Hv Hs).
    (* lengths of the local gradient lists: from the well-formedness of the inputs *)
    assert (El : fs_layout nblk nextra ls = lay)
      by (unfold lay, locals, fs_layout, fs_nbs; rewrite fs_params_filter; reflexivity).
    pose proof (fs_wf_history nblk nextra ls (map snd hs) Hwf) as Hw. rewrite El in Hw.
    unfold wf_history in Hw. rewrite Forall_forall in *.
    intros p' Hp'. unfold hs' in Hp'. apply in_map_iff in Hp'. destruct Hp' as [p [<- Hp]]. cbn [fst snd]. split.
    - rewrite <- (all_local_n_local nextra (map nblk locals)). apply local_grads_length; [apply all_local_wf|].
      rewrite <- (fs_grads_restrict ls (snd p)). apply Hw. apply in_map. apply in_map. exact Hp.
    - apply Hu. exact Hp.
  Qed.
End ComposeFullyShard.

(* ---- HybridShard: every rank (i, s) of every R x S mesh follows the update rule on the local tensors of its column ---- *)
Section ExtLemmas.
  Context {bstate grad value : Type}.
  Variables b1 b2 : Z -> bstate -> value -> grad -> bstate * value.
  Hypothesis Hext : forall t st v g, b1 t st v g = b2 t st v g.

  Lemma blockwise_ext t : forall lgr sts vals, blockwise b1 t lgr sts vals = blockwise b2 t lgr sts vals.
  Proof.
    induction lgr as [|og lgr IH]; intros [|st sts] [|v vals]; cbn; try reflexivity.
    rewrite IH. f_equal. unfold block_update. destruct og; [apply Hext|reflexivity].
  Qed.

  Lemma spec_step_ext lay s pg : spec_step b1 lay s pg = spec_step b2 lay s pg.
  Proof. unfold spec_step. destruct s as [[t vals] sts]. rewrite blockwise_ext. reflexivity. Qed.

  Lemma spec_run_ext lay : forall h s, spec_run b1 lay s h = spec_run b2 lay s h.
  Proof.
    unfold spec_run. induction h as [|pg h IH]; intros s; cbn; [reflexivity|].
    rewrite spec_step_ext. apply IH.
  Qed.
End ExtLemmas.

Section ComposeHybrid.
  Context {F : Type} (Op : ops F) (c : cfg (F:=F)).

  Definition ost_empty : ostate (F:=F) := (@nil nat, Optimizer.mkS [] [] [] [] [] [] []).

  Lemma bstep_of_opt t st v g :
    bstep_of (opt_bstep Op c) (fun _ q => q) (fun x => x) t st v g = opt_bstep Op c t st v g.
  Proof. unfold bstep_of. destruct (opt_bstep Op c t st v g); reflexivity. Qed.

  Lemma b_w_mk_blocks : forall (vals : list (list F)) (sts : list (ostate (F:=F))),
    length vals = length sts -> map (b_w (F:=F)) (mk_blocks vals sts) = vals.
  Proof.
    induction vals as [|v vals IH]; intros [|st sts] Hl; cbn in *; try discriminate; [reflexivity|].
    f_equal. apply IH. lia.
  Qed.

  Theorem hybrid_ranks_follow_update_rule :
    forall (nblk : list Z -> nat) (R S gs nextra : nat) (gshapes : list (list Z)) (owner : nat -> nat -> nat) (nbytes : nat -> nat)
           (hs : list (hints (F:=F) * (nat -> pgrads (ograd (F:=F)))))
           (v0 : nat -> list (ovalue (F:=F))) (st0 : nat -> list (ostate (F:=F))) (b0 : nat -> list (ovalue (F:=F))),
      let H := map snd hs in
      let hlsS := fun s => map (local_shape S s) gshapes in
      let lay := fun s => all_local_layout nextra (map nblk (locals_of (hlsS s))) in
      0 < S -> 0 < gs -> R = R / gs * gs ->
      (forall s b, s < S -> b < hnb nblk S gshapes s -> owner s b < gs) ->
      (forall s, s < S -> length (v0 s) = hnb nblk S gshapes s /\ length (st0 s) = hnb nblk S gshapes s) ->
      (forall s, s < S -> Forall (fs_wf_input nblk (hlsS s)) (map (fun pgs => pgs s) H)) ->
      (forall s, s < S -> Forall (fun p => uniform_l (fst p) (local_grads (lay s) (restrict (hlsS s) (snd p s)))) hs) ->
      exists cl,
        hy_run R S (hP nblk [] ost_empty (opt_bstep Op c) (fun x => x) (fun _ q => q) R S gs gshapes owner nbytes)
               (map (hentry_of nblk S gshapes) H) (hy_init R S v0 st0 b0) = Some cl /\
        forall i s, i < R -> s < S ->
          vals (cget cl (hrank S i s))
          = map (b_w (F:=F))
                (snd (model_run_l Op c (map (fun p => (fst p, local_grads (lay s) (restrict (hlsS s) (snd p s)))) hs) 0%Z
                                  (mk_blocks (v0 s) (st0 s)))).
  Proof.
    intros nblk R S gs nextra gshapes owner nbytes hs v0 st0 b0 H hlsS lay HS Hgs HR Hown Hlen Hwf Hu.
    destruct (hybrid_eq_fully_plus_ddp nblk [] ost_empty (opt_bstep Op c) (fun x => x) (fun _ q => q)
                R S gs nextra gshapes owner nbytes H v0 st0 b0 HS Hgs HR Hown Hlen Hwf) as [cl [Hrun Hall]].
    exists cl. split; [exact Hrun|]. intros i s Hi Hs.
    destruct (Hall i s Hi Hs) as [fs [Hfs [Hvals _]]]. rewrite Hvals.
    destruct (Hlen s Hs) as [Hv Hst].
    assert (Hnb : hnb nblk S gshapes s = lsum (map nblk (locals_of (hlsS s))))
      by (unfold hnb, hls, fs_nbs; rewrite fs_params_filter; reflexivity).
    rewrite Hnb in Hv, Hst.
    (* the FullyShard theorem for the same run *)
    pose proof (fully_shard_eq_serial_on_local nblk (bstep_of (opt_bstep Op c) (fun _ q => q) (fun x => x)) nextra gshapes S s
                  (v0 s) (st0 s) (map (fun pgs => pgs s) H) Hv Hst (Hwf s Hs)) as [fs' [Hfs' [_ Hobs]]].
    assert (E : Ok fs = Ok fs') by (etransitivity; [symmetry; exact Hfs | exact Hfs']). injection E as <-.
    (* spec_run with the optimizer's block step = iteration of group_step *)
    rewrite (spec_run_ext _ _ bstep_of_opt) in Hobs. fold (hlsS s) in Hobs. fold (lay s) in Hobs.
    pose (hs' := map (fun p : hints (F:=F) * (nat -> pgrads (ograd (F:=F))) => (fst p, restrict (hlsS s) (snd p s))) hs).
    assert (E1 : map (restrict (hlsS s)) (map (fun pgs => pgs s) H) = map snd hs')
      by (unfold hs', H; rewrite !map_map; reflexivity).
    assert (E2 : map (fun p => (fst p, local_grads (lay s) (restrict (hlsS s) (snd p s)))) hs
                 = map (fun p => (fst p, local_grads (lay s) (snd p))) hs') by (unfold hs'; rewrite map_map; reflexivity).
    rewrite E1 in Hobs. rewrite E2.
    assert (Hiter := spec_run_is_group_step_iteration Op c (lay s) hs' 0%Z (v0 s) (st0 s) (lsum (map nblk (locals_of (hlsS s)))) Hv Hst).
    assert (Hpre : Forall (fun p => length (local_grads (lay s) (snd p)) = lsum (map nblk (locals_of (hlsS s)))
                                    /\ uniform_l (fst p) (local_grads (lay s) (snd p))) hs').
    { assert (El : fs_layout nblk nextra (hlsS s) = lay s)
        by (unfold lay, fs_layout, fs_nbs; rewrite fs_params_filter; reflexivity).
      pose proof (fs_wf_history nblk nextra (hlsS s) (map (fun pgs => pgs s) H) (Hwf s Hs)) as Hw. rewrite El in Hw.
      unfold wf_history in Hw. pose proof (Hu s Hs) as Hus. rewrite Forall_forall in *.
      intros p' Hp'. unfold hs' in Hp'. apply in_map_iff in Hp'. destruct Hp' as [p [<- Hp]]. cbn [fst snd]. split.
      - rewrite <- (all_local_n_local nextra (map nblk (locals_of (hlsS s)))). apply local_grads_length; [apply all_local_wf|].
        rewrite <- (fs_grads_restrict (hlsS s) (snd p s)). apply Hw. apply in_map.
        unfold H. rewrite map_map. apply (in_map (fun x => snd x s)). exact Hp.
      - apply Hus. exact Hp. }
    assert (Hobs' : observable fs = spec_run (opt_bstep Op c) (lay s) (0%Z, v0 s, st0 s) (map snd hs')) by exact Hobs.
    assert (Hiter' : model_run_l Op c (map (fun p => (fst p, local_grads (lay s) (snd p))) hs') 0%Z (mk_blocks (v0 s) (st0 s))
                     = (let '(t', vals', sts') := spec_run (opt_bstep Op c) (lay s) (0%Z, v0 s, st0 s) (map snd hs') in
                        (t', mk_blocks vals' sts'))) by exact (Hiter Hpre).
    clear Hobs Hiter. rewrite Hiter'. rewrite <- Hobs'. unfold observable. cbn [snd].
    symmetry. apply b_w_mk_blocks.
    (* lengths of the final state: from the specification run *)
    assert (Hlens : forall h0 t vs ss, length vs = length ss ->
              Forall (fun pg => length (local_grads (lay s) pg) = length vs) h0 ->
              let '(_, vs', ss') := spec_run (opt_bstep Op c) (lay s) (t, vs, ss) h0 in length vs' = length ss').
    { induction h0 as [|pg h0 IHh]; intros t vs ss Hl Hf; cbn; [exact Hl|].
      inversion Hf as [|x l Hx Hrest]; subst. unfold spec_run in IHh.
      unfold spec_step at 1.
      apply IHh.
      - rewrite !map_length. reflexivity.
      - rewrite map_length. rewrite blockwise_length by congruence. rewrite Hx. exact Hrest. }
    specialize (Hlens (map snd hs') 0%Z (v0 s) (st0 s) ltac:(congruence)).
    rewrite <- Hobs' in Hlens. unfold observable in Hlens. apply Hlens.
    rewrite Forall_forall in *. intros pg Hpg. apply in_map_iff in Hpg. destruct Hpg as [p' [<- Hp']].
    rewrite Hv. exact (proj1 (Hpre p' Hp')).
  Qed.
End ComposeHybrid.
