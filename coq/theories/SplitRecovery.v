(* C15 - model of FSDPDistributor._split_tensor_block_recovery / HSDPDistributor._split_tensor_block_recovery.

   The code recurses over (dimension, block_start_idx, block_end_idx); every recursive call goes to
   dimension+1, so the model recurses structurally on the suffix original_shape[dimension:].
   A returned tensor is abstracted to (offset inside the shard, length, shape): the code builds
   results only with narrow() and view(), so a result *is* such a triple (a copy is not expressible). *)
From Coq Require Import ZArith List Bool.
Import ListNotations.
Open Scope Z_scope.

Record piece := { poff : Z; plen : Z; pshape : list Z }.

Definition prodl (l : list Z) : Z := fold_right Z.mul 1 l.

Fixpoint rec (sh : list Z) (off s e : Z) : list piece :=
  if e =? s then [] else
  match sh with
  | [] =>
      (* order 0: `dimension == len(shape) - 1` is false, remaining_size = prod(()) = 1, the center
         block is the whole range viewed as [-1]; both recursive calls get an empty range *)
      [ {| poff := off; plen := e - s; pshape := [e - s] |} ]
  | [_] => [ {| poff := off; plen := e - s; pshape := [e - s] |} ]
  | _ :: rest =>
      let R  := prodl rest in
      let cs := ((s + R - 1) / R) * R in
      let ce := (e / R) * R in
      if cs <? ce then
        rec rest off s cs
          ++ [ {| poff := off + (cs - s); plen := ce - cs; pshape := (ce - cs) / R :: rest |} ]
          ++ rec rest (off + (ce - s)) ce e
      else if ce <? cs then rec rest off s e
      else rec rest off s cs ++ rec rest (off + (ce - s)) ce e
  end.

(* top level: `tensor_shard` must be 1-D (checked by the caller through `flat`), range [s,e) *)
Inductive outcome := Pieces (l : list piece) | RaiseValueError.

Definition split_tensor_block_recovery (shard_order : Z) (shape : list Z) (s e : Z) : outcome :=
  if shard_order =? 1 then Pieces (rec shape 0 s e) else RaiseValueError.

(* ---- comparison with the implementation's observed output (used by generated case files) ---- *)
Definition piece_eqb (p q : piece) : bool :=
  (poff p =? poff q) && (plen p =? plen q) &&
  ((fix eqb (a b : list Z) := match a, b with
                              | [], [] => true
                              | x :: a', y :: b' => (x =? y) && eqb a' b'
                              | _, _ => false end) (pshape p) (pshape q)).

Fixpoint pieces_eqb (l1 l2 : list piece) : bool :=
  match l1, l2 with
  | [], [] => true
  | p :: r1, q :: r2 => piece_eqb p q && pieces_eqb r1 r2
  | _, _ => false
  end.

Definition mk (o l : Z) (sh : list Z) : piece := {| poff := o; plen := l; pshape := sh |}.

Definition agree (shape : list Z) (s e : Z) (impl : list piece) : bool :=
  pieces_eqb (rec shape 0 s e) impl.
