(* C06 - certified boolean checker on what was OBSERVED on a (simulated or real) cluster: decides whether the
   property fails on that run.  Observations: for every rank the block values after each of its optimizer steps
   (float32 bit patterns as integers - compared exactly), its log of group creations / collectives, and whether it
   was left waiting in a collective.  `ref` is the single-process run (for reduced-precision communication: the
   single-process run whose communicated quantity is rounded), given in the same form. *)
From Coq Require Import List ZArith Bool Arith Lia.
From Shampoo Require Import Show Dist.
Import ListNotations.

Definition snapshot := list (list Z).          (* block -> bit patterns of its elements *)

Record observed := mkObs {
  o_snaps : list (list snapshot);              (* rank -> step -> snapshot *)
  o_logs : list (list event);                  (* rank -> log *)
  o_hung : list bool }.                        (* rank -> left waiting in a collective *)

Definition nats_eqb : list nat -> list nat -> bool := list_eqb Nat.eqb.

Definition event_eqb (a b : event) : bool :=
  match a, b with
  | EvNewSubgroups n, EvNewSubgroups m => n =? m
  | EvMesh l, EvMesh l' => nats_eqb l l'
  | EvNewGroup l, EvNewGroup l' => nats_eqb l l'
  | EvAllGather l n, EvAllGather l' m => nats_eqb l l' && (n =? m)
  | _, _ => false
  end.

Definition log_eqb : list event -> list event -> bool := list_eqb event_eqb.
Definition snapshot_eqb : snapshot -> snapshot -> bool := list_eqb (list_eqb Z.eqb).
Definition snaps_eqb : list snapshot -> list snapshot -> bool := list_eqb snapshot_eqb.

(* every rank holds, after every step, exactly the reference values (hence all ranks agree) *)
Definition C06_values_ok (ref : list snapshot) (o : observed) : bool := forallb (fun s => snaps_eqb s ref) (o_snaps o).
(* every rank issued the same sequence of collectives as the first rank of its group *)
Definition C06_gathers_ok (gs : nat) (o : observed) : bool :=
  forallb (fun r => log_eqb (gathers (nth r (o_logs o) [])) (gathers (nth (r / gs * gs) (o_logs o) [])))
          (seq 0 (length (o_logs o))).
(* every rank issued the same sequence of process-group creations as rank 0 *)
Definition C06_creations_ok (o : observed) : bool :=
  forallb (fun l => log_eqb (creations l) (creations (nth 0 (o_logs o) []))) (o_logs o).
Definition C06_nohang (o : observed) : bool := forallb negb (o_hung o).

Definition C06_checkb (gs : nat) (ref : list snapshot) (o : observed) : bool :=
  C06_values_ok ref o && C06_gathers_ok gs o && C06_creations_ok o && C06_nohang o.

(* ---- soundness --------------------------------------------------------------------------------------------- *)
Lemma list_eqb_eq {A} (eqb : A -> A -> bool) :
  (forall x y, eqb x y = true -> x = y) -> forall l l', list_eqb eqb l l' = true -> l = l'.
Proof.
  intros H. induction l as [|x l IH]; destruct l' as [|y l']; cbn [list_eqb]; intros E; try discriminate; [reflexivity|].
  apply andb_true_iff in E as [E1 E2]. f_equal; [apply H; exact E1 | apply IH; exact E2].
Qed.

Lemma nats_eqb_eq l l' : nats_eqb l l' = true -> l = l'.
Proof. apply list_eqb_eq. intros x y. apply Nat.eqb_eq. Qed.

Lemma event_eqb_eq a b : event_eqb a b = true -> a = b.
Proof.
  destruct a, b; cbn [event_eqb]; intros H; try discriminate.
  - apply Nat.eqb_eq in H. congruence.
  - apply nats_eqb_eq in H. congruence.
  - apply nats_eqb_eq in H. congruence.
  - apply andb_true_iff in H as [H1 H2]. apply nats_eqb_eq in H1. apply Nat.eqb_eq in H2. congruence.
Qed.

Lemma log_eqb_eq l l' : log_eqb l l' = true -> l = l'.
Proof. apply list_eqb_eq. exact event_eqb_eq. Qed.

Lemma snaps_eqb_eq s s' : snaps_eqb s s' = true -> s = s'.
Proof. apply list_eqb_eq. apply list_eqb_eq. apply list_eqb_eq. intros x y. apply Z.eqb_eq. Qed.

Definition C06_spec (gs : nat) (ref : list snapshot) (o : observed) : Prop :=
  (forall r, r < length (o_snaps o) -> nth r (o_snaps o) [] = ref) /\
  (forall r r', r < length (o_logs o) -> r' < length (o_logs o) -> r / gs = r' / gs ->
     gathers (nth r (o_logs o) []) = gathers (nth r' (o_logs o) [])) /\
  (forall r r', r < length (o_logs o) -> r' < length (o_logs o) ->
     creations (nth r (o_logs o) []) = creations (nth r' (o_logs o) [])) /\
  (forall r, r < length (o_hung o) -> nth r (o_hung o) false = false).

Theorem C06_checkb_sound gs ref o : C06_checkb gs ref o = true -> C06_spec gs ref o.
Proof.
  unfold C06_checkb. intros H.
  apply andb_true_iff in H as [H H4]. apply andb_true_iff in H as [H H3]. apply andb_true_iff in H as [H1 H2].
  split; [|split; [|split]].
  - intros r Hr. unfold C06_values_ok in H1. rewrite forallb_forall in H1.
    apply snaps_eqb_eq. apply H1. apply nth_In. exact Hr.
  - intros r r' Hr Hr' Hg. unfold C06_gathers_ok in H2. rewrite forallb_forall in H2.
    assert (E : forall x, x < length (o_logs o) ->
                 gathers (nth x (o_logs o) []) = gathers (nth (x / gs * gs) (o_logs o) [])).
    { intros x Hx. apply log_eqb_eq. apply H2. apply in_seq. lia. }
    rewrite (E r Hr), (E r' Hr'), Hg. reflexivity.
  - intros r r' Hr Hr'. unfold C06_creations_ok in H3. rewrite forallb_forall in H3.
    assert (E : forall x, x < length (o_logs o) -> creations (nth x (o_logs o) []) = creations (nth 0 (o_logs o) [])).
    { intros x Hx. apply log_eqb_eq. apply H3. apply nth_In. exact Hx. }
    rewrite (E r Hr), (E r' Hr'). reflexivity.
  - intros r Hr. unfold C06_nohang in H4. rewrite forallb_forall in H4.
    specialize (H4 (nth r (o_hung o) false) (nth_In _ _ Hr)). destruct (nth r (o_hung o) false); [discriminate | reflexivity].
Qed.

(* the checker is not vacuous: it accepts an agreeing observation and rejects each kind of failure *)
Example C06_checkb_accepts :
  C06_checkb 2 [[[1; 2]; [3]]]%Z
    (mkObs [[[[1; 2]; [3]]]; [[[1; 2]; [3]]]]%Z
           [[EvMesh [0; 1]; EvAllGather [0; 1] 64]; [EvMesh [0; 1]; EvAllGather [0; 1] 64]] [false; false]) = true.
Proof. reflexivity. Qed.
Example C06_checkb_rejects_value :
  C06_checkb 2 [[[1; 2]; [3]]]%Z
    (mkObs [[[[1; 2]; [3]]]; [[[1; 2]; [4]]]]%Z
           [[EvAllGather [0; 1] 64]; [EvAllGather [0; 1] 64]] [false; false]) = false.
Proof. reflexivity. Qed.
Example C06_checkb_rejects_missing_gather :
  C06_checkb 2 [[[1; 2]; [3]]]%Z
    (mkObs [[[[1; 2]; [3]]]; [[[1; 2]; [3]]]]%Z [[EvAllGather [0; 1] 64]; []] [false; false]) = false.
Proof. reflexivity. Qed.
Example C06_checkb_rejects_creation :
  C06_checkb 2 [[[1; 2]; [3]]]%Z
    (mkObs [[[[1; 2]; [3]]]; [[[1; 2]; [3]]]]%Z [[EvNewGroup [0]]; [EvNewGroup [1]]] [false; false]) = false.
Proof. reflexivity. Qed.
