(* MatrixFunctionsProofs.v - theorems about the model MatrixFunctions.v (properties C10, C11).

   Part 1: control flow, for EVERY scalar instance (so also for the executed binary64 one):
           shape guard, root validation, Newton rejects fractional roots, unknown configuration,
           CONVERGED => the error the solver looked at is within tolerance, the higher-order guard.
   Part 2: the real-number instance, with the contract of the eigh oracle as hypotheses:
           the eigen path returns a symmetric positive definite matrix with eigenvalues <= eps^e, commuting
           with the input, independent of which valid decomposition the oracle returns, orthogonally
           equivariant; for PSD input and an exactly carried exponent it IS the inverse p/q-th root of
           A + eps I; the enhance_stability path, the diagonal and 1x1 fast paths return the same matrix;
           the coupled Newton iterates commute and satisfy X_k^p A_ridge = M_k. *)
From Coq Require Import List Arith Bool ZArith Reals Lra Lia Setoid Morphisms.
From Shampoo Require Import Scalar Matrix MatrixProofs MatrixFunctions.
Import ListNotations.

(* ============================================================================ Part 1: any scalars *)
Section ControlFlow.
  Context {F : Type} (Op : ops F).

  (* "Inputs with more than one element that are not square 2-D matrices are rejected with an error." *)
  Theorem shape_guard shape A p q cfg eps isd L Q :
    1 < numel shape ->
    (length shape <> 2 \/ exists r c, shape = [r; c] /\ r <> c) ->
    matrix_inverse_root Op shape A p q cfg eps isd L Q = Raise ValueError.
  Proof.
    intros Hn Hs. unfold matrix_inverse_root.
    destruct (numel shape) as [|[|m]] eqn:E; [lia|lia|].
    destruct shape as [|r [|c [|d rest]]]; try reflexivity.
    destruct Hs as [Hs|(r' & c' & Heq & Hne)]; [cbn in Hs; lia|].
    injection Heq as -> ->. apply Nat.eqb_neq in Hne. rewrite Hne. reflexivity.
  Qed.

  (* a square 2-D input with more than one element reaches the dispatch *)
  Lemma square_dispatch n A p q cfg eps isd L Q :
    1 < n -> matrix_inverse_root Op [n; n] A p q cfg eps isd L Q = dispatch Op n A p q cfg eps isd L Q.
  Proof.
    intros Hn. unfold matrix_inverse_root.
    assert (E : numel [n; n] = n * n) by (cbn; lia). rewrite E.
    destruct (n * n) as [|[|m]] eqn:E2; [nia|nia|]. rewrite Nat.eqb_refl. reflexivity.
  Qed.

  (* root <= 0 is rejected on the diagonal path and on the eigendecomposition path *)
  Theorem nonpositive_root_rejected n A p q cfg eps isd L Q :
    1 < n -> (p <= 0)%Z -> (isd = true \/ exists enh, cfg = EigenCfg enh) ->
    matrix_inverse_root Op [n; n] A p q cfg eps isd L Q = Raise ValueError.
  Proof.
    intros Hn Hp Hc. rewrite square_dispatch by exact Hn. unfold dispatch.
    apply Z.leb_le in Hp.
    destruct isd; [unfold diagonal_root; rewrite Hp; reflexivity|].
    destruct Hc as [Hc|(enh & ->)]; [discriminate|]. unfold eigen_root. rewrite Hp. reflexivity.
  Qed.

  Theorem newton_rejects_fractional_root n A p q mi tol eps L Q :
    1 < n -> q <> 1%positive ->
    matrix_inverse_root Op [n; n] A p q (NewtonCfg mi tol) eps false L Q = Raise ValueError.
  Proof.
    intros Hn Hq. rewrite square_dispatch by exact Hn. unfold dispatch.
    apply Pos.eqb_neq in Hq. rewrite Hq. reflexivity.
  Qed.

  Theorem unknown_config_not_implemented n A p q eps L Q :
    1 < n -> matrix_inverse_root Op [n; n] A p q UnknownCfg eps false L Q = Raise NotImplementedError.
  Proof. intros Hn. rewrite square_dispatch by exact Hn. reflexivity. Qed.

  (* ---- Newton: the error field is always |M - I|max of the coupled matrix ------------------ *)
  Definition err_ok (n : nat) (s : istate) : Prop := serr s = err_to_id Op n (sM s).

  Lemma newton_loop_err_ok fuel n p alpha tol s : err_ok n s -> err_ok n (newton_loop Op fuel n p alpha tol s).
  Proof.
    revert s; induction fuel as [|fuel IH]; intros s Hs; cbn [newton_loop].
    - destruct (fltb Op tol (serr s)); exact Hs.
    - destruct (fltb Op tol (serr s)); [|exact Hs].
      destruct (coupled_step Op n p (newton_Mp Op alpha (sM s)) (sX s) (sM s)) as [X' M'] eqn:E.
      apply IH. unfold err_ok. reflexivity.
  Qed.

  Lemma newton_init_err_ok n p A eps : err_ok n (newton_init Op n p A eps).
  Proof. unfold err_ok, newton_init. reflexivity. Qed.

  (* "An iterative solver that reports convergence has met its tolerance" (Newton), as control flow:
     the flag is CONVERGED exactly when the test [error <= tolerance] succeeded on the error of the
     returned coupled matrix. *)
  Theorem converged_flag_sound_newton n p A eps mi tol :
    let s := newton_final Op n p A eps mi tol in
    newton_flag Op tol s = CONVERGED ->
    fleb Op (err_to_id Op n (sM s)) tol = true.
  Proof.
    intros s Hf. unfold newton_flag in Hf.
    assert (Hs : err_ok n s) by (apply newton_loop_err_ok, newton_init_err_ok).
    unfold err_ok in Hs. rewrite <- Hs. destruct (fleb Op (serr s) tol); [reflexivity|discriminate].
  Qed.

  Lemma newton_root_out n p A eps mi tol out :
    newton_root Op n p A eps mi tol = Ok out ->
    let s := newton_final Op n p A eps mi tol in
    oX out = sX s /\ oflag out = newton_flag Op tol s /\ oiters out = siter s /\ oerr out = serr s.
  Proof. unfold newton_root. intros H; injection H as <-. cbn. repeat split. Qed.

  (* iteration count never exceeds max_iterations *)
  Lemma newton_loop_iters fuel n p alpha tol s : siter (newton_loop Op fuel n p alpha tol s) <= siter s + fuel.
  Proof.
    revert s; induction fuel as [|fuel IH]; intros s; cbn [newton_loop].
    - destruct (fltb Op tol (serr s)); lia.
    - destruct (fltb Op tol (serr s)); [|lia].
      destruct (coupled_step Op n p (newton_Mp Op alpha (sM s)) (sX s) (sM s)) as [X' M'].
      eapply Nat.le_trans; [apply IH|]. cbn [siter]. lia.
  Qed.
  Theorem newton_iterations_bounded n p A eps mi tol : siter (newton_final Op n p A eps mi tol) <= mi.
  Proof. unfold newton_final. eapply Nat.le_trans; [apply newton_loop_iters|]. cbn. lia. Qed.

  (* ---- higher order ---------------------------------------------------------------------- *)
  Lemma ho_loop_converged fuel n p order b tol s s' :
    ho_loop Op fuel n p order b tol s = (s', CONVERGED) ->
    err_ok n s -> fltb Op tol (serr s') = false /\ err_ok n s'.
  Proof.
    revert s; induction fuel as [|fuel IH]; intros s H Hs; cbn [ho_loop] in H.
    - destruct (fltb Op tol (serr s)) eqn:E; [discriminate|]. injection H as <-. split; assumption.
    - destruct (fltb Op tol (serr s)) eqn:E; [|injection H as <-; split; assumption].
      destruct (coupled_step Op n p (ho_Mp Op n order b (sM s)) (sX s) (sM s)) as [X' M'] eqn:E2.
      destruct (fltb Op (fmul Op (serr s) (c12 Op)) (err_to_id Op n M')
                || feqb Op (err_to_id Op n M') (serr s) && fltb Op (serr s) (c1em3 Op)); [discriminate|].
      apply IH in H; [exact H|]. unfold err_ok. reflexivity.
  Qed.

  Lemma ho_init_err_ok n p Ar : err_ok n (ho_init Op n p Ar).
  Proof.
    unfold err_ok, ho_init.
    destruct (coupled_step Op n p _ _ _) as [X1 M1]. reflexivity.
  Qed.

  (* "the higher-order solver raises rather than return a result whose residual exceeds its guard":
     whenever it returns, the returned error is the residual |A_ridge X0^p - I|max of the matrix X0 it
     held before the q-th power, the test [error > 0.1] failed on it, and every entry of the result is finite *)
  Theorem higher_order_guard n p q A rel_eps abs_eps mi tol order out :
    higher_order_root Op n p q A rel_eps abs_eps mi tol order = Ok out ->
    exists X0,
      oerr out = ho_true_error Op n p (ridge Op n A (ho_epsilon Op n A rel_eps abs_eps)) X0
      /\ fltb Op (c01 Op) (oerr out) = false
      /\ oX out = (if 1 <? q then mpow Op n X0 q else X0)
      /\ mall_finite Op n (oX out) = true.
  Proof.
    unfold higher_order_root. intros H.
    destruct (order <? 2); [discriminate|].
    destruct (negb (ffinite Op (norm_inf Op n A))); [discriminate|].
    set (Ar := ridge Op n A (ho_epsilon Op n A rel_eps abs_eps)) in *.
    destruct (feqb Op (trace Op n Ar) (f0 Op)); [discriminate|].
    destruct (fltb Op (trace Op n Ar) (f0 Op)); [discriminate|].
    destruct (ho_loop Op (mi - 1) n p order (ho_b Op order (Z.of_nat p)) tol (ho_init Op n p Ar)) as [s fl].
    destruct (fltb Op (c01 Op) (ho_true_error Op n p Ar (sX s))) eqn:E1; [discriminate|].
    destruct (negb (mall_finite Op n (if 1 <? q then mpow Op n (sX s) q else sX s))) eqn:E2; [discriminate|].
    injection H as <-. exists (sX s). cbn [oerr oX]. repeat split; try assumption.
    apply negb_false_iff in E2. exact E2.
  Qed.

  (* CONVERGED from the higher-order loop: the test [error > tolerance] failed on |M - I|max *)
  Theorem converged_flag_sound_higher_order fuel n p order b tol Ar s' :
    ho_loop Op fuel n p order b tol (ho_init Op n p Ar) = (s', CONVERGED) ->
    fltb Op tol (err_to_id Op n (sM s')) = false.
  Proof.
    intros H. apply ho_loop_converged in H; [|apply ho_init_err_ok].
    destruct H as [H1 H2]. unfold err_ok in H2. rewrite <- H2. exact H1.
  Qed.
End ControlFlow.

(* ============================================================================ Part 2: real numbers *)
Local Open Scope R_scope.

Section Reals.
  Variable rnd : R -> R.
  Notation Op := (R_ops rnd).
  Notation spec := (spec rnd).

  (* the contract of torch.linalg.eigh for the matrix M it is called on: M = Q diag(L) Q^T and Q^T Q = I.
     (Q Q^T = I follows for square Q: MatrixProofs.left_inv_right_inv.) *)
  Definition eigh_contract (n : nat) (M : mat R) (L : vec R) (Q : mat R) : Prop :=
    meq n M (spec n Q L) /\ morth_cols Op n Q.

  Lemma contract_orth n M L Q : eigh_contract n M L Q -> morth Op n Q.
  Proof. intros [_ H]. apply (morth_of_cols rnd); exact H. Qed.

  Definition nonzero (n : nat) (x : vec R) : Prop := exists i, (i < n)%nat /\ x i <> 0.
  Definition psd (n : nat) (A : mat R) : Prop := forall x, 0 <= qform Op n A x.

  Lemma ridge_eq n A eps : meq n (ridge Op n A eps) (madd Op A (mscale Op eps (mid Op))).
  Proof. unfold ridge. apply memo_eq. Qed.

  (* what is raised to the power, as a function of one eigenvalue and lambda_min *)
  Definition shiftf (lmin eps : R) (enh : bool) (t : R) : R :=
    if enh then t + - Rmin (lmin - eps) 0 else t + - Rmin lmin 0 + eps.

  Lemma eigen_shifted_eq n L eps enh i : eigen_shifted Op n L eps enh i = shiftf (vmin Op n L) eps enh (L i).
  Proof. unfold eigen_shifted, shiftf. destruct enh; rewrite (fmin_R rnd); reflexivity. Qed.

  Lemma shiftf_ge_eps lmin eps enh t : lmin <= t -> eps <= shiftf lmin eps enh t.
  Proof.
    intros H. unfold shiftf, Rmin. destruct enh.
    - destruct (Rle_dec (lmin - eps) 0); lra.
    - destruct (Rle_dec lmin 0); lra.
  Qed.

  Lemma shifted_ge_eps n L eps enh i : (i < n)%nat -> eps <= eigen_shifted Op n L eps enh i.
  Proof. intros Hi. rewrite eigen_shifted_eq. apply shiftf_ge_eps. apply vmin_le. exact Hi. Qed.

  (* the eigen path returns Q diag(shifted^e) Q^T *)
  Definition eigen_d (n : nat) (p : Z) (q : positive) (eps : R) (enh : bool) (L : vec R) : vec R :=
    fun i => Rpower (eigen_shifted Op n L eps enh i) (expo Op p q).

  Lemma eigen_X_spec n p q eps enh L Q :
    meq n (eigen_X Op n p q eps enh L Q) (spec n Q (eigen_d n p q eps enh L)).
  Proof.
    unfold eigen_X. rewrite vmemo_eq, (scale_cols_diag rnd). reflexivity.
  Qed.

  Lemma eigen_d_pos n p q eps enh L i : 0 < eigen_d n p q eps enh L i.
  Proof. unfold eigen_d, Rpower. apply exp_pos. Qed.

  Lemma Rpower_le_neg x y e : 0 < x -> x <= y -> e < 0 -> Rpower y e <= Rpower x e.
  Proof.
    intros Hx Hxy He. unfold Rpower.
    destruct (Rle_lt_or_eq_dec x y Hxy) as [Hlt| ->]; [|lra].
    left. apply exp_increasing. assert (ln x < ln y) by (apply ln_increasing; assumption). nra.
  Qed.

  Lemma eigen_d_le n p q eps enh L i : (i < n)%nat -> 0 < eps -> expo Op p q < 0 ->
    eigen_d n p q eps enh L i <= Rpower eps (expo Op p q).
  Proof. intros Hi He Hx. unfold eigen_d. apply Rpower_le_neg; [exact He|apply shifted_ge_eps; exact Hi|exact Hx]. Qed.

  (* ---------------------------------------------------------------- C11: symmetric *)
  Theorem eigen_root_sym n p q eps enh L Q : msym n (eigen_X Op n p q eps enh L Q).
  Proof. unfold msym. rewrite eigen_X_spec. apply spec_sym. Qed.

  (* ---------------------------------------------------------------- C11: positive definite *)
  Lemma orth_image_nonzero n Q x : morth_rows Op n Q -> nonzero n x -> nonzero n (mvec Op n (mtrans Q) x).
  Proof.
    intros Hr Hx. pose proof (dot_orth rnd n Q x Hr) as E.
    pose proof (dot_self_pos rnd n x Hx) as Hp. rewrite <- E in Hp.
    unfold dot in Hp. destruct (rsum_nonzero_exists rnd n _ (Rgt_not_eq _ _ Hp)) as (k & Hk & Hy).
    exists k; split; [exact Hk|]. cbn [fmul R_ops] in Hy. intros E0. rewrite E0 in Hy. lra.
  Qed.

  Lemma qform_spec_pos n Q d x : morth_rows Op n Q -> (forall i, (i < n)%nat -> 0 < d i) -> nonzero n x ->
    0 < qform Op n (spec n Q d) x.
  Proof.
    intros Hr Hd Hx. rewrite (qform_spec rnd). destruct (orth_image_nonzero n Q x Hr Hx) as (k & Hk & Hy).
    apply rsum_pos.
    - intros i Hi. specialize (Hd i Hi). apply Rmult_le_pos; [lra|apply pow2_ge_0].
    - exists k; split; [exact Hk|]. apply Rmult_lt_0_compat; [apply Hd; exact Hk|].
      assert (0 <= mvec Op n (mtrans Q) x k ^ 2) by apply pow2_ge_0.
      destruct (Req_dec (mvec Op n (mtrans Q) x k ^ 2) 0) as [E|E]; [|lra].
      exfalso. apply Hy. nra.
  Qed.

  Theorem eigen_root_pd n p q eps enh L Q x :
    morth_cols Op n Q -> nonzero n x -> 0 < qform Op n (eigen_X Op n p q eps enh L Q) x.
  Proof.
    intros Hc Hx. pose proof (morth_cols_rows rnd n Q Hc) as Hr. rewrite eigen_X_spec. apply qform_spec_pos; [exact Hr| |exact Hx].
    intros i _. apply eigen_d_pos.
  Qed.

  (* ---------------------------------------------------------------- C11: eigenvalues <= eps^(-1/r) *)
  Lemma qform_spec_le n Q d c x : morth_rows Op n Q -> (forall i, (i < n)%nat -> d i <= c) ->
    qform Op n (spec n Q d) x <= c * dot Op n x x.
  Proof.
    intros Hr Hd. rewrite (qform_spec rnd), <- (dot_orth rnd n Q x Hr). unfold dot.
    rewrite <- (rsum_mult_l rnd). apply rsum_le. intros k Hk. cbn [fmul R_ops].
    specialize (Hd k Hk). assert (0 <= mvec Op n (mtrans Q) x k ^ 2) by apply pow2_ge_0. nra.
  Qed.

  Theorem eigen_root_eig_le n p q eps enh L Q :
    0 < eps -> expo Op p q < 0 -> morth_cols Op n Q ->
    (forall i, (i < n)%nat -> eigen_d n p q eps enh L i <= Rpower eps (expo Op p q))
    /\ forall x, qform Op n (eigen_X Op n p q eps enh L Q) x <= Rpower eps (expo Op p q) * dot Op n x x.
  Proof.
    intros He Hx Hc. pose proof (morth_cols_rows rnd n Q Hc) as Hr. split; [intros; apply eigen_d_le; assumption|].
    intros x. rewrite eigen_X_spec. apply qform_spec_le; [exact Hr|]. intros; apply eigen_d_le; assumption.
  Qed.

  (* ---------------------------------------------------------------- C11: commutes with the input *)
  Lemma commute_ridge n X A eps : mcommute Op n X (madd Op A (mscale Op eps (mid Op))) -> mcommute Op n X A.
  Proof.
    unfold mcommute. intros H i j Hi Hj. specialize (H i j Hi Hj).
    rewrite (mmul_madd_r rnd n X _ _ i j Hi Hj), (mmul_madd_l rnd n _ _ X i j Hi Hj) in H.
    unfold madd in H. rewrite (mmul_mscale_r rnd n eps X _ i j Hi Hj), (mmul_mscale_l rnd n eps _ X i j Hi Hj) in H.
    unfold mscale in H. rewrite (mmul_id_r rnd n X i j Hi Hj), (mmul_id_l rnd n X i j Hi Hj) in H.
    cbn [fadd fmul R_ops] in H. lra.
  Qed.

  Theorem eigen_root_commutes_query n p q eps enh L Q M :
    eigh_contract n M L Q -> mcommute Op n (eigen_X Op n p q eps enh L Q) M.
  Proof.
    intros [HM Hc]. rewrite eigen_X_spec, HM. apply spec_commute. exact Hc.
  Qed.

  Theorem eigen_root_commutes n p q eps enh L Q A :
    eigh_contract n (eigen_query Op n A eps enh) L Q -> mcommute Op n (eigen_X Op n p q eps enh L Q) A.
  Proof.
    intros H. pose proof (eigen_root_commutes_query n p q eps enh L Q _ H) as HC.
    destruct enh; cbn [eigen_query] in HC; [|exact HC].
    rewrite ridge_eq in HC. apply commute_ridge in HC. exact HC.
  Qed.

  (* ---------------------------------------------------------------- spectral functions are well defined *)
  Lemma decomp_intertwine n Q L Q' L' :
    morth_cols Op n Q -> morth_cols Op n Q' -> meq n (spec n Q L) (spec n Q' L') ->
    meq n (mmul Op n (mdiag Op L) (mmul Op n (mtrans Q) Q')) (mmul Op n (mmul Op n (mtrans Q) Q') (mdiag Op L')).
  Proof.
    intros Hc Hc' HS. unfold morth_cols in Hc, Hc'.
    assert (E1 : meq n (mmul Op n (mtrans Q) (mmul Op n (spec n Q L) Q')) (mmul Op n (mdiag Op L) (mmul Op n (mtrans Q) Q'))).
    { unfold MatrixProofs.spec. rewrite !(mmul_assoc rnd). rewrite <- (mmul_assoc rnd n (mtrans Q) Q), Hc, (mmul_id_l rnd). reflexivity. }
    assert (E2 : meq n (mmul Op n (mtrans Q) (mmul Op n (spec n Q' L') Q')) (mmul Op n (mmul Op n (mtrans Q) Q') (mdiag Op L'))).
    { unfold MatrixProofs.spec. rewrite !(mmul_assoc rnd). rewrite Hc', (mmul_id_r rnd). reflexivity. }
    rewrite <- E1, HS, E2. reflexivity.
  Qed.

  Lemma intertwine_entries n Q L Q' L' :
    morth_cols Op n Q -> morth_cols Op n Q' -> meq n (spec n Q L) (spec n Q' L') ->
    forall i j, (i < n)%nat -> (j < n)%nat ->
      L i * mmul Op n (mtrans Q) Q' i j = mmul Op n (mtrans Q) Q' i j * L' j.
  Proof.
    intros Hc Hc' HS i j Hi Hj. pose proof (decomp_intertwine n Q L Q' L' Hc Hc' HS i j Hi Hj) as H.
    rewrite (mmul_diag_l rnd), (mmul_diag_r rnd) in H by assumption. exact H.
  Qed.

  (* two valid decompositions of the same matrix give the same Q f(L) Q^T, for every f *)
  Theorem spectral_fun_unique n Q L Q' L' (f : R -> R) :
    morth_cols Op n Q -> morth_cols Op n Q' -> meq n (spec n Q L) (spec n Q' L') ->
    meq n (spec n Q (fun i => f (L i))) (spec n Q' (fun i => f (L' i))).
  Proof.
    intros Hc Hc' HS. pose proof (morth_cols_rows rnd n Q Hc) as Hr. pose proof (morth_cols_rows rnd n Q' Hc') as Hr'.
    pose proof (intertwine_entries n Q L Q' L' Hc Hc' HS) as HW.
    set (W := mmul Op n (mtrans Q) Q') in *.
    assert (H2 : meq n (mmul Op n (mdiag Op (fun i => f (L i))) W) (mmul Op n W (mdiag Op (fun i => f (L' i))))).
    { intros i j Hi Hj. rewrite (mmul_diag_l rnd), (mmul_diag_r rnd) by assumption.
      specialize (HW i j Hi Hj). destruct (Req_dec (W i j) 0) as [E|E]; [rewrite E; lra|].
      assert (L i = L' j) as -> by (apply Rmult_eq_reg_r with (W i j); [lra|exact E]). lra. }
    unfold morth_rows in Hr, Hr'.
    assert (A1 : meq n (mmul Op n (spec n Q (fun i => f (L i))) Q') (mmul Op n Q' (mdiag Op (fun i => f (L' i))))).
    { unfold MatrixProofs.spec. rewrite !(mmul_assoc rnd). fold W. rewrite H2. unfold W.
      rewrite (mmul_assoc rnd), <- (mmul_assoc rnd n Q (mtrans Q)), Hr, (mmul_id_l rnd). reflexivity. }
    rewrite <- (mmul_id_r rnd n (spec n Q (fun i => f (L i)))), <- Hr', <- (mmul_assoc rnd), A1.
    reflexivity.
  Qed.

  (* ... and they have the same set of eigenvalues, hence the same lambda_min *)
  Lemma decomp_eig_in n Q L Q' L' :
    morth Op n Q -> morth Op n Q' -> meq n (spec n Q L) (spec n Q' L') ->
    forall i, (i < n)%nat -> exists j, (j < n)%nat /\ L i = L' j.
  Proof.
    intros [Hc Hr] [Hc' Hr'] HS i Hi.
    pose proof (intertwine_entries n Q L Q' L' Hc Hc' HS) as HW.
    set (W := mmul Op n (mtrans Q) Q') in *.
    assert (HWW : meq n (mmul Op n W (mtrans W)) (mid Op)).
    { unfold W. rewrite (mtrans_mmul rnd), mtrans_invol. unfold morth_rows in Hr'. unfold morth_cols in Hc.
      rewrite (mmul_assoc rnd), <- (mmul_assoc rnd n Q'), Hr', (mmul_id_l rnd). exact Hc. }
    specialize (HWW i i Hi Hi). rewrite (rmmul_get rnd) in HWW by assumption.
    unfold mid in HWW. rewrite Nat.eqb_refl in HWW. cbn [f1 R_ops] in HWW.
    assert (Hne : sumn Op n (fun k => W i k * mtrans W k i) <> 0) by (rewrite HWW; lra).
    destruct (rsum_nonzero_exists rnd n _ Hne) as (j & Hj & Hw). unfold mtrans in Hw.
    exists j; split; [exact Hj|]. specialize (HW i j Hi Hj).
    assert (W i j <> 0) by (intros E; rewrite E in Hw; lra).
    apply Rmult_eq_reg_r with (W i j); [lra|assumption].
  Qed.

  Lemma vmin_same_set n (L L' : vec R) : (0 < n)%nat ->
    (forall i, (i < n)%nat -> exists j, (j < n)%nat /\ L i = L' j) ->
    (forall j, (j < n)%nat -> exists i, (i < n)%nat /\ L' j = L i) ->
    vmin Op n L = vmin Op n L'.
  Proof.
    intros Hn H1 H2.
    destruct (vmin_attained rnd n L Hn) as (i0 & Hi0 & E0).
    destruct (vmin_attained rnd n L' Hn) as (j0 & Hj0 & E0').
    destruct (H1 i0 Hi0) as (j & Hj & E1). destruct (H2 j0 Hj0) as (i & Hi & E2).
    pose proof (vmin_le rnd n L i Hi). pose proof (vmin_le rnd n L' j Hj). lra.
  Qed.

  Lemma decomp_vmin n Q L Q' L' : (0 < n)%nat ->
    morth Op n Q -> morth Op n Q' -> meq n (spec n Q L) (spec n Q' L') -> vmin Op n L = vmin Op n L'.
  Proof.
    intros Hn HQ HQ' HS. apply vmin_same_set; [exact Hn| |].
    - apply (decomp_eig_in n Q L Q' L'); assumption.
    - apply (decomp_eig_in n Q' L' Q L); [assumption|assumption|symmetry; exact HS].
  Qed.

  (* the matrix returned by the eigen path does not depend on WHICH valid decomposition eigh returns *)
  Theorem eigen_X_unique n p q eps enh M L Q L' Q' : (0 < n)%nat ->
    eigh_contract n M L Q -> eigh_contract n M L' Q' ->
    meq n (eigen_X Op n p q eps enh L Q) (eigen_X Op n p q eps enh L' Q').
  Proof.
    intros Hn [HM HQ] [HM' HQ']. apply (morth_of_cols rnd) in HQ, HQ'.
    assert (HS : meq n (spec n Q L) (spec n Q' L')) by (rewrite <- HM, <- HM'; reflexivity).
    rewrite !eigen_X_spec. unfold eigen_d.
    assert (E : veq n (fun i => Rpower (eigen_shifted Op n L eps enh i) (expo Op p q))
                      (fun i => (fun t => Rpower (shiftf (vmin Op n L) eps enh t) (expo Op p q)) (L i))).
    { intros i _. rewrite eigen_shifted_eq. reflexivity. }
    assert (E' : veq n (fun i => Rpower (eigen_shifted Op n L' eps enh i) (expo Op p q))
                       (fun i => (fun t => Rpower (shiftf (vmin Op n L) eps enh t) (expo Op p q)) (L' i))).
    { intros i _. rewrite eigen_shifted_eq, <- (decomp_vmin n Q L Q' L' Hn HQ HQ' HS). reflexivity. }
    rewrite E, E'.
    exact (spectral_fun_unique n Q L Q' L' (fun t => Rpower (shiftf (vmin Op n L) eps enh t) (expo Op p q)) (proj1 HQ) (proj1 HQ') HS).
  Qed.

  (* ---------------------------------------------------------------- C11: orthogonal equivariance *)
  Lemma contract_conj n P A L Q : morth_cols Op n P -> eigh_contract n A L Q ->
    eigh_contract n (mmul Op n (mmul Op n P A) (mtrans P)) L (mmul Op n P Q).
  Proof.
    intros HP [HA HQ]. apply (morth_of_cols rnd) in HP, HQ. split; [|apply (proj1 (morth_mmul rnd n P Q HP HQ))].
    rewrite HA. apply (spec_conj rnd).
  Qed.

  (* X(P A P^T) = P X(A) P^T: whatever valid decomposition (L', Q') eigh returns for P A P^T *)
  Theorem eigen_root_equivariant n p q eps P A L Q L' Q' : (0 < n)%nat ->
    morth_cols Op n P ->
    eigh_contract n A L Q ->
    eigh_contract n (mmul Op n (mmul Op n P A) (mtrans P)) L' Q' ->
    meq n (eigen_X Op n p q eps false L' Q')
          (mmul Op n (mmul Op n P (eigen_X Op n p q eps false L Q)) (mtrans P)).
  Proof.
    intros Hn HP HA HB.
    rewrite (eigen_X_unique n p q eps false _ L' Q' L (mmul Op n P Q) Hn HB (contract_conj n P A L Q HP HA)).
    rewrite !eigen_X_spec. symmetry. apply (spec_conj rnd).
  Qed.

  (* ================================================================= C10 (A positive semi-definite) *)
  (* eigenvalues of a PSD matrix are non-negative: L i = q_i^T A q_i *)
  Lemma psd_eigs_nonneg n A L Q : psd n A -> eigh_contract n A L Q -> forall i, (i < n)%nat -> 0 <= L i.
  Proof.
    intros HP [HA Hc] i Hi. specialize (HP (mcol Q i)). rewrite HA, (qform_spec rnd) in HP.
    rewrite (sumn_ext Op n _ (fun k => if Nat.eqb k i then L k else 0)) in HP.
    - rewrite (rsum_delta_r rnd n i L Hi) in HP. exact HP.
    - intros k Hk.
      assert (E : mvec Op n (mtrans Q) (mcol Q i) k = mid Op k i).
      { rewrite (rmvec_get rnd) by assumption. rewrite <- (Hc k i Hk Hi), (rmmul_get rnd) by assumption. reflexivity. }
      rewrite E. unfold mid. cbn [f0 f1 R_ops]. destruct (Nat.eqb k i); lra.
  Qed.

  Lemma vmin_nonneg n (L : vec R) : (0 < n)%nat -> (forall i, (i < n)%nat -> 0 <= L i) -> 0 <= vmin Op n L.
  Proof. intros Hn H. destruct (vmin_attained rnd n L Hn) as (k & Hk & ->). apply H; exact Hk. Qed.

  Lemma shiftf_psd lmin eps t : 0 <= lmin -> shiftf lmin eps false t = t + eps.
  Proof. intros H. unfold shiftf, Rmin. destruct (Rle_dec lmin 0); lra. Qed.

  Lemma INR_to_nat p : (0 < p)%Z -> INR (Z.to_nat p) = IZR p.
  Proof. intros H. rewrite INR_IZR_INZ, Z2Nat.id by lia. reflexivity. Qed.
  Lemma INR_pos_to_nat q : INR (Pos.to_nat q) = IZR (Zpos q).
  Proof. rewrite INR_IZR_INZ, positive_nat_Z. reflexivity. Qed.

  (* (x^e)^p * x^q = 1 when e = -q/p *)
  Lemma root_identity x e (P Qn : nat) : 0 < x -> e * INR P + INR Qn = 0 -> Rpower x e ^ P * x ^ Qn = 1.
  Proof.
    intros Hx He.
    rewrite <- (Rpower_pow P (Rpower x e)) by (unfold Rpower; apply exp_pos).
    rewrite Rpower_mult, <- (Rpower_pow Qn x Hx), <- Rpower_plus, He. apply Rpower_O; exact Hx.
  Qed.

  (* With the exponent carried exactly (e = -q/p; true e.g. for roots 1, 2, 4, 8 whose reciprocal is a
     binary32 number) the eigen path returns THE inverse p/q-th root of A + eps I:  X^p (A + eps I)^q = I. *)
  Theorem eigen_root_exact n (p : Z) (q : positive) eps A L Q :
    (0 < n)%nat -> (0 < p)%Z -> 0 < eps -> psd n A -> eigh_contract n A L Q ->
    expo Op p q = - (IZR (Zpos q) / IZR p) ->
    meq n (mmul Op n (mpow Op n (eigen_X Op n p q eps false L Q) (Z.to_nat p)) (mpow Op n (ridge Op n A eps) (Pos.to_nat q)))
          (mid Op).
  Proof.
    intros Hn Hp He HP HC Hx. pose proof (psd_eigs_nonneg n A L Q HP HC) as HL.
    destruct HC as [HA Hc]. pose proof (morth_cols_rows rnd n Q Hc) as Hr.
    rewrite eigen_X_spec, ridge_eq, HA, (spec_add_scalar rnd n Q L eps Hr).
    rewrite !(spec_pow rnd) by (split; assumption). rewrite (spec_mul rnd) by exact Hc.
    rewrite <- (spec_one rnd n Q Hr). apply spec_proper; [reflexivity|].
    intros i Hi. unfold eigen_d. rewrite eigen_shifted_eq, shiftf_psd by (apply vmin_nonneg; assumption).
    apply root_identity; [specialize (HL i Hi); lra|].
    rewrite Hx, INR_to_nat, INR_pos_to_nat by exact Hp.
    assert (IZR p <> 0) by (apply not_0_IZR; lia). field. assumption.
  Qed.

  Lemma expo_exact_if_rnd_exact (p : Z) (q : positive) : (0 < p)%Z ->
    rnd (- (1) / (IZR p / IZR (Zpos q))) = - (1) / (IZR p / IZR (Zpos q)) ->
    expo Op p q = - (IZR (Zpos q) / IZR p).
  Proof.
    intros Hp H. unfold expo. cbn [rnd32 fdiv fneg f1 of_Z R_ops]. rewrite H.
    assert (IZR p <> 0) by (apply not_0_IZR; lia). assert (IZR (Zpos q) <> 0) by (apply not_0_IZR; lia).
    field. split; assumption.
  Qed.

  (* ---- enhance_stability returns the same matrix ------------------------------------------- *)
  Lemma vmin_add_const n (L : vec R) c : (0 < n)%nat -> vmin Op n (fun i => L i + c) = vmin Op n L + c.
  Proof.
    intros Hn.
    destruct (vmin_attained rnd n L Hn) as (i0 & Hi0 & E0).
    destruct (vmin_attained rnd n (fun i => L i + c) Hn) as (j0 & Hj0 & E1).
    pose proof (vmin_le rnd n L j0 Hj0). pose proof (vmin_le rnd n (fun i => L i + c) i0 Hi0) as H2.
    cbn beta in H2. lra.
  Qed.

  Theorem enhance_stability_same n p q eps A L Q L' Q' : (0 < n)%nat ->
    eigh_contract n A L Q ->                               (* eigh(A), plain path *)
    eigh_contract n (ridge Op n A eps) L' Q' ->            (* eigh(A + eps I), enhance_stability path *)
    meq n (eigen_X Op n p q eps true L' Q') (eigen_X Op n p q eps false L Q).
  Proof.
    intros Hn [HA HQ] HC'.
    assert (HC2 : eigh_contract n (ridge Op n A eps) (fun i => L i + eps) Q).
    { split; [|exact HQ]. rewrite ridge_eq, HA. apply (spec_add_scalar rnd). apply (morth_cols_rows rnd); exact HQ. }
    rewrite (eigen_X_unique n p q eps true _ L' Q' _ Q Hn HC' HC2).
    rewrite !eigen_X_spec. apply spec_proper; [reflexivity|]. intros i Hi. unfold eigen_d.
    rewrite !eigen_shifted_eq, vmin_add_const by exact Hn. f_equal.
    unfold shiftf, Rmin. destruct (Rle_dec (vmin Op n L + eps - eps) 0), (Rle_dec (vmin Op n L) 0); lra.
  Qed.

  (* ---- the diagonal and 1x1 fast paths return what the eigen path returns -------------------- *)
  Lemma diag_contract n A : mis_diag Op n A -> eigh_contract n A (mdiagonal A) (mid Op).
  Proof.
    intros HD. split; [|apply (proj1 (morth_id rnd n))].
    unfold MatrixProofs.spec. rewrite (mmul_id_l rnd), (mtrans_id rnd), (mmul_id_r rnd).
    intros i j Hi Hj. unfold mdiag, mdiagonal. destruct (Nat.eqb_spec i j) as [->|Hne]; [reflexivity|].
    apply HD; assumption.
  Qed.

  Definition diag_X (p : Z) (q : positive) (eps : R) (A : mat R) : mat R :=
    mdiag Op (fun i => Rpower (A i i + eps) (expo Op p q)).

  Lemma diagonal_root_ok A p q eps : (0 < p)%Z -> diagonal_root Op A p q eps = Ok (plain Op (diag_X p q eps A)).
  Proof. intros Hp. unfold diagonal_root. destruct (Z.leb_spec p 0); [lia|reflexivity]. Qed.

  Theorem diagonal_eq_eigen n p q eps A L Q : (0 < n)%nat ->
    mis_diag Op n A -> (forall i, (i < n)%nat -> 0 <= A i i) -> eigh_contract n A L Q ->
    meq n (diag_X p q eps A) (eigen_X Op n p q eps false L Q).
  Proof.
    intros Hn HD Hpos HC.
    rewrite (eigen_X_unique n p q eps false A L Q _ _ Hn HC (diag_contract n A HD)).
    rewrite eigen_X_spec. unfold MatrixProofs.spec. rewrite (mmul_id_l rnd), (mtrans_id rnd), (mmul_id_r rnd).
    unfold diag_X. apply mdiag_proper. intros i Hi. unfold eigen_d.
    rewrite eigen_shifted_eq, shiftf_psd; [reflexivity|]. apply vmin_nonneg; assumption.
  Qed.

  Definition scalar_X (p : Z) (q : positive) (eps : R) (A : mat R) : mat R :=
    fun _ _ => Rpower (A 0%nat 0%nat - Rmin (A 0%nat 0%nat) 0 + eps) (expo Op p q).

  Lemma scalar_root_ok A p q eps : (p <> 0)%Z -> scalar_root Op A p q eps = Ok (plain Op (scalar_X p q eps A)).
  Proof.
    intros Hp. unfold scalar_root. destruct (Z.eqb_spec p 0); [contradiction|].
    rewrite (fmin_R rnd). reflexivity.
  Qed.

  (* the 1x1 path applies the same shift as the eigen path: equal for EVERY real entry, negative included *)
  Theorem scalar_eq_eigen p q eps A L Q :
    eigh_contract 1 A L Q ->
    meq 1 (scalar_X p q eps A) (eigen_X Op 1 p q eps false L Q).
  Proof.
    intros HC.
    assert (HD : mis_diag Op 1 A) by (intros i j Hi Hj Hne; lia).
    rewrite (eigen_X_unique 1 p q eps false A L Q _ _ Nat.lt_0_1 HC (diag_contract 1 A HD)).
    rewrite eigen_X_spec. unfold MatrixProofs.spec. rewrite (mmul_id_l rnd), (mtrans_id rnd), (mmul_id_r rnd).
    intros i j Hi Hj. assert (i = 0%nat) by lia. assert (j = 0%nat) by lia. subst.
    unfold scalar_X, mdiag, eigen_d. cbn [Nat.eqb]. rewrite eigen_shifted_eq. unfold shiftf, mdiagonal.
    f_equal.
  Qed.

  (* packaged: what matrix_inverse_root returns on the fast paths equals what its eigen path returns *)
  Theorem fastpaths_eq_general n p q eps A L Q cfg :
    (0 < p)%Z -> eigh_contract n A L Q ->
    (* is_diagonal = True on a diagonal PSD matrix, any configuration *)
    ((1 < n)%nat -> mis_diag Op n A -> (forall i, (i < n)%nat -> 0 <= A i i) ->
       exists Xd, matrix_inverse_root Op [n; n] A p q cfg eps true L Q = Ok (plain Op Xd)
                  /\ meq n Xd (eigen_X Op n p q eps false L Q))
    /\ (* numel = 1, any configuration *)
    (n = 1%nat ->
       exists Xs, matrix_inverse_root Op [1%nat; 1%nat] A p q cfg eps false L Q = Ok (plain Op Xs)
                  /\ meq 1 Xs (eigen_X Op 1 p q eps false L Q)).
  Proof.
    intros Hp HC. split.
    - intros Hn HD Hpos. exists (diag_X p q eps A). split.
      + rewrite square_dispatch by exact Hn. unfold dispatch. apply diagonal_root_ok; exact Hp.
      + apply diagonal_eq_eigen; try assumption. lia.
    - intros ->. exists (scalar_X p q eps A). split.
      + unfold matrix_inverse_root. cbn [numel fold_right Nat.mul]. apply scalar_root_ok. lia.
      + apply scalar_eq_eigen; assumption.
  Qed.

  (* the eigen configuration on a square input with more than one element returns eigen_X *)
  Theorem eigen_dispatch n A p q eps enh L Q : (1 < n)%nat -> (0 < p)%Z ->
    matrix_inverse_root Op [n; n] A p q (EigenCfg enh) eps false L Q = Ok (plain Op (eigen_X Op n p q eps enh L Q)).
  Proof.
    intros Hn Hp. rewrite square_dispatch by exact Hn. unfold dispatch, eigen_root.
    destruct (Z.leb_spec p 0); [lia|reflexivity].
  Qed.

  (* ---- coupled Newton: X_k^p A_ridge = M_k, all iterates commute ------------------------------ *)
  Definition coupled_inv (n p : nat) (Ar X M : mat R) : Prop :=
    mcommute Op n X M /\ mcommute Op n X Ar /\ mcommute Op n M Ar /\ meq n (mmul Op n (mpow Op n X p) Ar) M.

  Lemma mcommute_mmul_l n (A B C : mat R) : mcommute Op n A C -> mcommute Op n B C -> mcommute Op n (mmul Op n A B) C.
  Proof. intros HA HB. apply (mcommute_sym rnd). apply (mcommute_mmul rnd); apply (mcommute_sym rnd); assumption. Qed.

  Lemma coupled_step_inv n p Ar X M Mp :
    coupled_inv n p Ar X M ->
    mcommute Op n Mp X -> mcommute Op n Mp M -> mcommute Op n Mp Ar ->
    coupled_inv n p Ar (fst (coupled_step Op n p Mp X M)) (snd (coupled_step Op n p Mp X M)).
  Proof.
    intros (HXM & HXA & HMA & HE) HpX HpM HpA. unfold coupled_step. cbn [fst snd]. unfold coupled_inv.
    rewrite !(memo_eq Op n Mp).
    pose proof (mcommute_sym rnd n _ _ HpX) as HXp.
    assert (HppM : mcommute Op n (mpow Op n Mp p) M) by (apply (mcommute_sym rnd), (mcommute_mpow rnd), (mcommute_sym rnd); exact HpM).
    assert (HppA : mcommute Op n (mpow Op n Mp p) Ar) by (apply (mcommute_sym rnd), (mcommute_mpow rnd), (mcommute_sym rnd); exact HpA).
    repeat split.
    - apply mcommute_mmul_l; apply (mcommute_mmul rnd).
      + apply (mcommute_mpow rnd); exact HXp.
      + exact HXM.
      + apply (mcommute_mpow rnd), (mcommute_refl rnd).
      + exact HpM.
    - apply mcommute_mmul_l; assumption.
    - apply mcommute_mmul_l; assumption.
    - rewrite (mpow_mmul_comm rnd n X Mp p HXp). unfold mcommute in HppA, HppM.
      rewrite (mmul_assoc rnd), HppA, <- (mmul_assoc rnd), HE. symmetry. exact HppM.
  Qed.

  Lemma newton_Mp_commute n alpha C M : mcommute Op n C M -> mcommute Op n C (newton_Mp Op alpha M).
  Proof.
    intros H. unfold newton_Mp. apply (mcommute_madd rnd); apply (mcommute_mscale rnd); [exact H|apply (mcommute_id rnd)].
  Qed.

  Definition state_inv (n p : nat) (Ar : mat R) (s : istate) : Prop := coupled_inv n p Ar (sX s) (sM s).

  Lemma newton_loop_inv fuel n p Ar alpha tol s :
    state_inv n p Ar s -> state_inv n p Ar (newton_loop Op fuel n p alpha tol s).
  Proof.
    revert s; induction fuel as [|fuel IH]; intros s Hs; cbn [newton_loop].
    - destruct (fltb Op tol (serr s)); exact Hs.
    - destruct (fltb Op tol (serr s)); [|exact Hs].
      pose proof (coupled_step_inv n p Ar (sX s) (sM s) (newton_Mp Op alpha (sM s)) Hs) as Hstep.
      destruct (coupled_step Op n p (newton_Mp Op alpha (sM s)) (sX s) (sM s)) as [X' M'] eqn:E.
      apply IH. unfold state_inv. cbn [sX sM]. cbn [fst snd] in Hstep.
      destruct Hs as (HXM & HXA & HMA & HE).
      apply Hstep; apply (mcommute_sym rnd), newton_Mp_commute.
      + exact HXM.
      + apply (mcommute_refl rnd).
      + apply (mcommute_sym rnd); exact HMA.
  Qed.

  Lemma mpow_scale_id n c k : meq n (mpow Op n (mscale Op c (mid Op)) k) (mdiag Op (fun _ => c ^ k)).
  Proof. rewrite (mscale_id_is_diag rnd), (mdiag_pow rnd). reflexivity. Qed.

  Lemma mcommute_scale_id n c (A : mat R) : mcommute Op n (mscale Op c (mid Op)) A.
  Proof. apply (mcommute_sym rnd), (mcommute_mscale rnd), (mcommute_id rnd). Qed.

  Lemma newton_init_inv n p A eps : (0 < p)%nat -> 0 < frob Op n (ridge Op n A eps) ->
    state_inv n p (ridge Op n A eps) (newton_init Op n p A eps).
  Proof.
    intros Hp Hf. unfold state_inv, newton_init. cbn [sX sM]. set (Ar := ridge Op n A eps) in *.
    set (z := fdiv Op (of_Z Op (Z.of_nat p + 1)) (fmul Op (of_Z Op 2) (frob Op n Ar))).
    set (c := fpow Op z _).
    assert (Hz : 0 < z).
    { unfold z. cbn [fdiv fmul of_Z R_ops]. apply Rdiv_lt_0_compat; [apply IZR_lt; lia|lra]. }
    assert (Hc : c ^ p = z).
    { unfold c. cbn [fpow fneg fdiv of_Z R_ops].
      rewrite <- Rpower_pow by (unfold Rpower; apply exp_pos). rewrite Rpower_mult.
      replace (- (-1 / IZR (Z.of_nat p)) * INR p) with 1; [apply Rpower_1; exact Hz|].
      rewrite INR_IZR_INZ. assert (IZR (Z.of_nat p) <> 0) by (apply not_0_IZR; lia). field. assumption. }
    unfold coupled_inv. rewrite !memo_eq. repeat split.
    - apply mcommute_scale_id.
    - apply mcommute_scale_id.
    - apply (mcommute_sym rnd), (mcommute_mscale rnd), (mcommute_refl rnd).
    - rewrite mpow_scale_id. intros i j Hi Hj. rewrite (mmul_diag_l rnd) by assumption.
      rewrite Hc. reflexivity.
  Qed.

  Theorem newton_invariant n p A eps mi tol : (0 < p)%nat -> 0 < frob Op n (ridge Op n A eps) ->
    let s := newton_final Op n p A eps mi tol in
    let Ar := ridge Op n A eps in
    meq n (mmul Op n (mpow Op n (sX s) p) Ar) (sM s)
    /\ mcommute Op n (sX s) (sM s) /\ mcommute Op n (sX s) Ar /\ mcommute Op n (sM s) Ar.
  Proof.
    intros Hp Hf s Ar.
    assert (H : state_inv n p Ar s) by (apply newton_loop_inv, newton_init_inv; assumption).
    destruct H as (H1 & H2 & H3 & H4). repeat split; assumption.
  Qed.

  (* ---- coupled higher-order iteration: the same invariant ------------------------------------ *)
  Lemma ho_horner_commute n b base C i Mp :
    mcommute Op n C base -> mcommute Op n C Mp -> mcommute Op n C (ho_horner Op n b base i Mp).
  Proof.
    intros Hb. revert Mp. induction i as [|i IH]; intros Mp HM; cbn [ho_horner]; [exact HM|].
    apply IH. rewrite memo_eq. apply (mcommute_madd rnd).
    - apply (mcommute_mscale rnd), (mcommute_id rnd).
    - apply (mcommute_mmul rnd); assumption.
  Qed.

  Lemma ho_Mp_commute n order b C M : mcommute Op n C M -> mcommute Op n C (ho_Mp Op n order b M).
  Proof.
    intros H. unfold ho_Mp.
    assert (Hbase : mcommute Op n C (memo Op n (msub Op (mid Op) M))).
    { rewrite memo_eq. apply (mcommute_msub rnd); [apply (mcommute_id rnd)|exact H]. }
    apply ho_horner_commute; [exact Hbase|].
    rewrite (memo_eq Op n (madd Op _ _)). apply (mcommute_madd rnd); apply (mcommute_mscale rnd); [exact Hbase|apply (mcommute_id rnd)].
  Qed.

  Lemma ho_loop_inv fuel n p order b tol Ar s :
    state_inv n p Ar s -> state_inv n p Ar (fst (ho_loop Op fuel n p order b tol s)).
  Proof.
    revert s; induction fuel as [|fuel IH]; intros s Hs; cbn [ho_loop].
    - destruct (fltb Op tol (serr s)); exact Hs.
    - destruct (fltb Op tol (serr s)); [|exact Hs].
      pose proof (coupled_step_inv n p Ar (sX s) (sM s) (ho_Mp Op n order b (sM s)) Hs) as Hstep.
      destruct (coupled_step Op n p (ho_Mp Op n order b (sM s)) (sX s) (sM s)) as [X' M'] eqn:E.
      cbn [fst snd] in Hstep.
      assert (Hnew : coupled_inv n p Ar X' M').
      { destruct Hs as (HXM & HXA & HMA & HE).
        apply Hstep; apply (mcommute_sym rnd), ho_Mp_commute.
        - exact HXM.
        - apply (mcommute_refl rnd).
        - apply (mcommute_sym rnd); exact HMA. }
      destruct (fltb Op (fmul Op (serr s) (c12 Op)) (err_to_id Op n M')
                || feqb Op (err_to_id Op n M') (serr s) && fltb Op (serr s) (c1em3 Op)).
      + cbn [fst]. exact Hnew.
      + apply IH. exact Hnew.
  Qed.

  Lemma ho_init_inv n p Ar : (0 < p)%nat -> 0 < trace Op n Ar -> state_inv n p Ar (ho_init Op n p Ar).
  Proof.
    intros Hp Ht. unfold ho_init.
    set (sv := fdiv Op (of_Z Op (-1)) (of_Z Op (Z.of_nat p))).
    set (z := fdiv Op (f1 Op) (trace Op n Ar)).
    set (c := fpow Op z (fneg Op sv)).
    set (M0 := memo Op n (mscale Op z Ar)).
    assert (Hz : 0 < z) by (unfold z; cbn [fdiv f1 R_ops]; apply Rdiv_lt_0_compat; lra).
    assert (Hc : c ^ p = z).
    { unfold c, sv. cbn [fpow fneg fdiv of_Z R_ops].
      rewrite <- Rpower_pow by (unfold Rpower; apply exp_pos). rewrite Rpower_mult.
      replace (- (-1 / IZR (Z.of_nat p)) * INR p) with 1; [apply Rpower_1; exact Hz|].
      rewrite INR_IZR_INZ. assert (IZR (Z.of_nat p) <> 0) by (apply not_0_IZR; lia). field. assumption. }
    assert (H0 : coupled_inv n p Ar (mscale Op c (mid Op)) M0).
    { unfold coupled_inv, M0. rewrite !memo_eq. repeat split.
      - apply mcommute_scale_id.
      - apply mcommute_scale_id.
      - apply (mcommute_sym rnd), (mcommute_mscale rnd), (mcommute_refl rnd).
      - rewrite mpow_scale_id. intros i j Hi Hj. rewrite (mmul_diag_l rnd) by assumption. rewrite Hc. reflexivity. }
    pose proof (coupled_step_inv n p Ar (mscale Op c (mid Op)) M0 (newton_Mp Op sv M0) H0) as Hstep.
    destruct (coupled_step Op n p (newton_Mp Op sv M0) (mscale Op c (mid Op)) M0) as [X1 M1] eqn:E.
    unfold state_inv. cbn [sX sM]. cbn [fst snd] in Hstep.
    destruct H0 as (HXM & HXA & HMA & HE).
    apply Hstep; apply (mcommute_sym rnd), newton_Mp_commute.
    - exact HXM.
    - apply (mcommute_refl rnd).
    - apply (mcommute_sym rnd); exact HMA.
  Qed.

  Theorem higher_order_invariant fuel n p order b tol Ar : (0 < p)%nat -> 0 < trace Op n Ar ->
    let s := fst (ho_loop Op fuel n p order b tol (ho_init Op n p Ar)) in
    meq n (mmul Op n (mpow Op n (sX s) p) Ar) (sM s)
    /\ mcommute Op n (sX s) (sM s) /\ mcommute Op n (sX s) Ar /\ mcommute Op n (sM s) Ar
    /\ ho_true_error Op n p Ar (sX s) = err_to_id Op n (sM s).
  Proof.
    intros Hp Ht s.
    assert (H : state_inv n p Ar s) by (apply ho_loop_inv, ho_init_inv; assumption).
    destruct H as (H1 & H2 & H3 & H4). repeat split; try assumption.
    unfold ho_true_error, err_to_id.
    assert (HC : mcommute Op n (mpow Op n (sX s) p) Ar) by (apply (mcommute_sym rnd), (mcommute_mpow rnd), (mcommute_sym rnd); exact H2).
    unfold mcommute in HC. rewrite <- HC, H4. reflexivity.
  Qed.

  (* CONVERGED => the residual of the RETURNED matrix is within the tolerance: |X^p A_ridge - I|max <= tol *)
  Theorem converged_flag_sound n p A eps mi tol out : (0 < p)%nat -> 0 < frob Op n (ridge Op n A eps) ->
    newton_root Op n p A eps mi tol = Ok out -> oflag out = CONVERGED ->
    maxabs Op n (msub Op (mmul Op n (mpow Op n (oX out) p) (ridge Op n A eps)) (mid Op)) <= tol.
  Proof.
    intros Hp Hf Hout Hfl. apply newton_root_out in Hout. destruct Hout as (HX & HF & _ & _).
    rewrite HF in Hfl. apply converged_flag_sound_newton in Hfl. cbn [fleb R_ops] in Hfl.
    apply Rleb_true in Hfl. rewrite HX.
    destruct (newton_invariant n p A eps mi tol Hp Hf) as (HE & _). cbn zeta in HE.
    unfold err_to_id in Hfl. rewrite HE. exact Hfl.
  Qed.

  (* the guard of the higher-order solver over the reals: a returned error is at most 1/10 *)
  Theorem higher_order_guard_R n p q A rel_eps abs_eps mi tol order out :
    higher_order_root Op n p q A rel_eps abs_eps mi tol order = Ok out -> oerr out <= 1 / 10.
  Proof.
    intros H. apply higher_order_guard in H. destruct H as (X0 & _ & H & _).
    cbn [fltb R_ops] in H. unfold c01 in H. cbn [fdiv of_Z R_ops] in H.
    destruct (Rlt_dec (1 / 10) (oerr out)) as [Hlt|Hge]; [|lra].
    apply Rltb_true in Hlt. rewrite Hlt in H. discriminate.
  Qed.

  (* ---- certified checkers (soundness over the reals; the same terms run in binary64) ------------- *)
  Lemma fleb_R x y : fleb Op x y = true -> x <= y.
  Proof. cbn [fleb R_ops]. apply Rleb_true. Qed.

  Theorem C11_checkb_sound n A X V tol_s tol_c bound :
    C11_checkb Op n A X V tol_s tol_c bound = true ->
    (forall i j, (i < n)%nat -> (j < n)%nat -> Rabs (X i j - X j i) <= tol_s)
    /\ (forall i, (i < n)%nat -> 0 < X i i)
    /\ (forall i j, (i < n)%nat -> (j < n)%nat -> Rabs (X i j) <= bound)
    /\ (forall i j, (i < n)%nat -> (j < n)%nat -> Rabs (mmul Op n X A i j - mmul Op n A X i j) <= tol_c)
    /\ (forall k, (k < n)%nat -> 0 < qform Op n X (mcol V k) <= bound * dot Op n (mcol V k) (mcol V k)).
  Proof.
    unfold C11_checkb. intros H. repeat (apply andb_true_iff in H as [H ?]).
    apply fleb_R in H1, H2, H4. repeat split.
    - intros i j Hi Hj. eapply Rle_trans; [|exact H4].
      apply (maxabs_ge rnd n (msub Op X (mtrans X)) i j Hi Hj).
    - intros i Hi. unfold diag_pos in H3. rewrite forall_lt_true in H3. specialize (H3 i Hi).
      cbn [fltb f0 R_ops] in H3. apply Rltb_true in H3. exact H3.
    - intros i j Hi Hj. eapply Rle_trans; [|exact H2]. apply (maxabs_ge rnd n X i j Hi Hj).
    - intros i j Hi Hj. eapply Rle_trans; [|exact H1].
      apply (maxabs_ge rnd n (msub Op (mmul Op n X A) (mmul Op n A X)) i j Hi Hj).
    - unfold rayleigh_ok in H0. rewrite forall_lt_true in H0. specialize (H0 k H5).
      apply andb_true_iff in H0 as [Ha _]. cbn [fltb f0 R_ops] in Ha. apply Rltb_true in Ha.
      rewrite (vmemo_eq Op n (mcol V k)) in Ha. exact Ha.
    - unfold rayleigh_ok in H0. rewrite forall_lt_true in H0. specialize (H0 k H5).
      apply andb_true_iff in H0 as [_ Hb]. apply fleb_R in Hb. cbn [fmul R_ops] in Hb.
      rewrite (vmemo_eq Op n (mcol V k)) in Hb. exact Hb.
  Qed.

  Theorem C10_checkb_sound n p q A eps X tol tol_s :
    C10_checkb Op n p q A eps X tol tol_s = true ->
    (forall i j, (i < n)%nat -> (j < n)%nat -> Rabs (X i j - X j i) <= tol_s)
    /\ maxabs Op n (msub Op (mmul Op n (mpow Op n X p) (mpow Op n (ridge Op n A eps) q)) (mid Op)) <= tol.
  Proof.
    unfold C10_checkb. intros H. repeat (apply andb_true_iff in H as [H ?]).
    apply fleb_R in H0, H1. split.
    - intros i j Hi Hj. eapply Rle_trans; [|exact H1].
      apply (maxabs_ge rnd n (msub Op X (mtrans X)) i j Hi Hj).
    - unfold root_residual, err_to_id in H0. rewrite memo_eq in H0. exact H0.
  Qed.

  Theorem conv_flag_checkb_sound n M fl err tol :
    conv_flag_checkb Op n M fl err tol = true -> fl = CONVERGED ->
    maxabs Op n (msub Op M (mid Op)) <= tol /\ err <= tol.
  Proof.
    intros H ->. cbn [conv_flag_checkb] in H. apply andb_true_iff in H as [H1 H2].
    apply fleb_R in H1, H2. split; assumption.
  Qed.

  Theorem eigpair_checkb_sound n p q eps enh L Q X tol :
    eigpair_checkb Op n p q eps enh L Q X tol = true ->
    forall k i, (k < n)%nat -> (i < n)%nat ->
      Rabs (mvec Op n X (mcol Q k) i - eigen_d n p q eps enh L k * Q i k) <= tol * eigen_d n p q eps enh L k.
  Proof.
    unfold eigpair_checkb. intros H k i Hk Hi. rewrite forall_lt_true in H. specialize (H k Hk). cbv zeta in H.
    rewrite forall_lt_true in H. specialize (H i Hi). apply fleb_R in H. cbn [fabs fsub fmul fpow R_ops] in H.
    rewrite (vmemo_ok Op n (mcol Q k) i Hi) in H.
    rewrite (mvec_proper Op n X X (reflexivity X) _ _ (vmemo_eq Op n (mcol Q k)) i Hi) in H.
    exact H.
  Qed.
End Reals.

(* ============================================================================ packaged statements *)
Section Packaged.
  Variable rnd : R -> R.
  Notation Op := (R_ops rnd).

  (* C11, everything the eigen configuration of matrix_inverse_root returns on a symmetric input of size
     n > 1 (no PSD assumption), whichever valid decomposition eigh produced for the matrix it was given *)
  Theorem eigen_path_spd n A (p : Z) (q : positive) eps enh L Q out :
    (1 < n)%nat -> (0 < p)%Z -> 0 < eps -> expo Op p q < 0 ->
    eigh_contract rnd n (eigen_query Op n A eps enh) L Q ->
    matrix_inverse_root Op [n; n] A p q (EigenCfg enh) eps false L Q = Ok out ->
    msym n (oX out)
    /\ (forall x, nonzero n x -> 0 < qform Op n (oX out) x)
    /\ (forall x, qform Op n (oX out) x <= Rpower eps (expo Op p q) * dot Op n x x)
    /\ mcommute Op n (oX out) A.
  Proof.
    intros Hn Hp He Hx HC H. rewrite eigen_dispatch in H by assumption. injection H as <-. cbn [plain oX].
    destruct HC as [HM HQ]. repeat split.
    - apply eigen_root_sym.
    - intros x Hnz. apply eigen_root_pd; [apply HQ|exact Hnz].
    - apply eigen_root_eig_le; [exact He|exact Hx|apply HQ].
    - apply eigen_root_commutes. split; assumption.
  Qed.
  (* C11 for the numel == 1 path (any configuration): a 1x1 input, NEGATIVE ENTRY INCLUDED, gives a positive
     value bounded by eps^e - no guard on the sign of the entry *)
  Theorem scalar_path_spd A (p : Z) (q : positive) cfg eps isd L Q out :
    (0 < p)%Z -> 0 < eps -> expo Op p q < 0 ->
    matrix_inverse_root Op [1%nat; 1%nat] A p q cfg eps isd L Q = Ok out ->
    msym 1 (oX out)
    /\ (forall x, nonzero 1 x -> 0 < qform Op 1 (oX out) x)
    /\ (forall x, qform Op 1 (oX out) x <= Rpower eps (expo Op p q) * dot Op 1 x x)
    /\ mcommute Op 1 (oX out) A
    /\ 0 < oX out 0%nat 0%nat <= Rpower eps (expo Op p q).
  Proof.
    intros Hp He Hx H. unfold matrix_inverse_root in H. cbn [numel fold_right Nat.mul] in H.
    rewrite scalar_root_ok in H by lia. injection H as <-. cbn [plain oX].
    assert (HD : mis_diag Op 1 A) by (intros i j Hi Hj Hne; lia).
    pose proof (diag_contract rnd 1 A HD) as HC.
    pose proof (scalar_eq_eigen rnd p q eps A _ _ HC) as E.
    split; [|split; [|split; [|split; [|split]]]].
    - unfold msym. rewrite E. apply eigen_root_sym.
    - intros x Hnz. rewrite E. apply eigen_root_pd; [apply HC|exact Hnz].
    - intros x. rewrite E. apply eigen_root_eig_le; [exact He|exact Hx|apply HC].
    - rewrite E. apply (eigen_root_commutes rnd 1 p q eps false). exact HC.
    - unfold scalar_X, Rpower. apply exp_pos.
    - unfold scalar_X. apply Rpower_le_neg; [exact He| |exact Hx].
      unfold Rmin. destruct (Rle_dec (A 0%nat 0%nat) 0); lra.
  Qed.
End Packaged.

(* ============================================================================ non-vacuity *)
(* A concrete instance of every hypothesis used above: rnd = identity (the exponent -1/2 is a binary32
   number), n = 2, A = Q diag(1, 2) Q^T with the rational rotation Q = [[3/5, 4/5], [-4/5, 3/5]]. *)
Section Example.
  Definition idr (x : R) : R := x.
  Notation Op := (R_ops idr).
  Definition Qex : mat R := fun i j =>
    match i, j with
    | 0%nat, 0%nat => 3 / 5 | 0%nat, 1%nat => 4 / 5
    | 1%nat, 0%nat => - (4 / 5) | 1%nat, 1%nat => 3 / 5
    | _, _ => 0 end.
  Definition Lex : vec R := fun i => match i with 0%nat => 1 | _ => 2 end.
  Definition Aex : mat R := fun i j =>
    match i, j with
    | 0%nat, 0%nat => 41 / 25 | 0%nat, 1%nat => 12 / 25
    | 1%nat, 0%nat => 12 / 25 | 1%nat, 1%nat => 34 / 25
    | _, _ => 0 end.

  Ltac two_by_two :=
    let i := fresh "i" in let j := fresh "j" in let Hi := fresh in let Hj := fresh in
    intros i j Hi Hj; destruct i as [|[|i]]; [| |lia]; (destruct j as [|[|j]]; [| |lia]).

  Example Qex_orth : morth Op 2 Qex.
  Proof.
    split; unfold morth_cols, morth_rows; two_by_two; rewrite (rmmul_get idr) by lia;
      cbn [sumn fadd fmul f0 f1 R_ops]; unfold mtrans, Qex, mid; cbn [Nat.eqb f0 f1 R_ops]; lra.
  Qed.

  Example eigh_contract_example : eigh_contract idr 2 Aex Lex Qex.
  Proof.
    split; [|exact (proj1 Qex_orth)].
    two_by_two; rewrite (spec_get idr) by lia; cbn [sumn fadd f0 R_ops]; unfold Qex, Lex, Aex; lra.
  Qed.

  Example expo_example : expo Op 2 1 = - (IZR (Zpos 1) / IZR 2) /\ expo Op 2 1 < 0.
  Proof. unfold expo, idr. cbn [rnd32 fdiv fneg f1 of_Z R_ops]. split; lra. Qed.

  Example psd_example : psd idr 2 Aex.
  Proof.
    intros x. destruct eigh_contract_example as [HA _]. rewrite HA, (qform_spec idr).
    apply rsum_nonneg. intros k _. assert (0 <= Lex k) by (unfold Lex; destruct k; lra).
    apply Rmult_le_pos; [assumption|apply pow2_ge_0].
  Qed.

  (* the hypotheses of the C11 and C10 theorems hold together on this instance *)
  Example eigen_path_example :
    let X := eigen_X Op 2 2 1 (1 / 10) false Lex Qex in
    msym 2 X /\ (forall x, nonzero 2 x -> 0 < qform Op 2 X x) /\ mcommute Op 2 X Aex
    /\ meq 2 (mmul Op 2 (mpow Op 2 X 2) (mpow Op 2 (ridge Op 2 Aex (1 / 10)) 1)) (mid Op).
  Proof.
    intros X. pose proof eigh_contract_example as HC. repeat split.
    - apply eigen_root_sym.
    - intros x Hx. apply eigen_root_pd; [apply HC|exact Hx].
    - apply eigen_root_commutes. exact HC.
    - apply (eigen_root_exact idr 2 2 1 (1 / 10) Aex Lex Qex); try lia; try lra.
      + exact psd_example.
      + exact HC.
      + apply expo_example.
  Qed.

  (* the Newton hypothesis 0 < |A + eps I|_F is satisfiable *)
  Example newton_hyp_example : 0 < frob Op 2 (ridge Op 2 Aex (1 / 10)).
  Proof.
    unfold frob. cbn [fsqrt R_ops]. apply sqrt_lt_R0. unfold frob2. apply rsum_pos.
    - intros i _. apply rsum_nonneg. intros j _. cbn [fmul R_ops]. apply Rle_0_sqr.
    - exists 0%nat. split; [lia|]. apply rsum_pos.
      + intros j _. cbn [fmul R_ops]. apply Rle_0_sqr.
      + exists 0%nat. split; [lia|]. rewrite (ridge_eq idr 2 Aex (1 / 10) 0%nat 0%nat) by lia.
        unfold madd, mscale, mid, Aex. cbn [Nat.eqb fadd fmul f1 R_ops]. lra.
  Qed.
End Example.
