(* SoapProofs.v - theorems about the SOAP (eigenvalue-corrected Shampoo) branch of Optimizer.v (property C03). *)
From Coq Require Import ZArith List Bool Arith Lia Reals Lra.
From Shampoo Require Import Scalar Matrix MatrixProofs Eigenvectors Optimizer OptimizerProofs SoapDefs.
Import ListNotations.

(* ====================================================================== Part 1: lists by index (any scalar) *)
Section Index.
  Context {F : Type} (Op : ops F).
  Local Notation zero := (f0 Op).
  Local Notation lmat := (list (list F)).

  Lemma tab_length {A} n (f : nat -> A) : length (tab n f) = n.
  Proof. unfold tab. rewrite map_length, seq_length. reflexivity. Qed.

  Lemma nth_tab {A} n (f : nat -> A) i d : i < n -> nth i (tab n f) d = f i.
  Proof. intros H. unfold tab. apply nth_map_seq. exact H. Qed.

  Lemma tab_ext {A} n (f g : nat -> A) : (forall i, i < n -> f i = g i) -> tab n f = tab n g.
  Proof. intros H. unfold tab. apply map_ext_in. intros i Hi. apply in_seq in Hi. apply H. lia. Qed.

  Lemma list_eq_tab (l : list F) : l = tab (length l) (vnth Op l).
  Proof.
    apply (nth_ext _ _ zero zero); [rewrite tab_length; reflexivity|].
    intros i Hi. rewrite nth_tab by exact Hi. reflexivity.
  Qed.

  Lemma eq_tab (l : list F) n g : length l = n -> (forall i, i < n -> vnth Op l i = g i) -> l = tab n g.
  Proof. intros Hl H. rewrite (list_eq_tab l), Hl. apply tab_ext. exact H. Qed.

  Lemma divmod_small a B j : j < B -> (a * B + j) / B = a /\ (a * B + j) mod B = j.
  Proof.
    intros H. assert (B <> 0) by lia. split.
    - rewrite Nat.div_add_l by assumption. rewrite Nat.div_small by exact H. lia.
    - rewrite Nat.add_comm, Nat.mod_add by assumption. apply Nat.mod_small. exact H.
  Qed.
  Lemma div_small' a B j : j < B -> (a * B + j) / B = a.
  Proof. intros H. apply (divmod_small a B j H). Qed.
  Lemma mod_small' a B j : j < B -> (a * B + j) mod B = j.
  Proof. intros H. apply (divmod_small a B j H). Qed.

  Lemma index_split A B i : i < A * B -> i = (i / B) * B + i mod B /\ i / B < A /\ i mod B < B.
  Proof.
    intros H. assert (B <> 0) by (destruct B; lia).
    split; [rewrite Nat.mul_comm; apply Nat.div_mod; assumption|].
    split; [apply Nat.div_lt_upper_bound; [assumption|lia]|apply Nat.mod_upper_bound; assumption].
  Qed.

  Lemma tab_ext2 {X} A B (f g : nat -> X) :
    (forall a b, a < A -> b < B -> f (a * B + b) = g (a * B + b)) -> tab (A * B) f = tab (A * B) g.
  Proof.
    intros H. apply tab_ext. intros i Hi. destruct (index_split A B i Hi) as (E & Ha & Hb).
    rewrite E. apply H; assumption.
  Qed.

  Lemma lt_mul_add a A b B : a < A -> b < B -> a * B + b < A * B.
  Proof. intros. nia. Qed.

  (* ---- firstn / skipn / chunks *)
  Lemma nth_firstn_lt {X} i n (l : list X) d : i < n -> nth i (firstn n l) d = nth i l d.
  Proof.
    revert i l. induction n as [|n IH]; intros i l H; [lia|].
    destruct l as [|a l]; [destruct i; reflexivity|]. destruct i; [reflexivity|]. cbn. apply IH. lia.
  Qed.
  Lemma nth_skipn_add {X} i n (l : list X) d : nth i (skipn n l) d = nth (n + i) l d.
  Proof.
    revert l. induction n as [|n IH]; intros l; [reflexivity|].
    destruct l as [|a l]; [destruct i; reflexivity|]. cbn. apply IH.
  Qed.

  Lemma skipn_skipn' {X} a b (l : list X) : skipn a (skipn b l) = skipn (b + a) l.
  Proof.
    revert l. induction b as [|b IH]; intros l; [reflexivity|].
    destruct l as [|x l]; [cbn; destruct a; reflexivity|]. cbn. apply IH.
  Qed.

  Lemma chunks_length n k (l : list F) : length (chunks n k l) = k.
  Proof. revert l. induction k as [|k IH]; intros l; cbn; [reflexivity|]. rewrite IH. reflexivity. Qed.

  Lemma nth_chunks n k (l : list F) i : i < k -> nth i (chunks n k l) [] = firstn n (skipn (i * n) l).
  Proof.
    revert l i. induction k as [|k IH]; intros l i H; [lia|].
    destruct i; cbn [chunks nth]; [reflexivity|].
    rewrite IH by lia. rewrite skipn_skipn'. reflexivity.
  Qed.

  Lemma mnth_chunks n k (l : list F) i j : i < k -> j < n -> mnth Op (chunks n k l) i j = vnth Op l (i * n + j).
  Proof.
    intros Hi Hj. unfold mnth, vnth. rewrite nth_chunks by exact Hi.
    rewrite nth_firstn_lt by exact Hj. apply nth_skipn_add.
  Qed.

  Lemma chunks_row_length n k (l : list F) i : length l = k * n -> i < k -> length (nth i (chunks n k l) []) = n.
  Proof.
    intros Hl Hi. rewrite nth_chunks by exact Hi. rewrite firstn_length, skipn_length. nia.
  Qed.

  Lemma chunks_rows_In n k (l : list F) r : length l = k * n -> In r (chunks n k l) -> length r = n.
  Proof.
    intros Hl Hin. destruct (In_nth _ _ [] Hin) as (i & Hi & E). rewrite chunks_length in Hi.
    rewrite <- E. apply chunks_row_length; assumption.
  Qed.

  (* ---- concat of rows of equal length *)
  Lemma concat_uniform_length (rows : lmat) m : (forall r, In r rows -> length r = m) -> length (concat rows) = length rows * m.
  Proof.
    induction rows as [|r rows IH]; intros H; [reflexivity|]. cbn [concat length].
    rewrite app_length, IH by (intros; apply H; cbn; auto). rewrite (H r) by (cbn; auto). reflexivity.
  Qed.

  Lemma nth_concat_uniform (rows : lmat) m a j d :
    (forall r, In r rows -> length r = m) -> a < length rows -> j < m ->
    nth (a * m + j) (concat rows) d = nth j (nth a rows []) d.
  Proof.
    revert a. induction rows as [|r rows IH]; intros a H Ha Hj; [cbn in Ha; lia|].
    assert (Hr : length r = m) by (apply H; cbn; auto).
    cbn [concat]. destruct a as [|a].
    - cbn [nth Nat.mul Nat.add]. apply app_nth1. lia.
    - rewrite app_nth2 by (rewrite Hr; cbn; lia). cbn [nth].
      replace (S a * m + j - length r) with (a * m + j) by (rewrite Hr; cbn; lia).
      apply IH; [intros; apply H; cbn; auto|cbn in Ha; lia|exact Hj].
  Qed.

  Lemma concat_eq_tab (rows : lmat) A B g :
    length rows = A -> (forall a, a < A -> length (nth a rows []) = B) ->
    (forall a b, a < A -> b < B -> mnth Op rows a b = g (a * B + b)) ->
    concat rows = tab (A * B) g.
  Proof.
    intros HA HB Hg.
    assert (Hin : forall r, In r rows -> length r = B).
    { intros r Hr. destruct (In_nth _ _ [] Hr) as (i & Hi & E). rewrite <- E. apply HB. lia. }
    apply eq_tab; [rewrite (concat_uniform_length rows B Hin), HA; reflexivity|].
    intros i Hi. destruct (index_split A B i Hi) as (E & Ha & Hb).
    set (a := i / B) in *. set (b := i mod B) in *. clearbody a b. subst i. unfold vnth.
    rewrite (nth_concat_uniform rows B) by (try assumption; lia). apply Hg; assumption.
  Qed.

  Lemma concat_chunks n k (l : list F) : length l = k * n -> concat (chunks n k l) = l.
  Proof.
    intros Hl. rewrite (concat_eq_tab (chunks n k l) k n (vnth Op l)).
    - rewrite <- Hl. symmetry. apply list_eq_tab.
    - apply chunks_length.
    - intros a Ha. apply chunks_row_length; assumption.
    - intros a b Ha Hb. apply mnth_chunks; assumption.
  Qed.

  Lemma chunks_concat n k (rows : lmat) : length rows = k -> (forall r, In r rows -> length r = n) -> chunks n k (concat rows) = rows.
  Proof.
    revert rows. induction k as [|k IH]; intros rows Hk Hn.
    - destruct rows; [reflexivity|discriminate].
    - destruct rows as [|r rows]; [discriminate|]. cbn [concat chunks].
      assert (Hr : length r = n) by (apply Hn; cbn; auto).
      assert (Hrest : forall r', In r' rows -> length r' = length r) by (intros; rewrite Hr; apply Hn; cbn; auto).
      clear Hn. subst n.
      rewrite firstn_app, skipn_app, Nat.sub_diag, firstn_all, skipn_all. cbn [firstn skipn app]. rewrite app_nil_r.
      f_equal. apply IH; [cbn in Hk; lia|exact Hrest].
  Qed.

  (* ---- sums *)
  Lemma fold_left_sumn (l : list F) : fold_left (fadd Op) l zero = sumn Op (length l) (fun i => nth i l zero).
  Proof.
    induction l as [|a l IH] using rev_ind; [reflexivity|].
    rewrite fold_left_app, app_length, Nat.add_comm. cbn [length Nat.add fold_left sumn].
    rewrite IH. f_equal.
    - apply sumn_ext. intros k Hk. rewrite app_nth1 by exact Hk. reflexivity.
    - rewrite app_nth2 by lia. rewrite Nat.sub_diag. reflexivity.
  Qed.

  Lemma map2_length {A B C} (f : A -> B -> C) l1 l2 : length l1 = length l2 -> length (map2 f l1 l2) = length l1.
  Proof. revert l2. induction l1 as [|a l1 IH]; intros [|b l2] H; cbn in *; try lia. rewrite IH by lia. reflexivity. Qed.

  Lemma dot_sumn (a b : list F) n : length a = n -> length b = n ->
    dot Op a b = sumn Op n (fun i => fmul Op (vnth Op a i) (vnth Op b i)).
  Proof.
    intros Ha Hb. unfold dot. rewrite fold_left_sumn, map2_length, Ha by lia.
    apply sumn_ext. intros k Hk. unfold vnth. apply nth_map2; lia.
  Qed.
End Index.
