(* SoapProofs.v - theorems about the SOAP (eigenvalue-corrected Shampoo) branch of Optimizer.v (property C03). *)
From Coq Require Import ZArith List Bool Arith Lia Reals Lra.
From Shampoo Require Import Scalar Matrix MatrixProofs Eigenvectors Optimizer OptimizerProofs SoapDefs.
Import ListNotations.

(* ====================================================================== Part 1: lists by index (any scalar) *)
Section Index.
  Context {F : Type} (Op : ops F).
  Local Notation zero := (f0 Op).
  Local Notation lmat := (list (list F)).

  Lemma tab_length {A} n (f : nat -> A) : length (tab n f) = n.
  Proof. unfold tab. rewrite map_length, seq_length. reflexivity. Qed.

  Lemma nth_tab {A} n (f : nat -> A) i d : i < n -> nth i (tab n f) d = f i.
  Proof. intros H. unfold tab. apply nth_map_seq. exact H. Qed.

  Lemma tab_ext {A} n (f g : nat -> A) : (forall i, i < n -> f i = g i) -> tab n f = tab n g.
  Proof. intros H. unfold tab. apply map_ext_in. intros i Hi. apply in_seq in Hi. apply H. lia. Qed.

  Lemma list_eq_tab (l : list F) : l = tab (length l) (vnth Op l).
  Proof.
    apply (nth_ext _ _ zero zero); [rewrite tab_length; reflexivity|].
    intros i Hi. rewrite nth_tab by exact Hi. reflexivity.
  Qed.

  Lemma eq_tab (l : list F) n g : length l = n -> (forall i, i < n -> vnth Op l i = g i) -> l = tab n g.
  Proof. intros Hl H. rewrite (list_eq_tab l), Hl. apply tab_ext. exact H. Qed.

  Lemma divmod_small a B j : j < B -> (a * B + j) / B = a /\ (a * B + j) mod B = j.
  Proof.
    intros H. assert (B <> 0) by lia. split.
    - rewrite Nat.div_add_l by assumption. rewrite Nat.div_small by exact H. lia.
    - rewrite Nat.add_comm, Nat.mod_add by assumption. apply Nat.mod_small. exact H.
  Qed.
  Lemma div_small' a B j : j < B -> (a * B + j) / B = a.
  Proof. intros H. apply (divmod_small a B j H). Qed.
  Lemma mod_small' a B j : j < B -> (a * B + j) mod B = j.
  Proof. intros H. apply (divmod_small a B j H). Qed.

  Lemma index_split A B i : i < A * B -> i = (i / B) * B + i mod B /\ i / B < A /\ i mod B < B.
  Proof.
    intros H. assert (B <> 0) by (destruct B; lia).
    split; [rewrite Nat.mul_comm; apply Nat.div_mod; assumption|].
    split; [apply Nat.div_lt_upper_bound; [assumption|lia]|apply Nat.mod_upper_bound; assumption].
  Qed.

  Lemma tab_ext2 {X} A B (f g : nat -> X) :
    (forall a b, a < A -> b < B -> f (a * B + b) = g (a * B + b)) -> tab (A * B) f = tab (A * B) g.
  Proof.
    intros H. apply tab_ext. intros i Hi. destruct (index_split A B i Hi) as (E & Ha & Hb).
    rewrite E. apply H; assumption.
  Qed.

  Lemma lt_mul_add a A b B : a < A -> b < B -> a * B + b < A * B.
  Proof. intros. nia. Qed.

  (* ---- firstn / skipn / chunks *)
  Lemma nth_firstn_lt {X} i n (l : list X) d : i < n -> nth i (firstn n l) d = nth i l d.
  Proof.
    revert i l. induction n as [|n IH]; intros i l H; [lia|].
    destruct l as [|a l]; [destruct i; reflexivity|]. destruct i; [reflexivity|]. cbn. apply IH. lia.
  Qed.
  Lemma nth_skipn_add {X} i n (l : list X) d : nth i (skipn n l) d = nth (n + i) l d.
  Proof.
    revert l. induction n as [|n IH]; intros l; [reflexivity|].
    destruct l as [|a l]; [destruct i; reflexivity|]. cbn. apply IH.
  Qed.

  Lemma skipn_skipn' {X} a b (l : list X) : skipn a (skipn b l) = skipn (b + a) l.
  Proof.
    revert l. induction b as [|b IH]; intros l; [reflexivity|].
    destruct l as [|x l]; [cbn; destruct a; reflexivity|]. cbn. apply IH.
  Qed.

  Lemma chunks_length n k (l : list F) : length (chunks n k l) = k.
  Proof. revert l. induction k as [|k IH]; intros l; cbn; [reflexivity|]. rewrite IH. reflexivity. Qed.

  Lemma nth_chunks n k (l : list F) i : i < k -> nth i (chunks n k l) [] = firstn n (skipn (i * n) l).
  Proof.
    revert l i. induction k as [|k IH]; intros l i H; [lia|].
    destruct i; cbn [chunks nth]; [reflexivity|].
    rewrite IH by lia. rewrite skipn_skipn'. reflexivity.
  Qed.

  Lemma mnth_chunks n k (l : list F) i j : i < k -> j < n -> mnth Op (chunks n k l) i j = vnth Op l (i * n + j).
  Proof.
    intros Hi Hj. unfold mnth, vnth. rewrite nth_chunks by exact Hi.
    rewrite nth_firstn_lt by exact Hj. apply nth_skipn_add.
  Qed.

  Lemma chunks_row_length n k (l : list F) i : length l = k * n -> i < k -> length (nth i (chunks n k l) []) = n.
  Proof.
    intros Hl Hi. rewrite nth_chunks by exact Hi. rewrite firstn_length, skipn_length. nia.
  Qed.

  Lemma chunks_rows_In n k (l : list F) r : length l = k * n -> In r (chunks n k l) -> length r = n.
  Proof.
    intros Hl Hin. destruct (In_nth _ _ [] Hin) as (i & Hi & E). rewrite chunks_length in Hi.
    rewrite <- E. apply chunks_row_length; assumption.
  Qed.

  (* ---- concat of rows of equal length *)
  Lemma concat_uniform_length {X} (rows : list (list X)) m : (forall r, In r rows -> length r = m) -> length (concat rows) = length rows * m.
  Proof.
    induction rows as [|r rows IH]; intros H; [reflexivity|]. cbn [concat length].
    rewrite app_length, IH by (intros; apply H; cbn; auto). rewrite (H r) by (cbn; auto). reflexivity.
  Qed.

  Lemma nth_concat_uniform {X} (rows : list (list X)) m a j d :
    (forall r, In r rows -> length r = m) -> a < length rows -> j < m ->
    nth (a * m + j) (concat rows) d = nth j (nth a rows []) d.
  Proof.
    revert a. induction rows as [|r rows IH]; intros a H Ha Hj; [cbn in Ha; lia|].
    assert (Hr : length r = m) by (apply H; cbn; auto).
    cbn [concat]. destruct a as [|a].
    - cbn [nth Nat.mul Nat.add]. apply app_nth1. lia.
    - rewrite app_nth2 by (rewrite Hr; cbn; lia). cbn [nth].
      replace (S a * m + j - length r) with (a * m + j) by (rewrite Hr; cbn; lia).
      apply IH; [intros; apply H; cbn; auto|cbn in Ha; lia|exact Hj].
  Qed.

  Lemma concat_eq_tab (rows : lmat) A B g :
    length rows = A -> (forall a, a < A -> length (nth a rows []) = B) ->
    (forall a b, a < A -> b < B -> mnth Op rows a b = g (a * B + b)) ->
    concat rows = tab (A * B) g.
  Proof.
    intros HA HB Hg.
    assert (Hin : forall r, In r rows -> length r = B).
    { intros r Hr. destruct (In_nth _ _ [] Hr) as (i & Hi & E). rewrite <- E. apply HB. lia. }
    apply eq_tab; [rewrite (concat_uniform_length rows B Hin), HA; reflexivity|].
    intros i Hi. destruct (index_split A B i Hi) as (E & Ha & Hb).
    set (a := i / B) in *. set (b := i mod B) in *. clearbody a b. subst i. unfold vnth.
    rewrite (nth_concat_uniform rows B) by (try assumption; lia). apply Hg; assumption.
  Qed.

  Lemma concat_chunks n k (l : list F) : length l = k * n -> concat (chunks n k l) = l.
  Proof.
    intros Hl. rewrite (concat_eq_tab (chunks n k l) k n (vnth Op l)).
    - rewrite <- Hl. symmetry. apply list_eq_tab.
    - apply chunks_length.
    - intros a Ha. apply chunks_row_length; assumption.
    - intros a b Ha Hb. apply mnth_chunks; assumption.
  Qed.

  Lemma chunks_concat n k (rows : lmat) : length rows = k -> (forall r, In r rows -> length r = n) -> chunks n k (concat rows) = rows.
  Proof.
    revert rows. induction k as [|k IH]; intros rows Hk Hn.
    - destruct rows; [reflexivity|discriminate].
    - destruct rows as [|r rows]; [discriminate|]. cbn [concat chunks].
      assert (Hr : length r = n) by (apply Hn; cbn; auto).
      assert (Hrest : forall r', In r' rows -> length r' = length r) by (intros; rewrite Hr; apply Hn; cbn; auto).
      clear Hn. subst n.
      rewrite firstn_app, skipn_app, Nat.sub_diag, firstn_all, skipn_all. cbn [firstn skipn app]. rewrite app_nil_r.
      f_equal. apply IH; [cbn in Hk; lia|exact Hrest].
  Qed.

  (* ---- sums *)
  Lemma fold_left_sumn (l : list F) : fold_left (fadd Op) l zero = sumn Op (length l) (fun i => nth i l zero).
  Proof.
    induction l as [|a l IH] using rev_ind; [reflexivity|].
    rewrite fold_left_app, app_length, Nat.add_comm. cbn [length Nat.add fold_left sumn].
    rewrite IH. f_equal.
    - apply sumn_ext. intros k Hk. rewrite app_nth1 by exact Hk. reflexivity.
    - rewrite app_nth2 by lia. rewrite Nat.sub_diag. reflexivity.
  Qed.

  Lemma map2_length {A B C} (f : A -> B -> C) l1 l2 : length l1 = length l2 -> length (map2 f l1 l2) = length l1.
  Proof. revert l2. induction l1 as [|a l1 IH]; intros [|b l2] H; cbn in *; try lia. rewrite IH by lia. reflexivity. Qed.

  Lemma dot_sumn (a b : list F) n : length a = n -> length b = n ->
    dot Op a b = sumn Op n (fun i => fmul Op (vnth Op a i) (vnth Op b i)).
  Proof.
    intros Ha Hb. unfold dot. rewrite fold_left_sumn, map2_length, Ha by lia.
    apply sumn_ext. intros k Hk. unfold vnth. apply nth_map2; lia.
  Qed.
End Index.

(* ====================================================================== Part 2: the tensor operations of Optimizer.v by index *)
Section TensorOps.
  Context {F : Type} (Op : ops F).
  Local Notation zero := (f0 Op).
  Local Notation lmat := (list (list F)).

  Lemma map_tab {A B} (f : A -> B) n g : map f (tab n g) = tab n (fun i => f (g i)).
  Proof. unfold tab. apply map_map. Qed.

  Lemma col_length j (m : lmat) : length (col Op j m) = length m.
  Proof. unfold col. apply map_length. Qed.

  Lemma vnth_col j (m : lmat) i : i < length m -> vnth Op (col Op j m) i = mnth Op m i j.
  Proof.
    intros H. unfold col, vnth, mnth.
    rewrite (nth_indep _ zero ((fun r => nth j r zero) [])) by (rewrite map_length; exact H).
    rewrite (map_nth (fun r => nth j r zero)). reflexivity.
  Qed.

  Lemma mtrans_length ncols (m : lmat) : length (mtrans Op ncols m) = ncols.
  Proof. unfold mtrans. rewrite map_length, seq_length. reflexivity. Qed.

  Lemma mnth_mtrans ncols (m : lmat) i j : j < ncols -> i < length m -> mnth Op (mtrans Op ncols m) j i = mnth Op m i j.
  Proof.
    intros Hj Hi. unfold mnth at 1. change (mtrans Op ncols m) with (tab ncols (fun j => col Op j m)).
    rewrite nth_tab by exact Hj. apply vnth_col. exact Hi.
  Qed.

  Lemma numel_app a b : numel (a ++ b) = numel a * numel b.
  Proof.
    unfold numel. induction a as [|x a IH]; cbn [app fold_right]; [lia|]. rewrite IH. apply Nat.mul_assoc.
  Qed.

  Lemma tdot_ix_length d R m M x : length (tdot_ix Op d R m M x) = R * m.
  Proof. apply tab_length. Qed.
  Lemma rot_ix_length d R x : length (rot_ix Op d R x) = R * d.
  Proof. apply tab_length. Qed.
  Lemma mode0_length d P M y : length (mode0 Op d P M y) = d * P.
  Proof. apply tab_length. Qed.

  Lemma vnth_mode0 d P (M : lmat) y j r : j < d -> r < P ->
    vnth Op (mode0 Op d P M y) (j * P + r) = sumn Op d (fun i => fmul Op (vnth Op y (i * P + r)) (mnth Op M i j)).
  Proof.
    intros Hj Hr. unfold mode0, vnth at 1. rewrite nth_tab by (apply lt_mul_add; assumption).
    rewrite div_small', mod_small' by exact Hr. reflexivity.
  Qed.
  Lemma vnth_tdot_ix d R m (M : lmat) x q j : q < R -> j < m ->
    vnth Op (tdot_ix Op d R m M x) (q * m + j) = sumn Op d (fun i => fmul Op (vnth Op x (i * R + q)) (mnth Op M i j)).
  Proof.
    intros Hq Hj. unfold tdot_ix, vnth at 1. rewrite nth_tab by (apply lt_mul_add; assumption).
    rewrite div_small', mod_small' by exact Hj. reflexivity.
  Qed.
  Lemma vnth_rot_ix d R x q i : q < R -> i < d -> vnth Op (rot_ix Op d R x) (q * d + i) = vnth Op x (i * R + q).
  Proof.
    intros Hq Hi. unfold rot_ix, vnth at 1. rewrite nth_tab by (apply lt_mul_add; assumption).
    rewrite div_small', mod_small' by exact Hi. reflexivity.
  Qed.

  (* torch.tensordot(t, M, ([0],[0])) *)
  Lemma tdot0_data d0 rest x m (M : lmat) :
    length x = d0 * numel rest -> length M = d0 ->
    tdot0 Op (mkT (d0 :: rest) x) m M = mkT (rest ++ [m]) (tdot_ix Op d0 (numel rest) m M x).
  Proof.
    intros Hx HM. unfold tdot0. cbn [tsh tdat]. f_equal.
    set (R := numel rest). set (X := chunks R d0 x).
    assert (HX : length X = d0) by apply chunks_length.
    unfold mmul. change (mtrans Op R X) with (tab R (fun q => col Op q X)).
    change (mtrans Op m M) with (tab m (fun j => col Op j M)).
    rewrite map_tab. unfold tdot_ix.
    apply (concat_eq_tab Op _ R m).
    - apply tab_length.
    - intros a Ha. rewrite nth_tab by exact Ha. rewrite map_tab. apply tab_length.
    - intros a b Ha Hb. unfold mnth. rewrite nth_tab by exact Ha. rewrite map_tab, nth_tab by exact Hb.
      rewrite (dot_sumn Op _ _ d0) by (rewrite col_length; assumption).
      rewrite div_small', mod_small' by exact Hb.
      apply sumn_ext. intros i Hi. rewrite !vnth_col by lia. f_equal.
      unfold X. apply mnth_chunks; assumption.
  Qed.

  (* t.permute(1, ..., n-1, 0) *)
  Lemma rotl_data d0 rest x :
    length x = d0 * numel rest ->
    rotl Op (mkT (d0 :: rest) x) = mkT (rest ++ [d0]) (rot_ix Op d0 (numel rest) x).
  Proof.
    intros Hx. unfold rotl. cbn [tsh tdat]. f_equal.
    set (R := numel rest). set (X := chunks R d0 x).
    assert (HX : length X = d0) by apply chunks_length.
    change (mtrans Op R X) with (tab R (fun q => col Op q X)). unfold rot_ix.
    apply (concat_eq_tab Op _ R d0).
    - apply tab_length.
    - intros a Ha. rewrite nth_tab by exact Ha. rewrite col_length. exact HX.
    - intros a b Ha Hb. unfold mnth. rewrite nth_tab by exact Ha.
      change (nth b (col Op a X) zero) with (vnth Op (col Op a X) b). rewrite vnth_col by lia.
      rewrite div_small', mod_small' by exact Hb. unfold X. apply mnth_chunks; assumption.
  Qed.

  (* the loop of _precondition_grad on a tensor whose first modes are [dims]; [tail] = modes already processed *)
  Lemma precond_chain_data tr : forall sel dims mats tail x,
    mats_fit sel dims mats -> length x = numel (dims ++ tail) ->
    precond_chain Op tr sel mats (mkT (dims ++ tail) x)
    = mkT (tail ++ dims) (chain_ix Op dims (sel_mats Op tr sel mats) (numel tail) x).
  Proof.
    induction sel as [|b s IH]; intros dims mats tail x Hfit Hx.
    - destruct dims; [|contradiction]. cbn. rewrite app_nil_r. reflexivity.
    - destruct dims as [|d ds]; [destruct b; contradiction|].
      rewrite numel_app in Hx. cbn [numel fold_right] in Hx. fold (numel ds) in Hx.
      destruct b.
      + destruct mats as [|M ms]; [contradiction|]. destruct Hfit as [HM Hfit].
        cbn [precond_chain sel_mats chain_ix]. rewrite HM.
        set (M' := if tr then mtrans Op d M else M).
        assert (HM' : length M' = d) by (unfold M'; destruct tr; [apply mtrans_length|exact HM]).
        assert (E : (if tr then tdot0T Op (mkT ((d :: ds) ++ tail) x) d M else tdot0 Op (mkT ((d :: ds) ++ tail) x) d M)
                    = mkT (ds ++ (tail ++ [d])) (tdot_ix Op d (numel ds * numel tail) d M' x)).
        { unfold tdot0T, M'. cbn [app]. rewrite <- numel_app, app_assoc.
          destruct tr; apply tdot0_data; try assumption; try (apply mtrans_length);
            rewrite numel_app; lia. }
        rewrite E. rewrite IH; [|exact Hfit|rewrite tdot_ix_length, !numel_app; cbn; lia].
        rewrite <- app_assoc. cbn [app]. rewrite numel_app. cbn [numel fold_right]. rewrite Nat.mul_1_r. reflexivity.
      + cbn [precond_chain sel_mats chain_ix]. cbn in Hfit.
        assert (E : rotl Op (mkT ((d :: ds) ++ tail) x) = mkT (ds ++ (tail ++ [d])) (rot_ix Op d (numel ds * numel tail) x)).
        { cbn [app]. rewrite <- numel_app, app_assoc. apply rotl_data. rewrite numel_app. lia. }
        rewrite E. rewrite IH; [|exact Hfit|rewrite rot_ix_length, !numel_app; cbn; lia].
        rewrite <- app_assoc. cbn [app]. rewrite numel_app. cbn [numel fold_right]. rewrite Nat.mul_1_r. reflexivity.
  Qed.
End TensorOps.

(* ====================================================================== Part 3: the cyclic loop = product of mode products (any scalar) *)
Section CyclicLoop.
  Context {F : Type} (Op : ops F).
  Local Notation zero := (f0 Op).
  Local Notation lmat := (list (list F)).

  (* b tensors of P entries each, stored with the tensor index as LAST mode: out[q*b + k] = B_k[q] *)
  Definition ileave (b P : nat) (B : lmat) : list F := tab (P * b) (fun p => mnth Op B (p mod b) (p / b)).

  Lemma nth_map_lt {A B} (f : A -> B) l i d d' : i < length l -> nth i (map f l) d' = f (nth i l d).
  Proof. intros H. rewrite (nth_indep _ d' (f d)) by (rewrite map_length; exact H). apply map_nth. Qed.

  Lemma concat_concat {X} (l : list (list (list X))) : concat (concat l) = concat (map (@concat X) l).
  Proof. induction l as [|a l IH]; [reflexivity|]. cbn. rewrite concat_app, IH. reflexivity. Qed.

  Lemma vnth_ileave b P B q k : q < P -> k < b -> vnth Op (ileave b P B) (q * b + k) = mnth Op B k q.
  Proof.
    intros Hq Hk. unfold ileave, vnth. rewrite nth_tab by (apply lt_mul_add; assumption).
    rewrite div_small', mod_small' by exact Hk. reflexivity.
  Qed.

  (* one contraction step on b interleaved tensors = the mode-0 product of each, re-interleaved with b*d slices *)
  Lemma tdot_ix_ileave d R b (M : lmat) (B : lmat) :
    length B = b -> (forall r, In r B -> length r = d * R) ->
    tdot_ix Op d (R * b) d M (ileave b (d * R) B)
    = ileave (b * d) R (concat (map (fun Bk => chunks R d (mode0 Op d R M Bk)) B)).
  Proof.
    intros HB Hrows. unfold tdot_ix, ileave at 2.
    replace (R * b * d) with (R * (b * d)) by ring.
    apply tab_ext2. intros r s Hr Hs.
    destruct (index_split b d s Hs) as (Es & Hk & Hj).
    set (k := s / d) in *. set (j := s mod d) in *. clearbody k j. subst s.
    rewrite div_small', mod_small' by (apply lt_mul_add; assumption).
    replace (r * (b * d) + (k * d + j)) with ((r * b + k) * d + j) by ring.
    rewrite div_small', mod_small' by exact Hj.
    (* right-hand side *)
    unfold mnth at 2.
    rewrite (nth_concat_uniform _ d k j []).
    2:{ intros g Hg. apply in_map_iff in Hg. destruct Hg as (Bk & <- & _). apply chunks_length. }
    2:{ rewrite map_length. lia. }
    2:{ exact Hj. }
    rewrite (nth_map_lt _ B k []) by lia.
    change (nth r (nth j (chunks R d (mode0 Op d R M (nth k B []))) []) zero)
      with (mnth Op (chunks R d (mode0 Op d R M (nth k B []))) j r).
    rewrite mnth_chunks by assumption. rewrite vnth_mode0 by assumption.
    apply sumn_ext. intros i Hi. f_equal.
    replace (i * (R * b) + (r * b + k)) with ((i * R + r) * b + k) by ring.
    rewrite vnth_ileave by (try assumption; apply lt_mul_add; assumption). reflexivity.
  Qed.

  Lemma rot_ix_ileave d R b (B : lmat) :
    length B = b -> (forall r, In r B -> length r = d * R) ->
    rot_ix Op d (R * b) (ileave b (d * R) B) = ileave (b * d) R (concat (map (fun Bk : list F => chunks R d Bk) B)).
  Proof.
    intros HB Hrows. unfold rot_ix, ileave at 2.
    replace (R * b * d) with (R * (b * d)) by ring.
    apply tab_ext2. intros r s Hr Hs.
    destruct (index_split b d s Hs) as (Es & Hk & Hj).
    set (k := s / d) in *. set (j := s mod d) in *. clearbody k j. subst s.
    rewrite div_small', mod_small' by (apply lt_mul_add; assumption).
    replace (r * (b * d) + (k * d + j)) with ((r * b + k) * d + j) by ring.
    rewrite div_small', mod_small' by exact Hj.
    unfold mnth at 1.
    rewrite (nth_concat_uniform _ d k j []).
    2:{ intros g Hg. apply in_map_iff in Hg. destruct Hg as (Bk & <- & _). apply chunks_length. }
    2:{ rewrite map_length. lia. }
    2:{ exact Hj. }
    rewrite (nth_map_lt _ B k []) by lia.
    change (nth r (nth j (chunks R d (nth k B [])) []) zero) with (mnth Op (chunks R d (nth k B [])) j r).
    rewrite mnth_chunks by assumption.
    replace (j * (R * b) + (r * b + k)) with ((j * R + r) * b + k) by ring.
    rewrite vnth_ileave by (try assumption; apply lt_mul_add; assumption). reflexivity.
  Qed.

  Lemma mode_products_nil Ms (x : list F) : mode_products Op [] Ms x = x.
  Proof. reflexivity. Qed.

  (* the loop on b interleaved tensors computes the mode products of each of them (tensor index first) *)
  Lemma chain_ix_batch : forall ds Ms b (B : lmat),
    length Ms = length ds -> length B = b -> (forall r, In r B -> length r = numel ds) ->
    chain_ix Op ds Ms b (ileave b (numel ds) B) = concat (map (mode_products Op ds Ms) B).
  Proof.
    induction ds as [|d ds IH]; intros Ms b B HMs HB Hrows.
    - cbn [chain_ix]. rewrite (map_ext _ (fun x => x)) by (intros; apply mode_products_nil). rewrite map_id.
      cbn [numel fold_right] in *. unfold ileave.
      rewrite (concat_eq_tab Op B b 1 (fun p => mnth Op B p 0)).
      + replace (1 * b) with (b * 1) by lia. apply tab_ext. intros p Hp.
        rewrite Nat.mod_small, Nat.div_small by lia. reflexivity.
      + exact HB.
      + intros a Ha. apply Hrows. apply nth_In. lia.
      + intros a c Ha Hc. replace c with 0 by lia. replace (a * 1 + 0) with a by lia. reflexivity.
    - destruct Ms as [|oM Ms]; [discriminate|]. cbn [length] in HMs.
      change (numel (d :: ds)) with (d * numel ds) in *. set (R := numel ds) in *.
      assert (Hfin : forall (g : list F -> lmat),
                 (forall Bk, In Bk B -> length (g Bk) = d) ->
                 (forall Bk r, In Bk B -> In r (g Bk) -> length r = R) ->
                 chain_ix Op ds Ms (b * d) (ileave (b * d) R (concat (map g B)))
                 = concat (map (fun Bk => concat (map (mode_products Op ds Ms) (g Bk))) B)).
      { intros g Hg1 Hg2. rewrite IH.
        - rewrite concat_map, concat_concat, !map_map. reflexivity.
        - lia.
        - rewrite (concat_uniform_length _ d), map_length; [lia|].
          intros grp Hgrp. apply in_map_iff in Hgrp. destruct Hgrp as (Bk & <- & HBk). apply Hg1. exact HBk.
        - intros r Hr. apply in_concat in Hr. destruct Hr as (grp & Hgrp & Hr).
          apply in_map_iff in Hgrp. destruct Hgrp as (Bk & <- & HBk). apply (Hg2 Bk r HBk Hr). }
      destruct oM as [M|]; cbn [chain_ix mode_products]; fold R.
      + rewrite tdot_ix_ileave by assumption. apply Hfin.
        * intros. apply chunks_length.
        * intros Bk r _ Hr. apply (chunks_rows_In R d (mode0 Op d R M Bk) r); [apply mode0_length|exact Hr].
      + rewrite rot_ix_ileave by assumption. apply Hfin.
        * intros. apply chunks_length.
        * intros Bk r HBk Hr. apply (chunks_rows_In R d Bk r); [apply Hrows; exact HBk|exact Hr].
  Qed.

  Lemma ileave_one P (x : list F) : length x = P -> ileave 1 P [x] = x.
  Proof.
    intros H. unfold ileave. symmetry. apply (eq_tab Op); [lia|].
    intros i Hi. rewrite Nat.mod_1_r, Nat.div_1_r. reflexivity.
  Qed.

  Lemma sel_mats_length tr : forall sel dims (mats : list lmat), mats_fit sel dims mats -> length (sel_mats Op tr sel mats) = length dims.
  Proof.
    induction sel as [|b s IH]; intros dims mats H.
    - destruct dims; [reflexivity|contradiction].
    - destruct dims as [|d ds]; [destruct b; contradiction|]. destruct b.
      + destruct mats as [|M ms]; [contradiction|]. destruct H as [_ H]. cbn. rewrite (IH ds ms H). reflexivity.
      + cbn. rewrite (IH ds mats H). reflexivity.
  Qed.

  (* cyclic_tensordot_is_mode_product: the n-fold rotate-and-contract loop of _precondition_grad equals the product of
     the mode-k products, for every order, every selector and every scalar type (no rounding argument is involved:
     both sides perform the same scalar operations) *)
  Theorem cyclic_tensordot_is_mode_product tr sel dims (mats : list lmat) x :
    mats_fit sel dims mats -> length x = numel dims ->
    precond_chain Op tr sel mats (mkT dims x) = mkT dims (mode_products Op dims (sel_mats Op tr sel mats) x).
  Proof.
    intros Hfit Hx.
    pose proof (precond_chain_data Op tr sel dims mats [] x Hfit) as H.
    rewrite app_nil_r in H. cbn [app numel fold_right] in H. rewrite (H Hx). f_equal.
    pose proof (chain_ix_batch dims (sel_mats Op tr sel mats) 1 [x] (sel_mats_length tr sel dims mats Hfit) eq_refl) as Hb.
    rewrite ileave_one in Hb by exact Hx. rewrite Hb.
    - cbn. apply app_nil_r.
    - intros r [<-|[]]. exact Hx.
  Qed.
End CyclicLoop.

(* ====================================================================== Part 4: real numbers - linearity and the inverse rotation *)
Local Open Scope R_scope.

Section RealRotation.
  Variable rnd : R -> R.
  Local Notation RO := (R_ops rnd).
  Local Notation rsum := (sumn RO).
  Local Notation lmat := (list (list R)).

  Lemma vnth_mode0_R d P (M : lmat) y j r : (j < d)%nat -> (r < P)%nat ->
    vnth RO (mode0 RO d P M y) (j * P + r) = rsum d (fun i => vnth RO y (i * P + r) * mnth RO M i j).
  Proof. exact (vnth_mode0 RO d P M y j r). Qed.

  Lemma delta_R i j : delta RO i j = if Nat.eqb i j then 1 else 0.
  Proof. reflexivity. Qed.

  (* linear combinations of lists of length [len] *)
  Definition lc (len n : nat) (c : nat -> R) (ys : nat -> list R) : list R :=
    tab len (fun r => rsum n (fun i => c i * vnth RO (ys i) r)).
  Definition linear (len : nat) (f : list R -> list R) : Prop :=
    forall n c ys, (forall i, (i < n)%nat -> length (ys i) = len) -> f (lc len n c ys) = lc len n c (fun i => f (ys i)).

  Lemma lc_length len n c ys : length (lc len n c ys) = len.
  Proof. apply tab_length. Qed.
  Lemma vnth_lc len n c ys r : (r < len)%nat -> vnth RO (lc len n c ys) r = rsum n (fun i => c i * vnth RO (ys i) r).
  Proof. intros H. unfold lc, vnth at 1. rewrite nth_tab by exact H. reflexivity. Qed.
  Lemma lc_ext len n c ys ys' : (forall i, (i < n)%nat -> ys i = ys' i) -> lc len n c ys = lc len n c ys'.
  Proof. intros H. unfold lc. apply tab_ext. intros r _. apply sumn_ext. intros i Hi. rewrite H by exact Hi. reflexivity. Qed.

  Lemma mode_products_length : forall ds Ms (x : list R),
    length Ms = length ds -> length x = numel ds -> length (mode_products RO ds Ms x) = numel ds.
  Proof.
    induction ds as [|d ds IH]; intros Ms x HMs Hx; [exact Hx|].
    destruct Ms as [|oM Ms]; [discriminate|]. cbn [mode_products]. change (numel (d :: ds)) with (d * numel ds)%nat in *.
    rewrite (concat_uniform_length _ (numel ds)).
    - rewrite map_length, chunks_length. reflexivity.
    - intros r Hr. apply in_map_iff in Hr. destruct Hr as (row & <- & Hrow).
      apply IH; [cbn in HMs; lia|].
      refine (chunks_rows_In (numel ds) d _ row _ Hrow).
      destruct oM; [apply mode0_length|exact Hx].
  Qed.

  (* the mode-0 product of a linear combination *)
  Lemma mode0_lc d P (M : lmat) n c ys : (forall i, (i < n)%nat -> length (ys i) = (d * P)%nat) ->
    mode0 RO d P M (lc (d * P) n c ys) = lc (d * P) n c (fun k => mode0 RO d P M (ys k)).
  Proof.
    intros Hys. apply (eq_tab RO); [apply mode0_length|].
    intros p Hp. destruct (index_split d P p Hp) as (E & Hj & Hr).
    set (j := (p / P)%nat) in *. set (r := (p mod P)%nat) in *. clearbody j r. subst p.
    rewrite vnth_mode0_R by assumption.
    rewrite (sumn_ext RO d _ (fun i => rsum n (fun k => c k * (vnth RO (ys k) (i * P + r) * mnth RO M i j)))).
    2:{ intros i Hi. rewrite vnth_lc by (apply lt_mul_add; assumption). rewrite <- rsum_mult_r.
        apply sumn_ext. intros k _. ring. }
    rewrite rsum_swap. apply sumn_ext. intros k Hk. rewrite vnth_mode0_R by assumption.
    rewrite <- rsum_mult_l. reflexivity.
  Qed.

  Lemma chunks_lc d P n c zs a : (a < d)%nat ->
    nth a (chunks P d (lc (d * P) n c zs)) [] = lc P n c (fun k => nth a (chunks P d (zs k)) []).
  Proof.
    intros Ha. apply (eq_tab RO); [apply chunks_row_length; [apply lc_length|exact Ha]|].
    intros b Hb. change (vnth RO (nth a (chunks P d (lc (d * P) n c zs)) []) b) with (mnth RO (chunks P d (lc (d * P) n c zs)) a b).
    rewrite mnth_chunks by assumption. rewrite vnth_lc by (apply lt_mul_add; assumption).
    apply sumn_ext. intros k _. f_equal.
    change (vnth RO (nth a (chunks P d (zs k)) []) b) with (mnth RO (chunks P d (zs k)) a b).
    rewrite mnth_chunks by assumption. reflexivity.
  Qed.

  Lemma mode_products_linear : forall ds Ms, length Ms = length ds -> linear (numel ds) (mode_products RO ds Ms).
  Proof.
    induction ds as [|d ds IH]; intros Ms HMs n c ys Hys; [reflexivity|].
    destruct Ms as [|oM Ms]; [discriminate|]. assert (HMs' : length Ms = length ds) by (cbn in HMs; lia).
    change (numel (d :: ds)) with (d * numel ds)%nat in *. set (P := numel ds) in *.
    set (g := mode_products RO ds Ms).
    assert (Hg : forall y, length y = P -> length (g y) = P) by (intros; apply mode_products_length; assumption).
    (* step B: slices *)
    assert (HB : forall zs, (forall i, (i < n)%nat -> length (zs i) = (d * P)%nat) ->
                 concat (map g (chunks P d (lc (d * P) n c zs))) = lc (d * P) n c (fun k => concat (map g (chunks P d (zs k))))).
    { intros zs Hzs. apply (concat_eq_tab RO _ d P).
      - rewrite map_length. apply chunks_length.
      - intros a Ha. rewrite (nth_map_lt _ _ a []) by (rewrite chunks_length; exact Ha).
        apply Hg. apply chunks_row_length; [apply lc_length|exact Ha].
      - intros a b Ha Hb. unfold mnth. rewrite (nth_map_lt _ _ a []) by (rewrite chunks_length; exact Ha).
        rewrite chunks_lc by exact Ha. unfold g at 1. rewrite (IH Ms HMs' n c).
        2:{ intros i Hi. apply chunks_row_length; [apply Hzs; exact Hi|exact Ha]. }
        change (nth b ?l (f0 RO)) with (vnth RO l b). rewrite vnth_lc by exact Hb.
        apply sumn_ext. intros k Hk. f_equal. unfold vnth.
        rewrite (nth_concat_uniform _ P a b).
        + rewrite (nth_map_lt _ _ a []) by (rewrite chunks_length; exact Ha). reflexivity.
        + intros r Hr. apply in_map_iff in Hr. destruct Hr as (row & <- & Hrow). apply Hg.
          apply (chunks_rows_In P d (zs k) row); [apply Hzs; exact Hk|exact Hrow].
        + rewrite map_length, chunks_length. exact Ha.
        + exact Hb. }
    cbn [mode_products]. fold P. fold g. destruct oM as [M|].
    - rewrite mode0_lc by exact Hys. rewrite HB; [reflexivity|]. intros i Hi. apply mode0_length.
    - apply HB. exact Hys.
  Qed.

  (* slices of a mode-0 product are linear combinations of the slices *)
  Lemma mode0_row d P (M : lmat) y j : (j < d)%nat ->
    nth j (chunks P d (mode0 RO d P M y)) [] = lc P d (fun i => mnth RO M i j) (fun i => nth i (chunks P d y) []).
  Proof.
    intros Hj. apply (eq_tab RO); [apply chunks_row_length; [apply mode0_length|exact Hj]|].
    intros r Hr. change (vnth RO (nth j ?m []) r) with (mnth RO m j r).
    rewrite mnth_chunks by assumption. rewrite vnth_mode0_R by assumption.
    apply sumn_ext. intros i Hi.
    change (vnth RO (nth i (chunks P d y) []) r) with (mnth RO (chunks P d y) i r).
    rewrite mnth_chunks by assumption. ring.
  Qed.

  (* a mode-0 product commutes with a linear map applied to every slice *)
  Lemma mode0_commutes d P (M : lmat) (g : list R -> list R) (Y : lmat) :
    linear P g -> (forall y, length y = P -> length (g y) = P) ->
    length Y = d -> (forall r, In r Y -> length r = P) ->
    mode0 RO d P M (concat (map g Y)) = concat (map g (chunks P d (mode0 RO d P M (concat Y)))).
  Proof.
    intros Hlin Hlen HY Hrows.
    assert (HgY : forall r, In r (map g Y) -> length r = P).
    { intros r Hr. apply in_map_iff in Hr. destruct Hr as (y & <- & Hy). apply Hlen, Hrows, Hy. }
    rewrite <- (concat_chunks RO P d (mode0 RO d P M (concat (map g Y)))) by apply mode0_length.
    f_equal. apply (nth_ext _ _ [] []); [rewrite map_length, !chunks_length; reflexivity|].
    rewrite chunks_length. intros j Hj.
    rewrite (nth_map_lt _ _ j []) by (rewrite chunks_length; exact Hj).
    rewrite !mode0_row by exact Hj.
    rewrite Hlin.
    2:{ intros i Hi. apply chunks_row_length; [|exact Hi]. rewrite (concat_uniform_length _ P Hrows), HY. reflexivity. }
    apply lc_ext. intros i Hi.
    rewrite (chunks_concat P d (map g Y)) by (try assumption; rewrite map_length; exact HY).
    rewrite (chunks_concat P d Y) by assumption.
    apply (nth_map_lt g Y i []). lia.
  Qed.

  (* M M' = I: the mode-0 product with M' undoes the one with M *)
  Lemma mode0_inverse d P (M M' : lmat) y :
    inverse_pair RO d M M' -> length y = (d * P)%nat -> mode0 RO d P M' (mode0 RO d P M y) = y.
  Proof.
    intros Hinv Hy. unfold inverse_pair in Hinv. change (fmul RO) with Rmult in Hinv.
    symmetry. apply (eq_tab RO); [exact Hy|].
    intros p Hp. destruct (index_split d P p Hp) as (E & Hj & Hr).
    set (j := (p / P)%nat) in *. set (r := (p mod P)%nat) in *. clearbody j r. subst p.
    symmetry. change (fmul RO) with Rmult.
    rewrite (sumn_ext RO d _ (fun i => rsum d (fun k => vnth RO y (k * P + r) * (mnth RO M k i * mnth RO M' i j)))).
    2:{ intros i Hi. rewrite vnth_mode0_R by assumption. rewrite <- rsum_mult_r. apply sumn_ext. intros k _. ring. }
    rewrite rsum_swap.
    rewrite (sumn_ext RO d _ (fun k => if Nat.eqb k j then vnth RO y (k * P + r) else 0)).
    2:{ intros k Hk. rewrite rsum_mult_l. rewrite (Hinv k j Hk Hj), delta_R. destruct (Nat.eqb k j); ring. }
    rewrite (rsum_delta_r rnd d j (fun k => vnth RO y (k * P + r))) by exact Hj. reflexivity.
  Qed.

  (* rotate_back_inverse on the reference semantics, every order *)
  Theorem mode_products_inverse : forall ds Ms Ms' x,
    back_pair RO ds Ms Ms' -> length x = numel ds ->
    mode_products RO ds Ms' (mode_products RO ds Ms x) = x.
  Proof.
    induction ds as [|d ds IH]; intros Ms Ms' x Hbp Hx; [reflexivity|].
    destruct Ms as [|oM Ms]; [destruct Ms'; contradiction|].
    destruct Ms' as [|oM' Ms']; [destruct oM; contradiction|].
    change (numel (d :: ds)) with (d * numel ds)%nat in *. set (P := numel ds) in *.
    assert (Hlens : length Ms = length ds /\ length Ms' = length ds /\ back_pair RO ds Ms Ms').
    { assert (G : forall ds Ms Ms', back_pair RO ds Ms Ms' -> length Ms = length ds /\ length Ms' = length ds).
      { clear. induction ds as [|d ds IH]; intros [|[M|] Ms] [|[M'|] Ms'] H; cbn in H; try contradiction; cbn.
        - split; reflexivity.
        - destruct H as [_ H]. destruct (IH _ _ H). split; congruence.
        - destruct (IH _ _ H). split; congruence. }
      destruct oM, oM'; cbn in Hbp; try contradiction; [destruct Hbp as [_ Hbp]|]; destruct (G _ _ _ Hbp); auto. }
    destruct Hlens as (HMs & HMs' & Hbp').
    set (g := mode_products RO ds Ms). set (g' := mode_products RO ds Ms').
    assert (Hg : forall y, length y = P -> length (g y) = P) by (intros; apply mode_products_length; assumption).
    assert (Hfin : forall z, length z = (d * P)%nat -> concat (map g' (chunks P d (concat (map g (chunks P d z))))) = z).
    { intros z Hz. rewrite chunks_concat.
      - rewrite map_map. rewrite (map_ext_in _ (fun y => y)), map_id; [apply (concat_chunks RO); exact Hz|].
        intros y Hy. apply (IH Ms Ms' y Hbp'). apply (chunks_rows_In P d z y Hz Hy).
      - rewrite map_length. apply chunks_length.
      - intros r Hr. apply in_map_iff in Hr. destruct Hr as (y & <- & Hy). apply Hg. apply (chunks_rows_In P d z y Hz Hy). }
    cbn [mode_products]. fold P. fold g. fold g'.
    destruct oM as [M|], oM' as [M'|]; cbn in Hbp; try contradiction.
    - destruct Hbp as [Hinv _].
      rewrite (mode0_commutes d P M' g (chunks P d (mode0 RO d P M x))).
      + rewrite (concat_chunks RO) by apply mode0_length. rewrite mode0_inverse by assumption. apply Hfin. exact Hx.
      + apply mode_products_linear. exact HMs.
      + exact Hg.
      + apply chunks_length.
      + intros r Hr. apply (chunks_rows_In P d (mode0 RO d P M x) r); [apply mode0_length|exact Hr].
    - apply Hfin. exact Hx.
  Qed.
End RealRotation.
