(* SoapProofs.v - theorems about the SOAP (eigenvalue-corrected Shampoo) branch of Optimizer.v (property C03). *)
From Coq Require Import ZArith List Bool Arith Lia Reals Lra.
From Shampoo Require Import Scalar Matrix MatrixProofs Eigenvectors Optimizer OptimizerProofs SoapDefs.
Import ListNotations.

(* ====================================================================== Part 1: lists by index (any scalar) *)
Section Index.
  Context {F : Type} (Op : ops F).
  Local Notation zero := (f0 Op).
  Local Notation lmat := (list (list F)).

  Lemma tab_length {A} n (f : nat -> A) : length (tab n f) = n.
  Proof. unfold tab. rewrite map_length, seq_length. reflexivity. Qed.

  Lemma nth_tab {A} n (f : nat -> A) i d : i < n -> nth i (tab n f) d = f i.
  Proof. intros H. unfold tab. apply nth_map_seq. exact H. Qed.

  Lemma tab_ext {A} n (f g : nat -> A) : (forall i, i < n -> f i = g i) -> tab n f = tab n g.
  Proof. intros H. unfold tab. apply map_ext_in. intros i Hi. apply in_seq in Hi. apply H. lia. Qed.

  Lemma list_eq_tab (l : list F) : l = tab (length l) (vnth Op l).
  Proof.
    apply (nth_ext _ _ zero zero); [rewrite tab_length; reflexivity|].
    intros i Hi. rewrite nth_tab by exact Hi. reflexivity.
  Qed.

  Lemma eq_tab (l : list F) n g : length l = n -> (forall i, i < n -> vnth Op l i = g i) -> l = tab n g.
  Proof. intros Hl H. rewrite (list_eq_tab l), Hl. apply tab_ext. exact H. Qed.

  Lemma divmod_small a B j : j < B -> (a * B + j) / B = a /\ (a * B + j) mod B = j.
  Proof.
    intros H. assert (B <> 0) by lia. split.
    - rewrite Nat.div_add_l by assumption. rewrite Nat.div_small by exact H. lia.
    - rewrite Nat.add_comm, Nat.mod_add by assumption. apply Nat.mod_small. exact H.
  Qed.
  Lemma div_small' a B j : j < B -> (a * B + j) / B = a.
  Proof. intros H. apply (divmod_small a B j H). Qed.
  Lemma mod_small' a B j : j < B -> (a * B + j) mod B = j.
  Proof. intros H. apply (divmod_small a B j H). Qed.

  Lemma index_split A B i : i < A * B -> i = (i / B) * B + i mod B /\ i / B < A /\ i mod B < B.
  Proof.
    intros H. assert (B <> 0) by (destruct B; lia).
    split; [rewrite Nat.mul_comm; apply Nat.div_mod; assumption|].
    split; [apply Nat.div_lt_upper_bound; [assumption|lia]|apply Nat.mod_upper_bound; assumption].
  Qed.

  Lemma tab_ext2 {X} A B (f g : nat -> X) :
    (forall a b, a < A -> b < B -> f (a * B + b) = g (a * B + b)) -> tab (A * B) f = tab (A * B) g.
  Proof.
    intros H. apply tab_ext. intros i Hi. destruct (index_split A B i Hi) as (E & Ha & Hb).
    rewrite E. apply H; assumption.
  Qed.

  Lemma lt_mul_add a A b B : a < A -> b < B -> a * B + b < A * B.
  Proof. intros. nia. Qed.

  (* ---- firstn / skipn / chunks *)
  Lemma nth_firstn_lt {X} i n (l : list X) d : i < n -> nth i (firstn n l) d = nth i l d.
  Proof.
    revert i l. induction n as [|n IH]; intros i l H; [lia|].
    destruct l as [|a l]; [destruct i; reflexivity|]. destruct i; [reflexivity|]. cbn. apply IH. lia.
  Qed.
  Lemma nth_skipn_add {X} i n (l : list X) d : nth i (skipn n l) d = nth (n + i) l d.
  Proof.
    revert l. induction n as [|n IH]; intros l; [reflexivity|].
    destruct l as [|a l]; [destruct i; reflexivity|]. cbn. apply IH.
  Qed.

  Lemma skipn_skipn' {X} a b (l : list X) : skipn a (skipn b l) = skipn (b + a) l.
  Proof.
    revert l. induction b as [|b IH]; intros l; [reflexivity|].
    destruct l as [|x l]; [cbn; destruct a; reflexivity|]. cbn. apply IH.
  Qed.

  Lemma chunks_length n k (l : list F) : length (chunks n k l) = k.
  Proof. revert l. induction k as [|k IH]; intros l; cbn; [reflexivity|]. rewrite IH. reflexivity. Qed.

  Lemma nth_chunks n k (l : list F) i : i < k -> nth i (chunks n k l) [] = firstn n (skipn (i * n) l).
  Proof.
    revert l i. induction k as [|k IH]; intros l i H; [lia|].
    destruct i; cbn [chunks nth]; [reflexivity|].
    rewrite IH by lia. rewrite skipn_skipn'. reflexivity.
  Qed.

  Lemma mnth_chunks n k (l : list F) i j : i < k -> j < n -> mnth Op (chunks n k l) i j = vnth Op l (i * n + j).
  Proof.
    intros Hi Hj. unfold mnth, vnth. rewrite nth_chunks by exact Hi.
    rewrite nth_firstn_lt by exact Hj. apply nth_skipn_add.
  Qed.

  Lemma chunks_row_length n k (l : list F) i : length l = k * n -> i < k -> length (nth i (chunks n k l) []) = n.
  Proof.
    intros Hl Hi. rewrite nth_chunks by exact Hi. rewrite firstn_length, skipn_length. nia.
  Qed.

  Lemma chunks_rows_In n k (l : list F) r : length l = k * n -> In r (chunks n k l) -> length r = n.
  Proof.
    intros Hl Hin. destruct (In_nth _ _ [] Hin) as (i & Hi & E). rewrite chunks_length in Hi.
    rewrite <- E. apply chunks_row_length; assumption.
  Qed.

  (* ---- concat of rows of equal length *)
  Lemma concat_uniform_length {X} (rows : list (list X)) m : (forall r, In r rows -> length r = m) -> length (concat rows) = length rows * m.
  Proof.
    induction rows as [|r rows IH]; intros H; [reflexivity|]. cbn [concat length].
    rewrite app_length, IH by (intros; apply H; cbn; auto). rewrite (H r) by (cbn; auto). reflexivity.
  Qed.

  Lemma nth_concat_uniform {X} (rows : list (list X)) m a j d :
    (forall r, In r rows -> length r = m) -> a < length rows -> j < m ->
    nth (a * m + j) (concat rows) d = nth j (nth a rows []) d.
  Proof.
    revert a. induction rows as [|r rows IH]; intros a H Ha Hj; [cbn in Ha; lia|].
    assert (Hr : length r = m) by (apply H; cbn; auto).
    cbn [concat]. destruct a as [|a].
    - cbn [nth Nat.mul Nat.add]. apply app_nth1. lia.
    - rewrite app_nth2 by (rewrite Hr; cbn; lia). cbn [nth].
      replace (S a * m + j - length r) with (a * m + j) by (rewrite Hr; cbn; lia).
      apply IH; [intros; apply H; cbn; auto|cbn in Ha; lia|exact Hj].
  Qed.

  Lemma concat_eq_tab (rows : lmat) A B g :
    length rows = A -> (forall a, a < A -> length (nth a rows []) = B) ->
    (forall a b, a < A -> b < B -> mnth Op rows a b = g (a * B + b)) ->
    concat rows = tab (A * B) g.
  Proof.
    intros HA HB Hg.
    assert (Hin : forall r, In r rows -> length r = B).
    { intros r Hr. destruct (In_nth _ _ [] Hr) as (i & Hi & E). rewrite <- E. apply HB. lia. }
    apply eq_tab; [rewrite (concat_uniform_length rows B Hin), HA; reflexivity|].
    intros i Hi. destruct (index_split A B i Hi) as (E & Ha & Hb).
    set (a := i / B) in *. set (b := i mod B) in *. clearbody a b. subst i. unfold vnth.
    rewrite (nth_concat_uniform rows B) by (try assumption; lia). apply Hg; assumption.
  Qed.

  Lemma concat_chunks n k (l : list F) : length l = k * n -> concat (chunks n k l) = l.
  Proof.
    intros Hl. rewrite (concat_eq_tab (chunks n k l) k n (vnth Op l)).
    - rewrite <- Hl. symmetry. apply list_eq_tab.
    - apply chunks_length.
    - intros a Ha. apply chunks_row_length; assumption.
    - intros a b Ha Hb. apply mnth_chunks; assumption.
  Qed.

  Lemma chunks_concat n k (rows : lmat) : length rows = k -> (forall r, In r rows -> length r = n) -> chunks n k (concat rows) = rows.
  Proof.
    revert rows. induction k as [|k IH]; intros rows Hk Hn.
    - destruct rows; [reflexivity|discriminate].
    - destruct rows as [|r rows]; [discriminate|]. cbn [concat chunks].
      assert (Hr : length r = n) by (apply Hn; cbn; auto).
      assert (Hrest : forall r', In r' rows -> length r' = length r) by (intros; rewrite Hr; apply Hn; cbn; auto).
      clear Hn. subst n.
      rewrite firstn_app, skipn_app, Nat.sub_diag, firstn_all, skipn_all. cbn [firstn skipn app]. rewrite app_nil_r.
      f_equal. apply IH; [cbn in Hk; lia|exact Hrest].
  Qed.

  (* ---- sums *)
  Lemma fold_left_sumn (l : list F) : fold_left (fadd Op) l zero = sumn Op (length l) (fun i => nth i l zero).
  Proof.
    induction l as [|a l IH] using rev_ind; [reflexivity|].
    rewrite fold_left_app, app_length, Nat.add_comm. cbn [length Nat.add fold_left sumn].
    rewrite IH. f_equal.
    - apply sumn_ext. intros k Hk. rewrite app_nth1 by exact Hk. reflexivity.
    - rewrite app_nth2 by lia. rewrite Nat.sub_diag. reflexivity.
  Qed.

  Lemma map2_length {A B C} (f : A -> B -> C) l1 l2 : length l1 = length l2 -> length (map2 f l1 l2) = length l1.
  Proof. revert l2. induction l1 as [|a l1 IH]; intros [|b l2] H; cbn in *; try lia. rewrite IH by lia. reflexivity. Qed.

  Lemma dot_sumn (a b : list F) n : length a = n -> length b = n ->
    dot Op a b = sumn Op n (fun i => fmul Op (vnth Op a i) (vnth Op b i)).
  Proof.
    intros Ha Hb. unfold dot. rewrite fold_left_sumn, map2_length, Ha by lia.
    apply sumn_ext. intros k Hk. unfold vnth. apply nth_map2; lia.
  Qed.
End Index.

(* ====================================================================== Part 2: the tensor operations of Optimizer.v by index *)
Section TensorOps.
  Context {F : Type} (Op : ops F).
  Local Notation zero := (f0 Op).
  Local Notation lmat := (list (list F)).

  Lemma map_tab {A B} (f : A -> B) n g : map f (tab n g) = tab n (fun i => f (g i)).
  Proof. unfold tab. apply map_map. Qed.

  Lemma col_length j (m : lmat) : length (col Op j m) = length m.
  Proof. unfold col. apply map_length. Qed.

  Lemma vnth_col j (m : lmat) i : i < length m -> vnth Op (col Op j m) i = mnth Op m i j.
  Proof.
    intros H. unfold col, vnth, mnth.
    rewrite (nth_indep _ zero ((fun r => nth j r zero) [])) by (rewrite map_length; exact H).
    rewrite (map_nth (fun r => nth j r zero)). reflexivity.
  Qed.

  Lemma mtrans_length ncols (m : lmat) : length (mtrans Op ncols m) = ncols.
  Proof. unfold mtrans. rewrite map_length, seq_length. reflexivity. Qed.

  Lemma mnth_mtrans ncols (m : lmat) i j : j < ncols -> i < length m -> mnth Op (mtrans Op ncols m) j i = mnth Op m i j.
  Proof.
    intros Hj Hi. unfold mnth at 1. change (mtrans Op ncols m) with (tab ncols (fun j => col Op j m)).
    rewrite nth_tab by exact Hj. apply vnth_col. exact Hi.
  Qed.

  Lemma numel_app a b : numel (a ++ b) = numel a * numel b.
  Proof.
    unfold numel. induction a as [|x a IH]; cbn [app fold_right]; [lia|]. rewrite IH. apply Nat.mul_assoc.
  Qed.

  Lemma tdot_ix_length d R m M x : length (tdot_ix Op d R m M x) = R * m.
  Proof. apply tab_length. Qed.
  Lemma rot_ix_length d R x : length (rot_ix Op d R x) = R * d.
  Proof. apply tab_length. Qed.
  Lemma mode0_length d P M y : length (mode0 Op d P M y) = d * P.
  Proof. apply tab_length. Qed.

  Lemma vnth_mode0 d P (M : lmat) y j r : j < d -> r < P ->
    vnth Op (mode0 Op d P M y) (j * P + r) = sumn Op d (fun i => fmul Op (vnth Op y (i * P + r)) (mnth Op M i j)).
  Proof.
    intros Hj Hr. unfold mode0, vnth at 1. rewrite nth_tab by (apply lt_mul_add; assumption).
    rewrite div_small', mod_small' by exact Hr. reflexivity.
  Qed.
  Lemma vnth_tdot_ix d R m (M : lmat) x q j : q < R -> j < m ->
    vnth Op (tdot_ix Op d R m M x) (q * m + j) = sumn Op d (fun i => fmul Op (vnth Op x (i * R + q)) (mnth Op M i j)).
  Proof.
    intros Hq Hj. unfold tdot_ix, vnth at 1. rewrite nth_tab by (apply lt_mul_add; assumption).
    rewrite div_small', mod_small' by exact Hj. reflexivity.
  Qed.
  Lemma vnth_rot_ix d R x q i : q < R -> i < d -> vnth Op (rot_ix Op d R x) (q * d + i) = vnth Op x (i * R + q).
  Proof.
    intros Hq Hi. unfold rot_ix, vnth at 1. rewrite nth_tab by (apply lt_mul_add; assumption).
    rewrite div_small', mod_small' by exact Hi. reflexivity.
  Qed.

  (* torch.tensordot(t, M, ([0],[0])) *)
  Lemma tdot0_data d0 rest x m (M : lmat) :
    length x = d0 * numel rest -> length M = d0 ->
    tdot0 Op (mkT (d0 :: rest) x) m M = mkT (rest ++ [m]) (tdot_ix Op d0 (numel rest) m M x).
  Proof.
    intros Hx HM. unfold tdot0. cbn [tsh tdat]. f_equal.
    set (R := numel rest). set (X := chunks R d0 x).
    assert (HX : length X = d0) by apply chunks_length.
    unfold mmul. change (mtrans Op R X) with (tab R (fun q => col Op q X)).
    change (mtrans Op m M) with (tab m (fun j => col Op j M)).
    rewrite map_tab. unfold tdot_ix.
    apply (concat_eq_tab Op _ R m).
    - apply tab_length.
    - intros a Ha. rewrite nth_tab by exact Ha. rewrite map_tab. apply tab_length.
    - intros a b Ha Hb. unfold mnth. rewrite nth_tab by exact Ha. rewrite map_tab, nth_tab by exact Hb.
      rewrite (dot_sumn Op _ _ d0) by (rewrite col_length; assumption).
      rewrite div_small', mod_small' by exact Hb.
      apply sumn_ext. intros i Hi. rewrite !vnth_col by lia. f_equal.
      unfold X. apply mnth_chunks; assumption.
  Qed.

  (* t.permute(1, ..., n-1, 0) *)
  Lemma rotl_data d0 rest x :
    length x = d0 * numel rest ->
    rotl Op (mkT (d0 :: rest) x) = mkT (rest ++ [d0]) (rot_ix Op d0 (numel rest) x).
  Proof.
    intros Hx. unfold rotl. cbn [tsh tdat]. f_equal.
    set (R := numel rest). set (X := chunks R d0 x).
    assert (HX : length X = d0) by apply chunks_length.
    change (mtrans Op R X) with (tab R (fun q => col Op q X)). unfold rot_ix.
    apply (concat_eq_tab Op _ R d0).
    - apply tab_length.
    - intros a Ha. rewrite nth_tab by exact Ha. rewrite col_length. exact HX.
    - intros a b Ha Hb. unfold mnth. rewrite nth_tab by exact Ha.
      change (nth b (col Op a X) zero) with (vnth Op (col Op a X) b). rewrite vnth_col by lia.
      rewrite div_small', mod_small' by exact Hb. unfold X. apply mnth_chunks; assumption.
  Qed.

  (* the loop of _precondition_grad on a tensor whose first modes are [dims]; [tail] = modes already processed *)
  Lemma precond_chain_data tr : forall sel dims mats tail x,
    mats_fit sel dims mats -> length x = numel (dims ++ tail) ->
    precond_chain Op tr sel mats (mkT (dims ++ tail) x)
    = mkT (tail ++ dims) (chain_ix Op dims (sel_mats Op tr sel mats) (numel tail) x).
  Proof.
    induction sel as [|b s IH]; intros dims mats tail x Hfit Hx.
    - destruct dims; [|contradiction]. cbn. rewrite app_nil_r. reflexivity.
    - destruct dims as [|d ds]; [destruct b; contradiction|].
      rewrite numel_app in Hx. cbn [numel fold_right] in Hx. fold (numel ds) in Hx.
      destruct b.
      + destruct mats as [|M ms]; [contradiction|]. destruct Hfit as [HM Hfit].
        cbn [precond_chain sel_mats chain_ix]. rewrite HM.
        set (M' := if tr then mtrans Op d M else M).
        assert (HM' : length M' = d) by (unfold M'; destruct tr; [apply mtrans_length|exact HM]).
        assert (E : (if tr then tdot0T Op (mkT ((d :: ds) ++ tail) x) d M else tdot0 Op (mkT ((d :: ds) ++ tail) x) d M)
                    = mkT (ds ++ (tail ++ [d])) (tdot_ix Op d (numel ds * numel tail) d M' x)).
        { unfold tdot0T, M'. cbn [app]. rewrite <- numel_app, app_assoc.
          destruct tr; apply tdot0_data; try assumption; try (apply mtrans_length);
            rewrite numel_app; lia. }
        rewrite E. rewrite IH; [|exact Hfit|rewrite tdot_ix_length, !numel_app; cbn; lia].
        rewrite <- app_assoc. cbn [app]. rewrite numel_app. cbn [numel fold_right]. rewrite Nat.mul_1_r. reflexivity.
      + cbn [precond_chain sel_mats chain_ix]. cbn in Hfit.
        assert (E : rotl Op (mkT ((d :: ds) ++ tail) x) = mkT (ds ++ (tail ++ [d])) (rot_ix Op d (numel ds * numel tail) x)).
        { cbn [app]. rewrite <- numel_app, app_assoc. apply rotl_data. rewrite numel_app. lia. }
        rewrite E. rewrite IH; [|exact Hfit|rewrite rot_ix_length, !numel_app; cbn; lia].
        rewrite <- app_assoc. cbn [app]. rewrite numel_app. cbn [numel fold_right]. rewrite Nat.mul_1_r. reflexivity.
  Qed.
End TensorOps.

(* ====================================================================== Part 3: the cyclic loop = product of mode products (any scalar) *)
Section CyclicLoop.
  Context {F : Type} (Op : ops F).
  Local Notation zero := (f0 Op).
  Local Notation lmat := (list (list F)).

  (* b tensors of P entries each, stored with the tensor index as LAST mode: out[q*b + k] = B_k[q] *)
  Definition ileave (b P : nat) (B : lmat) : list F := tab (P * b) (fun p => mnth Op B (p mod b) (p / b)).

  Lemma nth_map_lt {A B} (f : A -> B) l i d d' : i < length l -> nth i (map f l) d' = f (nth i l d).
  Proof. intros H. rewrite (nth_indep _ d' (f d)) by (rewrite map_length; exact H). apply map_nth. Qed.

  Lemma concat_concat {X} (l : list (list (list X))) : concat (concat l) = concat (map (@concat X) l).
  Proof. induction l as [|a l IH]; [reflexivity|]. cbn. rewrite concat_app, IH. reflexivity. Qed.

  Lemma vnth_ileave b P B q k : q < P -> k < b -> vnth Op (ileave b P B) (q * b + k) = mnth Op B k q.
  Proof.
    intros Hq Hk. unfold ileave, vnth. rewrite nth_tab by (apply lt_mul_add; assumption).
    rewrite div_small', mod_small' by exact Hk. reflexivity.
  Qed.

  (* one contraction step on b interleaved tensors = the mode-0 product of each, re-interleaved with b*d slices *)
  Lemma tdot_ix_ileave d R b (M : lmat) (B : lmat) :
    length B = b -> (forall r, In r B -> length r = d * R) ->
    tdot_ix Op d (R * b) d M (ileave b (d * R) B)
    = ileave (b * d) R (concat (map (fun Bk => chunks R d (mode0 Op d R M Bk)) B)).
  Proof.
    intros HB Hrows. unfold tdot_ix, ileave at 2.
    replace (R * b * d) with (R * (b * d)) by ring.
    apply tab_ext2. intros r s Hr Hs.
    destruct (index_split b d s Hs) as (Es & Hk & Hj).
    set (k := s / d) in *. set (j := s mod d) in *. clearbody k j. subst s.
    rewrite div_small', mod_small' by (apply lt_mul_add; assumption).
    replace (r * (b * d) + (k * d + j)) with ((r * b + k) * d + j) by ring.
    rewrite div_small', mod_small' by exact Hj.
    (* right-hand side *)
    unfold mnth at 2.
    rewrite (nth_concat_uniform _ d k j []).
    2:{ intros g Hg. apply in_map_iff in Hg. destruct Hg as (Bk & <- & _). apply chunks_length. }
    2:{ rewrite map_length. lia. }
    2:{ exact Hj. }
    rewrite (nth_map_lt _ B k []) by lia.
    change (nth r (nth j (chunks R d (mode0 Op d R M (nth k B []))) []) zero)
      with (mnth Op (chunks R d (mode0 Op d R M (nth k B []))) j r).
    rewrite mnth_chunks by assumption. rewrite vnth_mode0 by assumption.
    apply sumn_ext. intros i Hi. f_equal.
    replace (i * (R * b) + (r * b + k)) with ((i * R + r) * b + k) by ring.
    rewrite vnth_ileave by (try assumption; apply lt_mul_add; assumption). reflexivity.
  Qed.

  Lemma rot_ix_ileave d R b (B : lmat) :
    length B = b -> (forall r, In r B -> length r = d * R) ->
    rot_ix Op d (R * b) (ileave b (d * R) B) = ileave (b * d) R (concat (map (fun Bk => chunks R d Bk) B)).
  Proof.
    intros HB Hrows. unfold rot_ix, ileave at 2.
    replace (R * b * d) with (R * (b * d)) by ring.
    apply tab_ext2. intros r s Hr Hs.
    destruct (index_split b d s Hs) as (Es & Hk & Hj).
    set (k := s / d) in *. set (j := s mod d) in *. clearbody k j. subst s.
    rewrite div_small', mod_small' by (apply lt_mul_add; assumption).
    replace (r * (b * d) + (k * d + j)) with ((r * b + k) * d + j) by ring.
    rewrite div_small', mod_small' by exact Hj.
    unfold mnth at 1.
    rewrite (nth_concat_uniform _ d k j []).
    2:{ intros g Hg. apply in_map_iff in Hg. destruct Hg as (Bk & <- & _). apply chunks_length. }
    2:{ rewrite map_length. lia. }
    2:{ exact Hj. }
    rewrite (nth_map_lt _ B k []) by lia.
    change (nth r (nth j (chunks R d (nth k B [])) []) zero) with (mnth Op (chunks R d (nth k B [])) j r).
    rewrite mnth_chunks by assumption.
    replace (j * (R * b) + (r * b + k)) with ((j * R + r) * b + k) by ring.
    rewrite vnth_ileave by (try assumption; apply lt_mul_add; assumption). reflexivity.
  Qed.

  Lemma mode_products_nil Ms (x : list F) : mode_products Op [] Ms x = x.
  Proof. reflexivity. Qed.

  (* the loop on b interleaved tensors computes the mode products of each of them (tensor index first) *)
  Lemma chain_ix_batch : forall ds Ms b (B : lmat),
    length Ms = length ds -> length B = b -> (forall r, In r B -> length r = numel ds) ->
    chain_ix Op ds Ms b (ileave b (numel ds) B) = concat (map (mode_products Op ds Ms) B).
  Proof.
    induction ds as [|d ds IH]; intros Ms b B HMs HB Hrows.
    - cbn [chain_ix]. rewrite (map_ext _ (fun x => x)) by (intros; apply mode_products_nil). rewrite map_id.
      cbn [numel fold_right] in *. unfold ileave.
      rewrite (concat_eq_tab Op B b 1 (fun p => mnth Op B p 0)).
      + replace (1 * b) with (b * 1) by lia. apply tab_ext. intros p Hp.
        rewrite Nat.mod_small, Nat.div_small by lia. reflexivity.
      + exact HB.
      + intros a Ha. apply Hrows. apply nth_In. lia.
      + intros a c Ha Hc. replace c with 0 by lia. replace (a * 1 + 0) with a by lia. reflexivity.
    - destruct Ms as [|oM Ms]; [discriminate|]. cbn [length] in HMs.
      change (numel (d :: ds)) with (d * numel ds) in *. set (R := numel ds) in *.
      assert (Hfin : forall (g : list F -> lmat),
                 (forall Bk, In Bk B -> length (g Bk) = d) ->
                 (forall Bk r, In Bk B -> In r (g Bk) -> length r = R) ->
                 chain_ix Op ds Ms (b * d) (ileave (b * d) R (concat (map g B)))
                 = concat (map (fun Bk => concat (map (mode_products Op ds Ms) (g Bk))) B)).
      { intros g Hg1 Hg2. rewrite IH.
        - rewrite concat_map, concat_concat, !map_map. reflexivity.
        - lia.
        - rewrite (concat_uniform_length _ d), map_length; [lia|].
          intros grp Hgrp. apply in_map_iff in Hgrp. destruct Hgrp as (Bk & <- & HBk). apply Hg1. exact HBk.
        - intros r Hr. apply in_concat in Hr. destruct Hr as (grp & Hgrp & Hr).
          apply in_map_iff in Hgrp. destruct Hgrp as (Bk & <- & HBk). apply (Hg2 Bk r HBk Hr). }
      destruct oM as [M|]; cbn [chain_ix mode_products]; fold R.
      + rewrite tdot_ix_ileave by assumption. apply Hfin.
        * intros. apply chunks_length.
        * intros Bk r _ Hr. apply (chunks_rows_In R d _ r); [apply mode0_length|exact Hr].
      + rewrite rot_ix_ileave by assumption. apply Hfin.
        * intros. apply chunks_length.
        * intros Bk r HBk Hr. apply (chunks_rows_In R d _ r); [apply Hrows; exact HBk|exact Hr].
  Qed.

  Lemma ileave_one P (x : list F) : length x = P -> ileave 1 P [x] = x.
  Proof.
    intros H. unfold ileave. symmetry. apply eq_tab; [lia|].
    intros i Hi. rewrite Nat.mod_1_r, Nat.div_1_r. reflexivity.
  Qed.

  Lemma sel_mats_length tr : forall sel dims (mats : list lmat), mats_fit sel dims mats -> length (sel_mats Op tr sel mats) = length dims.
  Proof.
    induction sel as [|b s IH]; intros dims mats H.
    - destruct dims; [reflexivity|contradiction].
    - destruct dims as [|d ds]; [destruct b; contradiction|]. destruct b.
      + destruct mats as [|M ms]; [contradiction|]. destruct H as [_ H]. cbn. rewrite (IH ds ms H). reflexivity.
      + cbn. rewrite (IH ds mats H). reflexivity.
  Qed.

  (* cyclic_tensordot_is_mode_product: the n-fold rotate-and-contract loop of _precondition_grad equals the product of
     the mode-k products, for every order, every selector and every scalar type (no rounding argument is involved:
     both sides perform the same scalar operations) *)
  Theorem cyclic_tensordot_is_mode_product tr sel dims (mats : list lmat) x :
    mats_fit sel dims mats -> length x = numel dims ->
    precond_chain Op tr sel mats (mkT dims x) = mkT dims (mode_products Op dims (sel_mats Op tr sel mats) x).
  Proof.
    intros Hfit Hx.
    pose proof (precond_chain_data Op tr sel dims mats [] x Hfit) as H.
    rewrite app_nil_r in H. cbn [app numel fold_right] in H. rewrite (H Hx). f_equal.
    pose proof (chain_ix_batch dims (sel_mats Op tr sel mats) 1 [x] (sel_mats_length tr sel dims mats Hfit) eq_refl) as Hb.
    rewrite ileave_one in Hb by exact Hx. rewrite Hb.
    - cbn. apply app_nil_r.
    - intros r [<-|[]]. exact Hx.
  Qed.
End CyclicLoop.
