(* SoapProofs.v - theorems about the SOAP (eigenvalue-corrected Shampoo) branch of Optimizer.v (property C03). *)
From Coq Require Import ZArith List Bool Arith Lia Reals Lra.
From Shampoo Require Import Scalar Matrix MatrixProofs Eigenvectors EigenvectorsProofs Optimizer OptimizerProofs SoapDefs.
Import ListNotations.

(* ====================================================================== Part 1: lists by index (any scalar) *)
Section Index.
  Context {F : Type} (Op : ops F).
  Local Notation zero := (f0 Op).
  Local Notation lmat := (list (list F)).

  Lemma tab_length {A} n (f : nat -> A) : length (tab n f) = n.
  Proof. unfold tab. rewrite map_length, seq_length. reflexivity. Qed.

  Lemma nth_tab {A} n (f : nat -> A) i d : i < n -> nth i (tab n f) d = f i.
  Proof. intros H. unfold tab. apply nth_map_seq. exact H. Qed.

  Lemma tab_ext {A} n (f g : nat -> A) : (forall i, i < n -> f i = g i) -> tab n f = tab n g.
  Proof. intros H. unfold tab. apply map_ext_in. intros i Hi. apply in_seq in Hi. apply H. lia. Qed.

  Lemma list_eq_tab (l : list F) : l = tab (length l) (vnth Op l).
  Proof.
    apply (nth_ext _ _ zero zero); [rewrite tab_length; reflexivity|].
    intros i Hi. rewrite nth_tab by exact Hi. reflexivity.
  Qed.

  Lemma eq_tab (l : list F) n g : length l = n -> (forall i, i < n -> vnth Op l i = g i) -> l = tab n g.
  Proof. intros Hl H. rewrite (list_eq_tab l), Hl. apply tab_ext. exact H. Qed.

  Lemma divmod_small a B j : j < B -> (a * B + j) / B = a /\ (a * B + j) mod B = j.
  Proof.
    intros H. assert (B <> 0) by lia. split.
    - rewrite Nat.div_add_l by assumption. rewrite Nat.div_small by exact H. lia.
    - rewrite Nat.add_comm, Nat.mod_add by assumption. apply Nat.mod_small. exact H.
  Qed.
  Lemma div_small' a B j : j < B -> (a * B + j) / B = a.
  Proof. intros H. apply (divmod_small a B j H). Qed.
  Lemma mod_small' a B j : j < B -> (a * B + j) mod B = j.
  Proof. intros H. apply (divmod_small a B j H). Qed.

  Lemma index_split A B i : i < A * B -> i = (i / B) * B + i mod B /\ i / B < A /\ i mod B < B.
  Proof.
    intros H. assert (B <> 0) by (destruct B; lia).
    split; [rewrite Nat.mul_comm; apply Nat.div_mod; assumption|].
    split; [apply Nat.div_lt_upper_bound; [assumption|lia]|apply Nat.mod_upper_bound; assumption].
  Qed.

  Lemma tab_ext2 {X} A B (f g : nat -> X) :
    (forall a b, a < A -> b < B -> f (a * B + b) = g (a * B + b)) -> tab (A * B) f = tab (A * B) g.
  Proof.
    intros H. apply tab_ext. intros i Hi. destruct (index_split A B i Hi) as (E & Ha & Hb).
    rewrite E. apply H; assumption.
  Qed.

  Lemma lt_mul_add a A b B : a < A -> b < B -> a * B + b < A * B.
  Proof. intros. nia. Qed.

  (* ---- firstn / skipn / chunks *)
  Lemma nth_firstn_lt {X} i n (l : list X) d : i < n -> nth i (firstn n l) d = nth i l d.
  Proof.
    revert i l. induction n as [|n IH]; intros i l H; [lia|].
    destruct l as [|a l]; [destruct i; reflexivity|]. destruct i; [reflexivity|]. cbn. apply IH. lia.
  Qed.
  Lemma nth_skipn_add {X} i n (l : list X) d : nth i (skipn n l) d = nth (n + i) l d.
  Proof.
    revert l. induction n as [|n IH]; intros l; [reflexivity|].
    destruct l as [|a l]; [destruct i; reflexivity|]. cbn. apply IH.
  Qed.

  Lemma skipn_skipn' {X} a b (l : list X) : skipn a (skipn b l) = skipn (b + a) l.
  Proof.
    revert l. induction b as [|b IH]; intros l; [reflexivity|].
    destruct l as [|x l]; [cbn; destruct a; reflexivity|]. cbn. apply IH.
  Qed.

  Lemma chunks_length n k (l : list F) : length (chunks n k l) = k.
  Proof. revert l. induction k as [|k IH]; intros l; cbn; [reflexivity|]. rewrite IH. reflexivity. Qed.

  Lemma nth_chunks n k (l : list F) i : i < k -> nth i (chunks n k l) [] = firstn n (skipn (i * n) l).
  Proof.
    revert l i. induction k as [|k IH]; intros l i H; [lia|].
    destruct i; cbn [chunks nth]; [reflexivity|].
    rewrite IH by lia. rewrite skipn_skipn'. reflexivity.
  Qed.

  Lemma mnth_chunks n k (l : list F) i j : i < k -> j < n -> mnth Op (chunks n k l) i j = vnth Op l (i * n + j).
  Proof.
    intros Hi Hj. unfold mnth, vnth. rewrite nth_chunks by exact Hi.
    rewrite nth_firstn_lt by exact Hj. apply nth_skipn_add.
  Qed.

  Lemma chunks_row_length n k (l : list F) i : length l = k * n -> i < k -> length (nth i (chunks n k l) []) = n.
  Proof.
    intros Hl Hi. rewrite nth_chunks by exact Hi. rewrite firstn_length, skipn_length. nia.
  Qed.

  Lemma chunks_rows_In n k (l : list F) r : length l = k * n -> In r (chunks n k l) -> length r = n.
  Proof.
    intros Hl Hin. destruct (In_nth _ _ [] Hin) as (i & Hi & E). rewrite chunks_length in Hi.
    rewrite <- E. apply chunks_row_length; assumption.
  Qed.

  (* ---- concat of rows of equal length *)
  Lemma concat_uniform_length {X} (rows : list (list X)) m : (forall r, In r rows -> length r = m) -> length (concat rows) = length rows * m.
  Proof.
    induction rows as [|r rows IH]; intros H; [reflexivity|]. cbn [concat length].
    rewrite app_length, IH by (intros; apply H; cbn; auto). rewrite (H r) by (cbn; auto). reflexivity.
  Qed.

  Lemma nth_concat_uniform {X} (rows : list (list X)) m a j d :
    (forall r, In r rows -> length r = m) -> a < length rows -> j < m ->
    nth (a * m + j) (concat rows) d = nth j (nth a rows []) d.
  Proof.
    revert a. induction rows as [|r rows IH]; intros a H Ha Hj; [cbn in Ha; lia|].
    assert (Hr : length r = m) by (apply H; cbn; auto).
    cbn [concat]. destruct a as [|a].
    - cbn [nth Nat.mul Nat.add]. apply app_nth1. lia.
    - rewrite app_nth2 by (rewrite Hr; cbn; lia). cbn [nth].
      replace (S a * m + j - length r) with (a * m + j) by (rewrite Hr; cbn; lia).
      apply IH; [intros; apply H; cbn; auto|cbn in Ha; lia|exact Hj].
  Qed.

  Lemma concat_eq_tab (rows : lmat) A B g :
    length rows = A -> (forall a, a < A -> length (nth a rows []) = B) ->
    (forall a b, a < A -> b < B -> mnth Op rows a b = g (a * B + b)) ->
    concat rows = tab (A * B) g.
  Proof.
    intros HA HB Hg.
    assert (Hin : forall r, In r rows -> length r = B).
    { intros r Hr. destruct (In_nth _ _ [] Hr) as (i & Hi & E). rewrite <- E. apply HB. lia. }
    apply eq_tab; [rewrite (concat_uniform_length rows B Hin), HA; reflexivity|].
    intros i Hi. destruct (index_split A B i Hi) as (E & Ha & Hb).
    set (a := i / B) in *. set (b := i mod B) in *. clearbody a b. subst i. unfold vnth.
    rewrite (nth_concat_uniform rows B) by (try assumption; lia). apply Hg; assumption.
  Qed.

  Lemma concat_chunks n k (l : list F) : length l = k * n -> concat (chunks n k l) = l.
  Proof.
    intros Hl. rewrite (concat_eq_tab (chunks n k l) k n (vnth Op l)).
    - rewrite <- Hl. symmetry. apply list_eq_tab.
    - apply chunks_length.
    - intros a Ha. apply chunks_row_length; assumption.
    - intros a b Ha Hb. apply mnth_chunks; assumption.
  Qed.

  Lemma chunks_concat n k (rows : lmat) : length rows = k -> (forall r, In r rows -> length r = n) -> chunks n k (concat rows) = rows.
  Proof.
    revert rows. induction k as [|k IH]; intros rows Hk Hn.
    - destruct rows; [reflexivity|discriminate].
    - destruct rows as [|r rows]; [discriminate|]. cbn [concat chunks].
      assert (Hr : length r = n) by (apply Hn; cbn; auto).
      assert (Hrest : forall r', In r' rows -> length r' = length r) by (intros; rewrite Hr; apply Hn; cbn; auto).
      clear Hn. subst n.
      rewrite firstn_app, skipn_app, Nat.sub_diag, firstn_all, skipn_all. cbn [firstn skipn app]. rewrite app_nil_r.
      f_equal. apply IH; [cbn in Hk; lia|exact Hrest].
  Qed.

  (* ---- sums *)
  Lemma fold_left_sumn (l : list F) : fold_left (fadd Op) l zero = sumn Op (length l) (fun i => nth i l zero).
  Proof.
    induction l as [|a l IH] using rev_ind; [reflexivity|].
    rewrite fold_left_app, app_length, Nat.add_comm. cbn [length Nat.add fold_left sumn].
    rewrite IH. f_equal.
    - apply sumn_ext. intros k Hk. rewrite app_nth1 by exact Hk. reflexivity.
    - rewrite app_nth2 by lia. rewrite Nat.sub_diag. reflexivity.
  Qed.

  Lemma map2_length {A B C} (f : A -> B -> C) l1 l2 : length l1 = length l2 -> length (map2 f l1 l2) = length l1.
  Proof. revert l2. induction l1 as [|a l1 IH]; intros [|b l2] H; cbn in *; try lia. rewrite IH by lia. reflexivity. Qed.

  Lemma dot_sumn (a b : list F) n : length a = n -> length b = n ->
    dot Op a b = sumn Op n (fun i => fmul Op (vnth Op a i) (vnth Op b i)).
  Proof.
    intros Ha Hb. unfold dot. rewrite fold_left_sumn, map2_length, Ha by lia.
    apply sumn_ext. intros k Hk. unfold vnth. apply nth_map2; lia.
  Qed.
End Index.

(* ====================================================================== Part 2: the tensor operations of Optimizer.v by index *)
Section TensorOps.
  Context {F : Type} (Op : ops F).
  Local Notation zero := (f0 Op).
  Local Notation lmat := (list (list F)).

  Lemma map_tab {A B} (f : A -> B) n g : map f (tab n g) = tab n (fun i => f (g i)).
  Proof. unfold tab. apply map_map. Qed.

  Lemma col_length j (m : lmat) : length (col Op j m) = length m.
  Proof. unfold col. apply map_length. Qed.

  Lemma vnth_col j (m : lmat) i : i < length m -> vnth Op (col Op j m) i = mnth Op m i j.
  Proof.
    intros H. unfold col, vnth, mnth.
    rewrite (nth_indep _ zero ((fun r => nth j r zero) [])) by (rewrite map_length; exact H).
    rewrite (map_nth (fun r => nth j r zero)). reflexivity.
  Qed.

  Lemma mtrans_length ncols (m : lmat) : length (mtrans Op ncols m) = ncols.
  Proof. unfold mtrans. rewrite map_length, seq_length. reflexivity. Qed.

  Lemma mnth_mtrans ncols (m : lmat) i j : j < ncols -> i < length m -> mnth Op (mtrans Op ncols m) j i = mnth Op m i j.
  Proof.
    intros Hj Hi. unfold mnth at 1. change (mtrans Op ncols m) with (tab ncols (fun j => col Op j m)).
    rewrite nth_tab by exact Hj. apply vnth_col. exact Hi.
  Qed.

  Lemma numel_app a b : numel (a ++ b) = numel a * numel b.
  Proof.
    unfold numel. induction a as [|x a IH]; cbn [app fold_right]; [lia|]. rewrite IH. apply Nat.mul_assoc.
  Qed.

  Lemma tdot_ix_length d R m M x : length (tdot_ix Op d R m M x) = R * m.
  Proof. apply tab_length. Qed.
  Lemma rot_ix_length d R x : length (rot_ix Op d R x) = R * d.
  Proof. apply tab_length. Qed.
  Lemma mode0_length d P M y : length (mode0 Op d P M y) = d * P.
  Proof. apply tab_length. Qed.

  Lemma vnth_mode0 d P (M : lmat) y j r : j < d -> r < P ->
    vnth Op (mode0 Op d P M y) (j * P + r) = sumn Op d (fun i => fmul Op (vnth Op y (i * P + r)) (mnth Op M i j)).
  Proof.
    intros Hj Hr. unfold mode0, vnth at 1. rewrite nth_tab by (apply lt_mul_add; assumption).
    rewrite div_small', mod_small' by exact Hr. reflexivity.
  Qed.
  Lemma vnth_tdot_ix d R m (M : lmat) x q j : q < R -> j < m ->
    vnth Op (tdot_ix Op d R m M x) (q * m + j) = sumn Op d (fun i => fmul Op (vnth Op x (i * R + q)) (mnth Op M i j)).
  Proof.
    intros Hq Hj. unfold tdot_ix, vnth at 1. rewrite nth_tab by (apply lt_mul_add; assumption).
    rewrite div_small', mod_small' by exact Hj. reflexivity.
  Qed.
  Lemma vnth_rot_ix d R x q i : q < R -> i < d -> vnth Op (rot_ix Op d R x) (q * d + i) = vnth Op x (i * R + q).
  Proof.
    intros Hq Hi. unfold rot_ix, vnth at 1. rewrite nth_tab by (apply lt_mul_add; assumption).
    rewrite div_small', mod_small' by exact Hi. reflexivity.
  Qed.

  (* torch.tensordot(t, M, ([0],[0])) *)
  Lemma tdot0_data d0 rest x m (M : lmat) :
    length x = d0 * numel rest -> length M = d0 ->
    tdot0 Op (mkT (d0 :: rest) x) m M = mkT (rest ++ [m]) (tdot_ix Op d0 (numel rest) m M x).
  Proof.
    intros Hx HM. unfold tdot0. cbn [tsh tdat]. f_equal.
    set (R := numel rest). set (X := chunks R d0 x).
    assert (HX : length X = d0) by apply chunks_length.
    unfold mmul. change (mtrans Op R X) with (tab R (fun q => col Op q X)).
    change (mtrans Op m M) with (tab m (fun j => col Op j M)).
    rewrite map_tab. unfold tdot_ix.
    apply (concat_eq_tab Op _ R m).
    - apply tab_length.
    - intros a Ha. rewrite nth_tab by exact Ha. rewrite map_tab. apply tab_length.
    - intros a b Ha Hb. unfold mnth. rewrite nth_tab by exact Ha. rewrite map_tab, nth_tab by exact Hb.
      rewrite (dot_sumn Op _ _ d0) by (rewrite col_length; assumption).
      rewrite div_small', mod_small' by exact Hb.
      apply sumn_ext. intros i Hi. rewrite !vnth_col by lia. f_equal.
      unfold X. apply mnth_chunks; assumption.
  Qed.

  (* t.permute(1, ..., n-1, 0) *)
  Lemma rotl_data d0 rest x :
    length x = d0 * numel rest ->
    rotl Op (mkT (d0 :: rest) x) = mkT (rest ++ [d0]) (rot_ix Op d0 (numel rest) x).
  Proof.
    intros Hx. unfold rotl. cbn [tsh tdat]. f_equal.
    set (R := numel rest). set (X := chunks R d0 x).
    assert (HX : length X = d0) by apply chunks_length.
    change (mtrans Op R X) with (tab R (fun q => col Op q X)). unfold rot_ix.
    apply (concat_eq_tab Op _ R d0).
    - apply tab_length.
    - intros a Ha. rewrite nth_tab by exact Ha. rewrite col_length. exact HX.
    - intros a b Ha Hb. unfold mnth. rewrite nth_tab by exact Ha.
      change (nth b (col Op a X) zero) with (vnth Op (col Op a X) b). rewrite vnth_col by lia.
      rewrite div_small', mod_small' by exact Hb. unfold X. apply mnth_chunks; assumption.
  Qed.

  (* the loop of _precondition_grad on a tensor whose first modes are [dims]; [tail] = modes already processed *)
  Lemma precond_chain_data tr : forall sel dims mats tail x,
    mats_fit sel dims mats -> length x = numel (dims ++ tail) ->
    precond_chain Op tr sel mats (mkT (dims ++ tail) x)
    = mkT (tail ++ dims) (chain_ix Op dims (sel_mats Op tr sel mats) (numel tail) x).
  Proof.
    induction sel as [|b s IH]; intros dims mats tail x Hfit Hx.
    - destruct dims; [|contradiction]. cbn. rewrite app_nil_r. reflexivity.
    - destruct dims as [|d ds]; [destruct b; contradiction|].
      rewrite numel_app in Hx. cbn [numel fold_right] in Hx. fold (numel ds) in Hx.
      destruct b.
      + destruct mats as [|M ms]; [contradiction|]. destruct Hfit as [HM Hfit].
        cbn [precond_chain sel_mats chain_ix]. rewrite HM.
        set (M' := if tr then mtrans Op d M else M).
        assert (HM' : length M' = d) by (unfold M'; destruct tr; [apply mtrans_length|exact HM]).
        assert (E : (if tr then tdot0T Op (mkT ((d :: ds) ++ tail) x) d M else tdot0 Op (mkT ((d :: ds) ++ tail) x) d M)
                    = mkT (ds ++ (tail ++ [d])) (tdot_ix Op d (numel ds * numel tail) d M' x)).
        { unfold tdot0T, M'. cbn [app]. rewrite <- numel_app, app_assoc.
          destruct tr; apply tdot0_data; try assumption; try (apply mtrans_length);
            rewrite numel_app; lia. }
        rewrite E. rewrite IH; [|exact Hfit|rewrite tdot_ix_length, !numel_app; cbn; lia].
        rewrite <- app_assoc. cbn [app]. rewrite numel_app. cbn [numel fold_right]. rewrite Nat.mul_1_r. reflexivity.
      + cbn [precond_chain sel_mats chain_ix]. cbn in Hfit.
        assert (E : rotl Op (mkT ((d :: ds) ++ tail) x) = mkT (ds ++ (tail ++ [d])) (rot_ix Op d (numel ds * numel tail) x)).
        { cbn [app]. rewrite <- numel_app, app_assoc. apply rotl_data. rewrite numel_app. lia. }
        rewrite E. rewrite IH; [|exact Hfit|rewrite rot_ix_length, !numel_app; cbn; lia].
        rewrite <- app_assoc. cbn [app]. rewrite numel_app. cbn [numel fold_right]. rewrite Nat.mul_1_r. reflexivity.
  Qed.
End TensorOps.

(* ====================================================================== Part 3: the cyclic loop = product of mode products (any scalar) *)
Section CyclicLoop.
  Context {F : Type} (Op : ops F).
  Local Notation zero := (f0 Op).
  Local Notation lmat := (list (list F)).

  (* b tensors of P entries each, stored with the tensor index as LAST mode: out[q*b + k] = B_k[q] *)
  Definition ileave (b P : nat) (B : lmat) : list F := tab (P * b) (fun p => mnth Op B (p mod b) (p / b)).

  Lemma nth_map_lt {A B} (f : A -> B) l i d d' : i < length l -> nth i (map f l) d' = f (nth i l d).
  Proof. intros H. rewrite (nth_indep _ d' (f d)) by (rewrite map_length; exact H). apply map_nth. Qed.

  Lemma concat_concat {X} (l : list (list (list X))) : concat (concat l) = concat (map (@concat X) l).
  Proof. induction l as [|a l IH]; [reflexivity|]. cbn. rewrite concat_app, IH. reflexivity. Qed.

  Lemma vnth_ileave b P B q k : q < P -> k < b -> vnth Op (ileave b P B) (q * b + k) = mnth Op B k q.
  Proof.
    intros Hq Hk. unfold ileave, vnth. rewrite nth_tab by (apply lt_mul_add; assumption).
    rewrite div_small', mod_small' by exact Hk. reflexivity.
  Qed.

  (* one contraction step on b interleaved tensors = the mode-0 product of each, re-interleaved with b*d slices *)
  Lemma tdot_ix_ileave d R b (M : lmat) (B : lmat) :
    length B = b -> (forall r, In r B -> length r = d * R) ->
    tdot_ix Op d (R * b) d M (ileave b (d * R) B)
    = ileave (b * d) R (concat (map (fun Bk => chunks R d (mode0 Op d R M Bk)) B)).
  Proof.
    intros HB Hrows. unfold tdot_ix, ileave at 2.
    replace (R * b * d) with (R * (b * d)) by ring.
    apply tab_ext2. intros r s Hr Hs.
    destruct (index_split b d s Hs) as (Es & Hk & Hj).
    set (k := s / d) in *. set (j := s mod d) in *. clearbody k j. subst s.
    rewrite div_small', mod_small' by (apply lt_mul_add; assumption).
    replace (r * (b * d) + (k * d + j)) with ((r * b + k) * d + j) by ring.
    rewrite div_small', mod_small' by exact Hj.
    (* right-hand side *)
    unfold mnth at 2.
    rewrite (nth_concat_uniform _ d k j []).
    2:{ intros g Hg. apply in_map_iff in Hg. destruct Hg as (Bk & <- & _). apply chunks_length. }
    2:{ rewrite map_length. lia. }
    2:{ exact Hj. }
    rewrite (nth_map_lt _ B k []) by lia.
    change (nth r (nth j (chunks R d (mode0 Op d R M (nth k B []))) []) zero)
      with (mnth Op (chunks R d (mode0 Op d R M (nth k B []))) j r).
    rewrite mnth_chunks by assumption. rewrite vnth_mode0 by assumption.
    apply sumn_ext. intros i Hi. f_equal.
    replace (i * (R * b) + (r * b + k)) with ((i * R + r) * b + k) by ring.
    rewrite vnth_ileave by (try assumption; apply lt_mul_add; assumption). reflexivity.
  Qed.

  Lemma rot_ix_ileave d R b (B : lmat) :
    length B = b -> (forall r, In r B -> length r = d * R) ->
    rot_ix Op d (R * b) (ileave b (d * R) B) = ileave (b * d) R (concat (map (fun Bk : list F => chunks R d Bk) B)).
  Proof.
    intros HB Hrows. unfold rot_ix, ileave at 2.
    replace (R * b * d) with (R * (b * d)) by ring.
    apply tab_ext2. intros r s Hr Hs.
    destruct (index_split b d s Hs) as (Es & Hk & Hj).
    set (k := s / d) in *. set (j := s mod d) in *. clearbody k j. subst s.
    rewrite div_small', mod_small' by (apply lt_mul_add; assumption).
    replace (r * (b * d) + (k * d + j)) with ((r * b + k) * d + j) by ring.
    rewrite div_small', mod_small' by exact Hj.
    unfold mnth at 1.
    rewrite (nth_concat_uniform _ d k j []).
    2:{ intros g Hg. apply in_map_iff in Hg. destruct Hg as (Bk & <- & _). apply chunks_length. }
    2:{ rewrite map_length. lia. }
    2:{ exact Hj. }
    rewrite (nth_map_lt _ B k []) by lia.
    change (nth r (nth j (chunks R d (nth k B [])) []) zero) with (mnth Op (chunks R d (nth k B [])) j r).
    rewrite mnth_chunks by assumption.
    replace (j * (R * b) + (r * b + k)) with ((j * R + r) * b + k) by ring.
    rewrite vnth_ileave by (try assumption; apply lt_mul_add; assumption). reflexivity.
  Qed.

  Lemma mode_products_nil Ms (x : list F) : mode_products Op [] Ms x = x.
  Proof. reflexivity. Qed.

  (* the loop on b interleaved tensors computes the mode products of each of them (tensor index first) *)
  Lemma chain_ix_batch : forall ds Ms b (B : lmat),
    length Ms = length ds -> length B = b -> (forall r, In r B -> length r = numel ds) ->
    chain_ix Op ds Ms b (ileave b (numel ds) B) = concat (map (mode_products Op ds Ms) B).
  Proof.
    induction ds as [|d ds IH]; intros Ms b B HMs HB Hrows.
    - cbn [chain_ix]. rewrite (map_ext _ (fun x => x)) by (intros; apply mode_products_nil). rewrite map_id.
      cbn [numel fold_right] in *. unfold ileave.
      rewrite (concat_eq_tab Op B b 1 (fun p => mnth Op B p 0)).
      + replace (1 * b) with (b * 1) by lia. apply tab_ext. intros p Hp.
        rewrite Nat.mod_small, Nat.div_small by lia. reflexivity.
      + exact HB.
      + intros a Ha. apply Hrows. apply nth_In. lia.
      + intros a c Ha Hc. replace c with 0 by lia. replace (a * 1 + 0) with a by lia. reflexivity.
    - destruct Ms as [|oM Ms]; [discriminate|]. cbn [length] in HMs.
      change (numel (d :: ds)) with (d * numel ds) in *. set (R := numel ds) in *.
      assert (Hfin : forall (g : list F -> lmat),
                 (forall Bk, In Bk B -> length (g Bk) = d) ->
                 (forall Bk r, In Bk B -> In r (g Bk) -> length r = R) ->
                 chain_ix Op ds Ms (b * d) (ileave (b * d) R (concat (map g B)))
                 = concat (map (fun Bk => concat (map (mode_products Op ds Ms) (g Bk))) B)).
      { intros g Hg1 Hg2. rewrite IH.
        - rewrite concat_map, concat_concat, !map_map. reflexivity.
        - lia.
        - rewrite (concat_uniform_length _ d), map_length; [lia|].
          intros grp Hgrp. apply in_map_iff in Hgrp. destruct Hgrp as (Bk & <- & HBk). apply Hg1. exact HBk.
        - intros r Hr. apply in_concat in Hr. destruct Hr as (grp & Hgrp & Hr).
          apply in_map_iff in Hgrp. destruct Hgrp as (Bk & <- & HBk). apply (Hg2 Bk r HBk Hr). }
      destruct oM as [M|]; cbn [chain_ix mode_products]; fold R.
      + rewrite tdot_ix_ileave by assumption. apply Hfin.
        * intros. apply chunks_length.
        * intros Bk r _ Hr. apply (chunks_rows_In R d (mode0 Op d R M Bk) r); [apply mode0_length|exact Hr].
      + rewrite rot_ix_ileave by assumption. apply Hfin.
        * intros. apply chunks_length.
        * intros Bk r HBk Hr. apply (chunks_rows_In R d Bk r); [apply Hrows; exact HBk|exact Hr].
  Qed.

  Lemma ileave_one P (x : list F) : length x = P -> ileave 1 P [x] = x.
  Proof.
    intros H. unfold ileave. symmetry. apply (eq_tab Op); [lia|].
    intros i Hi. rewrite Nat.mod_1_r, Nat.div_1_r. reflexivity.
  Qed.

  Lemma sel_mats_length tr : forall sel dims (mats : list lmat), mats_fit sel dims mats -> length (sel_mats Op tr sel mats) = length dims.
  Proof.
    induction sel as [|b s IH]; intros dims mats H.
    - destruct dims; [reflexivity|contradiction].
    - destruct dims as [|d ds]; [destruct b; contradiction|]. destruct b.
      + destruct mats as [|M ms]; [contradiction|]. destruct H as [_ H]. cbn. rewrite (IH ds ms H). reflexivity.
      + cbn. rewrite (IH ds mats H). reflexivity.
  Qed.

  (* cyclic_tensordot_is_mode_product: the n-fold rotate-and-contract loop of _precondition_grad equals the product of
     the mode-k products, for every order, every selector and every scalar type (no rounding argument is involved:
     both sides perform the same scalar operations) *)
  Theorem cyclic_tensordot_is_mode_product tr sel dims (mats : list lmat) x :
    mats_fit sel dims mats -> length x = numel dims ->
    precond_chain Op tr sel mats (mkT dims x) = mkT dims (mode_products Op dims (sel_mats Op tr sel mats) x).
  Proof.
    intros Hfit Hx.
    pose proof (precond_chain_data Op tr sel dims mats [] x Hfit) as H.
    rewrite app_nil_r in H. cbn [app numel fold_right] in H. rewrite (H Hx). f_equal.
    pose proof (chain_ix_batch dims (sel_mats Op tr sel mats) 1 [x] (sel_mats_length tr sel dims mats Hfit) eq_refl) as Hb.
    rewrite ileave_one in Hb by exact Hx. rewrite Hb.
    - cbn. apply app_nil_r.
    - intros r [<-|[]]. exact Hx.
  Qed.
End CyclicLoop.

(* ====================================================================== Part 4: real numbers - linearity and the inverse rotation *)
Local Open Scope R_scope.

Section RealRotation.
  Variable rnd : R -> R.
  Local Notation RO := (R_ops rnd).
  Local Notation rsum := (sumn RO).
  Local Notation lmat := (list (list R)).

  Lemma vnth_mode0_R d P (M : lmat) y j r : (j < d)%nat -> (r < P)%nat ->
    vnth RO (mode0 RO d P M y) (j * P + r) = rsum d (fun i => vnth RO y (i * P + r) * mnth RO M i j).
  Proof. exact (vnth_mode0 RO d P M y j r). Qed.

  Lemma delta_R i j : delta RO i j = if Nat.eqb i j then 1 else 0.
  Proof. reflexivity. Qed.

  (* linear combinations of lists of length [len] *)
  Definition lc (len n : nat) (c : nat -> R) (ys : nat -> list R) : list R :=
    tab len (fun r => rsum n (fun i => c i * vnth RO (ys i) r)).
  Definition linear (len : nat) (f : list R -> list R) : Prop :=
    forall n c ys, (forall i, (i < n)%nat -> length (ys i) = len) -> f (lc len n c ys) = lc len n c (fun i => f (ys i)).

  Lemma lc_length len n c ys : length (lc len n c ys) = len.
  Proof. apply tab_length. Qed.
  Lemma vnth_lc len n c ys r : (r < len)%nat -> vnth RO (lc len n c ys) r = rsum n (fun i => c i * vnth RO (ys i) r).
  Proof. intros H. unfold lc, vnth at 1. rewrite nth_tab by exact H. reflexivity. Qed.
  Lemma lc_ext len n c ys ys' : (forall i, (i < n)%nat -> ys i = ys' i) -> lc len n c ys = lc len n c ys'.
  Proof. intros H. unfold lc. apply tab_ext. intros r _. apply sumn_ext. intros i Hi. rewrite H by exact Hi. reflexivity. Qed.

  Lemma mode_products_length : forall ds Ms (x : list R),
    length Ms = length ds -> length x = numel ds -> length (mode_products RO ds Ms x) = numel ds.
  Proof.
    induction ds as [|d ds IH]; intros Ms x HMs Hx; [exact Hx|].
    destruct Ms as [|oM Ms]; [discriminate|]. cbn [mode_products]. change (numel (d :: ds)) with (d * numel ds)%nat in *.
    rewrite (concat_uniform_length _ (numel ds)).
    - rewrite map_length, chunks_length. reflexivity.
    - intros r Hr. apply in_map_iff in Hr. destruct Hr as (row & <- & Hrow).
      apply IH; [cbn in HMs; lia|].
      refine (chunks_rows_In (numel ds) d _ row _ Hrow).
      destruct oM; [apply mode0_length|exact Hx].
  Qed.

  (* the mode-0 product of a linear combination *)
  Lemma mode0_lc d P (M : lmat) n c ys : (forall i, (i < n)%nat -> length (ys i) = (d * P)%nat) ->
    mode0 RO d P M (lc (d * P) n c ys) = lc (d * P) n c (fun k => mode0 RO d P M (ys k)).
  Proof.
    intros Hys. apply (eq_tab RO); [apply mode0_length|].
    intros p Hp. destruct (index_split d P p Hp) as (E & Hj & Hr).
    set (j := (p / P)%nat) in *. set (r := (p mod P)%nat) in *. clearbody j r. subst p.
    rewrite vnth_mode0_R by assumption.
    rewrite (sumn_ext RO d _ (fun i => rsum n (fun k => c k * (vnth RO (ys k) (i * P + r) * mnth RO M i j)))).
    2:{ intros i Hi. rewrite vnth_lc by (apply lt_mul_add; assumption). rewrite <- rsum_mult_r.
        apply sumn_ext. intros k _. ring. }
    rewrite rsum_swap. apply sumn_ext. intros k Hk. rewrite vnth_mode0_R by assumption.
    rewrite <- rsum_mult_l. reflexivity.
  Qed.

  Lemma chunks_lc d P n c zs a : (a < d)%nat ->
    nth a (chunks P d (lc (d * P) n c zs)) [] = lc P n c (fun k => nth a (chunks P d (zs k)) []).
  Proof.
    intros Ha. apply (eq_tab RO); [apply chunks_row_length; [apply lc_length|exact Ha]|].
    intros b Hb. change (vnth RO (nth a (chunks P d (lc (d * P) n c zs)) []) b) with (mnth RO (chunks P d (lc (d * P) n c zs)) a b).
    rewrite mnth_chunks by assumption. rewrite vnth_lc by (apply lt_mul_add; assumption).
    apply sumn_ext. intros k _. f_equal.
    change (vnth RO (nth a (chunks P d (zs k)) []) b) with (mnth RO (chunks P d (zs k)) a b).
    rewrite mnth_chunks by assumption. reflexivity.
  Qed.

  Lemma mode_products_linear : forall ds Ms, length Ms = length ds -> linear (numel ds) (mode_products RO ds Ms).
  Proof.
    induction ds as [|d ds IH]; intros Ms HMs n c ys Hys; [reflexivity|].
    destruct Ms as [|oM Ms]; [discriminate|]. assert (HMs' : length Ms = length ds) by (cbn in HMs; lia).
    change (numel (d :: ds)) with (d * numel ds)%nat in *. set (P := numel ds) in *.
    set (g := mode_products RO ds Ms).
    assert (Hg : forall y, length y = P -> length (g y) = P) by (intros; apply mode_products_length; assumption).
    (* step B: slices *)
    assert (HB : forall zs, (forall i, (i < n)%nat -> length (zs i) = (d * P)%nat) ->
                 concat (map g (chunks P d (lc (d * P) n c zs))) = lc (d * P) n c (fun k => concat (map g (chunks P d (zs k))))).
    { intros zs Hzs. apply (concat_eq_tab RO _ d P).
      - rewrite map_length. apply chunks_length.
      - intros a Ha. rewrite (nth_map_lt _ _ a []) by (rewrite chunks_length; exact Ha).
        apply Hg. apply chunks_row_length; [apply lc_length|exact Ha].
      - intros a b Ha Hb. unfold mnth. rewrite (nth_map_lt _ _ a []) by (rewrite chunks_length; exact Ha).
        rewrite chunks_lc by exact Ha. unfold g at 1. rewrite (IH Ms HMs' n c).
        2:{ intros i Hi. apply chunks_row_length; [apply Hzs; exact Hi|exact Ha]. }
        change (nth b ?l (f0 RO)) with (vnth RO l b). rewrite vnth_lc by exact Hb.
        apply sumn_ext. intros k Hk. f_equal. unfold vnth.
        rewrite (nth_concat_uniform _ P a b).
        + rewrite (nth_map_lt _ _ a []) by (rewrite chunks_length; exact Ha). reflexivity.
        + intros r Hr. apply in_map_iff in Hr. destruct Hr as (row & <- & Hrow). apply Hg.
          apply (chunks_rows_In P d (zs k) row); [apply Hzs; exact Hk|exact Hrow].
        + rewrite map_length, chunks_length. exact Ha.
        + exact Hb. }
    cbn [mode_products]. fold P. fold g. destruct oM as [M|].
    - rewrite mode0_lc by exact Hys. rewrite HB; [reflexivity|]. intros i Hi. apply mode0_length.
    - apply HB. exact Hys.
  Qed.

  (* slices of a mode-0 product are linear combinations of the slices *)
  Lemma mode0_row d P (M : lmat) y j : (j < d)%nat ->
    nth j (chunks P d (mode0 RO d P M y)) [] = lc P d (fun i => mnth RO M i j) (fun i => nth i (chunks P d y) []).
  Proof.
    intros Hj. apply (eq_tab RO); [apply chunks_row_length; [apply mode0_length|exact Hj]|].
    intros r Hr. change (vnth RO (nth j ?m []) r) with (mnth RO m j r).
    rewrite mnth_chunks by assumption. rewrite vnth_mode0_R by assumption.
    apply sumn_ext. intros i Hi.
    change (vnth RO (nth i (chunks P d y) []) r) with (mnth RO (chunks P d y) i r).
    rewrite mnth_chunks by assumption. ring.
  Qed.

  (* a mode-0 product commutes with a linear map applied to every slice *)
  Lemma mode0_commutes d P (M : lmat) (g : list R -> list R) (Y : lmat) :
    linear P g -> (forall y, length y = P -> length (g y) = P) ->
    length Y = d -> (forall r, In r Y -> length r = P) ->
    mode0 RO d P M (concat (map g Y)) = concat (map g (chunks P d (mode0 RO d P M (concat Y)))).
  Proof.
    intros Hlin Hlen HY Hrows.
    assert (HgY : forall r, In r (map g Y) -> length r = P).
    { intros r Hr. apply in_map_iff in Hr. destruct Hr as (y & <- & Hy). apply Hlen, Hrows, Hy. }
    rewrite <- (concat_chunks RO P d (mode0 RO d P M (concat (map g Y)))) by apply mode0_length.
    f_equal. apply (nth_ext _ _ [] []); [rewrite map_length, !chunks_length; reflexivity|].
    rewrite chunks_length. intros j Hj.
    rewrite (nth_map_lt _ _ j []) by (rewrite chunks_length; exact Hj).
    rewrite !mode0_row by exact Hj.
    rewrite Hlin.
    2:{ intros i Hi. apply chunks_row_length; [|exact Hi]. rewrite (concat_uniform_length _ P Hrows), HY. reflexivity. }
    apply lc_ext. intros i Hi.
    rewrite (chunks_concat P d (map g Y)) by (try assumption; rewrite map_length; exact HY).
    rewrite (chunks_concat P d Y) by assumption.
    apply (nth_map_lt g Y i []). lia.
  Qed.

  (* M M' = I: the mode-0 product with M' undoes the one with M *)
  Lemma mode0_inverse d P (M M' : lmat) y :
    inverse_pair RO d M M' -> length y = (d * P)%nat -> mode0 RO d P M' (mode0 RO d P M y) = y.
  Proof.
    intros Hinv Hy. unfold inverse_pair in Hinv. change (fmul RO) with Rmult in Hinv.
    symmetry. apply (eq_tab RO); [exact Hy|].
    intros p Hp. destruct (index_split d P p Hp) as (E & Hj & Hr).
    set (j := (p / P)%nat) in *. set (r := (p mod P)%nat) in *. clearbody j r. subst p.
    symmetry. change (fmul RO) with Rmult.
    rewrite (sumn_ext RO d _ (fun i => rsum d (fun k => vnth RO y (k * P + r) * (mnth RO M k i * mnth RO M' i j)))).
    2:{ intros i Hi. rewrite vnth_mode0_R by assumption. rewrite <- rsum_mult_r. apply sumn_ext. intros k _. ring. }
    rewrite rsum_swap.
    rewrite (sumn_ext RO d _ (fun k => if Nat.eqb k j then vnth RO y (k * P + r) else 0)).
    2:{ intros k Hk. rewrite rsum_mult_l. rewrite (Hinv k j Hk Hj), delta_R. destruct (Nat.eqb k j); ring. }
    rewrite (rsum_delta_r rnd d j (fun k => vnth RO y (k * P + r))) by exact Hj. reflexivity.
  Qed.

  (* rotate_back_inverse on the reference semantics, every order *)
  Theorem mode_products_inverse : forall ds Ms Ms' x,
    back_pair RO ds Ms Ms' -> length x = numel ds ->
    mode_products RO ds Ms' (mode_products RO ds Ms x) = x.
  Proof.
    induction ds as [|d ds IH]; intros Ms Ms' x Hbp Hx; [reflexivity|].
    destruct Ms as [|oM Ms]; [destruct Ms'; contradiction|].
    destruct Ms' as [|oM' Ms']; [destruct oM; contradiction|].
    change (numel (d :: ds)) with (d * numel ds)%nat in *. set (P := numel ds) in *.
    assert (Hlens : length Ms = length ds /\ length Ms' = length ds /\ back_pair RO ds Ms Ms').
    { assert (G : forall ds Ms Ms', back_pair RO ds Ms Ms' -> length Ms = length ds /\ length Ms' = length ds).
      { clear. induction ds as [|d ds IH]; intros [|[M|] Ms] [|[M'|] Ms'] H; cbn in H; try contradiction; cbn.
        - split; reflexivity.
        - destruct H as [_ H]. destruct (IH _ _ H). split; congruence.
        - destruct (IH _ _ H). split; congruence. }
      destruct oM, oM'; cbn in Hbp; try contradiction; [destruct Hbp as [_ Hbp]|]; destruct (G _ _ _ Hbp); auto. }
    destruct Hlens as (HMs & HMs' & Hbp').
    set (g := mode_products RO ds Ms). set (g' := mode_products RO ds Ms').
    assert (Hg : forall y, length y = P -> length (g y) = P) by (intros; apply mode_products_length; assumption).
    assert (Hfin : forall z, length z = (d * P)%nat -> concat (map g' (chunks P d (concat (map g (chunks P d z))))) = z).
    { intros z Hz. rewrite chunks_concat.
      - rewrite map_map. rewrite (map_ext_in _ (fun y => y)), map_id; [apply (concat_chunks RO); exact Hz|].
        intros y Hy. apply (IH Ms Ms' y Hbp'). apply (chunks_rows_In P d z y Hz Hy).
      - rewrite map_length. apply chunks_length.
      - intros r Hr. apply in_map_iff in Hr. destruct Hr as (y & <- & Hy). apply Hg. apply (chunks_rows_In P d z y Hz Hy). }
    cbn [mode_products]. fold P. fold g. fold g'.
    destruct oM as [M|], oM' as [M'|]; cbn in Hbp; try contradiction.
    - destruct Hbp as [Hinv _].
      rewrite (mode0_commutes d P M' g (chunks P d (mode0 RO d P M x))).
      + rewrite (concat_chunks RO) by apply mode0_length. rewrite mode0_inverse by assumption. apply Hfin. exact Hx.
      + apply mode_products_linear. exact HMs.
      + exact Hg.
      + apply chunks_length.
      + intros r Hr. apply (chunks_rows_In P d (mode0 RO d P M x) r); [apply mode0_length|exact Hr].
    - apply Hfin. exact Hx.
  Qed.
End RealRotation.

(* ====================================================================== Part 5: the SOAP branch of the block step (any scalar) *)
Local Close Scope R_scope.
Section SoapModel.
  Context {F : Type} (Op : ops F).
  Local Notation lmat := (list (list F)).

  Lemma mode_products_length_gen : forall ds Ms (x : list F),
    length Ms = length ds -> length x = numel ds -> length (mode_products Op ds Ms x) = numel ds.
  Proof.
    induction ds as [|d ds IH]; intros Ms x HMs Hx; [exact Hx|].
    destruct Ms as [|oM Ms]; [discriminate|]. cbn [mode_products]. change (numel (d :: ds)) with (d * numel ds) in *.
    rewrite (concat_uniform_length _ (numel ds)).
    - rewrite map_length, chunks_length. reflexivity.
    - intros r Hr. apply in_map_iff in Hr. destruct Hr as (row & <- & Hrow).
      apply IH; [cbn in HMs; lia|].
      refine (chunks_rows_In (numel ds) d _ row _ Hrow).
      destruct oM; [apply mode0_length|exact Hx].
  Qed.
  Lemma rot_into_basis_length_gen (c : cfg (F:=F)) dims (Qs : list lmat) x :
    mats_fit (dims_selector c (length dims)) dims Qs -> length x = numel dims -> length (rot_into_basis Op c dims Qs x) = numel dims.
  Proof.
    intros Hfit Hx. unfold rot_into_basis. destruct (soap_basis_exists Op Qs); [|exact Hx].
    apply mode_products_length_gen; [apply sel_mats_length; exact Hfit|exact Hx].
  Qed.

  (* rotation into / out of the eigenbasis = product of mode products; ignored modes are not touched, and without a basis
     (no preconditioned mode, or first basis all zero) nothing is rotated *)
  Theorem soap_rotate_spec (c : cfg (F:=F)) dims (Qs : list lmat) x :
    mats_fit (dims_selector c (length dims)) dims Qs -> length x = numel dims ->
    soap_rotate Op c dims Qs x = rot_into_basis Op c dims Qs x.
  Proof.
    intros Hfit Hx. unfold soap_rotate, rot_into_basis, soap_basis_exists. destruct Qs as [|Q0 Qs]; [reflexivity|].
    destruct (any_nonzero Op Q0); [|reflexivity].
    rewrite cyclic_tensordot_is_mode_product by assumption. reflexivity.
  Qed.
  Theorem soap_rotate_back_spec (c : cfg (F:=F)) dims (Qs : list lmat) x :
    mats_fit (dims_selector c (length dims)) dims Qs -> length x = numel dims ->
    soap_rotate_back Op c dims Qs x = rot_back_from_basis Op c dims Qs x.
  Proof.
    intros Hfit Hx. unfold soap_rotate_back, rot_back_from_basis, soap_basis_exists. destruct Qs as [|Q0 Qs]; [reflexivity|].
    destruct (any_nonzero Op Q0); [|reflexivity].
    rewrite cyclic_tensordot_is_mode_product by assumption. reflexivity.
  Qed.

  (* an ignored mode is not touched: the reference semantics skips it *)
  Lemma mode_products_ignored d ds (Ms : list (option lmat)) x :
    mode_products Op (d :: ds) (None :: Ms) x = concat (map (mode_products Op ds Ms) (chunks (numel ds) d x)).
  Proof. reflexivity. Qed.

  (* all modes ignored: the loop (n left rotations) returns the tensor unchanged *)
  Lemma mode_products_all_ignored : forall ds (x : list F), length x = numel ds ->
    mode_products Op ds (map (fun _ => None) ds) x = x.
  Proof.
    induction ds as [|d ds IH]; intros x Hx; [reflexivity|]. cbn [map mode_products].
    change (numel (d :: ds)) with (d * numel ds) in Hx.
    rewrite (map_ext_in _ (fun y => y)), map_id; [apply (concat_chunks Op); exact Hx|].
    intros y Hy. apply IH. apply (chunks_rows_In (numel ds) d x y Hx Hy).
  Qed.

  Lemma mats_fit_sel_length : forall sel dims (mats : list lmat), mats_fit sel dims mats -> length sel = length dims.
  Proof.
    induction sel as [|b s IH]; intros dims mats H.
    - destruct dims; [reflexivity|contradiction].
    - destruct dims as [|d ds]; [destruct b; contradiction|]. destruct b.
      + destruct mats as [|M ms]; [contradiction|]. destruct H as [_ H]. cbn. rewrite (IH ds ms H). reflexivity.
      + cbn. rewrite (IH ds mats H). reflexivity.
  Qed.

  (* ignored dimensions are never rotated: the loop has NO matrix for them, neither on the way into the basis nor back *)
  Lemma dims_selector_nth (c : cfg (F:=F)) order k : k < order ->
    nth k (dims_selector c order) true = negb (existsb (Nat.eqb k) (c_ignored c)).
  Proof.
    intros H. unfold dims_selector.
    rewrite (nth_map_seq (fun d => negb (existsb (Nat.eqb d) (c_ignored c)))) by exact H. reflexivity.
  Qed.
  Lemma sel_mats_ignored tr : forall sel dims (mats : list lmat) k,
    mats_fit sel dims mats -> k < length sel -> nth k sel true = false -> nth k (sel_mats Op tr sel mats) (Some []) = None.
  Proof.
    induction sel as [|b s IH]; intros dims mats k Hfit Hk Hn; [cbn in Hk; lia|].
    destruct dims as [|d ds]; [destruct b; contradiction|]. destruct b.
    - destruct mats as [|M ms]; [contradiction|]. destruct Hfit as [_ Hfit]. destruct k; [discriminate|].
      cbn [sel_mats nth]. apply (IH ds ms k Hfit); [cbn in Hk; lia|exact Hn].
    - destruct k; [reflexivity|]. cbn [sel_mats nth]. apply (IH ds mats k Hfit); [cbn in Hk; lia|exact Hn].
  Qed.
  Theorem ignored_dims_never_rotated (c : cfg (F:=F)) dims (Qs : list lmat) tr k :
    mats_fit (dims_selector c (length dims)) dims Qs -> k < length dims -> In k (c_ignored c) ->
    nth k (sel_mats Op tr (dims_selector c (length dims)) Qs) (Some []) = None.
  Proof.
    intros Hfit Hk Hin. apply (sel_mats_ignored tr _ dims Qs k Hfit).
    - unfold dims_selector. rewrite map_length, seq_length. exact Hk.
    - rewrite dims_selector_nth by exact Hk. apply negb_false_iff. apply existsb_exists. exists k. split; [exact Hin|apply Nat.eqb_refl].
  Qed.

  (* ---- the block step, SOAP kind, component by component *)
  Lemma block_step_soap (c : cfg (F:=F)) t h dims answers w st g0 :
    c_kind c = KSoap ->
    let g := l2_grad Op c w g0 in
    let fs := update_factors Op c dims g (s_factors st) in
    let bc2 := bias_corr2 Op (c_biascorr c) (c_beta2 c) t (h_bc2 h) in
    let r := if perform_amortized c t then refresh Op c (length dims) bc2 fs (s_inv st) (s_isdiag st) answers
             else (s_inv st, s_isdiag st, []) in
    let res := block_step Op c t h dims answers w st g0 in
    let st' := snd (fst res) in
    s_factors st' = fs /\ s_inv st' = fst (fst r) /\ s_isdiag st' = snd (fst r) /\ snd res = snd r
    /\ s_coreig st' = ema_sq Op (c_beta2 c) (s_coreig st) (soap_rotate Op c dims (fst (fst r)) g).
  Proof.
    intros Hk. cbv zeta. unfold block_step. rewrite Hk.
    destruct (if perform_amortized c t then _ else _) as [[invs dg] qs].
    destruct (filter_grad Op c t h (s_filt st) _) as [ghat filt].
    destruct (momentum_step Op c (s_mom st) _) as [P M']. cbn. repeat split; reflexivity.
  Qed.

  Lemma refresh_soap_queries (c : cfg (F:=F)) order bc2 : c_kind c = KSoap -> forall fs invs dg answers,
    snd (refresh Op c order bc2 fs invs dg answers) = soap_queries Op fs invs dg.
  Proof.
    intros Hk. induction fs as [|Fk fs IH]; intros invs dg answers; destruct invs as [|Ik invs], dg as [|d dg]; try reflexivity.
    cbn [refresh soap_queries]. specialize (IH invs dg (tl answers)).
    destruct (refresh Op c order bc2 fs invs dg (tl answers)) as [[ri rd] rq]. cbn [snd] in *. rewrite Hk, IH. reflexivity.
  Qed.

  (* bases change only at a scheduled refresh; at a refresh the oracle is asked exactly about
     (factor accumulated at this step, previous basis as estimate, diagonality flag) and its answers are stored *)
  Theorem soap_refresh_only_on_schedule (c : cfg (F:=F)) t h dims answers w st g0 :
    c_kind c = KSoap ->
    let res := block_step Op c t h dims answers w st g0 in
    let st' := snd (fst res) in
    let fs := update_factors Op c dims (l2_grad Op c w g0) (s_factors st) in
    (perform_amortized c t = false -> s_inv st' = s_inv st /\ s_isdiag st' = s_isdiag st /\ snd res = [])
    /\ (s_inv st' <> s_inv st -> refresh_at c t)
    /\ (perform_amortized c t = true ->
        snd res = soap_queries Op fs (s_inv st) (s_isdiag st)
        /\ (length (s_inv st) = length fs -> length (s_isdiag st) = length fs -> length answers = length fs ->
            s_inv st' = answers)).
  Proof.
    intros Hk. cbv zeta. destruct (block_step_soap c t h dims answers w st g0 Hk) as (_ & Hi & Hd & Hq & _).
    cbv zeta in Hi, Hd, Hq. rewrite Hi, Hd, Hq.
    destruct (perform_amortized c t) eqn:Hp.
    - split; [discriminate|]. split; [intros _; apply refresh_schedule_spec; exact Hp|]. intros _.
      split; [apply refresh_soap_queries; exact Hk|]. intros H1 H2 H3. apply refresh_stores_answers; assumption.
    - cbn [fst snd]. split; [auto|]. split; [congruence|discriminate].
  Qed.

  (* the corrected eigenvalues of a step are updated AFTER the possible refresh: with the gradient rotated into the
     bases the step leaves stored (the new ones at a refresh) *)
  Theorem refresh_before_eigenvalue_update (c : cfg (F:=F)) t h dims answers w st g0 :
    c_kind c = KSoap ->
    let st' := snd (fst (block_step Op c t h dims answers w st g0)) in
    s_coreig st' = ema_sq Op (c_beta2 c) (s_coreig st) (soap_rotate Op c dims (s_inv st') (l2_grad Op c w g0)).
  Proof.
    intros Hk. cbv zeta. destruct (block_step_soap c t h dims answers w st g0 Hk) as (_ & Hi & _ & _ & Hv).
    cbv zeta in Hi, Hv. rewrite Hv, Hi. reflexivity.
  Qed.

  (* ---- oracle view: every stored basis is the oracle's answer to (refresh factor, previous basis, diagonality flag) *)
  Section Oracle.
    Variable eigvecs : lmat -> lmat -> bool -> lmat.     (* matrix_eigenvectors(A, estimate, is_diagonal), configured method *)

    Lemma nth_oracle_answers : forall fs invs dg k, length invs = length fs -> length dg = length fs -> k < length fs ->
      nth k (oracle_answers Op eigvecs fs invs dg) []
      = eigvecs (nth k fs []) (nth k invs []) (nth k dg false && check_diagonal Op (nth k fs [])).
    Proof.
      induction fs as [|Fk fs IH]; intros invs dg k Hi Hd Hk; [cbn in Hk; lia|].
      destruct invs as [|Ik invs], dg as [|d dg]; try discriminate. cbn [oracle_answers].
      destruct k; [reflexivity|]. cbn [nth]. apply IH; cbn in *; lia.
    Qed.
    Lemma oracle_answers_length : forall fs invs dg, length invs = length fs -> length dg = length fs ->
      length (oracle_answers Op eigvecs fs invs dg) = length fs.
    Proof.
      induction fs as [|Fk fs IH]; intros invs dg Hi Hd; [reflexivity|].
      destruct invs as [|Ik invs], dg as [|d dg]; try discriminate. cbn. rewrite IH; cbn in *; lia.
    Qed.

    Theorem basis_is_oracle_of_refresh_factor (c : cfg (F:=F)) t h dims w st g0 :
      c_kind c = KSoap -> perform_amortized c t = true ->
      let fs := update_factors Op c dims (l2_grad Op c w g0) (s_factors st) in
      length (s_inv st) = length fs -> length (s_isdiag st) = length fs ->
      let res := block_step Op c t h dims (oracle_answers Op eigvecs fs (s_inv st) (s_isdiag st)) w st g0 in
      let st' := snd (fst res) in
      s_factors st' = fs
      /\ length (s_inv st') = length fs
      /\ forall k, k < length fs ->
           nth k (s_inv st') [] = eigvecs (nth k fs []) (nth k (s_inv st) [])
                                          (nth k (s_isdiag st) false && check_diagonal Op (nth k fs [])).
    Proof.
      intros Hk Hp fs Hi Hd. cbv zeta.
      destruct (block_step_soap c t h dims (oracle_answers Op eigvecs fs (s_inv st) (s_isdiag st)) w st g0 Hk) as (Hf & Hinv & _).
      cbv zeta in Hf, Hinv. rewrite Hp in Hinv. fold fs in Hf, Hinv.
      rewrite refresh_stores_answers in Hinv by (try assumption; apply oracle_answers_length; assumption).
      split; [exact Hf|]. rewrite Hinv. split; [apply oracle_answers_length; assumption|].
      intros k Hlt. apply nth_oracle_answers; assumption.
    Qed.
  End Oracle.

  (* ---- the direction: rotate, divide by (V/bc2 + eps)^(1/root), rotate back *)
  Lemma map2_length_min {A B C} (f : A -> B -> C) : forall l1 l2 n, length l1 = n -> length l2 = n -> length (map2 f l1 l2) = n.
  Proof. intros l1 l2 n H1 H2. rewrite map2_length; congruence. Qed.

  Theorem shampoo_precond_soap (c : cfg (F:=F)) dims bc2 st x :
    c_kind c = KSoap -> mats_fit (dims_selector c (length dims)) dims (s_inv st) ->
    length x = numel dims -> length (s_coreig st) = numel dims ->
    shampoo_precond Op c dims bc2 st x = adam_direction_in_basis Op c dims bc2 (s_inv st) (s_coreig st) x.
  Proof.
    intros Hk Hfit Hx HV. unfold shampoo_precond, adam_direction_in_basis. rewrite Hk.
    rewrite soap_rotate_spec by assumption.
    apply soap_rotate_back_spec; [exact Hfit|].
    apply map2_length_min; [|exact HV].
    unfold rot_into_basis. destruct (soap_basis_exists Op (s_inv st)); [|exact Hx].
    pose proof (cyclic_tensordot_is_mode_product Op false _ dims (s_inv st) x Hfit Hx) as E.
    apply (f_equal (fun t => length (tdat t))) in E. cbn [tdat] in E. rewrite <- E. clear E.
    pose proof (precond_chain_data Op false _ dims (s_inv st) [] x Hfit) as H. rewrite app_nil_r in H.
    rewrite H by exact Hx. cbn [tdat app]. clear H.
    (* length of the index form: every step keeps the number of entries *)
    assert (G : forall ds Ms bt (y : list F), length Ms = length ds -> length y = numel ds * bt -> length (chain_ix Op ds Ms bt y) = numel ds * bt).
    { clear. induction ds as [|d ds IH]; intros Ms bt y HMs Hy; [exact Hy|].
      destruct Ms as [|[M|] Ms]; try discriminate; cbn [chain_ix]; change (numel (d :: ds)) with (d * numel ds) in *.
      - rewrite IH; [lia|cbn in HMs; lia|rewrite tdot_ix_length; lia].
      - rewrite IH; [lia|cbn in HMs; lia|rewrite rot_ix_length; lia]. }
    rewrite G; [cbn; lia|apply sel_mats_length; exact Hfit|cbn; lia].
  Qed.
End SoapModel.

(* ====================================================================== Part 6: real numbers - the SOAP step is Adam in a valid basis *)
Local Open Scope R_scope.

Section SoapReal.
  Variable rnd : R -> R.
  Local Notation RO := (R_ops rnd).
  Local Notation rsum := (sumn RO).
  Local Notation lmat := (list (list R)).

  Lemma back_pair_rows : forall sel dims (Qs : list lmat),
    mats_fit sel dims Qs -> all_fit (rows_orthonormal RO) sel dims Qs ->
    back_pair RO dims (sel_mats RO false sel Qs) (sel_mats RO true sel Qs).
  Proof.
    induction sel as [|b s IH]; intros dims Qs Hfit Hall.
    - destruct dims; [exact I|contradiction].
    - destruct dims as [|d ds]; [destruct b; contradiction|]. destruct b.
      + destruct Qs as [|Q Qs]; [contradiction|]. destruct Hfit as [HQ Hfit]. destruct Hall as [Horth Hall].
        cbn [sel_mats back_pair]. split; [|apply IH; assumption].
        intros k j Hk Hj. rewrite <- (Horth k j Hk Hj). apply sumn_ext. intros i Hi.
        rewrite HQ. rewrite mnth_mtrans by lia. reflexivity.
      + cbn [sel_mats back_pair]. apply IH; assumption.
  Qed.
  Lemma back_pair_cols : forall sel dims (Qs : list lmat),
    mats_fit sel dims Qs -> all_fit (cols_orthonormal RO) sel dims Qs ->
    back_pair RO dims (sel_mats RO true sel Qs) (sel_mats RO false sel Qs).
  Proof.
    induction sel as [|b s IH]; intros dims Qs Hfit Hall.
    - destruct dims; [exact I|contradiction].
    - destruct dims as [|d ds]; [destruct b; contradiction|]. destruct b.
      + destruct Qs as [|Q Qs]; [contradiction|]. destruct Hfit as [HQ Hfit]. destruct Hall as [Horth Hall].
        cbn [sel_mats back_pair]. split; [|apply IH; assumption].
        intros k j Hk Hj. rewrite <- (Horth k j Hk Hj). apply sumn_ext. intros i Hi.
        rewrite HQ. rewrite mnth_mtrans by lia. reflexivity.
      + cbn [sel_mats back_pair]. apply IH; assumption.
  Qed.

  Lemma rot_into_basis_length (c : cfg (F:=R)) dims Qs x :
    mats_fit (dims_selector c (length dims)) dims Qs -> length x = numel dims -> length (rot_into_basis RO c dims Qs x) = numel dims.
  Proof.
    intros Hfit Hx. unfold rot_into_basis. destruct (soap_basis_exists RO Qs); [|exact Hx].
    apply mode_products_length; [apply sel_mats_length; exact Hfit|exact Hx].
  Qed.

  (* rotate_back_inverse, EVERY order and every set of ignored dimensions: rows of every Q_k orthonormal (Q_k Q_k^T = I) *)
  Theorem rotate_back_inverse (c : cfg (F:=R)) dims (Qs : list lmat) x :
    let sel := dims_selector c (length dims) in
    mats_fit sel dims Qs -> all_fit (rows_orthonormal RO) sel dims Qs -> length x = numel dims ->
    soap_rotate_back RO c dims Qs (soap_rotate RO c dims Qs x) = x.
  Proof.
    intros sel Hfit Horth Hx.
    rewrite soap_rotate_spec by assumption.
    rewrite soap_rotate_back_spec by (try assumption; apply rot_into_basis_length; assumption).
    unfold rot_back_from_basis, rot_into_basis. destruct (soap_basis_exists RO Qs); [|reflexivity].
    apply mode_products_inverse; [apply back_pair_rows; assumption|exact Hx].
  Qed.
  (* ... and the other composition needs orthonormal columns (Q_k^T Q_k = I) *)
  Theorem rotate_inverse_back (c : cfg (F:=R)) dims (Qs : list lmat) y :
    let sel := dims_selector c (length dims) in
    mats_fit sel dims Qs -> all_fit (cols_orthonormal RO) sel dims Qs -> length y = numel dims ->
    soap_rotate RO c dims Qs (soap_rotate_back RO c dims Qs y) = y.
  Proof.
    intros sel Hfit Horth Hy.
    rewrite soap_rotate_back_spec by assumption.
    assert (Hl : length (rot_back_from_basis RO c dims Qs y) = numel dims).
    { unfold rot_back_from_basis. destruct (soap_basis_exists RO Qs); [|exact Hy].
      apply mode_products_length; [apply sel_mats_length; exact Hfit|exact Hy]. }
    rewrite soap_rotate_spec by assumption.
    unfold rot_back_from_basis, rot_into_basis. destruct (soap_basis_exists RO Qs); [|reflexivity].
    apply mode_products_inverse; [apply back_pair_cols; assumption|exact Hy].
  Qed.

  (* ---- lengths through one step *)
  Lemma l2_grad_length (c : cfg (F:=R)) w g n : length w = n -> length g = n -> length (l2_grad RO c w g) = n.
  Proof.
    intros Hw Hg. unfold l2_grad. destruct (nz RO (c_wd c) && negb (c_decoupled c)); [|exact Hg].
    unfold vaxpy. apply map2_length_min; assumption.
  Qed.
  Lemma ema_sq_length b2 (v x : list R) n : length v = n -> length x = n -> length (ema_sq RO b2 v x) = n.
  Proof. intros Hv Hx. unfold ema_sq. destruct (is_one RO b2); apply map2_length_min; assumption. Qed.
  Lemma filter_grad_length (c : cfg (F:=R)) t h m g n :
    length g = n -> (c_beta1 c <> 0 -> length m = n) -> length (fst (filter_grad RO c t h m g)) = n.
  Proof.
    intros Hg Hm. unfold filter_grad. destruct (nz RO (c_beta1 c)) eqn:E; [|exact Hg].
    apply nz_R in E. specialize (Hm E). cbn [fst].
    assert (H1 : forall wgt, length (vlerp RO m g wgt) = n) by (intros; unfold vlerp; apply map2_length_min; assumption).
    destruct (feqb RO (c_beta3 c) (c_beta1 c)), (c_biascorr c); try rewrite map_length; apply H1.
  Qed.

  (* ---- soap_step_is_adam_in_basis *)
  Theorem soap_step_is_adam_in_basis (c : cfg (F:=R)) t h dims answers w st g0 :
    c_kind c = KSoap ->
    let N := numel dims in
    let st' := snd (fst (block_step RO c t h dims answers w st g0)) in
    let Q' := s_inv st' in
    let g := l2_grad RO c w g0 in
    let bc2 := bias_corr2 RO (c_biascorr c) (c_beta2 c) t (h_bc2 h) in
    let ghat := fst (filter_grad RO c t h (s_filt st) g) in
    mats_fit (dims_selector c (length dims)) dims Q' ->
    length w = N -> length g0 = N -> length (s_coreig st) = N -> (c_beta1 c <> 0 -> length (s_filt st) = N) ->
    (* the accumulator receives the squared gradient, rotated into the bases the step leaves stored, every step *)
    s_coreig st' = (if Reqb (c_beta2 c) 1
                    then map2 (fun v r => v + r * r) (s_coreig st) (rot_into_basis RO c dims Q' g)
                    else map2 (fun v r => c_beta2 c * v + (1 - c_beta2 c) * (r * r)) (s_coreig st) (rot_into_basis RO c dims Q' g))
    (* the direction is rot_back( rot ghat / (V'/bc2 + eps)^(1/root) ), followed by the usual grafting / decay / momentum *)
    /\ block_direction RO c t h dims answers w st g0 =
       (let gv := graft_update RO c (s_graft st) g in
        let Ps := adam_direction_in_basis RO c dims bc2 Q' (s_coreig st') ghat in
        let P := if use_grafting_method c t then graft_precond RO c t h gv ghat
                 else match c_graft c with
                      | GNone => Ps
                      | _ => vscale RO (norm2 RO (graft_precond RO c t h gv ghat) / (norm2 RO Ps + graft_eps RO)) Ps
                      end in
        let P := if nz RO (c_wd c) && c_decoupled c then vaxpy RO P (c_wd c) w else P in
        fst (momentum_step RO c (s_mom st) P)).
  Proof.
    intros Hk. cbv zeta.
    destruct (block_step_soap RO c t h dims answers w st g0 Hk) as (Hf & Hi & Hd & _ & Hv). cbv zeta in Hf, Hi, Hd, Hv.
    set (st' := snd (fst (block_step RO c t h dims answers w st g0))) in *.
    intros Hfit Hw Hg0 HV Hfilt.
    set (g := l2_grad RO c w g0) in *.
    assert (Hg : length g = numel dims) by (apply l2_grad_length; assumption).
    assert (Hrot : soap_rotate RO c dims (s_inv st') g = rot_into_basis RO c dims (s_inv st') g)
      by (apply soap_rotate_spec; assumption).
    assert (HV' : s_coreig st' = ema_sq RO (c_beta2 c) (s_coreig st) (rot_into_basis RO c dims (s_inv st') g))
      by (rewrite Hv, <- Hi; exact (f_equal _ Hrot)).
    split; [rewrite HV'; apply ema_sq_spec|].
    assert (HlenV' : length (s_coreig st') = numel dims).
    { rewrite HV'. apply ema_sq_length; [exact HV|apply rot_into_basis_length; assumption]. }
    assert (Hghat : length (fst (filter_grad RO c t h (s_filt st) g)) = numel dims) by (apply filter_grad_length; assumption).
    unfold block_direction. fold g. rewrite Hk.
    remember (if perform_amortized c t then _ else _) as r eqn:Hr in *.
    destruct r as [[invs dg] qs]. cbn [fst snd] in Hi, Hd, Hv.
    destruct (filter_grad RO c t h (s_filt st) g) as [ghat filt] eqn:Hfg. cbn [fst] in *.
    rewrite <- Hv, <- Hi.
    rewrite (shampoo_precond_soap RO c dims _ (mkS _ (s_inv st') _ (s_coreig st') _ _ _) ghat Hk) by assumption.
    reflexivity.
  Qed.
End SoapReal.

(* ====================================================================== Part 7: oracle contracts *)
Section Contracts.
  Variable rnd : R -> R.
  Local Notation RO := (R_ops rnd).
  Local Notation rsum := (sumn RO).
  Local Notation lmat := (list (list R)).

  (* eigendecomposition method: the oracle contract (what torch.linalg.eigh is trusted / measured to deliver) on the
     matrices of a domain [dom]: the answer is an orthogonal matrix (orthonormal rows and columns) that diagonalises the
     queried matrix.  (For a square real matrix orthonormal columns imply orthonormal rows; that implication is not proved
     here, so the contract names both and the harness measures both.) *)
  Section EighContract.
    Variable eigvecs : lmat -> lmat -> bool -> lmat.
    Variable dom : lmat -> Prop.
    Hypothesis eigh_contract : forall A E d, dom A ->
      orthonormal RO (length A) (eigvecs A E d) /\ diagonalises RO (length A) A (eigvecs A E d).

    Theorem stored_basis_valid_eigh (c : cfg (F:=R)) t h dims w st g0 :
      c_kind c = KSoap -> perform_amortized c t = true ->
      let fs := update_factors RO c dims (l2_grad RO c w g0) (s_factors st) in
      length (s_inv st) = length fs -> length (s_isdiag st) = length fs ->
      let st' := snd (fst (block_step RO c t h dims (oracle_answers RO eigvecs fs (s_inv st) (s_isdiag st)) w st g0)) in
      forall k, (k < length fs)%nat -> dom (nth k fs []) ->
        orthonormal RO (length (nth k fs [])) (nth k (s_inv st') [])
        /\ diagonalises RO (length (nth k fs [])) (nth k fs []) (nth k (s_inv st') []).
    Proof.
      intros Hk Hp fs Hi Hd st' k Hlt Hdom.
      destruct (basis_is_oracle_of_refresh_factor RO eigvecs c t h dims w st g0 Hk Hp Hi Hd) as (_ & _ & Hnth).
      fold fs in Hnth. fold st' in Hnth. rewrite (Hnth k Hlt). apply eigh_contract. exact Hdom.
    Qed.
  End EighContract.

  (* ---- link to the model of matrix_eigenvectors of property C12 (Eigenvectors.v): the optimizer's oracle is that
     routine, called with the factor (n x n), the stored basis as estimate, and the diagonality flag; a failed call keeps
     the previous basis (_amortized_computation) *)
  Section C12Link.
    Variable eigh : nat -> nat -> Matrix.mat R -> reply (Matrix.vec R * Matrix.mat R).
    Variable qr : nat -> nat -> Matrix.mat R -> reply (Matrix.mat R).
    Variable argsort : nat -> Matrix.vec R -> list nat.

    Definition c12_oracle (cf : config R) (dt : dtype) (A E : lmat) (d : bool) : lmat :=
      let n := length A in
      match r_out (matrix_eigenvectors RO eigh qr argsort [n; n] dt (of_rows RO A) (Some (of_rows RO E)) cf d) with
      | Ok _ _ Q => mtab n Q
      | _ => E
      end.

    Lemma mnth_mtab n (Q : Matrix.mat R) i j : (i < n)%nat -> (j < n)%nat -> mnth RO (mtab n Q) i j = Q i j.
    Proof.
      intros Hi Hj. unfold mnth, mtab. rewrite (nth_map_seq (fun i => map (Q i) (seq 0 n))) by exact Hi.
      apply nth_map_seq. exact Hj.
    Qed.
    Lemma mtab_length n (Q : Matrix.mat R) : length (mtab n Q) = n.
    Proof. unfold mtab. rewrite map_length, seq_length. reflexivity. Qed.

    Lemma cols_orthonormal_of_morth_cols n (Q : Matrix.mat R) : morth_cols RO n Q -> cols_orthonormal RO n (mtab n Q).
    Proof.
      intros H i j Hi Hj. specialize (H i j Hi Hj). rewrite rmmul_get in H by assumption.
      unfold Matrix.mtrans, mid in H. rewrite delta_R. cbn [f1 f0 R_ops] in H. rewrite <- H.
      apply sumn_ext. intros k Hk. rewrite !mnth_mtab by assumption. reflexivity.
    Qed.

    Lemma diagonalises_of_meq n (A : lmat) (Q : Matrix.mat R) L :
      meq n (Matrix.mmul RO n (Matrix.mtrans Q) (Matrix.mmul RO n (of_rows RO A) Q)) (mdiag RO L) ->
      diagonalises RO n A (mtab n Q).
    Proof.
      intros H i j Hi Hj Hne. specialize (H i j Hi Hj). rewrite rmmul_get in H by assumption.
      unfold mdiag in H. destruct (Nat.eqb_spec i j) as [|_]; [contradiction|]. cbn [f0 R_ops] in H.
      change (f0 RO) with 0. rewrite <- H. apply sumn_ext. intros k Hk.
      unfold Matrix.mtrans. rewrite rmmul_get by assumption. rewrite <- rsum_mult_l.
      apply sumn_ext. intros l Hl. rewrite !mnth_mtab by assumption. unfold of_rows, mnth. change (fmul RO) with Rmult. ring.
    Qed.

    (* eigendecomposition method through the C12 model: with LAPACK's contract [eigh_spec] the stored answer has
       orthonormal columns, diagonalises the queried factor, eigenvalues ascending *)
    Theorem c12_eigh_oracle_valid retry dt (A E : lmat) L Q :
      (forall k n A L Q, eigh k n A = Answer (L, Q) -> eigh_spec rnd n A L Q) ->
      length A <> 1%nat -> eigh 0%nat (length A) (of_rows RO A) = Answer (L, Q) ->
      c12_oracle (EighCfg retry) dt A E false = mtab (length A) Q
      /\ cols_orthonormal RO (length A) (mtab (length A) Q)
      /\ diagonalises RO (length A) A (mtab (length A) Q)
      /\ ascending (length A) L.
    Proof.
      intros Hspec Hn He. set (n := length A) in *.
      destruct (eigvec_dispatch rnd eigh qr argsort Hspec) as (_ & _ & _ & _ & H5 & _).
      destruct (H5 n dt (of_rows RO A) (Some (of_rows RO E)) retry L Q Hn He) as (Hrun & Ho & Hd & Ha).
      unfold c12_oracle. fold n. rewrite Hrun. cbn [r_out].
      split; [reflexivity|]. split; [apply cols_orthonormal_of_morth_cols; exact Ho|].
      split; [apply (diagonalises_of_meq n A Q L); exact Hd|exact Ha].
    Qed.

    (* QR method through the C12 model: the stored answer is the k-th orthogonal-iteration iterate of the PREVIOUS basis
       (Q_0 = previous basis, Q_(j+1) = Q factor of A Q_j), columns sorted by Rayleigh quotient, k fixed by the loop rule
       (max_iterations, tolerance); with the contracts of qr and argsort its columns are orthonormal *)
    Theorem c12_qr_oracle_is_orthogonal_iteration mi tol dt (A E : lmat) sh dt' Qres :
      let n := length A in
      n <> 1%nat -> is_zero_mat RO n (of_rows RO E) = false ->
      r_out (matrix_eigenvectors RO eigh qr argsort [n; n] dt (of_rows RO A) (Some (of_rows RO E)) (QRCfg mi tol) false) = Ok sh dt' Qres ->
      c12_oracle (QRCfg mi tol) dt A E false = mtab n Qres
      /\ (exists k Qk, loop_rule rnd qr n (of_rows RO A) (of_rows RO E) tol (Z.to_nat mi) k
                       /\ iterate rnd qr n (of_rows RO A) (of_rows RO E) k = Some Qk
                       /\ Qres = permute_cols Qk (argsort n (rayleigh RO n (of_rows RO A) Qk)))
      /\ ((forall k n M Q, qr k n M = Answer Q -> qr_spec rnd n M Q) -> (forall n v, argsort_spec n v (argsort n v)) ->
          ((1 <= mi)%Z \/ morth_cols RO n (of_rows RO E)) -> cols_orthonormal RO n (mtab n Qres)).
    Proof.
      intros n Hn Hz Hrun. split; [unfold c12_oracle; fold n; rewrite Hrun; reflexivity|]. split.
      - destruct (mev_qr_is_permuted_iterate rnd eigh qr argsort n _ _ tol dt mi sh dt' Qres Hn Hz Hrun)
          as (k & Qk & H1 & H2 & _ & _ & H5 & _).
        exists k, Qk. auto.
      - intros Hqr Hargsort Hmi.
        destruct (mev_qr_iter_orthonormal rnd eigh qr argsort Hqr Hargsort n _ _ tol dt mi sh dt' Qres Hn Hz Hmi Hrun)
          as (_ & _ & _ & _ & _ & Ho).
        apply cols_orthonormal_of_morth_cols. exact Ho.
    Qed.
  End C12Link.
End Contracts.

(* ====================================================================== Part 8: orders 1 and 2 in matrix form (any scalar) *)
Local Close Scope R_scope.
Section SmallOrders.
  Context {F : Type} (Op : ops F).
  Local Notation lmat := (list (list F)).

  (* order 1: the rotated vector is Q^T x *)
  Lemma mode_products_order1 n (Q : lmat) x : length x = n ->
    mode_products Op [n] [Some Q] x = tab n (fun j => sumn Op n (fun i => fmul Op (vnth Op x i) (mnth Op Q i j))).
  Proof.
    intros Hx. cbn [mode_products numel fold_right]. rewrite map_id.
    rewrite (concat_chunks Op) by (rewrite mode0_length; lia).
    unfold mode0. rewrite Nat.mul_1_r. apply tab_ext. intros p Hp.
    rewrite Nat.mod_1_r, Nat.div_1_r. apply sumn_ext. intros i Hi. rewrite Nat.mul_1_r, Nat.add_0_r. reflexivity.
  Qed.

  (* order 2: with X the m x n matrix of the block, the rotated block is L^T X R:
     entry (a, b) = sum_j (sum_i X[i][j] L[i][a]) R[j][b] *)
  Lemma mode_products_order2 m n (L Rr : lmat) x : length x = m * n ->
    mode_products Op [m; n] [Some L; Some Rr] x
    = tab (m * n) (fun p => sumn Op n (fun j => fmul Op (sumn Op m (fun i => fmul Op (vnth Op x (i * n + j)) (mnth Op L i (p / n))))
                                                    (mnth Op Rr j (p mod n)))).
  Proof.
    intros Hx. change (mode_products Op [m; n] [Some L; Some Rr] x)
      with (concat (map (mode_products Op [n] [Some Rr]) (chunks (numel [n]) m (mode0 Op m (numel [n]) L x)))).
    change (numel [n]) with (n * 1). rewrite Nat.mul_1_r.
    apply (concat_eq_tab Op _ m n).
    - rewrite map_length. apply chunks_length.
    - intros a Ha. rewrite (nth_map_lt _ _ a []) by (rewrite chunks_length; exact Ha).
      rewrite mode_products_order1 by (apply chunks_row_length; [apply mode0_length|exact Ha]). apply tab_length.
    - intros a b Ha Hb. unfold mnth. rewrite (nth_map_lt _ _ a []) by (rewrite chunks_length; exact Ha).
      rewrite mode_products_order1 by (apply chunks_row_length; [apply mode0_length|exact Ha]).
      rewrite nth_tab by exact Hb. rewrite div_small', mod_small' by exact Hb.
      apply sumn_ext. intros j Hj. f_equal.
      change (vnth Op (nth a (chunks n m (mode0 Op m n L x)) []) j) with (mnth Op (chunks n m (mode0 Op m n L x)) a j).
      rewrite mnth_chunks by assumption. apply vnth_mode0; assumption.
  Qed.
End SmallOrders.

(* ====================================================================== Part 9: dtype tags of the refresh, schedule checker (discrete) *)
Section DtypeProofs.
  Variable eigh_kernel_supported : dtype -> bool.
  Variable qr_kernel_supported : dtype -> bool.
  Local Notation tags := (refresh_tags eigh_kernel_supported qr_kernel_supported).

  (* the repaired code: the estimate is cast to A's dtype, so A @ Q never mixes dtypes; the QR refresh succeeds for EVERY
     pairing of parameter dtype and preconditioner dtype for which the platform has a QR kernel, and the stored basis
     keeps the parameter dtype *)
  Theorem qr_dtype_ok pdt fdt :
    qr_kernel_supported fdt = true ->
    tags true MQR pdt fdt true = RComputed fdt
    /\ refresh_succeeds (tags true MQR pdt fdt true) = true
    /\ stored_basis_tag pdt (tags true MQR pdt fdt true) = pdt.
  Proof.
    intros H. unfold refresh_tags. assert (E : dtype_eqb fdt fdt = true) by (destruct fdt; reflexivity).
    rewrite E, H. repeat split; reflexivity.
  Qed.

  (* no QR kernel for the factor dtype: every refresh with a non-zero estimate fails (F11 on this platform: bfloat16) *)
  Theorem qr_no_kernel_fails pdt fdt :
    qr_kernel_supported fdt = false -> tags true MQR pdt fdt true = RNoKernel.
  Proof.
    intros H. unfold refresh_tags. assert (E : dtype_eqb fdt fdt = true) by (destruct fdt; reflexivity).
    rewrite E, H. reflexivity.
  Qed.

  (* the code before commit 0ab4e53 (estimate not cast): A @ Q mixes dtypes exactly when they differ (F2) *)
  Theorem qr_dtype_prefix_refuted pdt fdt :
    tags false MQR pdt fdt true = RDtypeMismatch <-> pdt <> fdt.
  Proof.
    unfold refresh_tags. destruct pdt, fdt; cbn [dtype_eqb];
      try (split; [intros _; discriminate|reflexivity]);
      match goal with |- context [qr_kernel_supported ?d] => destruct (qr_kernel_supported d) end;
      (split; [discriminate|intros H; exfalso; apply H; reflexivity]).
  Qed.

  (* first refresh (estimate all zero) and the eigendecomposition method: eigh on A, retried in float64 *)
  Theorem eigh_path_tags cast pdt fdt :
    tags cast MEigh pdt fdt true = eigh_tags eigh_kernel_supported fdt
    /\ tags cast MEigh pdt fdt false = eigh_tags eigh_kernel_supported fdt
    /\ tags cast MQR pdt fdt false = eigh_tags eigh_kernel_supported fdt
    /\ (refresh_succeeds (eigh_tags eigh_kernel_supported fdt) = true <-> eigh_kernel_supported fdt = true \/ eigh_kernel_supported F64 = true).
  Proof.
    repeat split; try reflexivity; unfold eigh_tags.
    - destruct (eigh_kernel_supported fdt) eqn:E1; [auto|]. destruct fdt; cbn; try rewrite E1; cbn;
        destruct (eigh_kernel_supported F64) eqn:E2; cbn; intros H; try discriminate; auto.
    - intros [H|H].
      + rewrite H. reflexivity.
      + destruct (eigh_kernel_supported fdt) eqn:E1; [reflexivity|]. destruct fdt; cbn; try rewrite H; try reflexivity.
        congruence.
  Qed.
End DtypeProofs.

(* on the measured platform (kernels for float32 / float64 only): all pairings succeed except QR with bfloat16 factors *)
Theorem dtype_pairings_on_platform m pdt fdt nz :
  refresh_succeeds (refresh_tags lapack_kernel lapack_kernel true m pdt fdt nz) = negb (match m, fdt, nz with MQR, BF16, true | MQR, F16, true => true | _, _, _ => false end).
Proof. destruct m, pdt, fdt, nz; reflexivity. Qed.

Theorem C03_sched_checkb_sound freq start t has_grad :
  C03_sched_checkb freq start t has_grad true = true ->
  has_grad = true /\ (t = start \/ (start < t /\ t mod freq = 0))%Z.
Proof.
  unfold C03_sched_checkb. cbn [negb orb]. rewrite andb_true_iff, orb_true_iff, andb_true_iff, !Z.eqb_eq, Z.ltb_lt. tauto.
Qed.

(* ====================================================================== Part 10: non-vacuity *)
Local Open Scope R_scope.
Section Examples.
  Variable rnd : R -> R.
  Local Notation RO := (R_ops rnd).

  Definition exQl : list (list R) := [[3/5; -4/5]; [4/5; 3/5]].             (* a rotation: orthonormal, not the identity *)
  Definition exAl : list (list R) := [[41; -12]; [-12; 34]].                (* = exQl diag(25,50) exQl^T *)
  (* SOAP, dimension 1 ignored *)
  Definition exc : cfg (F:=R) :=
    mkCfg 0 0 1 0 0 0 0 0 1%Z 1%Z false false false GNone KSoap [1%nat] (OvInt 0%Z) 1.
  Definition exc0 : cfg (F:=R) :=
    mkCfg 0 0 1 0 0 0 0 0 1%Z 1%Z false false false GNone KSoap [] (OvInt 0%Z) 1.

  Ltac small_index i j := destruct i as [|[|i]]; [| |lia]; (destruct j as [|[|j]]; [| |lia]).

  Example exQl_orthonormal : orthonormal RO 2 exQl.
  Proof.
    split; [reflexivity|]. split; intros i j Hi Hj; small_index i j; cbn; lra.
  Qed.

  Example exQl_diagonalises_exAl : diagonalises RO 2 exAl exQl.
  Proof. intros i j Hi Hj Hne. small_index i j; try contradiction; cbn; lra. Qed.

  Example exQl_basis_exists : soap_basis_exists RO [exQl; exQl] = true.
  Proof.
    cbn [soap_basis_exists]. unfold any_nonzero. apply existsb_exists. exists [3/5; -4/5]. split; [left; reflexivity|].
    apply existsb_exists. exists (3/5). split; [left; reflexivity|]. apply nz_R. lra.
  Qed.

  (* the hypotheses of rotate_back_inverse hold for an order-3 block 2 x 1 x 2 with the middle dimension ignored and a
     non-trivial orthonormal basis on the two other modes; the rotation really happens (a basis exists) *)
  Example rotate_back_inverse_instance (x : list R) : length x = 4%nat ->
    soap_rotate_back RO exc [2; 1; 2]%nat [exQl; exQl] (soap_rotate RO exc [2; 1; 2]%nat [exQl; exQl] x) = x.
  Proof.
    intros Hx. apply rotate_back_inverse.
    - cbn. auto.
    - cbn. destruct exQl_orthonormal as (_ & Hr & _). auto.
    - exact Hx.
  Qed.

  (* ... and it is not the identity: order 1, Q^T (5, 10) = (11, 2) *)
  Example soap_rotate_value : soap_rotate RO exc0 [2%nat] [exQl] [5; 10] = [11; 2].
  Proof.
    rewrite soap_rotate_spec; [|cbn; auto|reflexivity].
    unfold rot_into_basis.
    assert (E : soap_basis_exists RO [exQl] = true).
    { cbn [soap_basis_exists]. unfold any_nonzero. apply existsb_exists. exists [3/5; -4/5]. split; [left; reflexivity|].
      apply existsb_exists. exists (3/5). split; [left; reflexivity|]. apply nz_R. lra. }
    rewrite E. cbn [length dims_selector seq map existsb negb c_ignored exc0 sel_mats].
    refine (eq_trans (mode_products_order1 RO 2 exQl [5; 10] eq_refl) _). cbn. f_equal; [lra|f_equal; lra].
  Qed.

  (* without orthonormality the inverse fails: Q = (2) on a block with one entry gives 4 x *)
  Example rotate_back_needs_orthonormal : soap_rotate_back RO exc0 [1%nat] [[[2]]] (soap_rotate RO exc0 [1%nat] [[[2]]] [1]) = [4].
  Proof.
    assert (E : soap_basis_exists RO [[[2]]] = true).
    { cbn [soap_basis_exists]. unfold any_nonzero. apply existsb_exists. exists [2]. split; [left; reflexivity|].
      apply existsb_exists. exists 2. split; [left; reflexivity|]. apply nz_R. lra. }
    assert (R1 : soap_rotate RO exc0 [1%nat] [[[2]]] [1] = [2]).
    { rewrite soap_rotate_spec; [|cbn; auto|reflexivity].
      unfold rot_into_basis. rewrite E. cbn [length dims_selector seq map existsb negb c_ignored exc0 sel_mats].
      refine (eq_trans (mode_products_order1 RO 1 [[2]] [1] eq_refl) _). cbn. f_equal. lra. }
    rewrite R1.
    rewrite soap_rotate_back_spec; [|cbn; auto|reflexivity].
    unfold rot_back_from_basis. rewrite E. cbn [length dims_selector seq map existsb negb c_ignored exc0 sel_mats].
    refine (eq_trans (mode_products_order1 RO 1 _ [2] eq_refl) _). cbn. f_equal. lra.
  Qed.

  (* an oracle meeting [eigh_contract] on a non-empty domain *)
  Example eigh_contract_satisfiable :
    let eigvecs := fun (_ _ : list (list R)) (_ : bool) => exQl in
    let dom := fun A => A = exAl in
    dom exAl /\ forall A E d, dom A -> orthonormal RO (length A) (eigvecs A E d) /\ diagonalises RO (length A) A (eigvecs A E d).
  Proof.
    cbv zeta. split; [reflexivity|]. intros A E d ->. split; [apply exQl_orthonormal|apply exQl_diagonalises_exAl].
  Qed.
End Examples.

(* ====================================================================== Part 11: invariants over whole histories *)
Local Close Scope R_scope.
Section History.
  Context {F : Type} (Op : ops F).
  Local Notation lmat := (list (list F)).

  (* shapes: the mode-k Gram matrix of a tensor of shape dims has d_k rows *)
  Lemma tsh_rotl (d : nat) rest (x : list F) : tsh (rotl Op (mkT (d :: rest) x)) = rest ++ [d].
  Proof. reflexivity. Qed.
  Lemma tsh_rotl_n : forall k dims (x : list F), k <= length dims ->
    tsh (rotl_n Op k (mkT dims x)) = skipn k dims ++ firstn k dims.
  Proof.
    induction k as [|k IH]; intros dims x Hk; [cbn; rewrite app_nil_r; reflexivity|].
    destruct dims as [|d rest]; [cbn in Hk; lia|]. cbn [rotl_n].
    change (rotl Op (mkT (d :: rest) x)) with (mkT (rest ++ [d]) (concat (mtrans Op (numel rest) (chunks (numel rest) d x)))).
    rewrite IH by (rewrite app_length; cbn in *; lia).
    cbn [skipn firstn]. cbn in Hk.
    rewrite skipn_app, firstn_app. replace (k - length rest) with 0 by lia. cbn [skipn firstn]. rewrite app_nil_r, <- app_assoc. reflexivity.
  Qed.

  Lemma mgram_length (a : lmat) : length (mgram Op a) = length a.
  Proof. unfold mgram. apply map_length. Qed.

  Lemma gram_length dims (x : list F) k : k < length dims -> length (gram Op k (mkT dims x)) = nth k dims 0.
  Proof.
    intros Hk. unfold gram. rewrite tsh_rotl_n by lia.
    destruct (skipn k dims) as [|dk rest] eqn:E.
    - exfalso. apply (f_equal (@length nat)) in E. rewrite skipn_length in E. cbn in E. lia.
    - cbn [app]. rewrite mgram_length, chunks_length.
      rewrite <- (firstn_skipn k dims). rewrite app_nth2 by (rewrite firstn_length; lia).
      rewrite firstn_length, Nat.min_l, Nat.sub_diag by lia.
      rewrite E. reflexivity.
  Qed.

  Lemma madd_length (a b : lmat) n : length a = n -> length b = n -> length (madd Op a b) = n.
  Proof. intros. unfold madd. apply map2_length_min; assumption. Qed.
  Lemma mscale_length c (a : lmat) : length (mscale Op c a) = length a.
  Proof. unfold mscale. apply map_length. Qed.

  (* the factor update keeps one d_k x d_k factor per preconditioned mode *)
  Lemma update_factors_fit_gen (c : cfg (F:=F)) (t : tensor (F:=F)) : forall sel i dims (fs : list lmat),
    mats_fit sel dims fs ->
    (forall j, j < length dims -> length (gram Op (i + j) t) = nth j dims 0) ->
    mats_fit sel dims
      (map2 (fun k Fk => if is_one Op (c_beta2 c) then madd Op Fk (gram Op k t)
                         else madd Op (mscale Op (c_beta2 c) Fk) (mscale Op (fsub Op (f1 Op) (c_beta2 c)) (gram Op k t)))
            (sel_indices i sel) fs).
  Proof.
    induction sel as [|b s IH]; intros i dims fs Hfit Hg.
    - destruct dims; [cbn in *; subst; reflexivity|contradiction].
    - destruct dims as [|d ds]; [destruct b; contradiction|].
      assert (Hg' : forall j, j < length ds -> length (gram Op (S i + j) t) = nth j ds 0).
      { intros j Hj. replace (S i + j) with (i + S j) by lia. apply (Hg (S j)). cbn. lia. }
      destruct b.
      + destruct fs as [|Fk fs]; [contradiction|]. destruct Hfit as [HF Hfit].
        cbn [sel_indices app map2 mats_fit]. split; [|apply IH; assumption].
        specialize (Hg 0 ltac:(cbn; lia)). rewrite Nat.add_0_r in Hg. cbn [nth] in Hg.
        destruct (is_one Op (c_beta2 c)); apply madd_length; rewrite ?mscale_length; assumption.
      + cbn [sel_indices app mats_fit]. apply IH; assumption.
  Qed.

  Lemma update_factors_fit (c : cfg (F:=F)) dims g (fs : list lmat) :
    mats_fit (dims_selector c (length dims)) dims fs -> mats_fit (dims_selector c (length dims)) dims (update_factors Op c dims g fs).
  Proof.
    intros Hfit. unfold update_factors. apply update_factors_fit_gen; [exact Hfit|].
    intros j Hj. apply gram_length. exact Hj.
  Qed.

  Lemma mats_fit_same_length : forall sel dims (a b : list lmat), mats_fit sel dims a -> mats_fit sel dims b -> length a = length b.
  Proof.
    induction sel as [|x s IH]; intros dims a b Ha Hb.
    - destruct dims; [cbn in *; subst; reflexivity|contradiction].
    - destruct dims as [|d ds]; [destruct x; contradiction|]. destruct x.
      + destruct a as [|A a], b as [|B b]; try contradiction. destruct Ha as [_ Ha], Hb as [_ Hb]. cbn. rewrite (IH ds a b Ha Hb). reflexivity.
      + apply (IH ds a b Ha Hb).
  Qed.

  Section OracleSizes.
    Variable eigvecs : lmat -> lmat -> bool -> lmat.
    (* the routine returns a matrix of the size of its input with orthonormal rows (torch.linalg.eigh / qr: measured) *)
    Hypothesis eigvecs_rows_orthonormal : forall A E d, length (eigvecs A E d) = length A /\ rows_orthonormal Op (length A) (eigvecs A E d).

    Lemma oracle_answers_fit : forall sel dims (fs invs : list lmat) dg,
      mats_fit sel dims fs -> mats_fit sel dims invs -> length dg = length fs ->
      mats_fit sel dims (oracle_answers Op eigvecs fs invs dg) /\ all_fit (rows_orthonormal Op) sel dims (oracle_answers Op eigvecs fs invs dg).
    Proof.
      induction sel as [|b s IH]; intros dims fs invs dg Hf Hi Hd.
      - destruct dims; [cbn in *; subst; cbn; auto|contradiction].
      - destruct dims as [|d ds]; [destruct b; contradiction|]. destruct b.
        + destruct fs as [|Fk fs], invs as [|Ik invs]; try contradiction. destruct dg as [|g dg]; [discriminate|].
          destruct Hf as [HF Hf], Hi as [HI Hi]. cbn [oracle_answers mats_fit all_fit].
          destruct (eigvecs_rows_orthonormal Fk Ik (g && check_diagonal Op Fk)) as [Hl Ho]. rewrite HF in Hl, Ho.
          destruct (IH ds fs invs dg Hf Hi ltac:(cbn in Hd; lia)) as [H1 H2]. repeat split; assumption.
        + cbn [mats_fit all_fit]. apply IH; assumption.
    Qed.

    (* one step keeps the invariant (the gradient and the block have numel dims entries) *)
    Lemma soap_inv_step (c : cfg (F:=F)) dims st t h w g0 :
      c_kind c = KSoap -> soap_inv Op c dims st -> length w = numel dims -> length g0 = numel dims ->
      soap_inv Op c dims (soap_state_step Op eigvecs c dims st (t, h, w, g0)).
    Proof.
      intros Hk (Hf & Hi & Hd & Hv & Hb) Hw Hg0. unfold soap_state_step.
      set (fs := update_factors Op c dims (l2_grad Op c w g0) (s_factors st)).
      set (answers := oracle_answers Op eigvecs fs (s_inv st) (s_isdiag st)).
      destruct (block_step_soap Op c t h dims answers w st g0 Hk) as (E1 & E2 & E3 & _ & E5). cbv zeta in E1, E2, E3, E5. fold fs in E1, E2, E3, E5.
      set (st' := snd (fst (block_step Op c t h dims answers w st g0))) in *.
      assert (Hfs : mats_fit (dims_selector c (length dims)) dims fs) by (apply update_factors_fit; exact Hf).
      assert (Hlen_i : length (s_inv st) = length fs) by (apply (mats_fit_same_length (dims_selector c (length dims)) dims); assumption).
      assert (Hlen_d : length (s_isdiag st) = length fs) by (rewrite Hd; apply (mats_fit_same_length (dims_selector c (length dims)) dims); assumption).
      destruct (oracle_answers_fit _ dims fs (s_inv st) (s_isdiag st) Hfs Hi Hlen_d) as [Hans Horth]. fold answers in Hans, Horth.
      assert (Hg : length (l2_grad Op c w g0) = numel dims).
      { unfold l2_grad. destruct (nz Op (c_wd c) && negb (c_decoupled c)); [|exact Hg0]. unfold vaxpy. apply map2_length_min; assumption. }
      assert (Hinv' : mats_fit (dims_selector c (length dims)) dims (s_inv st')
                      /\ length (s_isdiag st') = length fs
                      /\ (soap_basis_exists Op (s_inv st') = false \/ all_fit (rows_orthonormal Op) (dims_selector c (length dims)) dims (s_inv st'))).
      { rewrite E2, E3. destruct (perform_amortized c t).
        - pose proof (refresh_lengths Op c (length dims) (bias_corr2 Op (c_biascorr c) (c_beta2 c) t (h_bc2 h)) fs (s_inv st) (s_isdiag st) answers Hlen_i Hlen_d) as HL.
          pose proof (refresh_stores_answers Op c (length dims) (bias_corr2 Op (c_biascorr c) (c_beta2 c) t (h_bc2 h)) fs (s_inv st) (s_isdiag st) answers Hlen_i Hlen_d
                        (mats_fit_same_length (dims_selector c (length dims)) dims _ _ Hans Hfs)) as HA.
          destruct (refresh Op c (length dims) _ fs (s_inv st) (s_isdiag st) answers) as [[ri rd] rq]. cbn [fst snd] in *.
          destruct HL as (_ & HL & _). rewrite HA. auto.
        - cbn [fst snd]. auto. }
      destruct Hinv' as (Hi' & Hd' & Hb').
      unfold soap_inv. rewrite E1. repeat split; try assumption.
      rewrite E5. unfold ema_sq. rewrite <- E2.
      assert (Hrot : length (soap_rotate Op c dims (s_inv st') (l2_grad Op c w g0)) = numel dims).
      { rewrite soap_rotate_spec by assumption. apply rot_into_basis_length_gen; assumption. }
      destruct (is_one Op (c_beta2 c)); apply map2_length_min; assumption.
    Qed.

    (* every history: the invariant holds in every reachable state *)
    Theorem soap_inv_run (c : cfg (F:=F)) dims : c_kind c = KSoap ->
      forall (hist : list (Z * hints (F:=F) * list F * list F)) st,
      soap_inv Op c dims st ->
      Forall (fun i => length (snd (fst i)) = numel dims /\ length (snd i) = numel dims) hist ->
      soap_inv Op c dims (fold_left (soap_state_step Op eigvecs c dims) hist st).
    Proof.
      intros Hk. induction hist as [|[[[t h] w] g0] hist IH]; intros st Hinv Hall; [exact Hinv|].
      cbn [fold_left]. inversion Hall as [|? ? [Hw Hg] Hrest]; subst. cbn [fst snd] in Hw, Hg.
      apply IH; [|exact Hrest]. apply soap_inv_step; assumption.
    Qed.
  End OracleSizes.
End History.

Local Open Scope R_scope.
Section HistoryReal.
  Variable rnd : R -> R.
  Local Notation RO := (R_ops rnd).
  Local Notation lmat := (list (list R)).
  Variable eigvecs : lmat -> lmat -> bool -> lmat.
  Hypothesis eigvecs_rows_orthonormal : forall A E d, length (eigvecs A E d) = length A /\ rows_orthonormal RO (length A) (eigvecs A E d).

  (* in every state reachable from a well-formed state (e.g. the initial one: zero bases) by ANY history of steps, with any
     schedule, rotating back undoes the rotation: the step is Adam in orthonormal coordinates (or in the original ones) *)
  Theorem soap_rotation_invertible_in_every_reachable_state (c : cfg (F:=R)) dims :
    c_kind c = KSoap ->
    forall (hist : list (Z * hints (F:=R) * list R * list R)) st0,
    soap_inv RO c dims st0 ->
    Forall (fun i => length (snd (fst i)) = numel dims /\ length (snd i) = numel dims) hist ->
    let st := fold_left (soap_state_step RO eigvecs c dims) hist st0 in
    forall x, length x = numel dims -> soap_rotate_back RO c dims (s_inv st) (soap_rotate RO c dims (s_inv st) x) = x.
  Proof.
    intros Hk hist st0 Hinv Hall st x Hx.
    destruct (soap_inv_run RO eigvecs eigvecs_rows_orthonormal c dims Hk hist st0 Hinv Hall) as (_ & Hi & _ & _ & Hb). fold st in Hi, Hb.
    destruct Hb as [Hno|Horth]; [|apply rotate_back_inverse; assumption].
    unfold soap_rotate_back, soap_rotate. unfold soap_basis_exists in Hno.
    destruct (s_inv st) as [|Q0 Qs]; [reflexivity|]. rewrite Hno. reflexivity.
  Qed.
End HistoryReal.

(* non-vacuity of the history theorems: the initial state of a 2 x 3 block (zero factors, zero bases) is well-formed, and an
   oracle with orthonormal rows on every input exists (the identity of the right size) *)
Section HistoryExamples.
  Variable rnd : R -> R.
  Local Notation RO := (R_ops rnd).
  Definition zeros (n : nat) : list (list R) := tab n (fun _ => tab n (fun _ => 0)).
  Definition ex_init : bstate (F:=R) := mkS [zeros 2; zeros 3] [zeros 2; zeros 3] [true; true] [0; 0; 0; 0; 0; 0] [] [] [].

  Example ex_init_wellformed : soap_inv RO exc0 [2; 3]%nat ex_init.
  Proof.
    assert (E : nz RO 0 = false) by (apply nz_R_false; reflexivity).
    unfold soap_inv. cbn. repeat split; try reflexivity. left. rewrite !E. reflexivity.
  Qed.

  Example identity_oracle_ok : forall (A E : list (list R)) (d : bool),
    length (idmat RO (length A)) = length A /\ rows_orthonormal RO (length A) (idmat RO (length A)).
  Proof.
    intros A E d. split; [apply tab_length|]. intros i j Hi Hj. unfold idmat.
    rewrite (sumn_ext RO _ _ (fun k => if Nat.eqb k i then (if Nat.eqb j k then 1 else 0) else 0)).
    - rewrite (rsum_delta_r rnd (length A) i (fun k => if Nat.eqb j k then 1 else 0)) by exact Hi.
      unfold delta. rewrite Nat.eqb_sym. reflexivity.
    - intros k Hk. unfold mnth. rewrite !nth_tab by assumption. rewrite ?nth_tab by assumption.
      rewrite (Nat.eqb_sym i k). destruct (Nat.eqb k i); cbn; [destruct (Nat.eqb j k); lra|destruct (Nat.eqb j k); lra].
  Qed.
End HistoryExamples.
