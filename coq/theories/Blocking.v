(* C05 - model of merging and blocking:
     distributed_shampoo/utils/shampoo_utils.py      merge_small_dims, multi_dim_split
     distributed_shampoo/utils/shampoo_distributor.py DistributorInterface._merge_and_block_parameters,
                                                      _merge_and_block_gradients, Distributor.update_params
   Shapes are `list Z`; a tensor that the code builds with view()/torch.split()/detach() only is
   abstracted to a `view` = (storage offset, sizes, strides) - a copy is not expressible. *)
From Coq Require Import ZArith List Bool.
From Shampoo Require Import Show SplitRecovery.   (* list_eqb, forallb2; prodl *)
Import ListNotations.
Open Scope Z_scope.

(* ---------------------------------------------------------------------------------------------
   merge_small_dims(tensor_shape, threshold)

     squeezed_tensor_shape = list(filter(lambda t: t != 1, tensor_shape)) or [1]
     new_tensor_shape = [squeezed_tensor_shape[0]]
     for next_tensor_shape in squeezed_tensor_shape[1:]:
         if (new_dimension := new_tensor_shape[-1] * next_tensor_shape) <= threshold:
             new_tensor_shape[-1] = new_dimension
         else:
             new_tensor_shape.append(next_tensor_shape)

   order 0 (shape ()) and all-ones shapes: the filter leaves [], `or [1]` makes it [1], result (1,). *)
Definition squeeze (shape : list Z) : list Z := filter (fun t => negb (t =? 1)) shape.

Definition squeezed_or_one (shape : list Z) : list Z :=
  match squeeze shape with [] => [1] | l => l end.

(* the loop; `cur` is new_tensor_shape[-1], the result is cur's final value followed by what is appended later *)
Fixpoint merge_loop (thr cur : Z) (rest : list Z) : list Z :=
  match rest with
  | [] => [cur]
  | n :: rest' => if cur * n <=? thr then merge_loop thr (cur * n) rest' else cur :: merge_loop thr n rest'
  end.

Definition merge_small_dims (shape : list Z) (thr : Z) : list Z :=
  match squeezed_or_one shape with
  | [] => []                       (* unreachable: squeezed_or_one is never empty *)
  | d :: rest => merge_loop thr d rest
  end.

(* ---------------------------------------------------------------------------------------------
   views *)
Record view := { voff : Z; vsizes : list Z; vstrides : list Z }.

(* strides of a contiguous (row-major) tensor *)
Fixpoint cstrides (sizes : list Z) : list Z :=
  match sizes with [] => [] | _ :: r => prodl r :: cstrides r end.

Definition contig_view (off : Z) (sizes : list Z) : view :=
  {| voff := off; vsizes := sizes; vstrides := cstrides sizes |}.

Definition Zrange (n : Z) : list Z := map Z.of_nat (seq 0 (Z.to_nat n)).      (* 0, 1, ..., n-1 *)

(* storage offsets addressed by a view, in the view's own row-major order *)
Fixpoint offsets_from (off : Z) (sizes strides : list Z) : list Z :=
  match sizes, strides with
  | n :: ss, st :: sts => flat_map (fun i => offsets_from (off + i * st) ss sts) (Zrange n)
  | _, _ => [off]
  end.

Definition view_offsets (v : view) : list Z := offsets_from (voff v) (vsizes v) (vstrides v).

(* ---------------------------------------------------------------------------------------------
   torch.split(t, split_size, dim)  (ATen split):
     num_splits      = max((dim_size + split_size - 1) / split_size, 1)
     last_split_size = split_size - (split_size * num_splits - dim_size)
     splits[i]       = t.narrow(dim, i * split_size, i < num_splits - 1 ? split_size : last_split_size)
   chunk = (start, length) *)
Definition split_chunks (n b : Z) : list (Z * Z) :=
  let k := Z.max ((n + b - 1) / b) 1 in
  map (fun i => (i * b, if i <? k - 1 then b else b - (b * k - n))) (Zrange k).

Definition split_sizes (n b : Z) : list Z := map snd (split_chunks n b).

Fixpoint set_nth (d : nat) (x : Z) (l : list Z) : list Z :=
  match l with
  | [] => []
  | y :: r => match d with O => x :: r | S d' => y :: set_nth d' x r end
  end.

(* t.narrow(d, start, len): same strides, offset moved by start * stride[d] *)
Definition narrow (v : view) (d : nat) (start len : Z) : view :=
  {| voff := voff v + start * nth d (vstrides v) 0;
     vsizes := set_nth d len (vsizes v);
     vstrides := vstrides v |}.

Definition split_dim (b : Z) (d : nat) (v : view) : list view :=
  map (fun c => narrow v d (fst c) (snd c)) (split_chunks (nth d (vsizes v) 0) b).

(* multi_dim_split(tensor, split_size) =
     reduce(lambda split_tensors, dim: tuple(s for t in split_tensors for s in torch.split(t, split_size, dim=dim)),
            range(tensor.dim()), (tensor,)) *)
Definition multi_dim_split (v : view) (b : Z) : list view :=
  fold_left (fun blocks d => flat_map (split_dim b d) blocks) (seq 0 (length (vsizes v))) [v].

(* ---------------------------------------------------------------------------------------------
   explicit form of the result (proved equal in BlockingProofs.mds_boxes): a block is one chunk per
   dimension, blocks come in lexicographic order of the chunk indices, dimension 0 most significant *)
Fixpoint boxes (sizes : list Z) (b : Z) : list (list (Z * Z)) :=
  match sizes with
  | [] => [[]]
  | n :: ss => flat_map (fun c => map (cons c) (boxes ss b)) (split_chunks n b)
  end.

Fixpoint dot (a b : list Z) : Z :=
  match a, b with x :: a', y :: b' => x * y + dot a' b' | _, _ => 0 end.

Definition box_view (off : Z) (strides : list Z) (box : list (Z * Z)) : view :=
  {| voff := off + dot (map fst box) strides; vsizes := map snd box; vstrides := strides |}.

(* ---------------------------------------------------------------------------------------------
   the distributor: _merge_and_block_parameters stores merged dims and the blocks of every parameter;
   _merge_and_block_gradients views the gradient with the *stored* merged dims and splits it with the
   group's max_preconditioner_dim *)
Definition merged_shape (shape : list Z) (thr : Z) (merge : bool) : list Z :=
  if merge then merge_small_dims shape thr else shape.

Record dist_state := { merged_dims : list Z; param_blocks : list view; num_blocks : nat }.

Definition distributor_init (shape : list Z) (thr : Z) (merge : bool) : dist_state :=
  let m := merged_shape shape thr merge in
  let bl := multi_dim_split (contig_view 0 m) thr in
  {| merged_dims := m; param_blocks := bl; num_blocks := length bl |}.

Definition block_gradients (st : dist_state) (thr : Z) : list view :=
  multi_dim_split (contig_view 0 (merged_dims st)) thr.

Definition blocks (shape : list Z) (thr : Z) (merge : bool) : list view :=
  param_blocks (distributor_init shape thr merge).

(* update_params: torch._foreach_add_(blocks, directions).  `dirs` gives, per block, the direction's
   values in the block's row-major order; the result lists (storage offset, added value). *)
Definition scatter (bl : list view) (dirs : list (list Z)) : list (Z * Z) :=
  flat_map (fun p => combine (view_offsets (fst p)) (snd p)) (combine bl dirs).

(* ---------------------------------------------------------------------------------------------
   comparison with the implementation's observed output (used by generated case files) *)
Definition Zs_eqb : list Z -> list Z -> bool := list_eqb Z.eqb.

Definition view_eqb (v w : view) : bool :=
  (voff v =? voff w) && Zs_eqb (vsizes v) (vsizes w) && Zs_eqb (vstrides v) (vstrides w).

Definition views_eqb : list view -> list view -> bool := list_eqb view_eqb.

Definition mkv (off : Z) (sizes strides : list Z) : view := {| voff := off; vsizes := sizes; vstrides := strides |}.

Definition agree_merge (shape : list Z) (thr : Z) (impl : list Z) : bool :=
  Zs_eqb (merge_small_dims shape thr) impl.

Definition agree_split (sizes : list Z) (b : Z) (impl : list view) : bool :=
  views_eqb (multi_dim_split (contig_view 0 sizes) b) impl.

(* impl_merged = _global_merged_dims_list[0], impl_nblocks = _global_num_blocks_per_param[0],
   impl_param = local_blocked_params, impl_grad = merge_and_block_gradients() (offsets relative to the
   parameter's / the gradient's own storage offset) *)
Definition agree_distributor (shape : list Z) (thr : Z) (merge : bool)
           (impl_merged : list Z) (impl_nblocks : Z) (impl_param impl_grad : list view) : bool :=
  let st := distributor_init shape thr merge in
  Zs_eqb (merged_dims st) impl_merged && (Z.of_nat (num_blocks st) =? impl_nblocks)
  && views_eqb (param_blocks st) impl_param && views_eqb (block_gradients st thr) impl_grad.

(* after update_params on a zero parameter, with block k's direction = base_k + 0,1,2,... in the block's
   own row-major order (base_k given), `storage` is the parameter read in ITS row-major order.
   update_okb decides, for a given list of blocks, that the storage holds exactly what adding direction k
   to the elements addressed by block k produces. *)
Definition update_dirs (bl : list view) (bases : list Z) : list (list Z) :=
  map (fun p => map (Z.add (snd p)) (Zrange (prodl (vsizes (fst p))))) (combine bl bases).

Definition update_okb (bl : list view) (bases : list Z) (storage : list Z) : bool :=
  let upd := scatter bl (update_dirs bl bases) in
  (length upd =? length storage)%nat && (length bl =? length bases)%nat
  && forallb (fun ov => (0 <=? fst ov) && (nth (Z.to_nat (fst ov)) storage (-1) =? snd ov)) upd.

Definition agree_update (shape : list Z) (thr : Z) (merge : bool) (bases : list Z) (storage : list Z) : bool :=
  update_okb (blocks shape thr merge) bases storage.

(* gradient-layout stream: the parameter is contiguous, so `view_offsets` of parameter block k (relative to
   the parameter) is the list of LOGICAL row-major indices block k covers, in the block's own order.  The
   harness gives the parameter a gradient of any memory layout whose VALUES are the logical indices; the
   implementation's gradient block k, read in its own row-major order, must list exactly these indices.
   impl = per gradient block (shape, values). *)
Definition agree_grad_values (shape : list Z) (thr : Z) (merge : bool)
           (impl_merged : list Z) (impl : list (list Z * list Z)) : bool :=
  let st := distributor_init shape thr merge in
  Zs_eqb (merged_dims st) impl_merged
  && forallb2 (fun v g => Zs_eqb (vsizes v) (fst g) && Zs_eqb (view_offsets v) (snd g)) (block_gradients st thr) impl.

(* a gradient layout may be rejected (grad.view(merged_dims) raises) only when merging changes the shape *)
Definition view_may_fail (shape : list Z) (thr : Z) (merge : bool) : bool :=
  negb (Zs_eqb (merged_shape shape thr merge) shape).

(* ---------------------------------------------------------------------------------------------
   parameter-layout stream: a parameter of logical shape `shape` stored with arbitrary strides `pstr`.
   loc maps a logical row-major index to the storage offset (relative to the parameter's first element). *)
Fixpoint loc (sizes strides : list Z) (i : Z) : Z :=
  match sizes, strides with
  | n :: ss, st :: sts => (i / prodl ss) * st + loc ss sts (i mod prodl ss)
  | _, _ => 0
  end.

(* A strided view of shape M over that storage with the same logical order exists iff the strides read off
   the unit steps of M (s_d = loc of the flat index "one step in dim d") reproduce loc on every element.
   Semantic definition of what `param.view(merged_dims)` can express (no transcription of ATen's computeStride);
   BlockingProofs.viewable_complete: if ANY stride vector works then this one does. *)
Definition unit_strides (shape pstr M : list Z) : list Z := map (loc shape pstr) (cstrides M).

Definition viewable (shape pstr M : list Z) : bool :=
  forallb (fun i => loc shape pstr i =? loc M (unit_strides shape pstr M) i) (Zrange (prodl shape)).

Definition viewable_layout (shape pstr : list Z) (thr : Z) (merge : bool) : bool :=
  viewable shape pstr (merged_shape shape thr merge).

(* the implementation's parameter blocks (offsets relative to the parameter's storage offset) must address,
   in their own row-major order, the storage locations of the logical indices of the model's blocks *)
Definition agree_param_layout (shape pstr : list Z) (thr : Z) (merge : bool)
           (impl_merged : list Z) (impl : list view) : bool :=
  let st := distributor_init shape thr merge in
  Zs_eqb (merged_dims st) impl_merged
  && forallb2 (fun v w => Zs_eqb (vsizes v) (vsizes w)
                          && Zs_eqb (map (loc shape pstr) (view_offsets v)) (view_offsets w)) (param_blocks st) impl.

(* update_params observed on the raw storage (index = offset relative to the parameter's first element) *)
Definition update_raw_okb (bl : list view) (bases : list Z) (raw : list Z) : bool :=
  (length bl =? length bases)%nat
  && forallb (fun ov => (0 <=? fst ov) && (nth (Z.to_nat (fst ov)) raw (-1) =? snd ov)) (scatter bl (update_dirs bl bases)).

(* ---------------------------------------------------------------------------------------------
   multi-call stream: several parameters, a presence pattern per call.  Parameter i's blocks are shifted by
   1000*i (offsets and logical indices then identify the parameter); what merge_and_block_gradients must
   leave behind depends on the CURRENT pattern only. *)
Definition shift_view (k : Z) (v : view) : view := mkv (k + voff v) (vsizes v) (vstrides v).

Fixpoint multi_blocks (shapes : list (list Z)) (presence : list bool) (thr : Z) (merge : bool) (i : Z) : list view :=
  match shapes, presence with
  | sh :: shs, b :: bs =>
      (if b then map (shift_view (1000 * i)) (blocks sh thr merge) else []) ++ multi_blocks shs bs thr merge (i + 1)
  | _, _ => []
  end.

Fixpoint multi_selector (shapes : list (list Z)) (presence : list bool) (thr : Z) (merge : bool) : list bool :=
  match shapes, presence with
  | sh :: shs, b :: bs => repeat b (length (blocks sh thr merge)) ++ multi_selector shs bs thr merge
  | _, _ => []
  end.

(* impl_sel = local_grad_selector, impl_p = local_masked_blocked_params (shifted by 1000 * index of the parameter
   whose storage they live in), impl_g = (shape, values) of the returned gradient blocks; gradient i carries
   1000*i + logical index *)
Definition agree_multi (shapes : list (list Z)) (thr : Z) (merge : bool) (presence : list bool)
           (impl_sel : list bool) (impl_p : list view) (impl_g : list (list Z * list Z)) : bool :=
  let bl := multi_blocks shapes presence thr merge 0 in
  list_eqb Bool.eqb (multi_selector shapes presence thr merge) impl_sel
  && views_eqb bl impl_p
  && forallb2 (fun v g => Zs_eqb (vsizes v) (fst g) && Zs_eqb (view_offsets v) (snd g)) bl impl_g.
