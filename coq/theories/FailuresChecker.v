(* C13 - certified boolean checker: decides on the *observed* behaviour of the implementation (exception per
   step with the block/factor it names, counters, tokens and finiteness of the stored matrices, parameter
   change flags) whether property C13 holds on that run.  The specification side (`consec`, `took_part`,
   `failed`, `refresh_step`, `first_bad`) is computed from the inputs and the observed exceptions only. *)
From Coq Require Import List Bool Arith PeanoNat ZArith Lia.
From Shampoo Require Import Show Failures FailuresProofs.
Import ListNotations.

Definition tok_at (l : list (list Z)) (b k : nat) : Z := nth k (nth b l []) (-1)%Z.

Definition opt_nat_eqb (a b : option nat) : bool :=
  match a, b with Some x, Some y => x =? y | None, None => true | _, _ => false end.

(* number of warnings the property demands at step i with outcome `out`: one per failed computation of a block
   that was present and reached, up to (excluding) the factor a PreconditionerValueError names *)
Definition spec_warnings (c : cfg) (rh : list step_input) (i : step_input) (out : outcome) : nat :=
  if refresh_step c rh i
  then fold_right (fun b acc => (if present (i b) && reached b out
                                 then count_fails (fin (i b)) (warn_limit b (nf c b) out) else 0) + acc) 0 (seq 0 (nb c))
  else 0.

Definition is_success (r : routine_outcome) : bool := match r with Success => true | _ => false end.

Definition check_step (c : cfg) (rh : list step_input) (ro : list outcome) (prev : list (list Z))
                      (i : step_input) (out : outcome) (o : obs) : bool :=
  let bl := seq 0 (nb c) in
  let cons := fun b => consec c b (i :: rh) (out :: ro) in
  (* tolerance error for b  <->  b took part, its refresh failed, the run of such refreshes exceeds N *)
  forallb (fun b => Bool.eqb (outcome_eqb out (RaiseTol b))
                             (took_part c b rh i out && failed c b i && (tol c <? cons b))) bl
  (* stored matrices finite *)
  && forallb (forallb (fun x : bool => x)) (o_fins o)
  (* a failed computation keeps the stored matrix *)
  && forallb (fun b => forallb (fun k => implb (is_fail (rout (fin (i b) k)))
                                               (Z.eqb (tok_at (o_toks o) b k) (tok_at prev b k))) (seq 0 (nf c b))) bl
  (* a successful computation the loop got to is stored (whatever the other factors of the block did) *)
  && forallb (fun b => forallb (fun k => implb (refresh_step c rh i && present (i b) && reached b out
                                                && (k <? warn_limit b (nf c b) out)
                                                && is_success (rout (fin (i b) k)) && fm_finite (fin (i b) k))
                                               (Z.eqb (tok_at (o_toks o) b k) (Z.of_nat (S (length rh))))) (seq 0 (nf c b))) bl
  (* a raising step writes no parameter *)
  && (outcome_eqb out Ok || forallb negb (o_pchg o))
  (* the counters are the number of consecutive failed refreshes *)
  && list_eqb Nat.eqb (o_cnts o) (map cons bl)
  (* NaN/Inf in a factor matrix or a computed matrix of a present block at a refresh: the step raises *)
  && forallb (fun b => forallb (fun k => implb (refresh_step c rh i && present (i b) && bad_at (fin (i b)) k)
                                               (negb (outcome_eqb out Ok))) (seq 0 (nf c b))) bl
  (* one logged warning per failed computation *)
  && (o_warn o =? spec_warnings c rh i out)
  (* PreconditionerValueError only then, naming the first such factor of the block *)
  && match out with
     | RaisePVE b k => refresh_step c rh i && present (i b) && (b <? nb c)
                       && opt_nat_eqb (first_bad (fin (i b)) 0 (nf c b)) (Some k)
     | _ => true
     end.

Fixpoint check_from (c : cfg) (rh : list step_input) (ro : list outcome) (prev : list (list Z))
                    (h : list step_input) (os : list obs) : bool :=
  match h, os with
  | [], [] => true
  | i :: h', o :: os' =>
      match o_out o with
      | None => false
      | Some out => check_step c rh ro prev i out o && check_from c (i :: rh) (out :: ro) (o_toks o) h' os'
      end
  | _, _ => false
  end.

Definition init_toks (c : cfg) : list (list Z) := map (fun n => repeat 0%Z n) (nfs c).

(* h: history, oldest step first; os: what was observed after each step *)
Definition C13_checkb (c : cfg) (h : list step_input) (os : list obs) : bool := check_from c [] [] (init_toks c) h os.

(* behaviour only (everything but the counter values, which are internal state) *)
Definition no_cnts (c : cfg) (rh : list step_input) (ro : list outcome) (i : step_input) (out : outcome) (o : obs) : obs :=
  {| o_out := o_out o; o_cnts := map (fun b => consec c b (i :: rh) (out :: ro)) (seq 0 (nb c));
     o_toks := o_toks o; o_fins := o_fins o; o_pchg := o_pchg o; o_calls := o_calls o; o_warn := o_warn o |}.
Fixpoint check_beh_from (c : cfg) (rh : list step_input) (ro : list outcome) (prev : list (list Z))
                        (h : list step_input) (os : list obs) : bool :=
  match h, os with
  | [], [] => true
  | i :: h', o :: os' =>
      match o_out o with
      | None => false
      | Some out => check_step c rh ro prev i out (no_cnts c rh ro i out o)
                    && check_beh_from c (i :: rh) (out :: ro) (o_toks o) h' os'
      end
  | _, _ => false
  end.
Definition C13_behaviour_checkb (c : cfg) (h : list step_input) (os : list obs) : bool :=
  check_beh_from c [] [] (init_toks c) h os.

(* ---------------------------------------------------------------------------------------------- *)
(* the property, as a proposition about an observed run *)

Record step_spec (c : cfg) (rh : list step_input) (ro : list outcome) (prev : list (list Z))
                 (i : step_input) (out : outcome) (o : obs) : Prop := {
  sp_tol : forall b, b < nb c ->
             (out = RaiseTol b <->
              took_part c b rh i out = true /\ failed c b i = true /\ tol c < consec c b (i :: rh) (out :: ro));
  sp_fin : forall l f, In l (o_fins o) -> In f l -> f = true;
  sp_keep : forall b k, b < nb c -> k < nf c b -> rout (fin (i b) k) = Fail ->
              tok_at (o_toks o) b k = tok_at prev b k;
  sp_store : forall b k, b < nb c -> k < nf c b -> refresh_step c rh i = true -> present (i b) = true ->
               reached b out = true -> k < warn_limit b (nf c b) out ->
               rout (fin (i b) k) = Success -> fm_finite (fin (i b) k) = true ->
               tok_at (o_toks o) b k = Z.of_nat (S (length rh));
  sp_par : out <> Ok -> forall x, In x (o_pchg o) -> x = false;
  sp_cnt : o_cnts o = map (fun b => consec c b (i :: rh) (out :: ro)) (seq 0 (nb c));
  sp_bad : forall b k, b < nb c -> k < nf c b -> refresh_step c rh i = true -> present (i b) = true ->
             bad_at (fin (i b)) k = true -> out <> Ok;
  sp_warn : o_warn o = spec_warnings c rh i out;
  sp_pve : forall b k, out = RaisePVE b k ->
             refresh_step c rh i = true /\ present (i b) = true /\ b < nb c /\
             first_bad (fin (i b)) 0 (nf c b) = Some k }.

Fixpoint spec_from (c : cfg) (rh : list step_input) (ro : list outcome) (prev : list (list Z))
                   (h : list step_input) (os : list obs) : Prop :=
  match h, os with
  | [], [] => True
  | i :: h', o :: os' =>
      exists out, o_out o = Some out /\ step_spec c rh ro prev i out o /\
                  spec_from c (i :: rh) (out :: ro) (o_toks o) h' os'
  | _, _ => False
  end.

Definition C13_spec (c : cfg) (h : list step_input) (os : list obs) : Prop := spec_from c [] [] (init_toks c) h os.

(* ---------------------------------------------------------------------------------------------- *)
(* soundness *)

Lemma outcome_eqb_eq a b : outcome_eqb a b = true <-> a = b.
Proof.
  destruct a, b; cbn; split; intros H; try discriminate; try reflexivity.
  - apply Nat.eqb_eq in H. now subst.
  - inversion H. apply Nat.eqb_refl.
  - apply andb_true_iff in H as [H1 H2]. apply Nat.eqb_eq in H1, H2. now subst.
  - inversion H. now rewrite !Nat.eqb_refl.
Qed.

Lemma list_eqb_nat_eq (a b : list nat) : list_eqb Nat.eqb a b = true -> a = b.
Proof.
  revert b; induction a as [|x a IH]; destruct b as [|y b]; cbn [list_eqb]; intros H; try discriminate; auto.
  apply andb_true_iff in H as [H1 H2]. apply Nat.eqb_eq in H1. f_equal; auto.
Qed.

Lemma check_step_sound c rh ro prev i out o : check_step c rh ro prev i out o = true -> step_spec c rh ro prev i out o.
Proof.
  unfold check_step. intros H.
  apply andb_true_iff in H as [H H7]. apply andb_true_iff in H as [H H8]. apply andb_true_iff in H as [H H6]. apply andb_true_iff in H as [H H5].
  apply andb_true_iff in H as [H H4]. apply andb_true_iff in H as [H H9]. apply andb_true_iff in H as [H H3]. apply andb_true_iff in H as [H1 H2].
  split.
  - intros b Hb. rewrite forallb_forall in H1. specialize (H1 b). rewrite in_seq in H1.
    assert (Hin : 0 <= b < 0 + nb c) by lia. apply H1 in Hin. apply Bool.eqb_prop in Hin.
    rewrite <- outcome_eqb_eq, Hin. rewrite !andb_true_iff, Nat.ltb_lt. tauto.
  - intros l f Hl Hf. rewrite forallb_forall in H2. specialize (H2 l Hl). rewrite forallb_forall in H2. exact (H2 f Hf).
  - intros b k Hb Hk Hf. rewrite forallb_forall in H3. assert (Hin : In b (seq 0 (nb c))) by (apply in_seq; lia).
    specialize (H3 b Hin). rewrite forallb_forall in H3. assert (Hik : In k (seq 0 (nf c b))) by (apply in_seq; lia).
    specialize (H3 k Hik). unfold is_fail in H3. rewrite Hf in H3. cbn in H3. now apply Z.eqb_eq.
  - intros b k Hb Hk Hr Hp Hre Hl Hs Hfm. rewrite forallb_forall in H9. assert (Hin : In b (seq 0 (nb c))) by (apply in_seq; lia).
    specialize (H9 b Hin). rewrite forallb_forall in H9. assert (Hik : In k (seq 0 (nf c b))) by (apply in_seq; lia).
    specialize (H9 k Hik). apply Nat.ltb_lt in Hl. rewrite Hr, Hp, Hre, Hl, Hs, Hfm in H9. cbn in H9. now apply Z.eqb_eq.
  - intros Ho x Hx. apply orb_true_iff in H4 as [H4|H4]; [apply outcome_eqb_eq in H4; contradiction|].
    rewrite forallb_forall in H4. specialize (H4 x Hx). now destruct x.
  - now apply list_eqb_nat_eq.
  - intros b k Hb Hk Hr Hp Hbad Ho. rewrite forallb_forall in H6. assert (Hin : In b (seq 0 (nb c))) by (apply in_seq; lia).
    specialize (H6 b Hin). rewrite forallb_forall in H6. assert (Hik : In k (seq 0 (nf c b))) by (apply in_seq; lia).
    specialize (H6 k Hik). rewrite Hr, Hp, Hbad, Ho in H6. discriminate.
  - now apply Nat.eqb_eq.
  - intros b k Ho. subst out. apply andb_true_iff in H7 as [H7 Hd]. apply andb_true_iff in H7 as [H7 Hc].
    apply andb_true_iff in H7 as [Ha Hb]. apply Nat.ltb_lt in Hc. repeat split; auto.
    destruct (first_bad _ _ _) as [k'|]; cbn in Hd; [|discriminate]. apply Nat.eqb_eq in Hd. now subst.
Qed.

Lemma check_from_sound c : forall h os rh ro prev, check_from c rh ro prev h os = true -> spec_from c rh ro prev h os.
Proof.
  induction h as [|i h IH]; intros [|o os] rh ro prev; cbn [check_from spec_from]; try discriminate; auto.
  destruct (o_out o) as [out|]; [|discriminate]. intros H. apply andb_true_iff in H as [H1 H2].
  exists out. split; [reflexivity|]. split; [now apply check_step_sound|now apply IH].
Qed.

Theorem C13_checkb_sound c h os : C13_checkb c h os = true -> C13_spec c h os.
Proof. apply check_from_sound. Qed.

(* the same for the behaviour-only checker: the specification with the counter clause made trivially true *)
Fixpoint beh_spec_from (c : cfg) (rh : list step_input) (ro : list outcome) (prev : list (list Z))
                       (h : list step_input) (os : list obs) : Prop :=
  match h, os with
  | [], [] => True
  | i :: h', o :: os' =>
      exists out, o_out o = Some out /\ step_spec c rh ro prev i out (no_cnts c rh ro i out o) /\
                  beh_spec_from c (i :: rh) (out :: ro) (o_toks o) h' os'
  | _, _ => False
  end.
Definition C13_behaviour_spec (c : cfg) (h : list step_input) (os : list obs) : Prop :=
  beh_spec_from c [] [] (init_toks c) h os.

Lemma check_beh_from_sound c : forall h os rh ro prev,
  check_beh_from c rh ro prev h os = true -> beh_spec_from c rh ro prev h os.
Proof.
  induction h as [|i h IH]; intros [|o os] rh ro prev; cbn [check_beh_from beh_spec_from]; try discriminate; auto.
  destruct (o_out o) as [out|]; [|discriminate]. intros H. apply andb_true_iff in H as [H1 H2].
  exists out. split; [reflexivity|]. split; [now apply check_step_sound|now apply IH].
Qed.

Theorem C13_behaviour_checkb_sound c h os : C13_behaviour_checkb c h os = true -> C13_behaviour_spec c h os.
Proof. apply check_beh_from_sound. Qed.

(* ---------------------------------------------------------------------------------------------- *)
(* the model's own observations satisfy the specification the checker decides (so `C13_spec` is a faithful
   restatement of the theorems of FailuresProofs, and a run that agrees with the model satisfies it) *)

Definition toksZ (st : state) : list (list Z) :=
  map (fun sb => map (fun f => Z.of_nat (tok f)) (facts sb)) (blocks st).

Fixpoint pchg_of (a b : list block_state) : list bool :=
  match a, b with
  | x :: a', y :: b' => negb (ptok x =? ptok y) :: pchg_of a' b'
  | _, _ => []
  end.

Definition obs_of (c : cfg) (rh : list step_input) (i : step_input) : obs :=
  let st := state_r c rh in let st' := state_r c (i :: rh) in let out := out_r c rh i in
  {| o_out := Some out; o_cnts := map cnt (blocks st'); o_toks := toksZ st';
     o_fins := map (fun sb => map finite (facts sb)) (blocks st');
     o_pchg := pchg_of (blocks st) (blocks st'); o_calls := ncalls st' - ncalls st;
     o_warn := expected_warnings c st st' i out |}.

(* rh: the steps already taken, most recent first; h: the steps to come, oldest first *)
Fixpoint model_obs_from (c : cfg) (rh : list step_input) (h : list step_input) : list obs :=
  match h with
  | [] => []
  | i :: h' => obs_of c rh i :: model_obs_from c (i :: rh) h'
  end.
Definition model_obs (c : cfg) (h : list step_input) : list obs := model_obs_from c [] h.

Lemma nth_map_error {A B} (g : A -> B) d : forall l k,
  nth k (map g l) d = match nth_error l k with Some x => g x | None => d end.
Proof. induction l as [|a l IH]; intros [|k]; cbn; auto. Qed.

Lemma tok_at_facts st b k :
  tok_at (toksZ st) b k = match nth_error (facts_of st b) k with Some f => Z.of_nat (tok f) | None => (-1)%Z end.
Proof.
  unfold tok_at, toksZ, facts_of.
  rewrite <- (map_map facts (map (fun f => Z.of_nat (tok f))) (blocks st)).
  change (@nil Z) with (map (fun f => Z.of_nat (tok f)) []).
  rewrite (map_nth (map (fun f => Z.of_nat (tok f))) (map facts (blocks st)) [] b).
  apply nth_map_error.
Qed.

Lemma pchg_of_same : forall a b, map ptok a = map ptok b -> forall x, In x (pchg_of a b) -> x = false.
Proof.
  induction a as [|x a IH]; intros [|y b] H z Hz; cbn in *; try contradiction.
  inversion H as [[H1 H2]]. destruct Hz as [<-|Hz]; [rewrite H1, Nat.eqb_refl; reflexivity|eauto].
Qed.

Lemma list_as_nth : forall (l : list nat), l = map (fun b => nth b l 0) (seq 0 (length l)).
Proof.
  induction l as [|a l IH]; [reflexivity|].
  cbn [length seq map nth]. f_equal. rewrite <- seq_shift, map_map. exact IH.
Qed.

Lemma out_r_block_range c rh i b : exc_block (out_r c rh i) = Some b -> b < nb c.
Proof.
  unfold out_r. rewrite (step_out c (state_r c rh) i (inv_mask _ _ (inv_state_r c rh))). unfold ph1.
  destruct (refresh_of c (state_r c rh) i); [|discriminate].
  intros H. apply run_blocks_out_range in H. rewrite length_state_r in H. lia.
Qed.

Lemma init_toks_eq c : init_toks c = toksZ (init c).
Proof.
  unfold init_toks, toksZ, init; cbn [blocks]. rewrite map_map. apply map_ext. intros n. cbn [init_block facts].
  induction n; cbn; congruence.
Qed.

(* the warning count computed from the state (used by `agree`) is the one computed from the history *)
Lemma reachedb_reached b o : reachedb b o = reached b o.
Proof. destruct o; reflexivity. Qed.

Lemma warnings_from_spec c inp o : forall bs b0, map (fun sb => length (facts sb)) bs = skipn b0 (nfs c) ->
  warnings_from b0 bs inp o =
  fold_right (fun b acc => (if present (inp b) && reached b o
                            then count_fails (fin (inp b)) (warn_limit b (nf c b) o) else 0) + acc) 0 (seq b0 (length bs)).
Proof.
  induction bs as [|sb bs IH]; intros b0 H; cbn [warnings_from length seq fold_right]; [reflexivity|].
  cbn [map] in H. assert (Hn : length (facts sb) = nf c b0 /\ map (fun sb => length (facts sb)) bs = skipn (S b0) (nfs c)).
  { unfold nf. revert H. generalize (nfs c). intros l. revert b0. induction l as [|x l IHl]; intros [|b0] H; cbn in *; try discriminate.
    - inversion H; auto.
    - apply IHl in H. exact H. }
  destruct Hn as [H1 H2]. rewrite (IH (S b0) H2), H1, reachedb_reached. reflexivity.
Qed.

Lemma model_warnings c rh i :
  expected_warnings c (state_r c rh) (state_r c (i :: rh)) i (out_r c rh i) = spec_warnings c rh i (out_r c rh i).
Proof.
  unfold expected_warnings, spec_warnings, refresh_step. cbn [state_r].
  rewrite step_gstep, length_state_r, gstep_state_r.
  destruct (any_present (nb c) i) eqn:Ea; cbn [andb].
  - replace (S (gcount (nb c) rh) =? gcount (nb c) rh) with false by (symmetry; apply Nat.eqb_neq; lia). cbn [negb andb].
    destruct (is_refresh c (S (gcount (nb c) rh))); [|reflexivity].
    rewrite (warnings_from_spec c i (out_r c rh i) (blocks (state_r c rh)) 0).
    + now rewrite length_state_r.
    + cbn [skipn]. apply (inv_nf _ _ (inv_state_r c rh)).
  - rewrite Nat.eqb_refl. reflexivity.
Qed.

Lemma model_step_spec c rh i :
  step_spec c rh (outs_r c rh) (toksZ (state_r c rh)) i (out_r c rh i)
            (obs_of c rh i).
Proof.
  split; unfold obs_of; cbn [o_out o_cnts o_toks o_fins o_pchg o_warn].
  - intros b Hb. apply raises_iff_consecutive_failures_exceed; exact Hb.
  - intros l f Hl Hf. apply in_map_iff in Hl as [sb [<- Hsb]]. apply in_map_iff in Hf as [fs [<- Hfs]].
    destruct (inv_state_r c (i :: rh)) as [_ Hok _]. rewrite Forall_forall in Hok. specialize (Hok sb Hsb).
    unfold block_ok, facts_ok in Hok. rewrite Forall_forall in Hok. exact (Hok fs Hfs).
  - intros b k _ _ Hf. rewrite !tok_at_facts. pose proof (failure_keeps_previous_matrix c rh i b k Hf) as E.
    unfold step_input in *. rewrite E. reflexivity.
  - intros b k Hb Hk Hr Hp Hre Hl Hs Hfm. rewrite tok_at_facts.
    pose proof (success_is_stored c b k Hb Hk rh i Hr Hp Hre Hl Hs Hfm) as E. unfold step_input in *. rewrite E. reflexivity.
  - intros Ho x Hx. apply (pchg_of_same (blocks (state_r c rh)) (blocks (state_r c (i :: rh)))); [|exact Hx].
    symmetry. exact (nan_raises_before_param_update c rh i Ho).
  - rewrite (list_as_nth (map cnt (blocks (state_r c (i :: rh))))) at 1.
    rewrite map_length, length_state_r. apply map_ext_in. intros b Hb. apply in_seq in Hb.
    apply (counter_refines c b); lia.
  - intros b k Hb Hk Hr Hp Hbad. exact (nonfinite_raises c b k Hb rh i Hr Hp Hk Hbad).
  - apply model_warnings.
  - intros b k Ho. assert (Hb : b < nb c) by (apply (out_r_block_range c rh i); now rewrite Ho).
    apply (pve_iff c b k Hb rh i) in Ho as [H1 [H2 [_ H3]]]. auto.
Qed.

Lemma model_spec_from c : forall h rh,
  spec_from c rh (outs_r c rh) (toksZ (state_r c rh)) h (model_obs_from c rh h).
Proof.
  induction h as [|i h IH]; intros rh; cbn [model_obs_from spec_from]; [exact I|].
  exists (out_r c rh i). split; [reflexivity|]. split; [apply model_step_spec|].
  apply (IH (i :: rh)).
Qed.

Theorem model_satisfies_spec c h : C13_spec c h (model_obs c h).
Proof. unfold C13_spec, model_obs. rewrite init_toks_eq. apply (model_spec_from c h []). Qed.

(* non-vacuity of the checker: it accepts the model's run and rejects a run that swallows the exception *)
Module CheckerExamples.
  Import Examples.
  Definition h5 : list step_input := [s_a; s_b; s_c; s_nan; s_d].     (* oldest first *)
  Example model_run : snd (run c1 h5) = [Ok; Ok; RaiseTol 1; RaisePVE 0 1; Ok].
  Proof. reflexivity. Qed.
  Example checker_accepts_model : C13_checkb c1 h5 (model_obs c1 h5) = true /\ agree c1 h5 (model_obs c1 h5) = true.
  Proof. split; reflexivity. Qed.
  Definition set_out (out : outcome) (o : obs) : obs :=
    {| o_out := Some out; o_cnts := o_cnts o; o_toks := o_toks o; o_fins := o_fins o; o_pchg := o_pchg o; o_calls := o_calls o; o_warn := o_warn o |}.
  Definition swallowed : list obs :=
    match model_obs c1 h5 with
    | o1 :: o2 :: o3 :: r => o1 :: o2 :: set_out Ok o3 :: r
    | l => l
    end.
  Example checker_rejects_swallowed_error :
    C13_behaviour_checkb c1 h5 swallowed = false /\ C13_checkb c1 h5 swallowed = false /\ agree c1 h5 swallowed = false.
  Proof. repeat split; reflexivity. Qed.
  (* a run that does not log the warning of the failed computation of step 1 is rejected as well *)
  Definition silent : list obs :=
    match model_obs c1 h5 with
    | o1 :: r => {| o_out := o_out o1; o_cnts := o_cnts o1; o_toks := o_toks o1; o_fins := o_fins o1; o_pchg := o_pchg o1;
                    o_calls := o_calls o1; o_warn := 0 |} :: r
    | l => l
    end.
  Example warnings_of_model_run : map o_warn (model_obs c1 h5) = [1; 0; 1; 0; 0].
  Proof. reflexivity. Qed.
  Example checker_rejects_missing_warning : C13_behaviour_checkb c1 h5 silent = false /\ agree c1 h5 silent = false.
  Proof. split; reflexivity. Qed.
  (* step 3 (block 1: factor 0 throws, factor 1 computes fine): a run that leaves factor 1 of block 1 stale - what
     guarding the copy with all(success_tracker) does - is rejected although every exception and counter is right *)
  Definition stale : list obs :=
    match model_obs c1 h5 with
    | o1 :: o2 :: o3 :: r =>
        o1 :: o2 :: {| o_out := o_out o3; o_cnts := o_cnts o3; o_toks := [[3; 3]; [1; 0]]%Z; o_fins := o_fins o3; o_pchg := o_pchg o3;
                       o_calls := o_calls o3; o_warn := o_warn o3 |} :: r
    | l => l
    end.
  Example tokens_of_model_run : map o_toks (firstn 3 (model_obs c1 h5)) = [[[1; 1]; [1; 0]]; [[2; 2]; [1; 0]]; [[3; 3]; [1; 3]]]%Z.
  Proof. reflexivity. Qed.
  Example checker_rejects_stale_later_factor : C13_behaviour_checkb c1 h5 stale = false /\ agree c1 h5 stale = false.
  Proof. split; reflexivity. Qed.
End CheckerExamples.
