(* C17 - certified boolean checker: decides, on the outcome the *implementation* produced for a raw configuration,
   whether property C17 holds there.  It is written from the documented domain (not from the guard chain of the
   model), so a disagreement between model and implementation can be classified independently of the model. *)
From Coq Require Import ZArith QArith List Bool.
From Shampoo Require Import Hyper HyperProofs.
Import ListNotations.

Definition in_co_01b (x : pynum) : bool := pn_leb fl0 x && pn_ltb x fl1.
Definition in_oc_01b (x : pynum) : bool := pn_ltb fl0 x && pn_leb x fl1.
Definition iro_nonnegb (o : iro_t) : bool :=
  match o with IroScalar x => pn_leb i0 x | IroSeq l => forallb (fun e => pn_leb i0 e) l end.
Definition iro_defaultb (o : iro_t) : bool :=
  match o with IroScalar x => pn_eqb x i0 | IroSeq _ => false end.
Definition graft_rangesb (r : raw_cfg) : bool :=
  match gkind r with
  | GraftAdaGrad => pn_ltb fl0 (geps r)
  | GraftRMSprop | GraftAdam => pn_ltb fl0 (geps r) && in_oc_01b (gb2 r)
  | GraftNone | GraftSGD | GraftUnsupported => true
  end.

Definition rangesb (r : raw_cfg) : bool :=
  pn_leb fl0 (lr r)
  && in_co_01b (beta1 r)
  && in_oc_01b (beta2 r)
  && (pn_eqb (beta3 r) flm1 || in_co_01b (beta3 r))
  && pn_ltb fl0 (epsilon r)
  && in_co_01b (momentum r)
  && in_co_01b (dampening r)
  && pn_leb fl0 (weight_decay r)
  && pn_leb i1 (mpd r)
  && pn_leb i1 (freq r)
  && (pn_eqb (start r) im1 || pn_leb (freq r) (start r))
  && iro_nonnegb (iro r)
  && (is_nil (ignored r) || iro_defaultb (iro r))
  && graft_rangesb r
  && pn_leb i0 (nt r)
  && nodupb (ignored r).

Definition supportedb (r : raw_cfg) : bool :=
  match dist r with DistNone => true | DistUnsupported => false end
  && (match pc_kind r with PCUnsupported => false | _ => true end && negb (pc_sub r))
  && match gkind r with GraftNone => true | GraftUnsupported => false | _ => negb (gsub r) end.

Definition is_nan (x : pynum) : bool := match x with NaN => true | _ => false end.
Definition platform_typedb (r : raw_cfg) : bool := is_int64 (mpd r) && negb (is_nan (nt r)).

(* "A value of -1 for beta3 or the start step is replaced by beta1 or precondition_frequency respectively." *)
Definition expected_beta3 (r : raw_cfg) : pynum := if pn_eqb (beta3 r) flm1 then beta1 r else beta3 r.
Definition expected_start (r : raw_cfg) : pynum := if pn_eqb (start r) im1 then freq r else start r.

Definition C17_checkb (r : raw_cfg) (o : observed) : bool :=
  if negb (platform_typedb r) then true else
  match rangesb r, supportedb r with
  | true, true =>
      match o with
      | ObsOK b3 st => pn_sameb (expected_beta3 r) b3 && pn_sameb (expected_start r) st
      | _ => false
      end
  | true, false => match o with ObsNotImplemented => true | _ => false end
  | false, true => match o with ObsValueError => true | _ => false end
  | false, false => match o with ObsValueError | ObsNotImplemented => true | _ => false end
  end.

(* what the property says about one observed outcome *)
Definition C17_spec (r : raw_cfg) (o : observed) : Prop :=
  platform_typed r ->
  (documented_domain r ->
     exists b3 st, o = ObsOK b3 st /\ pn_sameb (expected_beta3 r) b3 = true /\ pn_sameb (expected_start r) st = true)
  /\ (~ ranges r -> supported r -> o = ObsValueError)
  /\ (ranges r -> ~ supported r -> o = ObsNotImplemented)
  /\ (~ ranges r -> ~ supported r -> o = ObsValueError \/ o = ObsNotImplemented).

(* ---- reflection ------------------------------------------------------------------------------------------- *)
Lemma iro_nonnegb_spec o : iro_nonnegb o = true <-> iro_nonneg o.
Proof.
  destruct o as [x|l]; cbn [iro_nonnegb iro_nonneg]; [apply pn_leb_spec|].
  rewrite forallb_forall, Forall_forall. split; intros H e He; apply pn_leb_spec; auto.
Qed.

Lemma iro_defaultb_spec o : iro_defaultb o = true <-> iro_default o.
Proof. destruct o; cbn [iro_defaultb iro_default]; [apply pn_eqb_spec|split; [discriminate|tauto]]. Qed.

Lemma ignored_clause_spec (l : list Z) o : is_nil l || iro_defaultb o = true <-> (l <> [] -> iro_default o).
Proof.
  rewrite orb_true_iff, iro_defaultb_spec. destruct l; cbn [is_nil].
  - split; [intros _ H; congruence|auto].
  - split; [intros [H|H] _; [discriminate|exact H]|]. intros H. right. apply H. discriminate.
Qed.

Lemma graft_rangesb_spec r : graft_rangesb r = true <-> graft_ranges r.
Proof.
  unfold graft_rangesb, graft_ranges, in_oc_01b. destruct (gkind r); try tauto.
  - apply pn_ltb_spec.
  - rewrite andb_true_iff, pn_ltb_spec, in_oc_01_spec. tauto.
  - rewrite andb_true_iff, pn_ltb_spec, in_oc_01_spec. tauto.
Qed.

Lemma in_co_01b_spec x : in_co_01b x = true <-> in_co_01 x.  Proof. apply in_co_01_spec. Qed.
Lemma in_oc_01b_spec x : in_oc_01b x = true <-> in_oc_01 x.  Proof. apply in_oc_01_spec. Qed.

Lemma rangesb_spec r : rangesb r = true <-> ranges r.
Proof.
  unfold rangesb, ranges.
  rewrite !andb_true_iff, !orb_true_iff.
  rewrite !in_co_01b_spec, !in_oc_01b_spec, !pn_leb_spec, !pn_ltb_spec, !pn_eqb_spec.
  rewrite iro_nonnegb_spec, graft_rangesb_spec, nodupb_spec.
  pose proof (ignored_clause_spec (ignored r) (iro r)) as H. rewrite orb_true_iff in H. rewrite H.
  tauto.
Qed.

Lemma supportedb_spec r : supportedb r = true <-> supported r.
Proof.
  rewrite supported_spec. unfold supportedb, pc_type_known, graft_type_known.
  destruct (dist r), (pc_kind r), (pc_sub r), (gkind r), (gsub r); cbn; split; intros H;
    try reflexivity; try discriminate; try (repeat split; reflexivity); destruct H as (A & B & C); discriminate.
Qed.

Lemma platform_typedb_spec r : platform_typedb r = true <-> platform_typed r.
Proof.
  unfold platform_typedb, platform_typed. rewrite andb_true_iff, negb_true_iff.
  destruct (nt r); cbn [is_nan]; split; intros [A B]; split; try assumption; try discriminate; try reflexivity.
  exfalso; apply B; reflexivity.
Qed.

Lemma rangesb_false r : rangesb r = false <-> ~ ranges r.
Proof. rewrite <- rangesb_spec. destruct (rangesb r); split; congruence. Qed.

Lemma supportedb_false r : supportedb r = false <-> ~ supported r.
Proof. rewrite <- supportedb_spec. destruct (supportedb r); split; congruence. Qed.

(* ---- soundness ---------------------------------------------------------------------------------------------- *)
Theorem C17_checkb_sound r o : C17_checkb r o = true -> C17_spec r o.
Proof.
  unfold C17_checkb, C17_spec, documented_domain. intros H Hp.
  apply platform_typedb_spec in Hp. rewrite Hp in H. cbn [negb] in H.
  destruct (rangesb r) eqn:R; destruct (supportedb r) eqn:S.
  - apply rangesb_spec in R. apply supportedb_spec in S.
    repeat split; try tauto. intros _. destruct o; try discriminate.
    apply andb_true_iff in H as [H1 H2]. eauto.
  - apply rangesb_spec in R. apply supportedb_false in S.
    repeat split; try tauto. intros _ _. destruct o; try discriminate; reflexivity.
  - apply rangesb_false in R. apply supportedb_spec in S.
    repeat split; try tauto. intros _ _. destruct o; try discriminate; reflexivity.
  - apply rangesb_false in R. apply supportedb_false in S.
    repeat split; try tauto. intros _ _. destruct o; try discriminate; auto.
Qed.

(* ---- the model passes the checker; an implementation outcome that agrees with the model passes it ---------- *)
Lemma pn_sameb_refl x : pn_sameb x x = true.
Proof. destruct x; cbn; try reflexivity; [apply Z.eqb_refl|apply Qeq_bool_iff; reflexivity]. Qed.

Theorem agree_implies_checkb r o : agree r o = true -> C17_checkb r o = true.
Proof.
  unfold agree, C17_checkb. intros A.
  destruct (platform_typedb r) eqn:P; cbn [negb]; [|reflexivity].
  apply platform_typedb_spec in P.
  destruct (ctor_classify r P) as [(R & S & C)|[(R & S & C)|(R & g & C)]]; rewrite C in A.
  - apply rangesb_spec in R. apply supportedb_spec in S. rewrite R, S.
    destruct o; try discriminate. exact A.
  - apply rangesb_spec in R. apply supportedb_false in S. rewrite R, S.
    destruct o; try discriminate. reflexivity.
  - apply rangesb_false in R. rewrite R.
    destruct o; try discriminate. destruct (supportedb r); reflexivity.
Qed.

Definition obs_of (res : result) : observed :=
  match res with
  | Ok c => ObsOK (c_beta3 c) (c_start c)
  | RaiseValueError _ => ObsValueError
  | RaiseNotImplemented => ObsNotImplemented
  | RaiseOther => ObsOther
  end.

Theorem model_passes_checkb r : C17_checkb r (obs_of (ctor r)) = true.
Proof.
  apply agree_implies_checkb. unfold agree. destruct (ctor r); cbn; try reflexivity.
  rewrite !pn_sameb_refl. reflexivity.
Qed.

(* non-vacuity: the checker accepts a correct outcome and rejects wrong ones on a typed, in-domain configuration *)
Example checkb_accepts : C17_checkb baseline_default (ObsOK (PFlt (9 # 10)) (PInt 1)) = true.
Proof. vm_compute. reflexivity. Qed.
Example checkb_rejects_wrong_default : C17_checkb baseline_default (ObsOK (PFlt ((-1) # 1)) (PInt 1)) = false.
Proof. vm_compute. reflexivity. Qed.
Example checkb_rejects_wrong_class : C17_checkb baseline_default ObsValueError = false.
Proof. vm_compute. reflexivity. Qed.
Example checkb_rejects_accepting_outside :
  C17_checkb (set_beta1 baseline_soap fl1) (ObsOK (PFlt (4 # 5)) (PInt 20)) = false.
Proof. vm_compute. reflexivity. Qed.
