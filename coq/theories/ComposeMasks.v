(* ComposeMasks.v - the block-wise specification of Masks.v (C04; also the right-hand side of C08's theorems),
   instantiated with the optimizer's block step, IS the iteration of Optimizer.group_step.

   Together with C01_masked_cached_optimizer_refines_blockwise (masked + cached optimizer = spec_run) and
   C08_fully_shard_eq_serial_on_local (FullyShard rank = spec_run on its local tensors) this closes the chain
   structural model of step() -> block-wise specification -> documented update rule. *)
From Coq Require Import ZArith List Bool Lia.
From Shampoo Require Import Scalar Optimizer Masks MasksProofs OptimizerMasks.
Import ListNotations.

Section ComposeMasks.
  Context {F : Type} (Op : ops F) (c : cfg (F:=F)).

  Fixpoint mk_blocks (vals : list (list F)) (sts : list (ostate (F:=F))) : list (block (F:=F)) :=
    match vals, sts with
    | v :: vals', st :: sts' => mkB (fst st) v (snd st) :: mk_blocks vals' sts'
    | _, _ => []
    end.

  Definition mk_in (og : option (ograd (F:=F))) : binput (F:=F) :=
    match og with Some (gv, answers, _) => mkI (Some gv) answers | None => mkI None [] end.

  (* every gradient of the step carries the same group scalars *)
  Definition uniform_l (hh : hints (F:=F)) (lgr : list (option (ograd (F:=F)))) : Prop :=
    forall gv a h, In (Some (gv, a, h)) lgr -> h = hh.

  Lemma existsb_mk_in lgr :
    existsb (fun i : binput (F:=F) => match i_grad i with Some _ => true | None => false end) (map mk_in lgr) = existsb is_some lgr.
  Proof. induction lgr as [|og l IH]; cbn; [reflexivity|]. destruct og as [[[gv a] h]|]; cbn; [reflexivity|exact IH]. Qed.

  Lemma blockwise_is_map2 hh t : forall lgr sts vals, uniform_l hh lgr ->
    map fst (map2 (fun (b : block (F:=F)) (i : binput (F:=F)) =>
                     match i_grad i with
                     | Some g => let '(w', st', qs) := block_step Op c t hh (b_dims b) (i_answers i) (b_w b) (b_st b) g in
                                 (mkB (b_dims b) w' st', qs)
                     | None => (b, [])
                     end) (mk_blocks vals sts) (map mk_in lgr))
    = mk_blocks (map snd (blockwise (opt_bstep Op c) t lgr sts vals)) (map fst (blockwise (opt_bstep Op c) t lgr sts vals)).
  Proof.
    induction lgr as [|og lgr IH]; intros sts vals Hu.
    - destruct vals, sts; reflexivity.
    - destruct sts as [|st sts]; [destruct vals; reflexivity|]. destruct vals as [|v vals]; [reflexivity|].
      cbn [mk_blocks map map2 blockwise fst snd].
      rewrite IH by (intros gv a h Hin; apply (Hu gv a h); right; exact Hin).
      f_equal. unfold block_update, mk_in.
      destruct og as [[[gv a] h]|]; cbn [i_grad i_answers b_dims b_w b_st fst snd]; [|destruct st; reflexivity].
      rewrite (Hu gv a h (or_introl eq_refl)). unfold opt_bstep.
      destruct (block_step Op c t hh (fst st) a v (snd st) gv) as [[w' st'] qs]. reflexivity.
  Qed.

  Lemma blockwise_length t : forall lgr sts vals, length lgr = length sts -> length lgr = length vals ->
    length (blockwise (opt_bstep Op c) t lgr sts vals) = length lgr.
  Proof.
    induction lgr as [|og lgr IH]; intros [|st sts] [|v vals] H1 H2; cbn in *; try discriminate; [reflexivity|].
    f_equal. apply IH; lia.
  Qed.

  Lemma blockwise_none t : forall lgr sts vals, existsb is_some lgr = false -> length lgr = length sts -> length lgr = length vals ->
    mk_blocks (map snd (blockwise (opt_bstep Op c) t lgr sts vals)) (map fst (blockwise (opt_bstep Op c) t lgr sts vals))
    = mk_blocks vals sts.
  Proof.
    induction lgr as [|og lgr IH]; intros [|st sts] [|v vals] H0 H1 H2; cbn in H1, H2; try discriminate; [reflexivity|].
    cbn in H0. apply orb_false_iff in H0. destruct H0 as [Hog H0]. destruct og; [discriminate|].
    cbn. rewrite IH; [destruct st; reflexivity|exact H0|lia|lia].
  Qed.

  Lemma spec_step_is_group_step lay t vals sts (pg : pgrads (ograd (F:=F))) hh :
    length (local_grads lay pg) = length sts -> length (local_grads lay pg) = length vals ->
    uniform_l hh (local_grads lay pg) ->
    fst (Optimizer.group_step Op c hh t (mk_blocks vals sts) (map mk_in (local_grads lay pg)))
    = (let '(t', vals', sts') := spec_step (opt_bstep Op c) lay (t, vals, sts) pg in (t', mk_blocks vals' sts')).
  Proof.
    intros H1 H2 Hu. unfold Optimizer.group_step, spec_step. rewrite existsb_mk_in.
    destruct (existsb is_some (local_grads lay pg)) eqn:He; cbn [fst].
    - f_equal. apply blockwise_is_map2. exact Hu.
    - f_equal. symmetry. apply blockwise_none; assumption.
  Qed.

  Fixpoint model_run_l (hs : list (hints (F:=F) * list (option (ograd (F:=F))))) (t : Z) (bs : list (block (F:=F)))
    : Z * list (block (F:=F)) :=
    match hs with
    | [] => (t, bs)
    | (hh, lgr) :: rest => let '(t', bs', _) := Optimizer.group_step Op c hh t bs (map mk_in lgr) in model_run_l rest t' bs'
    end.

  Lemma let3 {A B C D} (x : A * B * C) (f : A -> B -> D) : (let '(a, b, _) := x in f a b) = f (fst (fst x)) (snd (fst x)).
  Proof. destruct x as [[a b] c0]. reflexivity. Qed.

  (* the block-wise specification over any history = the iteration of the group step of C01 *)
  Theorem spec_run_is_group_step_iteration :
    forall lay (hs : list (hints (F:=F) * pgrads (ograd (F:=F)))) t vals sts n,
      length vals = n -> length sts = n ->
      Forall (fun p => length (local_grads lay (snd p)) = n
                       /\ uniform_l (fst p) (local_grads lay (snd p))) hs ->
      model_run_l (map (fun p => (fst p, local_grads lay (snd p))) hs) t (mk_blocks vals sts)
      = (let '(t', vals', sts') := spec_run (opt_bstep Op c) lay (t, vals, sts) (map snd hs) in (t', mk_blocks vals' sts')).
  Proof.
    intros lay hs. induction hs as [|[hh pg] hs IH]; intros t vals sts n Hv Hs Hall; [reflexivity|].
    inversion Hall as [|p l [Hlen Hu] Hrest]; subst p l. cbn [fst snd] in Hlen, Hu.
    cbn [map fst snd model_run_l]. rewrite let3.
    rewrite (spec_step_is_group_step lay t vals sts pg hh) by (try exact Hu; congruence).
    unfold spec_run. cbn [fold_left].
    destruct (spec_step (opt_bstep Op c) lay (t, vals, sts) pg) as [[t' vals'] sts'] eqn:Hstep. cbn [fst snd].
    apply (IH t' vals' sts' n); [| |exact Hrest].
    - unfold spec_step in Hstep. injection Hstep as _ Hv' _. rewrite <- Hv', map_length. rewrite blockwise_length; [exact Hlen | rewrite Hlen; symmetry; exact Hs | rewrite Hlen; symmetry; exact Hv].
    - unfold spec_step in Hstep. injection Hstep as _ _ Hs'. rewrite <- Hs', map_length. rewrite blockwise_length; [exact Hlen | rewrite Hlen; symmetry; exact Hs | rewrite Hlen; symmetry; exact Hv].
  Qed.
End ComposeMasks.

Section MaskedIsIteration.
  Context {F : Type} (Op : ops F) (c : cfg (F:=F)).

  (* the masked, doubly cached optimizer (Masks.group_run with the optimizer's block step) over ANY history of presence
     patterns computes exactly the iteration of Optimizer.group_step on its blocks *)
  Theorem masked_cached_optimizer_is_group_step_iteration :
    forall (lay : layout) (vals : list (ovalue (F:=F))) (sts : list (ostate (F:=F)))
           (hs : list (hints (F:=F) * pgrads (ograd (F:=F)))),
      wf_layout lay -> length vals = n_local lay -> length sts = n_local lay ->
      wf_history ograd lay (map snd hs) ->
      Forall (fun p => uniform_l (fst p) (local_grads lay (snd p))) hs ->
      exists s, group_run (opt_bstep Op c) lay (init_state lay vals sts) (map snd hs) = Ok s
                /\ (let '(t', vals', sts') := observable s in (t', mk_blocks vals' sts'))
                   = model_run_l Op c (map (fun p => (fst p, local_grads lay (snd p))) hs) 0%Z (mk_blocks vals sts).
  Proof.
    intros lay vals sts hs Hlay Hv Hs Hwf Hu.
    destruct (masked_optimizer_refines_blockwise Op c lay vals sts (map snd hs) Hlay Hv Hs Hwf) as [s [Hrun Hobs]].
    exists s. split; [exact Hrun|]. rewrite Hobs. symmetry.
    apply (spec_run_is_group_step_iteration Op c lay hs 0%Z vals sts (n_local lay) Hv Hs).
    unfold wf_history in Hwf. rewrite Forall_forall in *. intros p Hp. split; [|apply Hu; exact Hp].
    apply local_grads_length; [exact Hlay|]. apply Hwf. apply in_map. exact Hp.
  Qed.
End MaskedIsIteration.
