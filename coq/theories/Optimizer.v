(* Optimizer.v - executable model of one DistributedShampoo step at block level.

   Mirrors, for one parameter group:  DistributedShampoo.step / _per_group_step_impl
   (distributed_shampoo/distributed_shampoo.py) and the preconditioner lists
   (distributed_shampoo/utils/shampoo_preconditioner_list.py):
     L2 -> factor update -> (refresh through the matrix oracle) -> grafting update -> gradient filter
        -> precondition + graft -> decoupled decay -> momentum -> scale by -lr -> apply.
   Polymorphic in the scalar ([Scalar.ops]); theorems use the real instance, the correspondence check
   executes the binary64 instance.  The matrix routines (matrix_inverse_root / matrix_eigenvectors) are an
   ORACLE: the model receives their recorded answers and returns the queries it makes (DESIGN 3.3).
   Gradient masks and their caches are the subject of Masks.v (C04); here a group step simply applies the
   block step to exactly the blocks that have a gradient. *)
From Coq Require Import ZArith List Bool.
From Shampoo Require Import Scalar.
Import ListNotations.

Section Model.
  Context {F : Type} (Op : ops F).

  Local Notation add := (fadd Op).
  Local Notation sub := (fsub Op).
  Local Notation mul := (fmul Op).
  Local Notation div := (fdiv Op).
  Local Notation zero := (f0 Op).
  Local Notation one := (f1 Op).

  Definition vec := list F.
  Definition mat := list (list F).

  (* ------------------------------------------------------------------ lists, vectors, matrices *)
  Fixpoint map2 {A B C} (f : A -> B -> C) (l1 : list A) (l2 : list B) : list C :=
    match l1, l2 with
    | a :: r1, b :: r2 => f a b :: map2 f r1 r2
    | _, _ => []
    end.

  Definition vadd (a b : vec) : vec := map2 add a b.
  Definition vsub (a b : vec) : vec := map2 sub a b.
  Definition vmul (a b : vec) : vec := map2 mul a b.
  Definition vdiv (a b : vec) : vec := map2 div a b.
  Definition vscale (c : F) (a : vec) : vec := map (mul c) a.
  Definition vaxpy (a : vec) (c : F) (b : vec) : vec := map2 (fun x y => add x (mul c y)) a b.  (* a + c*b *)
  Definition dot (a b : vec) : F := fold_left add (map2 mul a b) zero.
  Definition norm2 (a : vec) : F := fsqrt Op (dot a a).
  Definition vlerp (a b : vec) (w : F) : vec := map2 (fun x y => flerp Op x y w) a b.

  Definition mscale (c : F) (m : mat) : mat := map (vscale c) m.
  Definition madd (a b : mat) : mat := map2 vadd a b.
  Definition mdivs (m : mat) (c : F) : mat := map (map (fun x => div x c)) m.

  Fixpoint chunks (n k : nat) (l : vec) : mat :=        (* k rows of n elements *)
    match k with
    | O => []
    | S k' => firstn n l :: chunks n k' (skipn n l)
    end.
  Definition col (j : nat) (m : mat) : vec := map (fun r => nth j r zero) m.
  Definition mtrans (ncols : nat) (m : mat) : mat := map (fun j => col j m) (seq 0 ncols).
  (* a (p x q) times b (q x r), [r] given explicitly *)
  Definition mmul (a : mat) (r : nat) (b : mat) : mat :=
    let bt := mtrans r b in map (fun row => map (fun c => dot row c) bt) a.
  (* a * a^T *)
  Definition mgram (a : mat) : mat := map (fun ri => map (fun rj => dot ri rj) a) a.

  Definition numel (sh : list nat) : nat := fold_right Nat.mul 1%nat sh.

  Record tensor := mkT { tsh : list nat; tdat : vec }.

  (* torch.tensordot(t, M, dims=([0],[0])): contract mode 0 of t with the rows of M (d0 x m); the new mode
     is appended last.  With T the d0 x R unfolding of t this is T^T M. *)
  Definition tdot0 (t : tensor) (m : nat) (M : mat) : tensor :=
    match tsh t with
    | [] => t
    | d0 :: rest =>
        let R := numel rest in
        let Tt := mtrans R (chunks R d0 (tdat t)) in
        mkT (rest ++ [m]) (concat (mmul Tt m M))
    end.
  (* dims=([0],[1]): contract with the columns of M, i.e. with M^T *)
  Definition tdot0T (t : tensor) (m : nat) (M : mat) : tensor := tdot0 t m (mtrans m M).
  (* t.permute(1, ..., n-1, 0) *)
  Definition rotl (t : tensor) : tensor :=
    match tsh t with
    | [] => t
    | d0 :: rest => let R := numel rest in mkT (rest ++ [d0]) (concat (mtrans R (chunks R d0 (tdat t))))
    end.
  Fixpoint rotl_n (k : nat) (t : tensor) : tensor :=
    match k with O => t | S k' => rotl_n k' (rotl t) end.
  (* torch.tensordot(t, t, dims = all modes but k): the mode-k Gram matrix *)
  Definition gram (k : nat) (t : tensor) : mat :=
    let t' := rotl_n k t in
    match tsh t' with
    | [] => [[mul (hd zero (tdat t')) (hd zero (tdat t'))]]
    | dk :: rest => mgram (chunks (numel rest) dk (tdat t'))
    end.

  (* BaseShampooPreconditionerList._precondition_grad: for each mode in turn, either contract it with the next
     matrix of the list or rotate it to the back *)
  Fixpoint precond_chain (transposed : bool) (sel : list bool) (mats : list mat) (t : tensor) : tensor :=
    match sel with
    | [] => t
    | true :: s =>
        match mats with
        | M :: ms => precond_chain transposed s ms
                       (if transposed then tdot0T t (length M) M else tdot0 t (length M) M)
        | [] => t
        end
    | false :: s => precond_chain transposed s mats (rotl t)
    end.

  (* ------------------------------------------------------------------ configuration *)
  Inductive graft_kind := GNone | GSGD | GAda (gbeta2 geps : F) (gbias : bool).
  Inductive precond_kind := KShampoo | KSoap.
  Inductive root_override := OvInt (z : Z) | OvList (l : list Z).

  Record cfg := mkCfg {
    c_lr : F; c_beta1 : F; c_beta2 : F; c_beta3 : F; c_eps : F; c_mom : F; c_damp : F; c_wd : F;
    c_freq : Z; c_start : Z;
    c_nesterov : bool; c_biascorr : bool; c_decoupled : bool;
    c_graft : graft_kind; c_kind : precond_kind;
    c_ignored : list nat; c_override : root_override; c_expmult : F }.

  Definition nz (x : F) : bool := negb (feqb Op x zero).
  Definition is_one (x : F) : bool := feqb Op x one.

  Definition default_root (k : precond_kind) (order : nat) : Z :=
    match k with KShampoo => 2 * Z.of_nat order | KSoap => 2 end.
  (* _get_inverse_roots_from_override_with_high_order_default *)
  Definition root_of (c : cfg) (order : nat) : Z :=
    match c_override c with
    | OvInt z => if (z =? 0)%Z then default_root (c_kind c) order else z
    | OvList l => if Nat.leb (length l) order then default_root (c_kind c) order else nth order l 0%Z
    end.
  Definition dims_selector (c : cfg) (order : nat) : list bool :=
    map (fun d => negb (existsb (Nat.eqb d) (c_ignored c))) (seq 0 order).

  (* step(): schedule flags derived from the (already incremented) step counter; Python precedence
     (a and b) or c *)
  Definition perform_amortized (c : cfg) (t : Z) : bool :=
    ((t mod c_freq c =? 0)%Z && (c_start c <? t)%Z) || (t =? c_start c)%Z.
  Definition use_grafting_method (c : cfg) (t : Z) : bool :=
    (t <? c_start c)%Z && match c_graft c with GNone => false | _ => true end.

  (* ------------------------------------------------------------------ state *)
  Record bstate := mkS {
    s_factors : list mat;      (* Kronecker factor matrices, one per preconditioned mode *)
    s_inv : list mat;          (* Shampoo: inverse roots; SOAP: eigenvectors *)
    s_isdiag : list bool;
    s_coreig : vec;            (* SOAP: corrected eigenvalues (block-shaped); [] for Shampoo *)
    s_graft : vec;             (* Adagrad-family grafting accumulator; [] if none / SGD *)
    s_filt : vec;              (* filtered gradient (EMA); [] if beta1 = 0 *)
    s_mom : vec }.             (* momentum buffer; [] if momentum = 0 *)

  Record query := mkQ { q_mat : mat; q_root : F; q_eps : F; q_isdiag : bool; q_est : mat }.

  (* binary32 scalars the implementation computes with float32 tensor arithmetic (bias corrections): the
     model computes its own value and, for execution, adopts the recorded one iff it is within 1e-4 of it
     (for the real instance the two are equal by hypothesis, see OptimizerProofs). *)
  Record hints := mkH { h_bc1 : F; h_bc2 : F; h_bc2g : F }.
  Definition tol_hint : F := div one (of_Z Op 10000).
  Definition pick (own hint : F) : F :=
    if fleb Op (fabs Op (sub own hint)) (mul tol_hint (fabs Op own)) then hint else own.

  Definition check_diagonal (m : mat) : bool :=
    forallb (fun ir => forallb (fun jx => Nat.eqb (fst ir) (fst jx) || feqb Op (snd jx) zero)
                                (combine (seq 0 (length (snd ir))) (snd ir)))
            (combine (seq 0 (length m)) m).

  Definition any_nonzero (m : mat) : bool := existsb (existsb nz) m.

  (* ------------------------------------------------------------------ pieces of the block step *)
  Definition l2_grad (c : cfg) (w g : vec) : vec :=
    if nz (c_wd c) && negb (c_decoupled c) then vaxpy g (c_wd c) w else g.

  (* indices of preconditioned modes *)
  Fixpoint sel_indices (i : nat) (sel : list bool) : list nat :=
    match sel with [] => [] | b :: s => (if b then [i] else []) ++ sel_indices (S i) s end.

  Definition update_factors (c : cfg) (dims : list nat) (g : vec) (fs : list mat) : list mat :=
    let t := mkT dims g in
    let ks := sel_indices 0 (dims_selector c (length dims)) in
    let b2 := c_beta2 c in
    map2 (fun k Fk => if is_one b2 then madd Fk (gram k t)
                      else madd (mscale b2 Fk) (mscale (sub one b2) (gram k t))) ks fs.

  Definition bias_corr2 (bias : bool) (b2 : F) (t : Z) (hint : F) : F :=
    if bias && fltb Op b2 one then pick (sub one (fpown Op b2 (Z.to_nat t))) hint else one.

  Definition root_value (c : cfg) (order : nat) : F := div (of_Z Op (root_of c order)) (c_expmult c).

  (* _amortized_computation (fault-free): per factor, the query and the adopted answer *)
  Fixpoint refresh (c : cfg) (order : nat) (bc2 : F) (fs invs : list mat) (dg : list bool) (answers : list mat)
    : list mat * list bool * list query :=
    match fs, invs, dg with
    | Fk :: fs', Ik :: invs', d :: dg' =>
        let A := match c_kind c with KShampoo => mdivs Fk bc2 | KSoap => Fk end in
        let d' := d && check_diagonal A in
        let q := match c_kind c with
                 | KShampoo => mkQ A (root_value c order) (c_eps c) d' []
                 | KSoap => mkQ A zero zero d' Ik
                 end in
        let ans := match answers with a :: _ => a | [] => Ik end in
        let '(ri, rd, rq) := refresh c order bc2 fs' invs' dg' (tl answers) in
        (ans :: ri, d' :: rd, q :: rq)
    | _, _, _ => ([], [], [])
    end.

  Definition soap_rotate (c : cfg) (dims : list nat) (Qs : list mat) (x : vec) : vec :=
    match Qs with
    | Q0 :: _ => if any_nonzero Q0
                 then tdat (precond_chain false (dims_selector c (length dims)) Qs (mkT dims x)) else x
    | [] => x
    end.
  Definition soap_rotate_back (c : cfg) (dims : list nat) (Qs : list mat) (x : vec) : vec :=
    match Qs with
    | Q0 :: _ => if any_nonzero Q0
                 then tdat (precond_chain true (dims_selector c (length dims)) Qs (mkT dims x)) else x
    | [] => x
    end.

  Definition ema_sq (b2 : F) (v x : vec) : vec :=          (* v <- b2 v + (1-b2) x^2, or v + x^2 if b2 = 1 *)
    if is_one b2 then map2 (fun vi xi => add vi (mul xi xi)) v x
    else map2 (fun vi xi => add (mul b2 vi) (mul (sub one b2) (mul xi xi))) v x.

  Definition graft_update (c : cfg) (v g : vec) : vec :=
    match c_graft c with GAda b2 _ _ => ema_sq b2 v g | _ => v end.

  Definition graft_precond (c : cfg) (t : Z) (h : hints) (v x : vec) : vec :=
    match c_graft c with
    | GAda b2 e bias =>
        let bc := bias_corr2 bias b2 t (h_bc2g h) in
        map2 (fun xi vi => div xi (add (fsqrt Op (div vi bc)) e)) x v
    | _ => x
    end.

  Definition shampoo_precond (c : cfg) (dims : list nat) (bc2 : F) (st : bstate) (x : vec) : vec :=
    match c_kind c with
    | KShampoo => tdat (precond_chain false (dims_selector c (length dims)) (s_inv st) (mkT dims x))
    | KSoap =>
        let xr := soap_rotate c dims (s_inv st) x in
        let e := div one (of_Z Op (root_of c (length dims))) in
        let y := map2 (fun xi vi => div xi (fpow Op (add (div vi bc2) (c_eps c)) e)) xr (s_coreig st) in
        soap_rotate_back c dims (s_inv st) y
    end.

  Definition graft_eps : F := div one (of_Z Op 10000000000000000).    (* 1e-16 *)

  (* the filtered gradient handed to the preconditioner, and the new EMA *)
  Definition filter_grad (c : cfg) (t : Z) (h : hints) (m g : vec) : vec * vec :=
    if nz (c_beta1 c) then
      let m' := vlerp m g (sub one (c_beta1 c)) in
      let used := if feqb Op (c_beta3 c) (c_beta1 c) then m' else vlerp m g (sub one (c_beta3 c)) in
      let used := if c_biascorr c
                  then let bc1 := pick (sub one (mul (c_beta3 c) (fpown Op (c_beta1 c) (Z.to_nat (t - 1))))) (h_bc1 h)
                       in map (fun x => div x bc1) used
                  else used in
      (used, m')
    else (g, m).

  Definition momentum_step (c : cfg) (M P : vec) : vec * vec :=      (* (new direction, new buffer) *)
    if nz (c_mom c) then
      let M' := vaxpy (vscale (c_mom c) M) (sub one (c_damp c)) P in
      if c_nesterov c then (vaxpy (vscale (sub one (c_damp c)) P) (c_mom c) M', M') else (M', M')
    else (P, M).

  (* ------------------------------------------------------------------ the block step *)
  Definition block_step (c : cfg) (t : Z) (h : hints) (dims : list nat) (answers : list mat)
             (w : vec) (st : bstate) (g0 : vec) : vec * bstate * list query :=
    let order := length dims in
    let g := l2_grad c w g0 in
    let fs := update_factors c dims g (s_factors st) in
    let bc2 := bias_corr2 (c_biascorr c) (c_beta2 c) t (h_bc2 h) in
    let '(invs, dg, qs) :=
      if perform_amortized c t then refresh c order bc2 fs (s_inv st) (s_isdiag st) answers
      else (s_inv st, s_isdiag st, []) in
    let coreig := match c_kind c with
                  | KSoap => ema_sq (c_beta2 c) (s_coreig st) (soap_rotate c dims invs g)
                  | KShampoo => s_coreig st
                  end in
    let gv := graft_update c (s_graft st) g in
    let '(ghat, filt) := filter_grad c t h (s_filt st) g in
    let st1 := mkS fs invs dg coreig gv filt (s_mom st) in
    let P :=
      if use_grafting_method c t then graft_precond c t h gv ghat
      else
        let Ps := shampoo_precond c dims bc2 st1 ghat in
        match c_graft c with
        | GNone => Ps
        | _ => let ng := norm2 (graft_precond c t h gv ghat) in
               let ns := add (norm2 Ps) graft_eps in
               vscale (div ng ns) Ps
        end in
    let P := if nz (c_wd c) && c_decoupled c then vaxpy P (c_wd c) w else P in
    let '(P, M') := momentum_step c (s_mom st) P in
    let w' := vaxpy w (fneg Op (rnd32 Op (c_lr c))) P in
    (w', mkS fs invs dg coreig gv filt M', qs).

  (* the search direction of the step (same computation as in [block_step], which moves the block by
     -rnd32(lr) times it) *)
  Definition block_direction (c : cfg) (t : Z) (h : hints) (dims : list nat) (answers : list mat)
             (w : vec) (st : bstate) (g0 : vec) : vec :=
    let order := length dims in
    let g := l2_grad c w g0 in
    let fs := update_factors c dims g (s_factors st) in
    let bc2 := bias_corr2 (c_biascorr c) (c_beta2 c) t (h_bc2 h) in
    let '(invs, dg, qs) :=
      if perform_amortized c t then refresh c order bc2 fs (s_inv st) (s_isdiag st) answers
      else (s_inv st, s_isdiag st, []) in
    let coreig := match c_kind c with
                  | KSoap => ema_sq (c_beta2 c) (s_coreig st) (soap_rotate c dims invs g)
                  | KShampoo => s_coreig st
                  end in
    let gv := graft_update c (s_graft st) g in
    let '(ghat, filt) := filter_grad c t h (s_filt st) g in
    let st1 := mkS fs invs dg coreig gv filt (s_mom st) in
    let P :=
      if use_grafting_method c t then graft_precond c t h gv ghat
      else
        let Ps := shampoo_precond c dims bc2 st1 ghat in
        match c_graft c with
        | GNone => Ps
        | _ => let ng := norm2 (graft_precond c t h gv ghat) in
               let ns := add (norm2 Ps) graft_eps in
               vscale (div ng ns) Ps
        end in
    let P := if nz (c_wd c) && c_decoupled c then vaxpy P (c_wd c) w else P in
    fst (momentum_step c (s_mom st) P).

  (* ------------------------------------------------------------------ the group step *)
  Record block := mkB { b_dims : list nat; b_w : vec; b_st : bstate }.
  Record binput := mkI { i_grad : option vec; i_answers : list mat }.

  Definition group_step (c : cfg) (h : hints) (t : Z) (bs : list block) (ins : list binput)
    : Z * list block * list (list query) :=
    if existsb (fun i => match i_grad i with Some _ => true | None => false end) ins then
      let t' := (t + 1)%Z in
      let rs := map2 (fun b i =>
                  match i_grad i with
                  | Some g => let '(w', st', qs) := block_step c t' h (b_dims b) (i_answers i) (b_w b) (b_st b) g in
                              (mkB (b_dims b) w' st', qs)
                  | None => (b, [])
                  end) bs ins in
      (t', map fst rs, map snd rs)
    else (t, bs, map (fun _ => []) bs).

End Model.

Arguments mkT {F}. Arguments mkS {F}. Arguments mkQ {F}. Arguments mkH {F}. Arguments mkB {F}. Arguments mkI {F}.
Arguments mkCfg {F}. Arguments GNone {F}. Arguments GSGD {F}. Arguments GAda {F}.
