(* C14 - proofs about the model in Assign.v *)
From Coq Require Import ZArith List Bool Arith Lia Permutation Sorted.
From Shampoo Require Import Assign.
Import ListNotations.
Open Scope Z_scope.

Ltac Zify.zify_post_hook ::= Z.div_mod_to_equations.

(* ------------------------------------------------------------------------------------------ *)
(** * Alignment *)

Lemma aligned_ge_size s : s <= align64 s.
Proof. unfold align64. lia. Qed.

Lemma aligned_lt_size_plus_64 s : align64 s < s + 64.
Proof. unfold align64. lia. Qed.

Lemma aligned_multiple_of_64 s : align64 s mod 64 = 0.
Proof. unfold align64. apply Z_mod_mult. Qed.

Lemma aligned_least_multiple s m : s <= m -> m mod 64 = 0 -> align64 s <= m.
Proof. unfold align64. lia. Qed.

Lemma align64_nonneg s : 0 <= s -> 0 <= align64 s.
Proof. unfold align64. lia. Qed.

Lemma align64_fixed s : s mod 64 = 0 -> align64 s = s.
Proof.
  unfold align64. intros H.
  pose proof (Z.div_mod s 64 ltac:(lia)) as H0. rewrite H in H0.
  assert ((s + 63) / 64 = s / 64) as E.
  { replace (s + 63) with (63 + (s / 64) * 64) by lia. rewrite Z.div_add by lia. reflexivity. }
  lia.
Qed.

(* ------------------------------------------------------------------------------------------ *)
(** * Sums and loads *)

Lemma sumz_app l1 l2 : sumz (l1 ++ l2) = sumz l1 + sumz l2.
Proof. unfold sumz. induction l1 as [|a l1 IH]; cbn [fold_right app]; lia. Qed.

Lemma sumz_cons a l : sumz (a :: l) = a + sumz l.
Proof. reflexivity. Qed.

Lemma sumz_nonneg l : (forall x, In x l -> 0 <= x) -> 0 <= sumz l.
Proof.
  induction l as [|a l IH]; intros H; [cbn; lia|].
  rewrite sumz_cons. assert (0 <= a) by (apply H; left; reflexivity).
  assert (0 <= sumz l) by (apply IH; intros; apply H; right; assumption). lia.
Qed.

Lemma sumz_map_add {A} (f g : A -> Z) l :
  sumz (map (fun x => f x + g x) l) = sumz (map f l) + sumz (map g l).
Proof. induction l as [|a l IH]; cbn [map]; rewrite ?sumz_cons; [reflexivity|lia]. Qed.

Lemma sumz_map_ge {A} (f : A -> Z) c l :
  (forall x, In x l -> c <= f x) -> c * Z.of_nat (length l) <= sumz (map f l).
Proof.
  induction l as [|a l IH]; intros H; [cbn; lia|].
  cbn [map length]. rewrite sumz_cons.
  assert (c <= f a) by (apply H; left; reflexivity).
  assert (c * Z.of_nat (length l) <= sumz (map f l)) by (apply IH; intros; apply H; right; assumption).
  lia.
Qed.

Lemma sumz_map_le {A} (f : A -> Z) c l :
  (forall x, In x l -> f x <= c) -> sumz (map f l) <= c * Z.of_nat (length l).
Proof.
  induction l as [|a l IH]; intros H; [cbn; lia|].
  cbn [map length]. rewrite sumz_cons.
  assert (f a <= c) by (apply H; left; reflexivity).
  assert (sumz (map f l) <= c * Z.of_nat (length l)) by (apply IH; intros; apply H; right; assumption).
  lia.
Qed.

Lemma sumz_map_ext {A} (f g : A -> Z) l :
  (forall x, In x l -> f x = g x) -> sumz (map f l) = sumz (map g l).
Proof.
  induction l as [|a l IH]; intros H; [reflexivity|].
  cbn [map]. rewrite !sumz_cons, (H a), IH; auto using in_eq, in_cons.
Qed.

Lemma sumz_indicator a v s n :
  sumz (map (fun r => if (a =? r)%nat then v else 0) (seq s n))
  = if ((s <=? a) && (a <? s + n))%nat then v else 0.
Proof.
  revert s; induction n as [|n IH]; intros s.
  - cbn [seq map]. destruct ((s <=? a)%nat && (a <? s + 0)%nat) eqn:E; [|reflexivity].
    apply andb_true_iff in E as [E1 E2]. apply Nat.leb_le in E1. apply Nat.ltb_lt in E2. lia.
  - cbn [seq map]. rewrite sumz_cons, IH.
    destruct (a =? s)%nat eqn:E.
    + apply Nat.eqb_eq in E. subst a.
      replace (S s <=? s)%nat with false by (symmetry; apply Nat.leb_gt; lia).
      replace (s <=? s)%nat with true by (symmetry; apply Nat.leb_le; lia).
      replace (s <? s + S n)%nat with true by (symmetry; apply Nat.ltb_lt; lia).
      cbn [andb]. lia.
    + apply Nat.eqb_neq in E.
      destruct (S s <=? a)%nat eqn:E1, (a <? S s + n)%nat eqn:E2,
               (s <=? a)%nat eqn:E3, (a <? s + S n)%nat eqn:E4; cbn [andb]; try lia;
      repeat match goal with
             | H : (_ <=? _)%nat = true |- _ => apply Nat.leb_le in H
             | H : (_ <=? _)%nat = false |- _ => apply Nat.leb_gt in H
             | H : (_ <? _)%nat = true |- _ => apply Nat.ltb_lt in H
             | H : (_ <? _)%nat = false |- _ => apply Nat.ltb_ge in H
             end; lia.
Qed.

Lemma rload_nil r : rload [] r = 0.
Proof. reflexivity. Qed.

Lemma rload_cons x l r : rload (x :: l) r = (if (snd x =? r)%nat then fst x else 0) + rload l r.
Proof.
  unfold rload, on. cbn [filter]. destruct (snd x =? r)%nat; cbn [map]; rewrite ?sumz_cons; lia.
Qed.

Lemma rload_app l1 l2 r : rload (l1 ++ l2) r = rload l1 r + rload l2 r.
Proof.
  induction l1 as [|x l1 IH]; [rewrite rload_nil; cbn [app]; lia|].
  cbn [app]. rewrite !rload_cons, IH. lia.
Qed.

Lemma rload_nonneg l r : (forall x, In x l -> 0 <= fst x) -> 0 <= rload l r.
Proof.
  induction l as [|x l IH]; intros H; [rewrite rload_nil; lia|].
  rewrite rload_cons. assert (0 <= fst x) by (apply H; left; reflexivity).
  assert (0 <= rload l r) by (apply IH; intros; apply H; right; assumption).
  destruct (snd x =? r)%nat; lia.
Qed.

Lemma rload_perm l l' r : Permutation l l' -> rload l r = rload l' r.
Proof.
  induction 1 as [|x l l' _ IH|x y l|l l' l'' _ IH1 _ IH2].
  - reflexivity.
  - rewrite !rload_cons, IH. reflexivity.
  - rewrite !rload_cons. lia.
  - congruence.
Qed.

Lemma total_cons x l : total (x :: l) = fst x + total l.
Proof. reflexivity. Qed.

Lemma total_perm l l' : Permutation l l' -> total l = total l'.
Proof.
  induction 1 as [|x l l' _ IH|x y l|l l' l'' _ IH1 _ IH2].
  - reflexivity.
  - rewrite !total_cons, IH. reflexivity.
  - rewrite !total_cons. lia.
  - congruence.
Qed.

(* every block is owned by a rank of the group: the loads of the ranks add up to the total *)
Lemma sum_loads gs l : (forall x, In x l -> (snd x < gs)%nat) -> sumz (loads gs l) = total l.
Proof.
  unfold loads. induction l as [|x l IH]; intros H.
  - unfold total. cbn [map sumz fold_right]. rewrite <- (Z.mul_0_l (Z.of_nat (length (seq 0 gs)))).
    apply Z.le_antisymm; [apply sumz_map_le|apply sumz_map_ge]; intros; rewrite rload_nil; lia.
  - rewrite total_cons, <- IH by (intros; apply H; right; assumption).
    rewrite (sumz_map_ext (rload (x :: l)) (fun r => (if (snd x =? r)%nat then fst x else 0) + rload l r))
      by (intros; apply rload_cons).
    rewrite (sumz_map_add (fun r => if (snd x =? r)%nat then fst x else 0) (rload l)).
    rewrite sumz_indicator.
    assert (snd x < gs)%nat by (apply H; left; reflexivity).
    replace (0 <=? snd x)%nat with true by (symmetry; apply Nat.leb_le; lia).
    replace (snd x <? 0 + gs)%nat with true by (symmetry; apply Nat.ltb_lt; lia).
    reflexivity.
Qed.

Lemma maxz_ge l x : In x l -> x <= maxz l.
Proof.
  induction l as [|a l IH]; [intros []|].
  intros [->|H]; cbn [maxz fold_right]; [lia|]. specialize (IH H). unfold maxz in IH. lia.
Qed.

Lemma maxz_nonneg l : 0 <= maxz l.
Proof. induction l as [|a l IH]; cbn [maxz fold_right]; [lia|]. unfold maxz in IH. lia. Qed.

Lemma maxz_le l b : 0 <= b -> (forall x, In x l -> x <= b) -> maxz l <= b.
Proof.
  intros Hb. induction l as [|a l IH]; intros H; cbn [maxz fold_right]; [lia|].
  assert (a <= b) by (apply H; left; reflexivity).
  assert (maxz l <= b) by (apply IH; intros; apply H; right; assumption). unfold maxz in *. lia.
Qed.

Lemma maxz_in l : l <> [] -> (forall x, In x l -> 0 <= x) -> In (maxz l) l.
Proof.
  induction l as [|a l IH]; [congruence|]. intros _ H.
  destruct l as [|b l].
  - cbn. left. assert (0 <= a) by (apply H; left; reflexivity). lia.
  - assert (In (maxz (b :: l)) (b :: l)) as HI by (apply IH; [congruence|intros; apply H; right; assumption]).
    change (maxz (a :: b :: l)) with (Z.max a (maxz (b :: l))).
    destruct (Z.max_spec a (maxz (b :: l))) as [[_ ->]|[_ ->]].
    + right. assumption.
    + left. reflexivity.
Qed.

Lemma max_load_ge gs l r : (r < gs)%nat -> rload l r <= max_load gs l.
Proof. intros H. apply maxz_ge. unfold loads. apply in_map. apply in_seq. lia. Qed.

Lemma max_load_le gs l b : 0 <= b -> (forall r, (r < gs)%nat -> rload l r <= b) -> max_load gs l <= b.
Proof.
  intros Hb H. apply maxz_le; [assumption|]. intros x Hx. unfold loads in Hx.
  apply in_map_iff in Hx as [r [<- Hr]]. apply in_seq in Hr. apply H. lia.
Qed.

Lemma max_load_attained gs l :
  (1 <= gs)%nat -> (forall x, In x l -> 0 <= fst x) -> exists r, (r < gs)%nat /\ rload l r = max_load gs l.
Proof.
  intros Hgs Hl. assert (In (max_load gs l) (loads gs l)) as H.
  { apply maxz_in.
    - unfold loads. destruct gs; [lia|]. cbn. congruence.
    - intros x Hx. unfold loads in Hx. apply in_map_iff in Hx as [r [<- _]]. apply rload_nonneg; assumption. }
  unfold loads in H. apply in_map_iff in H as [r [E Hr]]. apply in_seq in Hr. exists r. split; [lia|assumption].
Qed.

Lemma max_load_perm gs l l' : Permutation l l' -> max_load gs l = max_load gs l'.
Proof.
  intros P. unfold max_load, loads. f_equal. apply map_ext. intros r. apply rload_perm; assumption.
Qed.

Lemma max_size_ge l x : In x l -> fst x <= max_size l.
Proof. intros H. apply maxz_ge. apply in_map; assumption. Qed.

Lemma max_size_perm l l' : Permutation l l' -> max_size l = max_size l'.
Proof.
  intros P. apply Z.le_antisymm; (apply maxz_le; [apply maxz_nonneg|]); intros x Hx;
    apply in_map_iff in Hx as [y [<- Hy]]; apply max_size_ge.
  - eapply Permutation_in; eassumption.
  - eapply Permutation_in; [apply Permutation_sym|]; eassumption.
Qed.

(* ------------------------------------------------------------------------------------------ *)
(** * Abstract theory of LPT runs (any tie rule that picks a least loaded rank) *)

Lemma lpt_run_ranks gs l : lpt_run gs l -> forall x, In x l -> (snd x < gs)%nat.
Proof.
  induction l as [|a l IH]; [intros _ x []|]. intros (Hr & Ha & _) x [<-|Hx]; auto.
Qed.

Lemma lpt_run_nonneg gs l : lpt_run gs l -> forall x, In x l -> 0 <= fst x.
Proof.
  induction l as [|a l IH]; [intros _ x []|]. intros (Hr & _ & Ha & _) x [<-|Hx]; auto.
Qed.

Lemma lex_le_fst x y : lex_le x y -> fst x <= fst y.
Proof. intros [H|[H _]]; lia. Qed.

(* invariant of the greedy loop: no rank is ahead of another by more than the largest block *)
Lemma lpt_gap_run gs l Q :
  lpt_run gs l -> 0 <= Q -> (forall x, In x l -> fst x <= Q) ->
  forall r r', (r < gs)%nat -> (r' < gs)%nat -> rload l r <= rload l r' + Q.
Proof.
  induction l as [|x rest IH]; intros Hrun HQ Hle r r' Hr Hr'.
  - rewrite !rload_nil. lia.
  - destruct Hrun as (Hrun & Hx & Hq & Hs & Hm).
    assert (forall y, In y rest -> fst y <= Q) as Hle' by (intros; apply Hle; right; assumption).
    assert (fst x <= Q) by (apply Hle; left; reflexivity).
    pose proof (IH Hrun HQ Hle' r r' Hr Hr') as IH1.
    pose proof (lex_le_fst _ _ (Hm r' Hr')) as M1. cbn [fst] in M1.
    rewrite !rload_cons.
    destruct (snd x =? r)%nat eqn:E1, (snd x =? r')%nat eqn:E2;
      try (apply Nat.eqb_eq in E1); try (apply Nat.eqb_eq in E2); subst; lia.
Qed.

Lemma sumz_map_const {A} (c : Z) (l : list A) : sumz (map (fun _ => c) l) = c * Z.of_nat (length l).
Proof.
  apply Z.le_antisymm; [apply sumz_map_le|apply sumz_map_ge]; intros; lia.
Qed.

Lemma lpt_avg_run gs l Q :
  lpt_run gs l -> (1 <= gs)%nat -> 0 <= Q -> (forall x, In x l -> fst x <= Q) ->
  Z.of_nat gs * max_load gs l <= total l + (Z.of_nat gs - 1) * Q.
Proof.
  intros Hrun Hgs HQ Hle.
  destruct (max_load_attained gs l Hgs (lpt_run_nonneg gs l Hrun)) as (rs & Hrs & <-).
  set (M := rload l rs).
  assert (M * Z.of_nat (length (seq 0 gs))
          <= sumz (map (fun r => (rload l r + Q) + (- (if (rs =? r)%nat then Q else 0))) (seq 0 gs))) as H.
  { apply sumz_map_ge. intros r Hr. apply in_seq in Hr.
    destruct (rs =? r)%nat eqn:E.
    - apply Nat.eqb_eq in E. subst r. unfold M. lia.
    - pose proof (lpt_gap_run gs l Q Hrun HQ Hle rs r Hrs ltac:(lia)). unfold M. lia. }
  rewrite seq_length in H.
  rewrite (sumz_map_add (fun r => rload l r + Q) (fun r => - (if (rs =? r)%nat then Q else 0))) in H.
  rewrite (sumz_map_add (rload l) (fun _ => Q)) in H.
  rewrite sumz_map_const, seq_length in H.
  change (map (rload l) (seq 0 gs)) with (loads gs l) in H.
  rewrite sum_loads in H by (apply lpt_run_ranks; assumption).
  assert (sumz (map (fun r => - (if (rs =? r)%nat then Q else 0)) (seq 0 gs)) = - Q) as E.
  { rewrite (sumz_map_ext _ (fun r => (-1) * 0 + (if (rs =? r)%nat then - Q else 0))).
    - rewrite (sumz_map_add (fun _ => (-1) * 0) (fun r => if (rs =? r)%nat then - Q else 0)).
      rewrite sumz_map_const, sumz_indicator.
      replace (0 <=? rs)%nat with true by (symmetry; apply Nat.leb_le; lia).
      replace (rs <? 0 + gs)%nat with true by (symmetry; apply Nat.ltb_lt; lia).
      cbn [andb]. lia.
    - intros r _. destruct (rs =? r)%nat; lia. }
  rewrite E in H. lia.
Qed.

(* --- the counting argument behind Graham's 4/3 bound ---
   If every block is larger than T/3, an assignment of makespan <= T puts at most two blocks on a rank, and a block
   that does not fit beside the smallest block p sits alone.  Weight every block by 1 + [it does not fit beside p]:
   a rank of an assignment with makespan <= T carries weight <= 2, a rank whose load exceeds T - p carries
   weight >= 2.  Both assignments carry the same total weight (same blocks), except that the first has one block
   (p itself) less. *)
Section Counting.
  Variables (p T : Z).
  Definition big (x : Z) : Z := if T <? x + p then 1 else 0.
  Definition wt (x : Z) : Z := 1 + big x.
  Definition wl (l : list (Z * nat)) : list (Z * nat) := map (fun x => (wt (fst x), snd x)) l.

  Lemma on_wl r l : on r (wl l) = wl (on r l).
  Proof.
    unfold on, wl. induction l as [|x l IH]; [reflexivity|].
    cbn [map filter snd]. destruct (snd x =? r)%nat; cbn [map]; rewrite IH; reflexivity.
  Qed.

  Lemma rload_wl l r : rload (wl l) r = sumz (map wt (map fst (on r l))).
  Proof. unfold rload. rewrite on_wl. unfold wl. rewrite !map_map. reflexivity. Qed.

  Lemma total_wl l : total (wl l) = sumz (map wt (map fst l)).
  Proof. unfold total, wl. rewrite !map_map. reflexivity. Qed.

  Lemma wt_ge_1 x : 1 <= wt x.
  Proof. unfold wt, big. destruct (T <? x + p); lia. Qed.

  Lemma heavy_rank_weight xs :
    p <= T -> T < sumz xs + p -> 2 <= sumz (map wt xs).
  Proof.
    intros HpT H. destruct xs as [|x [|y xs]].
    - cbn in H. lia.
    - cbn [map]. rewrite sumz_cons. cbn [sumz fold_right] in *. unfold wt, big.
      replace (T <? x + p) with true by (symmetry; apply Z.ltb_lt; lia). lia.
    - cbn [map]. rewrite !sumz_cons.
      pose proof (wt_ge_1 x). pose proof (wt_ge_1 y).
      assert (0 <= sumz (map wt xs)).
      { apply sumz_nonneg. intros z Hz. apply in_map_iff in Hz as [w [<- _]]. pose proof (wt_ge_1 w). lia. }
      lia.
  Qed.

  Lemma fitting_rank_weight ys :
    0 < p -> T < 3 * p -> (forall y, In y ys -> p <= y) -> sumz ys <= T -> sumz (map wt ys) <= 2.
  Proof.
    intros Hp H3 Hge H. destruct ys as [|y [|z [|u ys]]].
    - cbn. lia.
    - cbn [map]. rewrite sumz_cons. cbn [map sumz fold_right]. unfold wt, big. destruct (T <? y + p); lia.
    - assert (p <= y) by (apply Hge; cbn; auto). assert (p <= z) by (apply Hge; cbn; auto).
      cbn [map]. rewrite !sumz_cons. cbn [map sumz fold_right] in *. unfold wt, big.
      replace (T <? y + p) with false by (symmetry; apply Z.ltb_ge; lia).
      replace (T <? z + p) with false by (symmetry; apply Z.ltb_ge; lia). lia.
    - exfalso.
      assert (p <= y) by (apply Hge; cbn; auto). assert (p <= z) by (apply Hge; cbn; auto).
      assert (p <= u) by (apply Hge; cbn; auto).
      assert (0 <= sumz ys) by (apply sumz_nonneg; intros w Hw; assert (p <= w) by (apply Hge; cbn; auto); lia).
      rewrite !sumz_cons in H. lia.
  Qed.
End Counting.

Lemma pigeon_two gs (la lb : list (Z * nat)) p b0 T :
  map fst la = map fst lb ->
  (forall x, In x la -> (snd x < gs)%nat) -> (forall x, In x lb -> (snd x < gs)%nat) -> (b0 < gs)%nat ->
  (forall x, In x la -> p <= fst x) ->
  0 < p -> T < 3 * p ->
  (forall r, (r < gs)%nat -> rload ((p, b0) :: lb) r <= T) ->
  (forall r, (r < gs)%nat -> T < rload la r + p) -> False.
Proof.
  intros Hfst Hra Hrb Hb0 Hge Hp H3 HbT HaT.
  assert (forall x, In x lb -> p <= fst x) as Hgeb.
  { intros x Hx. apply (in_map fst) in Hx. rewrite <- Hfst in Hx. apply in_map_iff in Hx as [y [<- Hy]]. auto. }
  assert (p <= T) as HpT.
  { pose proof (HbT b0 Hb0) as H. rewrite rload_cons in H. cbn [fst snd] in H. rewrite Nat.eqb_refl in H.
    assert (0 <= rload lb b0) by (apply rload_nonneg; intros x Hx; specialize (Hgeb x Hx); lia). lia. }
  (* weight carried by the ranks of la: at least 2 each *)
  assert (2 * Z.of_nat (length (seq 0 gs)) <= sumz (loads gs (wl p T la))) as Ha.
  { unfold loads. apply sumz_map_ge. intros r Hr. apply in_seq in Hr. rewrite rload_wl.
    apply heavy_rank_weight; [assumption|]. apply HaT. lia. }
  (* weight carried by the ranks of (p,b0)::lb: at most 2 each *)
  assert (sumz (loads gs (wl p T ((p, b0) :: lb))) <= 2 * Z.of_nat (length (seq 0 gs))) as Hb.
  { unfold loads. apply sumz_map_le. intros r Hr. apply in_seq in Hr. rewrite rload_wl.
    apply fitting_rank_weight; try assumption.
    - intros y Hy. apply in_map_iff in Hy as [x [<- Hx]]. unfold on in Hx. apply filter_In in Hx as [Hx _].
      destruct Hx as [<-|Hx]; [cbn; lia|auto].
    - apply HbT. lia. }
  rewrite sum_loads in Ha.
  2:{ intros x Hx. unfold wl in Hx. apply in_map_iff in Hx as [y [<- Hy]]. cbn [snd]. auto. }
  rewrite sum_loads in Hb.
  2:{ intros x Hx. unfold wl in Hx. apply in_map_iff in Hx as [y [<- Hy]]. cbn [snd]. destruct Hy as [<-|Hy]; auto. }
  rewrite total_wl in Ha, Hb. cbn [map fst] in Hb. rewrite sumz_cons, <- Hfst in Hb.
  pose proof (wt_ge_1 p T p). lia.
Qed.

(* Graham 1969, in the sharper form (4/3 - 1/(3 gs)): the load of every rank after an LPT run is within
   (4 gs - 1)/(3 gs) of the largest load of ANY assignment lb of the same blocks *)
Lemma lpt_graham_run gs l :
  lpt_run gs l ->
  forall lb T, map fst lb = map fst l -> (forall x, In x lb -> (snd x < gs)%nat) ->
  (forall r, (r < gs)%nat -> rload lb r <= T) ->
  forall r, (r < gs)%nat -> 3 * Z.of_nat gs * rload l r <= (4 * Z.of_nat gs - 1) * T.
Proof.
  induction l as [|x rest IH]; intros Hrun lb T Hfst Hrb HbT r Hr.
  - assert (0 <= T).
    { specialize (HbT r Hr). destruct lb; [|discriminate]. rewrite rload_nil in HbT. assumption. }
    rewrite rload_nil. nia.
  - destruct Hrun as (Hrun & Hx & Hq & Hs & Hm).
    destruct lb as [|y lb]; [discriminate|]. cbn [map] in Hfst. injection Hfst as Hy Hfst.
    assert (forall z, In z lb -> 0 <= fst z) as Hnb.
    { intros z Hz. apply (in_map fst) in Hz. rewrite Hfst in Hz. apply in_map_iff in Hz as [w [<- Hw]].
      eapply lpt_run_nonneg; eassumption. }
    assert (forall r, (r < gs)%nat -> rload lb r <= T) as HbT'.
    { intros r0 Hr0. specialize (HbT r0 Hr0). rewrite rload_cons in HbT. destruct (snd y =? r0)%nat; lia. }
    assert (forall z, In z lb -> (snd z < gs)%nat) as Hrb' by (intros; apply Hrb; right; assumption).
    assert (0 <= T) as HT.
    { specialize (HbT' r Hr). pose proof (rload_nonneg lb r Hnb). lia. }
    pose proof (IH Hrun lb T Hfst Hrb' HbT') as IH'.
    rewrite rload_cons. destruct (snd x =? r)%nat eqn:E; [|rewrite Z.add_0_l; apply IH'; assumption].
    apply Nat.eqb_eq in E. subst r.
    set (q := fst x) in *. set (s := rload rest (snd x)).
    set (G := Z.of_nat gs). assert (1 <= G) by (unfold G; lia).
    assert (forall r', (r' < gs)%nat -> s <= rload rest r') as Hmin.
    { intros r' Hr'. pose proof (lex_le_fst _ _ (Hm r' Hr')) as M1. exact M1. }
    destruct (Z_le_gt_dec (3 * q) T) as [Hsmall|Hbig].
    + (* the block is at most a third of T: averaging *)
      assert (s * Z.of_nat (length (seq 0 gs)) <= sumz (loads gs rest)) as H1.
      { unfold loads. apply sumz_map_ge. intros r' Hr'. apply in_seq in Hr'. apply Hmin. lia. }
      rewrite seq_length, sum_loads in H1 by (apply lpt_run_ranks; assumption).
      assert (sumz (loads gs (y :: lb)) <= T * Z.of_nat (length (seq 0 gs))) as H2.
      { unfold loads. apply sumz_map_le. intros r' Hr'. apply in_seq in Hr'. apply HbT. lia. }
      rewrite seq_length, sum_loads in H2 by assumption.
      rewrite total_cons in H2. unfold total in H1, H2. rewrite Hfst, Hy in H2. fold q in H2. fold G in H1, H2.
      assert (0 <= (T - 3 * q) * (G - 1)) by (apply Z.mul_nonneg_nonneg; lia).
      nia.
    + (* the block (hence every block placed so far) is larger than T/3: counting *)
      assert (q <= T) as HqT.
      { pose proof (HbT (snd y) (Hrb y (or_introl eq_refl))) as H0. rewrite rload_cons, Nat.eqb_refl, Hy in H0.
        pose proof (rload_nonneg lb (snd y) Hnb). fold q in H0. lia. }
      assert (s + q <= T) as Hfit.
      { destruct (Z_le_gt_dec (s + q) T) as [|Hgt]; [assumption|]. exfalso.
        apply (pigeon_two gs rest lb q (snd y) T); try assumption; try lia.
        - symmetry; assumption.
        - apply lpt_run_ranks; assumption.
        - apply Hrb; left; reflexivity.
        - intros r0 Hr0. specialize (HbT r0 Hr0). destruct y as [y1 y2]. cbn [fst snd] in *. subst y1. exact HbT.
        - intros r0 Hr0. specialize (Hmin r0 Hr0). lia. }
      assert (0 <= (G - 1) * T) by (apply Z.mul_nonneg_nonneg; lia).
      nia.
Qed.

(* ------------------------------------------------------------------------------------------ *)
(** * The concrete model: sort, heap, greedy loop *)

Lemma insert_desc_perm x l : Permutation (insert_desc x l) (x :: l).
Proof.
  induction l as [|y r IH]; cbn [insert_desc]; [apply Permutation_refl|].
  destruct (snd x <? snd y); [|apply Permutation_refl].
  eapply perm_trans; [apply perm_skip; exact IH|apply perm_swap].
Qed.

Lemma sort_desc_perm l : Permutation (sort_desc l) l.
Proof.
  induction l as [|x r IH]; cbn [sort_desc]; [apply perm_nil|].
  eapply perm_trans; [apply insert_desc_perm|apply perm_skip; exact IH].
Qed.

Lemma before_size a b : before a b -> snd b <= snd a.
Proof. intros [H|[H _]]; lia. Qed.

Lemma insert_desc_sorted x l :
  StronglySorted before l -> Forall (fun y => (fst x < fst y)%nat) l -> StronglySorted before (insert_desc x l).
Proof.
  induction l as [|y r IH]; intros Hs Hx; cbn [insert_desc].
  - constructor; constructor.
  - apply StronglySorted_inv in Hs as [Hs Hy]. inversion Hx as [|? ? Hxy Hxr]; subst.
    destruct (snd x <? snd y) eqn:E.
    + apply Z.ltb_lt in E. constructor; [apply IH; assumption|].
      eapply Permutation_Forall; [apply Permutation_sym, insert_desc_perm|].
      constructor; [left; assumption|assumption].
    + apply Z.ltb_ge in E. constructor; [constructor; assumption|].
      constructor.
      * destruct (Z.eq_dec (snd x) (snd y)); [right; split; assumption|left; lia].
      * rewrite Forall_forall in *. intros z Hz. pose proof (before_size _ _ (Hy z Hz)). specialize (Hxr z Hz).
        destruct (Z.eq_dec (snd x) (snd z)); [right; split; assumption|left; lia].
Qed.

Lemma sort_desc_sorted l :
  StronglySorted (fun a b : nat * Z => (fst a < fst b)%nat) l -> StronglySorted before (sort_desc l).
Proof.
  induction l as [|x r IH]; intros H; cbn [sort_desc]; [constructor|].
  apply StronglySorted_inv in H as [Hr Hx].
  apply insert_desc_sorted; [apply IH; assumption|].
  eapply Permutation_Forall; [apply Permutation_sym, sort_desc_perm|assumption].
Qed.

Lemma combine_seq_in {A} (l : list A) d : forall s i q,
  In (i, q) (combine (seq s (length l)) l) -> (s <= i < s + length l)%nat /\ q = nth (i - s) l d.
Proof.
  induction l as [|a l IH]; intros s i q H; [destruct H|].
  cbn [length seq combine] in H. destruct H as [H|H].
  - injection H as <- <-. rewrite Nat.sub_diag. cbn [length nth]. split; [lia|reflexivity].
  - apply IH in H as [H1 H2]. cbn [length]. split; [lia|].
    replace (i - s)%nat with (S (i - S s)) by lia. cbn [nth]. assumption.
Qed.

Lemma combine_seq_fst {A} (l : list A) s : map fst (combine (seq s (length l)) l) = seq s (length l).
Proof.
  revert s; induction l as [|a l IH]; intros s; [reflexivity|].
  cbn [length seq combine map fst]. rewrite IH. reflexivity.
Qed.

Lemma combine_seq_snd {A} (l : list A) s : map snd (combine (seq s (length l)) l) = l.
Proof.
  revert s; induction l as [|a l IH]; intros s; [reflexivity|].
  cbn [length seq combine map snd]. rewrite IH. reflexivity.
Qed.

Lemma combine_seq_sorted {A} (l : list A) s :
  StronglySorted (fun a b : nat * A => (fst a < fst b)%nat) (combine (seq s (length l)) l).
Proof.
  revert s; induction l as [|a l IH]; intros s; [constructor|].
  cbn [length seq combine]. constructor; [apply IH|].
  apply Forall_forall. intros [i q] H. apply (combine_seq_in l a) in H. cbn [fst]. lia.
Qed.

Lemma indexed_length sizes : length (map align64 sizes) = length sizes.
Proof. apply map_length. Qed.

Lemma indexed_fst sizes : map fst (indexed sizes) = seq 0 (length sizes).
Proof. unfold indexed. rewrite <- (indexed_length sizes). apply combine_seq_fst. Qed.

Lemma indexed_snd sizes : map snd (indexed sizes) = map align64 sizes.
Proof. unfold indexed. rewrite <- (indexed_length sizes). apply combine_seq_snd. Qed.

Lemma indexed_in sizes i q :
  In (i, q) (indexed sizes) -> (i < length sizes)%nat /\ q = align64 (nth i sizes 0).
Proof.
  intros H. unfold indexed in H. rewrite <- (indexed_length sizes) in H.
  apply (combine_seq_in _ (align64 0)) in H as [H1 H2]. rewrite indexed_length in H1.
  split; [lia|]. rewrite Nat.sub_0_r in H2. rewrite H2. apply map_nth.
Qed.

Lemma indexed_sorted sizes : StronglySorted (fun a b : nat * Z => (fst a < fst b)%nat) (indexed sizes).
Proof. unfold indexed. rewrite <- (indexed_length sizes). apply combine_seq_sorted. Qed.

(* the heap *)
Lemma lex_leb_le x y : lex_leb x y = true <-> lex_le x y.
Proof.
  unfold lex_leb, lex_le. rewrite orb_true_iff, andb_true_iff, Z.ltb_lt, Z.eqb_eq, Nat.leb_le. reflexivity.
Qed.

Lemma lex_le_refl x : lex_le x x.
Proof. right. split; [reflexivity|lia]. Qed.

Lemma lex_le_trans x y z : lex_le x y -> lex_le y z -> lex_le x z.
Proof. unfold lex_le. intros [H1|[H1 H1']] [H2|[H2 H2']]; try (left; lia). right. split; lia. Qed.

Lemma lex_le_total x y : lex_le x y \/ lex_le y x.
Proof. unfold lex_le. lia. Qed.

Lemma lex_le_antisym x y : lex_le x y -> lex_le y x -> x = y.
Proof. unfold lex_le. destruct x, y; cbn [fst snd]. intros [H1|[H1 H1']] [H2|[H2 H2']]; try lia. f_equal; lia. Qed.

Lemma pop_min_none h : pop_min h = None -> h = [].
Proof.
  destruct h as [|x r]; [reflexivity|]. cbn [pop_min].
  destruct (pop_min r) as [[y r']|]; [destruct (lex_leb x y)|]; discriminate.
Qed.

Lemma pop_min_spec h m h' :
  pop_min h = Some (m, h') -> Permutation h (m :: h') /\ (forall y, In y h -> lex_le m y).
Proof.
  revert m h'; induction h as [|x r IH]; intros m h' H; [discriminate|].
  cbn [pop_min] in H. destruct (pop_min r) as [[y r']|] eqn:E.
  - destruct (IH y r' eq_refl) as [P M].
    destruct (lex_leb x y) eqn:L.
    + injection H as <- <-. apply lex_leb_le in L. split; [apply Permutation_refl|].
      intros z [<-|Hz]; [apply lex_le_refl|]. eapply lex_le_trans; [exact L|apply M; assumption].
    + injection H as <- <-.
      assert (lex_le y x) as L'.
      { destruct (lex_le_total x y) as [C|C]; [|assumption]. apply lex_leb_le in C. congruence. }
      split.
      * eapply perm_trans; [apply perm_skip; exact P|apply perm_swap].
      * intros z [<-|Hz]; [assumption|apply M; assumption].
  - apply pop_min_none in E. subst r. injection H as <- <-. split; [apply Permutation_refl|].
    intros z [<-|[]]. apply lex_le_refl.
Qed.

(* invariant tying the heap to the blocks placed so far *)
Definition heap_ok (gs : nat) (h : list (Z * nat)) (acc : list entry) : Prop :=
  Permutation (map snd h) (seq 0 gs) /\ (forall x, In x h -> fst x = rload (map strip acc) (snd x)).

Lemma init_heap_ok gs : heap_ok gs (init_heap gs) [].
Proof.
  unfold heap_ok, init_heap. split.
  - rewrite map_map. cbn [snd]. rewrite map_id. apply Permutation_refl.
  - intros x Hx. apply in_map_iff in Hx as [r [<- _]]. reflexivity.
Qed.

Definition size_desc (a b : nat * Z) : Prop := snd b <= snd a.

(* contract of heapq.heappop on a bag of (load, rank) pairs: it returns a least element (lexicographic order of
   Python tuples) and leaves the other elements; it fails only on the empty heap *)
Definition pop_contract (pop : list (Z * nat) -> option ((Z * nat) * list (Z * nat))) : Prop :=
  (forall h, pop h = None -> h = [])
  /\ (forall h m h', pop h = Some (m, h') -> Permutation h (m :: h') /\ (forall y, In y h -> lex_le m y)).

(* non-vacuity: the list implementation used for execution satisfies the contract *)
Lemma pop_min_contract : pop_contract pop_min.
Proof. split; [apply pop_min_none|apply pop_min_spec]. Qed.

Section GreedyAnyHeap.
Variable pop : list (Z * nat) -> option ((Z * nat) * list (Z * nat)).
Hypothesis Hpop : pop_contract pop.
Let greedy := greedy_with pop.

Lemma greedy_spec gs : (1 <= gs)%nat ->
  forall order h acc,
    heap_ok gs h acc -> lpt_run gs (map strip acc) ->
    StronglySorted size_desc order -> (forall y, In y order -> 0 <= snd y) ->
    (forall t y, In t acc -> In y order -> snd y <= e_size t) ->
    lpt_run gs (map strip (greedy order h acc)) /\ map fst (greedy order h acc) = rev order ++ map fst acc.
Proof.
  intros Hgs. induction order as [|iq rest IH]; intros h acc [HP HL] Hrun Hsort Hnn Hle.
  - unfold greedy. cbn [greedy_with rev app]. split; [assumption|reflexivity].
  - unfold greedy. cbn [greedy_with]. fold greedy. destruct (pop h) as [[lr h']|] eqn:E.
    2:{ apply (proj1 Hpop) in E. subst h. apply Permutation_length in HP. rewrite seq_length in HP. cbn in HP. lia. }
    destruct (proj2 Hpop _ _ _ E) as [P M].
    apply StronglySorted_inv in Hsort as [Hsort Hiq].
    assert (Permutation (snd lr :: map snd h') (seq 0 gs)) as HP'.
    { eapply perm_trans; [|exact HP]. apply Permutation_sym. apply (Permutation_map snd) in P. exact P. }
    assert (NoDup (snd lr :: map snd h')) as ND.
    { eapply Permutation_NoDup; [apply Permutation_sym; exact HP'|apply seq_NoDup]. }
    assert (In lr h) as Hlr by (eapply Permutation_in; [apply Permutation_sym; exact P|left; reflexivity]).
    assert (snd lr < gs)%nat as Hr.
    { assert (In (snd lr) (seq 0 gs)) as H by (eapply Permutation_in; [exact HP'|left; reflexivity]).
      apply in_seq in H. lia. }
    destruct (IH ((fst lr + snd iq, snd lr) :: h') ((iq, snd lr) :: acc)) as [R1 R2].
    + (* heap_ok *)
      split; [exact HP'|].
      intros x [<-|Hx]; cbn [map fst snd]; rewrite rload_cons; change (strip (iq, snd lr)) with (snd iq, snd lr); cbn [fst snd].
      * rewrite Nat.eqb_refl. rewrite (HL lr Hlr). lia.
      * assert (snd lr <> snd x) as Hne.
        { inversion ND as [|? ? Hnin _]; subst. intros Heq. apply Hnin. rewrite Heq. apply in_map. assumption. }
        apply Nat.eqb_neq in Hne. rewrite Hne. rewrite Z.add_0_l. apply HL.
        eapply Permutation_in; [apply Permutation_sym; exact P|right; assumption].
    + (* lpt_run *)
      cbn [map lpt_run]. change (strip (iq, snd lr)) with (snd iq, snd lr). cbn [fst snd].
      split; [assumption|]. split; [assumption|]. split; [apply Hnn; left; reflexivity|]. split.
      * intros y Hy. apply in_map_iff in Hy as [t [<- Ht]]. unfold strip; cbn [fst]. apply Hle; [assumption|left; reflexivity].
      * intros r' Hr'.
        assert (In r' (map snd h)) as Hin.
        { eapply Permutation_in; [apply Permutation_sym; exact HP|]. apply in_seq. lia. }
        apply in_map_iff in Hin as [x [<- Hx]].
        rewrite <- (HL lr Hlr), <- (HL x Hx). destruct lr, x. apply M. assumption.
    + assumption.
    + intros y Hy. apply Hnn. right. assumption.
    + intros t y [<-|Ht] Hy.
      * cbn [e_size fst snd]. rewrite Forall_forall in Hiq. apply Hiq. assumption.
      * apply Hle; [assumption|right; assumption].
    + split; [assumption|]. rewrite R2. cbn [rev map fst]. rewrite <- app_assoc. reflexivity.
Qed.

(* ------------------------------------------------------------------------------------------ *)
End GreedyAnyHeap.

(* ------------------------------------------------------------------------------------------ *)
(** * From the run to the result in block order *)

Lemma StronglySorted_weaken {A} (R R' : A -> A -> Prop) l :
  (forall a b, R a b -> R' a b) -> StronglySorted R l -> StronglySorted R' l.
Proof.
  intros HR. induction 1 as [|a l _ IH HF]; constructor; [assumption|].
  eapply Forall_impl; [|exact HF]. intros b. apply HR.
Qed.

Lemma run_with_spec pop sizes gs :
  pop_contract pop -> (1 <= gs)%nat -> Forall (fun s => 0 <= s) sizes ->
  let run := greedy_with pop (sort_desc (indexed sizes)) (init_heap gs) [] in
  lpt_run gs (map strip run) /\ map fst run = rev (sort_desc (indexed sizes)).
Proof.
  intros Hpop Hgs Hnn run. subst run.
  destruct (greedy_spec pop Hpop gs Hgs (sort_desc (indexed sizes)) (init_heap gs) []) as [R1 R2].
  - apply init_heap_ok.
  - exact I.
  - eapply StronglySorted_weaken; [|apply sort_desc_sorted, indexed_sorted]. intros a b. apply before_size.
  - intros [i q] Hy. apply (Permutation_in _ (sort_desc_perm _)) in Hy. apply indexed_in in Hy as [Hi ->].
    cbn [snd]. apply align64_nonneg. rewrite Forall_forall in Hnn. apply Hnn.
    apply nth_In. assumption.
  - intros t y [].
  - split; [assumption|]. rewrite R2. cbn [map]. apply app_nil_r.
Qed.

Lemma run_of_spec sizes gs :
  (1 <= gs)%nat -> Forall (fun s => 0 <= s) sizes ->
  lpt_run gs (map strip (run_of sizes gs)) /\ map fst (run_of sizes gs) = rev (sort_desc (indexed sizes)).
Proof. intros Hgs Hnn. apply (run_with_spec pop_min sizes gs pop_min_contract Hgs Hnn). Qed.

Lemma lookup_head t run : lookup (t :: run) (e_index t) = strip t.
Proof. unfold lookup. cbn [find]. rewrite Nat.eqb_refl. reflexivity. Qed.

Lemma lookup_tail t run i : e_index t <> i -> lookup (t :: run) i = lookup run i.
Proof. intros H. unfold lookup. cbn [find]. apply Nat.eqb_neq in H. rewrite H. reflexivity. Qed.

Lemma lookup_map run : NoDup (map e_index run) -> map (lookup run) (map e_index run) = map strip run.
Proof.
  induction run as [|t run IH]; intros ND; [reflexivity|].
  inversion ND as [|? ? Hnin ND']; subst. cbn [map]. rewrite lookup_head. f_equal.
  rewrite <- IH by assumption. apply map_ext_in. intros i Hi. apply lookup_tail.
  intros E. apply Hnin. rewrite E. assumption.
Qed.

Lemma lookup_perm run ks :
  NoDup (map e_index run) -> Permutation ks (map e_index run) -> Permutation (map (lookup run) ks) (map strip run).
Proof. intros ND P. rewrite <- lookup_map by assumption. apply Permutation_map. assumption. Qed.

Lemma lookup_in run i :
  In i (map e_index run) -> exists t, In t run /\ e_index t = i /\ lookup run i = strip t.
Proof.
  unfold lookup. intros H. destruct (find (fun t => (e_index t =? i)%nat) run) as [t|] eqn:E.
  - apply find_some in E as [E1 E2]. apply Nat.eqb_eq in E2. exists t. auto.
  - apply in_map_iff in H as [t [Ht1 Ht2]]. apply (find_none _ _ E) in Ht2. cbn beta in Ht2.
    rewrite Ht1, Nat.eqb_refl in Ht2. discriminate.
Qed.

Section RunFacts.
  Variables (sizes : list Z) (run : list entry).
  Hypothesis Hperm : Permutation (map fst run) (indexed sizes).

  Lemma run_index_perm : Permutation (map e_index run) (seq 0 (length sizes)).
  Proof.
    rewrite <- indexed_fst. replace (map e_index run) with (map fst (map fst run)) by (rewrite map_map; reflexivity).
    apply Permutation_map. assumption.
  Qed.

  Lemma run_index_nodup : NoDup (map e_index run).
  Proof. eapply Permutation_NoDup; [apply Permutation_sym, run_index_perm|apply seq_NoDup]. Qed.

  Lemma run_result_perm : Permutation (map (lookup run) (seq 0 (length sizes))) (map strip run).
  Proof. apply lookup_perm; [apply run_index_nodup|apply Permutation_sym, run_index_perm]. Qed.

  Lemma run_entry t : In t run -> (e_index t < length sizes)%nat /\ e_size t = align64 (nth (e_index t) sizes 0).
  Proof.
    intros Ht. apply (in_map fst) in Ht. apply (Permutation_in _ Hperm) in Ht.
    destruct t as [[i q] r]. cbn [fst] in Ht. apply indexed_in in Ht. exact Ht.
  Qed.

  Lemma run_lookup i : (i < length sizes)%nat ->
    exists r, lookup run i = (align64 (nth i sizes 0), r) /\ In (align64 (nth i sizes 0), r) (map strip run).
  Proof.
    intros Hi. assert (In i (map e_index run)) as H.
    { eapply Permutation_in; [apply Permutation_sym, run_index_perm|]. apply in_seq. lia. }
    apply lookup_in in H as (t & Ht & Hidx & Hl). destruct (run_entry t Ht) as [_ Hs]. rewrite Hidx in Hs.
    exists (e_rank t). rewrite Hl. unfold strip. rewrite Hs. split; [reflexivity|].
    apply in_map_iff. exists t. split; [unfold strip; rewrite Hs; reflexivity|assumption].
  Qed.
End RunFacts.

Lemma map_nth_seq {A} (l : list A) d : map (fun i => nth i l d) (seq 0 (length l)) = l.
Proof.
  induction l as [|a l IH]; [reflexivity|].
  cbn [length seq map nth]. f_equal. rewrite <- seq_shift, map_map. exact IH.
Qed.

(** every block gets exactly one rank below gs, together with its own aligned size *)
Lemma spec_total sizes gs res :
  lpt_spec sizes gs res ->
  length res = length sizes /\ map fst res = map align64 sizes /\ Forall (fun x => (snd x < gs)%nat) res.
Proof.
  intros (run & Hperm & _ & Hrun & ->). split; [rewrite map_length, seq_length; reflexivity|]. split.
  - rewrite map_map. etransitivity; [|apply (map_nth_seq (map align64 sizes) (align64 0))]. rewrite map_length.
    apply map_ext_in. intros i Hi. apply in_seq in Hi.
    destruct (run_lookup sizes run Hperm i ltac:(lia)) as (r & -> & _). cbn [fst]. symmetry. apply map_nth.
  - apply Forall_forall. intros x Hx. apply in_map_iff in Hx as [i [<- Hi]]. apply in_seq in Hi.
    destruct (run_lookup sizes run Hperm i ltac:(lia)) as (r & -> & Hin). cbn [snd].
    apply (lpt_run_ranks gs _ Hrun) in Hin. exact Hin.
Qed.

Lemma spec_nth sizes gs res i :
  lpt_spec sizes gs res -> (i < length sizes)%nat ->
  fst (nth i res (0, 0%nat)) = align64 (nth i sizes 0) /\ (snd (nth i res (0%Z, 0%nat)) < gs)%nat.
Proof.
  intros H Hi. destruct (spec_total _ _ _ H) as (Hlen & Hfst & Hr). split.
  - change 0 with (fst (0, 0%nat)) at 1. rewrite <- map_nth, Hfst.
    change (fst (0, 0%nat)) with 0. rewrite (nth_indep _ 0 (align64 0)) by (rewrite map_length; lia). apply map_nth.
  - rewrite Forall_forall in Hr. apply Hr. apply nth_In. lia.
Qed.

Theorem assign_is_lpt sizes gs :
  (1 <= gs)%nat -> Forall (fun s => 0 <= s) sizes -> lpt_spec sizes gs (assign sizes gs).
Proof.
  intros Hgs Hnn. destruct (run_of_spec sizes gs Hgs Hnn) as [R1 R2].
  exists (run_of sizes gs). split; [|split; [|split]].
  - rewrite R2. eapply perm_trans; [apply Permutation_sym, Permutation_rev|apply sort_desc_perm].
  - rewrite R2, rev_involutive. apply sort_desc_sorted, indexed_sorted.
  - assumption.
  - reflexivity.
Qed.

(** the specification determines the result: it is a function of the sizes and the group size only *)
Lemma sorted_perm_unique (l l' : list (nat * Z)) :
  StronglySorted before l -> StronglySorted before l' -> Permutation l l' -> l = l'.
Proof.
  revert l'; induction l as [|a l IH]; intros l' S S' P.
  - apply Permutation_nil in P. auto.
  - destruct l' as [|a' l']; [apply Permutation_sym, Permutation_nil in P; discriminate|].
    apply StronglySorted_inv in S as [S Fa]. apply StronglySorted_inv in S' as [S' Fa'].
    rewrite Forall_forall in Fa, Fa'.
    assert (a = a') as ->.
    { assert (In a (a' :: l')) as H1 by (eapply Permutation_in; [exact P|left; reflexivity]).
      assert (In a' (a :: l)) as H2 by (eapply Permutation_in; [apply Permutation_sym; exact P|left; reflexivity]).
      destruct H1 as [H1|H1]; [auto|]. destruct H2 as [H2|H2]; [auto|].
      apply Fa' in H1. apply Fa in H2. unfold before in *. lia. }
    f_equal. apply IH; try assumption. eapply Permutation_cons_inv; exact P.
Qed.

Lemma lpt_run_unique gs (run run' : list entry) :
  map fst run = map fst run' -> lpt_run gs (map strip run) -> lpt_run gs (map strip run') -> run = run'.
Proof.
  revert run'; induction run as [|t run IH]; intros run' Hf H H'.
  - destruct run'; [reflexivity|discriminate].
  - destruct run' as [|t' run']; [discriminate|]. cbn [map] in Hf. injection Hf as Ht Hf.
    cbn [map lpt_run] in H, H'. destruct H as (H1 & H2 & _ & _ & Hm). destruct H' as (H1' & H2' & _ & _ & Hm').
    assert (run = run') as <- by (apply IH; assumption).
    f_equal. destruct t as [iq r], t' as [iq' r']. cbn [fst] in Ht. subst iq'.
    unfold strip, e_rank in *. cbn [fst snd] in *.
    pose proof (lex_le_antisym _ _ (Hm r' H2') (Hm' r H2)) as E. injection E as _ E. subst. reflexivity.
Qed.

Theorem lpt_spec_unique sizes gs res res' : lpt_spec sizes gs res -> lpt_spec sizes gs res' -> res = res'.
Proof.
  intros (run & P & S & R & ->) (run' & P' & S' & R' & ->).
  assert (map fst run = map fst run') as E.
  { rewrite <- (rev_involutive (map fst run)), <- (rev_involutive (map fst run')). f_equal.
    apply sorted_perm_unique; try assumption.
    eapply perm_trans; [apply Permutation_sym, Permutation_rev|].
    eapply perm_trans; [exact P|]. eapply perm_trans; [apply Permutation_sym; exact P'|apply Permutation_rev]. }
  rewrite (lpt_run_unique gs run run' E R R'). reflexivity.
Qed.

Theorem assign_total_deterministic sizes gs :
  (1 <= gs)%nat -> Forall (fun s => 0 <= s) sizes ->
  (length (assign sizes gs) = length sizes
   /\ map fst (assign sizes gs) = map align64 sizes
   /\ Forall (fun x => (snd x < gs)%nat) (assign sizes gs))
  /\ (forall res, lpt_spec sizes gs res -> res = assign sizes gs).
Proof.
  intros Hgs Hnn. pose proof (assign_is_lpt sizes gs Hgs Hnn) as H. split.
  - apply spec_total. assumption.
  - intros res Hres. apply (lpt_spec_unique sizes gs); assumption.
Qed.

(** whatever heap implementation satisfies heapq's contract, the result is the model's *)
Theorem heap_implementation_irrelevant pop sizes gs :
  pop_contract pop -> (1 <= gs)%nat -> Forall (fun s => 0 <= s) sizes ->
  assign_with pop sizes gs = assign sizes gs.
Proof.
  intros Hpop Hgs Hnn. apply (lpt_spec_unique sizes gs); [|apply assign_is_lpt; assumption].
  destruct (run_with_spec pop sizes gs Hpop Hgs Hnn) as [R1 R2].
  exists (greedy_with pop (sort_desc (indexed sizes)) (init_heap gs) []). split; [|split; [|split]].
  - rewrite R2. eapply perm_trans; [apply Permutation_sym, Permutation_rev|apply sort_desc_perm].
  - rewrite R2, rev_involutive. apply sort_desc_sorted, indexed_sorted.
  - assumption.
  - reflexivity.
Qed.

(* ------------------------------------------------------------------------------------------ *)
(** * Balance of any result satisfying the specification (hence of the model's) *)

Lemma spec_perm sizes gs res :
  lpt_spec sizes gs res -> exists l, lpt_run gs l /\ Permutation res l.
Proof.
  intros (run & P & _ & R & ->). exists (map strip run). split; [assumption|]. apply run_result_perm. assumption.
Qed.

Lemma spec_gap sizes gs res :
  lpt_spec sizes gs res ->
  forall r r', (r < gs)%nat -> (r' < gs)%nat -> rload res r - rload res r' <= max_size res.
Proof.
  intros H r r' Hr Hr'. destruct (spec_perm _ _ _ H) as (l & Hrun & P).
  rewrite !(rload_perm _ _ _ P), (max_size_perm _ _ P).
  pose proof (lpt_gap_run gs l (max_size l) Hrun (maxz_nonneg _) (max_size_ge l) r r' Hr Hr'). lia.
Qed.

Lemma spec_avg sizes gs res :
  (1 <= gs)%nat -> lpt_spec sizes gs res ->
  Z.of_nat gs * max_load gs res <= total res + (Z.of_nat gs - 1) * max_size res.
Proof.
  intros Hgs H. destruct (spec_perm _ _ _ H) as (l & Hrun & P).
  rewrite (max_load_perm _ _ _ P), (total_perm _ _ P), (max_size_perm _ _ P).
  apply lpt_avg_run; try assumption; [apply maxz_nonneg|apply max_size_ge].
Qed.

Definition valid_assignment (n gs : nat) (b : nat -> nat) : Prop := forall i, (i < n)%nat -> (b i < gs)%nat.

Lemma spec_graham sizes gs res b :
  (1 <= gs)%nat -> lpt_spec sizes gs res -> valid_assignment (length sizes) gs b ->
  3 * Z.of_nat gs * max_load gs res <= (4 * Z.of_nat gs - 1) * max_load gs (assignment_of b sizes).
Proof.
  intros Hgs (run & P & _ & R & ->) Hb.
  pose proof (run_result_perm sizes run P) as PR. rewrite (max_load_perm _ _ _ PR).
  set (g := fun iq : nat * Z => (snd iq, b (fst iq))).
  set (lb := map g (map fst run)).
  assert (Permutation lb (assignment_of b sizes)) as Pb by (apply Permutation_map; assumption).
  destruct (max_load_attained gs (map strip run) Hgs (lpt_run_nonneg gs _ R)) as (rs & Hrs & <-).
  apply (lpt_graham_run gs (map strip run) R lb).
  - unfold lb. rewrite !map_map. reflexivity.
  - intros x Hx. unfold lb in Hx. rewrite map_map in Hx. apply in_map_iff in Hx as [t [<- Ht]].
    unfold g. cbn [snd]. apply Hb. apply (run_entry sizes run P t Ht).
  - intros r Hr. rewrite (rload_perm _ _ _ Pb). apply max_load_ge. assumption.
  - assumption.
Qed.

Theorem lpt_gap_le_max sizes gs :
  (1 <= gs)%nat -> Forall (fun s => 0 <= s) sizes ->
  forall r r', (r < gs)%nat -> (r' < gs)%nat ->
  rload (assign sizes gs) r - rload (assign sizes gs) r' <= max_size (assign sizes gs).
Proof. intros Hgs Hnn. apply (spec_gap sizes). apply assign_is_lpt; assumption. Qed.

Theorem lpt_le_avg_plus_max sizes gs :
  (1 <= gs)%nat -> Forall (fun s => 0 <= s) sizes ->
  Z.of_nat gs * max_load gs (assign sizes gs)
  <= total (assign sizes gs) + (Z.of_nat gs - 1) * max_size (assign sizes gs).
Proof. intros Hgs Hnn. apply (spec_avg sizes); [assumption|]. apply assign_is_lpt; assumption. Qed.

(** Graham's bound, sharp form: max load <= (4/3 - 1/(3 gs)) * (max load of ANY assignment) *)
Theorem lpt_graham_sharp sizes gs b :
  (1 <= gs)%nat -> Forall (fun s => 0 <= s) sizes -> valid_assignment (length sizes) gs b ->
  3 * Z.of_nat gs * max_load gs (assign sizes gs)
  <= (4 * Z.of_nat gs - 1) * max_load gs (assignment_of b sizes).
Proof. intros Hgs Hnn. apply spec_graham; [assumption|]. apply assign_is_lpt; assumption. Qed.

Lemma graham_weaken G L T : 1 <= G -> 0 <= T -> 3 * G * L <= (4 * G - 1) * T -> 3 * L <= 4 * T.
Proof. intros. nia. Qed.

Lemma max_load_nonneg gs l : 0 <= max_load gs l.
Proof. apply maxz_nonneg. Qed.

Theorem lpt_four_thirds sizes gs b :
  (1 <= gs)%nat -> Forall (fun s => 0 <= s) sizes -> valid_assignment (length sizes) gs b ->
  3 * max_load gs (assign sizes gs) <= 4 * max_load gs (assignment_of b sizes).
Proof.
  intros Hgs Hnn Hb. apply (graham_weaken (Z.of_nat gs)); [lia|apply max_load_nonneg|].
  apply lpt_graham_sharp; assumption.
Qed.

(* ------------------------------------------------------------------------------------------ *)
(** * Gather-buffer layout *)

Lemma nth_map_seq {A} (f : nat -> A) n i d : (i < n)%nat -> nth i (map f (seq 0 n)) d = f i.
Proof.
  intros H. rewrite (nth_indep _ d (f 0%nat)) by (rewrite map_length, seq_length; lia).
  rewrite map_nth, seq_nth by lia. reflexivity.
Qed.

Lemma in_firstn {A} (l : list A) n x : In x (firstn n l) -> In x l.
Proof.
  revert n; induction l as [|a l IH]; intros n H; destruct n; cbn [firstn] in H; try destruct H.
  - left; assumption.
  - right; eapply IH; eassumption.
Qed.

Definition slot_term (x : Z * nat) (r : nat) : Z := if (snd x =? r)%nat then fst x else 0.

Lemma prefix_mono (l : list (Z * nat)) r d :
  (forall x, In x l -> 0 <= fst x) ->
  forall i j, (i < j)%nat -> (j <= length l)%nat ->
  rload (firstn i l) r + slot_term (nth i l d) r <= rload (firstn j l) r.
Proof.
  induction l as [|x l IH]; intros Hnn i j Hij Hj; [cbn in Hj; lia|].
  assert (0 <= fst x) by (apply Hnn; left; reflexivity).
  assert (forall y, In y l -> 0 <= fst y) as Hnn' by (intros; apply Hnn; right; assumption).
  destruct j as [|j]; [lia|]. cbn [length] in Hj. cbn [firstn]. rewrite rload_cons. fold (slot_term x r).
  destruct i as [|i].
  - cbn [firstn nth]. rewrite rload_nil.
    assert (0 <= rload (firstn j l) r).
    { apply rload_nonneg. intros y Hy. apply Hnn'. eapply in_firstn; exact Hy. }
    lia.
  - cbn [firstn nth]. rewrite rload_cons. fold (slot_term x r).
    specialize (IH Hnn' i j ltac:(lia) ltac:(lia)). lia.
Qed.

Lemma rload_mod64 l r : (forall x, In x l -> fst x mod 64 = 0) -> rload l r mod 64 = 0.
Proof.
  induction l as [|x l IH]; intros H; [reflexivity|].
  rewrite rload_cons. assert (fst x mod 64 = 0) by (apply H; left; reflexivity).
  assert (rload l r mod 64 = 0) by (apply IH; intros; apply H; right; assumption).
  destruct (snd x =? r)%nat; lia.
Qed.

Lemma max_load_mod64 gs l :
  (1 <= gs)%nat -> (forall x, In x l -> 0 <= fst x) -> (forall x, In x l -> fst x mod 64 = 0) ->
  max_load gs l mod 64 = 0.
Proof.
  intros Hgs Hnn Hm. destruct (max_load_attained gs l Hgs Hnn) as (r & _ & <-). apply rload_mod64. assumption.
Qed.

Lemma layout_ok gs (l : list (Z * nat)) :
  (1 <= gs)%nat -> (forall x, In x l -> 0 <= fst x) -> (forall x, In x l -> fst x mod 64 = 0) ->
  (forall x, In x l -> (snd x < gs)%nat) ->
  forall i, (i < length l)%nat ->
    let M := max_load gs l in
    let q := fst (nth i l (0, 0%nat)) in
    let r := snd (nth i l (0, 0%nat)) in
    let off := view_offset l M i in
    off mod 64 = 0 /\ Z.of_nat r * M <= off /\ off + q <= (Z.of_nat r + 1) * M
    /\ forall j, (j < length l)%nat -> j <> i ->
         off + q <= view_offset l M j \/ view_offset l M j + fst (nth j l (0, 0%nat)) <= off.
Proof.
  intros Hgs Hnn Hm Hr.
  assert (forall i, (i < length l)%nat ->
            0 <= rload (firstn i l) (snd (nth i l (0, 0%nat)))
            /\ rload (firstn i l) (snd (nth i l (0, 0%nat))) + fst (nth i l (0, 0%nat)) <= max_load gs l) as Hslot.
  { intros i Hi. split.
    - apply rload_nonneg. intros y Hy. apply Hnn. eapply in_firstn; exact Hy.
    - pose proof (prefix_mono l (snd (nth i l (0, 0%nat))) (0, 0%nat) Hnn i (length l) Hi (Nat.le_refl _)) as H.
      rewrite firstn_all in H. unfold slot_term in H. rewrite Nat.eqb_refl in H.
      pose proof (max_load_ge gs l (snd (nth i l (0, 0%nat))) (Hr _ (nth_In _ _ Hi))). lia. }
  assert (0 <= max_load gs l) as HM by apply max_load_nonneg.
  intros i Hi M q r off. subst M q r off. unfold view_offset.
  destruct (Hslot i Hi) as [S1 S2].
  set (M := max_load gs l) in *. set (ri := snd (nth i l (0, 0%nat))) in *. set (qi := fst (nth i l (0, 0%nat))) in *.
  split; [|split; [|split]].
  - pose proof (max_load_mod64 gs l Hgs Hnn Hm) as HM64. fold M in HM64.
    pose proof (rload_mod64 (firstn i l) ri) as HR64.
    assert (rload (firstn i l) ri mod 64 = 0) as HR by (apply HR64; intros y Hy; apply Hm; eapply in_firstn; exact Hy).
    rewrite Z.add_mod, Z.mul_mod, HM64 by lia. rewrite Z.mul_0_r, Zmod_0_l, Z.add_0_l, HR. reflexivity.
  - lia.
  - lia.
  - intros j Hj Hne. destruct (Hslot j Hj) as [T1 T2].
    set (rj := snd (nth j l (0, 0%nat))) in *. set (qj := fst (nth j l (0, 0%nat))) in *.
    destruct (Nat.lt_trichotomy ri rj) as [Hlt|[Heq|Hgt]].
    + left. assert (Z.of_nat ri + 1 <= Z.of_nat rj) by lia.
      assert ((Z.of_nat ri + 1) * M <= Z.of_nat rj * M) by (apply Z.mul_le_mono_nonneg_r; assumption). lia.
    + destruct (Nat.lt_trichotomy i j) as [Hij|[Hij|Hij]]; [|congruence|].
      * left. pose proof (prefix_mono l rj (0, 0%nat) Hnn i j Hij ltac:(lia)) as H.
        unfold slot_term in H. fold ri qi in H. rewrite Heq, Nat.eqb_refl in H. rewrite Heq in *. lia.
      * right. pose proof (prefix_mono l ri (0, 0%nat) Hnn j i Hij ltac:(lia)) as H.
        unfold slot_term in H. fold rj qj in H. rewrite <- Heq, Nat.eqb_refl in H. rewrite <- Heq in *. lia.
    + right. assert (Z.of_nat rj + 1 <= Z.of_nat ri) by lia.
      assert ((Z.of_nat rj + 1) * M <= Z.of_nat ri * M) by (apply Z.mul_le_mono_nonneg_r; assumption). lia.
Qed.

Lemma spec_views_ok sizes gs res :
  (1 <= gs)%nat -> Forall (fun s => 0 <= s) sizes -> lpt_spec sizes gs res ->
  views_ok sizes gs res (views_of res gs sizes).
Proof.
  intros Hgs Hnn H. destruct (spec_total _ _ _ H) as (Hlen & Hfst & Hr).
  assert (forall x, In x res -> 0 <= fst x /\ fst x mod 64 = 0) as Hx.
  { intros x Hx. apply (in_map fst) in Hx. rewrite Hfst in Hx. apply in_map_iff in Hx as [s [<- Hs]].
    rewrite Forall_forall in Hnn. split; [apply align64_nonneg; auto|apply aligned_multiple_of_64]. }
  rewrite Forall_forall in Hr.
  unfold views_ok, views_of. rewrite map_length, seq_length. split; [assumption|].
  intros i Hi. rewrite nth_map_seq by lia. cbn [fst snd].
  destruct (layout_ok gs res Hgs (fun x Hx' => proj1 (Hx x Hx')) (fun x Hx' => proj2 (Hx x Hx')) Hr i ltac:(lia))
    as (L1 & L2 & L3 & L4).
  destruct (spec_nth sizes gs res i H Hi) as [Hq _].
  split; [assumption|]. split; [reflexivity|]. split; [rewrite Hq; apply aligned_ge_size|].
  split; [assumption|]. split; [assumption|].
  intros j Hj Hne. rewrite nth_map_seq by lia. cbn [fst]. apply L4; [lia|assumption].
Qed.

Lemma model_views_ok numels dsize gs :
  (1 <= gs)%nat -> 0 <= dsize -> Forall (fun n => 0 <= n) numels ->
  views_ok (block_bytes numels dsize) gs (assign (block_bytes numels dsize) gs) (views numels dsize gs).
Proof.
  intros Hgs Hd Hn. assert (Forall (fun s => 0 <= s) (block_bytes numels dsize)) as Hnn.
  { unfold block_bytes. apply Forall_forall. intros s Hs. apply in_map_iff in Hs as [n [<- Hn']].
    rewrite Forall_forall in Hn. apply Z.mul_nonneg_nonneg; auto. }
  apply spec_views_ok; [assumption|assumption|]. apply assign_is_lpt; assumption.
Qed.

(** the theorems named in the design, for the model *)
Section Buffers.
  Variables (sizes : list Z) (gs : nat).
  Hypothesis Hgs : (1 <= gs)%nat.
  Hypothesis Hnn : Forall (fun s => 0 <= s) sizes.
  Let l := assign sizes gs.
  Let M := max_load gs l.
  Let off i := view_offset l M i.
  Let q i := fst (nth i l (0, 0%nat)).
  Let r i := snd (nth i l (0, 0%nat)).

  Lemma buffers_facts : views_ok sizes gs l (views_of l gs sizes).
  Proof. apply spec_views_ok; try assumption. apply assign_is_lpt; assumption. Qed.

  Lemma views_of_nth i : (i < length sizes)%nat -> nth i (views_of l gs sizes) (0, 0) = (off i, nth i sizes 0).
  Proof.
    intros Hi. unfold views_of. rewrite nth_map_seq; [reflexivity|].
    unfold l. destruct (assign_total_deterministic sizes gs Hgs Hnn) as [(-> & _) _]. assumption.
  Qed.

  Theorem buffers_in_owner_segment i :
    (i < length sizes)%nat -> (r i < gs)%nat /\ Z.of_nat (r i) * M <= off i /\ off i + q i <= (Z.of_nat (r i) + 1) * M.
  Proof.
    intros Hi. destruct buffers_facts as [_ H]. specialize (H i Hi). rewrite views_of_nth in H by assumption.
    cbn [fst snd] in H. split; [|tauto].
    apply (spec_nth sizes gs l i); [apply assign_is_lpt; assumption|assumption].
  Qed.

  Theorem buffers_ge_block_bytes i :
    (i < length sizes)%nat ->
    snd (nth i (views_of l gs sizes) (0, 0)) = nth i sizes 0 /\ nth i sizes 0 <= q i /\ q i = align64 (nth i sizes 0)
    /\ q i mod 64 = 0.
  Proof.
    intros Hi. rewrite views_of_nth by assumption. cbn [snd].
    destruct (spec_nth sizes gs l i (assign_is_lpt sizes gs Hgs Hnn) Hi) as [Hq _]. fold (q i) in Hq.
    rewrite Hq. split; [reflexivity|]. split; [apply aligned_ge_size|]. split; [reflexivity|apply aligned_multiple_of_64].
  Qed.

  Theorem buffers_disjoint_aligned i j :
    (i < length sizes)%nat -> (j < length sizes)%nat -> i <> j ->
    off i mod 64 = 0 /\ (off i + q i <= off j \/ off j + q j <= off i).
  Proof.
    intros Hi Hj Hne. destruct buffers_facts as [_ H]. specialize (H i Hi). rewrite views_of_nth in H by assumption.
    cbn [fst snd] in H. destruct H as (H1 & _ & _ & _ & _ & H6). split; [assumption|].
    specialize (H6 j Hj ltac:(congruence)). rewrite views_of_nth in H6 by assumption. exact H6.
  Qed.
End Buffers.

(* ------------------------------------------------------------------------------------------ *)
(** * Selectors and state placement *)

Lemma selector_nth l r i : (i < length l)%nat -> nth i (selector l r) false = (snd (nth i l (0%Z, 0%nat)) =? r)%nat.
Proof.
  intros Hi. unfold selector.
  rewrite (nth_indep _ false ((fun x : Z * nat => (snd x =? r)%nat) (0%Z, 0%nat))) by (rewrite map_length; assumption).
  apply (map_nth (fun x : Z * nat => (snd x =? r)%nat)).
Qed.

Lemma selector_length l r : length (selector l r) = length l.
Proof. apply map_length. Qed.

(** within a group, the selectors of the gs ranks partition the block list: block i is selected by exactly its owner *)
Theorem state_on_exactly_one_rank sizes gs :
  (1 <= gs)%nat -> Forall (fun s => 0 <= s) sizes ->
  let l := assign sizes gs in
  forall i, (i < length sizes)%nat ->
    exists r, (r < gs)%nat /\ r = snd (nth i l (0%Z, 0%nat))
              /\ forall r', nth i (selector l r') false = true <-> r' = r.
Proof.
  intros Hgs Hnn l i Hi. pose proof (assign_is_lpt sizes gs Hgs Hnn) as H.
  destruct (spec_total _ _ _ H) as (Hlen & _). destruct (spec_nth sizes gs _ i H Hi) as [_ Hr].
  exists (snd (nth i l (0%Z, 0%nat))). split; [exact Hr|]. split; [reflexivity|].
  intros r'. unfold l. rewrite selector_nth by lia. rewrite Nat.eqb_eq. split; congruence.
Qed.

Lemma selector_count l gs i :
  (i < length l)%nat -> (snd (nth i l (0%Z, 0%nat)) < gs)%nat ->
  sumz (map (fun r => if nth i (selector l r) false then 1 else 0) (seq 0 gs)) = 1.
Proof.
  intros Hi Hr.
  rewrite (sumz_map_ext _ (fun r => if (snd (nth i l (0%Z, 0%nat)) =? r)%nat then 1 else 0))
    by (intros r _; rewrite selector_nth by assumption; reflexivity).
  rewrite sumz_indicator.
  replace (0 <=? snd (nth i l (0%Z, 0%nat)))%nat with true by (symmetry; apply Nat.leb_le; lia).
  replace (snd (nth i l (0%Z, 0%nat)) <? 0 + gs)%nat with true by (symmetry; apply Nat.ltb_lt; lia).
  reflexivity.
Qed.

(** the state of a block owned by group rank src is allocated on exactly the positions with group rank src:
    one per group *)
Theorem state_mesh_one_per_group src gs R p :
  (src < gs)%nat -> (R mod gs = 0)%nat -> (p < R)%nat ->
  (In p (mesh_positions src gs R) <-> (p mod gs = src)%nat).
Proof.
  intros Hs HR Hp. unfold mesh_positions. rewrite in_map_iff. rewrite (Nat.mod_small src gs Hs).
  assert (gs <> 0)%nat as Hg by lia.
  pose proof (Nat.div_mod R gs Hg) as HRd. rewrite HR, Nat.add_0_r in HRd.
  split.
  - intros (k & <- & Hk). rewrite Nat.mod_add by assumption. apply Nat.mod_small. assumption.
  - intros Hm. exists (p / gs)%nat. pose proof (Nat.div_mod p gs Hg) as Hpd. split.
    + rewrite Hm in Hpd. lia.
    + apply in_seq. split; [lia|]. cbn [plus]. apply Nat.div_lt_upper_bound; [assumption|]. lia.
Qed.

Lemma mesh_positions_group src gs R k :
  (src < gs)%nat -> (k < R / gs)%nat -> nth k (mesh_positions src gs R) 0%nat = (k * gs + src)%nat.
Proof.
  intros Hs Hk. unfold mesh_positions. rewrite nth_map_seq by assumption. rewrite Nat.mod_small by assumption. lia.
Qed.

(* ------------------------------------------------------------------------------------------ *)
(** * Non-vacuity: concrete instances *)

(* the example of the docstring of _distribute_buffer_sizes *)
Example assign_docstring : assign [128; 64; 500; 256] 2 = [(128, 1%nat); (64, 1%nat); (512, 0%nat); (256, 1%nat)].
Proof. vm_compute. reflexivity. Qed.

(* ties: equal sizes are processed in block order and go to the lowest rank among the least loaded *)
Example assign_ties : assign [64; 64; 64; 1; 64] 3 = [(64, 0%nat); (64, 1%nat); (64, 2%nat); (64, 0%nat); (64, 1%nat)].
Proof. vm_compute. reflexivity. Qed.

(* hypotheses of the main theorems are satisfiable, and the sharp Graham bound is attained:
   sizes 3,3,2,2,2 (x64) on 2 ranks: LPT gives 7, the optimum {3,3},{2,2,2} gives 6 *)
Example graham_instance :
  let sizes := [192; 192; 128; 128; 128] in
  let b := fun i : nat => if (i <? 2)%nat then 0%nat else 1%nat in
  Forall (fun s => 0 <= s) sizes /\ valid_assignment (length sizes) 2 b
  /\ max_load 2 (assign sizes 2) = 448 /\ max_load 2 (assignment_of b sizes) = 384
  /\ 3 * 2 * max_load 2 (assign sizes 2) = (4 * 2 - 1) * max_load 2 (assignment_of b sizes).
Proof.
  cbv zeta. split; [repeat constructor; lia|]. split.
  - intros i Hi. destruct (i <? 2)%nat; lia.
  - vm_compute. auto.
Qed.

(* the gap bound is attained: one block, two ranks *)
Example gap_instance : rload (assign [1] 2) 0 - rload (assign [1] 2) 1 = max_size (assign [1] 2).
Proof. vm_compute. reflexivity. Qed.

Example lpt_spec_instance : lpt_spec [128; 64; 500; 256] 2 [(128, 1%nat); (64, 1%nat); (512, 0%nat); (256, 1%nat)].
Proof. rewrite <- assign_docstring. apply assign_is_lpt; [lia|repeat constructor; lia]. Qed.

(* layout of the docstring example in fp32 (numel 32, 16, 125, 64): segments of 512 bytes *)
Example views_docstring : views [32; 16; 125; 64] 4 2 = [(512, 128); (640, 64); (0, 500); (704, 256)].
Proof. vm_compute. reflexivity. Qed.

Example views_ok_instance :
  views_ok [128; 64; 500; 256] 2 (assign [128; 64; 500; 256] 2) [(512, 128); (640, 64); (0, 500); (704, 256)].
Proof.
  rewrite <- views_docstring. apply (model_views_ok [32; 16; 125; 64] 4 2); [lia|lia|repeat constructor; lia].
Qed.

Example mesh_instance : mesh_positions 1 3 6 = [1; 4]%nat /\ mesh_positions 5 3 6 = [2; 5]%nat.
Proof. vm_compute. auto. Qed.

Example selector_instance :
  selector (assign [128; 64; 500; 256] 2) 0 = [false; false; true; false]
  /\ selector (assign [128; 64; 500; 256] 2) 1 = [true; true; false; true].
Proof. vm_compute. auto. Qed.
