(* C04 - certified boolean checker: decides, on the observations of a concrete run of the implementation
   (presence history, per-step changed-flags of every parameter value / block value / state tensor, data_ptr
   identity, the masked lists as index lists, the step counters, bit-identity with the reference run), whether
   the property holds on that run.  No model run is involved: only the presence pattern and what was observed. *)
From Coq Require Import ZArith List Bool Arith Lia.
From Shampoo Require Import Show Masks MasksProofs.
Import ListNotations.

Definition lsel_of (lay : layout) (present : list bool) : list bool :=
  compress (expand present (l_nbs lay)) (l_dsel lay).

(* [focusl]: per local block, true when the reference run holds the same data for it *)

(* a block / parameter without gradient: value, every state tensor, storage identity untouched *)
Definition check_untouched (sel present : list bool) (o : obs_step) : bool :=
  forallb2 (fun b chg => b || negb chg) sel (ob_vchg o)
  && forallb2 (fun b chgs => b || all_true (map negb chgs)) sel (ob_schg o)
  && forallb2 (fun b ok => b || ok) sel (ob_ptr o)
  && forallb2 (fun b chg => b || negb chg) present (ob_pchg o).

(* counter: +1 iff some local block has a gradient *)
Definition check_counter (sel : list bool) (prev : Z) (o : obs_step) : bool :=
  Z.eqb (ob_counter o) (if any_true sel then prev + 1 else prev).

(* whenever the per-group step runs (some block has a gradient), both caches hold this step's selector and
   every masked list it pairs positionally is the selector's index list - block i meets block i's buffers.
   On an all-absent step the lists are not used and nothing is required of them. *)
Definition check_masks (lay : layout) (sel present : list bool) (o : obs_step) : bool :=
  let idx := indices sel in
  negb (any_true sel)
  || (list_bool_eqb (ob_lsel o) sel && list_bool_eqb (ob_oprev o) sel
      && list_bool_eqb (ob_dprev o) (expand present (l_nbs lay))
      && list_nat_eqb (ob_dparams o) idx && list_nat_eqb (ob_oparams o) idx
      && forallb (fun c => list_nat_eqb c idx) (ob_comps o)).

(* blocks whose own data and gradient history are shared with the reference run end bit-identical to it *)
Definition check_same (focusl : list bool) (o : obs_step) : bool :=
  forallb2 (fun f same => negb f || same) focusl (ob_same o).

Definition check_step (lay : layout) (focusl : list bool) (prev : Z) (present : list bool) (o : obs_step) : bool :=
  let sel := lsel_of lay present in
  check_untouched sel present o && check_counter sel prev o && check_masks lay sel present o && check_same focusl o.

Fixpoint check_hist (lay : layout) (focusl : list bool) (prev : Z) (h : list (list bool)) (obs : list obs_step) : bool :=
  match h, obs with
  | [], [] => true
  | present :: h', o :: obs' => check_step lay focusl prev present o && check_hist lay focusl (ob_counter o) h' obs'
  | _, _ => false
  end.

Definition C04_checkb (lay : layout) (focus : list bool) (h : list (list bool)) (obs : list obs_step) : bool :=
  check_hist lay (lsel_of lay focus) 0 h obs.

(* ---- what a passing run satisfies ---- *)

Definition C04_step_ok (lay : layout) (focusl : list bool) (prev : Z) (present : list bool) (o : obs_step) : Prop :=
  let sel := lsel_of lay present in
  (* absent block i: value unchanged, every state tensor unchanged, storage kept *)
  (length (ob_vchg o) = length sel /\ length (ob_schg o) = length sel /\ length (ob_ptr o) = length sel
   /\ forall i, nth_error sel i = Some false ->
        nth_error (ob_vchg o) i = Some false
        /\ (exists chgs, nth_error (ob_schg o) i = Some chgs /\ Forall (fun c => c = false) chgs)
        /\ nth_error (ob_ptr o) i = Some true)
  (* absent parameter p: the whole tensor unchanged *)
  /\ (length (ob_pchg o) = length present
      /\ forall p, nth_error present p = Some false -> nth_error (ob_pchg o) p = Some false)
  (* counter *)
  /\ ((ob_counter o = prev <-> existsb (fun b => b) sel = false)
      /\ (existsb (fun b => b) sel = true -> ob_counter o = (prev + 1)%Z))
  (* caches and masked lists, whenever the per-group step runs *)
  /\ (existsb (fun b => b) sel = true ->
      ob_lsel o = sel /\ ob_oprev o = sel /\ ob_dprev o = expand present (l_nbs lay)
      /\ ob_dparams o = indices sel /\ ob_oparams o = indices sel
      /\ Forall (fun c => c = indices sel) (ob_comps o))
  (* non-interference *)
  /\ (length (ob_same o) = length focusl
      /\ forall i, nth_error focusl i = Some true -> nth_error (ob_same o) i = Some true).

Fixpoint C04_hist_ok (lay : layout) (focusl : list bool) (prev : Z) (h : list (list bool)) (obs : list obs_step) : Prop :=
  match h, obs with
  | [], [] => True
  | present :: h', o :: obs' => C04_step_ok lay focusl prev present o /\ C04_hist_ok lay focusl (ob_counter o) h' obs'
  | _, _ => False
  end.

Definition C04_spec (lay : layout) (focus : list bool) (h : list (list bool)) (obs : list obs_step) : Prop :=
  C04_hist_ok lay (lsel_of lay focus) 0 h obs.

Lemma forallb2_nth {A B} (f : A -> B -> bool) l1 l2 :
  forallb2 f l1 l2 = true ->
  length l2 = length l1 /\ forall i a, nth_error l1 i = Some a -> exists b, nth_error l2 i = Some b /\ f a b = true.
Proof.
  revert l2; induction l1 as [|a l1 IH]; destruct l2 as [|b l2]; cbn [forallb2]; intros H; try discriminate.
  - split; [reflexivity|]. intros [|i] a H0; discriminate.
  - apply andb_true_iff in H as [H1 H2]. destruct (IH l2 H2) as [Hl Hn].
    split; [cbn [length]; rewrite Hl; reflexivity|].
    intros [|i] a0 Hi; cbn [nth_error] in *.
    + injection Hi as <-. exists b. split; [reflexivity|exact H1].
    + apply Hn; exact Hi.
Qed.

Lemma all_true_map_negb l : all_true (map negb l) = true -> Forall (fun c => c = false) l.
Proof.
  unfold all_true. induction l as [|c l IH]; cbn [map forallb]; intros H; constructor.
  - apply andb_true_iff in H as [H _]. destruct c; [discriminate|reflexivity].
  - apply IH. apply andb_true_iff in H as [_ H]. exact H.
Qed.

Lemma forallb_list_nat_eqb idx l : forallb (fun c => list_nat_eqb c idx) l = true -> Forall (fun c => c = idx) l.
Proof.
  induction l as [|c l IH]; cbn [forallb]; intros H; constructor.
  - apply andb_true_iff in H as [H _]. apply list_nat_eqb_eq; exact H.
  - apply IH. apply andb_true_iff in H as [_ H]. exact H.
Qed.

Lemma check_step_sound lay focusl prev present o :
  check_step lay focusl prev present o = true -> C04_step_ok lay focusl prev present o.
Proof.
  unfold check_step, C04_step_ok. set (sel := lsel_of lay present). intros H.
  apply andb_true_iff in H as [H Hsame]. apply andb_true_iff in H as [H Hmasks]. apply andb_true_iff in H as [Hunt Hcnt].
  unfold check_untouched in Hunt.
  apply andb_true_iff in Hunt as [Hunt Hp]. apply andb_true_iff in Hunt as [Hunt Hptr]. apply andb_true_iff in Hunt as [Hv Hs].
  apply forallb2_nth in Hv as [Hvl Hv]. apply forallb2_nth in Hs as [Hsl Hs].
  apply forallb2_nth in Hptr as [Hptrl Hptr]. apply forallb2_nth in Hp as [Hpl Hp].
  unfold check_same in Hsame. apply forallb2_nth in Hsame as [Hsamel Hsame].
  split; [|split; [|split; [|split]]].
  - split; [exact Hvl|]. split; [exact Hsl|]. split; [exact Hptrl|].
    intros i Hi. split; [|split].
    + destruct (Hv i false Hi) as (b & Hb & Hf). cbn [orb] in Hf. destruct b; [discriminate|exact Hb].
    + destruct (Hs i false Hi) as (chgs & Hb & Hf). cbn [orb] in Hf. exists chgs. split; [exact Hb|].
      apply all_true_map_negb; exact Hf.
    + destruct (Hptr i false Hi) as (b & Hb & Hf). cbn [orb] in Hf. subst b. exact Hb.
  - split; [exact Hpl|]. intros p Hpi. destruct (Hp p false Hpi) as (b & Hb & Hf). cbn [orb] in Hf.
    destruct b; [discriminate|exact Hb].
  - unfold check_counter in Hcnt. apply Z.eqb_eq in Hcnt. unfold any_true in Hcnt.
    destruct (existsb (fun b => b) sel); rewrite Hcnt.
    + split; [split; [lia|discriminate]|reflexivity].
    + split; [split; reflexivity|discriminate].
  - intros Hany. unfold check_masks, any_true in Hmasks. rewrite Hany in Hmasks. cbn [negb orb] in Hmasks.
    apply andb_true_iff in Hmasks as [Hm Hcomps]. apply andb_true_iff in Hm as [Hm Hop]. apply andb_true_iff in Hm as [Hm Hdp].
    apply andb_true_iff in Hm as [Hm Hdprev]. apply andb_true_iff in Hm as [Hlsel Hoprev].
    apply list_bool_eqb_eq in Hlsel, Hoprev, Hdprev. apply list_nat_eqb_eq in Hdp, Hop.
    split; [exact Hlsel|]. split; [exact Hoprev|]. split; [exact Hdprev|]. split; [exact Hdp|]. split; [exact Hop|].
    apply forallb_list_nat_eqb; exact Hcomps.
  - split; [exact Hsamel|]. intros i Hi. destruct (Hsame i true Hi) as (b & Hb & Hf). cbn [negb orb] in Hf. subst b. exact Hb.
Qed.

Theorem C04_checkb_sound lay focus h obs : C04_checkb lay focus h obs = true -> C04_spec lay focus h obs.
Proof.
  unfold C04_checkb, C04_spec. generalize (lsel_of lay focus) as focusl. generalize 0%Z as prev.
  revert obs; induction h as [|present h IH]; destruct obs as [|o obs]; cbn [check_hist C04_hist_ok]; intros prev focusl H;
    try discriminate; [exact I|].
  apply andb_true_iff in H as [H1 H2]. split; [apply check_step_sound; exact H1|apply IH; exact H2].
Qed.

(* ---- non-vacuity: the checker accepts the observations the model itself predicts for the example of
   MasksProofs (pattern changing at every step, one all-absent step), and rejects the same observations with
   one cross-wired momentum list, one touched absent block, or a counter advanced on the all-absent step ---- *)

Definition mk_obs (counter : Z) (gsel : list bool) (idx : list nat) (chg : list bool) (pchg : list bool) : obs_step :=
  {| ob_counter := counter; ob_dprev := gsel; ob_lsel := gsel; ob_oprev := gsel;
     ob_dparams := idx; ob_oparams := idx; ob_comps := [idx; idx; idx; idx];
     ob_pchg := pchg; ob_vchg := chg; ob_schg := map (fun c => [c; false; c]) chg;
     ob_ptr := [true; true; true; true]; ob_same := [true; false; false; true] |}.

Definition ex_obs : list obs_step :=
  [ mk_obs 1 [true; false; false; true] [0; 3] [true; false; false; true] [true; false; true];
    mk_obs 2 [false; true; true; false] [1; 2] [false; true; true; false] [false; true; false];
    mk_obs 2 [false; false; false; false] [] [false; false; false; false] [false; false; false];
    mk_obs 3 [true; true; true; false] [0; 1; 2] [true; true; true; false] [true; true; false];
    mk_obs 4 [false; true; true; true] [1; 2; 3] [false; true; true; true] [false; true; true] ].

Definition ex_focus : list bool := [true; false; true].

Example ex_model_agrees : C04_agree ex_lay ex_focus ex_presence ex_obs = true.
Proof. vm_compute. reflexivity. Qed.

(* the same observations also agree with the model when the reference run gives the non-focus parameter 1 another
   presence history (the group still steps at the same moments), and in the non-strict comparison mode *)
Example ex_model_agrees_other_presence :
  C04_agree_gen true ex_lay ex_focus ex_presence
    [[true; true; true]; [false; true; false]; [false; false; false]; [true; false; false]; [false; false; true]] ex_obs = true
  /\ C04_agree_gen false ex_lay ex_focus ex_presence ex_presence ex_obs = true.
Proof. split; vm_compute; reflexivity. Qed.

Example ex_checker_accepts : C04_checkb ex_lay ex_focus ex_presence ex_obs = true.
Proof. vm_compute. reflexivity. Qed.

Example ex_spec_holds : C04_spec ex_lay ex_focus ex_presence ex_obs.
Proof. apply C04_checkb_sound. exact ex_checker_accepts. Qed.

Definition tamper (n : nat) (f : obs_step -> obs_step) (l : list obs_step) : list obs_step :=
  firstn n l ++ match skipn n l with o :: r => f o :: r | [] => [] end.

(* momentum list still compressed with the previous step's selector at step 2 *)
Example ex_checker_rejects_crosswired :
  C04_checkb ex_lay ex_focus ex_presence
    (tamper 1 (fun o => {| ob_counter := ob_counter o; ob_dprev := ob_dprev o; ob_lsel := ob_lsel o; ob_oprev := ob_oprev o;
                           ob_dparams := ob_dparams o; ob_oparams := ob_oparams o; ob_comps := [[1; 2]; [1; 2]; [1; 2]; [0; 3]];
                           ob_pchg := ob_pchg o; ob_vchg := ob_vchg o; ob_schg := ob_schg o; ob_ptr := ob_ptr o; ob_same := ob_same o |}) ex_obs)
  = false.
Proof. vm_compute. reflexivity. Qed.

(* a state tensor of the absent block 0 changed at step 2 *)
Example ex_checker_rejects_touched :
  C04_checkb ex_lay ex_focus ex_presence
    (tamper 1 (fun o => {| ob_counter := ob_counter o; ob_dprev := ob_dprev o; ob_lsel := ob_lsel o; ob_oprev := ob_oprev o;
                           ob_dparams := ob_dparams o; ob_oparams := ob_oparams o; ob_comps := ob_comps o;
                           ob_pchg := ob_pchg o; ob_vchg := ob_vchg o;
                           ob_schg := [[false; false; true]; [true; false; true]; [true; false; true]; [false; false; false]];
                           ob_ptr := ob_ptr o; ob_same := ob_same o |}) ex_obs)
  = false.
Proof. vm_compute. reflexivity. Qed.

(* counter incremented on the all-absent step 3 *)
Example ex_checker_rejects_counter :
  C04_checkb ex_lay ex_focus ex_presence
    (tamper 2 (fun o => {| ob_counter := 3; ob_dprev := ob_dprev o; ob_lsel := ob_lsel o; ob_oprev := ob_oprev o;
                           ob_dparams := ob_dparams o; ob_oparams := ob_oparams o; ob_comps := ob_comps o;
                           ob_pchg := ob_pchg o; ob_vchg := ob_vchg o; ob_schg := ob_schg o; ob_ptr := ob_ptr o; ob_same := ob_same o |}) ex_obs)
  = false.
Proof. vm_compute. reflexivity. Qed.
