(* MatrixProofs.v - lemmas about Matrix.v.
   Part 1 (any scalar type): the memo is the identity below n, [meq n] is an equivalence and every
   operation respects it (Proper instances: setoid rewriting with [meq n] works under the operations).
   Part 2 (the real-number instance [R_ops rnd]): finite sums, [mmul_assoc], [mtrans_mmul], identity laws,
   diagonal calculus, powers, orthogonality, the spectral form [spec n Q d] = Q diag(d) Q^T and its
   quadratic form  x^T (Q diag(d) Q^T) x = sum_i d_i (Q^T x)_i^2. *)
From Coq Require Import List Arith Bool Reals Lra Lia Setoid Morphisms.
From Shampoo Require Import Scalar Matrix.
Import ListNotations.

(* ====================================================================== Part 1: any scalar type *)
Section Generic.
  Context {F : Type} (Op : ops F).

  Lemma nth_map_seq {A} (g : nat -> A) n i d : i < n -> nth i (map g (seq 0 n)) d = g i.
  Proof.
    intros H. rewrite (nth_indep _ d (g 0)) by (rewrite map_length, seq_length; exact H).
    rewrite map_nth, seq_nth by exact H. reflexivity.
  Qed.

  Lemma memo_ok n (A : mat F) i j : i < n -> j < n -> memo Op n A i j = A i j.
  Proof.
    intros Hi Hj. unfold memo, of_rows, mtab.
    rewrite (nth_map_seq (fun i => map (A i) (seq 0 n))) by exact Hi.
    apply nth_map_seq; exact Hj.
  Qed.

  Lemma vmemo_ok n (v : vec F) i : i < n -> vmemo Op n v i = v i.
  Proof. intros Hi. unfold vmemo, of_list, vtab. apply nth_map_seq; exact Hi. Qed.

  Lemma of_rows_mtab n (A : mat F) : meq n (of_rows Op (mtab n A)) A.
  Proof. intros i j Hi Hj. apply (memo_ok n A i j Hi Hj). Qed.

  Lemma sumn_ext n (f g : nat -> F) : (forall k, k < n -> f k = g k) -> sumn Op n f = sumn Op n g.
  Proof.
    induction n as [|n IH]; intros H; cbn [sumn]; [reflexivity|].
    rewrite IH by (intros; apply H; lia). rewrite H by lia. reflexivity.
  Qed.

  Global Instance meq_equiv n : Equivalence (@meq F n).
  Proof.
    split.
    - intros A i j _ _; reflexivity.
    - intros A B H i j Hi Hj; symmetry; apply H; assumption.
    - intros A B C H1 H2 i j Hi Hj; rewrite H1, H2 by assumption; reflexivity.
  Qed.
  Global Instance veq_equiv n : Equivalence (@veq F n).
  Proof.
    split.
    - intros A i _; reflexivity.
    - intros A B H i Hi; symmetry; apply H; assumption.
    - intros A B C H1 H2 i Hi; rewrite H1, H2 by assumption; reflexivity.
  Qed.

  Lemma memo_eq n (A : mat F) : meq n (memo Op n A) A.
  Proof. intros i j; apply memo_ok. Qed.

  Lemma vmemo_eq n (v : vec F) : veq n (vmemo Op n v) v.
  Proof. intros i; apply vmemo_ok. Qed.

  Lemma mmul_get n (A B : mat F) i j : i < n -> j < n ->
    mmul Op n A B i j = sumn Op n (fun k => fmul Op (A i k) (B k j)).
  Proof. intros; unfold mmul; rewrite memo_ok by assumption; reflexivity. Qed.

  Lemma mvec_get n (A : mat F) x i : i < n -> mvec Op n A x i = sumn Op n (fun k => fmul Op (A i k) (x k)).
  Proof. intros; unfold mvec; rewrite vmemo_ok by assumption; reflexivity. Qed.

  Lemma scale_cols_get n (Q : mat F) d i j : i < n -> j < n -> scale_cols Op n Q d i j = fmul Op (Q i j) (d j).
  Proof. intros; unfold scale_cols; rewrite memo_ok by assumption; reflexivity. Qed.

  Global Instance mmul_proper n : Proper (meq n ==> meq n ==> meq n) (mmul Op n).
  Proof.
    intros A A' HA B B' HB i j Hi Hj. rewrite !mmul_get by assumption.
    apply sumn_ext; intros k Hk. rewrite HA, HB by assumption. reflexivity.
  Qed.
  Global Instance mtrans_proper n : Proper (meq n ==> meq n) (@mtrans F).
  Proof. intros A A' HA i j Hi Hj. unfold mtrans. apply HA; assumption. Qed.
  Global Instance madd_proper n : Proper (meq n ==> meq n ==> meq n) (madd Op).
  Proof. intros A A' HA B B' HB i j Hi Hj. unfold madd. rewrite HA, HB by assumption. reflexivity. Qed.
  Global Instance msub_proper n : Proper (meq n ==> meq n ==> meq n) (msub Op).
  Proof. intros A A' HA B B' HB i j Hi Hj. unfold msub. rewrite HA, HB by assumption. reflexivity. Qed.
  Global Instance mscale_proper n : Proper (eq ==> meq n ==> meq n) (mscale Op).
  Proof. intros c c' Hc A A' HA i j Hi Hj. unfold mscale. subst. rewrite HA by assumption. reflexivity. Qed.
  Global Instance mpow_proper n : Proper (meq n ==> eq ==> meq n) (mpow Op n).
  Proof.
    intros A A' HA k k' Hk. subst k'. induction k as [|k IH]; cbn [mpow]; [reflexivity|].
    apply mmul_proper; assumption.
  Qed.
  Global Instance mdiag_proper n : Proper (veq n ==> meq n) (mdiag Op).
  Proof. intros d d' Hd i j Hi Hj. unfold mdiag. destruct (Nat.eqb i j); [apply Hd; assumption|reflexivity]. Qed.
  Global Instance scale_cols_proper n : Proper (meq n ==> veq n ==> meq n) (scale_cols Op n).
  Proof.
    intros A A' HA d d' Hd i j Hi Hj. rewrite !scale_cols_get by assumption.
    rewrite HA, Hd by assumption. reflexivity.
  Qed.
  Global Instance mvec_proper n : Proper (meq n ==> veq n ==> veq n) (mvec Op n).
  Proof.
    intros A A' HA x x' Hx i Hi. rewrite !mvec_get by assumption.
    apply sumn_ext; intros k Hk. rewrite HA, Hx by assumption. reflexivity.
  Qed.
  Global Instance dot_proper n : Proper (veq n ==> veq n ==> eq) (dot Op n).
  Proof.
    intros x x' Hx y y' Hy. unfold dot. apply sumn_ext; intros k Hk. rewrite Hx, Hy by assumption. reflexivity.
  Qed.
  Global Instance qform_proper n : Proper (meq n ==> veq n ==> eq) (qform Op n).
  Proof. intros A A' HA x x' Hx. unfold qform. rewrite HA, Hx. reflexivity. Qed.
  Global Instance trace_proper n : Proper (meq n ==> eq) (trace Op n).
  Proof. intros A A' HA. unfold trace. apply sumn_ext; intros k Hk. apply HA; assumption. Qed.

  Lemma mtrans_invol (A : mat F) : mtrans (mtrans A) = A.
  Proof. reflexivity. Qed.

  Lemma fold_left_ext_in {A B} (f g : A -> B -> A) l a :
    (forall x y, In y l -> f x y = g x y) -> fold_left f l a = fold_left g l a.
  Proof.
    revert a; induction l as [|b l IH]; intros a H; cbn [fold_left]; [reflexivity|].
    rewrite H by (left; reflexivity). apply IH. intros; apply H; right; assumption.
  Qed.

  Lemma maxn_ext n (f g : nat -> F) : (forall k, k < n -> f k = g k) -> maxn Op n f = maxn Op n g.
  Proof.
    intros H. unfold maxn. apply fold_left_ext_in. intros x k Hk. apply in_seq in Hk.
    rewrite H by lia. reflexivity.
  Qed.
  Global Instance maxabs_proper n : Proper (meq n ==> eq) (maxabs Op n).
  Proof.
    intros A A' HA. unfold maxabs. apply maxn_ext; intros i Hi. apply maxn_ext; intros j Hj.
    rewrite HA by assumption. reflexivity.
  Qed.
  Global Instance frob2_proper n : Proper (meq n ==> eq) (frob2 Op n).
  Proof.
    intros A A' HA. unfold frob2. apply sumn_ext; intros i Hi. apply sumn_ext; intros j Hj.
    rewrite HA by assumption. reflexivity.
  Qed.
  Global Instance frob_proper n : Proper (meq n ==> eq) (frob Op n).
  Proof. intros A A' HA. unfold frob. rewrite HA. reflexivity. Qed.
  Global Instance norm_inf_proper n : Proper (meq n ==> eq) (norm_inf Op n).
  Proof.
    intros A A' HA. unfold norm_inf. apply maxn_ext; intros i Hi. apply sumn_ext; intros j Hj.
    rewrite HA by assumption. reflexivity.
  Qed.
  Global Instance vmin_proper n : Proper (veq (S n) ==> eq) (vmin Op (S n)).
  Proof.
    intros v v' Hv. unfold vmin. rewrite (Hv 0%nat) by lia. apply fold_left_ext_in.
    intros x k Hk. apply in_seq in Hk. rewrite Hv by lia. reflexivity.
  Qed.

  (* boolean quantifiers *)
  Lemma forall_lt_true n p : forall_lt n p = true <-> (forall i, i < n -> p i = true).
  Proof.
    unfold forall_lt. rewrite forallb_forall. split; intros H i Hi.
    - apply H. apply in_seq. lia.
    - apply in_seq in Hi. apply H. lia.
  Qed.
  Lemma forall2_lt_true n p : forall2_lt n p = true <-> (forall i j, i < n -> j < n -> p i j = true).
  Proof.
    unfold forall2_lt. rewrite forall_lt_true. split; intros H.
    - intros i j Hi Hj. specialize (H i Hi). rewrite forall_lt_true in H. apply H; exact Hj.
    - intros i Hi. apply forall_lt_true. intros j Hj. apply H; assumption.
  Qed.
End Generic.

(* ====================================================================== Part 2: real numbers *)
Local Open Scope R_scope.

Section RMatrix.
  Variable rnd : R -> R.
  Notation Op := (R_ops rnd).
  Notation rsum := (sumn Op).

  Lemma rsum_S n f : rsum (S n) f = rsum n f + f n.
  Proof. reflexivity. Qed.
  Lemma rsum_O f : rsum 0 f = 0.
  Proof. reflexivity. Qed.

  Lemma rsum_zero n : rsum n (fun _ => 0) = 0.
  Proof. induction n as [|n IH]; [reflexivity|]. rewrite rsum_S, IH. lra. Qed.

  Lemma rsum_zero_ext n f : (forall k, (k < n)%nat -> f k = 0) -> rsum n f = 0.
  Proof. intros H. rewrite (sumn_ext Op n f (fun _ => 0)) by exact H. apply rsum_zero. Qed.

  Lemma rsum_plus n f g : rsum n (fun k => f k + g k) = rsum n f + rsum n g.
  Proof. induction n as [|n IH]; [rewrite !rsum_O; lra|]. rewrite !rsum_S, IH. lra. Qed.

  Lemma rsum_minus n f g : rsum n (fun k => f k - g k) = rsum n f - rsum n g.
  Proof. induction n as [|n IH]; [rewrite !rsum_O; lra|]. rewrite !rsum_S, IH. lra. Qed.

  Lemma rsum_mult_l n c f : rsum n (fun k => c * f k) = c * rsum n f.
  Proof. induction n as [|n IH]; [rewrite !rsum_O; lra|]. rewrite !rsum_S, IH. lra. Qed.

  Lemma rsum_mult_r n c f : rsum n (fun k => f k * c) = rsum n f * c.
  Proof. induction n as [|n IH]; [rewrite !rsum_O; lra|]. rewrite !rsum_S, IH. lra. Qed.

  Lemma rsum_swap n m (f : nat -> nat -> R) :
    rsum n (fun i => rsum m (fun j => f i j)) = rsum m (fun j => rsum n (fun i => f i j)).
  Proof.
    induction n as [|n IH].
    - rewrite rsum_O. symmetry. apply rsum_zero.
    - rewrite rsum_S, IH. rewrite <- rsum_plus. apply sumn_ext. intros j _. reflexivity.
  Qed.

  Lemma rsum_delta_r n j f : (j < n)%nat -> rsum n (fun k => if Nat.eqb k j then f k else 0) = f j.
  Proof.
    induction n as [|n IH]; intros Hj; [lia|]. rewrite rsum_S.
    destruct (Nat.eq_dec j n) as [->|Hne].
    - rewrite Nat.eqb_refl. rewrite rsum_zero_ext; [lra|].
      intros k Hk. destruct (Nat.eqb_spec k n); [lia|reflexivity].
    - rewrite IH by lia. destruct (Nat.eqb_spec n j); [lia|lra].
  Qed.
  Lemma rsum_delta_l n j f : (j < n)%nat -> rsum n (fun k => if Nat.eqb j k then f k else 0) = f j.
  Proof.
    intros Hj. rewrite <- (rsum_delta_r n j f Hj). apply sumn_ext. intros k _.
    rewrite Nat.eqb_sym. reflexivity.
  Qed.

  Lemma rsum_le n f g : (forall k, (k < n)%nat -> f k <= g k) -> rsum n f <= rsum n g.
  Proof.
    induction n as [|n IH]; intros H; [rewrite !rsum_O; lra|]. rewrite !rsum_S.
    assert (rsum n f <= rsum n g) by (apply IH; intros; apply H; lia).
    assert (f n <= g n) by (apply H; lia). lra.
  Qed.
  Lemma rsum_nonneg n f : (forall k, (k < n)%nat -> 0 <= f k) -> 0 <= rsum n f.
  Proof. intros H. rewrite <- (rsum_zero n). apply rsum_le. exact H. Qed.

  Lemma rsum_pos n f : (forall k, (k < n)%nat -> 0 <= f k) -> (exists k, (k < n)%nat /\ 0 < f k) -> 0 < rsum n f.
  Proof.
    induction n as [|n IH]; intros H (k & Hk & Hp); [lia|]. rewrite rsum_S.
    assert (0 <= rsum n f) by (apply rsum_nonneg; intros; apply H; lia).
    assert (0 <= f n) by (apply H; lia).
    destruct (Nat.eq_dec k n) as [->|Hne]; [lra|].
    assert (0 < rsum n f); [|lra]. apply IH; [intros; apply H; lia|]. exists k; split; [lia|exact Hp].
  Qed.

  Lemma rsum_zero_inv n f : (forall k, (k < n)%nat -> 0 <= f k) -> rsum n f = 0 -> forall k, (k < n)%nat -> f k = 0.
  Proof.
    intros H H0 k Hk. destruct (Req_dec (f k) 0) as [E|E]; [exact E|exfalso].
    assert (0 < rsum n f); [|lra]. apply rsum_pos; [exact H|]. exists k; split; [exact Hk|].
    specialize (H k Hk). lra.
  Qed.

  Lemma rsum_nonzero_exists n f : rsum n f <> 0 -> exists k, (k < n)%nat /\ f k <> 0.
  Proof.
    induction n as [|n IH]; intros H; [rewrite rsum_O in H; lra|]. rewrite rsum_S in H.
    destruct (Req_dec (f n) 0) as [E|E].
    - rewrite E, Rplus_0_r in H. destruct (IH H) as (k & Hk & Hf). exists k; split; [lia|exact Hf].
    - exists n; split; [lia|exact E].
  Qed.

  Lemma rsum_abs_le n f : Rabs (rsum n f) <= rsum n (fun k => Rabs (f k)).
  Proof.
    induction n as [|n IH]; [rewrite !rsum_O, Rabs_R0; lra|]. rewrite !rsum_S.
    eapply Rle_trans; [apply Rabs_triang|]. lra.
  Qed.

  (* ---- products ------------------------------------------------------------------------ *)
  Notation "A ** B" := (mmul Op _ A B) (at level 40, left associativity, only parsing).

  Lemma rmmul_get n (A B : mat R) i j : (i < n)%nat -> (j < n)%nat ->
    mmul Op n A B i j = rsum n (fun k => A i k * B k j).
  Proof. intros; rewrite mmul_get by assumption; reflexivity. Qed.

  Lemma mmul_assoc n (A B C : mat R) : meq n (mmul Op n (mmul Op n A B) C) (mmul Op n A (mmul Op n B C)).
  Proof.
    intros i j Hi Hj. rewrite !rmmul_get by assumption.
    rewrite (sumn_ext Op n _ (fun k => rsum n (fun l => A i l * B l k * C k j))).
    2:{ intros k Hk. rewrite rmmul_get by assumption. rewrite <- rsum_mult_r. reflexivity. }
    rewrite rsum_swap. apply sumn_ext. intros l Hl. rewrite rmmul_get by assumption.
    rewrite <- rsum_mult_l. apply sumn_ext. intros k _. lra.
  Qed.

  Lemma mtrans_mmul n (A B : mat R) : meq n (mtrans (mmul Op n A B)) (mmul Op n (mtrans B) (mtrans A)).
  Proof.
    intros i j Hi Hj. unfold mtrans at 1. rewrite !rmmul_get by assumption.
    apply sumn_ext. intros k _. unfold mtrans. lra.
  Qed.

  Lemma mmul_id_l n (A : mat R) : meq n (mmul Op n (mid Op) A) A.
  Proof.
    intros i j Hi Hj. rewrite rmmul_get by assumption.
    rewrite (sumn_ext Op n _ (fun k => if Nat.eqb i k then A k j else 0)).
    - apply (rsum_delta_l n i (fun k => A k j)); exact Hi.
    - intros k _. unfold mid. cbn [f1 f0 R_ops]. destruct (Nat.eqb i k); lra.
  Qed.
  Lemma mmul_id_r n (A : mat R) : meq n (mmul Op n A (mid Op)) A.
  Proof.
    intros i j Hi Hj. rewrite rmmul_get by assumption.
    rewrite (sumn_ext Op n _ (fun k => if Nat.eqb k j then A i k else 0)).
    - apply (rsum_delta_r n j (fun k => A i k)); exact Hj.
    - intros k _. unfold mid. cbn [f1 f0 R_ops]. destruct (Nat.eqb k j); lra.
  Qed.

  Lemma mtrans_id n : meq n (mtrans (mid Op)) (mid Op).
  Proof. intros i j _ _. unfold mtrans, mid. rewrite Nat.eqb_sym. reflexivity. Qed.
  Lemma mtrans_diag n d : meq n (mtrans (mdiag Op d)) (mdiag Op d).
  Proof.
    intros i j _ _. unfold mtrans, mdiag. rewrite Nat.eqb_sym.
    destruct (Nat.eqb_spec i j); [subst; reflexivity|reflexivity].
  Qed.

  Lemma mmul_diag_r n (A : mat R) d i j : (i < n)%nat -> (j < n)%nat -> mmul Op n A (mdiag Op d) i j = A i j * d j.
  Proof.
    intros Hi Hj. rewrite rmmul_get by assumption.
    rewrite (sumn_ext Op n _ (fun k => if Nat.eqb k j then A i k * d k else 0)).
    - apply (rsum_delta_r n j (fun k => A i k * d k)); exact Hj.
    - intros k _. unfold mdiag. cbn [f0 R_ops]. destruct (Nat.eqb k j); lra.
  Qed.
  Lemma mmul_diag_l n (A : mat R) d i j : (i < n)%nat -> (j < n)%nat -> mmul Op n (mdiag Op d) A i j = d i * A i j.
  Proof.
    intros Hi Hj. rewrite rmmul_get by assumption.
    rewrite (sumn_ext Op n _ (fun k => if Nat.eqb i k then d k * A k j else 0)).
    - apply (rsum_delta_l n i (fun k => d k * A k j)); exact Hi.
    - intros k _. unfold mdiag. cbn [f0 R_ops]. destruct (Nat.eqb_spec i k); [subst; lra|lra].
  Qed.

  Lemma scale_cols_diag n (Q : mat R) d : meq n (scale_cols Op n Q d) (mmul Op n Q (mdiag Op d)).
  Proof. intros i j Hi Hj. rewrite scale_cols_get, mmul_diag_r by assumption. reflexivity. Qed.

  Lemma mdiag_mul n a b : meq n (mmul Op n (mdiag Op a) (mdiag Op b)) (mdiag Op (fun i => a i * b i)).
  Proof.
    intros i j Hi Hj. rewrite mmul_diag_l by assumption. unfold mdiag. cbn [f0 R_ops].
    destruct (Nat.eqb_spec i j); [subst; reflexivity|lra].
  Qed.
  Lemma mdiag_one n : meq n (mdiag Op (fun _ => 1)) (mid Op).
  Proof. intros i j _ _. reflexivity. Qed.
  Lemma mdiag_pow n d k : meq n (mpow Op n (mdiag Op d) k) (mdiag Op (fun i => d i ^ k)).
  Proof.
    induction k as [|k IH]; cbn [mpow].
    - intros i j _ _. unfold mdiag, mid. cbn [f0 f1 R_ops pow]. reflexivity.
    - rewrite IH, mdiag_mul. intros i j _ _. unfold mdiag. cbn [pow]. reflexivity.
  Qed.

  (* ---- linearity ----------------------------------------------------------------------- *)
  Lemma mmul_madd_l n (A B C : mat R) : meq n (mmul Op n (madd Op A B) C) (madd Op (mmul Op n A C) (mmul Op n B C)).
  Proof.
    intros i j Hi Hj. unfold madd at 2. rewrite !rmmul_get by assumption. cbn [fadd R_ops].
    rewrite <- rsum_plus. apply sumn_ext. intros k _. unfold madd. cbn [fadd R_ops]. lra.
  Qed.
  Lemma mmul_madd_r n (A B C : mat R) : meq n (mmul Op n A (madd Op B C)) (madd Op (mmul Op n A B) (mmul Op n A C)).
  Proof.
    intros i j Hi Hj. unfold madd at 2. rewrite !rmmul_get by assumption. cbn [fadd R_ops].
    rewrite <- rsum_plus. apply sumn_ext. intros k _. unfold madd. cbn [fadd R_ops]. lra.
  Qed.
  Lemma mmul_msub_l n (A B C : mat R) : meq n (mmul Op n (msub Op A B) C) (msub Op (mmul Op n A C) (mmul Op n B C)).
  Proof.
    intros i j Hi Hj. unfold msub at 2. rewrite !rmmul_get by assumption. cbn [fsub R_ops].
    rewrite <- rsum_minus. apply sumn_ext. intros k _. unfold msub. cbn [fsub R_ops]. lra.
  Qed.
  Lemma mmul_msub_r n (A B C : mat R) : meq n (mmul Op n A (msub Op B C)) (msub Op (mmul Op n A B) (mmul Op n A C)).
  Proof.
    intros i j Hi Hj. unfold msub at 2. rewrite !rmmul_get by assumption. cbn [fsub R_ops].
    rewrite <- rsum_minus. apply sumn_ext. intros k _. unfold msub. cbn [fsub R_ops]. lra.
  Qed.
  Lemma mmul_mscale_l n c (A B : mat R) : meq n (mmul Op n (mscale Op c A) B) (mscale Op c (mmul Op n A B)).
  Proof.
    intros i j Hi Hj. unfold mscale at 2. rewrite !rmmul_get by assumption. cbn [fmul R_ops].
    rewrite <- rsum_mult_l. apply sumn_ext. intros k _. unfold mscale. cbn [fmul R_ops]. lra.
  Qed.
  Lemma mmul_mscale_r n c (A B : mat R) : meq n (mmul Op n A (mscale Op c B)) (mscale Op c (mmul Op n A B)).
  Proof.
    intros i j Hi Hj. unfold mscale at 2. rewrite !rmmul_get by assumption. cbn [fmul R_ops].
    rewrite <- rsum_mult_l. apply sumn_ext. intros k _. unfold mscale. cbn [fmul R_ops]. lra.
  Qed.
  Lemma mscale_id_is_diag n c : meq n (mscale Op c (mid Op)) (mdiag Op (fun _ => c)).
  Proof. intros i j _ _. unfold mscale, mid, mdiag. cbn [fmul f0 f1 R_ops]. destruct (Nat.eqb i j); lra. Qed.

  (* ---- powers -------------------------------------------------------------------------- *)
  Lemma mpow_S n (A : mat R) k : mpow Op n A (S k) = mmul Op n A (mpow Op n A k).
  Proof. reflexivity. Qed.
  Lemma mpow_1 n (A : mat R) : meq n (mpow Op n A 1) A.
  Proof. cbn [mpow]. apply mmul_id_r. Qed.

  Lemma mcommute_sym n (A B : mat R) : mcommute Op n A B -> mcommute Op n B A.
  Proof. unfold mcommute; intros H; symmetry; exact H. Qed.
  Lemma mcommute_id n (A : mat R) : mcommute Op n A (mid Op).
  Proof. unfold mcommute. rewrite mmul_id_l, mmul_id_r. reflexivity. Qed.
  Lemma mcommute_refl n (A : mat R) : mcommute Op n A A.
  Proof. unfold mcommute. reflexivity. Qed.
  Lemma mcommute_mmul n (A B C : mat R) : mcommute Op n A B -> mcommute Op n A C -> mcommute Op n A (mmul Op n B C).
  Proof.
    unfold mcommute. intros HB HC.
    rewrite <- mmul_assoc, HB, mmul_assoc, HC, <- mmul_assoc. reflexivity.
  Qed.
  Lemma mcommute_madd n (A B C : mat R) : mcommute Op n A B -> mcommute Op n A C -> mcommute Op n A (madd Op B C).
  Proof. unfold mcommute. intros HB HC. rewrite mmul_madd_r, mmul_madd_l, HB, HC. reflexivity. Qed.
  Lemma mcommute_msub n (A B C : mat R) : mcommute Op n A B -> mcommute Op n A C -> mcommute Op n A (msub Op B C).
  Proof. unfold mcommute. intros HB HC. rewrite mmul_msub_r, mmul_msub_l, HB, HC. reflexivity. Qed.
  Lemma mcommute_mscale n c (A B : mat R) : mcommute Op n A B -> mcommute Op n A (mscale Op c B).
  Proof. unfold mcommute. intros HB. rewrite mmul_mscale_r, mmul_mscale_l, HB. reflexivity. Qed.
  Lemma mcommute_mpow n (A B : mat R) k : mcommute Op n A B -> mcommute Op n A (mpow Op n B k).
  Proof.
    intros H. induction k as [|k IH]; cbn [mpow]; [apply mcommute_id|].
    apply mcommute_mmul; assumption.
  Qed.
  Global Instance mcommute_proper n : Proper (meq n ==> meq n ==> iff) (mcommute Op n).
  Proof. intros A A' HA B B' HB. unfold mcommute. rewrite HA, HB. reflexivity. Qed.

  Lemma mpow_add n (A : mat R) a b : meq n (mpow Op n A (a + b)) (mmul Op n (mpow Op n A a) (mpow Op n A b)).
  Proof.
    induction a as [|a IH]; cbn [mpow Nat.add]; [rewrite mmul_id_l; reflexivity|].
    rewrite IH, mmul_assoc. reflexivity.
  Qed.
  (* (A B)^k = A^k B^k for commuting A, B *)
  Lemma mpow_mmul_comm n (A B : mat R) k : mcommute Op n A B ->
    meq n (mpow Op n (mmul Op n A B) k) (mmul Op n (mpow Op n A k) (mpow Op n B k)).
  Proof.
    intros H. induction k as [|k IH]; cbn [mpow]; [rewrite mmul_id_l; reflexivity|].
    rewrite IH.
    assert (HB : mcommute Op n B (mpow Op n A k)) by (apply mcommute_mpow, mcommute_sym, H).
    unfold mcommute in HB.
    rewrite (mmul_assoc n A B), <- (mmul_assoc n B), HB, (mmul_assoc n (mpow Op n A k)), <- (mmul_assoc n A).
    reflexivity.
  Qed.
  Lemma mpow_mul n (A : mat R) a b : meq n (mpow Op n (mpow Op n A a) b) (mpow Op n A (a * b)).
  Proof.
    induction b as [|b IH]; [rewrite Nat.mul_0_r; reflexivity|].
    cbn [mpow]. rewrite IH. rewrite Nat.mul_succ_r, Nat.add_comm, mpow_add. reflexivity.
  Qed.

  (* ---- orthogonality ------------------------------------------------------------------- *)
  Lemma morth_trans n (Q : mat R) : morth Op n Q -> morth Op n (mtrans Q).
  Proof. intros [Hc Hr]. split; unfold morth_cols, morth_rows in *; rewrite mtrans_invol; assumption. Qed.

  Lemma morth_mmul n (P Q : mat R) : morth Op n P -> morth Op n Q -> morth Op n (mmul Op n P Q).
  Proof.
    intros [Pc Pr] [Qc Qr]. split; unfold morth_cols, morth_rows in *.
    - rewrite mtrans_mmul. rewrite mmul_assoc, <- (mmul_assoc n (mtrans P)), Pc, mmul_id_l. exact Qc.
    - rewrite mtrans_mmul. rewrite mmul_assoc, <- (mmul_assoc n Q), Qr, mmul_id_l. exact Pr.
  Qed.
  Lemma morth_id n : morth Op n (mid Op : mat R).
  Proof. split; unfold morth_cols, morth_rows; rewrite mtrans_id, mmul_id_l; reflexivity. Qed.

  (* ---- the spectral form Q diag(d) Q^T ---------------------------------------------------- *)
  Definition spec (n : nat) (Q : mat R) (d : vec R) : mat R := mmul Op n (mmul Op n Q (mdiag Op d)) (mtrans Q).

  Global Instance spec_proper n : Proper (meq n ==> veq n ==> meq n) (spec n).
  Proof. intros Q Q' HQ d d' Hd. unfold spec. rewrite HQ, Hd. reflexivity. Qed.

  Lemma spec_get n Q d i j : (i < n)%nat -> (j < n)%nat -> spec n Q d i j = rsum n (fun k => Q i k * d k * Q j k).
  Proof.
    intros Hi Hj. unfold spec. rewrite rmmul_get by assumption. apply sumn_ext. intros k Hk.
    rewrite mmul_diag_r by assumption. reflexivity.
  Qed.

  Lemma spec_sym n Q d : msym n (spec n Q d).
  Proof.
    intros i j Hi Hj. unfold mtrans at 1. rewrite !spec_get by assumption.
    apply sumn_ext. intros k _. lra.
  Qed.

  Lemma spec_mul n Q a b : morth_cols Op n Q ->
    meq n (mmul Op n (spec n Q a) (spec n Q b)) (spec n Q (fun i => a i * b i)).
  Proof.
    intros Hc. unfold morth_cols in Hc. unfold spec. rewrite !mmul_assoc.
    rewrite <- (mmul_assoc n (mtrans Q) Q), Hc, mmul_id_l.
    rewrite <- (mmul_assoc n (mdiag Op a) (mdiag Op b)), mdiag_mul. reflexivity.
  Qed.

  Lemma spec_one n Q : morth_rows Op n Q -> meq n (spec n Q (fun _ => 1)) (mid Op).
  Proof. intros Hr. unfold spec. rewrite mdiag_one, mmul_id_r. exact Hr. Qed.

  Lemma spec_pow n Q d k : morth Op n Q -> meq n (mpow Op n (spec n Q d) k) (spec n Q (fun i => d i ^ k)).
  Proof.
    intros [Hc Hr]. induction k as [|k IH]; cbn [mpow].
    - symmetry. rewrite <- (spec_one n Q Hr). reflexivity.
    - rewrite IH, spec_mul by exact Hc. reflexivity.
  Qed.

  Lemma spec_add_scalar n Q d c : morth_rows Op n Q ->
    meq n (madd Op (spec n Q d) (mscale Op c (mid Op))) (spec n Q (fun i => d i + c)).
  Proof.
    intros Hr i j Hi Hj. unfold madd. cbn [fadd R_ops]. rewrite !spec_get by assumption.
    rewrite (sumn_ext Op n (fun k => Q i k * (d k + c) * Q j k) (fun k => Q i k * d k * Q j k + c * (Q i k * mtrans Q k j)))
      by (intros; unfold mtrans; lra).
    rewrite rsum_plus, rsum_mult_l. f_equal.
    rewrite <- rmmul_get by assumption. rewrite (Hr i j Hi Hj). reflexivity.
  Qed.

  Lemma spec_commute n Q a b : morth_cols Op n Q -> mcommute Op n (spec n Q a) (spec n Q b).
  Proof.
    intros Hc. unfold mcommute. rewrite !spec_mul by exact Hc.
    intros i j Hi Hj. rewrite !spec_get by assumption. apply sumn_ext; intros; lra.
  Qed.

  (* conjugation: P (Q diag d Q^T) P^T = (P Q) diag d (P Q)^T *)
  Lemma spec_conj n P Q d :
    meq n (mmul Op n (mmul Op n P (spec n Q d)) (mtrans P)) (spec n (mmul Op n P Q) d).
  Proof.
    unfold spec. rewrite mtrans_mmul. rewrite <- !mmul_assoc. reflexivity.
  Qed.

  (* ---- vectors and quadratic forms ------------------------------------------------------- *)
  Lemma rmvec_get n (A : mat R) x i : (i < n)%nat -> mvec Op n A x i = rsum n (fun k => A i k * x k).
  Proof. intros; rewrite mvec_get by assumption; reflexivity. Qed.

  Lemma mvec_mmul n (A B : mat R) x : veq n (mvec Op n (mmul Op n A B) x) (mvec Op n A (mvec Op n B x)).
  Proof.
    intros i Hi. rewrite !rmvec_get by assumption.
    rewrite (sumn_ext Op n _ (fun k => rsum n (fun l => A i l * B l k * x k))).
    2:{ intros k Hk. rewrite rmmul_get by assumption. rewrite <- rsum_mult_r. reflexivity. }
    rewrite rsum_swap. apply sumn_ext. intros l Hl. rewrite rmvec_get by assumption.
    rewrite <- rsum_mult_l. apply sumn_ext. intros k _. lra.
  Qed.
  Lemma mvec_id n x : veq n (mvec Op n (mid Op) x) x.
  Proof.
    intros i Hi. rewrite rmvec_get by assumption.
    rewrite (sumn_ext Op n _ (fun k => if Nat.eqb i k then x k else 0)).
    - apply (rsum_delta_l n i x); exact Hi.
    - intros k _. unfold mid. cbn [f0 f1 R_ops]. destruct (Nat.eqb i k); lra.
  Qed.

  Lemma dot_self_nonneg n x : 0 <= dot Op n x x.
  Proof. unfold dot. apply rsum_nonneg. intros k _. cbn [fmul R_ops]. nra. Qed.
  Lemma dot_self_pos n x : (exists i, (i < n)%nat /\ x i <> 0) -> 0 < dot Op n x x.
  Proof.
    intros (i & Hi & Hx). unfold dot. apply rsum_pos.
    - intros k _. cbn [fmul R_ops]. nra.
    - exists i; split; [exact Hi|]. cbn [fmul R_ops]. nra.
  Qed.
  Lemma dot_self_zero n x : dot Op n x x = 0 -> forall i, (i < n)%nat -> x i = 0.
  Proof.
    intros H i Hi. unfold dot in H.
    pose proof (rsum_zero_inv n (fun k => x k * x k) (fun k _ => Rle_0_sqr (x k)) H i Hi) as E.
    cbn beta in E. nra.
  Qed.

  (* |Q^T x|^2 = |x|^2 when Q Q^T = I *)
  Lemma dot_orth n (Q : mat R) x : morth_rows Op n Q ->
    dot Op n (mvec Op n (mtrans Q) x) (mvec Op n (mtrans Q) x) = dot Op n x x.
  Proof.
    intros Hr. unfold dot.
    rewrite (sumn_ext Op n _ (fun k => rsum n (fun i => rsum n (fun j => x i * (Q i k * Q j k) * x j)))).
    2:{ intros k Hk. rewrite rmvec_get by assumption. cbn [fmul R_ops].
        rewrite <- rsum_mult_r. apply sumn_ext. intros i _. unfold mtrans at 1.
        rewrite <- rsum_mult_l. apply sumn_ext. intros j _. unfold mtrans. lra. }
    rewrite rsum_swap. apply sumn_ext. intros i Hi. rewrite rsum_swap. cbn [fmul R_ops].
    rewrite (sumn_ext Op n _ (fun j => if Nat.eqb i j then x i * x j else 0)).
    - apply (rsum_delta_l n i (fun j => x i * x j)); exact Hi.
    - intros j Hj. rewrite (sumn_ext Op n _ (fun k => x i * x j * (Q i k * mtrans Q k j))) by (intros; unfold mtrans; lra).
      rewrite rsum_mult_l, <- rmmul_get by assumption. rewrite (Hr i j Hi Hj).
      unfold mid. cbn [f0 f1 R_ops]. destruct (Nat.eqb i j); lra.
  Qed.

  (* x^T (Q diag(d) Q^T) x = sum_i d_i (Q^T x)_i^2 *)
  Lemma qform_spec n Q d x :
    qform Op n (spec n Q d) x = rsum n (fun k => d k * (mvec Op n (mtrans Q) x k) ^ 2).
  Proof.
    unfold qform, dot.
    rewrite (sumn_ext Op n _ (fun i => rsum n (fun k => rsum n (fun j => x i * (Q i k * d k * Q j k) * x j)))).
    2:{ intros i Hi. rewrite rmvec_get by assumption. cbn [fmul R_ops]. rewrite <- rsum_mult_l.
        rewrite (sumn_ext Op n _ (fun j => rsum n (fun k => x i * (Q i k * d k * Q j k) * x j))).
        - apply rsum_swap.
        - intros j Hj. rewrite spec_get by assumption. rewrite <- rsum_mult_r, <- rsum_mult_l.
          apply sumn_ext; intros; lra. }
    rewrite rsum_swap. apply sumn_ext. intros k Hk.
    rewrite rmvec_get by assumption.
    rewrite (sumn_ext Op n _ (fun i => (x i * Q i k * d k) * rsum n (fun j => mtrans Q k j * x j))).
    2:{ intros i _. rewrite <- rsum_mult_l. apply sumn_ext; intros; unfold mtrans; lra. }
    rewrite rsum_mult_r.
    rewrite (sumn_ext Op n (fun i => x i * Q i k * d k) (fun i => d k * (mtrans Q k i * x i))) by (intros; unfold mtrans; lra).
    rewrite rsum_mult_l. lra.
  Qed.

  Lemma qform_id n x : qform Op n (mid Op) x = dot Op n x x.
  Proof. unfold qform. rewrite mvec_id. reflexivity. Qed.

  (* ---- max norm ------------------------------------------------------------------------ *)
  Lemma fmax_R x y : fmax Op x y = Rmax x y.
  Proof.
    unfold fmax. cbn [fleb R_ops]. unfold Rleb, Rmax. destruct (Rle_dec x y); reflexivity.
  Qed.
  Lemma fmin_R x y : fmin Op x y = Rmin x y.
  Proof.
    unfold fmin. cbn [fleb R_ops]. unfold Rleb, Rmin. destruct (Rle_dec x y); reflexivity.
  Qed.

  Lemma maxn_fold_ge (l : list nat) (f : nat -> R) a : a <= fold_left (fun acc k => fmax Op acc (f k)) l a.
  Proof.
    revert a; induction l as [|k l IH]; intros a; cbn [fold_left]; [lra|].
    eapply Rle_trans; [|apply IH]. rewrite fmax_R. apply Rmax_l.
  Qed.
  Lemma maxn_fold_in (l : list nat) (f : nat -> R) a k : In k l -> f k <= fold_left (fun acc k => fmax Op acc (f k)) l a.
  Proof.
    revert a; induction l as [|k' l IH]; intros a Hin; cbn [fold_left]; [destruct Hin|].
    destruct Hin as [->|Hin]; [|apply IH; exact Hin].
    eapply Rle_trans; [|apply maxn_fold_ge]. rewrite fmax_R. apply Rmax_r.
  Qed.
  Lemma maxn_fold_le (l : list nat) (f : nat -> R) a b : a <= b -> (forall k, In k l -> f k <= b) ->
    fold_left (fun acc k => fmax Op acc (f k)) l a <= b.
  Proof.
    revert a; induction l as [|k l IH]; intros a Ha H; cbn [fold_left]; [exact Ha|].
    apply IH; [|intros; apply H; right; assumption].
    rewrite fmax_R. apply Rmax_lub; [exact Ha|apply H; left; reflexivity].
  Qed.

  Lemma maxn_ge n f k : (k < n)%nat -> f k <= maxn Op n f.
  Proof. intros Hk. unfold maxn. apply maxn_fold_in. apply in_seq. lia. Qed.
  Lemma maxn_nonneg n f : 0 <= maxn Op n f.
  Proof. unfold maxn. apply (maxn_fold_ge (seq 0 n) f 0). Qed.
  Lemma maxn_le n f b : 0 <= b -> (forall k, (k < n)%nat -> f k <= b) -> maxn Op n f <= b.
  Proof. intros Hb H. unfold maxn. apply maxn_fold_le; [exact Hb|]. intros k Hk. apply in_seq in Hk. apply H. lia. Qed.

  Lemma maxabs_ge n (A : mat R) i j : (i < n)%nat -> (j < n)%nat -> Rabs (A i j) <= maxabs Op n A.
  Proof.
    intros Hi Hj. unfold maxabs.
    eapply Rle_trans; [|apply (maxn_ge n _ i Hi)]. cbn beta.
    apply (maxn_ge n (fun j => fabs Op (A i j)) j Hj).
  Qed.
  Lemma maxabs_le n (A : mat R) b : 0 <= b -> (forall i j, (i < n)%nat -> (j < n)%nat -> Rabs (A i j) <= b) -> maxabs Op n A <= b.
  Proof.
    intros Hb H. unfold maxabs. apply maxn_le; [exact Hb|]. intros i Hi.
    apply maxn_le; [exact Hb|]. intros j Hj. apply H; assumption.
  Qed.
  Lemma maxabs_nonneg n (A : mat R) : 0 <= maxabs Op n A.
  Proof. apply maxn_nonneg. Qed.

  (* vmin *)
  Lemma vmin_fold_le l (v : vec R) a : fold_left (fun acc k => fmin Op acc (v k)) l a <= a.
  Proof.
    revert a; induction l as [|k l IH]; intros a; cbn [fold_left]; [lra|].
    eapply Rle_trans; [apply IH|]. rewrite fmin_R. apply Rmin_l.
  Qed.
  Lemma vmin_fold_in l (v : vec R) a k : In k l -> fold_left (fun acc k => fmin Op acc (v k)) l a <= v k.
  Proof.
    revert a; induction l as [|k' l IH]; intros a Hin; cbn [fold_left]; [destruct Hin|].
    destruct Hin as [->|Hin]; [|apply IH; exact Hin].
    eapply Rle_trans; [apply vmin_fold_le|]. rewrite fmin_R. apply Rmin_r.
  Qed.
  Lemma vmin_fold_attained l (v : vec R) a :
    fold_left (fun acc k => fmin Op acc (v k)) l a = a \/ exists k, In k l /\ fold_left (fun acc k => fmin Op acc (v k)) l a = v k.
  Proof.
    revert a; induction l as [|k l IH]; intros a; cbn [fold_left]; [left; reflexivity|].
    destruct (IH (fmin Op a (v k))) as [E|(k' & Hin & E)].
    - rewrite E, fmin_R. unfold Rmin. destruct (Rle_dec a (v k)); [left; reflexivity|].
      right. exists k. split; [left; reflexivity|reflexivity].
    - right. exists k'. split; [right; exact Hin|exact E].
  Qed.
  Lemma vmin_le n (v : vec R) k : (k < n)%nat -> vmin Op n v <= v k.
  Proof.
    intros Hk. unfold vmin. destruct k as [|k]; [apply vmin_fold_le|].
    apply vmin_fold_in. apply in_seq. lia.
  Qed.
  Lemma vmin_attained n (v : vec R) : (0 < n)%nat -> exists k, (k < n)%nat /\ vmin Op n v = v k.
  Proof.
    intros Hn. unfold vmin. destruct (vmin_fold_attained (seq 1 (n - 1)) v (v 0%nat)) as [E|(k & Hin & E)].
    - exists 0%nat. split; [exact Hn|exact E].
    - exists k. apply in_seq in Hin. split; [lia|exact E].
  Qed.
End RMatrix.

(* ====================================================================== Part 3: a dimension argument *)
Section LinDep.
  Variable rnd : R -> R.
  Notation Op := (R_ops rnd).
  Notation rsum := (sumn Op).

  (* ---- square matrices: a left inverse is a right inverse (dimension argument) ------------------ *)
  Lemma all_zero_or_exists m (f : nat -> R) :
    (forall k, (k < m)%nat -> f k = 0) \/ (exists k, (k < m)%nat /\ f k <> 0).
  Proof.
    induction m as [|m IH]; [left; intros; lia|].
    destruct IH as [H|(k & Hk & Hf)]; [|right; exists k; split; [lia|exact Hf]].
    destruct (Req_dec (f m) 0) as [E|E]; [|right; exists m; split; [lia|exact E]].
    left. intros k Hk. destruct (Nat.eq_dec k m) as [->|]; [exact E|apply H; lia].
  Qed.

  Definition swapi (a b k : nat) : nat := if Nat.eqb k a then b else if Nat.eqb k b then a else k.

  Lemma swapi_invol a b k : swapi a b (swapi a b k) = k.
  Proof.
    unfold swapi. destruct (Nat.eqb_spec k a) as [->|Ha].
    - destruct (Nat.eqb_spec b a) as [->|Hb]; [reflexivity|]. rewrite Nat.eqb_refl. reflexivity.
    - destruct (Nat.eqb_spec k b) as [->|Hb].
      + rewrite Nat.eqb_refl. reflexivity.
      + destruct (Nat.eqb_spec k a); [contradiction|]. destruct (Nat.eqb_spec k b); [contradiction|reflexivity].
  Qed.
  Lemma swapi_lt a b k m : (a < m)%nat -> (b < m)%nat -> (k < m)%nat -> (swapi a b k < m)%nat.
  Proof. intros. unfold swapi. destruct (Nat.eqb k a); [assumption|]. destruct (Nat.eqb k b); assumption. Qed.

  Lemma rsum_swapi m a b g : (a < m)%nat -> (b < m)%nat -> rsum m (fun k => g (swapi a b k)) = rsum m g.
  Proof.
    intros Ha Hb. destruct (Nat.eq_dec a b) as [->|Hab].
    { apply sumn_ext. intros k _. unfold swapi. destruct (Nat.eqb_spec k b) as [->|]; reflexivity. }
    rewrite (sumn_ext Op m _ (fun k => g k + ((if Nat.eqb k a then g b - g a else 0) + (if Nat.eqb k b then g a - g b else 0)))).
    - rewrite !(rsum_plus rnd).
      rewrite (rsum_delta_r rnd m a (fun _ => g b - g a) Ha), (rsum_delta_r rnd m b (fun _ => g a - g b) Hb). lra.
    - intros k _. unfold swapi. destruct (Nat.eqb_spec k a) as [->|Hka].
      + destruct (Nat.eqb_spec a b); [contradiction|]. lra.
      + destruct (Nat.eqb_spec k b) as [->|]; lra.
  Qed.

  (* m vectors v 0 .. v (m-1) with n coordinates each *)
  Definition lin_dep (m n : nat) (v : nat -> nat -> R) : Prop :=
    exists c : nat -> R, (exists k, (k < m)%nat /\ c k <> 0) /\ forall i, (i < n)%nat -> rsum m (fun k => c k * v k i) = 0.

  (* n + 1 vectors in R^n are linearly dependent *)
  Lemma more_vectors_dependent n : forall v, lin_dep (S n) n v.
  Proof.
    induction n as [|n IH]; intros v.
    - exists (fun _ => 1). split; [exists 0%nat; split; [lia|lra]|intros; lia].
    - destruct (all_zero_or_exists (S (S n)) (fun k => v k n)) as [HZ|(j & Hj & Hp)].
      + (* every vector has last coordinate 0 *)
        destruct (IH v) as (c & (k0 & Hk0 & Hc0) & Hsum).
        exists (fun k => if Nat.eqb k (S n) then 0 else c k). split.
        * exists k0. split; [lia|]. destruct (Nat.eqb_spec k0 (S n)); [lia|exact Hc0].
        * intros i Hi. rewrite (rsum_S rnd). rewrite Nat.eqb_refl, Rmult_0_l, Rplus_0_r.
          destruct (Nat.eq_dec i n) as [->|Hin].
          -- apply (rsum_zero_ext rnd). intros k Hk. rewrite HZ by lia. lra.
          -- rewrite <- (Hsum i) by lia. apply sumn_ext. intros k Hk.
             destruct (Nat.eqb_spec k (S n)); [lia|reflexivity].
      + (* v j has a non-zero last coordinate: move it to position S n and eliminate *)
        set (s := swapi j (S n)).
        set (u := fun k => v (s k)).
        assert (Hup : u (S n) n <> 0).
        { unfold u, s, swapi. destruct (Nat.eqb_spec (S n) j) as [<-|]; [exact Hp|]. rewrite Nat.eqb_refl. exact Hp. }
        set (pv := u (S n) n) in *.
        set (w := fun k i => u k i - u k n / pv * u (S n) i).
        destruct (IH w) as (c & (k0 & Hk0 & Hc0) & Hsum).
        assert (Hsum' : forall i, (i < S n)%nat -> rsum (S n) (fun k => c k * w k i) = 0).
        { intros i Hi. destruct (Nat.eq_dec i n) as [->|Hin]; [|apply Hsum; lia].
          apply (rsum_zero_ext rnd). intros k _. unfold w. fold pv. field_simplify; [lra|exact Hup]. }
        set (t := rsum (S n) (fun k => c k * u k n)).
        set (d := fun k => if Nat.eqb k (S n) then - (t / pv) else c k).
        assert (Hd : forall i, (i < S n)%nat -> rsum (S (S n)) (fun k => d k * u k i) = 0).
        { intros i Hi. rewrite (rsum_S rnd). unfold d at 2. rewrite Nat.eqb_refl.
          rewrite (sumn_ext Op (S n) _ (fun k => c k * w k i + c k * u k n * (u (S n) i / pv))).
          - rewrite (rsum_plus rnd), Hsum' by exact Hi. rewrite (rsum_mult_r rnd). fold t. field. exact Hup.
          - intros k Hk. unfold d. destruct (Nat.eqb_spec k (S n)); [lia|]. unfold w. field. exact Hup. }
        exists (fun k => d (s k)). split.
        * exists (s k0). split; [apply swapi_lt; lia|]. unfold s. rewrite swapi_invol.
          unfold d. destruct (Nat.eqb_spec k0 (S n)); [lia|exact Hc0].
        * intros i Hi. rewrite <- (Hd i Hi).
          rewrite <- (rsum_swapi (S (S n)) j (S n) (fun k => d k * u k i)) by lia.
          apply sumn_ext. intros k _. fold s. unfold u. unfold s at 3. rewrite swapi_invol. reflexivity.
  Qed.

  (* B A = I  ->  A B = I   (n x n) *)
  Theorem left_inv_right_inv n (A B : mat R) :
    meq n (mmul Op n B A) (mid Op) -> meq n (mmul Op n A B) (mid Op).
  Proof.
    intros HBA.
    (* for every j: some x with A x = e_j *)
    assert (Hsurj : forall j, (j < n)%nat -> exists x : vec R, forall i, (i < n)%nat -> rsum n (fun k => A i k * x k) = mid Op i j).
    { intros j Hj.
      destruct (more_vectors_dependent n (fun k i => if Nat.eqb k n then mid Op i j else A i k)) as (c & (k0 & Hk0 & Hc0) & Hsum).
      assert (Hsum' : forall i, (i < n)%nat -> rsum n (fun k => A i k * c k) + c n * mid Op i j = 0).
      { intros i Hi. rewrite <- (Hsum i Hi), (rsum_S rnd), Nat.eqb_refl. f_equal.
        apply sumn_ext. intros k Hk. destruct (Nat.eqb_spec k n); [lia|]. lra. }
      destruct (Req_dec (c n) 0) as [E|E].
      - (* then A c = 0, hence c = B A c = 0: contradiction *)
        exfalso.
        assert (Hc : forall l, (l < n)%nat -> c l = 0).
        { intros l Hl.
          assert (E1 : rsum n (fun i => B l i * rsum n (fun k => A i k * c k)) = 0).
          { apply (rsum_zero_ext rnd). intros i Hi. specialize (Hsum' i Hi). rewrite E in Hsum'.
            replace (rsum n (fun k => A i k * c k)) with 0 by lra. lra. }
          rewrite (sumn_ext Op n _ (fun i => rsum n (fun k => B l i * A i k * c k))) in E1.
          2:{ intros i _. rewrite <- (rsum_mult_l rnd). apply sumn_ext. intros; lra. }
          rewrite (rsum_swap rnd) in E1.
          rewrite (sumn_ext Op n _ (fun k => if Nat.eqb l k then c k else 0)) in E1.
          - rewrite (rsum_delta_l rnd n l c Hl) in E1. exact E1.
          - intros k Hk. rewrite (rsum_mult_r rnd), <- (rmmul_get rnd n B A l k Hl Hk), (HBA l k Hl Hk).
            unfold mid. cbn [f0 f1 R_ops]. destruct (Nat.eqb l k); lra. }
        destruct (Nat.eq_dec k0 n) as [->|]; [contradiction|]. apply Hc0, Hc. lia.
      - exists (fun k => - c k / c n). intros i Hi. specialize (Hsum' i Hi).
        rewrite (sumn_ext Op n _ (fun k => (A i k * c k) * (- / c n))) by (intros; field; exact E).
        rewrite (rsum_mult_r rnd). replace (rsum n (fun k => A i k * c k)) with (- (c n * mid Op i j)) by lra.
        field. exact E. }
    intros i j Hi Hj. destruct (Hsurj j Hj) as (x & Hx).
    (* B e_j = x *)
    assert (HB : forall k, (k < n)%nat -> B k j = x k).
    { intros k Hk.
      assert (E1 : rsum n (fun i' => B k i' * mid Op i' j) = B k j).
      { rewrite (sumn_ext Op n _ (fun i' => if Nat.eqb i' j then B k i' else 0)).
        - apply (rsum_delta_r rnd n j (fun i' => B k i') Hj).
        - intros i' _. unfold mid. cbn [f0 f1 R_ops]. destruct (Nat.eqb i' j); lra. }
      rewrite <- E1.
      rewrite (sumn_ext Op n _ (fun i' => rsum n (fun l => B k i' * A i' l * x l))).
      2:{ intros i' Hi'. rewrite <- (Hx i' Hi'), <- (rsum_mult_l rnd). apply sumn_ext. intros; lra. }
      rewrite (rsum_swap rnd).
      rewrite (sumn_ext Op n _ (fun l => if Nat.eqb k l then x l else 0)).
      - apply (rsum_delta_l rnd n k x Hk).
      - intros l Hl. rewrite (rsum_mult_r rnd), <- (rmmul_get rnd n B A k l Hk Hl), (HBA k l Hk Hl).
        unfold mid. cbn [f0 f1 R_ops]. destruct (Nat.eqb k l); lra. }
    rewrite (rmmul_get rnd) by assumption. rewrite <- (Hx i Hi). apply sumn_ext. intros k Hk.
    rewrite HB by exact Hk. reflexivity.
  Qed.

  (* orthonormal columns of a square matrix => orthonormal rows: Q^T Q = I alone is the whole contract *)
  Corollary morth_cols_rows n (Q : mat R) : morth_cols Op n Q -> morth_rows Op n Q.
  Proof. unfold morth_cols, morth_rows. apply left_inv_right_inv. Qed.
  Corollary morth_of_cols n (Q : mat R) : morth_cols Op n Q -> morth Op n Q.
  Proof. intros H. split; [exact H|apply morth_cols_rows; exact H]. Qed.
End LinDep.
