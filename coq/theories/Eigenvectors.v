(* Eigenvectors.v - executable model of /repo/matrix_functions.py:
     matrix_eigenvectors, matrix_eigenvalue_decomposition, _compute_orthogonal_iterations        (property C12)

   Polymorphic in the scalar type (Scalar.v): the theorems of EigenvectorsProofs.v are about the instance
   [R_ops], the correspondence check (harness/c12.py) executes THE SAME TERMS with [float_ops].

   Foreign code is an ORACLE (DESIGN 3.3).  An oracle is a function of the call number, the size and the
   matrix it is asked about, and answers with a [reply]:
       eigh    : nat -> nat -> mat F -> reply (vec F * mat F)     torch.linalg.eigh   -> (L, Q)
       qr      : nat -> nat -> mat F -> reply (mat F)             torch.linalg.qr(.).Q
       argsort : nat -> vec F -> list nat                         Tensor.argsort()
   [Fails] = the foreign routine raised; [NoRecord] = executable oracles built from the RECORDED answers of
   an implementation run ([eigh_of_list], [qr_of_list]) have no answer for that call number - the model asked
   more often than the implementation did; theorems exclude it.  The model returns, beside its outcome, the
   list of matrices it asked each oracle about ([r_eighq], [r_qrq]) and the number of loop iterations.

   What is modelled, in the code's order (matrix_functions.py lines 622-729):
     matrix_eigenvectors(A, estimate, cfg, is_diagonal)
       numel A = 1                     -> ones_like(A)            (any shape with one element)
       len(shape) <> 2                 -> ValueError "not 2-dimensional"
       rows <> cols                    -> ValueError "not square"
       is_diagonal                     -> eye(n)
       type(cfg) is EighEigenvectorConfig -> matrix_eigenvalue_decomposition(A, retry, offload)[1]
       type(cfg) is QRConfig           -> assert estimate is not None; _compute_orthogonal_iterations
       otherwise                       -> NotImplementedError
     matrix_eigenvalue_decomposition: eigh(A); if it raises and retry_double_precision and dtype <> float64:
       eigh(A.double()) (result dtype float64); otherwise the exception propagates.  The offload device only
       moves data and is not modelled (DESIGN 5).
     _compute_orthogonal_iterations(A, E, max_iterations, tolerance):
       not E.any()  -> matrix_eigenvalue_decomposition(A)[1]         (default flags: retry = True)
       Q = E.to(A.dtype); iteration = 0; error = inf
       while iteration < max_iterations and error > tolerance:
           last_Q, Q = Q, qr(A @ Q).Q ; iteration += 1 ; error = ||last_Q - Q||_F / ||last_Q||_F
       return Q[:, argsort(einsum("ij,ik,kj->j", Q, A, Q))]
     The loop is a recursion on [fuel = max_iterations]: running out of fuel IS the exit
     [iteration = max_iterations], not an error.  The estimate is assumed to have the shape of A. *)
From Coq Require Import List Arith Bool ZArith.
From Coq Require PrimFloat.
From Shampoo Require Import Scalar Matrix Show.
Import ListNotations.

Inductive dtype : Type := BF16 | F16 | F32 | F64.
Definition dtype_eqb (a b : dtype) : bool :=
  match a, b with BF16, BF16 | F16, F16 | F32, F32 | F64, F64 => true | _, _ => false end.

Inductive verr : Type := NotTwoDim | NotSquare.
(* [OracleError]: whatever exception the foreign routine raised propagates unchanged.
   [OtherError]: never produced by the model; lets a case file embed any other exception of the implementation. *)
Inductive exn : Type := ValueError (v : verr) | NotImplementedError | AssertionError | OracleError | OtherError.
Definition exn_eqb (a b : exn) : bool :=
  match a, b with
  | ValueError NotTwoDim, ValueError NotTwoDim | ValueError NotSquare, ValueError NotSquare
  | NotImplementedError, NotImplementedError | AssertionError, AssertionError | OracleError, OracleError
  | OtherError, OtherError => true
  | _, _ => false
  end.

Inductive reply (X : Type) : Type := Answer (x : X) | Fails | NoRecord.
Arguments Answer {X} x. Arguments Fails {X}. Arguments NoRecord {X}.

Inductive config (F : Type) : Type :=
| EighCfg (retry_double_precision : bool)
| QRCfg (max_iterations : Z) (tolerance : F)
| OtherCfg.                                            (* any other EigenvectorConfig subclass *)
Arguments EighCfg {F} _. Arguments QRCfg {F} _ _. Arguments OtherCfg {F}.

Inductive outcome (F : Type) : Type :=
| Ok (shape : list nat) (dt : dtype) (Q : mat F)       (* returned tensor: shape, dtype tag, entries *)
| Raise (e : exn)
| Missing.                                             (* an oracle had no recorded answer *)
Arguments Ok {F} _ _ _. Arguments Raise {F} _. Arguments Missing {F}.

Record result (F : Type) : Type := mkRes {
  r_out : outcome F;
  r_eighq : list (mat F);        (* matrices handed to eigh, in call order *)
  r_qrq : list (mat F);          (* matrices handed to qr, in call order *)
  r_iters : nat }.               (* value of [iteration] when the loop exits *)
Arguments mkRes {F} _ _ _ _. Arguments r_out {F} _. Arguments r_eighq {F} _.
Arguments r_qrq {F} _. Arguments r_iters {F} _.

Definition numel (sh : list nat) : nat := fold_right Nat.mul 1 sh.

Section Model.
  Context {F : Type} (Op : ops F).
  Variable eigh : nat -> nat -> mat F -> reply (vec F * mat F).
  Variable qr : nat -> nat -> mat F -> reply (mat F).
  Variable argsort : nat -> vec F -> list nat.

  Definition mones : mat F := fun _ _ => f1 Op.

  (* matrix_eigenvalue_decomposition(A, retry, _)[1] *)
  Definition eig_decomp (retry : bool) (dt : dtype) (n : nat) (A : mat F) : result F :=
    match eigh 0 n A with
    | Answer (_, Q) => mkRes (Ok [n; n] dt Q) [A] [] 0
    | NoRecord => mkRes Missing [A] [] 0
    | Fails =>
        if retry && negb (dtype_eqb dt F64) then
          match eigh 1 n A with                      (* A.double(): same entries, dtype float64 *)
          | Answer (_, Q) => mkRes (Ok [n; n] F64 Q) [A; A] [] 0
          | Fails => mkRes (Raise OracleError) [A; A] [] 0
          | NoRecord => mkRes Missing [A; A] [] 0
          end
        else mkRes (Raise OracleError) [A] [] 0
    end.

  (* not E.any() *)
  Definition is_zero_mat (n : nat) (E : mat F) : bool := forall2_lt n (fun i j => feqb Op (E i j) (f0 Op)).

  (* ||last - Q||_F / ||last||_F *)
  Definition rel_change (n : nat) (last Q : mat F) : F :=
    fdiv Op (frob Op n (msub Op last Q)) (frob Op n last).

  (* error > tolerance; before the first iteration error = +inf, and [inf > tolerance] holds unless the tolerance is
     +inf or NaN (then no iteration is made at all): true for every finite tolerance and for -inf *)
  Definition keep_going (err : option F) (tol : F) : bool :=
    match err with None => ffinite Op tol || fltb Op tol (f0 Op) | Some e => fltb Op tol e end.

  Inductive loop_out : Type := LDone (Q : mat F) | LFails | LMissing.

  (* the while loop; [k] = iteration counter, [fuel] = max_iterations - k.
     Returns (exit, matrices handed to qr from here on, final iteration count). *)
  Fixpoint orth_loop (fuel k n : nat) (A Q : mat F) (err : option F) (tol : F) : loop_out * list (mat F) * nat :=
    match fuel with
    | O => (LDone Q, [], k)
    | S fuel' =>
        if keep_going err tol then
          let M := mmul Op n A Q in
          match qr k n M with
          | Answer Qn =>
              let '(o, qs, it) := orth_loop fuel' (S k) n A Qn (Some (rel_change n Q Qn)) tol in
              (o, M :: qs, it)
          | Fails => (LFails, [M], k)
          | NoRecord => (LMissing, [M], k)
          end
        else (LDone Q, [], k)
    end.

  (* einsum("ij,ik,kj->j", Q, A, Q): the Rayleigh quotient q_j^T A q_j of every column *)
  Definition rayleigh (n : nat) (A Q : mat F) : vec F := vmemo Op n (fun j => qform Op n A (mcol Q j)).
  (* Q[:, p] *)
  Definition permute_cols (Q : mat F) (p : list nat) : mat F := fun i j => Q i (nth j p 0).

  Definition orthogonal_iterations (dt : dtype) (n : nat) (A E : mat F) (max_iterations : Z) (tol : F) : result F :=
    if is_zero_mat n E then eig_decomp true dt n A
    else
      let '(o, qs, it) := orth_loop (Z.to_nat max_iterations) 0 n A E None tol in
      match o with
      | LDone Q => mkRes (Ok [n; n] dt (permute_cols Q (argsort n (rayleigh n A Q)))) [] qs it
      | LFails => mkRes (Raise OracleError) [] qs it
      | LMissing => mkRes Missing [] qs it
      end.

  Definition matrix_eigenvectors (shape : list nat) (dt : dtype) (A : mat F) (estimate : option (mat F))
             (cfg : config F) (is_diagonal : bool) : result F :=
    if numel shape =? 1 then mkRes (Ok shape dt mones) [] [] 0
    else match shape with
    | [r; c] =>
        if negb (r =? c) then mkRes (Raise (ValueError NotSquare)) [] [] 0
        else if is_diagonal then mkRes (Ok [r; r] dt (mid Op)) [] [] 0
        else match cfg with
        | EighCfg retry => eig_decomp retry dt r A
        | QRCfg mi tol =>
            match estimate with
            | None => mkRes (Raise AssertionError) [] [] 0
            | Some E => orthogonal_iterations dt r A E mi tol
            end
        | OtherCfg => mkRes (Raise NotImplementedError) [] [] 0
        end
    | _ => mkRes (Raise (ValueError NotTwoDim)) [] [] 0
    end.

  (* ---- an executable argsort: stable ascending insertion sort of the indices 0..n-1 by v ---------- *)
  Fixpoint insert_idx (v : vec F) (x : nat) (l : list nat) : list nat :=
    match l with
    | [] => [x]
    | y :: r => if fleb Op (v x) (v y) then x :: l else y :: insert_idx v x r
    end.
  Definition isort_argsort (n : nat) (v : vec F) : list nat := fold_right (insert_idx v) [] (seq 0 n).
End Model.

(* ---- oracles built from recorded answers (call number -> answer) ------------------------------------- *)
Section Recorded.
  Context {F : Type} (Op : ops F).
  Definition eigh_of_list (l : list (option (list F * list (list F)))) : nat -> nat -> mat F -> reply (vec F * mat F) :=
    fun k _ _ => match nth_error l k with
                 | Some (Some (L, Q)) => Answer (of_list Op L, of_rows Op Q)
                 | Some None => Fails
                 | None => NoRecord
                 end.
  Definition qr_of_list (l : list (option (list (list F)))) : nat -> nat -> mat F -> reply (mat F) :=
    fun k _ _ => match nth_error l k with
                 | Some (Some Q) => Answer (of_rows Op Q)
                 | Some None => Fails
                 | None => NoRecord
                 end.
  (* recorded permutation if the implementation's argsort call was observed, else the insertion sort *)
  Definition argsort_of (p : option (list nat)) : nat -> vec F -> list nat :=
    fun n v => match p with Some l => l | None => isort_argsort Op n v end.
End Recorded.

(* ---- binary64 execution and comparison with the implementation (used by generated case files) -------- *)
Module Run.
  Import PrimFloat.
  Notation fl := PrimFloat.float.
  Definition FO := float_ops.
  Definition tol9 : fl := 0x1.12e0be826d695p-30%float.     (* 1e-9 *)

  Inductive impl_outcome : Type := IOk (shape : list nat) (dt : dtype) (rows : list (list fl)) | IRaise (e : exn).

  Record case : Type := mkCase {
    c_shape : list nat; c_dt : dtype; c_A : list (list fl); c_est : option (list (list fl));
    c_cfg : config fl; c_isdiag : bool;
    (* recorded oracle traffic of the implementation run *)
    c_eigh_in : list (list (list fl)); c_eigh_out : list (option (list fl * list (list fl)));
    c_qr_in : list (list (list fl)); c_qr_out : list (option (list (list fl)));
    c_argsort : option (list nat);
    c_impl : impl_outcome;
    c_tol : fl }.    (* 1e-9 for float64 runs; looser for float32/bfloat16 runs (tags, control flow, exceptions) *)

  Definition vclose (tol : fl) (a b : list fl) : bool := FloatCmp.close_list tol a b.
  Definition mclose (tol : fl) (a b : list (list fl)) : bool := forallb2 (vclose tol) a b.
  Definition nats_eqb (a b : list nat) : bool := list_eqb Nat.eqb a b.

  (* number of rows/columns of the entries that matter for a returned tensor of this shape *)
  Definition side (sh : list nat) : nat := match sh with [r; _] => r | _ => 1 end.

  Definition run_model (c : case) : result fl :=
    matrix_eigenvectors FO (eigh_of_list FO (c_eigh_out c)) (qr_of_list FO (c_qr_out c)) (argsort_of FO (c_argsort c))
      (c_shape c) (c_dt c) (of_rows FO (c_A c)) (option_map (of_rows FO) (c_est c)) (c_cfg c) (c_isdiag c).

  Definition outcome_agree (tol : fl) (m : outcome fl) (i : impl_outcome) : bool :=
    match m, i with
    | Ok sh dt Q, IOk sh' dt' rows =>
        nats_eqb sh sh' && dtype_eqb dt dt' &&
        (if numel sh =? 1 then match rows with [[x]] => FloatCmp.close tol (Q 0 0) x | _ => false end
         else mclose tol (mtab (side sh) Q) rows)
    | Raise e, IRaise e' => exn_eqb e e'
    | _, _ => false
    end.

  Definition queries_agree (tol : fl) (n : nat) (q : list (mat fl)) (rec : list (list (list fl))) : bool :=
    forallb2 (fun M r => mclose tol (mtab n M) r) q rec.

  Definition is_perm_of_seq (n : nat) (p : list nat) : bool :=
    (length p =? n) && forall_lt n (fun i => existsb (Nat.eqb i) p).

  (* columns of Q in ascending Rayleigh quotient, up to tol * max(1, max |A|) * n *)
  Definition rayleigh_sorted (n : nat) (tol : fl) (A Q : mat fl) : bool :=
    let v := rayleigh FO n A Q in
    let slack := (tol * (let a := maxabs FO n A in if a <? 1 then 1 else a) * of_uint63 (Uint63.of_Z (Z.of_nat (S n))))%float in
    forall_lt (n - 1) (fun i => (v i <=? v (S i) + slack)%float).

  (* is the loop path (QR config, non-zero estimate, 2-D square, not diagonal, numel <> 1) taken? *)
  Definition on_qr_loop_path (c : case) : bool :=
    negb (numel (c_shape c) =? 1) && negb (c_isdiag c) &&
    match c_shape c, c_cfg c, c_est c with
    | [r; c'], QRCfg _ _, Some E => (r =? c') && negb (is_zero_mat FO r (of_rows FO E))
    | _, _, _ => false
    end.

  (* one bool per component:
       0 outcome (shape, dtype, entries at c_tol / exception class)
       1 matrices handed to qr = recorded qr inputs (c_tol), same number of calls
       2 matrices handed to eigh = recorded eigh inputs, same number of calls
       3 iteration count = number of recorded qr calls that returned
       4 on the loop path the recorded argsort answer meets its contract on the MODEL's Rayleigh quotients
         (a permutation of 0..n-1, ascending up to c_tol) - checked on the model's own sorted result
       5 on the loop path: where the model's Rayleigh quotients are separated by > 1e-6 (relative to max(1,|A|)*(n+1)),
         the stable insertion sort gives the same result as the recorded argsort answer *)
  Definition agree (c : case) : list bool :=
    let r := run_model c in
    let n := side (c_shape c) in
    let A := of_rows FO (c_A c) in
    let loopp := on_qr_loop_path c in
    let tol := c_tol c in
    [ outcome_agree tol (r_out r) (c_impl c);
      queries_agree tol n (r_qrq r) (c_qr_in c);
      queries_agree tol n (r_eighq r) (c_eigh_in c);
      r_iters r =? length (filter (fun o => match o with Some _ => true | None => false end) (c_qr_out c));
      negb loopp ||
        match r_out r with
        | Ok _ _ Q => match c_argsort c with Some p => is_perm_of_seq n p | None => true end && rayleigh_sorted n tol A Q
        | _ => true
        end;
      negb loopp ||
        match r_out r, c_argsort c with
        | Ok _ _ Q, Some p =>
            let r2 := matrix_eigenvectors FO (eigh_of_list FO (c_eigh_out c)) (qr_of_list FO (c_qr_out c)) (isort_argsort FO)
                        (c_shape c) (c_dt c) A (option_map (of_rows FO) (c_est c)) (c_cfg c) (c_isdiag c) in
            match r_out r2 with
            | Ok _ _ Q2 =>
                let v := rayleigh FO n A Q2 in
                let sep := (0x1.0c6f7a0b5ed8dp-20 * (let a := maxabs FO n A in if a <? 1 then 1 else a) * of_uint63 (Uint63.of_Z (Z.of_nat (S n))))%float in
                if forall_lt (n - 1) (fun i => (v i + sep <? v (S i))%float) then mclose tol (mtab n Q) (mtab n Q2) else true
            | _ => false
            end
        | _, _ => true
        end ].
End Run.
