(* C17 - model of the hyperparameter validation done when a DistributedShampoo optimizer is built:
     * `__post_init__` of the grafting config        (distributed_shampoo/shampoo_types.py)
     * `__post_init__` of the preconditioner config  (distributed_shampoo/shampoo_types.py)
     * the guards of `DistributedShampoo.__init__`, in the order of the code, with the two `-1` substitutions
     * the three type dispatches of `_instantiate_distributor`, `_instantiate_shampoo_preconditioner_list`,
       `_instantiate_grafting` (-> NotImplementedError), and the one use of a validated value by foreign code
       that can fail during construction (`torch.split(block, max_preconditioner_dim)` needs a Python int < 2^63).

   Scope of the model: one parameter group holding one non-empty dense parameter; `distributed_config` is None or an
   unsupported type (the supported ones need a process group); the arguments that are not validated at all
   (use_nesterov, use_bias_correction, use_decoupled_weight_decay, use_merge_dims, preconditioner_dtype,
   shampoo_pt2_compile_config = None) are left out.

   Python numbers.  A hyperparameter is a Python `int` or a Python `float`; Python compares the two *exactly*
   (as mathematical values), every comparison with NaN is False, `x == y` is False for NaN.  `PInt z` is an int,
   `PFlt q` a finite float given by its exact rational value (`float.as_integer_ratio()`), `PInf`/`NInf`/`NaN` the
   three special floats.  (-0.0 is `PFlt 0`: no guard distinguishes it from 0.0.) *)
From Coq Require Import ZArith QArith List Bool.
Import ListNotations.

Inductive pynum : Type := PInt (z : Z) | PFlt (q : Q) | PInf | NInf | NaN.

(* value on the extended rational line *)
Inductive ext : Type := EFin (q : Q) | EPInf | ENInf | ENaN.

Definition ext_of (x : pynum) : ext :=
  match x with
  | PInt z => EFin (inject_Z z)
  | PFlt q => EFin q
  | PInf => EPInf
  | NInf => ENInf
  | NaN => ENaN
  end.

(* Python  a <= b *)
Definition ext_leb (a b : ext) : bool :=
  match a, b with
  | ENaN, _ => false
  | _, ENaN => false
  | ENInf, _ => true
  | _, EPInf => true
  | EFin p, EFin q => Qle_bool p q
  | EFin _, ENInf => false
  | EPInf, _ => false
  end.

(* Python  a < b *)
Definition ext_ltb (a b : ext) : bool :=
  match a, b with
  | ENaN, _ => false
  | _, ENaN => false
  | _, _ => negb (ext_leb b a)
  end.

(* Python  a == b *)
Definition ext_eqb (a b : ext) : bool :=
  match a, b with
  | EFin p, EFin q => Qeq_bool p q
  | EPInf, EPInf => true
  | ENInf, ENInf => true
  | _, _ => false
  end.

Definition pn_leb (a b : pynum) : bool := ext_leb (ext_of a) (ext_of b).
Definition pn_ltb (a b : pynum) : bool := ext_ltb (ext_of a) (ext_of b).
Definition pn_eqb (a b : pynum) : bool := ext_eqb (ext_of a) (ext_of b).

(* the literals the code compares with *)
Definition fl0  : pynum := PFlt (0 # 1).      (* 0.0 *)
Definition fl1  : pynum := PFlt (1 # 1).      (* 1.0 *)
Definition flm1 : pynum := PFlt ((-1) # 1).   (* -1.0 *)
Definition i0   : pynum := PInt 0%Z.
Definition i1   : pynum := PInt 1%Z.
Definition im1  : pynum := PInt (-1)%Z.

(* ---- raw configuration ------------------------------------------------------------------- *)

(* inv_root_override : int | Sequence[int] *)
Inductive iro_t := IroScalar (x : pynum) | IroSeq (l : list pynum).

(* The class whose fields and __post_init__ the config object has.  Whether the object's *exact* type is that library
   class or a user-defined subclass of it is the flag gsub / pc_sub of the configuration: every dispatch of the
   constructor is written `type(cfg) is C` / `type(cfg) in (...)`, so a subclass instance is an unsupported type. *)
Inductive graft_kind := GraftNone | GraftSGD | GraftAdaGrad | GraftRMSprop | GraftAdam
                      | GraftUnsupported.   (* a direct GraftingConfig subclass (no validated field) *)
Inductive pc_kind_t := PCShampoo | PCEigenvalueCorrected
                     | PCUnsupported.       (* a direct PreconditionerConfig subclass; inherits its __post_init__ *)
Inductive dist_t := DistNone
                  | DistUnsupported.        (* a direct DistributedConfig subclass or a subclass of any of the five library
                                               classes (none has a validated field) *)

Record raw_cfg := mk_raw {
  lr : pynum; beta1 : pynum; beta2 : pynum; beta3 : pynum; epsilon : pynum;
  momentum : pynum; dampening : pynum; weight_decay : pynum;
  mpd : pynum;              (* max_preconditioner_dim *)
  freq : pynum;             (* precondition_frequency *)
  start : pynum;            (* start_preconditioning_step *)
  iro : iro_t;              (* inv_root_override *)
  gkind : graft_kind;       (* type of grafting_config *)
  geps : pynum;             (* grafting_config.epsilon   (AdaGrad, RMSprop, Adam) *)
  gb2 : pynum;              (* grafting_config.beta2     (RMSprop, Adam) *)
  pc_kind : pc_kind_t;      (* type of preconditioner_config *)
  nt : pynum;               (* preconditioner_config.num_tolerated_failed_amortized_computations *)
  ignored : list Z;         (* preconditioner_config.ignored_dims (a list of ints) *)
  dist : dist_t;            (* distributed_config *)
  gsub : bool;              (* grafting_config is an instance of a user-defined SUBCLASS of the class named by gkind
                               (it inherits that class's fields and __post_init__, but its exact type is not a library class) *)
  pc_sub : bool             (* preconditioner_config is an instance of a user-defined subclass of the class named by pc_kind *)
}.

(* which `raise ValueError` fired *)
Inductive guard :=
  | GGraftEps | GGraftBeta2                       (* grafting config __post_init__ *)
  | GNumTolerated | GIgnoredUnique                (* preconditioner config __post_init__ *)
  | GLr | GBeta1 | GBeta2 | GBeta3 | GEps | GMomentum | GDampening | GWd | GMpd | GFreq | GStartLow
  | GIro | GStartFreq | GIgnoredIro.              (* __init__ *)

(* what the constructor leaves in param_groups[0] for the two substituted defaults *)
Record cfg := mk_cfg { c_beta3 : pynum; c_start : pynum }.

Inductive result :=
  | Ok (c : cfg)
  | RaiseValueError (g : guard)
  | RaiseNotImplemented
  | RaiseOther.   (* TypeError / RuntimeError out of torch.split for a max_preconditioner_dim that is not an int64 int *)

(* ---- grafting config: AdaGradGraftingConfig.__post_init__, RMSpropGraftingConfig.__post_init__ ------ *)
Definition ok_geps (r : raw_cfg) : bool := pn_ltb fl0 (geps r).                                (* self.epsilon > 0.0 *)
Definition ok_gb2 (r : raw_cfg) : bool := pn_ltb fl0 (gb2 r) && pn_leb (gb2 r) fl1.            (* 0.0 < self.beta2 <= 1.0 *)

Definition graft_post_init (r : raw_cfg) : option guard :=
  match gkind r with
  | GraftNone | GraftSGD | GraftUnsupported => None
  | GraftAdaGrad => if negb (ok_geps r) then Some GGraftEps else None
  | GraftRMSprop | GraftAdam =>
      if negb (ok_geps r) then Some GGraftEps              (* super().__post_init__() *)
      else if negb (ok_gb2 r) then Some GGraftBeta2
      else None
  end.

(* ---- preconditioner config: PreconditionerConfig.__post_init__ ------------------------------------- *)
Fixpoint memZ (x : Z) (l : list Z) : bool :=
  match l with [] => false | y :: t => Z.eqb x y || memZ x t end.
Fixpoint nodupb (l : list Z) : bool :=      (* len(l) == len(set(l)) *)
  match l with [] => true | x :: t => negb (memZ x t) && nodupb t end.

Definition bad_nt (r : raw_cfg) : bool := pn_ltb (nt r) i0.          (* written `if x < 0: raise` -- NaN passes *)

Definition pc_post_init (r : raw_cfg) : option guard :=
  if bad_nt r then Some GNumTolerated
  else if negb (nodupb (ignored r)) then Some GIgnoredUnique
  else None.

(* ---- DistributedShampoo.__init__ -------------------------------------------------------------------- *)
Definition ok_lr (r : raw_cfg) : bool := pn_leb fl0 (lr r).                                    (* lr >= 0.0 *)
Definition ok_beta1 (r : raw_cfg) : bool := pn_leb fl0 (beta1 r) && pn_ltb (beta1 r) fl1.      (* 0.0 <= betas[0] < 1.0 *)
Definition ok_beta2 (r : raw_cfg) : bool := pn_ltb fl0 (beta2 r) && pn_leb (beta2 r) fl1.      (* 0.0 < betas[1] <= 1.0 *)
Definition beta3_is_default (r : raw_cfg) : bool := pn_eqb (beta3 r) flm1.                     (* beta3 == -1.0 *)
Definition ok_beta3 (r : raw_cfg) : bool :=
  if beta3_is_default r then true else pn_leb fl0 (beta3 r) && pn_ltb (beta3 r) fl1.           (* elif not 0.0 <= beta3 < 1.0 *)
Definition ok_eps (r : raw_cfg) : bool := pn_ltb fl0 (epsilon r).                              (* epsilon > 0.0 *)
Definition ok_momentum (r : raw_cfg) : bool := pn_leb fl0 (momentum r) && pn_ltb (momentum r) fl1.
Definition ok_dampening (r : raw_cfg) : bool := pn_leb fl0 (dampening r) && pn_ltb (dampening r) fl1.
Definition ok_wd (r : raw_cfg) : bool := pn_leb fl0 (weight_decay r).                          (* weight_decay >= 0.0 *)
Definition ok_mpd (r : raw_cfg) : bool := pn_leb i1 (mpd r).                                   (* max_preconditioner_dim >= 1 *)
Definition ok_freq (r : raw_cfg) : bool := pn_leb i1 (freq r).                                 (* precondition_frequency >= 1 *)
Definition ok_start_low (r : raw_cfg) : bool := pn_leb im1 (start r).                          (* start_preconditioning_step >= -1 *)
Definition ok_iro (r : raw_cfg) : bool :=
  match iro r with
  | IroSeq l => forallb (fun e => pn_leb i0 e) l                                               (* all(e >= 0 for e in ...) *)
  | IroScalar x => pn_leb i0 x                                                                 (* inv_root_override >= 0 *)
  end.
Definition start_is_default (r : raw_cfg) : bool := pn_eqb (start r) im1.                      (* start_preconditioning_step == -1 *)
Definition resolve_beta3 (r : raw_cfg) : pynum := if beta3_is_default r then beta1 r else beta3 r.
Definition resolve_start (r : raw_cfg) : pynum := if start_is_default r then freq r else start r.
Definition bad_start_freq (r : raw_cfg) : bool := pn_ltb (resolve_start r) (freq r).           (* start < precondition_frequency *)
Definition iro_ne_zero (o : iro_t) : bool :=                                                   (* inv_root_override != 0 *)
  match o with IroScalar x => negb (pn_eqb x i0) | IroSeq _ => true end.
Definition is_nil {A} (l : list A) : bool := match l with [] => true | _ => false end.
Definition bad_ignored (r : raw_cfg) : bool := negb (is_nil (ignored r)) && iro_ne_zero (iro r).

(* torch.split(tensor, split_size) : split_size must be a Python int that fits a C long *)
Definition int64_max : Z := 9223372036854775807%Z.
Definition is_int64 (x : pynum) : bool :=
  match x with PInt z => (Z.leb (- int64_max - 1) z && Z.leb z int64_max)%Z | _ => false end.

(* exact-type dispatches: `type(cfg) is ShampooPreconditionerConfig`, `type(cfg) is SGDGraftingConfig`,
   `type(cfg) in (AdaGradGraftingConfig, RMSpropGraftingConfig, AdamGraftingConfig)`; None needs no type *)
Definition pc_type_known (r : raw_cfg) : bool :=
  match pc_kind r with PCUnsupported => false | PCShampoo | PCEigenvalueCorrected => negb (pc_sub r) end.
Definition graft_type_known (r : raw_cfg) : bool :=
  match gkind r with
  | GraftNone => true
  | GraftUnsupported => false
  | GraftSGD | GraftAdaGrad | GraftRMSprop | GraftAdam => negb (gsub r)
  end.

(* everything after the guards: super().__init__ and the _instantiate_* calls *)
Definition dispatch (r : raw_cfg) : result :=
  match dist r with
  | DistUnsupported => RaiseNotImplemented                       (* _instantiate_distributor *)
  | DistNone =>
      if negb (is_int64 (mpd r)) then RaiseOther                 (* Distributor: multi_dim_split -> torch.split *)
      else if negb (pc_type_known r) then RaiseNotImplemented          (* _instantiate_shampoo_preconditioner_list *)
      else if negb (graft_type_known r) then RaiseNotImplemented       (* _instantiate_grafting *)
      else Ok {| c_beta3 := resolve_beta3 r; c_start := resolve_start r |}
  end.

Definition init (r : raw_cfg) : result :=
  if negb (ok_lr r) then RaiseValueError GLr else
  if negb (ok_beta1 r) then RaiseValueError GBeta1 else
  if negb (ok_beta2 r) then RaiseValueError GBeta2 else
  if negb (ok_beta3 r) then RaiseValueError GBeta3 else
  if negb (ok_eps r) then RaiseValueError GEps else
  if negb (ok_momentum r) then RaiseValueError GMomentum else
  if negb (ok_dampening r) then RaiseValueError GDampening else
  if negb (ok_wd r) then RaiseValueError GWd else
  if negb (ok_mpd r) then RaiseValueError GMpd else
  if negb (ok_freq r) then RaiseValueError GFreq else
  if negb (ok_start_low r) then RaiseValueError GStartLow else
  if negb (ok_iro r) then RaiseValueError GIro else
  if bad_start_freq r then RaiseValueError GStartFreq else
  if bad_ignored r then RaiseValueError GIgnoredIro else
  dispatch r.

(* The caller builds the two config objects (grafting first, preconditioner second: the order the harness uses),
   then calls DistributedShampoo(...). *)
Definition ctor (r : raw_cfg) : result :=
  match graft_post_init r with
  | Some g => RaiseValueError g
  | None =>
      match pc_post_init r with
      | Some g => RaiseValueError g
      | None => init r
      end
  end.

(* ---- comparison with the implementation's observed behaviour (used by generated case files) ---------- *)
Inductive observed := ObsOK (b3 st : pynum) | ObsValueError | ObsNotImplemented | ObsOther.

(* same Python object value: same type, same value (NaN is the same as NaN here) *)
Definition pn_sameb (x y : pynum) : bool :=
  match x, y with
  | PInt a, PInt b => Z.eqb a b
  | PFlt p, PFlt q => Qeq_bool p q
  | PInf, PInf => true
  | NInf, NInf => true
  | NaN, NaN => true
  | _, _ => false
  end.

Definition obs_matches (res : result) (o : observed) : bool :=
  match res, o with
  | Ok c, ObsOK b3 st => pn_sameb (c_beta3 c) b3 && pn_sameb (c_start c) st
  | RaiseValueError _, ObsValueError => true
  | RaiseNotImplemented, ObsNotImplemented => true
  | RaiseOther, ObsOther => true
  | _, _ => false
  end.

Definition agree (r : raw_cfg) (o : observed) : bool := obs_matches (ctor r) o.

Definition guard_idx (g : guard) : nat :=
  match g with
  | GGraftEps => 0 | GGraftBeta2 => 1 | GNumTolerated => 2 | GIgnoredUnique => 3 | GLr => 4 | GBeta1 => 5
  | GBeta2 => 6 | GBeta3 => 7 | GEps => 8 | GMomentum => 9 | GDampening => 10 | GWd => 11 | GMpd => 12
  | GFreq => 13 | GStartLow => 14 | GIro => 15 | GStartFreq => 16 | GIgnoredIro => 17
  end.

(* informational: the guard that fired (read off the exception message by the harness) is the model's *)
Definition agree_guard (r : raw_cfg) (g : guard) : bool :=
  match ctor r with RaiseValueError g' => Nat.eqb (guard_idx g) (guard_idx g') | _ => false end.
