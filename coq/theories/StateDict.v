(* C16 - model of
     distributed_shampoo/utils/shampoo_checkpoint_utils.py : flatten, unflatten,
         extract_state_dict_content, update_param_state_dict_object
     optimizer_modules.py : OptimizerModule.state_dict (save_to_state_dict),
         OptimizerModule.load_state_dict (load_from_new_state_to_old_state)

   Definitions only (executable, total).  Lemmas are in StateDictProofs.v, the certified checker in
   StateDictChecker.v.

   Python dicts are association lists in insertion order with unique keys; assigning to an existing
   key replaces the value and keeps the position (`dset`), `a | b` is `dor a b`.
   Keys are `str` or `int` (the property's domain; bool/float/None keys are outside it).
   A tensor is an identity (`id : nat`, the harness' serial number of the Python object / storage);
   its contents live in a heap.  Only 1-D tensors are modelled (copy_ broadcasting rule for 1-D).

   Not modelled (the model returns `Raise Unmodelled`, which every theorem excludes and the harness
   never generates): `i in tensor` where load_state_dict expects the saved form of a list/tuple; item assignment into a tensor by unflatten; `k in tensor`; deepcopy of tensors.
   Python `set` members of an object graph, aliasing of containers and cyclic graphs are outside
   the model (an `obj` is a tree; tensors may be aliased - they are ids). *)
From Coq Require Import List ZArith Bool String Ascii Arith.
Import ListNotations.

(* ------------------------------------------------------------------------------------------ *)
(* keys, results, trees                                                                         *)

Inductive key := KStr (s : string) | KInt (z : Z).

Definition key_eqb (a b : key) : bool :=
  match a, b with
  | KStr s, KStr t => String.eqb s t
  | KInt x, KInt y => Z.eqb x y
  | _, _ => false
  end.

Inductive err := KeyError | TypeError | ValueError | AttributeError | RuntimeError | Unmodelled.
Inductive result (A : Type) := Ok (a : A) | Raise (e : err).
Arguments Ok {A} a.
Arguments Raise {A} e.

Definition err_eqb (a b : err) : bool :=
  match a, b with
  | KeyError, KeyError | TypeError, TypeError | ValueError, ValueError
  | AttributeError, AttributeError | RuntimeError, RuntimeError | Unmodelled, Unmodelled => true
  | _, _ => false
  end.

(* leaf payload: a tensor (identity) or any other non-dict Python value (type tag, value token) *)
Inductive lf := LT (id : nat) | LV (ty v : nat).

Definition lf_eqb (a b : lf) : bool :=
  match a, b with
  | LT i, LT j => Nat.eqb i j
  | LV t v, LV t' v' => Nat.eqb t t' && Nat.eqb v v'
  | _, _ => false
  end.

Inductive tree := Leaf (x : lf) | Node (d : list (key * tree)).
Notation dict := (list (key * tree)).

(* ------------------------------------------------------------------------------------------ *)
(* Python dict operations on association lists                                                  *)

Section PyDict.
  Context {K V : Type} (eqb : K -> K -> bool).

  Fixpoint dget (k : K) (d : list (K * V)) : option V :=
    match d with
    | [] => None
    | (k', v) :: r => if eqb k k' then Some v else dget k r
    end.

  (* d[k] = v : replace in place or append *)
  Fixpoint dset (k : K) (v : V) (d : list (K * V)) : list (K * V) :=
    match d with
    | [] => [(k, v)]
    | (k', v') :: r => if eqb k k' then (k', v) :: r else (k', v') :: dset k v r
    end.

  (* a | b *)
  Definition dor (a b : list (K * V)) : list (K * V) :=
    fold_left (fun acc kv => dset (fst kv) (snd kv) acc) b a.
End PyDict.

(* ------------------------------------------------------------------------------------------ *)
(* flatten / unflatten; the JSON library is a parameter                                         *)

Section Flatten.
  Variable fkey : Type.                          (* flat keys (Python: str) *)
  Variable fkey_eqb : fkey -> fkey -> bool.
  Variable dumps : list key -> fkey.             (* json.dumps on a list of str|int *)
  Variable loads : fkey -> option (list key).    (* json.loads; None = JSONDecodeError / not a list of str|int *)

  Notation flat := (list (fkey * lf)).

  (* parse_key_value(key=k, value=v) inside flatten_with_parent_keys(_, parents) *)
  Fixpoint parse_kv (parents : list key) (k : key) (v : tree) {struct v} : flat :=
    match v with
    | Leaf x => [(dumps (parents ++ [k]), x)]
    | Node d =>
        let ps := parents ++ [k] in
        (fix red (d : dict) (acc : flat) {struct d} : flat :=      (* reduce(or_, ..., {}) *)
           match d with
           | [] => acc
           | (ck, cv) :: r => red r (dor fkey_eqb acc (parse_kv ps ck cv))
           end) d []
    end.

  Definition flatten_with (parents : list key) (d : dict) : flat :=
    fold_left (fun acc kv => dor fkey_eqb acc (parse_kv parents (fst kv) (snd kv))) d [].

  Definition flatten (d : dict) : flat := flatten_with [] d.

  (* one iteration of unflatten's loop after json.loads: walk `path` with setdefault, assign the leaf.
     The sub-dict reached by setdefault is mutated in place: functionally, replaced at its position. *)
  Fixpoint insert (path : list key) (x : lf) (d : dict) {struct path} : result dict :=
    match path with
    | [] => Raise ValueError                          (* `*parent_keys, key = []` *)
    | k :: rest =>
        match rest with
        | [] => Ok (dset key_eqb k (Leaf x) d)        (* immediate_input_dict[key] = value *)
        | _ :: rest' =>
            match dget key_eqb k d with
            | None =>
                match insert rest x [] with
                | Ok s => Ok (dset key_eqb k (Node s) d)
                | Raise e => Raise e
                end
            | Some (Node s) =>
                match insert rest x s with
                | Ok s' => Ok (dset key_eqb k (Node s') d)
                | Raise e => Raise e
                end
            | Some (Leaf l) =>
                (* setdefault returned a non-dict *)
                match rest' with
                | [] => match l with LT _ => Raise Unmodelled | LV _ _ => Raise TypeError end
                | _ :: _ => Raise AttributeError
                end
            end
        end
    end.

  Definition unflatten_step (acc : result dict) (kx : fkey * lf) : result dict :=
    match acc with
    | Raise e => Raise e
    | Ok d => match loads (fst kx) with
              | None => Raise ValueError
              | Some p => insert p (snd kx) d
              end
    end.

  Definition unflatten (l : flat) : result dict := fold_left unflatten_step l (Ok []).
End Flatten.

(* ------------------------------------------------------------------------------------------ *)
(* specification-side notions on trees                                                          *)

Definition pre (k : key) (px : list key * lf) : list key * lf := (k :: fst px, snd px).

(* leaf paths in depth-first order *)
Fixpoint paths (t : tree) : list (list key * lf) :=
  match t with
  | Leaf x => [([], x)]
  | Node d => (fix go (d : dict) : list (list key * lf) :=
                 match d with
                 | [] => []
                 | (k, v) :: r => map (pre k) (paths v) ++ go r
                 end) d
  end.

Definition dpaths (d : dict) : list (list key * lf) := paths (Node d).

Fixpoint has_leaf (t : tree) : bool :=
  match t with
  | Leaf _ => true
  | Node d => (fix ex (d : dict) : bool :=
                 match d with [] => false | (_, v) :: r => has_leaf v || ex r end) d
  end.

(* remove every sub-dict that holds no leaf *)
Fixpoint prune (t : tree) : tree :=
  match t with
  | Leaf x => Leaf x
  | Node d => Node ((fix go (d : dict) : dict :=
                       match d with
                       | [] => []
                       | (k, v) :: r => if has_leaf v then (k, prune v) :: go r else go r
                       end) d)
  end.

Definition prune_dict (d : dict) : dict :=
  match prune (Node d) with Node d' => d' | Leaf _ => [] end.

(* every sub-dict (strictly below the root) holds at least one leaf *)
Fixpoint fullb (t : tree) : bool :=
  match t with
  | Leaf _ => true
  | Node d => (fix all (d : dict) : bool :=
                 match d with [] => true | (_, v) :: r => has_leaf v && fullb v && all r end) d
  end.

Fixpoint nodupb {A} (eqb : A -> A -> bool) (l : list A) : bool :=
  match l with
  | [] => true
  | a :: r => negb (existsb (eqb a) r) && nodupb eqb r
  end.

(* keys unique in every dict *)
Fixpoint wfb (t : tree) : bool :=
  match t with
  | Leaf _ => true
  | Node d => nodupb key_eqb (map fst d)
              && (fix all (d : dict) : bool := match d with [] => true | (_, v) :: r => wfb v && all r end) d
  end.

(* ------------------------------------------------------------------------------------------ *)
(* equality tests used by the generated case files                                              *)

Fixpoint list_eqb {A} (eqb : A -> A -> bool) (l1 l2 : list A) : bool :=
  match l1, l2 with
  | [], [] => true
  | a :: r1, b :: r2 => eqb a b && list_eqb eqb r1 r2
  | _, _ => false
  end.

Fixpoint tree_eqb (a b : tree) {struct a} : bool :=
  match a, b with
  | Leaf x, Leaf y => lf_eqb x y
  | Node d1, Node d2 =>
      (fix go (d1 d2 : dict) {struct d1} : bool :=
         match d1, d2 with
         | [], [] => true
         | (k1, v1) :: r1, (k2, v2) :: r2 => key_eqb k1 k2 && tree_eqb v1 v2 && go r1 r2
         | _, _ => false
         end) d1 d2
  | _, _ => false
  end.

Definition dict_eqb (a b : dict) : bool := tree_eqb (Node a) (Node b).

Definition result_eqb {A} (eqb : A -> A -> bool) (a b : result A) : bool :=
  match a, b with
  | Ok x, Ok y => eqb x y
  | Raise e, Raise f => err_eqb e f
  | _, _ => false
  end.

Definition path_eqb : list key -> list key -> bool := list_eqb key_eqb.

(* ------------------------------------------------------------------------------------------ *)
(* executable instance used for the correspondence: the harness hands the model the *decoded*
   flat keys (json.loads of the implementation's raw strings; None when that fails), and validates
   json.loads (json.dumps p) == p and injectivity of json.dumps on every generated path itself. *)

Definition xkey := option (list key).
Definition xkey_eqb (a b : xkey) : bool :=
  match a, b with
  | Some p, Some q => path_eqb p q
  | None, None => true
  | _, _ => false
  end.
Definition x_dumps (p : list key) : xkey := Some p.
Definition x_loads (x : xkey) : option (list key) := x.

Definition x_flatten : dict -> list (xkey * lf) := flatten xkey xkey_eqb x_dumps.
Definition x_unflatten : list (xkey * lf) -> result dict := unflatten xkey x_loads.

Definition xflat_eqb (a b : list (xkey * lf)) : bool :=
  list_eqb (fun p q => xkey_eqb (fst p) (fst q) && lf_eqb (snd p) (snd q)) a b.

(* the implementation's flat dict, keys decoded, in iteration order *)
Definition agree_flatten (d : dict) (impl : list (xkey * lf)) : bool := xflat_eqb (x_flatten d) impl.
Definition agree_unflatten (l : list (xkey * lf)) (impl : result dict) : bool :=
  result_eqb dict_eqb (x_unflatten l) impl.

(* ------------------------------------------------------------------------------------------ *)
(* A second, string-valued codec (used as a non-vacuity instance of the JSON contract and for the
   checker's own round-trip tests).  Not JSON: a self-delimiting encoding of str|int lists.        *)

Definition bar : ascii := "|"%char.
Definition bsl : ascii := "\"%char.

Fixpoint esc (s : string) : string :=
  match s with
  | EmptyString => EmptyString
  | String c r => if (Ascii.eqb c bar || Ascii.eqb c bsl)%bool then String bsl (String c (esc r)) else String c (esc r)
  end.

Fixpoint bits (p : positive) : string :=
  match p with
  | xH => EmptyString
  | xO q => String "0"%char (bits q)
  | xI q => String "1"%char (bits q)
  end.

Definition enc_key (k : key) : string :=
  match k with
  | KStr s => String "s"%char (esc s ++ String bar EmptyString)
  | KInt Z0 => String "z"%char (String bar EmptyString)
  | KInt (Zpos p) => String "p"%char (bits p ++ String bar EmptyString)
  | KInt (Zneg p) => String "n"%char (bits p ++ String bar EmptyString)
  end.

Fixpoint s_dumps (p : list key) : string :=
  match p with
  | [] => EmptyString
  | k :: r => enc_key k ++ s_dumps r
  end.

(* read an escaped string up to the unescaped bar; returns (decoded, rest) *)
Fixpoint rd_str (s : string) : option (string * string) :=
  match s with
  | EmptyString => None
  | String c r =>
      if Ascii.eqb c bar then Some (EmptyString, r)
      else if Ascii.eqb c bsl then
        match r with
        | EmptyString => None
        | String c' r' => match rd_str r' with Some (a, rest) => Some (String c' a, rest) | None => None end
        end
      else match rd_str r with Some (a, rest) => Some (String c a, rest) | None => None end
  end.

Fixpoint rd_bits (s : string) : option (positive * string) :=
  match s with
  | EmptyString => None
  | String c r =>
      if Ascii.eqb c bar then Some (xH, r)
      else if Ascii.eqb c "0"%char then match rd_bits r with Some (p, rest) => Some (xO p, rest) | None => None end
      else if Ascii.eqb c "1"%char then match rd_bits r with Some (p, rest) => Some (xI p, rest) | None => None end
      else None
  end.

Definition rd_key (s : string) : option (key * string) :=
  match s with
  | EmptyString => None
  | String c r =>
      if Ascii.eqb c "s"%char then match rd_str r with Some (a, rest) => Some (KStr a, rest) | None => None end
      else if Ascii.eqb c "z"%char then
        match r with String c' rest => if Ascii.eqb c' bar then Some (KInt 0, rest) else None | EmptyString => None end
      else if Ascii.eqb c "p"%char then match rd_bits r with Some (p, rest) => Some (KInt (Zpos p), rest) | None => None end
      else if Ascii.eqb c "n"%char then match rd_bits r with Some (p, rest) => Some (KInt (Zneg p), rest) | None => None end
      else None
  end.

(* explicit fuel: one unit per key; None also on exhaustion (excluded by s_loads_dumps) *)
Fixpoint rd_keys (fuel : nat) (s : string) : option (list key) :=
  match s with
  | EmptyString => Some []
  | _ =>
      match fuel with
      | O => None
      | S f => match rd_key s with
               | Some (k, rest) => match rd_keys f rest with Some l => Some (k :: l) | None => None end
               | None => None
               end
      end
  end.

Definition s_loads (s : string) : option (list key) := rd_keys (String.length s) s.

(* ------------------------------------------------------------------------------------------ *)
(* object graphs of optimizer_modules.py                                                        *)

Inductive skind := SList | STuple.

Inductive obj :=
| OTensor (id : nat)
| OModule (fields : list (string * obj))       (* __dict__ of an OptimizerModule, in insertion order *)
| ODict (items : list (key * obj))
| OSeq (k : skind) (elems : list obj)
| OOther (ty v : nat).                          (* anything else: type tag, value token *)

Definition heap := nat -> list Z.               (* tensor id -> contents (1-D) *)
Definition hset (h : heap) (i : nat) (v : list Z) : heap := fun k => if Nat.eqb k i then v else h k.

(* old.detach().copy_(new) on 1-D tensors: equal sizes, or broadcast of a 1-element source *)
Definition copy_val (old new : list Z) : result (list Z) :=
  if Nat.eqb (List.length new) (List.length old) then Ok new
  else match new with
       | [x] => Ok (repeat x (List.length old))
       | _ => Raise RuntimeError
       end.

Section Items.
  Context {K A : Type} (kf : K -> key).

  (* save_to_state_dict over .items(): f a = None means "value skipped" *)
  Variable f : A -> option tree.
  Fixpoint save_items (l : list (K * A)) : dict :=
    match l with
    | [] => []
    | (k, a) :: r => match f a with
                     | Some t => (kf k, t) :: save_items r
                     | None => save_items r
                     end
    end.

  (* save_to_state_dict over enumerate(value) *)
  Fixpoint save_seq (l : list A) (n : Z) : dict :=
    match l with
    | [] => []
    | a :: r => match f a with
                | Some t => (KInt n, t) :: save_seq r (n + 1)
                | None => save_seq r (n + 1)
                end
    end.
End Items.

(* value stored for one (key, value) pair; None = not stored *)
Fixpoint sd (b : bool) (o : obj) {struct o} : option tree :=
  match o with
  | OTensor i => Some (Leaf (LT i))
  | OModule fs => Some (Node (save_items KStr (sd b) fs))
  | ODict items => Some (Node (save_items (fun k => k) (sd b) items))
  | OSeq _ l => Some (Node (save_seq (sd b) l 0))
  | OOther ty v => if b then Some (Leaf (LV ty v)) else None
  end.

(* OptimizerModule.state_dict(store_non_tensors=b) *)
Definition state_dict (b : bool) (m : obj) : tree :=
  match sd b m with Some t => t | None => Node [] end.

Section LoadItems.
  Context {K A : Type} (kf : K -> key).
  Variable ld : A -> tree -> heap -> result (A * heap).

  (* old_state |= {key: load(old_value, new_state[key]) for key, old_value in old_state.items() if key in new_state} *)
  Variable nd : dict.
  Fixpoint load_items (l : list (K * A)) (h : heap) : result (list (K * A) * heap) :=
    match l with
    | [] => Ok ([], h)
    | (k, a) :: r =>
        match dget key_eqb (kf k) nd with
        | Some t =>
            match ld a t h with
            | Ok (a', h1) =>
                match load_items r h1 with
                | Ok (r', h2) => Ok ((k, a') :: r', h2)
                | Raise e => Raise e
                end
            | Raise e => Raise e
            end
        | None =>
            match load_items r h with
            | Ok (r', h2) => Ok ((k, a) :: r', h2)
            | Raise e => Raise e
            end
        end
    end.

  (* update_param_state_dict_object's loop: a missing key is skipped when the entry of the current state
     flattens to nothing (`not flatten(extract_state_dict_content({k: v}))`), otherwise it raises when
     the check is enabled *)
  Variable lfless : A -> bool.
  Variable chk : bool.
  Fixpoint restore_items (l : list (K * A)) (h : heap) : result (list (K * A) * heap) :=
    match l with
    | [] => Ok ([], h)
    | (k, a) :: r =>
        match dget key_eqb (kf k) nd with
        | Some t =>
            match ld a t h with
            | Ok (a', h1) =>
                match restore_items r h1 with
                | Ok (r', h2) => Ok ((k, a') :: r', h2)
                | Raise e => Raise e
                end
            | Raise e => Raise e
            end
        | None =>
            if (lfless a || negb chk)%bool then
              match restore_items r h with
              | Ok (r', h2) => Ok ((k, a) :: r', h2)
              | Raise e => Raise e
              end
            else Raise KeyError
        end
    end.
End LoadItems.

(* `i in new_state` and new_state[i] for the saved form of a list/tuple:
   Ok None = index absent (element skipped), Ok (Some t) = new_state[i] *)
Definition seq_lookup (t : tree) (n : Z) : result (option tree) :=
  match t with
  | Node nd => Ok (dget key_eqb (KInt n) nd)
  | Leaf (LT _) => Raise Unmodelled         (* `i in tensor` compares element-wise *)
  | Leaf (LV _ _) => Raise TypeError        (* int/float/None/bool: not iterable; str: 'in <string>' requires string *)
  end.

Definition needs_load (o : obj) : bool := match o with OOther _ _ => false | _ => true end.

Section LoadSeq.
  Variable ld : obj -> tree -> heap -> result (obj * heap).
  Variable b : bool.
  Variable t : tree.
  (* type(old_state)(load(old_value, new_state[i])
                       if (store_non_tensors or container/tensor) and i in new_state else old_value ...) *)
  Fixpoint load_seq (l : list obj) (n : Z) (h : heap) : result (list obj * heap) :=
    match l with
    | [] => Ok ([], h)
    | a :: r =>
        if (b || needs_load a)%bool then
          match seq_lookup t n with
          | Ok (Some t1) =>
              match ld a t1 h with
              | Ok (a', h1) =>
                  match load_seq r (n + 1) h1 with
                  | Ok (r', h2) => Ok (a' :: r', h2)
                  | Raise e => Raise e
                  end
              | Raise e => Raise e
              end
          | Ok None =>
              match load_seq r (n + 1) h with
              | Ok (r', h2) => Ok (a :: r', h2)
              | Raise e => Raise e
              end
          | Raise e => Raise e
          end
        else
          match load_seq r (n + 1) h with
          | Ok (r', h2) => Ok (a :: r', h2)
          | Raise e => Raise e
          end
    end.
End LoadSeq.

(* load_from_new_state_to_old_state(old_state=o, new_state=t) with store_non_tensors=b;
   returns the object the caller stores back, and the heap after the in-place copies *)
Fixpoint load (b : bool) (o : obj) (t : tree) (h : heap) {struct o} : result (obj * heap) :=
  match o with
  | OTensor i =>
      match t with
      | Leaf (LT j) =>
          match copy_val (h i) (h j) with
          | Ok v => Ok (o, hset h i v)
          | Raise e => Raise e
          end
      | _ => Ok (o, h)                         (* warning, old state kept *)
      end
  | OModule fs =>
      match t with
      | Node nd =>
          match load_items KStr (load b) nd fs h with
          | Ok (fs', h') => Ok (OModule fs', h')
          | Raise e => Raise e
          end
      | Leaf _ => Ok (o, h)
      end
  | ODict items =>
      match t with
      | Node nd =>
          match load_items (fun k => k) (load b) nd items h with
          | Ok (items', h') => Ok (ODict items', h')
          | Raise e => Raise e
          end
      | Leaf _ => Ok (o, h)
      end
  | OSeq k l =>
      match load_seq (load b) b t l 0 h with
      | Ok (l', h') => Ok (OSeq k l', h')
      | Raise e => Raise e
      end
  | OOther ty v =>
      if b then
        match t with
        | Leaf (LV ty' v') => if Nat.eqb ty ty' then Ok (OOther ty v', h) else Ok (o, h)
        | _ => Ok (o, h)
        end
      else Ok (o, h)
  end.

(* OptimizerModule.load_state_dict(state_dict=t, store_non_tensors=b) *)
Definition load_state_dict (b : bool) (m : obj) (t : tree) (h : heap) : result (obj * heap) := load b m t h.

(* extract_state_dict_content: dicts recursively, modules by state_dict(), anything else as is *)
Fixpoint extract_val (o : obj) {struct o} : option tree :=
  match o with
  | ODict items => Some (Node (save_items (fun k => k) extract_val items))
  | OModule _ => Some (state_dict false o)
  | OTensor i => Some (Leaf (LT i))
  | OOther ty v => Some (Leaf (LV ty v))
  | OSeq _ _ => None                            (* a list/tuple value stays an opaque leaf: not modelled *)
  end.
Definition extract (cur : list (key * obj)) : dict := save_items (fun k => k) extract_val cur.

(* `not flatten(extract_state_dict_content({k: v}))` : the entry holds no leaf
   (flatten d = [] iff has_leaf (Node d) = false, whatever json.dumps does: StateDictProofs.flatten_nil_iff) *)
Definition leafless_val (v : obj) : bool :=
  match extract_val v with Some t => negb (has_leaf t) | None => false end.

(* update_param_state_dict_object(current = {k: v}, to_load, enable_missing_key_check = chk): one value *)
Fixpoint restore_val (chk : bool) (v : obj) (t : tree) (h : heap) {struct v} : result (obj * heap) :=
  match v with
  | ODict items =>
      match items with
      | [] => Ok (v, h)
      | _ :: _ =>
          match t with
          | Node nd =>
              match restore_items (fun k => k) (restore_val chk) nd leafless_val chk items h with
              | Ok (items', h') => Ok (ODict items', h')
              | Raise e => Raise e
              end
          | Leaf _ => Raise Unmodelled          (* `k not in <non-dict>` *)
          end
      end
  | OModule _ => load false v t h               (* v.load_state_dict(to_load[k]) *)
  | OTensor i =>
      match t with
      | Leaf (LT j) =>
          match copy_val (h i) (h j) with
          | Ok x => Ok (v, hset h i x)
          | Raise e => Raise e
          end
      | _ => Raise TypeError                    (* copy_(): argument must be Tensor *)
      end
  | OSeq _ _ | OOther _ _ =>
      match t with
      | Leaf (LV ty x) => Ok (OOther ty x, h)   (* current[k] = deepcopy(to_load[k]) *)
      | _ => Raise Unmodelled
      end
  end.

Definition restore (chk : bool) (cur : list (key * obj)) (new : dict) (h : heap)
  : result (list (key * obj) * heap) :=
  match restore_val chk (ODict cur) (Node new) h with
  | Ok (ODict c, h') => Ok (c, h')
  | Ok (_, h') => Ok (cur, h')
  | Raise e => Raise e
  end.

(* ------------------------------------------------------------------------------------------ *)
(* specification-side notions on object graphs                                                  *)

Definition prek (k : key) (pi : list key * nat) : list key * nat := (k :: fst pi, snd pi).

Section SeqTensors.
  Variable f : obj -> list (list key * nat).
  Fixpoint seq_tensors (l : list obj) (n : Z) : list (list key * nat) :=
    match l with
    | [] => []
    | a :: r => map (prek (KInt n)) (f a) ++ seq_tensors r (n + 1)
    end.
End SeqTensors.

(* tensors reachable from an object, with their access paths, depth-first *)
Fixpoint tensors (o : obj) {struct o} : list (list key * nat) :=
  match o with
  | OTensor i => [([], i)]
  | OModule fs => flat_map (fun x => map (prek (KStr (fst x))) (tensors (snd x))) fs
  | ODict items => flat_map (fun x => map (prek (fst x)) (tensors (snd x))) items
  | OSeq _ l => seq_tensors tensors l 0
  | OOther _ _ => []
  end.

Definition ids (o : obj) : list nat := map snd (tensors o).

(* tensor leaves of a state dict with their paths *)
Definition tensor_paths (t : tree) : list (list key * nat) :=
  flat_map (fun px => match snd px with LT i => [(fst px, i)] | LV _ _ => [] end) (paths t).

Fixpoint obj_eqb (a b : obj) {struct a} : bool :=
  match a, b with
  | OTensor i, OTensor j => Nat.eqb i j
  | OModule f1, OModule f2 =>
      (fix go (l1 l2 : list (string * obj)) {struct l1} : bool :=
         match l1, l2 with
         | [], [] => true
         | (k1, v1) :: r1, (k2, v2) :: r2 => String.eqb k1 k2 && obj_eqb v1 v2 && go r1 r2
         | _, _ => false
         end) f1 f2
  | ODict f1, ODict f2 =>
      (fix go (l1 l2 : list (key * obj)) {struct l1} : bool :=
         match l1, l2 with
         | [], [] => true
         | (k1, v1) :: r1, (k2, v2) :: r2 => key_eqb k1 k2 && obj_eqb v1 v2 && go r1 r2
         | _, _ => false
         end) f1 f2
  | OSeq k1 l1, OSeq k2 l2 =>
      (match k1, k2 with SList, SList | STuple, STuple => true | _, _ => false end)
      && (fix go (l1 l2 : list obj) {struct l1} : bool :=
            match l1, l2 with
            | [], [] => true
            | v1 :: r1, v2 :: r2 => obj_eqb v1 v2 && go r1 r2
            | _, _ => false
            end) l1 l2
  | OOther t1 v1, OOther t2 v2 => Nat.eqb t1 t2 && Nat.eqb v1 v2
  | _, _ => false
  end.

(* ------------------------------------------------------------------------------------------ *)
(* comparison functions for the module part of the generated case files                          *)

Definition heap_of (l : list (nat * list Z)) : heap :=
  fun k => match dget Nat.eqb k l with Some v => v | None => [] end.

Definition heap_agrees (h : heap) (obs : list (nat * list Z)) : bool :=
  forallb (fun iv => list_eqb Z.eqb (h (fst iv)) (snd iv)) obs.

Definition agree_state_dict (b : bool) (m : obj) (impl : tree) : bool := tree_eqb (state_dict b m) impl.

(* outcome of load_state_dict: the object graph afterwards (tensors by identity) and the contents of
   every tensor the harness knows *)
Definition agree_outcome (model : result (obj * heap)) (impl : result (obj * list (nat * list Z))) : bool :=
  match model, impl with
  | Ok (o, h), Ok (o', obs) => obj_eqb o o' && heap_agrees h obs
  | Raise e, Raise e' => err_eqb e e'
  | _, _ => false
  end.

Definition agree_load (b : bool) (m : obj) (t : tree) (h0 : list (nat * list Z))
           (impl : result (obj * list (nat * list Z))) : bool :=
  agree_outcome (load_state_dict b m t (heap_of h0)) impl.

Definition agree_restore (chk : bool) (cur : list (key * obj)) (new : dict) (h0 : list (nat * list Z))
           (impl : result (obj * list (nat * list Z))) : bool :=
  agree_outcome (match restore chk cur new (heap_of h0) with
                 | Ok (c, h) => Ok (ODict c, h)
                 | Raise e => Raise e
                 end) impl.

Definition agree_extract (cur : list (key * obj)) (impl : dict) : bool := dict_eqb (extract cur) impl.
