(* EigenvectorsProofs.v - theorems about the model Eigenvectors.v over the real-number instance [R_ops]
   (property C12).  Foreign code (torch.linalg.eigh, torch.linalg.qr, Tensor.argsort) is a Section variable
   with its contract as a Section hypothesis; after [End] every theorem is universally quantified over the
   oracles and their contracts.  Non-vacuity: concrete oracles satisfying the contracts are built at the end
   of the file ([Section Examples]) and every main theorem is instantiated on them.

   Contracts (for the answer the oracle actually gives; nothing is assumed when it raises):
     eigh_contract    : eigh k n A = Answer (L, Q)  ->  Q^T Q = I  /\  A = Q diag(L) Q^T  /\  L ascending
     qr_contract      : qr k n M = Answer Q         ->  Q^T Q = I  /\  exists R upper triangular, M = Q R
                        (no sign condition on diag(R): LAPACK does not give one, and none is needed below)
     argsort_contract : argsort n v is a permutation of 0..n-1 that sorts v ascending *)
From Coq Require Import List Arith Bool ZArith Reals Lra Lia Permutation Sorted Setoid Morphisms.
From Shampoo Require Import Scalar Matrix MatrixProofs Eigenvectors.
Import ListNotations.
Local Open Scope R_scope.

Local Ltac splits := repeat match goal with |- _ /\ _ => split end.

(* ====================================================================== specifications of the oracles *)
Section Specs.
  Variable rnd : R -> R.
  Notation Op := (R_ops rnd).

  Definition ascending (n : nat) (L : vec R) : Prop := forall i j, (i < j)%nat -> (j < n)%nat -> L i <= L j.
  Definition strictly_ascending (n : nat) (L : vec R) : Prop := forall i j, (i < j)%nat -> (j < n)%nat -> L i < L j.
  Definition upper_tri (n : nat) (U : mat R) : Prop := forall i j, (i < n)%nat -> (j < n)%nat -> (j < i)%nat -> U i j = 0.

  Definition eigh_spec (n : nat) (A : mat R) (L : vec R) (Q : mat R) : Prop :=
    morth_cols Op n Q /\ meq n A (spec rnd n Q L) /\ ascending n L.
  Definition qr_spec (n : nat) (M Q : mat R) : Prop :=
    morth_cols Op n Q /\ exists U, upper_tri n U /\ meq n M (mmul Op n Q U).
  Definition argsort_spec (n : nat) (v : vec R) (p : list nat) : Prop :=
    Permutation p (seq 0 n) /\ forall i j, (i < j)%nat -> (j < n)%nat -> v (nth i p 0%nat) <= v (nth j p 0%nat).

  (* the Rayleigh quotient of column j (for an orthonormal column: q_j^T A q_j) *)
  Definition rq (n : nat) (A Q : mat R) (j : nat) : R := qform Op n A (mcol Q j).
  (* Q * diag(s): column j multiplied by s j *)
  Definition col_signs (Q : mat R) (s : vec R) : mat R := fun i j => Q i j * s j.
  Definition signs (n : nat) (s : vec R) : Prop := forall j, (j < n)%nat -> s j = 1 \/ s j = -1.
End Specs.

(* ====================================================================== facts that need no oracle *)
Section Basics.
  Variable rnd : R -> R.
  Notation Op := (R_ops rnd).
  Notation rsum := (sumn Op).

  Lemma numel_square n : numel [n; n] = (n * n)%nat.
  Proof. unfold numel; cbn [fold_right]. lia. Qed.
  Lemma numel_square_1 n : (numel [n; n] =? 1)%nat = (n =? 1)%nat.
  Proof.
    rewrite numel_square. destruct (Nat.eqb_spec n 1) as [->|H]; [reflexivity|].
    apply Nat.eqb_neq. destruct n as [|[|n]]; lia.
  Qed.

  (* ---- permutations of 0..n-1 given as lists ---------------------------------------------------- *)
  Lemma perm_seq_length n p : Permutation p (seq 0 n) -> length p = n.
  Proof. intros H. rewrite (Permutation_length H), seq_length. reflexivity. Qed.
  Lemma perm_seq_lt n p i : Permutation p (seq 0 n) -> (i < n)%nat -> (nth i p 0 < n)%nat.
  Proof.
    intros H Hi. assert (In (nth i p 0%nat) (seq 0 n)) as Hin.
    { eapply Permutation_in; [exact H|]. apply nth_In. rewrite (perm_seq_length n p H). exact Hi. }
    apply in_seq in Hin. lia.
  Qed.
  Lemma perm_seq_inj n p i j : Permutation p (seq 0 n) -> (i < n)%nat -> (j < n)%nat -> nth i p 0%nat = nth j p 0%nat -> i = j.
  Proof.
    intros H Hi Hj E. assert (NoDup p) as Hnd.
    { eapply Permutation_NoDup; [apply Permutation_sym; exact H|apply seq_NoDup]. }
    rewrite (NoDup_nth p 0%nat) in Hnd. apply Hnd; rewrite ?(perm_seq_length n p H); assumption.
  Qed.

  (* a strictly increasing map of [0,n) into [0,n) is the identity *)
  Lemma increasing_is_id n (f : nat -> nat) :
    (forall i, (i < n)%nat -> (f i < n)%nat) -> (forall i j, (i < j)%nat -> (j < n)%nat -> (f i < f j)%nat) ->
    forall j, (j < n)%nat -> f j = j.
  Proof.
    intros Hlt Hinc.
    assert (forall j i, (i <= j)%nat -> (j < n)%nat -> (f i + (j - i) <= f j)%nat) as Hstep.
    { induction j as [|j IH]; intros i Hi Hj.
      - assert (i = 0)%nat by lia. subst. lia.
      - destruct (Nat.eq_dec i (S j)) as [->|Hne]; [lia|].
        assert (f i + (j - i) <= f j)%nat by (apply IH; lia).
        assert (f j < f (S j))%nat by (apply Hinc; lia). lia. }
    intros j Hj.
    assert (f 0 + (j - 0) <= f j)%nat by (apply Hstep; lia).
    assert (f j + (n - 1 - j) <= f (n - 1))%nat by (apply Hstep; lia).
    assert (f (n - 1) < n)%nat by (apply Hlt; lia). lia.
  Qed.

  (* an ascending sort of a strictly ascending vector is the identity permutation *)
  Lemma argsort_of_strictly_ascending n (L : vec R) p :
    argsort_spec n L p -> strictly_ascending n L -> forall j, (j < n)%nat -> nth j p 0%nat = j.
  Proof.
    intros [Hp Hs] HL. apply (increasing_is_id n (fun j => nth j p 0%nat)).
    - intros i Hi. apply (perm_seq_lt n p i Hp Hi).
    - intros i j Hij Hj.
      assert (nth i p 0 < n)%nat as Hi' by (apply (perm_seq_lt n p i Hp); lia).
      assert (nth j p 0 < n)%nat as Hj' by (apply (perm_seq_lt n p j Hp); lia).
      specialize (Hs i j Hij Hj).
      destruct (Nat.lt_trichotomy (nth i p 0%nat) (nth j p 0%nat)) as [H|[H|H]]; [exact H| |].
      + apply (perm_seq_inj n p i j Hp) in H; lia.
      + specialize (HL _ _ H Hi'). lra.
  Qed.

  (* ---- column permutations ---------------------------------------------------------------------- *)
  Lemma mcol_permute_cols (Q : mat R) p j : mcol (permute_cols Q p) j = mcol Q (nth j p 0%nat).
  Proof. reflexivity. Qed.

  Lemma ev_permute_cols_orth n (Q : mat R) p :
    Permutation p (seq 0 n) -> morth_cols Op n Q -> morth_cols Op n (permute_cols Q p).
  Proof.
    intros Hp HQ i j Hi Hj. rewrite rmmul_get by assumption.
    assert (nth i p 0 < n)%nat as Hi' by (apply (perm_seq_lt n p i Hp Hi)).
    assert (nth j p 0 < n)%nat as Hj' by (apply (perm_seq_lt n p j Hp Hj)).
    specialize (HQ _ _ Hi' Hj'). rewrite rmmul_get in HQ by assumption.
    unfold mtrans, permute_cols in *. rewrite HQ. unfold mid.
    destruct (Nat.eqb_spec (nth i p 0%nat) (nth j p 0%nat)) as [E|E].
    - apply (perm_seq_inj n p i j Hp Hi Hj) in E. subst. rewrite Nat.eqb_refl. reflexivity.
    - destruct (Nat.eqb_spec i j) as [->|_]; [contradiction|reflexivity].
  Qed.

  Lemma ev_permute_cols_id n (Q : mat R) p : (forall j, (j < n)%nat -> nth j p 0%nat = j) -> meq n (permute_cols Q p) Q.
  Proof. intros H i j _ Hj. unfold permute_cols. rewrite H by exact Hj. reflexivity. Qed.

  (* ---- the Rayleigh quotients the model computes ------------------------------------------------ *)
  Lemma rayleigh_get n (A Q : mat R) j : (j < n)%nat -> rayleigh Op n A Q j = rq rnd n A Q j.
  Proof. intros Hj. unfold rayleigh. rewrite vmemo_ok by exact Hj. reflexivity. Qed.

  Lemma rq_sum n (A Q : mat R) j : (j < n)%nat ->
    rq rnd n A Q j = rsum n (fun i => Q i j * mmul Op n A Q i j).
  Proof.
    intros Hj. unfold rq, qform, dot. apply sumn_ext. intros i Hi.
    rewrite rmvec_get by exact Hi. rewrite rmmul_get by assumption. reflexivity.
  Qed.

  Lemma rq_ext n (A A' Q Q' : mat R) j : (j < n)%nat -> meq n A A' -> meq n Q Q' -> rq rnd n A Q j = rq rnd n A' Q' j.
  Proof.
    intros Hj HA HQ. unfold rq. apply qform_proper; [exact HA|].
    intros i Hi. unfold mcol. apply HQ; assumption.
  Qed.

  (* q_j^T A q_j = L j for an orthonormal eigenbasis *)
  Lemma rq_eigenbasis n (A Q : mat R) (L : vec R) j :
    (j < n)%nat -> morth_cols Op n Q -> meq n (mmul Op n A Q) (mmul Op n Q (mdiag Op L)) -> rq rnd n A Q j = L j.
  Proof.
    intros Hj HQ HA. rewrite rq_sum by exact Hj.
    rewrite (sumn_ext Op n _ (fun i => (mtrans Q j i * Q i j) * L j)).
    2:{ intros i Hi. rewrite (HA i j Hi Hj), mmul_diag_r by assumption. unfold mtrans. cbn [fmul R_ops]. lra. }
    rewrite rsum_mult_r. specialize (HQ j j Hj Hj). rewrite rmmul_get in HQ by assumption.
    cbn [fmul R_ops] in *. rewrite HQ. unfold mid. rewrite Nat.eqb_refl. cbn [f1 R_ops]. lra.
  Qed.

  (* ---- is_zero_mat ------------------------------------------------------------------------------- *)
  Lemma is_zero_mat_true n (E : mat R) : is_zero_mat Op n E = true <-> (forall i j, (i < n)%nat -> (j < n)%nat -> E i j = 0).
  Proof.
    unfold is_zero_mat. rewrite forall2_lt_true. split; intros H i j Hi Hj; specialize (H i j Hi Hj); cbn [feqb f0 R_ops] in *.
    - apply Reqb_true; exact H.
    - apply Reqb_true; exact H.
  Qed.

  Lemma orth_not_zero n (Q : mat R) : (1 <= n)%nat -> morth_cols Op n Q -> is_zero_mat Op n Q = false.
  Proof.
    intros Hn HQ. destruct (is_zero_mat Op n Q) eqn:E; [|reflexivity]. exfalso.
    rewrite is_zero_mat_true in E. specialize (HQ 0%nat 0%nat Hn Hn). rewrite rmmul_get in HQ by exact Hn.
    rewrite rsum_zero_ext in HQ.
    - unfold mid in HQ; cbn [Nat.eqb f1 R_ops] in HQ. lra.
    - intros k Hk. rewrite (E k 0%nat Hk Hn). lra.
  Qed.
End Basics.

(* ====================================================================== triangular factors of an eigenbasis *)
Section Triangular.
  Variable rnd : R -> R.
  Notation Op := (R_ops rnd).
  Notation rsum := (sumn Op).

  Lemma rsum_single n i (f : nat -> R) : (i < n)%nat -> (forall k, (k < n)%nat -> k <> i -> f k = 0) -> rsum n f = f i.
  Proof.
    intros Hi H. rewrite (sumn_ext Op n f (fun k => if Nat.eqb k i then f k else 0)).
    - apply (rsum_delta_r rnd n i f Hi).
    - intros k Hk. destruct (Nat.eqb_spec k i) as [->|Hne]; [reflexivity|apply H; assumption].
  Qed.

  (* U upper triangular with U^T U = diag(d), d without zero: U is diagonal and U_ii^2 = d_i
     (row by row: uniqueness of the Cholesky factor up to signs) *)
  Lemma upper_tri_gram_diagonal n (U : mat R) (d : vec R) :
    upper_tri n U -> meq n (mmul Op n (mtrans U) U) (mdiag Op d) -> (forall i, (i < n)%nat -> d i <> 0) ->
    forall i, (i < n)%nat -> (forall j, (j < n)%nat -> j <> i -> U i j = 0) /\ U i i * U i i = d i.
  Proof.
    intros Hup HG Hd.
    assert (forall m i, (i < m)%nat -> (i < n)%nat -> (forall j, (j < n)%nat -> j <> i -> U i j = 0) /\ U i i * U i i = d i) as H.
    { induction m as [|m IH]; intros i Him Hi; [lia|].
      assert (forall j, (j < n)%nat -> U i i * U i j = mdiag Op d i j) as Hrow.
      { intros j Hj. rewrite <- (HG i j Hi Hj), rmmul_get by assumption.
        symmetry. apply (rsum_single n i (fun k => mtrans U i k * U k j) Hi).
        intros k Hk Hne. unfold mtrans.
        destruct (Nat.lt_ge_cases k i) as [Hlt|Hge].
        - destruct (IH k ltac:(lia) Hk) as [Hz _]. rewrite (Hz i Hi) by lia. lra.
        - rewrite (Hup k i Hk Hi) by lia. lra. }
      assert (U i i * U i i = d i) as Hii.
      { rewrite (Hrow i Hi). unfold mdiag. rewrite Nat.eqb_refl. reflexivity. }
      split; [|exact Hii]. intros j Hj Hne. specialize (Hrow j Hj). unfold mdiag in Hrow.
      destruct (Nat.eqb_spec i j) as [->|_]; [contradiction|]. cbn [f0 R_ops] in Hrow.
      specialize (Hd i Hi). apply Rmult_integral in Hrow. destruct Hrow as [Hz|Hz]; [|exact Hz].
      rewrite Hz in Hii. lra. }
    intros i Hi. apply (H (S i) i); [lia|exact Hi].
  Qed.

  (* an orthonormal eigenbasis of A for the eigenvalues L *)
  Definition eigenbasis (n : nat) (A : mat R) (L : vec R) (X : mat R) : Prop :=
    morth_cols Op n X /\ meq n (mmul Op n A X) (mmul Op n X (mdiag Op L)).

  Lemma eigenbasis_meq n A L X X' : meq n X X' -> eigenbasis n A L X -> eigenbasis n A L X'.
  Proof. intros H [H1 H2]. unfold eigenbasis, morth_cols in *. rewrite <- H. split; assumption. Qed.

  Lemma col_signs_meq n (X X' : mat R) s : meq n X X' -> meq n (col_signs X s) (col_signs X' s).
  Proof. intros H i j Hi Hj. unfold col_signs. rewrite (H i j Hi Hj). reflexivity. Qed.

  Lemma signs_sq n s j : signs n s -> (j < n)%nat -> s j * s j = 1.
  Proof. intros H Hj. destruct (H j Hj) as [-> | ->]; lra. Qed.

  Lemma eigenbasis_col_signs n A L X s : signs n s -> eigenbasis n A L X -> eigenbasis n A L (col_signs X s).
  Proof.
    intros Hs [HX HA]. split.
    - intros i j Hi Hj. rewrite rmmul_get by assumption.
      rewrite (sumn_ext Op n _ (fun k => (s i * s j) * (mtrans X i k * X k j))).
      2:{ intros k _. unfold mtrans, col_signs. lra. }
      rewrite rsum_mult_l. specialize (HX i j Hi Hj). rewrite rmmul_get in HX by assumption. rewrite HX.
      unfold mid. destruct (Nat.eqb_spec i j) as [->|_]; cbn [f0 f1 R_ops]; [rewrite (signs_sq n s j Hs Hj)|]; lra.
    - intros i j Hi Hj. rewrite mmul_diag_r by assumption. rewrite rmmul_get by assumption.
      rewrite (sumn_ext Op n _ (fun k => (A i k * X k j) * s j)).
      2:{ intros k _. unfold col_signs. lra. }
      rewrite rsum_mult_r. rewrite <- rmmul_get by assumption. rewrite (HA i j Hi Hj), mmul_diag_r by assumption.
      unfold col_signs. lra.
  Qed.

  Lemma col_signs_compose n (X : mat R) s s' :
    signs n s -> signs n s' ->
    signs n (fun j => s j * s' j) /\ meq n (col_signs (col_signs X s) s') (col_signs X (fun j => s j * s' j)).
  Proof.
    intros H H'. split.
    - intros j Hj. destruct (H j Hj) as [-> | ->], (H' j Hj) as [-> | ->]; [left|right|right|left]; lra.
    - intros i j _ _. unfold col_signs. lra.
  Qed.

  (* ONE STEP: a QR factorisation of A X, X an orthonormal eigenbasis for eigenvalues without zero, has Q = X diag(+-1).
     (X D = Q U  =>  U^T U = D^2  =>  U = diag(+-L)  =>  Q = X diag(+-1); no inverse, no sign convention needed) *)
  Lemma qr_step_signs n A L X Q' :
    eigenbasis n A L X -> (forall i, (i < n)%nat -> L i <> 0) -> qr_spec rnd n (mmul Op n A X) Q' ->
    exists s, signs n s /\ meq n Q' (col_signs X s).
  Proof.
    intros [HX HA] HL (HQ' & U & Hup & HM).
    assert (meq n (mmul Op n Q' U) (mmul Op n X (mdiag Op L))) as H1 by (rewrite <- HM; exact HA).
    assert (meq n (mmul Op n (mtrans U) U) (mdiag Op (fun i => L i * L i))) as HG.
    { unfold morth_cols in HX, HQ'.
      transitivity (mmul Op n (mtrans (mmul Op n Q' U)) (mmul Op n Q' U)).
      - rewrite mtrans_mmul, (mmul_assoc rnd n (mtrans U) (mtrans Q') (mmul Op n Q' U)).
        rewrite <- (mmul_assoc rnd n (mtrans Q') Q' U), HQ', mmul_id_l. reflexivity.
      - rewrite H1. rewrite mtrans_mmul, mtrans_diag, (mmul_assoc rnd n (mdiag Op L) (mtrans X) (mmul Op n X (mdiag Op L))).
        rewrite <- (mmul_assoc rnd n (mtrans X) X (mdiag Op L)), HX, mmul_id_l. apply mdiag_mul. }
    assert (forall i, (i < n)%nat -> L i * L i <> 0) as Hd.
    { intros i Hi Hz. apply Rmult_integral in Hz. specialize (HL i Hi). tauto. }
    pose proof (upper_tri_gram_diagonal n U (fun i => L i * L i) Hup HG Hd) as HU.
    assert (forall i j, (i < n)%nat -> (j < n)%nat -> Q' i j * U j j = X i j * L j) as Hent.
    { intros i j Hi Hj. rewrite <- (mmul_diag_r rnd n X L i j Hi Hj). rewrite <- (H1 i j Hi Hj).
      rewrite rmmul_get by assumption. symmetry. apply (rsum_single n j (fun k => Q' i k * U k j) Hj).
      intros k Hk Hne. destruct (HU k Hk) as [Hz _]. rewrite (Hz j Hj) by lia. lra. }
    exists (fun j => L j / U j j). split.
    - intros j Hj. destruct (HU j Hj) as [_ Hsq]. specialize (HL j Hj).
      assert (U j j <> 0) as Hne by (intros Hz; rewrite Hz in Hsq; specialize (Hd j Hj); lra).
      assert ((U j j - L j) * (U j j + L j) = 0) as Hprod by lra.
      apply Rmult_integral in Hprod. destruct Hprod as [Hp|Hp]; [left|right].
      + replace (U j j) with (L j) by lra. field. exact HL.
      + replace (U j j) with (- L j) by lra. field. exact HL.
    - intros i j Hi Hj. unfold col_signs. destruct (HU j Hj) as [_ Hsq].
      assert (U j j <> 0) as Hne by (intros Hz; rewrite Hz in Hsq; specialize (Hd j Hj); lra).
      specialize (Hent i j Hi Hj). apply (Rmult_eq_reg_r (U j j)); [|exact Hne]. rewrite Hent. field. exact Hne.
  Qed.
End Triangular.

(* ====================================================================== theorems, any oracles meeting the contracts *)
Section Theorems.
  Variable rnd : R -> R.
  Notation Op := (R_ops rnd).
  Notation rsum := (sumn Op).

  Variable eigh : nat -> nat -> mat R -> reply (vec R * mat R).
  Variable qr : nat -> nat -> mat R -> reply (mat R).
  Variable argsort : nat -> vec R -> list nat.
  Hypothesis eigh_contract : forall k n A L Q, eigh k n A = Answer (L, Q) -> eigh_spec rnd n A L Q.
  Hypothesis qr_contract : forall k n M Q, qr k n M = Answer Q -> qr_spec rnd n M Q.
  Hypothesis argsort_contract : forall n v, argsort_spec n v (argsort n v).

  Notation eigvecs := (matrix_eigenvectors Op eigh qr argsort).
  Notation decomp := (eig_decomp eigh).

  (* ---- what the eigh contract gives: orthonormal, diagonalising, ascending ---------------------- *)
  Definition eig_basis_of (n : nat) (A : mat R) (L : vec R) (Q : mat R) : Prop :=
    morth_cols Op n Q /\ meq n (mmul Op n (mtrans Q) (mmul Op n A Q)) (mdiag Op L) /\ ascending n L.

  Lemma eigh_spec_diagonalises n A L Q : eigh_spec rnd n A L Q -> eig_basis_of n A L Q.
  Proof.
    intros (HQ & HA & HL). split; [exact HQ|]. split; [|exact HL].
    unfold morth_cols in HQ. rewrite HA. unfold spec.
    rewrite (mmul_assoc rnd n (mmul Op n Q (mdiag Op L)) (mtrans Q) Q), HQ, mmul_id_r.
    rewrite <- (mmul_assoc rnd n (mtrans Q) Q (mdiag Op L)), HQ, mmul_id_l. reflexivity.
  Qed.

  (* ---- dispatch ---------------------------------------------------------------------------------- *)
  Theorem eigvec_dispatch :
    (* a tensor with one element (any shape): ones of the same shape, no oracle call *)
    (forall sh dt A est cfg isd, numel sh = 1%nat ->
       eigvecs sh dt A est cfg isd = mkRes (Ok sh dt (mones Op)) [] [] 0)
    (* shape guards *)
    /\ (forall sh dt A est cfg isd, numel sh <> 1%nat -> length sh <> 2%nat ->
       r_out (eigvecs sh dt A est cfg isd) = Raise (ValueError NotTwoDim))
    /\ (forall r c dt A est cfg isd, numel [r; c] <> 1%nat -> r <> c ->
       r_out (eigvecs [r; c] dt A est cfg isd) = Raise (ValueError NotSquare))
    (* diagonal flag: the identity, whatever the config, no oracle call *)
    /\ (forall n dt A est cfg, n <> 1%nat ->
       eigvecs [n; n] dt A est cfg true = mkRes (Ok [n; n] dt (mid Op)) [] [] 0)
    (* eigendecomposition config: the oracle's Q for A, which by contract is orthonormal, diagonalising, ascending *)
    /\ (forall n dt A est retry L Q, n <> 1%nat -> eigh 0 n A = Answer (L, Q) ->
       eigvecs [n; n] dt A est (EighCfg retry) false = mkRes (Ok [n; n] dt Q) [A] [] 0 /\ eig_basis_of n A L Q)
    (* ... its retry in double precision after a failure, result dtype float64 *)
    /\ (forall n dt A est L Q, n <> 1%nat -> dt <> F64 -> eigh 0 n A = Fails -> eigh 1 n A = Answer (L, Q) ->
       eigvecs [n; n] dt A est (EighCfg true) false = mkRes (Ok [n; n] F64 Q) [A; A] [] 0 /\ eig_basis_of n A L Q)
    /\ (forall n dt A est retry, n <> 1%nat -> eigh 0 n A = Fails -> (retry = false \/ dt = F64 \/ eigh 1 n A = Fails) ->
       r_out (eigvecs [n; n] dt A est (EighCfg retry) false) = Raise OracleError)
    (* QR config with an all-zero estimate: exactly the eigendecomposition path with default flags *)
    /\ (forall n dt A E est' mi tol, n <> 1%nat -> (forall i j, (i < n)%nat -> (j < n)%nat -> E i j = 0) ->
       eigvecs [n; n] dt A (Some E) (QRCfg mi tol) false = eigvecs [n; n] dt A est' (EighCfg true) false)
    (* QR config without an estimate; unknown config *)
    /\ (forall n dt A mi tol, n <> 1%nat ->
       r_out (eigvecs [n; n] dt A None (QRCfg mi tol) false) = Raise AssertionError)
    /\ (forall n dt A est, n <> 1%nat ->
       r_out (eigvecs [n; n] dt A est OtherCfg false) = Raise NotImplementedError).
  Proof.
    assert (Hsq : forall n, n <> 1%nat -> (numel [n; n] =? 1)%nat = false).
    { intros n Hn. rewrite numel_square_1. apply Nat.eqb_neq; exact Hn. }
    split; [|split; [|split; [|split; [|split; [|split; [|split; [|split; [|split]]]]]]]].
    - intros sh dt A est cfg isd H. unfold matrix_eigenvectors. rewrite H. reflexivity.
    - intros sh dt A est cfg isd H1 H2. unfold matrix_eigenvectors.
      apply Nat.eqb_neq in H1. rewrite H1.
      destruct sh as [|a [|b [|c sh]]]; cbn [length] in H2; try reflexivity. contradiction.
    - intros r c dt A est cfg isd H1 H2. unfold matrix_eigenvectors.
      apply Nat.eqb_neq in H1. rewrite H1. apply Nat.eqb_neq in H2. rewrite H2. reflexivity.
    - intros n dt A est cfg Hn. unfold matrix_eigenvectors. rewrite (Hsq n Hn), Nat.eqb_refl. reflexivity.
    - intros n dt A est retry L Q Hn H0. split.
      + unfold matrix_eigenvectors. rewrite (Hsq n Hn), Nat.eqb_refl. cbn [negb]. unfold eig_decomp. rewrite H0. reflexivity.
      + apply eigh_spec_diagonalises. eapply eigh_contract; eassumption.
    - intros n dt A est L Q Hn Hdt H1 H2. split.
      + unfold matrix_eigenvectors. rewrite (Hsq n Hn), Nat.eqb_refl. cbn [negb]. unfold eig_decomp. rewrite H1.
        destruct dt; try contradiction; cbn [dtype_eqb negb andb]; rewrite H2; reflexivity.
      + apply eigh_spec_diagonalises. eapply eigh_contract; eassumption.
    - intros n dt A est retry Hn H0 H1. unfold matrix_eigenvectors. rewrite (Hsq n Hn), Nat.eqb_refl. cbn [negb]. unfold eig_decomp. rewrite H0.
      destruct H1 as [->|[->|H1]]; [reflexivity|rewrite andb_false_r; reflexivity|].
      destruct (retry && negb (dtype_eqb dt F64)); [rewrite H1|]; reflexivity.
    - intros n dt A E est' mi tol Hn HE. unfold matrix_eigenvectors. rewrite (Hsq n Hn), Nat.eqb_refl. cbn [negb].
      unfold orthogonal_iterations. apply (is_zero_mat_true rnd) in HE. rewrite HE. reflexivity.
    - intros n dt A mi tol Hn. unfold matrix_eigenvectors. rewrite (Hsq n Hn), Nat.eqb_refl. reflexivity.
    - intros n dt A est Hn. unfold matrix_eigenvectors. rewrite (Hsq n Hn), Nat.eqb_refl. reflexivity.
  Qed.

  (* ---- the loop of _compute_orthogonal_iterations ------------------------------------------------- *)
  Section Loop.
    Variables (n : nat) (A E : mat R) (tol : R).

    (* the orthogonal-iteration sequence: Q_0 = E, Q_(j+1) = the oracle's Q factor of A Q_j (call number j) *)
    Fixpoint iterate (j : nat) : option (mat R) :=
      match j with
      | O => Some E
      | S j' => match iterate j' with
                | Some Q => match qr j' n (mmul Op n A Q) with Answer Q' => Some Q' | _ => None end
                | None => None
                end
      end.
    (* relative change made by iteration j >= 1: ||Q_(j-1) - Q_j||_F / ||Q_(j-1)||_F *)
    Definition change (j : nat) : R :=
      match j with
      | O => 0
      | S j' => match iterate j', iterate (S j') with Some a, Some b => rel_change Op n a b | _, _ => 0 end
      end.
    Definition err_at (j : nat) : option R := match j with O => None | S _ => Some (change j) end.

    (* the loop rule: k iterations are made iff k <= max_iterations, every earlier iteration changed the
       estimate by more than the tolerance, and either the budget is used up or iteration k changed it by <= tolerance *)
    Definition loop_rule (mi k : nat) : Prop :=
      (k <= mi)%nat /\ (forall j, (1 <= j)%nat -> (j < k)%nat -> tol < change j)
      /\ (k = mi \/ ((1 <= k)%nat /\ change k <= tol)).

    Lemma loop_rule_unique mi k k' : loop_rule mi k -> loop_rule mi k' -> k = k'.
    Proof.
      intros (H1 & H2 & H3) (H1' & H2' & H3').
      destruct (Nat.lt_trichotomy k k') as [H|[H|H]]; [exfalso|exact H|exfalso].
      - destruct H3 as [->|[Hk Hc]]; [lia|]. specialize (H2' k Hk H). lra.
      - destruct H3' as [->|[Hk Hc]]; [lia|]. specialize (H2 k' Hk H). lra.
    Qed.

    Lemma keep_going_err_at j : keep_going Op (err_at j) tol = true <-> (j = 0%nat \/ tol < change j).
    Proof.
      destruct j as [|j]; cbn [err_at keep_going ffinite R_ops orb]; [split; auto|].
      cbn [fltb R_ops]. rewrite Rltb_true. split; [auto|intros [H|H]; [discriminate|exact H]].
    Qed.

    Lemma orth_loop_spec fuel : forall k Q Q' qs it,
      iterate k = Some Q ->
      orth_loop Op qr fuel k n A Q (err_at k) tol = (LDone Q', qs, it) ->
      (k <= it)%nat /\ (it <= k + fuel)%nat /\ iterate it = Some Q'
      /\ (forall j, (k <= j)%nat -> (j < it)%nat -> keep_going Op (err_at j) tol = true)
      /\ (it = (k + fuel)%nat \/ keep_going Op (err_at it) tol = false)
      /\ length qs = (it - k)%nat.
    Proof.
      induction fuel as [|fuel IH]; intros k Q Q' qs it Hk H.
      - cbn [orth_loop] in H. inversion H; subst. splits; try lia; try exact Hk; try (intros; lia); try (left; lia); cbn [length]; lia.
      - cbn [orth_loop] in H. destruct (keep_going Op (err_at k) tol) eqn:Hg.
        + destruct (qr k n (mmul Op n A Q)) as [Qn| |] eqn:Hq; try discriminate.
          assert (err_at (S k) = Some (rel_change Op n Q Qn)) as Herr.
          { cbn [err_at change iterate]. rewrite Hk, Hq. reflexivity. }
          rewrite <- Herr in H.
          destruct (orth_loop Op qr fuel (S k) n A Qn (err_at (S k)) tol) as [[o qs'] it'] eqn:Hrec.
          inversion H; subst o qs it'. clear H.
          assert (iterate (S k) = Some Qn) as HSk by (cbn [iterate]; rewrite Hk, Hq; reflexivity).
          destruct (IH (S k) Qn Q' qs' it HSk Hrec) as (I1 & I2 & I3 & I4 & I5 & I6).
          split; [lia|]. split; [lia|]. split; [exact I3|]. split; [|split].
          * intros j Hj1 Hj2. destruct (Nat.eq_dec j k) as [->|Hne]; [exact Hg|apply I4; lia].
          * destruct I5 as [->|I5]; [left; lia|right; exact I5].
          * cbn [length]; lia.
        + inversion H; subst. splits; try lia; try exact Hk; try (intros; lia); try (right; exact Hg); cbn [length]; lia.
    Qed.

    (* what a successful run of the QR path returns *)
    Lemma orth_iter_inv dt mi sh dt' Qres :
      is_zero_mat Op n E = false ->
      r_out (orthogonal_iterations Op eigh qr argsort dt n A E mi tol) = Ok sh dt' Qres ->
      exists k Qk qs,
        orth_loop Op qr (Z.to_nat mi) 0 n A E None tol = (LDone Qk, qs, k)
        /\ sh = [n; n] /\ dt' = dt /\ Qres = permute_cols Qk (argsort n (rayleigh Op n A Qk))
        /\ orthogonal_iterations Op eigh qr argsort dt n A E mi tol = mkRes (Ok sh dt' Qres) [] qs k.
    Proof.
      intros Hz. unfold orthogonal_iterations. rewrite Hz.
      destruct (orth_loop Op qr (Z.to_nat mi) 0 n A E None tol) as [[o qs] it] eqn:Hl.
      destruct o as [Qk| |]; cbn [r_out]; intros H; inversion H; subst.
      exists it, Qk, qs. splits; reflexivity.
    Qed.

    (* THEOREM: the result is the k-th orthogonal-iteration iterate with its columns permuted by the argsort of
       its Rayleigh quotients, k being the iteration count the loop rule determines; k qr calls were made *)
    Theorem qr_iter_is_permuted_iterate dt mi sh dt' Qres :
      is_zero_mat Op n E = false ->
      r_out (orthogonal_iterations Op eigh qr argsort dt n A E mi tol) = Ok sh dt' Qres ->
      exists k Qk,
        loop_rule (Z.to_nat mi) k /\ iterate k = Some Qk
        /\ sh = [n; n] /\ dt' = dt /\ Qres = permute_cols Qk (argsort n (rayleigh Op n A Qk))
        /\ r_iters (orthogonal_iterations Op eigh qr argsort dt n A E mi tol) = k
        /\ length (r_qrq (orthogonal_iterations Op eigh qr argsort dt n A E mi tol)) = k
        /\ r_eighq (orthogonal_iterations Op eigh qr argsort dt n A E mi tol) = [].
    Proof.
      intros Hz H. destruct (orth_iter_inv dt mi sh dt' Qres Hz H) as (k & Qk & qs & Hl & -> & -> & -> & Hres).
      exists k, Qk. change None with (err_at 0) in Hl.
      destruct (orth_loop_spec _ 0 E Qk qs k eq_refl Hl) as (I1 & I2 & I3 & I4 & I5 & I6).
      rewrite Hres. cbn [r_iters r_qrq r_eighq]. unfold loop_rule. splits; try reflexivity; try lia; try exact I3.
      - intros j Hj1 Hj2. specialize (I4 j (Nat.le_0_l j) Hj2). apply keep_going_err_at in I4. destruct I4; [lia|assumption].
      - destruct I5 as [->|I5]; [left; reflexivity|right].
        destruct k as [|k]; [cbn [err_at keep_going ffinite R_ops orb] in I5; discriminate|].
        split; [lia|]. cbn [err_at keep_going fltb R_ops] in I5.
        destruct (Rle_or_lt (change (S k)) tol) as [Hc|Hc]; [exact Hc|]. apply Rltb_true in Hc. congruence.
    Qed.

    (* THEOREM: at least one and at most max_iterations iterations (when max_iterations >= 1); none when it is <= 0;
       the loop stops at the FIRST iteration whose relative change is <= tolerance *)
    Theorem qr_loop_bounds dt mi sh dt' Qres :
      is_zero_mat Op n E = false ->
      r_out (orthogonal_iterations Op eigh qr argsort dt n A E mi tol) = Ok sh dt' Qres ->
      let k := r_iters (orthogonal_iterations Op eigh qr argsort dt n A E mi tol) in
      ((1 <= mi)%Z -> (1 <= k)%nat /\ (Z.of_nat k <= mi)%Z)
      /\ ((mi <= 0)%Z -> k = 0%nat)
      /\ (forall j, (1 <= j)%nat -> (j < k)%nat -> tol < change j)
      /\ ((Z.of_nat k < mi)%Z -> change k <= tol)
      /\ (forall k', loop_rule (Z.to_nat mi) k' -> k' = k).
    Proof.
      intros Hz H. destruct (qr_iter_is_permuted_iterate dt mi sh dt' Qres Hz H) as (k & Qk & Hr & _ & _ & _ & _ & Hk & _).
      rewrite Hk. cbn zeta. pose proof Hr as (H1 & H2 & H3). splits.
      - intros Hmi. destruct H3 as [->|[H3 _]]; lia.
      - lia.
      - exact H2.
      - intros Hlt. destruct H3 as [->|[_ H3]]; [lia|exact H3].
      - intros k' Hk'. apply (loop_rule_unique _ _ _ Hk' Hr).
    Qed.

    Lemma iterate_S_orth j Q : iterate (S j) = Some Q -> morth_cols Op n Q.
    Proof.
      cbn [iterate]. destruct (iterate j) as [Qj|]; [|discriminate].
      destruct (qr j n (mmul Op n A Qj)) as [Q'| |] eqn:Hq; try discriminate.
      intros H; inversion H; subst. apply (qr_contract _ _ _ _ Hq).
    Qed.

    (* THEOREM: a column permutation of an orthonormal matrix, hence orthonormal *)
    Theorem qr_iter_orthonormal dt mi sh dt' Qres :
      is_zero_mat Op n E = false ->
      ((1 <= mi)%Z \/ morth_cols Op n E) ->
      r_out (orthogonal_iterations Op eigh qr argsort dt n A E mi tol) = Ok sh dt' Qres ->
      exists Qk p, Permutation p (seq 0 n) /\ morth_cols Op n Qk /\ Qres = permute_cols Qk p /\ morth_cols Op n Qres.
    Proof.
      intros Hz Hmi H. destruct (qr_iter_is_permuted_iterate dt mi sh dt' Qres Hz H) as (k & Qk & Hr & Hit & _ & _ & -> & _).
      assert (morth_cols Op n Qk) as HQk.
      { destruct k as [|k]; [|apply (iterate_S_orth k Qk Hit)].
        cbn [iterate] in Hit. inversion Hit; subst Qk. destruct Hmi as [Hmi|Hmi]; [|exact Hmi].
        destruct Hr as (_ & _ & [Hr|[Hr _]]); lia. }
      destruct (argsort_contract n (rayleigh Op n A Qk)) as [Hp _].
      exists Qk, (argsort n (rayleigh Op n A Qk)). splits; try assumption; [reflexivity|].
      apply ev_permute_cols_orth; assumption.
    Qed.

    (* THEOREM: the columns of the result are in ascending Rayleigh quotient q_j^T A q_j *)
    Theorem qr_sorted_by_rayleigh dt mi sh dt' Qres :
      is_zero_mat Op n E = false ->
      r_out (orthogonal_iterations Op eigh qr argsort dt n A E mi tol) = Ok sh dt' Qres ->
      forall i j, (i < j)%nat -> (j < n)%nat -> rq rnd n A Qres i <= rq rnd n A Qres j.
    Proof.
      intros Hz H i j Hij Hj. destruct (orth_iter_inv dt mi sh dt' Qres Hz H) as (k & Qk & qs & _ & _ & _ & -> & _).
      destruct (argsort_contract n (rayleigh Op n A Qk)) as [Hp Hs].
      specialize (Hs i j Hij Hj). unfold rq. rewrite !mcol_permute_cols.
      rewrite !rayleigh_get in Hs by (apply (perm_seq_lt n _ _ Hp); lia). exact Hs.
    Qed.
  End Loop.


  (* ---- an exact eigenbasis is left fixed up to column signs ----------------------------------------- *)
  Lemma iterate_eigenbasis n A Q0 L :
    eigenbasis rnd n A L Q0 -> (forall i, (i < n)%nat -> L i <> 0) ->
    forall j Qj, iterate n A Q0 j = Some Qj -> exists s, signs n s /\ meq n Qj (col_signs Q0 s).
  Proof.
    intros HE HL. induction j as [|j IH]; intros Qj Hj.
    - cbn [iterate] in Hj. inversion Hj; subst. exists (fun _ => 1). split; [intros k _; left; reflexivity|].
      intros i k _ _. unfold col_signs. lra.
    - cbn [iterate] in Hj. destruct (iterate n A Q0 j) as [Q|] eqn:Hit; [|discriminate].
      destruct (qr j n (mmul Op n A Q)) as [Q'| |] eqn:Hq; try discriminate. inversion Hj; subst Q'.
      destruct (IH Q eq_refl) as (s & Hs & HQ).
      assert (eigenbasis rnd n A L Q) as HEQ.
      { apply (eigenbasis_meq rnd n A L (col_signs Q0 s)); [symmetry; exact HQ|]. apply eigenbasis_col_signs; assumption. }
      destruct (qr_step_signs rnd n A L Q Qj HEQ HL (qr_contract _ _ _ _ Hq)) as (s' & Hs' & HQj).
      destruct (col_signs_compose n Q0 s s' Hs Hs') as [Hss Hcomp].
      exists (fun k => s k * s' k). split; [exact Hss|].
      rewrite HQj. rewrite (col_signs_meq n Q (col_signs Q0 s) s' HQ). exact Hcomp.
  Qed.

  (* THEOREM.  A Q0 = Q0 diag(L), Q0 orthonormal, L without zero (e.g. A positive definite) and strictly ascending:
     whatever max_iterations and tolerance, the QR method started at Q0 returns Q0 diag(+-1). *)
  Theorem qr_fixes_eigenbasis n A Q0 L tol dt mi sh dt' Qres :
    (1 <= n)%nat ->
    morth_cols Op n Q0 -> meq n (mmul Op n A Q0) (mmul Op n Q0 (mdiag Op L)) ->
    (forall i, (i < n)%nat -> L i <> 0) -> strictly_ascending n L ->
    r_out (orthogonal_iterations Op eigh qr argsort dt n A Q0 mi tol) = Ok sh dt' Qres ->
    exists s, signs n s /\ meq n Qres (col_signs Q0 s).
  Proof.
    intros Hn HQ0 HA HL Hasc H.
    assert (is_zero_mat Op n Q0 = false) as Hz by (apply (orth_not_zero rnd); assumption).
    destruct (qr_iter_is_permuted_iterate n A Q0 tol dt mi sh dt' Qres Hz H) as (k & Qk & _ & Hit & _ & _ & -> & _).
    assert (eigenbasis rnd n A L Q0) as HE by (split; assumption).
    destruct (iterate_eigenbasis n A Q0 L HE HL k Qk Hit) as (s & Hs & HQk).
    exists s. split; [exact Hs|]. rewrite <- HQk.
    assert (eigenbasis rnd n A L Qk) as [HEk1 HEk2].
    { apply (eigenbasis_meq rnd n A L (col_signs Q0 s)); [symmetry; exact HQk|]. apply eigenbasis_col_signs; assumption. }
    apply ev_permute_cols_id.
    apply (argsort_of_strictly_ascending n L); [|exact Hasc].
    destruct (argsort_contract n (rayleigh Op n A Qk)) as [Hp Hsort]. split; [exact Hp|].
    intros i j Hij Hj. specialize (Hsort i j Hij Hj).
    rewrite !(rayleigh_get rnd) in Hsort by (apply (perm_seq_lt n _ _ Hp); lia).
    rewrite !(rq_eigenbasis rnd n A Qk L) in Hsort by (try assumption; apply (perm_seq_lt n _ _ Hp); lia).
    exact Hsort.
  Qed.


  (* ---- the same theorems stated on the entry point matrix_eigenvectors (QRConfig, non-zero estimate) ---- *)
  Lemma eigvecs_qr_path n dt A E mi tol : n <> 1%nat ->
    eigvecs [n; n] dt A (Some E) (QRCfg mi tol) false = orthogonal_iterations Op eigh qr argsort dt n A E mi tol.
  Proof.
    intros Hn. unfold matrix_eigenvectors. rewrite numel_square_1.
    apply Nat.eqb_neq in Hn. rewrite Hn, Nat.eqb_refl. reflexivity.
  Qed.

  Notation qr_run n dt A E mi tol := (eigvecs [n; n] dt A (Some E) (QRCfg mi tol) false).

  Theorem mev_qr_is_permuted_iterate n A E tol dt mi sh dt' Qres :
    n <> 1%nat -> is_zero_mat Op n E = false -> r_out (qr_run n dt A E mi tol) = Ok sh dt' Qres ->
    exists k Qk,
      loop_rule n A E tol (Z.to_nat mi) k /\ iterate n A E k = Some Qk
      /\ sh = [n; n] /\ dt' = dt /\ Qres = permute_cols Qk (argsort n (rayleigh Op n A Qk))
      /\ r_iters (qr_run n dt A E mi tol) = k /\ length (r_qrq (qr_run n dt A E mi tol)) = k
      /\ r_eighq (qr_run n dt A E mi tol) = [].
  Proof. intros Hn. rewrite (eigvecs_qr_path n dt A E mi tol Hn). apply qr_iter_is_permuted_iterate. Qed.

  Theorem mev_qr_loop_bounds n A E tol dt mi sh dt' Qres :
    n <> 1%nat -> is_zero_mat Op n E = false -> r_out (qr_run n dt A E mi tol) = Ok sh dt' Qres ->
    let k := r_iters (qr_run n dt A E mi tol) in
    ((1 <= mi)%Z -> (1 <= k)%nat /\ (Z.of_nat k <= mi)%Z)
    /\ ((mi <= 0)%Z -> k = 0%nat)
    /\ (forall j, (1 <= j)%nat -> (j < k)%nat -> tol < change n A E j)
    /\ ((Z.of_nat k < mi)%Z -> change n A E k <= tol)
    /\ (forall k', loop_rule n A E tol (Z.to_nat mi) k' -> k' = k).
  Proof. intros Hn. rewrite (eigvecs_qr_path n dt A E mi tol Hn). apply qr_loop_bounds. Qed.

  Theorem mev_qr_iter_orthonormal n A E tol dt mi sh dt' Qres :
    n <> 1%nat -> is_zero_mat Op n E = false -> ((1 <= mi)%Z \/ morth_cols Op n E) ->
    r_out (qr_run n dt A E mi tol) = Ok sh dt' Qres ->
    exists Qk p, Permutation p (seq 0 n) /\ morth_cols Op n Qk /\ Qres = permute_cols Qk p /\ morth_cols Op n Qres.
  Proof. intros Hn. rewrite (eigvecs_qr_path n dt A E mi tol Hn). apply qr_iter_orthonormal. Qed.

  Theorem mev_qr_sorted_by_rayleigh n A E tol dt mi sh dt' Qres :
    n <> 1%nat -> is_zero_mat Op n E = false -> r_out (qr_run n dt A E mi tol) = Ok sh dt' Qres ->
    forall i j, (i < j)%nat -> (j < n)%nat -> rq rnd n A Qres i <= rq rnd n A Qres j.
  Proof. intros Hn. rewrite (eigvecs_qr_path n dt A E mi tol Hn). apply qr_sorted_by_rayleigh. Qed.

  Theorem mev_qr_fixes_eigenbasis n A Q0 L tol dt mi sh dt' Qres :
    (2 <= n)%nat ->
    morth_cols Op n Q0 -> meq n (mmul Op n A Q0) (mmul Op n Q0 (mdiag Op L)) ->
    (forall i, (i < n)%nat -> L i <> 0) -> strictly_ascending n L ->
    r_out (qr_run n dt A Q0 mi tol) = Ok sh dt' Qres ->
    exists s, signs n s /\ meq n Qres (col_signs Q0 s).
  Proof.
    intros Hn. rewrite (eigvecs_qr_path n dt A Q0 mi tol) by lia. apply qr_fixes_eigenbasis. lia.
  Qed.

End Theorems.

(* ====================================================================== the executable argsort meets its contract *)
Section InsertionSort.
  Variable rnd : R -> R.
  Notation Op := (R_ops rnd).

  Lemma insert_idx_perm (v : vec R) x l : Permutation (insert_idx Op v x l) (x :: l).
  Proof.
    induction l as [|y r IH]; cbn [insert_idx]; [apply Permutation_refl|].
    destruct (fleb Op (v x) (v y)); [apply Permutation_refl|].
    eapply Permutation_trans; [apply perm_skip; exact IH|apply perm_swap].
  Qed.

  Lemma isort_perm (v : vec R) l : Permutation (fold_right (insert_idx Op v) [] l) l.
  Proof.
    induction l as [|x l IH]; cbn [fold_right]; [apply Permutation_refl|].
    eapply Permutation_trans; [apply insert_idx_perm|apply perm_skip; exact IH].
  Qed.

  Definition le_by (v : vec R) (a b : nat) : Prop := v a <= v b.

  Lemma insert_idx_sorted (v : vec R) x l :
    StronglySorted (le_by v) l -> StronglySorted (le_by v) (insert_idx Op v x l).
  Proof.
    induction l as [|y r IH]; intros H; cbn [insert_idx].
    - constructor; constructor.
    - inversion H as [|? ? Hr Hy]; subst. cbn [fleb R_ops]. destruct (Rleb (v x) (v y)) eqn:E.
      + apply Rleb_true in E. constructor; [exact H|]. constructor; [exact E|].
        eapply Forall_impl; [|exact Hy]. intros z Hz. unfold le_by in *. lra.
      + assert (v y <= v x) as Hyx.
        { destruct (Rle_or_lt (v x) (v y)) as [Hc|Hc]; [apply Rleb_true in Hc; congruence|lra]. }
        constructor; [apply IH; exact Hr|].
        eapply Permutation_Forall; [apply Permutation_sym, insert_idx_perm|]. constructor; assumption.
  Qed.

  Lemma strongly_sorted_nth (v : vec R) l : StronglySorted (le_by v) l ->
    forall i j, (i < j)%nat -> (j < length l)%nat -> v (nth i l 0%nat) <= v (nth j l 0%nat).
  Proof.
    induction 1 as [|a l Hl IH Ha]; intros i j Hij Hj; [cbn in Hj; lia|].
    destruct j as [|j]; [lia|]. cbn [length] in Hj. destruct i as [|i]; cbn [nth].
    - rewrite Forall_forall in Ha. apply Ha. apply nth_In. lia.
    - apply IH; lia.
  Qed.

  (* the stable insertion sort is a valid argsort oracle: the argsort contract is satisfiable, for every n and v *)
  Theorem isort_argsort_spec n (v : vec R) : argsort_spec n v (isort_argsort Op n v).
  Proof.
    unfold isort_argsort. split; [apply isort_perm|].
    intros i j Hij Hj. apply strongly_sorted_nth; [|exact Hij|].
    - induction (seq 0 n) as [|x l IH]; cbn [fold_right]; [constructor|apply insert_idx_sorted; exact IH].
    - rewrite (Permutation_length (isort_perm v (seq 0 n))), seq_length. exact Hj.
  Qed.
End InsertionSort.

(* ====================================================================== non-vacuity: concrete oracles meeting the contracts *)
Section Examples.
  Variable rnd : R -> R.
  Notation Op := (R_ops rnd).

  Definition m22 (a b c d : R) : mat R :=
    fun i j => match i, j with
               | O, O => a | O, S O => b | S O, O => c | S O, S O => d
               | _, _ => 0
               end.
  Definition exQ : mat R := m22 (3/5) (-4/5) (4/5) (3/5).        (* a rotation *)
  Definition exA1 : mat R := m22 3 4 4 7.                          (* symmetric positive definite; = exQ exU1 *)
  Definition exU1 : mat R := m22 5 8 0 1.
  Definition exA2 : mat R := m22 41 (-12) (-12) 34.                (* = exQ diag(25,50) exQ^T *)
  Definition exL2 : vec R := fun i => match i with O => 25 | _ => 50 end.
  Definition exM2 : mat R := m22 15 (-40) 20 30.                   (* = exA2 exQ = exQ diag(25,50) *)
  Definition exU2 : mat R := m22 25 0 0 50.

  Definition is22 (M : mat R) (a b c d : R) : bool :=
    Reqb (M 0 0)%nat a && Reqb (M 0 1)%nat b && Reqb (M 1 0)%nat c && Reqb (M 1 1)%nat d.
  Lemma is22_meq M a b c d : is22 M a b c d = true -> meq 2 M (m22 a b c d).
  Proof.
    unfold is22. intros H. repeat (apply andb_true_iff in H; destruct H as [H ?]).
    apply Reqb_true in H, H0, H1, H2. intros i j Hi Hj.
    destruct i as [|[|i]]; [| |lia]; (destruct j as [|[|j]]; [| |lia]); cbn [m22]; assumption.
  Qed.
  Lemma is22_of_meq M a b c d : meq 2 M (m22 a b c d) -> is22 M a b c d = true.
  Proof.
    intros H. unfold is22. rewrite (H 0 0)%nat, (H 0 1)%nat, (H 1 0)%nat, (H 1 1)%nat by lia. cbn [m22].
    repeat (apply andb_true_iff; split); apply Reqb_true; reflexivity.
  Qed.

  (* entries of 2 x 2 products *)
  Ltac two i j Hi Hj := intros i j Hi Hj; destruct i as [|[|i]]; [| |lia]; (destruct j as [|[|j]]; [| |lia]).
  Ltac sum2 := rewrite ?(rsum_S rnd), ?(rsum_O rnd); unfold mtrans, mid, mdiag, exQ, exA1, exU1, exA2, exL2, exM2, exU2, m22; cbn [Nat.eqb f0 f1 R_ops].

  Lemma exQ_orth : morth_cols Op 2 exQ.
  Proof. two i j Hi Hj; rewrite rmmul_get by lia; sum2; lra. Qed.
  Lemma exA1_qr : meq 2 exA1 (mmul Op 2 exQ exU1).
  Proof. two i j Hi Hj; rewrite rmmul_get by lia; sum2; lra. Qed.
  Lemma exM2_qr : meq 2 exM2 (mmul Op 2 exQ exU2).
  Proof. two i j Hi Hj; rewrite rmmul_get by lia; sum2; lra. Qed.
  Lemma exA2_spec : meq 2 exA2 (spec rnd 2 exQ exL2).
  Proof. two i j Hi Hj; rewrite spec_get by lia; sum2; lra. Qed.
  Lemma exA2_eig : meq 2 (mmul Op 2 exA2 exQ) (mmul Op 2 exQ (mdiag Op exL2)).
  Proof. two i j Hi Hj; rewrite !rmmul_get by lia; sum2; lra. Qed.
  Lemma exA2_exQ : meq 2 (mmul Op 2 exA2 exQ) exM2.
  Proof. two i j Hi Hj; rewrite !rmmul_get by lia; sum2; lra. Qed.
  Lemma exA1_id : meq 2 (mmul Op 2 exA1 (mid Op)) exA1.
  Proof. apply mmul_id_r. Qed.
  Lemma upper_m22 a b d : upper_tri 2 (m22 a b 0 d).
  Proof. intros i j Hi Hj Hji. destruct i as [|[|i]]; [lia| |lia]. destruct j as [|j]; [reflexivity|lia]. Qed.

  (* the example oracles: answer on the matrices above (any call number), raise otherwise *)
  Definition ex_qr : nat -> nat -> mat R -> reply (mat R) :=
    fun _ n M => if (n =? 2)%nat && (is22 M 3 4 4 7 || is22 M 15 (-40) 20 30) then Answer exQ else Fails.
  Definition ex_eigh : nat -> nat -> mat R -> reply (vec R * mat R) :=
    fun _ n M => if (n =? 2)%nat && is22 M 41 (-12) (-12) 34 then Answer (exL2, exQ) else Fails.

  Example ex_qr_contract : forall k n M Q, ex_qr k n M = Answer Q -> qr_spec rnd n M Q.
  Proof.
    intros k n M Q. unfold ex_qr. destruct ((n =? 2)%nat && _) eqn:C; [|discriminate]. intros H; inversion H; subst Q.
    apply andb_true_iff in C. destruct C as [Hn C]. apply Nat.eqb_eq in Hn. subst n.
    split; [apply exQ_orth|]. apply orb_true_iff in C. destruct C as [C|C]; apply is22_meq in C.
    - exists exU1. split; [apply upper_m22|]. rewrite C. apply exA1_qr.
    - exists exU2. split; [apply upper_m22|]. rewrite C. apply exM2_qr.
  Qed.
  Example ex_eigh_contract : forall k n A L Q, ex_eigh k n A = Answer (L, Q) -> eigh_spec rnd n A L Q.
  Proof.
    intros k n A L Q. unfold ex_eigh. destruct ((n =? 2)%nat && _) eqn:C; [|discriminate]. intros H; inversion H; subst L Q.
    apply andb_true_iff in C. destruct C as [Hn C]. apply Nat.eqb_eq in Hn. subst n. apply is22_meq in C.
    split; [apply exQ_orth|]. split; [rewrite C; apply exA2_spec|].
    intros i j Hij Hj. destruct i as [|i]; [|lia]. destruct j as [|[|j]]; [lia| |lia]. cbn [exL2]. lra.
  Qed.
  Definition ex_argsort : nat -> vec R -> list nat := isort_argsort Op.
  Example ex_argsort_contract : forall n v, argsort_spec n v (ex_argsort n v).
  Proof. apply isort_argsort_spec. Qed.

  Lemma ex_qr_answers M : meq 2 M exA1 \/ meq 2 M exM2 -> forall k, ex_qr k 2 M = Answer exQ.
  Proof.
    intros H k. unfold ex_qr. cbn [Nat.eqb andb].
    destruct H as [H|H]; apply is22_of_meq in H; rewrite H; [reflexivity|rewrite orb_true_r; reflexivity].
  Qed.

  Notation ex_run := (matrix_eigenvectors Op ex_eigh ex_qr ex_argsort).

  (* the eigendecomposition branch on exA2: hypotheses of eigvec_dispatch hold and the conclusion is not vacuous *)
  Example ex_dispatch_eigh :
    ex_run [2; 2]%nat F32 exA2 None (EighCfg true) false = mkRes (Ok [2; 2]%nat F32 exQ) [exA2] [] 0
    /\ morth_cols Op 2 exQ /\ meq 2 (mmul Op 2 (mtrans exQ) (mmul Op 2 exA2 exQ)) (mdiag Op exL2) /\ ascending 2 exL2.
  Proof.
    pose proof (eigvec_dispatch rnd ex_eigh ex_qr ex_argsort ex_eigh_contract) as (_ & _ & _ & _ & H & _).
    apply (H 2%nat F32 exA2 None true exL2 exQ); [lia|].
    unfold ex_eigh. cbn [Nat.eqb andb]. rewrite is22_of_meq; [reflexivity|]. intros i j _ _. reflexivity.
  Qed.

  (* one QR iteration on exA1 from the identity: the run succeeds (so the hypotheses of the loop theorems are
     satisfiable), makes exactly one iteration, and the theorems give orthonormality and the Rayleigh order *)
  Example ex_qr_iteration :
    exists Qres,
      r_out (ex_run [2; 2]%nat F64 exA1 (Some (mid Op)) (QRCfg 1 0) false) = Ok [2; 2]%nat F64 Qres
      /\ r_iters (ex_run [2; 2]%nat F64 exA1 (Some (mid Op)) (QRCfg 1 0) false) = 1%nat
      /\ morth_cols Op 2 Qres
      /\ rq rnd 2 exA1 Qres 0 <= rq rnd 2 exA1 Qres 1.
  Proof.
    assert (is_zero_mat Op 2 (mid Op) = false) as Hz.
    { apply (orth_not_zero rnd); [lia|]. apply morth_id. }
    assert (exists Qres, r_out (ex_run [2; 2]%nat F64 exA1 (Some (mid Op)) (QRCfg 1 0) false) = Ok [2; 2]%nat F64 Qres) as [Qres HQ].
    { rewrite (eigvecs_qr_path rnd) by lia. unfold orthogonal_iterations. rewrite Hz.
      change (Z.to_nat 1) with 1%nat. cbn [orth_loop keep_going ffinite R_ops orb].
      rewrite (ex_qr_answers (mmul Op 2 exA1 (mid Op)) (or_introl exA1_id)). cbn [r_out]. eexists. reflexivity. }
    exists Qres. split; [exact HQ|].
    pose proof (mev_qr_loop_bounds rnd ex_eigh ex_qr ex_argsort 2 exA1 (mid Op) 0 F64 1 _ _ _ ltac:(lia) Hz HQ) as (Hb & _).
    destruct (mev_qr_iter_orthonormal rnd ex_eigh ex_qr ex_argsort ex_qr_contract ex_argsort_contract 2 exA1 (mid Op) 0 F64 1 _ _ _
                ltac:(lia) Hz (or_introl (Z.le_refl 1%Z)) HQ) as (_ & _ & _ & _ & _ & Horth).
    pose proof (mev_qr_sorted_by_rayleigh rnd ex_eigh ex_qr ex_argsort ex_argsort_contract 2 exA1 (mid Op) 0 F64 1 _ _ _
                ltac:(lia) Hz HQ 0%nat 1%nat ltac:(lia) ltac:(lia)) as Hs.
    split; [|split; [exact Horth|exact Hs]].
    destruct (Hb ltac:(lia)) as [H1 H2]. lia.
  Qed.

  (* three QR iterations started at the exact eigenbasis exQ of exA2 (eigenvalues 25 < 50): all hypotheses of
     qr_fixes_eigenbasis hold, the run succeeds, and the result is exQ up to column signs *)
  Example ex_fixed_eigenbasis :
    exists Qres s,
      r_out (ex_run [2; 2]%nat F64 exA2 (Some exQ) (QRCfg 3 0) false) = Ok [2; 2]%nat F64 Qres
      /\ signs 2 s /\ meq 2 Qres (col_signs exQ s).
  Proof.
    assert (strictly_ascending 2 exL2) as Hasc.
    { intros i j Hij Hj. destruct i as [|i]; [|lia]. destruct j as [|[|j]]; [lia| |lia]. cbn [exL2]. lra. }
    assert (forall i, (i < 2)%nat -> exL2 i <> 0) as HL.
    { intros i Hi. destruct i as [|i]; cbn [exL2]; lra. }
    assert (is_zero_mat Op 2 exQ = false) as Hz by (apply (orth_not_zero rnd); [lia|apply exQ_orth]).
    assert (forall k, ex_qr k 2 (mmul Op 2 exA2 exQ) = Answer exQ) as Hq by (apply ex_qr_answers; right; apply exA2_exQ).
    assert (exists Qres, r_out (ex_run [2; 2]%nat F64 exA2 (Some exQ) (QRCfg 3 0) false) = Ok [2; 2]%nat F64 Qres) as [Qres HQ].
    { rewrite (eigvecs_qr_path rnd) by lia. unfold orthogonal_iterations. rewrite Hz.
      change (Z.to_nat 3) with 3%nat. cbn [orth_loop keep_going ffinite R_ops orb]. rewrite !Hq.
      repeat match goal with |- context [if ?b then _ else _] => destruct b end; cbn [r_out]; eexists; reflexivity. }
    destruct (mev_qr_fixes_eigenbasis rnd ex_eigh ex_qr ex_argsort ex_qr_contract ex_argsort_contract 2 exA2 exQ exL2 0 F64 3 _ _ _
                ltac:(lia) exQ_orth exA2_eig HL Hasc HQ) as (s & Hs & Hm).
    exists Qres, s. split; [exact HQ|]. split; assumption.
  Qed.

  Theorem contracts_satisfiable :
    exists eigh qr argsort,
      (forall k n A L Q, eigh k n A = Answer (L, Q) -> eigh_spec rnd n A L Q)
      /\ (forall k n M Q, qr k n M = Answer Q -> qr_spec rnd n M Q)
      /\ (forall n v, argsort_spec n v (argsort n v))
      /\ (matrix_eigenvectors Op eigh qr argsort [2; 2]%nat F32 exA2 None (EighCfg true) false
          = mkRes (Ok [2; 2]%nat F32 exQ) [exA2] [] 0)
      /\ (exists Qres, r_out (matrix_eigenvectors Op eigh qr argsort [2; 2]%nat F64 exA1 (Some (mid Op)) (QRCfg 1 0) false)
                       = Ok [2; 2]%nat F64 Qres
                       /\ r_iters (matrix_eigenvectors Op eigh qr argsort [2; 2]%nat F64 exA1 (Some (mid Op)) (QRCfg 1 0) false) = 1%nat)
      /\ (exists Qres s, r_out (matrix_eigenvectors Op eigh qr argsort [2; 2]%nat F64 exA2 (Some exQ) (QRCfg 3 0) false)
                         = Ok [2; 2]%nat F64 Qres
                         /\ signs 2 s /\ meq 2 Qres (col_signs exQ s)).
  Proof.
    exists ex_eigh, ex_qr, ex_argsort.
    split; [exact ex_eigh_contract|]. split; [exact ex_qr_contract|]. split; [exact ex_argsort_contract|].
    split; [apply ex_dispatch_eigh|]. split.
    - destruct ex_qr_iteration as (Qres & H1 & H2 & _). exists Qres. split; assumption.
    - exact ex_fixed_eigenbasis.
  Qed.
End Examples.
