(* C08 - what the correspondence check executes (vm_compute inside coqc).

   C08_fs_agree   the FullyShard model of one rank against what the implementation's distributor holds: shapes of the local
                  shards, which parameters are skipped, _global_num_blocks_per_param, the block infos (position of .param in
                  PARAMS, composable_block_ids incl. the rank in the block name), per step the global gradient selector,
                  the step counter and that only local shards of parameters with a gradient changed; the number of blocks comes from the C05 model
                  (Blocking.blocks: merge_small_dims + multi_dim_split on the LOCAL shape).
   C08_hy_agree   one column (shard coordinate s) of a HybridShard mesh against the C06 cluster model of that column
                  (DistExec: exact float32 arithmetic on bit patterns, recorded search directions as oracle, the small-step
                  scheduler and the lock-step run): per-replica block values after every step, all-gather logs (global rank
                  numbers), hung ranks; the block-level gradient presence of the column is computed by the FullyShard model
                  from the parameter-level presence; every rank's process-group creations = the user mesh's + hy_ctor_log. *)
From Coq Require Import List ZArith Bool Arith Lia.
From Shampoo Require Import Show SplitRecovery Blocking.
From Shampoo Require Import Masks Dist DistChecker DistExec FullyShard FullyShardChecker.
Import ListNotations.
Close Scope Z_scope.
Open Scope nat_scope.

Definition nblk_of (maxdim : Z) (merge : bool) (sh : list Z) : nat := length (Blocking.blocks sh maxdim merge).

Definition shapes_eqb : list (list Z) -> list (list Z) -> bool := list_eqb (list_eqb Z.eqb).
Definition bools_eqb : list bool -> list bool -> bool := list_eqb Bool.eqb.
Definition nats_eqb' : list nat -> list nat -> bool := list_eqb Nat.eqb.

Record fs_struct := mkFsStruct {
  fx_lshapes : list (list Z);     (* p.to_local().shape for p in PARAMS *)
  fx_ctor_failed : bool;          (* the constructor raised the `local_blocked_params` AssertionError *)
  fx_nbs : list nat;              (* _global_num_blocks_per_param *)
  fx_binfo : list binfo;          (* local_block_info_list *)
  fx_ranks : list nat;            (* r of "rank_<r>-block_<k>" for every block info *)
  fx_sel : list (list bool);      (* completed step -> _global_grad_selector *)
  fx_stepc : list Z;              (* completed step -> group step counter *)
  fx_changed : list (list bool) }.  (* completed step -> parameter -> the local shard differs from before the step *)

Definition pg_of (pr : list bool) : list (option unit) := map (fun b : bool => if b then Some tt else None) pr.

(* model of the per-step observables: selector, counter, changed flags *)
Fixpoint fs_trace (ls : list (list Z)) (nbs : list nat) (t : Z) (presence : list (list bool)) : list (list bool * Z * list bool) :=
  match presence with
  | [] => []
  | pr :: rest =>
      let sel := expand (map is_some (fs_grads ls (pg_of pr))) nbs in
      let t' := if existsb (fun b => b) sel then (t + 1)%Z else t in
      (sel, t', map (fun x : list Z * bool => nonempty (fst x) && snd x) (combine ls pr)) :: fs_trace ls nbs t' rest
  end.

Definition is_prefix {A} (eqb : A -> A -> bool) (obs model : list A) : bool := list_eqb eqb obs (firstn (length obs) model).

(* `owned` = None for FullyShard (every block is local), Some selector for a HybridShard rank; `full` = also compare the
   step counter and the changed flags (FullyShard: the rank's own FullyShard model predicts them) *)
Definition C08_fs_agree (gshapes : list (list Z)) (n r : nat) (maxdim : Z) (merge : bool) (presence : list (list bool))
           (owned : option (list bool)) (full : bool) (x : fs_struct) : bool :=
  let ls := map (local_shape n r) gshapes in
  let nblk := nblk_of maxdim merge in
  let nbs := fs_nbs nblk ls in
  shapes_eqb (fx_lshapes x) ls
  && Bool.eqb (fx_ctor_failed x) (negb (fs_has_work ls))
  && (if fs_has_work ls then
        nats_eqb' (fx_nbs x) nbs
        && match fs_block_infos nblk ls with
           | Ok bis => list_eqb binfo_eqb (fx_binfo x) (match owned with Some sel => compress bis sel | None => bis end)
                       && (length (fx_ranks x) =? length (fx_binfo x))
           | Err _ => false
           end
        && forallb (Nat.eqb r) (fx_ranks x)
        && (let tr := fs_trace ls nbs 0%Z presence in
            is_prefix bools_eqb (fx_sel x) (map (fun y => fst (fst y)) tr)
            && (if full then
                  (length (fx_sel x) =? length presence)
                  && list_eqb Z.eqb (fx_stepc x) (map (fun y => snd (fst y)) tr)
                  (* a shard may only change when its parameter has a gradient and the shard is non-empty (a present
                     block's update can be exactly zero, e.g. before its first root computation: not required to change) *)
                  && forallb2 (forallb2 implb) (fx_changed x) (map (fun y => snd y) tr)
                else true))
      else true).

(* ---- HybridShard columns ------------------------------------------------------------------------------------------ *)
Definition glob_event (S s : nat) (ev : event) : event :=
  let g := map (fun i => i * S + s) in
  match ev with
  | EvAllGather l n => EvAllGather (g l) n
  | EvNewGroup l => EvNewGroup (g l)
  | EvMesh l => EvMesh (g l)
  | EvNewSubgroups k => EvNewSubgroups k
  end.

(* the user's mesh arange(R*S).view(R, S) as the simulator creates it: one group per column, then one per row *)
Definition user_mesh_events (R S : nat) : list event :=
  EvMesh (seq 0 (R * S))
  :: map (fun s => EvNewGroup (map (fun i => i * S + s) (seq 0 R))) (seq 0 S)
  ++ map (fun i => EvNewGroup (map (fun s => i * S + s) (seq 0 S))) (seq 0 R).

Section HyTrace.
  Variable P : params unit (list Z) unit.

  Definition plain0 (v0 b0 : snapshot) : cluster unit (list Z) :=
    tab (p_world P) (fun _ => mkR v0 (repeat tt (p_nb P)) b0 0%Z []).

  Definition hy_model_obs (h : history unit) (v0 b0 : snapshot) (fuel : nat) : observed :=
    let '(c, tr) := sched_trace P fuel (init_config P h (plain0 v0 b0)) (repeat [] (p_world P)) in
    mkObs tr (map (fun p => log (pst p)) c) (map waitingb c).

  Definition hy_lockstep_agree (h : history unit) (v0 b0 : snapshot) (final : list snapshot) : bool :=
    match ddp_run P h (plain0 v0 b0) with
    | Some cf => synced P h && list_eqb snapshot_eqb (map vals cf) final
    | None => negb (synced P h)
    end.
End HyTrace.

Definition column_history (S s : nat) (gshapes : list (list Z)) (maxdim : Z) (merge : bool) (presence : list (list bool))
  : history unit :=
  let ls := map (local_shape S s) gshapes in
  let nbs := fs_nbs (nblk_of maxdim merge) ls in
  map (fun pr => entry_of (expand (map is_some (fs_grads ls (pg_of pr))) nbs)) presence.

Definition C08_hy_agree (R S gs s : nat) (P : params unit (list Z) unit) (gshapes : list (list Z)) (maxdim : Z) (merge : bool)
           (presence : list (list bool)) (v0 b0 : snapshot) (py_starves : bool) (o : observed) : bool :=
  let ls := map (local_shape S s) gshapes in
  let nbs := fs_nbs (nblk_of maxdim merge) ls in
  let h := column_history S s gshapes maxdim merge presence in
  let fuel := 4 * (length h + 1) * (R + 1) in
  let m := hy_model_obs P h v0 b0 fuel in
  (p_world P =? R) && (p_gs P =? gs) && (p_nb P =? lsum nbs)
  && list_eqb snaps_eqb (o_snaps m) (o_snaps o)
  && list_eqb log_eqb (map (fun l => map (glob_event S s) (gathers l)) (o_logs m)) (map gathers (o_logs o))
  && list_eqb Bool.eqb (o_hung m) (o_hung o)
  && forallb (fun l => log_eqb (creations l) (user_mesh_events R S ++ hy_ctor_log R S gs)) (o_logs o)
  && Bool.eqb py_starves (negb (forallb (no_starv_entry P) h))
  && (if forallb negb (o_hung o)
      then hy_lockstep_agree P h v0 b0 (map (fun sn => last_or sn v0) (o_snaps o))
      else negb (synced P h)).

(* parameters stored in another dtype than float32 (float64 / bfloat16 / float16): the column's values are not recomputed
   in Coq (the exact arithmetic of DistExec is binary32); the model still predicts the all-gather logs, the creations and
   the hung ranks, and that every rank completed every step; the values are decided by the certified checker against the
   (rounded) FullyShard-only implementation run. *)
Definition C08_hy_agree_struct (R S gs s : nat) (P : params unit (list Z) unit) (gshapes : list (list Z)) (maxdim : Z) (merge : bool)
           (presence : list (list bool)) (py_starves : bool) (o : observed) : bool :=
  let ls := map (local_shape S s) gshapes in
  let nbs := fs_nbs (nblk_of maxdim merge) ls in
  let h := column_history S s gshapes maxdim merge presence in
  let fuel := 4 * (length h + 1) * (R + 1) in
  let m := hy_model_obs P h (repeat [] (p_nb P)) (repeat [] (p_nb P)) fuel in
  (p_world P =? R) && (p_gs P =? gs) && (p_nb P =? lsum nbs)
  && list_eqb Nat.eqb (map (@length snapshot) (o_snaps m)) (map (@length snapshot) (o_snaps o))
  && list_eqb log_eqb (map (fun l => map (glob_event S s) (gathers l)) (o_logs m)) (map gathers (o_logs o))
  && list_eqb Bool.eqb (o_hung m) (o_hung o)
  && forallb (fun l => log_eqb (creations l) (user_mesh_events R S ++ hy_ctor_log R S gs)) (o_logs o)
  && Bool.eqb py_starves (negb (forallb (no_starv_entry P) h)).
