(* C09 - certified checker: decides, on what was OBSERVED on the implementation for one case (one configuration, one
   history of T steps), whether the property holds there:
     - for every stop point k: the snapshots of the resumed run (right after load_distributed_state_dict, then after each
       remaining step) equal the snapshots k, k+1, ..., T of the uninterrupted run BIT FOR BIT (a snapshot = every parameter
       and every state tensor incl. the step counters, as int64 bit patterns);
     - the parameter keys of the state dict, the flat keys of every parameter and the param-group keys are unique;
     - every malformed/own checkpoint handed to load_distributed_state_dict had the outcome the property demands. *)
From Coq Require Import ZArith List Bool String.
From Shampoo Require Import StateDict StateDictProofs Checkpoint.
Import ListNotations.

Inductive mal_kind := MOwn | MDelKey | MUnknownParam | MGroupDrop | MGroupRename.

(* what the property demands *)
Definition expected (k : mal_kind) : outcome :=
  match k with
  | MOwn => OOk
  | MDelKey | MUnknownParam => OErr KeyError
  | MGroupDrop | MGroupRename => OErr ValueError
  end.

Record c09_obs := mkObs {
  o_unint : list (list Z);                   (* snapshot after i steps, i = 0..T *)
  o_resumed : list (nat * list (list Z));    (* (k, snapshots of the resumed run: after load, after each remaining step) *)
  o_pnames : list string;                    (* keys of state_dict["state"] *)
  o_keys : list (list xkey);                 (* per parameter: its flat keys (decoded), in iteration order *)
  o_gkeys : list string;                     (* keys of state_dict["param_groups"] *)
  o_mal : list (mal_kind * outcome) }.

Definition snaps_eqb (a b : list (list Z)) : bool := list_eqb (list_eqb Z.eqb) a b.

Definition C09_checkb (o : c09_obs) : bool :=
  forallb (fun kr => snaps_eqb (skipn (fst kr) (o_unint o)) (snd kr)) (o_resumed o)
  && nodupb String.eqb (o_pnames o)
  && forallb (nodupb xkey_eqb) (o_keys o)
  && nodupb String.eqb (o_gkeys o)
  && forallb (fun ko => outcome_eqb (expected (fst ko)) (snd ko)) (o_mal o).

Definition C09_spec (o : c09_obs) : Prop :=
  (forall k r, In (k, r) (o_resumed o) -> r = skipn k (o_unint o))
  /\ NoDup (o_pnames o)
  /\ (forall ks, In ks (o_keys o) -> NoDup ks)
  /\ NoDup (o_gkeys o)
  /\ (forall kind out, In (kind, out) (o_mal o) -> out = expected kind).

Lemma list_eqb_sound {A} (eqb : A -> A -> bool) (H : forall a b, eqb a b = true -> a = b) l1 :
  forall l2, list_eqb eqb l1 l2 = true -> l1 = l2.
Proof.
  induction l1 as [|a l1 IH]; intros [|b l2] E; cbn [list_eqb] in E; try discriminate; [reflexivity|].
  apply andb_true_iff in E as [E1 E2]. rewrite (H a b E1), (IH l2 E2). reflexivity.
Qed.

Lemma nodupb_sound_gen {A} (eqb : A -> A -> bool) (H : forall a, eqb a a = true) l : nodupb eqb l = true -> NoDup l.
Proof.
  induction l as [|a l IH]; cbn [nodupb]; intros E; [constructor|].
  apply andb_true_iff in E as [E1 E2]. constructor; [|apply IH; exact E2].
  intros Hin. apply negb_true_iff in E1.
  assert (existsb (eqb a) l = true) by (apply existsb_exists; exists a; split; [exact Hin|apply H]). congruence.
Qed.

Lemma err_eqb_sound a b : err_eqb a b = true -> a = b.
Proof. destruct a, b; cbn; intros H; try discriminate; reflexivity. Qed.

Lemma outcome_eqb_sound a b : outcome_eqb a b = true -> a = b.
Proof.
  destruct a, b; cbn [outcome_eqb]; intros H; try discriminate; try reflexivity.
  apply err_eqb_sound in H. subst. reflexivity.
Qed.

Theorem C09_checkb_sound o : C09_checkb o = true -> C09_spec o.
Proof.
  unfold C09_checkb, C09_spec. intros H.
  apply andb_true_iff in H as [H H5]. apply andb_true_iff in H as [H H4].
  apply andb_true_iff in H as [H H3]. apply andb_true_iff in H as [H1 H2].
  repeat split.
  - intros k r Hin. apply (proj1 (forallb_forall _ _) H1) in Hin. cbn [fst snd] in Hin. symmetry.
    apply (list_eqb_sound (list_eqb Z.eqb)); [|exact Hin]. intros a b E. apply (list_eqb_sound Z.eqb); [|exact E].
    intros x y Exy. apply Z.eqb_eq. exact Exy.
  - apply (nodupb_sound_gen String.eqb); [apply String.eqb_refl|exact H2].
  - intros ks Hin. apply (proj1 (forallb_forall _ _) H3) in Hin.
    apply (nodupb_sound_gen xkey_eqb); [intros a; apply xkey_eqb_eq; reflexivity|exact Hin].
  - apply (nodupb_sound_gen String.eqb); [apply String.eqb_refl|exact H4].
  - intros kind out Hin. apply (proj1 (forallb_forall _ _) H5) in Hin. cbn [fst snd] in Hin.
    symmetry. apply outcome_eqb_sound. exact Hin.
Qed.

(* the checker is not vacuous: it accepts a consistent observation and rejects each kind of inconsistency *)
Example C09_checkb_accepts :
  C09_checkb (mkObs [[1%Z]; [2%Z]; [3%Z]] [(0%nat, [[1%Z]; [2%Z]; [3%Z]]); (2%nat, [[3%Z]])] ["a"%string; "b"%string]
                    [[Some [KStr "step"]; Some [KStr "block_0"; KStr "momentum"]]] ["a/b"%string]
                    [(MOwn, OOk); (MDelKey, OErr KeyError); (MGroupDrop, OErr ValueError)]) = true.
Proof. vm_compute. reflexivity. Qed.

Example C09_checkb_rejects :
  C09_checkb (mkObs [[1%Z]; [2%Z]; [3%Z]] [(1%nat, [[2%Z]; [4%Z]])] [] [] [] []) = false
  /\ C09_checkb (mkObs [] [] [] [] [] [(MOwn, OErr KeyError)]) = false
  /\ C09_checkb (mkObs [] [] [] [] [] [(MDelKey, OOk)]) = false
  /\ C09_checkb (mkObs [] [] [] [[Some [KStr "step"]; Some [KStr "step"]]] [] []) = false.
Proof. vm_compute. repeat split. Qed.
