import torch
from distributed_shampoo.distributed_shampoo import DistributedShampoo
from distributed_shampoo.shampoo_types import EigenvalueCorrectedShampooPreconditionerConfig
from matrix_functions_types import QRConfig
torch.manual_seed(0)
p=torch.nn.Parameter(torch.randn(3,4).to(torch.bfloat16))
opt=DistributedShampoo([p],lr=0.01,betas=(0.9,0.99),start_preconditioning_step=1,precondition_frequency=1,
  preconditioner_config=EigenvalueCorrectedShampooPreconditionerConfig(amortized_computation_config=QRConfig()))
for t in range(1,8):
    p.grad=torch.randn(3,4).to(torch.bfloat16)
    try: opt.step()
    except Exception as e: print("step",t,type(e).__name__); break
else: print("ok 7 steps")
