# F6 (rank starvation): run with  PYTHONPATH=<repo>:/verif /venv/bin/python /verif/findings/F6_repro.py
# world=2, default DDPShampooConfig, three (4,) parameters -> blocks owned by group ranks [0,1,0]; at the second of
# three steps only parameters 0 and 2 have a gradient, so no block owned by rank 1 has one.
# Before the repair: rank 1 skips the all-gather and its step counter, rank 0 is left waiting, replicas diverge.
# After the repair:  outcome ok, step counters 3/3, replicas identical and equal to the single-process run.
from harness import c06
from distributed_shampoo.shampoo_types import STEP

spec = c06.F6_MINIMAL
ref = c06.run_reference(spec)
obs = c06.run_sim(spec)
print("outcome:", obs["outcome"], "| hung ranks:", [r for r, h in enumerate(obs["hung"]) if h], "| steps completed per rank:", [len(s) for s in obs["snaps"]])
print("all_gathers issued per rank:", [sum(1 for e in lg if e[0] == "all_gather") for lg in obs["logs"]])
print("replicas identical after every step:", all(s == obs["snaps"][0] for s in obs["snaps"]))
print("every rank equals the single-process run after every step:", all(s == ref["snaps"] for s in obs["snaps"]))
