import torch, logging
logging.disable(logging.CRITICAL)
from distributed_shampoo.distributed_shampoo import DistributedShampoo
def mk(p): return DistributedShampoo([p],lr=0.1,betas=(0.9,0.99),start_preconditioning_step=1,precondition_frequency=1)
torch.manual_seed(0)
p=torch.nn.Parameter(torch.randn(3,4)); o=mk(p); p.grad=torch.randn(3,4); o.step()
sd=o.distributed_state_dict(key_to_param=[("p",p)])
k='["block_0", "shampoo", "inv_factor_matrices", 0]'
assert k in sd["state"]["p"], list(sd["state"]["p"])
del sd["state"]["p"][k]
q=torch.nn.Parameter(p.detach().clone()); o2=mk(q)
try:
    o2.load_distributed_state_dict(sd,key_to_param=[("p",q)]); print("load with a missing inner entry: silently accepted")
except KeyError as e: print("load with a missing inner entry: KeyError")
