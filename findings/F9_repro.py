import torch
from fractions import Fraction
import matrix_functions as mf
print(mf.matrix_inverse_root(torch.tensor([[-1e-3]], dtype=torch.float64), Fraction(2), epsilon=1e-6))   # 1000 on the repaired tree, nan before
