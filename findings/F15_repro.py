# F15  C02:f16-zero-gradient-norm-transfer-nan - run: PYTHONPATH=/repo /venv/bin/python findings/F15_repro.py  (exit 1 on the pre-fix tree)
import math, sys
import torch
from distributed_shampoo.distributed_shampoo import DistributedShampoo
from distributed_shampoo.shampoo_types import AdaGradGraftingConfig
for dt in (torch.float16, torch.bfloat16, torch.float32, torch.float64):
    p = torch.nn.Parameter(torch.ones(3,4,dtype=dt))
    o = DistributedShampoo([p], lr=.5, betas=(0,1), epsilon=1e-2, grafting_config=AdaGradGraftingConfig(epsilon=1e-3), start_preconditioning_step=1, precondition_frequency=1, preconditioner_dtype=torch.float32)
    out=[]
    for g in (torch.ones, torch.zeros, torch.ones):
        p.grad = g(3,4,dtype=dt); o.step(); out.append(float(p[0,0]))
    print(dt, out)
    if any(math.isnan(x) for x in out): print('NaN after a present zero gradient:', dt); sys.exit(1)
