# aot_eager + dynamic shapes + a parameter split into > 5 blocks: step() raises BackendCompilerFailed (eager works)
import logging, torch
logging.disable(logging.CRITICAL)
from distributed_shampoo.distributed_shampoo import DistributedShampoo
from distributed_shampoo.shampoo_types import AdaGradGraftingConfig, ShampooPT2CompileConfig
p = torch.nn.Parameter(torch.randn(3, 4, dtype=torch.float64))
opt = DistributedShampoo([p], lr=0.1, betas=(0., 1.), max_preconditioner_dim=1, start_preconditioning_step=100, precondition_frequency=100,
                         grafting_config=AdaGradGraftingConfig(epsilon=1e-3), preconditioner_dtype=torch.float64,
                         shampoo_pt2_compile_config=ShampooPT2CompileConfig(pytorch_compile_backend="aot_eager", enable_shampoo_pt2_dynamic_shape=True))
p.grad = torch.randn(3, 4, dtype=torch.float64)
try:
    opt.step(); print("ok")
except Exception as e:
    print("raised", type(e).__name__)
