import torch
from unittest import mock
from distributed_shampoo.distributed_shampoo import DistributedShampoo
from distributed_shampoo.shampoo_types import ShampooPreconditionerConfig
import distributed_shampoo.utils.shampoo_preconditioner_list as pl
torch.manual_seed(0)
ps=[torch.nn.Parameter(torch.randn(3,4)) for _ in range(2)]
opt=DistributedShampoo(ps,lr=0.1,betas=(0.,1.),precondition_frequency=1,start_preconditioning_step=1,
    preconditioner_config=ShampooPreconditionerConfig(num_tolerated_failed_amortized_computations=3))
def boom(*a,**k): raise RuntimeError("boom")
raised=None
with mock.patch.object(pl,"matrix_inverse_root",side_effect=boom):
    for t in range(1,13):
        ps[0].grad=torch.randn(3,4)
        ps[1].grad=torch.randn(3,4) if t%2==0 else None
        try: opt.step()
        except ValueError as e:
            raised=t; break
print("raised at step",raised)
