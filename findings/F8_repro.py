import torch
from optimizer_modules import OptimizerModule
from distributed_shampoo.utils.shampoo_checkpoint_utils import flatten, unflatten
class M(OptimizerModule):
    def __init__(self): self.x=([], torch.tensor([1.,2.]))
m=M(); m2=M(); m2.x[1].fill_(7.)
try:
    m.load_state_dict(unflatten(flatten(m2.state_dict()))); print("ok", m.x[1].tolist())
except Exception as e: print(type(e).__name__, e)
