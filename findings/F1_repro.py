import torch, logging
from distributed_shampoo.distributed_shampoo import DistributedShampoo
from distributed_shampoo.shampoo_types import SGDGraftingConfig
p=torch.nn.Parameter(torch.ones(3,4,dtype=torch.float64))
opt=DistributedShampoo([p],lr=0.5,betas=(0.5,1.0),start_preconditioning_step=100,precondition_frequency=100,use_bias_correction=False,grafting_config=SGDGraftingConfig())
p.grad=torch.ones(3,4,dtype=torch.float64)
opt.step()
sd=opt.distributed_state_dict(key_to_param=[("p",p)])
sd=sd["state"]["p"]; k=[k for k in sd if "filtered_grad" in k][0]
print(k, sd[k].flatten()[0].item(), "param", p.flatten()[0].item())
