# a gradient with non-default strides + merged dims: step() raised RuntimeError before fix (reshape instead of view)
import logging, torch
logging.disable(logging.CRITICAL)
from distributed_shampoo.distributed_shampoo import DistributedShampoo
from distributed_shampoo.shampoo_types import SGDGraftingConfig
p = torch.nn.Parameter(torch.ones(3, 4, dtype=torch.float64))
o = DistributedShampoo([p], lr=.5, betas=(0., 1.), grafting_config=SGDGraftingConfig(), start_preconditioning_step=100, precondition_frequency=100,
                       max_preconditioner_dim=1024, use_merge_dims=True, preconditioner_dtype=torch.float64)
p.grad = torch.arange(12., dtype=torch.float64).reshape(3, 4).t().contiguous().t()
try:
    o.step(); print("ok", p.detach().flatten()[:4].tolist())
except RuntimeError as e:
    print("raised", str(e)[:80])
