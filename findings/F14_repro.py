# F14  C07:rank-with-empty-parameter-group-refused - run: PYTHONPATH=/repo:/verif /venv/bin/python findings/F14_repro.py
import math, torch
from unittest import mock
import distributed_shampoo.utils.shampoo_fsdp_distributor as fmod
from distributed_shampoo.distributed_shampoo import DistributedShampoo
from distributed_shampoo.shampoo_types import FSDPShampooConfig, FSDPParameterMetadata
from torch.distributed.fsdp import ShardingStrategy
# two (2,3) parameters in one flat parameter of 12 elements, 2 shard ranks cut at 4: rank 0 holds [0,4) of p0 and NOTHING of p1
shapes = [(2, 3), (2, 3)]
ranges_rank0 = [(0, 4), (0, 0)]
params, meta = [], {}
for k, (sh, (a, b)) in enumerate(zip(shapes, ranges_rank0)):
    p = torch.nn.Parameter(torch.randn(b - a)); params.append(p)
    meta[p] = FSDPParameterMetadata(f"p{k}", torch.Size(sh), math.prod(sh), a, b, ShardingStrategy.FULL_SHARD)
with mock.patch.object(fmod.dist, "get_rank", lambda *a, **k: 0):
    DistributedShampoo(params, lr=0.01, distributed_config=FSDPShampooConfig(param_to_metadata=meta)); print("one group: constructs (empty shard of p1 ignored)")
    try:
        DistributedShampoo([{"params": [params[0]]}, {"params": [params[1]]}], lr=0.01, distributed_config=FSDPShampooConfig(param_to_metadata=meta))
        print("two groups: constructs")
    except AssertionError as e:
        print("two groups: AssertionError:", str(e)[:90])
