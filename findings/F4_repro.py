import torch, logging, copy
logging.disable(logging.CRITICAL)
from distributed_shampoo.distributed_shampoo import DistributedShampoo
from distributed_shampoo.shampoo_types import ShampooPreconditionerConfig
def mk(p, **kw): return DistributedShampoo([p],lr=0.1,betas=(0.9,0.99),start_preconditioning_step=1,precondition_frequency=1,**kw)
for kw in (dict(preconditioner_config=ShampooPreconditionerConfig(ignored_dims=[0,1])), dict(preconditioner_config=ShampooPreconditionerConfig(ignored_dims=[0]))):
    torch.manual_seed(0)
    p=torch.nn.Parameter(torch.randn(3,4)); o=mk(p,**kw)
    p.grad=torch.randn(3,4); o.step()
    sd=o.distributed_state_dict(key_to_param=[("p",p)])
    q=torch.nn.Parameter(p.detach().clone()); o2=mk(q,**kw)
    try:
        o2.load_distributed_state_dict(sd,key_to_param=[("p",q)]); print("load own checkpoint: ok")
    except Exception as e: print("load own checkpoint:",type(e).__name__,e)
