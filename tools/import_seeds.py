#!/venv/bin/python
"""Import the two changes a mutation sub-agent left under <worktree>/_seed/{A,B} as /verif/seeded/<Cxx><letter>/.

    /venv/bin/python tools/import_seeds.py C12 /tmp/wt5_c12 [--also C03,C01]

The next free letters are used (C12E, C12F, ...).  meta.json lists the property the change was written against first and
then the properties whose checks are also run against it (--also)."""
import argparse
import json
import shutil
import string
from pathlib import Path

ROOT = Path(__file__).resolve().parent.parent


def main():
    ap = argparse.ArgumentParser()
    ap.add_argument("prop")
    ap.add_argument("worktree")
    ap.add_argument("--also", default="")
    ap.add_argument("--wave", default="7")
    a = ap.parse_args()
    also = [p for p in a.also.split(",") if p]
    made = []
    for sub in ("A", "B"):
        src = Path(a.worktree) / "_seed" / sub
        if not (src / "patch.diff").exists() or not (src / "demo.py").exists():
            print("incomplete:", src)
            continue
        letter = next(l for l in string.ascii_uppercase if not (ROOT / "seeded" / f"{a.prop}{l}").exists())
        dst = ROOT / "seeded" / f"{a.prop}{letter}"
        dst.mkdir(parents=True)
        for f in ("patch.diff", "demo.py", "notes.md"):
            if (src / f).exists():
                shutil.copy(src / f, dst / f)
        notes = (src / "notes.md").read_text() if (src / "notes.md").exists() else ""
        meta = {"id": dst.name, "breaks_property": a.prop, "properties": [a.prop, *also],
                "source": "independent sub-agent given only the property text and a scratch worktree (wave " + a.wave + ")",
                "needs_to_manifest": notes[:1500]}
        (dst / "meta.json").write_text(json.dumps(meta, indent=1) + "\n")
        made.append(dst.name)
    print(" ".join(made))


if __name__ == "__main__":
    main()
