#!/venv/bin/python
"""Evaluate seeded changes against the registered checks.

    /venv/bin/python tools/seed_eval.py <seed-id> [--props C01,C04] [--tier quick] [--in-repo]

For /verif/seeded/<seed-id>/ (patch.diff, demo.py, meta.json) this
  1. makes a scratch copy of /repo's HEAD (a git worktree under /verif/.work/seed_<id>), applies patch.diff there,
  2. runs demo.py on the clean copy (must PASS) and on the patched copy (must FAIL),
  3. runs the pinned test suite on the patched copy (must equal the unchanged tree's counts),
  4. runs ./check <P> for every property in meta.json["properties"] (or --props) with VERIF_REPO pointing at the patched copy,
  5. writes seeded/<seed-id>/result.json and removes the scratch copy.
With --in-repo the patch is applied to /repo itself (git -C /repo apply) and undone afterwards (git -C /repo checkout -- .);
only use that when nothing else is running against /repo.
"""
import argparse
import json
import os
import re
import shutil
import subprocess
import sys
import time
from pathlib import Path

ROOT = Path(__file__).resolve().parent.parent


def sh(cmd, **kw):
    return subprocess.run(cmd, shell=isinstance(cmd, str), capture_output=True, text=True, **kw)


def suite_counts(tree: str) -> str:
    r = sh(f"cd {tree} && PYTHONPATH={tree} /venv/bin/python -m pytest -q -p no:cacheprovider --timeout=900 --continue-on-collection-errors 2>&1 | tail -1")
    m = re.search(r"(\d+ failed, )?(\d+) passed.*?(\d+ errors)?", r.stdout)
    return re.sub(r" in [0-9.]+s.*", "", r.stdout.strip())


def main():
    ap = argparse.ArgumentParser()
    ap.add_argument("seed")
    ap.add_argument("--props", default=None)
    ap.add_argument("--tier", default="quick")
    ap.add_argument("--in-repo", action="store_true")
    ap.add_argument("--skip-suite", action="store_true")
    ap.add_argument("--dir", default="seeded", help="seeded (property-breaking changes) or refactorings (behaviour-preserving changes)")
    a = ap.parse_args()
    sd = ROOT / a.dir / a.seed
    meta = json.loads((sd / "meta.json").read_text())
    props = a.props.split(",") if a.props else meta["properties"]
    res = {"seed": a.seed, "at": time.strftime("%Y-%m-%d %H:%M:%S"), "tier": a.tier, "checks": {}}
    if a.in_repo:
        tree = "/repo"
        clean = None
    else:
        tree = str(ROOT / ".work" / f"seed_{a.seed}")
        sh(f"git -C /repo worktree remove --force {tree}")
        shutil.rmtree(tree, ignore_errors=True)
        r = sh(f"git -C /repo worktree add -q --detach {tree} HEAD")
        assert r.returncode == 0, r.stderr
    try:
        demo = sd / "demo.py"
        equiv = sd / "equiv.py"
        if demo.exists():
            r = sh(f"cd {sd} && PYTHONPATH={tree} timeout 600 /venv/bin/python demo.py")
            res["demo_clean"] = {"exit": r.returncode, "tail": (r.stdout + r.stderr)[-300:]}
        if equiv.exists():
            r = sh(f"cd {sd} && PYTHONPATH={tree} timeout 600 /venv/bin/python equiv.py")
            res["equiv_clean"] = {"exit": r.returncode, "out": r.stdout[-400:]}
        r = sh(f"git -C {tree} apply {sd / 'patch.diff'}")
        if r.returncode != 0:        # /repo has moved on since the patch was made (later fix: commits): try a 3-way merge
            r = sh(f"git -C {tree} apply --3way {sd / 'patch.diff'}")
            res["applied_with_3way"] = r.returncode == 0
        assert r.returncode == 0, "patch does not apply: " + r.stderr
        if demo.exists():
            r = sh(f"cd {sd} && PYTHONPATH={tree} timeout 600 /venv/bin/python demo.py")
            res["demo_patched"] = {"exit": r.returncode, "tail": (r.stdout + r.stderr)[-300:]}
        if equiv.exists():
            r = sh(f"cd {sd} && PYTHONPATH={tree} timeout 600 /venv/bin/python equiv.py")
            res["equiv_patched"] = {"exit": r.returncode, "out": r.stdout[-400:]}
            res["equiv_same_digest"] = res["equiv_patched"]["out"] == res["equiv_clean"]["out"] and r.returncode == 0
        if not a.skip_suite:
            res["suite_patched"] = suite_counts(tree)
        for p in props:
            env = dict(os.environ, VERIF_REPO=tree)
            t0 = time.time()
            evf = ROOT / "evidence" / f"{p}.json"          # evidence must describe runs against /repo itself: keep it
            keep = evf.read_text() if evf.exists() else None
            r = subprocess.run(["./check", p, "--tier", a.tier], cwd=ROOT, env=env, capture_output=True, text=True)
            if keep is not None:
                evf.write_text(keep)
            out = r.stdout + r.stderr
            viol = [l for l in out.splitlines() if l.startswith("VIOLATION") or l.startswith("KNOWN-FINDING")]
            why = [l for l in out.splitlines() if l.startswith("# ")]
            res["checks"][p] = {"exit": r.returncode, "detected": r.returncode != 0 and any(v.startswith("VIOLATION") for v in viol),
                                "no_failing_input_only": bool(viol) and all(("no-failing-input-found" in v) for v in viol if v.startswith("VIOLATION")),
                                "lines": viol[:6], "what": why[:4], "wall_s": round(time.time() - t0, 1)}
            print(p, "exit", r.returncode, *(viol[:2] or ["(no VIOLATION line)"]), sep=" | ")
    finally:
        if a.in_repo:
            sh("git -C /repo checkout -- .")
        else:
            sh(f"git -C /repo worktree remove --force {tree}")
            shutil.rmtree(tree, ignore_errors=True)
    res["detected_by"] = [p for p, c in res["checks"].items() if c["detected"]]
    if a.skip_suite and (sd / "result.json").exists():      # keep what an earlier full evaluation recorded
        try:
            old = json.loads((sd / "result.json").read_text())
            for k in ("suite_patched",):
                if k in old and k not in res:
                    res[k] = old[k]
        except Exception:  # noqa
            pass
    (sd / "result.json").write_text(json.dumps(res, indent=1) + "\n")
    print("detected by:", res["detected_by"] or "NONE")


if __name__ == "__main__":
    main()
